/-
  Mxj.Props.C11 — SetValueForPath / Remove / RenameKey against the abstract get/set/erase
  algebra on nested maps.  Property theorems only; helper lemmas live in Mxj.Lemmas.Mutate.

  Model: Mxj.Model.Mutate (`setValueForPath`, `removePath`, `renameKey existsNoSubs`), which
  returns the new tree; `Except.error` means "error returned, receiver untouched", so every
  `… = .error _` theorem below is also the statement that the Map is not modified.
  Specification: `getPath` / `setPath` / `erasePath` (end of Mxj.Model.Mutate).

  Throughout: `segs` is the non-empty list of path segments, each `keySafe` (non-empty, no
  '.', '[' or '*'); the Go path string is `joinDot segs`; the parent path is `segs.dropLast`.
  `noListBefore m ks` (Mxj.Lemmas.Mutate): no *proper* prefix of `ks` resolves by `getPath`
  to a list — the exact condition under which "missing by getPath" is "missing for the
  walker" (`walk`/`walkLoc` descend through lists of maps).
-/
import Mxj.Lemmas.Mutate
namespace Mxj.C11
open Mxj

/-! ### 1. refinement: SetValueForPath -/

/-- SetValueForPath through nested maps = functional update of exactly that entry -/
theorem C11_set_refines (kvs : Entries) (segs : List Str) (nv pm : Val)
    (hne : segs ≠ []) (hsafe : ∀ s ∈ segs, KeySpec.keySafe s = true)
    (hparent : getPath (.map kvs) segs.dropLast = some pm) (hpm : pm.isMap = true) :
    setValueForPath (.map kvs) nv (joinDot segs) = .ok (setPath nv (.map kvs) segs) := by
  obtain ⟨ks, key, rfl⟩ := exists_snoc segs hne
  rw [List.dropLast_concat] at hparent
  cases pm with
  | map pk => exact setValueForPath_map_parent _ nv ks key pk hsafe hparent
  | _ => simp [Val.isMap] at hpm

/-- a missing parent (no list met before the point where the parent path breaks off) is the
    error `pathNotExist`; no new Map is produced -/
theorem C11_set_missing_parent (kvs : Entries) (segs : List Str) (nv : Val)
    (hne : segs ≠ []) (hsafe : ∀ s ∈ segs, KeySpec.keySafe s = true)
    (hnl : noListBefore (.map kvs) segs.dropLast)
    (hparent : getPath (.map kvs) segs.dropLast = none) :
    setValueForPath (.map kvs) nv (joinDot segs) = .error .pathNotExist := by
  obtain ⟨ks, key, rfl⟩ := exists_snoc segs hne
  rw [List.dropLast_concat] at hparent hnl
  exact setValueForPath_missing_parent _ nv ks key hsafe hnl hparent

/-- documented no-op on a `nil` parent: success, Map unchanged -/
theorem C11_set_nil_parent (kvs : Entries) (segs : List Str) (nv : Val)
    (hne : segs ≠ []) (hsafe : ∀ s ∈ segs, KeySpec.keySafe s = true)
    (hparent : getPath (.map kvs) segs.dropLast = some .null) :
    setValueForPath (.map kvs) nv (joinDot segs) = .ok (.map kvs) := by
  obtain ⟨ks, key, rfl⟩ := exists_snoc segs hne
  rw [List.dropLast_concat] at hparent
  exact setValueForPath_nil_parent _ nv ks key hsafe hparent

/-- a parent that is a non-nil scalar is the error `notAMap` (repaired code; the pinned code
    panics on the failed type assertion) -/
theorem C11_set_scalar_parent (kvs : Entries) (segs : List Str) (nv pm : Val)
    (hne : segs ≠ []) (hsafe : ∀ s ∈ segs, KeySpec.keySafe s = true)
    (hparent : getPath (.map kvs) segs.dropLast = some pm)
    (hm : pm.isMap = false) (hl : pm.isList = false) (hnull : pm ≠ .null) :
    setValueForPath (.map kvs) nv (joinDot segs) = .error .notAMap := by
  obtain ⟨ks, key, rfl⟩ := exists_snoc segs hne
  rw [List.dropLast_concat] at hparent
  exact setValueForPath_scalar_parent _ nv pm ks key hsafe hparent hm hl hnull

/-- a parent that is a list: `ValueForPath(parent)` returns the list's FIRST member, and the
    operation is applied to that member — empty list: `pathNotExist`; first member `nil`:
    no-op; first member a map: the key is set inside that first member (everything else,
    including the other members, unchanged); any other first member: `notAMap`. -/
theorem C11_set_list_parent (kvs : Entries) (segs : List Str) (nv : Val) (xs : List Val)
    (hne : segs ≠ []) (hsafe : ∀ s ∈ segs, KeySpec.keySafe s = true)
    (hparent : getPath (.map kvs) segs.dropLast = some (.list xs)) :
    setValueForPath (.map kvs) nv (joinDot segs) =
      match (generalizing := false) xs with
      | [] => .error .pathNotExist
      | .null :: _ => .ok (.map kvs)
      | .map e :: rest =>
          .ok (setPath (.list (.map (insert (segs.getLast hne) nv e) :: rest)) (.map kvs)
                segs.dropLast)
      | _ :: _ => .error .notAMap := by
  obtain ⟨ks, key, rfl⟩ := exists_snoc segs hne
  simp only [List.dropLast_concat, List.getLast_concat] at hparent ⊢
  have hks : ks ≠ [] := by
    intro e; subst e; simp [getPath_nil] at hparent
  exact setValueForPath_list_parent _ nv ks key xs hsafe hks hparent

/-! ### 1. refinement: Remove -/

theorem C11_remove_refines (kvs : Entries) (segs : List Str)
    (hne : segs ≠ []) (hsafe : ∀ s ∈ segs, KeySpec.keySafe s = true)
    (hv : (getPath (.map kvs) segs).isSome = true) :
    removePath (.map kvs) (joinDot segs) = .ok (erasePath (.map kvs) segs) := by
  obtain ⟨ks, key, rfl⟩ := exists_snoc segs hne
  rw [removePath_joinDot _ ks key hsafe, if_pos hv]

/-- Remove of a path that does not resolve through maps is an error, Map untouched (no side
    condition: `prevValueByPath` only descends through maps) -/
theorem C11_remove_missing (kvs : Entries) (segs : List Str)
    (hne : segs ≠ []) (hsafe : ∀ s ∈ segs, KeySpec.keySafe s = true)
    (hv : getPath (.map kvs) segs = none) :
    removePath (.map kvs) (joinDot segs) = .error .prevNotFound := by
  obtain ⟨ks, key, rfl⟩ := exists_snoc segs hne
  rw [removePath_joinDot _ ks key hsafe, hv]
  rfl

/-! ### 1. refinement: RenameKey -/

/-- RenameKey moves the value unchanged to the new key: remove the old entry, set the new -/
theorem C11_rename_moves (kvs pk : Entries) (segs : List Str) (nn : Str) (v : Val)
    (hne : segs ≠ []) (hsafe : ∀ s ∈ segs, KeySpec.keySafe s = true)
    (hnn : KeySpec.keySafe nn = true)
    (hv : getPath (.map kvs) segs = some v)
    (hparent : getPath (.map kvs) segs.dropLast = some (.map pk))
    (hfresh : lookup nn pk = none) (hnel : noEmptyList (.map kvs) = true) :
    renameKey existsNoSubs (.map kvs) (joinDot segs) nn
      = .ok (setPath v (erasePath (.map kvs) segs) (segs.dropLast ++ [nn])) := by
  obtain ⟨ks, key, rfl⟩ := exists_snoc segs hne
  rw [List.dropLast_concat] at hparent ⊢
  exact renameKey_moves _ v ks key nn pk hsafe hnn hv hparent hfresh hnel

/-- refuses to overwrite an existing sibling at any depth, including the top level
    (`segs = [k]`, where `pk = kvs`) -/
theorem C11_rename_refuses_existing (kvs pk : Entries) (segs : List Str) (nn : Str) (v w : Val)
    (hne : segs ≠ []) (hsafe : ∀ s ∈ segs, KeySpec.keySafe s = true)
    (hnn : KeySpec.keySafe nn = true)
    (hv : getPath (.map kvs) segs = some v)
    (hparent : getPath (.map kvs) segs.dropLast = some (.map pk))
    (hsib : lookup nn pk = some w) (hnel : noEmptyList (.map kvs) = true) :
    renameKey existsNoSubs (.map kvs) (joinDot segs) nn = .error .renameExists := by
  obtain ⟨ks, key, rfl⟩ := exists_snoc segs hne
  rw [List.dropLast_concat] at hparent
  exact renameKey_refuses _ v w ks key nn pk hsafe hnn hv hparent hsib hnel

/-- a path that does not resolve (and meets no list before it breaks off) cannot be renamed -/
theorem C11_rename_missing (kvs : Entries) (segs : List Str) (nn : Str)
    (hsafe : ∀ s ∈ segs, KeySpec.keySafe s = true)
    (hnl : noListBefore (.map kvs) segs)
    (hv : getPath (.map kvs) segs = none) :
    renameKey existsNoSubs (.map kvs) (joinDot segs) nn = .error .renameNotFound :=
  renameKey_missing _ segs nn hsafe hnl hv

/-! ### 2. the get / set / erase algebra ("every other entry unchanged") -/

theorem C11_get_set_same (nv m pm : Val) (segs : List Str) (hne : segs ≠ [])
    (hparent : getPath m segs.dropLast = some pm) (hpm : pm.isMap = true) :
    getPath (setPath nv m segs) segs = some nv := by
  have := getPath_setPath_ext nv segs m pm [] hne hparent hpm
  simpa [getPath_nil] using this

/-- … and below the new value one reads the new value's own entries -/
theorem C11_get_set_below (nv m pm : Val) (segs r : List Str) (hne : segs ≠ [])
    (hparent : getPath m segs.dropLast = some pm) (hpm : pm.isMap = true) :
    getPath (setPath nv m segs) (segs ++ r) = getPath nv r :=
  getPath_setPath_ext nv segs m pm r hne hparent hpm

/-- frame: a path that neither extends `segs` nor is a prefix of it keeps its value (no
    side condition at all: holds for any `m`, well formed or not, parents present or not) -/
theorem C11_set_frame (nv m : Val) (segs q : List Str)
    (h : ¬ segs <+: q) (h' : ¬ q <+: segs) :
    getPath (setPath nv m segs) q = getPath m q :=
  getPath_setPath_frame nv segs q m h h'

/-- a strict prefix `q` of the path (`segs = q ++ r`, `r ≠ []`) keeps its value except along
    the rest of the path: it holds the old subtree with `r` set in it -/
theorem C11_set_prefix (nv m : Val) (q r : List Str) (hr : r ≠ []) :
    getPath (setPath nv m (q ++ r)) q = (getPath m q).map (fun sub => setPath nv sub r) :=
  getPath_setPath_prefix nv q r m hr

theorem C11_get_erase_same (m : Val) (segs : List Str) (hne : segs ≠ []) (hwf : m.wf = true) :
    getPath (erasePath m segs) segs = none := by
  simpa using getPath_erasePath_ext segs m [] hne hwf

theorem C11_get_erase_below (m : Val) (segs r : List Str) (hne : segs ≠ []) (hwf : m.wf = true) :
    getPath (erasePath m segs) (segs ++ r) = none :=
  getPath_erasePath_ext segs m r hne hwf

theorem C11_erase_frame (m : Val) (segs q : List Str)
    (h : ¬ segs <+: q) (h' : ¬ q <+: segs) :
    getPath (erasePath m segs) q = getPath m q :=
  getPath_erasePath_frame segs q m h h'

theorem C11_erase_prefix (m : Val) (q r : List Str) (hr : r ≠ []) :
    getPath (erasePath m (q ++ r)) q = (getPath m q).map (fun sub => erasePath sub r) :=
  getPath_erasePath_prefix q r m hr

/-! ### 3. the property in its own words -/

/-- after a successful set, ValueForPath(path) returns the new value (new value not a list:
    ValueForPath returns a list's first member, see `C11_set_then_get_list`) -/
theorem C11_set_then_get (kvs : Entries) (segs : List Str) (nv pm : Val)
    (hne : segs ≠ []) (hsafe : ∀ s ∈ segs, KeySpec.keySafe s = true)
    (hparent : getPath (.map kvs) segs.dropLast = some pm) (hpm : pm.isMap = true)
    (hnl : nv.isList = false) :
    valueForPath (setPath nv (.map kvs) segs) (joinDot segs) = .ok nv := by
  rw [valueForPath_joinDot _ segs hsafe,
    walk_getPath_some none segs _ nv (safe_ne_star segs hsafe)
      (C11_get_set_same nv _ pm segs hne hparent hpm),
    loadLeaf_none_notList nv hnl]

/-- when the new value is a list, ValueForPath(path) returns its first member (and reports
    `pathNotExist` for the empty list) -/
theorem C11_set_then_get_list (kvs : Entries) (segs : List Str) (xs : List Val) (pm : Val)
    (hne : segs ≠ []) (hsafe : ∀ s ∈ segs, KeySpec.keySafe s = true)
    (hparent : getPath (.map kvs) segs.dropLast = some pm) (hpm : pm.isMap = true) :
    valueForPath (setPath (.list xs) (.map kvs) segs) (joinDot segs) =
      match xs with
      | [] => .error .pathNotExist
      | x :: _ => .ok x := by
  rw [valueForPath_joinDot _ segs hsafe,
    walk_getPath_some none segs _ (.list xs) (safe_ne_star segs hsafe)
      (C11_get_set_same (.list xs) _ pm segs hne hparent hpm),
    loadLeaf_none]
  cases xs <;> rfl

/-- after `erasePath` the path no longer exists (general form: no list before the end) -/
theorem C11_erase_then_gone (kvs : Entries) (segs : List Str)
    (hne : segs ≠ []) (hsafe : ∀ s ∈ segs, KeySpec.keySafe s = true)
    (hwf : (Val.map kvs).wf = true) (hnl : noListBefore (.map kvs) segs) :
    existsNoSubs (erasePath (.map kvs) segs) (joinDot segs) = .ok false :=
  existsNoSubs_erasePath _ segs hne hsafe hwf hnl

/-- after a successful Remove the path no longer exists -/
theorem C11_remove_then_gone (kvs : Entries) (segs : List Str)
    (hne : segs ≠ []) (hsafe : ∀ s ∈ segs, KeySpec.keySafe s = true)
    (hwf : (Val.map kvs).wf = true) (hv : (getPath (.map kvs) segs).isSome = true) :
    existsNoSubs (erasePath (.map kvs) segs) (joinDot segs) = .ok false := by
  cases hg : getPath (.map kvs) segs with
  | none => simp [hg] at hv
  | some v =>
    exact C11_erase_then_gone kvs segs hne hsafe hwf (noListBefore_of_getPath_some segs _ v hg)

/-- SetValueForPath, in the property's words: it succeeds with a Map in which
    ValueForPath(path) is the new value and every path off `segs` reads as before -/
theorem C11_set_headline (kvs : Entries) (segs : List Str) (nv pm : Val)
    (hne : segs ≠ []) (hsafe : ∀ s ∈ segs, KeySpec.keySafe s = true)
    (hparent : getPath (.map kvs) segs.dropLast = some pm) (hpm : pm.isMap = true)
    (hnl : nv.isList = false) :
    ∃ m', setValueForPath (.map kvs) nv (joinDot segs) = .ok m'
      ∧ valueForPath m' (joinDot segs) = .ok nv
      ∧ getPath m' segs = some nv
      ∧ ∀ q, ¬ segs <+: q → ¬ q <+: segs → getPath m' q = getPath (.map kvs) q :=
  ⟨_, C11_set_refines kvs segs nv pm hne hsafe hparent hpm,
    C11_set_then_get kvs segs nv pm hne hsafe hparent hpm hnl,
    C11_get_set_same nv _ pm segs hne hparent hpm,
    fun q h h' => C11_set_frame nv _ segs q h h'⟩

/-- Remove, in the property's words -/
theorem C11_remove_headline (kvs : Entries) (segs : List Str)
    (hne : segs ≠ []) (hsafe : ∀ s ∈ segs, KeySpec.keySafe s = true)
    (hwf : (Val.map kvs).wf = true) (hv : (getPath (.map kvs) segs).isSome = true) :
    ∃ m', removePath (.map kvs) (joinDot segs) = .ok m'
      ∧ existsNoSubs m' (joinDot segs) = .ok false
      ∧ getPath m' segs = none
      ∧ ∀ q, ¬ segs <+: q → ¬ q <+: segs → getPath m' q = getPath (.map kvs) q :=
  ⟨_, C11_remove_refines kvs segs hne hsafe hv,
    C11_remove_then_gone kvs segs hne hsafe hwf hv,
    C11_get_erase_same _ segs hne hwf,
    fun q h h' => C11_erase_frame _ segs q h h'⟩

/-- RenameKey, in the property's words: the value sits unchanged under the new key, the old
    path is gone, and every path off both the old and the new path reads as before -/
theorem C11_rename_headline (kvs pk : Entries) (segs : List Str) (nn : Str) (v : Val)
    (hne : segs ≠ []) (hsafe : ∀ s ∈ segs, KeySpec.keySafe s = true)
    (hnn : KeySpec.keySafe nn = true) (hwf : (Val.map kvs).wf = true)
    (hv : getPath (.map kvs) segs = some v)
    (hparent : getPath (.map kvs) segs.dropLast = some (.map pk))
    (hfresh : lookup nn pk = none) (hnel : noEmptyList (.map kvs) = true) :
    ∃ m', renameKey existsNoSubs (.map kvs) (joinDot segs) nn = .ok m'
      ∧ getPath m' (segs.dropLast ++ [nn]) = some v
      ∧ getPath m' segs = none
      ∧ ∀ q, ¬ segs <+: q → ¬ q <+: segs →
          ¬ (segs.dropLast ++ [nn]) <+: q → ¬ q <+: (segs.dropLast ++ [nn]) →
          getPath m' q = getPath (.map kvs) q := by
  refine ⟨_, C11_rename_moves kvs pk segs nn v hne hsafe hnn hv hparent hfresh hnel, ?_, ?_, ?_⟩
  · obtain ⟨ks, key, rfl⟩ := exists_snoc segs hne
    rw [List.dropLast_concat] at hparent ⊢
    refine C11_get_set_same v _ (.map (erase key pk)) (ks ++ [nn]) (by simp) ?_ rfl
    rw [List.dropLast_concat, C11_erase_prefix _ ks [key] (by simp), hparent]
    rfl
  · obtain ⟨ks, key, rfl⟩ := exists_snoc segs hne
    rw [List.dropLast_concat] at hparent ⊢
    have hkn : key ≠ nn := by
      intro e; subst e
      rw [getPath_snoc _ ks key pk hparent, hfresh] at hv
      cases hv
    have hd : ∀ a b : Str, a ≠ b → ¬ (ks ++ [a]) <+: (ks ++ [b]) := by
      intro a b hab hp
      have := List.IsPrefix.eq_of_length hp (by simp)
      exact hab (by simpa using this)
    rw [C11_set_frame v _ (ks ++ [nn]) (ks ++ [key]) (hd nn key (Ne.symm hkn)) (hd key nn hkn)]
    exact C11_get_erase_same _ _ (by simp) hwf
  · intro q h1 h2 h3 h4
    rw [C11_set_frame v _ _ q h3 h4, C11_erase_frame _ segs q h1 h2]

/-- the results are again well-formed Maps (distinct keys), so the theorems compose -/
theorem C11_set_wf (nv m : Val) (segs : List Str) (hwf : m.wf = true) (hnv : nv.wf = true) :
    (setPath nv m segs).wf = true :=
  wf_setPath nv hnv segs m hwf

theorem C11_erase_wf (m : Val) (segs : List Str) (hwf : m.wf = true) :
    (erasePath m segs).wf = true :=
  wf_erasePath segs m hwf

/-! ### the hypotheses are satisfiable: {"a":{"b":1,"c":2},"d":3} -/

def sampleE : Entries :=
  [(['a'], .map [(['b'], .num ['1']), (['c'], .num ['2'])]), (['d'], .num ['3'])]

example : joinDot [['a'], ['b']] = "a.b".toList ∧ joinDot [['a']] = "a".toList := by decide

example : (Val.map sampleE).wf = true ∧ noEmptyList (.map sampleE) = true
    ∧ (∀ s ∈ [['a'], ['b']], KeySpec.keySafe s = true) ∧ KeySpec.keySafe ['d'] = true
    ∧ getPath (.map sampleE) [['a'], ['b']] = some (.num ['1'])
    ∧ getPath (.map sampleE) [['a'], ['b']].dropLast
        = some (.map [(['b'], .num ['1']), (['c'], .num ['2'])])
    ∧ getPath (.map sampleE) [['a']].dropLast = some (.map sampleE)
    ∧ lookup ['d'] sampleE = some (.num ['3'])
    ∧ lookup ['z'] sampleE = none := by decide

/-- set "a.b" := 9 -/
example : setValueForPath (.map sampleE) (.num ['9']) "a.b".toList
    = .ok (.map [(['a'], .map [(['b'], .num ['9']), (['c'], .num ['2'])]), (['d'], .num ['3'])]) :=
  C11_set_refines sampleE [['a'], ['b']] (.num ['9']) _ (by decide) (by decide)
    (by decide : getPath (.map sampleE) [['a']] = some (.map [(['b'], .num ['1']), (['c'], .num ['2'])]))
    rfl

/-- set "a.x.y": the parent "a.x" is missing -/
example : setValueForPath (.map sampleE) (.num ['9']) "a.x.y".toList = .error .pathNotExist :=
  C11_set_missing_parent sampleE [['a'], ['x'], ['y']] _ (by decide) (by decide)
    (noListBefore_of_B _ _ (by decide)) (by decide)

/-- set "d.y": the parent "d" is a number -/
example : setValueForPath (.map sampleE) (.num ['9']) "d.y".toList = .error .notAMap :=
  C11_set_scalar_parent sampleE [['d'], ['y']] _ (.num ['3']) (by decide) (by decide)
    (by decide) rfl rfl (by decide)

/-- remove "a.b" -/
example : removePath (.map sampleE) "a.b".toList
    = .ok (.map [(['a'], .map [(['c'], .num ['2'])]), (['d'], .num ['3'])]) :=
  C11_remove_refines sampleE [['a'], ['b']] (by decide) (by decide) (by decide)

example : existsNoSubs (erasePath (.map sampleE) [['a'], ['b']]) "a.b".toList = .ok false :=
  C11_remove_then_gone sampleE [['a'], ['b']] (by decide) (by decide) (by decide) (by decide)

/-- rename "a.b" to "z" -/
example : renameKey existsNoSubs (.map sampleE) "a.b".toList ['z']
    = .ok (.map [(['a'], .map [(['c'], .num ['2']), (['z'], .num ['1'])]), (['d'], .num ['3'])]) :=
  C11_rename_moves sampleE [(['b'], .num ['1']), (['c'], .num ['2'])] [['a'], ['b']] ['z']
    (.num ['1']) (by decide) (by decide) (by decide) (by decide) (by decide) (by decide)
    (by decide)

/-- rename "a.b" onto its existing sibling "c" is refused -/
example : renameKey existsNoSubs (.map sampleE) "a.b".toList ['c'] = .error .renameExists :=
  C11_rename_refuses_existing sampleE [(['b'], .num ['1']), (['c'], .num ['2'])] [['a'], ['b']]
    ['c'] (.num ['1']) (.num ['2']) (by decide) (by decide) (by decide) (by decide) (by decide)
    (by decide) (by decide)

/-- the top-level case: rename "a" onto the existing top-level key "d" is refused -/
example : renameKey existsNoSubs (.map sampleE) "a".toList ['d'] = .error .renameExists :=
  C11_rename_refuses_existing sampleE sampleE [['a']] ['d'] _ (.num ['3'])
    (by decide) (by decide) (by decide)
    (by decide : getPath (.map sampleE) [['a']] = some (.map [(['b'], .num ['1']), (['c'], .num ['2'])]))
    (by decide) (by decide) (by decide)

/-! ### why the side conditions are there (concrete counterexamples) -/

/-- `noListBefore` in `C11_set_missing_parent`: on {"a":[{"b":{}}]} the parent "a.b" is missing
    for `getPath`, but the walker descends through the list, and the set succeeds inside the
    list's first member. -/
example :
    let m : Val := .map [(['a'], .list [.map [(['b'], .map [])]])]
    getPath m [['a'], ['b']] = none ∧
    setValueForPath m (.num ['9']) (joinDot [['a'], ['b'], ['c']])
      = .ok (.map [(['a'], .list [.map [(['b'], .map [(['c'], .num ['9'])])]])]) := by
  refine ⟨by decide, ?_⟩
  show setValueForPath _ _ (joinDot ([['a'], ['b']] ++ [['c']])) = _
  rw [setValueForPath_joinDot _ _ _ _ (by decide)]
  simp [walkLoc, lookup, getLoc, updLoc, insert]

/-- `noListBefore` in `C11_rename_missing`: on {"a":[{"b":1}]} the path "a.b" is missing for
    `getPath` but `Exists("a.b")` is true; RenameKey then fails later with `prevNotFound`
    (still an error, Map untouched, but not `renameNotFound`). -/
example :
    let m : Val := .map [(['a'], .list [.map [(['b'], .num ['1'])]])]
    getPath m [['a'], ['b']] = none ∧
    existsNoSubs m (joinDot [['a'], ['b']]) = .ok true ∧
    renameKey existsNoSubs m (joinDot [['a'], ['b']]) ['z'] = .error .prevNotFound := by
  refine ⟨by decide, ?_, ?_⟩
  · rw [existsNoSubs_joinDot _ _ (by decide)]
    simp [walk, lookup, loadLeaf]
  · show renameKey _ _ (joinDot ([['a']] ++ [['b']])) _ = _
    rw [renameKey_joinDot _ _ _ _ (by decide) (by decide)]
    simp [walk, lookup, loadLeaf, getPath]

/-- `noEmptyList` in `C11_rename_moves`: a key holding an empty list does not `Exists`, so it
    cannot be renamed although `getPath` finds it. -/
example :
    let m : Val := .map [(['a'], .list []), (['d'], .num ['3'])]
    getPath m [['a']] = some (.list []) ∧ noEmptyList m = false ∧
    renameKey existsNoSubs m (joinDot [['a']]) ['z'] = .error .renameNotFound := by
  refine ⟨by decide, by decide, ?_⟩
  apply renameKey_not_found
  rw [existsNoSubs_joinDot _ _ (by decide)]
  simp [walk, lookup, loadLeaf]

/-- `wf` in `C11_get_erase_same`: with a duplicate key (impossible for a Go map) erasing the
    first occurrence uncovers the second. -/
example :
    let m : Val := .map [(['a'], .num ['1']), (['a'], .num ['2'])]
    m.wf = false ∧ getPath (erasePath m [['a']]) [['a']] = some (.num ['2']) := by decide

/-- the frame condition must exclude prefixes of the path: the parent "a" of "a.b" changes
    (exactly as `C11_set_prefix` says). -/
example :
    let m : Val := .map [(['a'], .map [(['b'], .num ['1'])])]
    getPath m [['a']] = some (.map [(['b'], .num ['1'])]) ∧
    getPath (setPath (.num ['9']) m [['a'], ['b']]) [['a']] = some (.map [(['b'], .num ['9'])]) := by
  decide

end Mxj.C11
