/-
  Mxj.Props.C04ExtTok — the sequence codec at BYTE level, through the executable tokenizer model
  (`Model/Tokenizer.lean`, `Mxj.Tokz.tokenize` = `xml.Decoder.RawToken` until EOF).

  `Props/C04.lean` proves the round trip NewMapXmlSeq → MapSeq.Xml at token/tree level and
  "bytes = rendering" (`C04_bytes_are_rendering_goEmpty`, `C04_roundtrip_bytes`); the step from the
  bytes back to tokens was trusted.  Here:

    * `C04_tok_law_seq`: tokenizing the canonical rendering `renderSeq true ge n` (escaping on,
      either empty-element syntax) of a sequence tree — elements, text, COMMENTS and PROCESSING
      INSTRUCTIONS in any positions — yields exactly `flatten n`, for every tree satisfying the
      executable predicate `SeqTokOk` (Lemmas/SeqTok.lean):
        - name spaces empty, element / attribute names and PI targets ASCII colon-free XML names
          (`xmlNameOk`), attribute values and text made of round-trippable XML characters
          (`xmlCharsOk`), no empty text node, no two adjacent text nodes;
        - comment texts without `--` and not ending in `-` (`commentOk`);
        - PI texts without `?>` (`piTextOk`) and not beginning with white space (`noLeadSp`);
        - NO directive node (`<!…>`): directives are outside the tokenizer model.
      Each condition is needed: `decide`d witnesses below.
    * `C04_tok_law_seq_then`: the same in front of any accepted continuation (documents in a file).
    * `C04_tok_roundtrip_bytes`: hypothesis-free (no tokenizer law assumed) byte-level round trip:
      decode the tokens of a source document with the sequence decoder, encode with `MapSeq.Xml`
      (escaping on, Go empty-element syntax as in `C04_roundtrip_bytes`), TOKENIZE THE BYTES with
      the model, decode again: the same MapSeq.
    * PREFIXED NAMES (Lemmas/SeqTokQ.lean): the encoder writes a name as the key spells it
      (`qualify`: `p:l`), the tokenizer hands it over split at the colon.  `C04_tok_law_seq_qualified`:
      `tokenize (renderSeq true ge (qualify seqDflt n)) = some (flatten n)` under `SeqTokOkQ`
      (= `SeqTokOk` with every name space absent or an XML name); `C04_tok_roundtrip_bytes_qualified`:
      the byte-level round trip for documents with name-space prefixes and xmlns attributes.
-/
import Mxj.Lemmas.SeqTokQ
namespace Mxj.C04
open Mxj Mxj.SeqL Mxj.SeqIL Mxj.Dec Mxj.Tokz

/-- the tokenizer law for the sequence renderer: the tokens of the rendering are the flattening
    of the tree -/
theorem C04_tok_law_seq (ge : Bool) (n : Node) (h : SeqTokOk n = true) :
    tokenize (renderSeq true ge n) = some (flatten n) :=
  tokenize_renderSeq ge n h

/-- … in the total form (`tokens`: a syntax error yields no tokens) -/
theorem C04_tok_law_seq_tokens (ge : Bool) (n : Node) (h : SeqTokOk n = true) :
    tokens (renderSeq true ge n) = flatten n := by
  simp [tokens, C04_tok_law_seq ge n h]

/-- … in front of any input the tokenizer accepts (markup nodes: the rendering is closed, nothing
    of what follows is read into it) -/
theorem C04_tok_law_seq_then (ge : Bool) (n : Node) (h : SeqTokOk n = true)
    (hn : Tokz.isTextNode n = false) (rest : Str) (ts : List Tok) (hr : tokenize rest = some ts) :
    tokenize (renderSeq true ge n ++ rest) = some (flatten n ++ ts) := by
  simp only [SeqTokOk, Bool.and_eq_true] at h
  exact tok_seq_node ge n rest ts h.1 h.2 (fun ht => by simp [hn] at ht) hr

/-- … for a run of sibling nodes (the content of an element) followed by markup -/
theorem C04_tok_law_seq_kids (ge : Bool) (ks : List Node) (hw : seqTokKids ks = true)
    (ha : noAdjTextKids ks = true) (rest : Str) (ts : List Tok) (hl : startsLt rest = true)
    (hr : tokenize rest = some ts) :
    tokenize (renderSeqKids true ge ks ++ rest) = some (flattenKids ks ++ ts) :=
  tok_seq_kids ge ks rest ts hw ha hl hr

/-- the pieces: a comment / a processing instruction is one token whatever follows -/
theorem C04_tok_comment (s rest : Str) (ts : List Tok) (h : commentOk s = true)
    (hr : tokenize rest = some ts) :
    tokenize (renderSeq true true (.comment s) ++ rest) = some (Tok.comment s :: ts) := by
  have := tok_seq_node true (.comment s) rest ts (by simpa [seqTokNode] using h) rfl
    (fun ht => by simp [Tokz.isTextNode] at ht) hr
  simpa [flatten] using this

theorem C04_tok_procinst (t i rest : Str) (ts : List Tok) (ht : xmlNameOk t = true)
    (hl : noLeadSp i = true) (hi : piTextOk i = true) (hr : tokenize rest = some ts) :
    tokenize (renderSeq true true (.procinst t i) ++ rest) = some (Tok.procinst t i :: ts) := by
  have := tok_seq_node true (.procinst t i) rest ts (by simp [seqTokNode, ht, hl, hi]) rfl
    (fun h => by simp [Tokz.isTextNode] at h) hr
  simpa [flatten] using this

/-- trees in the law's domain are their own qualified form (all name spaces empty), so the
    existing byte theorem speaks about `renderSeq` of the normalised document itself -/
theorem C04_tok_qualify_id (n : Node) (h : SeqTokOk n = true) : qualify seqDflt n = n := by
  simp only [SeqTokOk, Bool.and_eq_true] at h
  exact qualify_id n h.1

/-- BYTE-LEVEL ROUND TRIP, no tokenizer hypothesis: decode the token stream of an in-domain
    document, call `msv.Xml()` (escaping on, `XmlGoEmptyElemSyntax`), tokenize the bytes with the
    tokenizer model, decode the tokens: the same MapSeq.  The tokens in between are those of the
    normalised document. -/
theorem C04_tok_roundtrip_bytes (S : Strconv) (fin fin' : StreamEnd) (pre post : List Tok)
    (hpre : ∀ t ∈ pre, isText t = true) (sp name : Str) (attrs : List Attr) (kids : List Node)
    (hd : SeqDomain (.elem sp name attrs kids) = true)
    (hw : SeqTokOk (normalize (.elem sp name attrs kids)) = true) :
    ∃ m bytes toks,
      newMapXmlSeq seqDflt S (pre ++ flatten (.elem sp name attrs kids) ++ post) fin
        = .ok (.doc (.map m))
      ∧ mapSeqXml seqDflt true true m = .ok bytes
      ∧ bytes = renderSeq true true (normalize (.elem sp name attrs kids))
      ∧ tokenize bytes = some toks
      ∧ toks = flatten (normalize (.elem sp name attrs kids))
      ∧ newMapXmlSeq seqDflt S toks fin' = .ok (.doc (.map m)) := by
  have h1 := newMapXmlSeq_tree seqDflt S fin pre post hpre sp name attrs kids
  have h2 := mapSeqXml_roundtrip seqDflt S cfgOk_dflt true sp name attrs kids hd
  have hq := C04_tok_qualify_id _ hw
  unfold normalize at hq hw
  rw [hq] at h2
  have h3 := C04_tok_law_seq true _ hw
  refine ⟨_, _, _, h1, h2, rfl, h3, rfl, ?_⟩
  have h5 := newMapXmlSeq_tree seqDflt S fin' [] [] (by simp) sp name attrs
    (normalizeKidsC seqDflt kids)
  simp only [List.nil_append, List.append_nil] at h5
  have hv := value_normalize seqDflt S cfgOk_dflt.ts _ (tfAll_of_domain seqDflt _ hd)
  simp only [normalizeC] at hv
  simp only [normalizeC, h5, SeqFold.doc, hv]

/-! ### prefixed names -/

/-- the tokenizer law for the sequence renderer with prefixes: the rendering of the QUALIFIED tree
    (names as the MapSeq keys spell them, `prefix:local`) tokenizes to the flattening of the tree
    itself (name space = prefix, as `RawToken` hands it over) -/
theorem C04_tok_law_seq_qualified (ge : Bool) (n : Node) (h : SeqTokOkQ n = true) :
    tokenize (renderSeq true ge (qualify seqDflt n)) = some (flatten n) :=
  tokenize_renderSeq_q ge n h

/-- … in front of any accepted input -/
theorem C04_tok_law_seq_qualified_then (ge : Bool) (n : Node) (h : SeqTokOkQ n = true)
    (hn : Tokz.isTextNode n = false) (rest : Str) (ts : List Tok) (hr : tokenize rest = some ts) :
    tokenize (renderSeq true ge (qualify seqDflt n) ++ rest) = some (flatten n ++ ts) := by
  simp only [SeqTokOkQ, Bool.and_eq_true] at h
  exact tok_seq_node_q ge n rest ts h.1 h.2 (fun ht => by simp [hn] at ht) hr

/-- BYTE-LEVEL ROUND TRIP with name-space prefixes, no tokenizer hypothesis: as
    `C04_tok_roundtrip_bytes`, the bytes being the rendering of the qualified normal form -/
theorem C04_tok_roundtrip_bytes_qualified (S : Strconv) (fin fin' : StreamEnd)
    (pre post : List Tok) (hpre : ∀ t ∈ pre, isText t = true) (sp name : Str)
    (attrs : List Attr) (kids : List Node)
    (hd : SeqDomain (.elem sp name attrs kids) = true)
    (hw : SeqTokOkQ (normalize (.elem sp name attrs kids)) = true) :
    ∃ m bytes toks,
      newMapXmlSeq seqDflt S (pre ++ flatten (.elem sp name attrs kids) ++ post) fin
        = .ok (.doc (.map m))
      ∧ mapSeqXml seqDflt true true m = .ok bytes
      ∧ bytes = renderSeq true true (qualify seqDflt (normalize (.elem sp name attrs kids)))
      ∧ tokenize bytes = some toks
      ∧ toks = flatten (normalize (.elem sp name attrs kids))
      ∧ newMapXmlSeq seqDflt S toks fin' = .ok (.doc (.map m)) := by
  have h1 := newMapXmlSeq_tree seqDflt S fin pre post hpre sp name attrs kids
  have h2 := mapSeqXml_roundtrip seqDflt S cfgOk_dflt true sp name attrs kids hd
  unfold normalize at hw
  have h3 := C04_tok_law_seq_qualified true _ hw
  refine ⟨_, _, _, h1, h2, rfl, h3, rfl, ?_⟩
  have h5 := newMapXmlSeq_tree seqDflt S fin' [] [] (by simp) sp name attrs
    (normalizeKidsC seqDflt kids)
  simp only [List.nil_append, List.append_nil] at h5
  have hv := value_normalize seqDflt S cfgOk_dflt.ts _ (tfAll_of_domain seqDflt _ hd)
  simp only [normalizeC] at hv
  simp only [normalizeC, h5, SeqFold.doc, hv]

/-- `<p:r xmlns:p="urn:p" p:k="a&amp;b"> t <p:a></p:a><!--c--><b x="1"></b></p:r>` -/
def nsTree : Node :=
  .elem "p".toList "r".toList
    [⟨"xmlns".toList, "p".toList, "urn:p".toList⟩, ⟨"p".toList, "k".toList, "a&b".toList⟩]
    [.text " t ".toList,
     .elem "p".toList "a".toList [] [],
     .comment "c".toList,
     .elem [] "b".toList [⟨[], "x".toList, "1".toList⟩] []]

example : SeqDomain nsTree = true := by decide
example : SeqTokOkQ (normalize nsTree) = true := by decide
example : SeqTokOk (normalize nsTree) = false := by decide
example : renderSeq true true (qualify seqDflt (normalize nsTree))
    = "<p:r xmlns:p=\"urn:p\" p:k=\"a&amp;b\">t<p:a></p:a><!--c--><b x=\"1\"></b></p:r>".toList := by
  rfl
example : tokenize (renderSeq true true (qualify seqDflt (normalize nsTree)))
    = some (flatten (normalize nsTree)) :=
  C04_tok_law_seq_qualified true _ (by decide)
/-- a prefix that is not a name (here: with a colon of its own) is outside the domain: error -/
example : tokenize (renderSeq true true (qualify seqDflt (.elem "a:b".toList "c".toList [] [])))
    = none := by decide

/-! ### non-vacuity: a document with text, attributes that need escaping, a comment, a PI -/

/-- `<r x="1&lt;2" y="&quot;">hi &amp; lo<a>1</a><!--a - note--><?go run? now?><b></b></r>` -/
def tokTree : Node :=
  .elem [] "r".toList [⟨[], "x".toList, "1<2".toList⟩, ⟨[], "y".toList, "\"".toList⟩]
    [.text "hi & lo".toList,
     .elem [] "a".toList [] [.text "1".toList],
     .comment "a - note".toList,
     .procinst "go".toList "run? now".toList,
     .elem [] "b".toList [] []]

example : SeqTokOk tokTree = true := by decide
example : renderSeq true true tokTree
    = "<r x=\"1&lt;2\" y=\"&quot;\">hi &amp; lo<a>1</a><!--a - note--><?go run? now?><b></b></r>".toList := by
  rfl
example : tokenize (renderSeq true true tokTree) = some (flatten tokTree) :=
  C04_tok_law_seq true tokTree (by decide)
example : tokenize (renderSeq true false tokTree) = some (flatten tokTree) :=
  C04_tok_law_seq false tokTree (by decide)

/-- a source document for the round trip: blank text between the children, text to be trimmed -/
def srcTree : Node :=
  .elem [] "r".toList [⟨[], "x".toList, "1<2".toList⟩]
    [.text " hi ".toList,
     .elem [] "a".toList [] [.text "1".toList],
     .text "\n".toList,
     .comment "note".toList,
     .procinst "go".toList "now".toList,
     .elem [] "a".toList [⟨[], "k".toList, "v".toList⟩] []]

example : SeqDomain srcTree = true := by decide
example : SeqTokOk (normalize srcTree) = true := by decide
example : flatten (normalize srcTree) ≠ flatten srcTree := by decide

/-! ### every condition is needed -/

/-- `--` inside a comment: syntax error -/
example : tokenize (renderSeq true true (.elem [] "r".toList [] [.comment "a--b".toList])) = none := by
  decide
/-- a comment ending in `-`: `--->` is a syntax error -/
example : tokenize (renderSeq true true (.elem [] "r".toList [] [.comment "a-".toList])) = none := by
  decide
example : commentOk "a--b".toList = false ∧ commentOk "a-".toList = false
    ∧ commentOk "a-b -".toList = false ∧ commentOk "-a - b".toList = true := by decide
/-- `?>` inside a PI text: the instruction ends early, the remainder is character data -/
example : tokens (renderSeq true true (.elem [] "r".toList [] [.procinst "p".toList "a?>b".toList]))
    ≠ flatten (.elem [] "r".toList [] [.procinst "p".toList "a?>b".toList]) := by decide
/-- a PI text beginning with white space loses it -/
example : tokens (renderSeq true true (.elem [] "r".toList [] [.procinst "p".toList " x".toList]))
    ≠ flatten (.elem [] "r".toList [] [.procinst "p".toList " x".toList]) := by decide
/-- a PI target that is not a name -/
example : tokenize (renderSeq true true (.elem [] "r".toList [] [.procinst "1p".toList "x".toList]))
    = none := by decide
/-- directives are outside the tokenizer MODEL (Go's tokenizer accepts them) -/
example : tokenize (renderSeq true true (.elem [] "r".toList [] [.directive "DOCTYPE x".toList]))
    = none := by decide
/-- escaping off: a `<` in the text is a syntax error -/
example : tokenize (renderSeq false true (.elem [] "r".toList [] [.text "1<2".toList])) = none := by
  decide
/-- adjacent text nodes come back as one token; an empty text node as none -/
example : tokens (renderSeq true true (.elem [] "r".toList [] [.text "x".toList, .text "y".toList]))
    ≠ flatten (.elem [] "r".toList [] [.text "x".toList, .text "y".toList]) := by decide
example : tokens (renderSeq true true (.elem [] "r".toList [] [.text [], .comment "c".toList]))
    ≠ flatten (.elem [] "r".toList [] [.text [], .comment "c".toList]) := by decide
/-- a colon in a name: the tokenizer splits it into space and local part -/
example : tokens (renderSeq true true (.elem [] "p:a".toList [] []))
    ≠ flatten (.elem [] "p:a".toList [] []) := by decide
/-- a carriage return in a text is rewritten to a line feed -/
example : tokens (renderSeq true true (.elem [] "r".toList [] [.text "x\ry".toList]))
    ≠ flatten (.elem [] "r".toList [] [.text "x\ry".toList]) := by decide

end Mxj.C04
