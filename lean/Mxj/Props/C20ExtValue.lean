/-
  Mxj.Props.C20ExtValue — x2j-wrapper's value-extraction functions (x2j-wrapper/x2j.go: MapValue,
  hasAttributes, NewAttributeMap, ValuesForKey with its own walker), modelled in
  `Mxj.Model.WrapperValue` and tied to the Go functions by the driver ops `wmval`, `wvfk`, `wattr`.

  (a) MapValue without attributes is the lookup through nested MAPS (`getPath`, the specification
      C11 uses), except that a path whose first segment is empty returns the whole Map; on its
      successes Map.ValuesForPath returns exactly that value (its members when it is a list).
  (b) hasAttributes answers from a node ALL of whose pairs are present and equal, and for a list
      from the FIRST member that answers.
  (c) the wrapper's ValuesForKey is the core's with one difference: a list stored under the key is
      returned whole by the wrapper and member by member by the core (and "*" is no wildcard).
  (d) NewAttributeMap: "name:value" becomes "-name" ↦ value; anything without exactly one ':' is
      an error.

  Not modelled: the recast flag `r` of MapValue (see Model/WrapperValue).
-/
import Mxj.Lemmas.Wrapper
import Mxj.Lemmas.Mutate
import Mxj.Lemmas.NewMap
import Mxj.Model.WrapperValue
namespace Mxj.C20
open Mxj Mxj.Wrapper

/-! ### (a) the key loop of MapValue -/

private theorem mvLoop_notMap (m : Entries) (v : Val) (ks : List Str) :
    mvLoop m v false ks = if ks = [] then .ok v else .error .noKeysBeyond := by
  cases ks <;> simp [mvLoop]

private theorem mvStart_notMap (v : Val) (h : v.isMap = false) (ks : List Str) :
    mvStart v ks = if ks = [] then .ok v else .error .noKeysBeyond := by
  cases v <;> first | exact mvLoop_notMap _ _ _ | simp [Val.isMap] at h

/-- no keys: the value itself -/
theorem C20_value_walk_nil (m : Val) : mvStart m [] = .ok m := by
  cases m <;> simp [mvStart, mvLoop]

/-- a key at a map: "no key in map" when absent, else the loop goes on AT THE ENTRY (whatever its
    type) -/
theorem C20_value_walk_map (kvs : Entries) (k : Str) (ks : List Str) :
    mvStart (.map kvs) (k :: ks) = match lookup k kvs with
      | none => .error .noKeyInMap
      | some v => mvStart v ks := by
  simp only [mvStart, mvLoop, Bool.not_true, Bool.false_eq_true, if_false]
  cases hl : lookup k kvs with
  | none => rfl
  | some v =>
    cases v <;> first | rfl | (simp only []; rw [mvLoop_notMap, mvLoop_notMap])

/-- a key at anything that is not a map — a LIST included —: "no keys beyond" -/
theorem C20_value_walk_notMap (v : Val) (h : v.isMap = false) (k : Str) (ks : List Str) :
    mvStart v (k :: ks) = .error .noKeysBeyond := by
  rw [mvStart_notMap v h]; simp

/-- the loop succeeds exactly when the keys name an entry through nested maps, and returns that
    entry (`getPath` is the declarative lookup of C11) -/
theorem C20_value_walk_iff : ∀ (ks : List Str) (m r : Val),
    mvStart m ks = .ok r ↔ getPath m ks = some r := by
  intro ks
  induction ks with
  | nil => intro m r; rw [C20_value_walk_nil, getPath_nil]; simp
  | cons k ks ih =>
    intro m r
    cases hm : m.isMap with
    | false =>
      rw [C20_value_walk_notMap m hm, getPath_notMap_cons m k ks hm]; simp
    | true =>
      cases m with
      | map kvs =>
        rw [C20_value_walk_map, getPath_map_cons]
        cases hl : lookup k kvs with
        | none => simp
        | some v => simp only [Option.bind_some]; exact ih v r
      | _ => simp [Val.isMap] at hm

/-- its only errors are the two of the loop -/
theorem C20_value_walk_err : ∀ (ks : List Str) (m : Val) (e : WErr),
    mvStart m ks = .error e → e = .noKeysBeyond ∨ e = .noKeyInMap := by
  intro ks
  induction ks with
  | nil => intro m e h; rw [C20_value_walk_nil] at h; cases h
  | cons k ks ih =>
    intro m e h
    cases hm : m.isMap with
    | false => rw [C20_value_walk_notMap m hm] at h; cases h; exact Or.inl rfl
    | true =>
      cases m with
      | map kvs =>
        rw [C20_value_walk_map] at h
        cases hl : lookup k kvs with
        | none => rw [hl] at h; cases h; exact Or.inr rfl
        | some v => rw [hl] at h; exact ih v e h
      | _ => simp [Val.isMap] at hm

/-- "no key in map" is reported exactly when a proper prefix of the keys leads to a map that
    lacks the next key -/
theorem C20_value_walk_noKey : ∀ (ks : List Str) (m : Val),
    mvStart m ks = .error .noKeyInMap ↔
      ∃ pre k post kvs, ks = pre ++ k :: post ∧ getPath m pre = some (.map kvs) ∧
        lookup k kvs = none := by
  intro ks
  induction ks with
  | nil => intro m; rw [C20_value_walk_nil]; simp
  | cons k ks ih =>
    intro m
    cases hm : m.isMap with
    | false =>
      rw [C20_value_walk_notMap m hm]
      constructor
      · intro h; cases h
      · rintro ⟨pre, k', post, kvs, he, hg, _⟩
        cases pre with
        | nil => rw [getPath_nil] at hg; cases hg; simp [Val.isMap] at hm
        | cons p pre => rw [getPath_notMap_cons m p pre hm] at hg; cases hg
    | true =>
      cases m with
      | map kvs =>
        rw [C20_value_walk_map]
        cases hl : lookup k kvs with
        | none =>
          simp only [true_iff]
          exact ⟨[], k, ks, kvs, rfl, getPath_nil _, hl⟩
        | some v =>
          simp only []
          rw [ih v]
          constructor
          · rintro ⟨pre, k', post, kvs', he, hg, hn⟩
            refine ⟨k :: pre, k', post, kvs', by rw [he]; rfl, ?_, hn⟩
            rw [getPath_map_cons, hl]; exact hg
          · rintro ⟨pre, k', post, kvs', he, hg, hn⟩
            cases pre with
            | nil =>
              rw [getPath_nil] at hg
              cases hg
              simp only [List.nil_append, List.cons.injEq] at he
              rw [← he.1, hl] at hn; cases hn
            | cons p pre =>
              simp only [List.cons_append, List.cons.injEq] at he
              refine ⟨pre, k', post, kvs', he.2, ?_, hn⟩
              rw [getPath_map_cons, ← he.1, hl] at hg; exact hg
      | _ => simp [Val.isMap] at hm

/-! ### (a) MapValue without attributes -/

/-- MapValue(m, path, nil), first segment not empty: succeeds iff every key of the path names an
    entry of nested maps, and returns exactly that entry -/
theorem C20_value_mapValue_noattr (m : Val) (path : Str) (r : Val)
    (h : (splitDot path).head? ≠ some []) :
    mapValue m path none = .ok r ↔ getPath m (splitDot path) = some r := by
  unfold mapValue
  simp only [h, decide_false, Bool.false_and, Bool.false_eq_true, if_false]
  rw [← C20_value_walk_iff]
  cases mvStart m (splitDot path) <;> simp

/-- … and fails with one of the loop's two errors otherwise -/
theorem C20_value_mapValue_noattr_err (m : Val) (path : Str) (e : WErr)
    (h : (splitDot path).head? ≠ some []) (he : mapValue m path none = .error e) :
    e = .noKeysBeyond ∨ e = .noKeyInMap := by
  unfold mapValue at he
  simp only [h, decide_false, Bool.false_and, Bool.false_eq_true, if_false] at he
  cases hs : mvStart m (splitDot path) with
  | error e' => rw [hs] at he; cases he; exact C20_value_walk_err _ _ _ hs
  | ok v => rw [hs] at he; cases he

/-- the shortcut: a path whose FIRST segment is empty ("" but also ".a.b") returns the whole Map
    when there are no attributes (nil or empty), whatever follows the dot -/
theorem C20_value_mapValue_emptyHead (m : Val) (path : Str) (attr : Option Entries)
    (h : (splitDot path).head? = some []) (ha : attr = none ∨ attr = some []) :
    mapValue m path attr = .ok m := by
  unfold mapValue
  rcases ha with ha | ha <;> subst ha <;> simp [h]

/-- the hypothesis of `C20_value_mapValue_noattr` is needed: ".zz" on `{"a":"x"}` returns the
    Map although no key "" exists -/
theorem C20_value_leadingDot_witness :
    ∃ m path, mapValue m path none = .ok m ∧ getPath m (splitDot path) = none :=
  ⟨.map [(['a'], .str ['x'])], ['.', 'z', 'z'], by rfl, by rfl⟩

/-- relation to the core walker: on a success of MapValue(m, path, nil) with no "*" key,
    `valuesForKeyPath` (the walker of Map.ValuesForPath) returns exactly that value — member by
    member when it is a list -/
theorem C20_value_mapValue_core (m : Val) (path : Str) (v : Val)
    (h : (splitDot path).head? ≠ some []) (hs : ∀ k ∈ splitDot path, k ≠ ['*'])
    (hv : mapValue m path none = .ok v) :
    walk none m (splitDot path) = wLeaf v := by
  rw [C20_value_mapValue_noattr m path v h] at hv
  rw [walk_getPath_some none _ m v hs hv, wLeaf_eq]

/-- … so, not a list: Map.ValuesForPath(path) = [v] -/
theorem C20_value_mapValue_valuesForPath (m : Val) (path : Str) (v : Val)
    (h : (splitDot path).head? ≠ some []) (hs : ∀ k ∈ splitDot path, k ≠ ['*'])
    (h1 : path.contains '[' = false) (h2 : (splitDot path).getLast? ≠ some [])
    (hl : v.isList = false) (hv : mapValue m path none = .ok v) :
    valuesForPath [':'] (fun _ => none) m path [] = .ok [v] := by
  rw [valuesForPath_plain m path h1]
  unfold pathKeys
  rw [dropTrailingEmpty_of_last _ h2, C20_value_mapValue_core m path v h hs hv]
  cases v <;> first | rfl | simp [Val.isList] at hl

/-- … and a list: Map.ValuesForPath(path) returns its members -/
theorem C20_value_mapValue_valuesForPath_list (m : Val) (path : Str) (xs : List Val)
    (h : (splitDot path).head? ≠ some []) (hs : ∀ k ∈ splitDot path, k ≠ ['*'])
    (h1 : path.contains '[' = false) (h2 : (splitDot path).getLast? ≠ some [])
    (hv : mapValue m path none = .ok (.list xs)) :
    valuesForPath [':'] (fun _ => none) m path [] = .ok xs := by
  rw [valuesForPath_plain m path h1]
  unfold pathKeys
  rw [dropTrailingEmpty_of_last _ h2, C20_value_mapValue_core m path _ h hs hv]
  rfl

/-- the "*" hypothesis is needed: MapValue takes "*" as a plain key, the core as a wildcard -/
theorem C20_value_star_witness :
    ∃ m path v, mapValue m path none = .ok v ∧ walk none m (splitDot path) ≠ wLeaf v := by
  refine ⟨.map [(['*'], .str ['x']), (['a'], .str ['y'])], ['*'], .str ['x'], by rfl, ?_⟩
  have hs : splitDot ['*'] = [['*']] := by decide
  rw [hs]
  simp [walk, loadLeaf, passSubs, wLeaf]

/-! ### (b) hasAttributes -/

/-- a map node holds a pair: the name is present and the values are equal in Go's sense -/
def holdsPair (nv : Entries) (p : Str × Val) : Prop :=
  ∃ vv, lookup p.1 nv = some vv ∧ attrEq p.2 vv = true

/-- what a qualifying node yields: its "#text" entry when it has one, else the node -/
def nodeResult (nv : Entries) : Val :=
  match lookup ['#', 't', 'e', 'x', 't'] nv with
  | some vv => vv
  | none => .map nv

/-- the pair loop succeeds exactly when the node holds ALL the pairs (a statement about the set
    of pairs: the order in which Go ranges over the attribute map does not matter for success) -/
theorem C20_value_attrsMatch_ok_iff (nv : Entries) : ∀ a : Entries,
    attrsMatch nv a = .ok () ↔ ∀ p ∈ a, holdsPair nv p := by
  intro a
  induction a with
  | nil => simp [attrsMatch]
  | cons p rest ih =>
    obtain ⟨k, val⟩ := p
    simp only [attrsMatch, List.mem_cons, forall_eq_or_imp, holdsPair]
    cases hl : lookup k nv with
    | none => simp
    | some vv =>
      cases he : attrEq val vv with
      | true => simpa [he, holdsPair] using ih
      | false => simp [he]

/-- its errors: a missing name or an unequal value -/
theorem C20_value_attrsMatch_err (nv : Entries) : ∀ (a : Entries) (e : WErr),
    attrsMatch nv a = .error e → e = .noAttrName ∨ e = .noAttrPair := by
  intro a
  induction a with
  | nil => intro e h; simp [attrsMatch] at h
  | cons p rest ih =>
    obtain ⟨k, val⟩ := p
    intro e h
    simp only [attrsMatch] at h
    cases hl : lookup k nv with
    | none => rw [hl] at h; cases h; exact Or.inl rfl
    | some vv =>
      rw [hl] at h
      cases he : attrEq val vv with
      | true => simp only [he, if_true] at h; exact ih e h
      | false => simp [he] at h; exact Or.inr h.symm

/-- map node: a value is returned exactly when ALL pairs are held, and it is the "#text" entry
    when present, else the node itself -/
theorem C20_value_hasAttr_map (a nv : Entries) (r : Val) :
    hasAttributes a (.map nv) = .ok r ↔ (∀ p ∈ a, holdsPair nv p) ∧ r = nodeResult nv := by
  rw [← C20_value_attrsMatch_ok_iff]
  simp only [hasAttributes, nodeResult]
  cases attrsMatch nv a with
  | error e => simp
  | ok u =>
    cases lookup ['#', 't', 'e', 'x', 't'] nv <;> simp [eq_comm]

/-- anything that is neither a list nor a map has no attributes -/
theorem C20_value_hasAttr_scalar (a : Entries) (v : Val) (h1 : v.isMap = false)
    (h2 : v.isList = false) : hasAttributes a v = .error .noAttrMatch := by
  cases v with
  | list xs => simp [Val.isList] at h2
  | map kvs => simp [Val.isMap] at h1
  | _ => rfl

/-- list: the answer of the FIRST member that answers — every member before it fails -/
theorem C20_value_hasAttr_list_first (a : Entries) : ∀ (xs : List Val) (r : Val),
    hasAttributes a (.list xs) = .ok r ↔
      ∃ pre x post, xs = pre ++ x :: post ∧ (∀ y ∈ pre, ∀ r', hasAttributes a y ≠ .ok r') ∧
        hasAttributes a x = .ok r := by
  intro xs r
  simp only [hasAttributes]
  induction xs with
  | nil => simp [hasAttributesList]
  | cons x xs ih =>
    simp only [hasAttributesList]
    cases hx : hasAttributes a x with
    | ok v =>
      constructor
      · intro h; cases h
        exact ⟨[], x, xs, rfl, by simp, hx⟩
      · rintro ⟨pre, y, post, he, hpre, hy⟩
        cases pre with
        | nil =>
          simp only [List.nil_append, List.cons.injEq] at he
          rw [← he.1, hx] at hy; exact hy
        | cons p pre =>
          simp only [List.cons_append, List.cons.injEq] at he
          exact absurd (he.1 ▸ hx) (hpre p (by simp) v)
    | error e =>
      simp only []
      rw [ih]
      constructor
      · rintro ⟨pre, y, post, he, hpre, hy⟩
        refine ⟨x :: pre, y, post, by rw [he]; rfl, ?_, hy⟩
        intro z hz r'
        rcases List.mem_cons.1 hz with hz | hz
        · rw [hz, hx]; intro hh; cases hh
        · exact hpre z hz r'
      · rintro ⟨pre, y, post, he, hpre, hy⟩
        cases pre with
        | nil =>
          simp only [List.nil_append, List.cons.injEq] at he
          rw [← he.1, hx] at hy; cases hy
        | cons p pre =>
          simp only [List.cons_append, List.cons.injEq] at he
          exact ⟨pre, y, post, he.2, fun z hz => hpre z (by simp [hz]), hy⟩

/-- list: the only error is "no list member …", exactly when no member answers (the members'
    own errors are swallowed) -/
theorem C20_value_hasAttr_list_err (a : Entries) : ∀ (xs : List Val) (e : WErr),
    hasAttributes a (.list xs) = .error e ↔
      e = .noListMember ∧ ∀ y ∈ xs, ∀ r', hasAttributes a y ≠ .ok r' := by
  intro xs e
  simp only [hasAttributes]
  induction xs with
  | nil =>
    simp only [hasAttributesList, List.not_mem_nil, false_imp_iff, forall_const, and_true]
    constructor
    · intro h; cases h; rfl
    · intro h; rw [h]
  | cons x xs ih =>
    simp only [hasAttributesList, List.mem_cons, forall_eq_or_imp]
    cases hx : hasAttributes a x with
    | ok v =>
      simp only []
      constructor
      · intro h; cases h
      · rintro ⟨_, h, _⟩; exact absurd rfl (h v)
    | error e' =>
      simp only []
      rw [ih]
      constructor
      · rintro ⟨h1, h2⟩; exact ⟨h1, (fun r' hh => by cases hh), h2⟩
      · rintro ⟨h1, _, h2⟩; exact ⟨h1, h2⟩

mutual
/-- `nv` is `v` itself or a member of `v` reached through lists only -/
def listNode (nv : Entries) : Val → Prop
  | .map kvs => kvs = nv
  | .list xs => listNodeAny nv xs
  | _ => False
def listNodeAny (nv : Entries) : List Val → Prop
  | [] => False
  | x :: xs => listNode nv x ∨ listNodeAny nv xs
end

mutual
/-- whatever hasAttributes returns comes from a map node that holds ALL the pairs (the node is
    `v` or found inside `v` through lists only) -/
theorem C20_value_hasAttr_sound (a : Entries) : ∀ (v r : Val), hasAttributes a v = .ok r →
    ∃ nv, listNode nv v ∧ (∀ p ∈ a, holdsPair nv p) ∧ r = nodeResult nv
  | .map nv, r, h => by
      rw [C20_value_hasAttr_map] at h
      exact ⟨nv, by simp [listNode], h.1, h.2⟩
  | .list xs, r, h => by
      simp only [hasAttributes] at h
      obtain ⟨nv, hn, h2⟩ := hasAttr_sound_list a xs r h
      exact ⟨nv, by simp only [listNode]; exact hn, h2⟩
  | .null, r, h => by simp [hasAttributes] at h
  | .bool _, r, h => by simp [hasAttributes] at h
  | .num _, r, h => by simp [hasAttributes] at h
  | .str _, r, h => by simp [hasAttributes] at h
theorem hasAttr_sound_list (a : Entries) : ∀ (xs : List Val) (r : Val),
    hasAttributesList a xs = .ok r →
    ∃ nv, listNodeAny nv xs ∧ (∀ p ∈ a, holdsPair nv p) ∧ r = nodeResult nv
  | [], r, h => by simp [hasAttributesList] at h
  | x :: xs, r, h => by
      simp only [hasAttributesList] at h
      cases hx : hasAttributes a x with
      | ok v =>
        rw [hx] at h; cases h
        obtain ⟨nv, hn, h2⟩ := C20_value_hasAttr_sound a x r hx
        exact ⟨nv, by simp only [listNodeAny]; exact Or.inl hn, h2⟩
      | error e =>
        rw [hx] at h
        obtain ⟨nv, hn, h2⟩ := hasAttr_sound_list a xs r h
        exact ⟨nv, by simp only [listNodeAny]; exact Or.inr hn, h2⟩
end

/-- MapValue with attributes (a pair present, or a first segment that is not empty): the key
    loop — whose errors are passed on —, then hasAttributes on the entry reached -/
theorem C20_value_mapValue_attr (m : Val) (path : Str) (a : Entries)
    (h : (splitDot path).head? ≠ some [] ∨ a ≠ []) :
    mapValue m path (some a) = match mvStart m (splitDot path) with
      | .ok v => hasAttributes a v
      | .error e => .error e := by
  have hc : ((splitDot path).head? = some [] && a.length = 0) = false := by
    rcases h with h | h
    · simp [h]
    · cases a with
      | nil => exact absurd rfl h
      | cons _ _ => simp
  unfold mapValue
  simp only [hc, Bool.false_eq_true, if_false]
  cases mvStart m (splitDot path) <;> rfl

/-- … so it answers exactly when the path names an entry through nested maps and hasAttributes
    answers on that entry -/
theorem C20_value_mapValue_attr_iff (m : Val) (path : Str) (a : Entries) (r : Val)
    (h : (splitDot path).head? ≠ some [] ∨ a ≠ []) :
    mapValue m path (some a) = .ok r ↔
      ∃ v, getPath m (splitDot path) = some v ∧ hasAttributes a v = .ok r := by
  rw [C20_value_mapValue_attr m path a h]
  cases hs : mvStart m (splitDot path) with
  | ok v =>
    have hg := (C20_value_walk_iff _ m v).1 hs
    simp only [hg, Option.some.injEq, exists_eq_left']
  | error e =>
    constructor
    · intro hh; cases hh
    · rintro ⟨v, hg, _⟩
      rw [(C20_value_walk_iff _ m v).2 hg] at hs; cases hs

/-- NaN: Go's `!=` holds of two NaN attribute values, so a NaN pair never matches -/
theorem C20_value_attrEq_nan : attrEq (.num "f:NaN".toList) (.num "f:NaN".toList) = false := by
  decide

/-! ### (c) ValuesForKey -/

private theorem loadKeyVal_nil' (v : Val) : loadKeyVal [] v = wLeaf v := by
  cases v with
  | list xs =>
    simp only [loadKeyVal, wLeaf]
    exact List.filter_eq_self.2 (fun _ _ => by simp [hasSubKeys])
  | _ => simp [loadKeyVal, wLeaf, hasSubKeys]

mutual
/-- the core walker of Map.ValuesForKey (no sub-keys, key not "*") returns what the wrapper's
    walker returns, with every LIST stored under the key taken apart into its members -/
theorem C20_value_valuesForKey_core (key : Str) (hk : key ≠ ['*']) : ∀ v : Val,
    hasKey key [] v = (wHasKey key v).flatMap wLeaf
  | .map kvs => by
      simp only [hasKey, wHasKey, hk, if_false, List.append_nil, List.flatMap_append,
        ← valuesForKey_core_entries key hk kvs]
      cases lookup key kvs with
      | none => rfl
      | some v => simp [loadKeyVal_nil']
  | .list xs => by simp only [hasKey, wHasKey]; exact valuesForKey_core_list key hk xs
  | .null => by simp [hasKey, wHasKey]
  | .bool _ => by simp [hasKey, wHasKey]
  | .num _ => by simp [hasKey, wHasKey]
  | .str _ => by simp [hasKey, wHasKey]
theorem valuesForKey_core_list (key : Str) (hk : key ≠ ['*']) : ∀ xs : List Val,
    hasKeyList key [] xs = (wHasKeyList key xs).flatMap wLeaf
  | [] => by simp [hasKeyList, wHasKeyList]
  | x :: xs => by
      simp only [hasKeyList, wHasKeyList, List.flatMap_append,
        ← C20_value_valuesForKey_core key hk x, ← valuesForKey_core_list key hk xs]
theorem valuesForKey_core_entries (key : Str) (hk : key ≠ ['*']) : ∀ kvs : Entries,
    hasKeyEntries key [] kvs = (wHasKeyEntries key kvs).flatMap wLeaf
  | [] => by simp [hasKeyEntries, wHasKeyEntries]
  | (_, v) :: rest => by
      simp only [hasKeyEntries, wHasKeyEntries, List.flatMap_append,
        ← C20_value_valuesForKey_core key hk v, ← valuesForKey_core_entries key hk rest]
end

/-- Map.ValuesForKey(key) itself, in terms of the wrapper's ValuesForKey -/
theorem C20_value_valuesForKey (m : Val) (key : Str) (hk : key ≠ ['*']) :
    valuesForKey [':'] (fun _ => none) m key [] = .ok ((wValuesForKey m key).flatMap wLeaf) := by
  simp [valuesForKey, subKeyArg, wValuesForKey, C20_value_valuesForKey_core key hk m]

/-- the domain on which the two agree as lists: no list is stored under the key -/
theorem C20_value_valuesForKey_eq (m : Val) (key : Str) (hk : key ≠ ['*'])
    (hl : ∀ v ∈ wValuesForKey m key, v.isList = false) :
    hasKey key [] m = wValuesForKey m key := by
  rw [C20_value_valuesForKey_core key hk m]
  unfold wValuesForKey at *
  generalize wHasKey key m = l at hl
  induction l with
  | nil => rfl
  | cons x xs ih =>
    have hx := hl x (by simp)
    rw [List.flatMap_cons, ih (fun v hv => hl v (by simp [hv]))]
    cases x <;> first | rfl | simp [Val.isList] at hx

/-- outside it they differ: a list under the key is one value for the wrapper, its members for
    the core -/
theorem C20_value_valuesForKey_list_witness :
    ∃ m key, key ≠ ['*'] ∧ hasKey key [] m ≠ wValuesForKey m key :=
  ⟨.map [(['a'], .list [.str ['x'], .str ['y']])], ['a'], by decide, by decide⟩

/-- … and "*" is a wildcard for the core only -/
theorem C20_value_valuesForKey_star_witness :
    ∃ m, hasKey ['*'] [] m ≠ wValuesForKey m ['*'] :=
  ⟨.map [(['a'], .str ['x'])], by decide⟩

/-! ### (d) NewAttributeMap -/

/-- no arguments: (nil, nil) -/
theorem C20_value_newAttr_none : newAttributeMap [] = .ok none := rfl

private theorem mem_insert (k : Str) (v : Val) : ∀ (l : Entries) (e : Str × Val),
    e ∈ insert k v l → e = (k, v) ∨ e ∈ l := by
  intro l
  induction l with
  | nil => intro e h; simp [insert] at h; exact Or.inl h
  | cons x rest ih =>
    obtain ⟨k', v'⟩ := x
    intro e h
    simp only [insert] at h
    by_cases hk : k = k'
    · simp only [hk, if_true, List.mem_cons] at h
      rcases h with h | h
      · exact Or.inl (by rw [h, hk])
      · exact Or.inr (by simp [h])
    · simp only [hk, if_false, List.mem_cons] at h
      rcases h with h | h
      · exact Or.inr (by simp [h])
      · rcases ih e h with h | h
        · exact Or.inl h
        · exact Or.inr (by simp [h])

private theorem namLoop_ok_iff : ∀ (kv : List Str) (acc : Entries),
    (∃ a, namLoop kv acc = .ok a) ↔ ∀ v ∈ kv, v.count ':' = 1 := by
  intro kv
  induction kv with
  | nil => intro acc; simp [namLoop]
  | cons v rest ih =>
    intro acc
    have hlen := NM.splitOn_length ':' v
    simp only [namLoop, List.mem_cons, forall_eq_or_imp]
    match hs : splitOn [':'] v with
    | [] => rw [hs] at hlen; simp at hlen
    | [_] => rw [hs] at hlen; simp at hlen; simp; omega
    | [n, x] =>
      rw [hs] at hlen
      simp only [List.length_cons, List.length_nil] at hlen
      rw [ih]
      constructor
      · intro h; exact ⟨by omega, h⟩
      · intro h; exact h.2
    | _ :: _ :: _ :: _ => rw [hs] at hlen; simp at hlen; simp; omega

private theorem namLoop_err : ∀ (kv : List Str) (acc : Entries) (e : WErr),
    namLoop kv acc = .error e → e = .badAttrPair := by
  intro kv
  induction kv with
  | nil => intro acc e h; simp [namLoop] at h
  | cons v rest ih =>
    intro acc e h
    simp only [namLoop] at h
    match hs : splitOn [':'] v with
    | [] => rw [hs] at h; cases h; rfl
    | [_] => rw [hs] at h; cases h; rfl
    | [n, x] => rw [hs] at h; exact ih _ e h
    | _ :: _ :: _ :: _ => rw [hs] at h; cases h; rfl

private theorem namLoop_shape : ∀ (kv : List Str) (acc a : Entries),
    namLoop kv acc = .ok a → (∀ e ∈ acc, isDashKey e.1 = true ∧ ∃ s, e.2 = .str s) →
    ∀ e ∈ a, isDashKey e.1 = true ∧ ∃ s, e.2 = .str s := by
  intro kv
  induction kv with
  | nil => intro acc a h hacc; simp [namLoop] at h; rw [← h]; exact hacc
  | cons v rest ih =>
    intro acc a h hacc
    simp only [namLoop] at h
    match hs : splitOn [':'] v with
    | [] => rw [hs] at h; cases h
    | [_] => rw [hs] at h; cases h
    | [n, x] =>
      rw [hs] at h
      refine ih _ a h ?_
      intro e he
      rcases mem_insert _ _ acc e he with he | he
      · rw [he]; exact ⟨by simp [isDashKey], x, rfl⟩
      · exact hacc e he
    | _ :: _ :: _ :: _ => rw [hs] at h; cases h

/-- NewAttributeMap succeeds exactly when every argument holds exactly ONE ':' -/
theorem C20_value_newAttr_ok_iff (kv : List Str) :
    (∃ r, newAttributeMap kv = .ok r) ↔ ∀ v ∈ kv, v.count ':' = 1 := by
  unfold newAttributeMap
  cases kv with
  | nil => simp
  | cons v rest =>
    rw [← namLoop_ok_iff (v :: rest) []]
    simp only [List.isEmpty_cons, Bool.false_eq_true, if_false]
    cases namLoop (v :: rest) [] <;> simp

/-- … its only error is the malformed pair -/
theorem C20_value_newAttr_err (kv : List Str) (e : WErr) (h : newAttributeMap kv = .error e) :
    e = .badAttrPair := by
  unfold newAttributeMap at h
  cases kv with
  | nil => simp at h
  | cons v rest =>
    simp only [List.isEmpty_cons, Bool.false_eq_true, if_false] at h
    cases hn : namLoop (v :: rest) [] with
    | ok a => rw [hn] at h; cases h
    | error e' => rw [hn] at h; cases h; exact namLoop_err _ _ _ hn

/-- every key of the result carries the "-" prefix and every value is a string -/
theorem C20_value_newAttr_shape (kv : List Str) (a : Entries)
    (h : newAttributeMap kv = .ok (some a)) :
    ∀ e ∈ a, isDashKey e.1 = true ∧ ∃ s, e.2 = .str s := by
  unfold newAttributeMap at h
  cases kv with
  | nil => simp at h
  | cons v rest =>
    simp only [List.isEmpty_cons, Bool.false_eq_true, if_false] at h
    cases hn : namLoop (v :: rest) [] with
    | error e' => rw [hn] at h; cases h
    | ok a' =>
      rw [hn] at h; cases h
      exact namLoop_shape _ [] a hn (by simp)

/-- round trip of one pair: "name:value" ↦ {"-name": "value"} (neither part holds a ':') -/
theorem C20_value_newAttr_single (n x : Str) (hn : ':' ∉ n) (hx : ':' ∉ x) :
    newAttributeMap [n ++ ':' :: x] = .ok (some [('-' :: n, .str x)]) := by
  have hs : splitOn [':'] (n ++ ':' :: x) = [n, x] := by
    have := splitOn_joinWith ':' [n, x] (by simp) (by
      intro y hy
      rcases List.mem_cons.1 hy with hy | hy
      · rw [hy]; exact hn
      · rw [List.mem_singleton.1 hy]; exact hx)
    simpa [joinWith] using this
  simp [newAttributeMap, namLoop, hs, insert]

/-- … and what it produces is what MapValue wants: the pair selects the member carrying the
    attribute, and its "#text" is returned -/
theorem C20_value_newAttr_select (n x : Str) (nv : Entries)
    (h : lookup ('-' :: n) nv = some (.str x)) :
    hasAttributes [('-' :: n, .str x)] (.map nv) = .ok (nodeResult nv) := by
  rw [C20_value_hasAttr_map]
  refine ⟨?_, rfl⟩
  intro p hp
  rw [List.mem_singleton.1 hp]
  exact ⟨.str x, h, by simp [attrEq]⟩

/-! ### the hypotheses are satisfiable; concrete instances -/

/-- `{"doc": {"item": [ {"-id":"1","#text":"a"}, {"-id":"2","#text":"b"}, {"-id":"2","#text":"c"} ],
              "name": {"first": "x"} }}` -/
def vsample : Val :=
  .map [("doc".toList, .map [
    ("item".toList, .list [
      .map [("-id".toList, .str ['1']), ("#text".toList, .str ['a'])],
      .map [("-id".toList, .str ['2']), ("#text".toList, .str ['b'])],
      .map [("-id".toList, .str ['2']), ("#text".toList, .str ['c'])]]),
    ("name".toList, .map [("first".toList, .str ['x'])])])]

example : (splitDot "doc.name.first".toList).head? ≠ some [] := by decide
example : ∀ k ∈ splitDot "doc.name.first".toList, k ≠ ['*'] := by decide
example : mapValue vsample "doc.name.first".toList none = .ok (.str ['x']) := by rfl
example : getPath vsample (splitDot "doc.name.first".toList) = some (.str ['x']) := by rfl
/-- lists are not looked through -/
example : mapValue vsample "doc.item.-id".toList none = .error .noKeysBeyond := by rfl
example : mapValue vsample "doc.zip".toList none = .error .noKeyInMap := by rfl
/-- FIRST match: of the two members with id 2 the earlier one answers -/
example : mapValue vsample "doc.item".toList (some [("-id".toList, .str ['2'])])
    = .ok (.str ['b']) := by rfl
example : mapValue vsample "doc.item".toList (some [("-id".toList, .str ['3'])])
    = .error .noListMember := by rfl
example : mapValue vsample "doc.name".toList (some [("-id".toList, .str ['3'])])
    = .error .noAttrName := by rfl
/-- a node without "#text" is returned itself -/
example : mapValue vsample "doc.name".toList (some [("first".toList, .str ['x'])])
    = .ok (.map [("first".toList, .str ['x'])]) := by rfl
example : wValuesForKey vsample "-id".toList = [.str ['1'], .str ['2'], .str ['2']] := by rfl
example : ∀ v ∈ wValuesForKey vsample "-id".toList, v.isList = false := by decide
example : wValuesForKey vsample "item".toList ≠ hasKey "item".toList [] vsample := by decide
example : newAttributeMap ["id:2".toList, "x:y".toList]
    = .ok (some [("-id".toList, .str ['2']), ("-x".toList, .str ['y'])]) := by rfl
example : newAttributeMap ["id:2".toList, "a:b:c".toList] = .error .badAttrPair := by rfl
example : newAttributeMap ["novalue".toList] = .error .badAttrPair := by rfl
example : ':' ∉ "id".toList ∧ ':' ∉ "2".toList := by decide

end Mxj.C20
