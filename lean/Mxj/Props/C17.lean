/-
  Mxj.Props.C17 — "Queries and encoders never modify package state" (facts part).

  The extractor lists, for every function of the package, the package-level variables it assigns
  and its static callees (`Generated.funcFacts`; methods resolved by name to every receiver: an
  over-approximation), and for the read-only operations `Generated.queryRoots` a closure
  certificate `Generated.queryRootsClosure`.  Lean checks that the certificate is closed under
  the callee relation, contains the roots and that none of its members assigns a package-level
  variable; `Facts.not_writes_of_cert` lifts this to everything reachable.  (The
  receiver-immutability clause of C17 is checked dynamically by the harness.)
-/
import Mxj.Lemmas.Facts
import Mxj.Generated.Facts
namespace Mxj.C17
open Mxj

/-- the certificate itself: closed under static calls … -/
theorem C17_query_closure_closed : Facts.closed Generated.queryRootsClosure = true := by decide

/-- … and contains the roots -/
theorem C17_query_roots_in_closure :
    Generated.queryRoots.all (Generated.queryRootsClosure.contains ·) = true := by decide

/-- no member of the certificate assigns a package-level variable -/
theorem C17_query_closure_no_writes : Facts.noneWrites Generated.queryRootsClosure = true := by
  decide

/-- no read-only operation, nor anything it can reach through static calls, assigns a
    package-level variable -/
theorem C17_readonly_no_global_write (root g : String) (hr : root ∈ Generated.queryRoots)
    (h : Facts.Reach root g) : Facts.writesOf g = [] := by
  have hin : root ∈ Generated.queryRootsClosure := by
    have := (List.all_eq_true.mp C17_query_roots_in_closure) root hr
    simpa using this
  exact Facts.not_writes_of_cert _ C17_query_closure_closed C17_query_closure_no_writes
    root g hin h

/-- in particular none of them is one of the functions the extractor found assigning a global -/
theorem C17_readonly_not_a_writer :
    Generated.queryRootsClosure.all
      (fun f => !(Generated.globalWriters.map (·.1)).contains f) = true := by decide

/-- the root set is not vacuous: it names the functions it is meant to (at least 25 of them are
    present in the source) -/
theorem C17_query_roots_nonempty : 25 ≤ Generated.queryRoots.length := by decide

/-- every root is a function the extractor actually found in the source (it has a facts row) -/
theorem C17_query_roots_exist :
    Generated.queryRoots.all (fun f => (Facts.factOf f).isSome) = true := by decide

/-- non-vacuity of the check: the same test applied to a setter fails -/
example : Facts.writesOf "SetFieldSeparator" ≠ [] := by decide
example : Facts.Reach "Map.Xml" "Map.Xml" := .refl _
example : Facts.writesOf "Map.Xml" = [] :=
  C17_readonly_no_global_write "Map.Xml" "Map.Xml" (by decide) (.refl _)

end Mxj.C17
