/-
  Mxj.Props.C17 — "Queries and encoders never modify package state" (facts part).

  The extractor lists, for every function of the package, the package-level variables it assigns
  and its static callees (`Generated.funcFacts`; methods resolved by name to every receiver: an
  over-approximation), and for the read-only operations `Generated.queryRoots` a closure
  certificate `Generated.queryRootsClosure`.  Lean checks that the certificate is closed under
  the callee relation, contains the roots and that none of its members assigns a package-level
  variable; `Facts.not_writes_of_cert` lifts this to everything reachable.  (The
  receiver-immutability clause of C17 is checked dynamically by the harness.)

  `Map.Copy` is `Json()` followed by `NewMapJson`: `copy` below composes the two models, and
  `C17_copy_equal` says that the result is the original Map (as a value: entry order aside) for
  every JSON-shaped Map.  Values are immutable in the model, so "shares no mutable structure"
  has no counterpart here; the harness scribbles over the copy instead.
-/
import Mxj.Lemmas.Facts
import Mxj.Generated.Facts
import Mxj.Lemmas.Json
import Mxj.Lemmas.Conc
namespace Mxj.C17
open Mxj

/-- `mv.Copy()`: encode as JSON, decode again (mxj.go) -/
def copy (m : Entries) : Option Val := Json.newMapJson (Json.mapJson false (.map m))

/-- Copy returns a Map equal to the original, for every Map in the JSON domain -/
theorem C17_copy_equal (m : Entries) (hm : Json.JsonShaped (.map m) = true) :
    ∃ r, copy m = some r ∧ r ≈ᵥ .map m :=
  ⟨_, Json.newMapJson_mapJson false m hm, Json.norm_idem (.map m) hm⟩

/-- … and copying is idempotent: a copy of the copy is the copy -/
theorem C17_copy_exact (m : Entries) (hm : Json.JsonShaped (.map m) = true) :
    copy m = some (Val.norm (.map m)) := Json.newMapJson_mapJson false m hm

example : ∃ r, copy [(['b'], .str ['}']), (['a'], .list [.bool true, .map []])] = some r ∧
    r ≈ᵥ .map [(['b'], .str ['}']), (['a'], .list [.bool true, .map []])] :=
  C17_copy_equal _ (by decide)

/-- the certificate itself: closed under static calls … -/
theorem C17_query_closure_closed : Facts.closed Generated.queryRootsClosure = true := by decide

/-- … and contains the roots -/
theorem C17_query_roots_in_closure :
    Generated.queryRoots.all (Generated.queryRootsClosure.contains ·) = true := by decide

/-- no member of the certificate assigns a package-level variable -/
theorem C17_query_closure_no_writes : Facts.noneWrites Generated.queryRootsClosure = true := by
  decide

/-- no read-only operation, nor anything it can reach through static calls, assigns a
    package-level variable -/
theorem C17_readonly_no_global_write (root g : String) (hr : root ∈ Generated.queryRoots)
    (h : Facts.Reach root g) : Facts.writesOf g = [] := by
  have hin : root ∈ Generated.queryRootsClosure := by
    have := (List.all_eq_true.mp C17_query_roots_in_closure) root hr
    simpa using this
  exact Facts.not_writes_of_cert _ C17_query_closure_closed C17_query_closure_no_writes
    root g hin h

/-- in particular none of them is one of the functions the extractor found assigning a global -/
theorem C17_readonly_not_a_writer :
    Generated.queryRootsClosure.all
      (fun f => !(Generated.globalWriters.map (·.1)).contains f) = true := by decide

/-- the root set is not vacuous: it names the functions it is meant to (at least 25 of them are
    present in the source) -/
theorem C17_query_roots_nonempty : 25 ≤ Generated.queryRoots.length := by decide

/-- every root is a function the extractor actually found in the source (it has a facts row) -/
theorem C17_query_roots_exist :
    Generated.queryRoots.all (fun f => (Facts.factOf f).isSome) = true := by decide

/-- non-vacuity of the check: the same test applied to a setter fails -/
example : Facts.writesOf "SetFieldSeparator" ≠ [] := by decide
example : Facts.Reach "Map.Xml" "Map.Xml" := .refl _
example : Facts.writesOf "Map.Xml" = [] :=
  C17_readonly_no_global_write "Map.Xml" "Map.Xml" (by decide) (.refl _)

/-! ### goroutines over shared read-only state

  The model `Mxj.Model.Conc`: a call in progress is a list of atomic steps, each reading the
  shared state `g` and updating only the call's own local state; a schedule is the order in which
  goroutines take their next step.  That the read-only API has this shape is what
  `C17_readonly_no_global_write` (package variables) and the harness's receiver-immutability
  oracle (the shared Map) establish.  **Partial**: the theorem is about this abstraction, not about
  Go's memory model; the race detector run of the thorough tier is the dynamic counterpart. -/

/-- under EVERY schedule (any length, any order, goroutines starved or not) the result each
    goroutine will have once it has finished is the result of running it alone -/
theorem C17_interleaving_independent {G L : Type} (g : G) (ts : List (Conc.Th G L))
    (schedule : List Nat) :
    (Conc.exec g ts schedule).map (Conc.runTh g) = ts.map (Conc.runTh g) :=
  Conc.exec_results g schedule ts

/-- in particular, once a schedule has run every goroutine to completion, each one holds exactly
    its sequential result -/
theorem C17_concurrent_eq_sequential {G L : Type} (g : G) (ts : List (Conc.Th G L))
    (schedule : List Nat) (hdone : Conc.done (Conc.exec g ts schedule) = true) :
    (Conc.exec g ts schedule).map (·.loc) = ts.map (Conc.runTh g) := by
  rw [← C17_interleaving_independent g ts schedule]
  apply List.map_congr_left
  intro t ht
  have : t.todo.isEmpty = true := by
    unfold Conc.done at hdone
    exact List.all_eq_true.1 hdone t ht
  exact (Conc.runTh_done g t this).symm

/-- non-vacuity: two goroutines of two steps each reading the shared value, interleaved -/
example :
    let t1 : Conc.Th Nat (List Nat) := ⟨[], [fun g l => g :: l, fun g l => (g + 1) :: l]⟩
    let t2 : Conc.Th Nat (List Nat) := ⟨[], [fun g l => (2 * g) :: l, fun _ l => 0 :: l]⟩
    (Conc.exec 7 [t1, t2] [1, 0, 0, 1]).map (·.loc) = [[8, 7], [0, 14]] := by decide

end Mxj.C17
