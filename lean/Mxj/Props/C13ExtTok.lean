/-
  Mxj.Props.C13ExtTok — the XML stream statements of C13ExtXml at BYTE level: the tokenizer
  model (`Mxj.Tokz.tokenize`) in place of the formerly trusted law TB-XML-stop.  The statements
  are those of Props/C19ExtTok, read as statements about streams (helper lemmas:
  Mxj.Lemmas.TokenizerCat).  Remaining hypotheses: well-named element trees rendered with
  escaping on, white-space separators.  Still trusted: the real decoder's read-ahead through the
  single-byte adaptor (`C13_adaptor_transparent`) loses no byte, and the tokens delivered before
  a syntax error in a truncated stream.
-/
import Mxj.Props.C19ExtTok
namespace Mxj.C13
open Mxj Mxj.Enc Mxj.Files Mxj.Tokz

/-- documents written one after another on a stream (white space between them) and read back
    through the tokenizer model by repeated `NewMapXmlReader` calls: the Maps of decoding each
    document's own bytes, in order, then io.EOF -/
theorem C13_tok_stream_docs (e : EncCfg) (hesc : e.escape = true) (cfg : DecCfg)
    (S : Strconv) (docs : List (Str × Node))
    (hsep : ∀ d ∈ docs, wsOk d.1 = true) (hW : ∀ d ∈ docs, WellNamed d.2 = true)
    (he : ∀ d ∈ docs, Files.isElem d.2 = true) (trail : Str) (htrail : wsOk trail = true)
    (f : Nat) (hf : docs.length < f) :
    ∃ rs, readMapsXml cfg S .eof f (Tokz.tokens (xmlDocsBytes e docs trail)) [] = ⟨rs, false⟩ ∧
      rs.length = docs.length ∧
      ∀ (i : Nat) (h1 : i < rs.length) (h2 : i < docs.length) (fin : StreamEnd),
        newMapXml cfg S (Tokz.tokens (render e docs[i].2)) fin = .ok rs[i] :=
  C19.C19_tok_file_same_as_single e hesc cfg S docs hsep hW he trail htrail f hf

/-- no over-reading, byte level: the tokens of a document followed by ANY tokenizable input are
    the document's tokens followed by the tokens of that input - lexing the document depends on
    no byte behind its root's end tag -/
theorem C13_tok_stream_no_overread (cfg : EncCfg) (hesc : cfg.escape = true) (a : Node)
    (ha : WellNamed a = true) (hea : Files.isElem a = true) (rest : Str) (us : List Tok)
    (hrest : tokenize rest = some us) :
    tokenize (render cfg a ++ rest) = some (flatten a ++ us) :=
  C19.C19_tok_no_overread cfg hesc a ha hea rest us hrest

/-- the bulk handler on bytes: stops after the `b`-th document whatever tokenizable input follows -/
theorem C13_tok_handler_stops (e : EncCfg) (hesc : e.escape = true) (cfg : DecCfg) (S : Strconv)
    (fin : StreamEnd) (docs : List (Str × Node))
    (hsep : ∀ d ∈ docs, wsOk d.1 = true) (hW : ∀ d ∈ docs, WellNamed d.2 = true)
    (he : ∀ d ∈ docs, Files.isElem d.2 = true) (rest : Str) (us : List Tok)
    (hrest : tokenize rest = some us) (b : Nat) (hb : b ≤ docs.length) (f : Nat) (hf : b < f) :
    handleXml cfg S fin f b (Tokz.tokens (xmlDocsBytes e docs rest)) []
      = ⟨(docs.take b).map (fun d => Fold.doc cfg S d.2), false⟩ :=
  C19.C19_tok_handler_stops e hesc cfg S fin docs hsep hW he rest us hrest b hb f hf

/-- non-vacuity: the sample file of C19ExtTok -/
example : ∃ rs, readMapsXml {} Dec.S0 .eof 4 (Tokz.tokens (xmlDocsBytes ec C19.tokDocs "\n".toList)) []
    = ⟨rs, false⟩ ∧ rs.length = 3 := by
  obtain ⟨rs, h, hl, _⟩ := C13_tok_stream_docs ec rfl {} Dec.S0 C19.tokDocs (by decide) (by decide)
    (by decide) "\n".toList (by decide) 4 (by decide)
  exact ⟨rs, h, by simpa [C19.tokDocs] using hl⟩

end Mxj.C13
