/-
  Mxj.Props.C13ExtBytes — the reader forms at BYTE level, end to end, for every delivery
  schedule: `NewMapXmlReader` / `NewMapXmlReaderRaw` as
      decode (tokenize (bytes pulled through the byte adaptor over the schedule))
  built only from existing model pieces: `Stream.drain` / `Stream.teeDrain` (the repaired
  `byteReader.ReadByte` / `teeReader.ReadByte` called until the first error), the tokenizer model
  `Tokz.tokenize` and the decoder `newMapXml`.  Composes `C13_adaptor_transparent(_fuel)` with the
  byte-level decoders of `C01ExtBytes` and the byte-level fixed point `C02_tok_fixed_point_bytes`.

  Still trusted (as in C13ExtTok): the model tokenizer agrees with `encoding/xml` (sampled by
  `xtok`), and that the real decoder, which pulls only as far as the root's end tag, sees the
  same tokens as the whole-stream tokenization (`C13_tok_stream_no_overread` for the encoder's
  output); `C13_bytes_raw_is_consumed` states the Raw capture for EVERY number of pulls.
-/
import Mxj.Lemmas.StreamBytes
import Mxj.Props.C13
import Mxj.Props.C13ExtTok
import Mxj.Props.C01ExtBytes
import Mxj.Props.C02ExtTok
namespace Mxj.C13
open Mxj Mxj.Stream Mxj.Enc Mxj.Dec Mxj.Tokz Mxj.Surf

/-! ### the model of the reader forms -/

/-- how the adaptor's final error reaches the decoder: io.EOF, or any other error -/
def finOf : RdErr → StreamEnd
  | .eof => .eof
  | .other => .bad

/-- `NewMapXml(bytes)`: tokenize, decode; bytes the tokenizer rejects are a syntax error -/
def newMapXmlBytes (cfg : DecCfg) (S : Strconv) (bs : Str) (fin : StreamEnd) : Outcome Val :=
  match tokenize bs with
  | some ts => newMapXml cfg S ts fin
  | none => .syntax

/-- the bytes `byteReader.ReadByte` delivers over a schedule until its first error -/
def bytesThroughAdaptor (s : Sched) : Str := (drain (s.length + 1) s).1
/-- … and that error -/
def endThroughAdaptor (s : Sched) : RdErr := (drain (s.length + 1) s).2

/-- `NewMapXmlReader(r)` over a reader with delivery schedule `s` -/
def newMapXmlReader (cfg : DecCfg) (S : Strconv) (s : Sched) : Outcome Val :=
  newMapXmlBytes cfg S (bytesThroughAdaptor s) (finOf (endThroughAdaptor s))

/-- `NewMapXmlReaderRaw(r)`: the same through the tee adaptor, with the captured bytes -/
def newMapXmlReaderRaw (cfg : DecCfg) (S : Strconv) (s : Sched) : Outcome Val × Str :=
  let r := teeDrain (s.length + 1) [] s
  (newMapXmlBytes cfg S r.1 (finOf r.2.1), r.2.2)

/-- a legal complete delivery: no byte after a (0,EOF)/(0,error) read, and the stream ends with
    io.EOF (a (0,EOF) read, a last byte together with io.EOF, or the reader running out) -/
def Legal (s : Sched) : Bool := EndsOnce s && (endErr s == .eof)

/-! ### (0) the adaptors inside the reader forms -/

/-- what the reader forms see of a schedule — EVERY schedule -/
theorem C13_bytes_adaptor (s : Sched) :
    bytesThroughAdaptor s = bytesOf (upToEnd s) ∧ endThroughAdaptor s = endErr s := by
  unfold bytesThroughAdaptor endThroughAdaptor
  rw [C13_adaptor_transparent_fuel s _ (Nat.lt_succ_self _)]
  exact ⟨rfl, rfl⟩

/-- the Raw capture is exactly the bytes consumed, for EVERY number `k` of `ReadByte` calls the
    decoder makes, every schedule and every initial buffer: the tee adaptor delivers what the
    plain adaptor delivers, the capture is the buffer followed by the delivered bytes, and those
    are the first `k` data bytes of the stream -/
theorem C13_bytes_raw_is_consumed (k : Nat) (w : Str) (s : Sched) :
    (teeDrain k w s).1 = (drain k s).1 ∧ (teeDrain k w s).2.1 = (drain k s).2 ∧
    (teeDrain k w s).2.2 = w ++ (teeDrain k w s).1 ∧
    (teeDrain k w s).1 = (bytesOf (upToEnd s)).take k := by
  rw [teeDrain_eq]
  exact ⟨rfl, rfl, rfl, drain_take s k⟩

/-- the Raw form = the plain form paired with the bytes the adaptor delivered — EVERY schedule -/
theorem C13_bytes_raw_eq_plain (cfg : DecCfg) (S : Strconv) (s : Sched) :
    newMapXmlReaderRaw cfg S s = (newMapXmlReader cfg S s, bytesThroughAdaptor s) := by
  unfold newMapXmlReaderRaw newMapXmlReader bytesThroughAdaptor endThroughAdaptor
  simp [teeDrain_eq]

/-! ### (2) reading through any schedule = decoding the byte string -/

/-- EVERY schedule (also with (0,error) entries and bytes after a (0,EOF)): the reader form is
    the byte-level decoder on the data bytes before the first (0,EOF)/(0,error) entry, ended by
    that entry's error -/
theorem C13_bytes_reader_eq_direct_all (cfg : DecCfg) (S : Strconv) (s : Sched) :
    newMapXmlReader cfg S s = newMapXmlBytes cfg S (bytesOf (upToEnd s)) (finOf (endErr s)) := by
  unfold newMapXmlReader
  rw [(C13_bytes_adaptor s).1, (C13_bytes_adaptor s).2]

theorem legal_iff (s : Sched) : Legal s = true ↔ EndsOnce s = true ∧ endErr s = .eof := by
  simp [Legal]

/-- a legal schedule: `NewMapXmlReader` over it = `NewMapXml` on the byte string it carries,
    and the Raw form additionally returns exactly that byte string -/
theorem C13_bytes_reader_eq_direct (cfg : DecCfg) (S : Strconv) (s : Sched)
    (h : Legal s = true) :
    newMapXmlReader cfg S s = newMapXmlBytes cfg S (bytesOf s) .eof ∧
    newMapXmlReaderRaw cfg S s = (newMapXmlBytes cfg S (bytesOf s) .eof, bytesOf s) := by
  obtain ⟨h1, h2⟩ := (legal_iff s).1 h
  have e : newMapXmlReader cfg S s = newMapXmlBytes cfg S (bytesOf s) .eof := by
    rw [C13_bytes_reader_eq_direct_all, bytesOf_upToEnd s h1, h2]; rfl
  refine ⟨e, ?_⟩
  rw [C13_bytes_raw_eq_plain, e, (C13_bytes_adaptor s).1, bytesOf_upToEnd s h1]

/-- the side condition in words: no (0,error) entry and no byte after a (0,EOF) entry -/
theorem C13_bytes_legal_of (s : Sched) (h1 : NoFail s) (h2 : EndsOnce s = true) :
    Legal s = true :=
  (legal_iff s).2 ⟨h2, endErr_noFail s h1⟩

/-- one byte per read, no EOF marker: legal, and it carries the string -/
theorem C13_bytes_plain_legal (bs : Str) : Legal (plain bs) = true ∧ bytesOf (plain bs) = bs := by
  refine ⟨?_, bytesOf_plain bs⟩
  induction bs with
  | nil => rfl
  | cons c t ih => simpa [plain, Legal, EndsOnce, endErr] using ih

/-! ### (1) the result does not depend on the schedule -/

/-- two legal schedules of the same byte string give the same Map / error in the plain and in
    the Raw form, and the Raw bytes are exactly the bytes pulled through the adaptor (= the
    byte string) under either schedule -/
theorem C13_bytes_reader_schedule_free (cfg : DecCfg) (S : Strconv) (s₁ s₂ : Sched)
    (h₁ : Legal s₁ = true) (h₂ : Legal s₂ = true) (hb : bytesOf s₁ = bytesOf s₂) :
    newMapXmlReader cfg S s₁ = newMapXmlReader cfg S s₂ ∧
    newMapXmlReaderRaw cfg S s₁ = newMapXmlReaderRaw cfg S s₂ ∧
    (newMapXmlReaderRaw cfg S s₁).2 = bytesThroughAdaptor s₁ ∧
    (newMapXmlReaderRaw cfg S s₂).2 = bytesThroughAdaptor s₂ ∧
    bytesThroughAdaptor s₁ = bytesOf s₁ := by
  obtain ⟨a1, b1⟩ := C13_bytes_reader_eq_direct cfg S s₁ h₁
  obtain ⟨a2, b2⟩ := C13_bytes_reader_eq_direct cfg S s₂ h₂
  refine ⟨by rw [a1, a2, hb], by rw [b1, b2, hb], ?_, ?_, ?_⟩
  · rw [C13_bytes_raw_eq_plain]
  · rw [C13_bytes_raw_eq_plain]
  · rw [(C13_bytes_adaptor s₁).1, bytesOf_upToEnd s₁ ((legal_iff s₁).1 h₁).1]

/-- in particular: any legal schedule = the one-byte-per-read delivery of the same string -/
theorem C13_bytes_reader_eq_plain (cfg : DecCfg) (S : Strconv) (s : Sched) (h : Legal s = true) :
    newMapXmlReader cfg S s = newMapXmlReader cfg S (plain (bytesOf s)) :=
  (C13_bytes_reader_schedule_free cfg S s (plain (bytesOf s)) h (C13_bytes_plain_legal _).1
    (C13_bytes_plain_legal _).2.symm).1

/-! ### composition with the byte-level decoder of C01ExtBytes -/

/-- every surface form of a document (prolog, root written with any quote style / white space
    in tags / CDATA / comments / references, trailer), delivered under ANY legal schedule, reads
    as `Fold.doc` of its source tree, and the Raw form returns the document's bytes -/
theorem C13_bytes_reader_surface (cfg : DecCfg) (S : Strconv)
    (pre post : Str) (ps qs : List Tok)
    (hpre : tokenize pre = some ps) (hpost : tokenize post = some qs)
    (hps : ∀ t ∈ ps, ¬ isStart t)
    (n : SNode) (hroot : isElemS n = true) (hok : surfOk n = true)
    (s : Sched) (hs : Legal s = true) (hb : bytesOf s = pre ++ renderS n ++ post) :
    newMapXmlReader cfg S s = .ok (Fold.doc cfg S (toNode n)) ∧
    newMapXmlReaderRaw cfg S s = (.ok (Fold.doc cfg S (toNode n)), pre ++ renderS n ++ post) := by
  obtain ⟨ts, ht, hd⟩ := C01.C01_bytes_newMapXml_tree cfg S .eof pre post ps qs hpre hpost hps n
    hroot hok
  have e : newMapXmlBytes cfg S (bytesOf s) .eof = .ok (Fold.doc cfg S (toNode n)) := by
    unfold newMapXmlBytes; rw [hb, ht]; exact hd
  obtain ⟨a, b⟩ := C13_bytes_reader_eq_direct cfg S s hs
  exact ⟨by rw [a, e], by rw [b, e, hb]⟩

/-! ### (3) the encoder's output under any schedule -/

/-- a successful decode of the model tokens is a successful byte-level decode: bytes the
    tokenizer rejects never decode to a Map -/
theorem C13_bytes_of_tokens_ok (cfg : DecCfg) (S : Strconv) (bs : Str) (fin : StreamEnd) (v : Val)
    (h : newMapXml cfg S (Tokz.tokens bs) fin = .ok v) : newMapXmlBytes cfg S bs fin = .ok v := by
  unfold newMapXmlBytes
  unfold Tokz.tokens at h
  cases ht : tokenize bs with
  | some ts => simpa [ht] using h
  | none =>
    rw [ht] at h
    cases fin <;> simp [newMapXml, decodeTop] at h

/-- decode a document, write the Map with `mv.Xml()` (escaping on), deliver the bytes through a
    Reader under ANY legal schedule and read them with `NewMapXmlReader` / `NewMapXmlReaderRaw`:
    the Map read is the one of the direct byte-level fixed point (`C02_tok_fixed_point_bytes`),
    equivalent to the first Map, the same for every schedule, and the Raw bytes are the bytes
    written.  Hypotheses as in `C02_tok_fixed_point_bytes`. -/
theorem C13_bytes_encoder_any_schedule (S : Strconv)
    (pre post : List Tok) (hpre : ∀ t ∈ pre, ¬ isStart t)
    (sp name : Str) (attrs : List Attr) (kids : List Node)
    (hd : Conv.inDomain dc S (.elem sp name attrs kids) = true)
    (hadj : noAdjText (.elem sp name attrs kids) = true)
    (hnames : NamesOk (.elem sp name attrs kids) = true)
    (hwn : ∀ n, encTree ec name (Conv.value dc S (.elem sp name attrs kids)).norm = .ok [n] →
      WellNamed n = true) :
    ∃ m out m',
      newMapXml dc S (pre ++ flatten (.elem sp name attrs kids) ++ post) .eof = .ok (.map m)
      ∧ mapXml ec m none = .ok out
      ∧ newMapXmlBytes dc S out .eof = .ok m'
      ∧ m' ≈ᵥ .map m
      ∧ ∀ s : Sched, Legal s = true → bytesOf s = out →
          newMapXmlReader dc S s = .ok m' ∧ newMapXmlReaderRaw dc S s = (.ok m', out) := by
  obtain ⟨m, out, m', h1, h2, h3, h4⟩ := C02.C02_tok_fixed_point_bytes S .eof pre post hpre sp name
    attrs kids hd hadj hnames hwn
  have hb := C13_bytes_of_tokens_ok dc S out .eof m' h3
  refine ⟨m, out, m', h1, h2, hb, h4, ?_⟩
  intro s hs hbs
  obtain ⟨a, b⟩ := C13_bytes_reader_eq_direct dc S s hs
  exact ⟨by rw [a, hbs, hb], by rw [b, hbs, hb]⟩

/-! ### non-vacuity -/

/-- the bytes `<a x="1">t</a>` with zero-length reads before every byte, the last byte together
    with io.EOF, then a (0,EOF) read -/
def exXml : Str := "<a x=\"1\">t</a>".toList
def exXmlSched : Sched :=
  (exXml.dropLast.flatMap fun c => [.zero, .byte c false]) ++ [.zero, .byte '>' true, .zeroEof]

example : Legal exXmlSched = true ∧ WF exXmlSched = true ∧ bytesOf exXmlSched = exXml := by decide
example : Rd.zero ∈ exXmlSched ∧ Rd.byte '>' true ∈ exXmlSched := by decide
example : Legal C13.exSched = true := by decide
example : bytesThroughAdaptor exXmlSched = exXml ∧ endThroughAdaptor exXmlSched = .eof := by
  decide
example : (newMapXmlReaderRaw {} S0 exXmlSched).2 = exXml := by
  rw [(C13_bytes_reader_eq_direct {} S0 exXmlSched (by decide)).2]; decide
example : newMapXmlReader {} S0 exXmlSched = newMapXmlReader {} S0 (plain exXml) :=
  (C13_bytes_reader_schedule_free {} S0 exXmlSched (plain exXml) (by decide) (by decide)
    (by decide)).1

/-- `Legal` is needed: a byte after a (0,EOF) read is never seen … -/
example : bytesThroughAdaptor [.byte 'a' false, .zeroEof, .byte 'b' false] ≠
    bytesOf [.byte 'a' false, .zeroEof, .byte 'b' false] := by decide
/-- … and a (0,error) read ends the stream with an error, not io.EOF -/
example : endThroughAdaptor [.byte 'a' false, .fail] = .other ∧
    Legal [.byte 'a' false, .fail] = false := by decide

/-- the surface sample of C01ExtBytes under a schedule with zero-length reads and byte+EOF -/
def exSurfBytes : Str := renderS C01.surfSample
def exSurfSched : Sched :=
  (exSurfBytes.dropLast.flatMap fun c => [.byte c false, .zero]) ++ [.byte '>' true, .zeroEof]

/-- the hypotheses of `C13_bytes_encoder_any_schedule` hold on the sample document of
    `Props/C02.lean`; its encoder output delivered with zero-length reads and byte+EOF -/
def exEncBytes : Str := "<a x=\" 1 \"><b>t&lt;u</b><b/><c k=\"v\">w<d/></c></a>".toList
def exEncSched : Sched :=
  (exEncBytes.dropLast.flatMap fun c => [.zero, .byte c false]) ++ [.byte '>' true, .zeroEof]
example : Legal exEncSched = true ∧ bytesOf exEncSched = exEncBytes := by decide
example : mapXml ec [("a".toList, C02.sampleMap)] none = .ok exEncBytes := by rfl
example : Conv.inDomain dc C02.S0 C02.sampleTree = true ∧ NamesOk C02.sampleTree = true ∧
    noAdjText C02.sampleTree = true := by decide
example : ∃ n, encTree ec "a".toList C02.sampleMap.norm = .ok [n] ∧ WellNamed n = true :=
  ⟨_, rfl, by decide⟩

end Mxj.C13
