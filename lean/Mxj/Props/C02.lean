/-
  Mxj.Props.C02 — "Decode → encode → decode is a fixed point" (and the bridge from bytes to trees).

  Part 1 (`C02_bytes_eq_render`): the bytes the compact encoder writes are the canonical
  rendering (`render`) of the tree `encTree` builds, and the encoder fails exactly when the
  tree builder fails.
-/
import Mxj.Lemmas.Encode
namespace Mxj.C02
open Mxj Mxj.Enc

/-- bytes = rendering of the encoder's tree, as one equation (success and failure).
    `Plain cfg v`: every number's `%v` text is non-empty and needs no escaping, and (with
    escaping on) no `nil` sits under the text key — Go writes those texts raw, so without the
    hypothesis the bytes are not the rendering of any tree:
    `{"a": Val.num "f:1<2"}` gives `<a>1<2</a>`, `Val.num "f:"` gives `<a>/>`, and
    `{"#text": nil, "b": 1}` gives `<doc><nil><b>1</b></doc>`. -/
theorem C02_marshal_eq_render (cfg : EncCfg) (key : Str) (v : Val) (hp : Plain cfg v = true) :
    marshal cfg key v = (encTree cfg key v.norm).map (fun ns => ns.flatMap (render cfg)) := by
  unfold marshal
  exact marshalN_eq_render cfg key v.norm (Plain_norm cfg v hp)

theorem C02_bytes_eq_render (cfg : EncCfg) (key : Str) (v : Val) (out : Str)
    (hp : Plain cfg v = true) (h : marshal cfg key v = .ok out) :
    ∃ ns, encTree cfg key v.norm = .ok ns ∧ out = ns.flatMap (render cfg) := by
  rw [C02_marshal_eq_render cfg key v hp] at h
  cases hE : encTree cfg key v.norm with
  | error e => rw [hE] at h; simp [Except.map] at h
  | ok ns =>
    rw [hE] at h
    simp only [Except.map, Except.ok.injEq] at h
    exact ⟨ns, rfl, h.symm⟩

/-- conversely: if the tree builder succeeds, the encoder writes the rendering of the tree -/
theorem C02_render_eq_bytes (cfg : EncCfg) (key : Str) (v : Val) (ns : List Node)
    (hp : Plain cfg v = true) (h : encTree cfg key v.norm = .ok ns) :
    marshal cfg key v = .ok (ns.flatMap (render cfg)) := by
  rw [C02_marshal_eq_render cfg key v hp, h]; rfl

/-- the encoder fails exactly when the tree builder fails -/
theorem C02_error_iff (cfg : EncCfg) (key : Str) (v : Val) (e : ErrKind)
    (hp : Plain cfg v = true) :
    marshal cfg key v = .error e ↔ encTree cfg key v.norm = .error e := by
  rw [C02_marshal_eq_render cfg key v hp]
  cases encTree cfg key v.norm <;> simp [Except.map]

/-- the tree is never empty: a value encodes to at least one element -/
theorem C02_tree_nonempty (cfg : EncCfg) (key : Str) (v : Val) (ns : List Node)
    (h : encTree cfg key v = .ok ns) : ns ≠ [] := encTree_ne_nil cfg key v ns h

end Mxj.C02
