/-
  Mxj.Props.C02 — "Decode → encode → decode is a fixed point" (and the bridge from bytes to trees).

  Part 1 (`C02_marshal_eq_render`, `C02_bytes_eq_render`): the bytes the compact encoder writes
  are the canonical rendering (`render`) of the tree `encTree` builds, and the encoder fails
  exactly when the tree builder fails.
  Part 2 (`C02_decoded`, `C02_decoded_image`, `C02_fixed_point_tree`): a Map produced by the
  decoding conventions has the shape `Decoded`; such a Map is its own image; hence encoding it
  and applying the conventions to the encoder's tree gives an equivalent Map.
  Part 3 (`TokLaw`, `C02_fixed_point_bytes`): through bytes, with the XML tokenizer as an
  explicit trusted-base hypothesis and the stream decoder of C01.
-/
import Mxj.Lemmas.Encode
import Mxj.Props.C16
import Mxj.Props.C01
namespace Mxj.C02
open Mxj Mxj.Enc

/-- bytes = rendering of the encoder's tree, as one equation (success and failure).
    `Plain cfg v`: every number's `%v` text is non-empty and needs no escaping, and (with
    escaping on) no `nil` sits under the text key — Go writes those texts raw, so without the
    hypothesis the bytes are not the rendering of any tree:
    `{"a": Val.num "f:1<2"}` gives `<a>1<2</a>`, `Val.num "f:"` gives `<a>/>`, and
    `{"#text": nil, "b": 1}` gives `<doc><nil><b>1</b></doc>`. -/
theorem C02_marshal_eq_render (cfg : EncCfg) (key : Str) (v : Val) (hp : Plain cfg v = true) :
    marshal cfg key v = (encTree cfg key v.norm).map (fun ns => ns.flatMap (render cfg)) := by
  unfold marshal
  exact marshalN_eq_render cfg key v.norm (Plain_norm cfg v hp)

theorem C02_bytes_eq_render (cfg : EncCfg) (key : Str) (v : Val) (out : Str)
    (hp : Plain cfg v = true) (h : marshal cfg key v = .ok out) :
    ∃ ns, encTree cfg key v.norm = .ok ns ∧ out = ns.flatMap (render cfg) := by
  rw [C02_marshal_eq_render cfg key v hp] at h
  cases hE : encTree cfg key v.norm with
  | error e => rw [hE] at h; simp [Except.map] at h
  | ok ns =>
    rw [hE] at h
    simp only [Except.map, Except.ok.injEq] at h
    exact ⟨ns, rfl, h.symm⟩

/-- conversely: if the tree builder succeeds, the encoder writes the rendering of the tree -/
theorem C02_render_eq_bytes (cfg : EncCfg) (key : Str) (v : Val) (ns : List Node)
    (hp : Plain cfg v = true) (h : encTree cfg key v.norm = .ok ns) :
    marshal cfg key v = .ok (ns.flatMap (render cfg)) := by
  rw [C02_marshal_eq_render cfg key v hp, h]; rfl

/-- the encoder fails exactly when the tree builder fails -/
theorem C02_error_iff (cfg : EncCfg) (key : Str) (v : Val) (e : ErrKind)
    (hp : Plain cfg v = true) :
    marshal cfg key v = .error e ↔ encTree cfg key v.norm = .error e := by
  rw [C02_marshal_eq_render cfg key v hp]
  cases encTree cfg key v.norm <;> simp [Except.map]

/-- the tree is never empty: a value encodes to at least one element -/
theorem C02_tree_nonempty (cfg : EncCfg) (key : Str) (v : Val) (ns : List Node)
    (h : encTree cfg key v = .ok ns) : ns ≠ [] := encTree_ne_nil cfg key v ns h

/-! ### Part 2: the fixed point at tree level -/

/-- what the conventions produce (default options) has the shape `Decoded`: leaves are trimmed
    strings, lists have at least two non-list members, maps are non-empty and not text-only,
    attribute entries are strings, the text entry is a non-empty trimmed string.
    `NamesOk`: attribute names non-empty, child element names not of the form "-x…" —
    otherwise the decoded key is re-encoded as the other kind
    (`<a -x="1"/>`-style trees: an attribute named "" decodes to key "-", which is re-encoded
    as a child ELEMENT `<->`; a child element named "-x" decodes to key "-x", which is
    re-encoded as an ATTRIBUTE, or rejected if its value is a map). -/
theorem C02_decoded (S : Strconv) (sp name : Str) (attrs : List Attr) (kids : List Node)
    (hd : Conv.inDomain dc S (.elem sp name attrs kids) = true)
    (hn : NamesOk (.elem sp name attrs kids) = true) :
    Decoded (Conv.value dc S (.elem sp name attrs kids)) = true :=
  value_decoded S _ hd hn rfl

/-- a `Decoded` value is its own image -/
theorem C02_decoded_image (v : Val) (h : Decoded v = true) : image v ≈ᵥ v := image_decoded v h

/-- … is accepted by the encoder, and stays `Decoded` when normalised -/
theorem C02_decoded_domain (v : Val) (h : Decoded v = true) : EncDomain v = true :=
  Decoded_EncDomain v h
theorem C02_decoded_norm (v : Val) (h : Decoded v = true) : Decoded v.norm = true :=
  Decoded_norm v h

/-- XML → Map → XML → Map is a fixed point (tree level, default options): for an in-domain
    tree `t`, `Conv.doc dc S t` is a one-entry Map `{root}`; encoding it (root selection of
    `mv.Xml()`: the single key becomes the root tag) succeeds with a single tree `n`, and the
    conventions applied to `n` give an equivalent Map -/
theorem C02_fixed_point_tree (S : Strconv) (sp name : Str) (attrs : List Attr) (kids : List Node)
    (hd : Conv.inDomain dc S (.elem sp name attrs kids) = true)
    (hnames : NamesOk (.elem sp name attrs kids) = true) :
    ∃ root, Conv.doc dc S (.elem sp name attrs kids) = .map [root] ∧
      ∃ n, encTree ec root.1 root.2.norm = .ok [n]
        ∧ Conv.doc dc S n ≈ᵥ Conv.doc dc S (.elem sp name attrs kids) := by
  obtain ⟨n, hn, hdoc, hv⟩ := fixed_point_value S sp name attrs kids hd hnames
  refine ⟨(name, Conv.value dc S (.elem sp name attrs kids)), rfl, n, hn, ?_⟩
  rw [hdoc]
  have h2 : Conv.doc dc S (.elem sp name attrs kids)
      = .map [(name, Conv.value dc S (.elem sp name attrs kids))] := rfl
  rw [h2]
  unfold Val.equiv at hv ⊢
  simp only [norm_singleton_map, hv]

/-! ### Part 3: through bytes -/

/-- TB-XML: what the standard tokenizer (`xml.Decoder.RawToken` on the bytes, collected until
    EOF) returns for the canonical rendering, with escaping on, of a canonical well-named tree:
    the tree's own token sequence.  (`WellNamed`: empty name spaces, colon-free ASCII XML
    names, only XML characters other than '\r' in text and attribute values, no empty text
    node, no two adjacent text nodes, only elements and text.)  That entity references are
    expanded back to the original characters is `C05_unescape_escape`. -/
structure TokLaw (tokens : Str → List Tok) : Prop where
  render_flatten : ∀ (cfg : EncCfg) (n : Node), cfg.escape = true → WellNamed n = true →
    tokens (render cfg n) = flatten n

/-- `mv.Xml()` on the one-entry Map the decoder produces uses the entry as the root -/
theorem mapXml_decoded (k : Str) (v : Val) (h : Decoded v = true) :
    mapXml ec [(k, v)] none = marshal ec k v := by
  unfold Decoded at h
  simp only [Bool.and_eq_true, Bool.not_eq_true'] at h
  cases v with
  | list _ => simp [Val.isList] at h
  | null | bool _ | num _ | str _ | map _ => rfl

/-- XML → Map → XML → Map through bytes: decode the token stream of an in-domain tree `t`
    (`newMapXml`, C01), encode the Map with `mv.Xml()` (`mapXml`, escaping on), tokenize the
    bytes (`tokens`, TB-XML) and decode again: the second Map is equivalent to the first.
    `hwn` asks that the tree the encoder builds is well-named (it is built from the names and
    the trimmed strings of `t`; that `WellNamed t` is inherited is not proved here, the
    predicate is executable). -/
theorem C02_fixed_point_bytes (tokens : Str → List Tok) (law : TokLaw tokens) (S : Strconv)
    (fin : StreamEnd) (pre post : List Tok) (hpre : ∀ t ∈ pre, ¬ isStart t)
    (sp name : Str) (attrs : List Attr) (kids : List Node)
    (hd : Conv.inDomain dc S (.elem sp name attrs kids) = true)
    (hadj : noAdjText (.elem sp name attrs kids) = true)
    (hnames : NamesOk (.elem sp name attrs kids) = true)
    (hwn : ∀ n, encTree ec name (Conv.value dc S (.elem sp name attrs kids)).norm = .ok [n] →
      WellNamed n = true) :
    ∃ m out m',
      newMapXml dc S (pre ++ flatten (.elem sp name attrs kids) ++ post) fin = .ok (.map m)
      ∧ mapXml ec m none = .ok out
      ∧ newMapXml dc S (tokens out) fin = .ok m'
      ∧ m' ≈ᵥ .map m := by
  -- first decode
  obtain ⟨x, hx, hxe⟩ := C01.C01_decode_one_root dc S fin pre post hpre sp name attrs kids hd hadj
  have hD := C02_decoded S sp name attrs kids hd hnames
  -- encode: same bytes as for the conventions' value
  have hm1 : Val.map [(name, x)] ≈ᵥ Val.map [(name, Conv.value dc S (.elem sp name attrs kids))] := by
    unfold Val.equiv at hxe ⊢
    simp only [norm_singleton_map, hxe]
  obtain ⟨n, hn, hdoc, hv⟩ := fixed_point_value S sp name attrs kids hd hnames
  have hbytes : mapXml ec [(name, x)] none = .ok (render ec n) := by
    rw [C16.C16_mapXml_perm_invariant ec _ _ none hm1, mapXml_decoded name _ hD,
      C02_render_eq_bytes ec name _ [n] (Decoded_Plain _ hD) hn]
    simp
  -- tokenize and decode again
  have hW := hwn n hn
  obtain ⟨a', k', e⟩ := encTree_single ec name _ [n] (by
    have := Decoded_norm _ hD
    unfold Decoded at this
    simp only [Bool.and_eq_true, Bool.not_eq_true'] at this
    exact this.1) hn
  have e' : n = .elem [] name a' k' := by simpa using e
  subst e'
  have hdom : Conv.inDomain dc S (.elem [] name a' k') = true := by
    obtain ⟨_, _, e, h⟩ := encTree_dom S name _ _ hn _ (List.mem_singleton.2 rfl)
    exact h
  have hadj' : noAdjText (.elem [] name a' k') = true := by
    unfold WellNamed at hW
    simp only [Bool.and_eq_true] at hW
    exact hW.2
  obtain ⟨m', hm', hme⟩ := C01.C01_decode_conventions dc S fin [] [] (by simp) [] name a' k' hdom hadj'
  refine ⟨[(name, x)], render ec (.elem [] name a' k'), m', hx, hbytes, ?_, ?_⟩
  · rw [law.render_flatten ec _ rfl hW]
    simpa using hm'
  · refine Val.equiv_trans hme ?_
    rw [hdoc]
    unfold Val.equiv at hv hxe ⊢
    simp only [norm_singleton_map, hv, hxe]

/-! ### `AnyXml`: bytes = rendering of its tree -/

theorem C02_anyXml_eq_render (cfg : EncCfg) (v : Val) (rt et : Str) (hp : Plain cfg v = true) :
    anyXml cfg v rt et = (anyTree cfg v rt et).map (fun ns => ns.flatMap (render cfg)) :=
  anyXml_eq_render cfg v rt et hp

/-! ### non-vacuity -/

/-- a `Strconv` (unused: the cast flag is off) -/
def S0 : Strconv :=
  { parseInt := fun _ => none, parseUint := fun _ => none, parseFloat := fun _ => none, lower := id }

/-- `<a x=" 1 ">␤  <b> t<u </b>␤  <b/><c k="v">w<d/></c></a>` -/
def sampleTree : Node :=
  .elem [] "a".toList [⟨[], "x".toList, " 1 ".toList⟩]
    [.text "\n  ".toList, .elem [] "b".toList [] [.text " t<u ".toList], .text "\n  ".toList,
     .elem [] "b".toList [] [],
     .elem [] "c".toList [⟨[], "k".toList, "v".toList⟩] [.text "w".toList, .elem [] "d".toList [] []]]

example : Conv.inDomain dc S0 sampleTree = true := by decide
example : NamesOk sampleTree = true := by decide
example : noAdjText sampleTree = true := by decide

/-- the Map of the document … -/
def sampleMap : Val :=
  .map [("-x".toList, .str " 1 ".toList),
        ("b".toList, .list [.str "t<u".toList, .str []]),
        ("c".toList, .map [("-k".toList, .str "v".toList), ("d".toList, .str []),
                           ("#text".toList, .str "w".toList)])]

example : Conv.doc dc S0 sampleTree = .map [("a".toList, sampleMap)] := by decide
example : Decoded sampleMap = true := by decide

/-- … its bytes (`mv.Xml()`, escaping on) … -/
example : mapXml ec [("a".toList, sampleMap)] none
    = .ok "<a x=\" 1 \"><b>t&lt;u</b><b/><c k=\"v\">w<d/></c></a>".toList := by rfl

/-- … the tree of those bytes is well-named, and decoding it gives the same Map again -/
example : ∃ n, encTree ec "a".toList sampleMap.norm = .ok [n] ∧ WellNamed n = true
    ∧ Conv.doc dc S0 n = .map [("a".toList, sampleMap)] := ⟨_, rfl, by decide, by decide⟩

end Mxj.C02
