/-
  Mxj.Props.C15 — totality of the decoders.

  For arbitrary byte input every decoder terminates and returns either a Map or an error — it
  fails exactly when the underlying tokenizer rejects the first document, and then returns no
  partial Map (the sequence decoder's documented no-root result aside); none of them panics,
  and every Map produced by a decoder can be passed to the corresponding encoder without a
  panic.

  "Arbitrary bytes" are, in the model, an arbitrary token list `toks` followed by a stream end
  `fin` (`.eof`: the tokenizer hit end of input, `.bad`: it reported a syntax error).
-/
import Mxj.Lemmas.Total
import Mxj.Props.C15Sites
import Mxj.Generated.CallFacts
namespace Mxj.C15
open Mxj

set_option maxRecDepth 100000 in
/-- the regenerated residue of potentially panicking source sites is contained in the reviewed
    table (re-checked against the regenerated list on every run) -/
theorem C15_sites_covered :
    Generated.panicSites.all (fun s => justified.any
      (fun j => j.1 == s.1 && j.2.1 == s.2.1 && j.2.2.1 == s.2.2)) = true := by
  decide +kernel

/-! ### the Map decoder -/

/-- `decodeTop` with the fuel `newMapXml` passes, in terms of the independent scan -/
private theorem top (cfg : DecCfg) (S : Strconv) (toks : List Tok) (fin : StreamEnd) :
    (rootCloses toks = true →
      ∃ k x r, decodeTop cfg S fin (toks.length + 1) toks = .ok (.map [(k, x)], r)) ∧
    (rootCloses toks = false → decodeTop cfg S fin (toks.length + 1) toks = finErr fin) :=
  Total.decodeTop_spec cfg S fin (toks.length + 1) toks (Nat.lt_succ_self _)

/-- it fails exactly when the token stream ends before the first root element closes -/
theorem C15_map_decoder_fails_iff (cfg : DecCfg) (S : Strconv) (toks : List Tok) (fin : StreamEnd) :
    (∃ v, newMapXml cfg S toks fin = .ok v) ↔ rootCloses toks = true := by
  have h := top cfg S toks fin
  unfold newMapXml
  cases hr : rootCloses toks with
  | true =>
    obtain ⟨k, x, r, e⟩ := h.1 hr
    rw [e]
    simp
  | false =>
    rw [h.2 hr]
    cases fin <;> simp [finErr]

/-- … and then the error kind is that of the stream end: io.EOF or the tokenizer's error,
    nothing else (in particular no partial Map and no out-of-fuel error) -/
theorem C15_map_decoder_error_kind (cfg : DecCfg) (S : Strconv) (toks : List Tok) (fin : StreamEnd)
    (h : rootCloses toks = false) :
    newMapXml cfg S toks fin = (match fin with | .eof => .eof | .bad => .syntax) := by
  unfold newMapXml
  rw [(top cfg S toks fin).2 h]
  cases fin <;> rfl

/-- on success the value is a one-entry map (the root element) -/
theorem C15_map_decoder_one_root (cfg : DecCfg) (S : Strconv) (toks : List Tok) (fin : StreamEnd)
    (v : Val) (h : newMapXml cfg S toks fin = .ok v) : ∃ k x, v = .map [(k, x)] := by
  have hr : rootCloses toks = true := (C15_map_decoder_fails_iff cfg S toks fin).1 ⟨v, h⟩
  obtain ⟨k, x, r, e⟩ := (top cfg S toks fin).1 hr
  unfold newMapXml at h
  rw [e] at h
  simp only [Outcome.ok.injEq] at h
  exact ⟨k, x, h.symm⟩

/-- the Map decoder is total: for every token list, every stream end, every configuration it
    returns a Map, io.EOF or a syntax error — never a panic, and (with the fuel `newMapXml`
    uses) never the out-of-fuel error -/
theorem C15_map_decoder_total (cfg : DecCfg) (S : Strconv) (toks : List Tok) (fin : StreamEnd) :
    (∃ v, newMapXml cfg S toks fin = .ok v) ∨ newMapXml cfg S toks fin = .eof
      ∨ newMapXml cfg S toks fin = .syntax := by
  cases hr : rootCloses toks with
  | true => exact .inl ((C15_map_decoder_fails_iff cfg S toks fin).2 hr)
  | false =>
    have := C15_map_decoder_error_kind cfg S toks fin hr
    cases fin
    · exact .inr (.inl this)
    · exact .inr (.inr this)

/-! ### the sequence decoder -/

private theorem stop (c : SeqCfg) (S : Strconv) (toks : List Tok) (fin : StreamEnd) :
    Total.SeqTopSpec c fin toks (newMapXmlSeq c S toks fin) :=
  Total.seqTop_spec c S fin (toks.length + 1) toks (Nat.lt_succ_self _)

/-- complete outcome classification of the sequence decoder by the decoder-independent
    `seqClass` (a stack scan of the token list): a one-root MapSeq when the root element is
    closed by properly named end tags, the documented no-root result when a comment /
    directive / processing instruction precedes any root, the stream-end error when the tokens
    run out, and the "not properly terminated / stray end tag" error exactly on a mismatched
    or stray end tag -/
theorem C15_seq_decoder_outcome (c : SeqCfg) (S : Strconv) (toks : List Tok) (fin : StreamEnd) :
    match seqClass c toks with
    | .doc => ∃ k v, newMapXmlSeq c S toks fin = .ok (.doc (.map [(k, v)]))
    | .noRoot => ∃ m, newMapXmlSeq c S toks fin = .ok (.noRoot m)
    | .trunc => newMapXmlSeq c S toks fin = (match fin with | .eof => .eof | .bad => .syntax)
    | .badEnd => newMapXmlSeq c S toks fin = .err .other := by
  have h := stop c S toks fin
  unfold Total.SeqTopSpec at h
  cases hc : seqClass c toks <;> rw [hc] at h <;> simp only at h ⊢
  · exact h
  · exact h
  · rw [h]; cases fin <;> rfl
  · exact h

/-- the sequence decoder is total: a MapSeq, the documented no-root result, io.EOF, a syntax
    error, or the "not properly terminated / stray end tag" error — never a panic -/
theorem C15_seq_decoder_total (c : SeqCfg) (S : Strconv) (toks : List Tok) (fin : StreamEnd) :
    ∀ site, newMapXmlSeq c S toks fin ≠ .panic site := by
  intro site e
  have h := C15_seq_decoder_outcome c S toks fin
  rw [e] at h
  cases hc : seqClass c toks <;> rw [hc] at h <;> simp only at h
  · obtain ⟨_, _, h⟩ := h; cases h
  · obtain ⟨_, h⟩ := h; cases h
  · cases fin <;> cases h
  · cases h

/-- with the fuel `newMapXmlSeq` uses, `.err .other` is never the out-of-fuel error: it arises
    exactly when `seqClass` finds a stray end tag ahead of the root or an end tag whose name
    differs from the open element's -/
theorem C15_seq_decoder_no_fuel_error (c : SeqCfg) (S : Strconv) (toks : List Tok)
    (fin : StreamEnd) :
    newMapXmlSeq c S toks fin = .err .other ↔ seqClass c toks = .badEnd := by
  have h := C15_seq_decoder_outcome c S toks fin
  constructor
  · intro e
    rw [e] at h
    cases hc : seqClass c toks <;> rw [hc] at h <;> simp only at h
    · obtain ⟨_, _, h⟩ := h; cases h
    · obtain ⟨_, h⟩ := h; cases h
    · cases fin <;> cases h
  · intro hc
    rw [hc] at h
    exact h

/-- errors other than the two above: exactly when the tokens run out, with the stream end's
    error kind -/
theorem C15_seq_decoder_fails_iff (c : SeqCfg) (S : Strconv) (toks : List Tok) (fin : StreamEnd) :
    (∃ r, newMapXmlSeq c S toks fin = .ok r) ↔ (seqClass c toks = .doc ∨ seqClass c toks = .noRoot) := by
  have h := C15_seq_decoder_outcome c S toks fin
  cases hc : seqClass c toks <;> rw [hc] at h <;> simp only at h
  · obtain ⟨k, v, h⟩ := h; rw [h]; simp
  · obtain ⟨m, h⟩ := h; rw [h]; simp
  · rw [h]; cases fin <;> simp
  · rw [h]; simp

/-! ### decoder output is encodable -/

/-- the decoder establishes the shape invariant `SeqShaped` … -/
theorem C15_seq_decoded_shaped (c : SeqCfg) (S : Strconv) (toks : List Tok) (fin : StreamEnd)
    (m : Val) (hc : c.keysOK = true) (hn : seqNamesOK c toks = true)
    (h : newMapXmlSeq c S toks fin = .ok (.doc m)) : SeqShaped c m = true :=
  Total.seqTop_shaped c S fin hc _ toks m hn h

/-- … under which the sequence encoder reaches none of its `.panic` sites -/
theorem C15_seq_shaped_no_panic (c : SeqCfg) (esc goEmpty : Bool) (m : Entries)
    (h : SeqShaped c (.map m) = true) : ∀ site, mapSeqXml c esc goEmpty m ≠ .panic site :=
  Total.mapSeqXml_noPanic c esc goEmpty m h

/-
  As first stated (no hypotheses on `c` and `toks`):

    theorem C15_encode_decoded_seq (c : SeqCfg) (S) (toks fin m)
        (h : newMapXmlSeq c S toks fin = .ok (.doc (.map m))) (esc goEmpty : Bool) :
        ∀ site, mapSeqXml c esc goEmpty m ≠ .panic site

  this is false in the model, because token names and configuration keys are arbitrary
  strings there; see the two counterexamples below.  Real tokenizer output cannot contain an
  element named `#comment`, `#directive`, `#procinst` or `#attr` (`#` is not a name character),
  and the keys are constants of xmlseq.go, so both added hypotheses hold for the Go code.
-/

/-- every MapSeq the sequence decoder returns is encoded without a panic, provided the special
    keys do not collide (`keysOK`: true for the fixed keys) and no element is named like one of
    them (`seqNamesOK`: true of every XML name, which cannot start with `#`) -/
theorem C15_encode_decoded_seq_partial (c : SeqCfg) (S : Strconv) (toks : List Tok)
    (fin : StreamEnd) (m : Entries) (hc : c.keysOK = true) (hn : seqNamesOK c toks = true)
    (h : newMapXmlSeq c S toks fin = .ok (.doc (.map m))) (esc goEmpty : Bool) :
    ∀ site, mapSeqXml c esc goEmpty m ≠ .panic site :=
  C15_seq_shaped_no_panic c esc goEmpty m (C15_seq_decoded_shaped c S toks fin (.map m) hc hn h)

/-- the default keys satisfy `keysOK` -/
example : ({} : SeqCfg).keysOK = true := by decide

/-- counterexample 1 (element named like a special key, default configuration):
    `<#comment a="1"></#comment>` decodes to `{"#comment": {"#attr": {"a": …}}}`, and the
    encoder's unchecked `.(string)` on the missing comment text panics -/
def cex1 : Entries :=
  [("#comment".toList, .map [("#attr".toList,
      .map [("a".toList, .map [("#text".toList, .str "1".toList), ("#seq".toList, seqNum 0)])])])]
example : seqNamesOK {} [.start [] "#comment".toList [⟨[], "a".toList, "1".toList⟩],
    .stop [] "#comment".toList] = false := by decide
example : newMapXmlSeq {} Dec.S0 [.start [] "#comment".toList [⟨[], "a".toList, "1".toList⟩],
    .stop [] "#comment".toList] .eof = .ok (.doc (.map cex1)) := rfl
example : mapSeqXml {} false false cex1 = .panic "comment text is not a string" := by
  simp [cex1, mapSeqXml, seqEnc, lookup, strOf]

/-- counterexample 2 (colliding keys: the attribute key set to the comment key):
    `<a><!--x--></a>` stores the comment where the encoder looks for the attribute map -/
def cex2cfg : SeqCfg := { attrK := "#comment".toList }
def cex2 : Entries :=
  [("a".toList, .map [("#comment".toList,
      .map [("#text".toList, .str "x".toList), ("#seq".toList, seqNum 0)])])]
example : cex2cfg.keysOK = false := by decide
example : seqNamesOK cex2cfg [.start [] "a".toList [], .comment "x".toList, .stop [] "a".toList]
    = true := by decide
example : newMapXmlSeq cex2cfg Dec.S0 [.start [] "a".toList [], .comment "x".toList,
    .stop [] "a".toList] .eof = .ok (.doc (.map cex2)) := rfl
example : mapSeqXml cex2cfg false false cex2 = .panic "attribute value is not a map" := by
  simp [cex2, cex2cfg, mapSeqXml, seqEnc, lookup, seqAttrsText, seqAttrText, sortBySeq,
    insertBySeq, seqOf, seqNum]

/-
  The Map encoder model has no panic (`Except`).  The full statement "for every decoded Map the
  compact encoder succeeds",

    theorem C15_encode_decoded_map (cfg S toks fin m) (ec : EncCfg)
        (h : newMapXml cfg S toks fin = .ok (.map m)) : ∃ out, mapXml ec m none = .ok out

  is false: the encoder recognises attribute keys by prefix and the text key by name, and an
  ELEMENT whose key it reads that way must hold a scalar.  That can happen for decoder output:
  with a letter prefix (`SetAttrPrefix("a")`), `<r><ab><c/></ab></r>` decodes to
  `{"r":{"ab":{"c":""}}}` and encoding fails with "invalid attribute value" (first example
  below; these are real XML names).  With the default prefix `-` (or any prefix that cannot start
  an XML name) and the text key `#text` it cannot happen for tokenizer output, because element
  names come from XML names; with the empty prefix no key is an attribute key.  The hypothesis
  `elemKeysOK` says exactly: no element key is read as an attribute key or the text key.
  `ec.attrPrefix = cfg.attrPrefix` is NOT needed (attribute, text and `_seq` entries hold
  scalars, which encode in any position).
-/

/-- every value the Map decoder returns is encoded without error, provided no element key is an
    attribute key or the text key for the encoder -/
theorem C15_encode_decoded_map_partial (cfg : DecCfg) (S : Strconv) (ec : EncCfg)
    (toks : List Tok) (fin : StreamEnd) (m : Entries)
    (hk : elemKeysOK cfg S ec toks = true)
    (h : newMapXml cfg S toks fin = .ok (.map m)) : ∃ out, mapXml ec m none = .ok out :=
  Total.mapXml_ok ec m (Total.newMapXml_encOK cfg S ec toks fin (.map m) hk h)

/-- the invariant behind it: decoded attribute / text entries are scalars (`encOK`) -/
theorem C15_map_decoded_encOK (cfg : DecCfg) (S : Strconv) (ec : EncCfg) (toks : List Tok)
    (fin : StreamEnd) (v : Val) (hk : elemKeysOK cfg S ec toks = true)
    (h : newMapXml cfg S toks fin = .ok v) : encOK ec v = true :=
  Total.newMapXml_encOK cfg S ec toks fin v hk h

/-- XML names: no start tag's local name begins with `-` or `#` -/
def xmlNames (toks : List Tok) : Bool :=
  toks.all fun t => match t with
    | .start _ n _ => decide (n.head? ≠ some '-') && decide (n.head? ≠ some '#')
    | _ => true

/-- for the default attribute prefix and text key on the encoder side, without key lower-casing
    (`strings.ToLower` is a trusted-base parameter of the model), `elemKeysOK` follows from the
    names being XML names: then every decoded Map is encodable, whatever the other options -/
theorem C15_encode_decoded_map_xmlnames (cfg : DecCfg) (S : Strconv) (ec : EncCfg)
    (toks : List Tok) (fin : StreamEnd) (m : Entries)
    (hp : ec.attrPrefix = ['-']) (ht : ec.textK = "#text".toList) (hl : cfg.lowerCase = false)
    (hn : xmlNames toks = true)
    (h : newMapXml cfg S toks fin = .ok (.map m)) : ∃ out, mapXml ec m none = .ok out := by
  refine C15_encode_decoded_map_partial cfg S ec toks fin m ?_ h
  simp only [elemKeysOK, xmlNames, List.all_eq_true] at hn ⊢
  intro t ht'
  have h1 := hn t ht'
  cases t with
  | start sp n attrs =>
    simp only [Bool.and_eq_true, decide_eq_true_eq] at h1 ⊢
    have e5 : "#text".toList = ['#', 't', 'e', 'x', 't'] := rfl
    cases n with
    | nil => simp [plainE, isAttrK, elemKey, hl, snakeCase, hp, ht, e5]
    | cons ch tl =>
      simp only [List.head?_cons, ne_eq, Option.some.injEq] at h1
      have h2 : ¬ '-' = ch := fun e => h1.1 e.symm
      by_cases hs : cfg.snake = true <;>
        simp [plainE, isAttrK, elemKey, hl, snakeCase, hp, ht, e5, hs, h1.1, h1.2, h2,
          List.isPrefixOf]
  | _ => rfl

/-- letter prefix: `<r><ab><c/></ab></r>` with `SetAttrPrefix("a")` decodes, but the result is
    rejected by the encoder ("invalid attribute value") -/
example :
    let cfg : DecCfg := { attrPrefix := ['a'] }
    let ec : EncCfg := { attrPrefix := ['a'] }
    let toks := [Tok.start [] "r".toList [], .start [] "ab".toList [], .start [] "c".toList [],
                 .stop [] "c".toList, .stop [] "ab".toList, .stop [] "r".toList]
    elemKeysOK cfg Dec.S0 ec toks = false ∧
    ∃ m, newMapXml cfg Dec.S0 toks .eof = .ok (.map m) ∧ mapXml ec m none = .error .other :=
  ⟨by decide, _, rfl, rfl⟩

/-- the text key: an element named `#text` (not an XML name; the model's tokens are arbitrary)
    holding a map is rejected as a text value -/
example :
    let toks := [Tok.start [] "r".toList [], .start [] "#text".toList [], .start [] "c".toList [],
                 .stop [] "c".toList, .stop [] "#text".toList, .stop [] "r".toList]
    elemKeysOK {} Dec.S0 {} toks = false ∧
    ∃ m, newMapXml {} Dec.S0 toks .eof = .ok (.map m) ∧ mapXml {} m none = .error .other :=
  ⟨by decide, _, rfl, rfl⟩

/-! ### the `getJson` scanner -/

/-- `getJson` is total by construction (structural recursion on the read schedule: every
    schedule, including read errors, zero-length reads and early EOF, yields one of the five
    `JRes` results).  Its only success result, `.doc raw`, is handed out only in the form
    `{ … }`: the collected bytes begin with the opening and end with the closing brace (the
    extent characterisation is C13) -/
theorem C15_getjson_doc_braces (s : Stream.Sched) (raw : Str)
    (h : (Stream.getJson s {}).1 = .doc raw) :
    raw.head? = some '{' ∧ raw.getLast? = some '}' := by
  have := Total.getJson_docShape s {} ⟨fun _ => rfl, fun h => by cases h⟩
  rw [h] at this
  exact this

/-! ### non-vacuity -/

/-- truncated input `<r>x`: io.EOF when the tokenizer hits the end of input … -/
example : newMapXml {} Dec.S0 [.start [] "r".toList [], .text "x".toList] .eof = .eof := rfl
/-- … the tokenizer's error when it rejects the rest -/
example : newMapXml {} Dec.S0 [.start [] "r".toList [], .text "x".toList] .bad = .syntax := rfl
example : rootCloses [.start [] "r".toList [], .text "x".toList] = false := rfl
/-- complete input `<r a="1">x<b/></r>` followed by garbage: a Map, whatever the stream end -/
example : newMapXml {} Dec.S0
      [.procinst "xml".toList [], .start [] "r".toList [⟨[], "a".toList, "1".toList⟩],
       .text "x".toList, .start [] "b".toList [], .stop [] "b".toList, .stop [] "r".toList,
       .stop [] "zz".toList] .bad
    = .ok (.map [("r".toList, .map [("-a".toList, .str "1".toList), ("#text".toList, .str "x".toList),
                                    ("b".toList, .str [])])]) := rfl
example : rootCloses
      [.procinst "xml".toList [], .start [] "r".toList [⟨[], "a".toList, "1".toList⟩],
       .text "x".toList, .start [] "b".toList [], .stop [] "b".toList, .stop [] "r".toList,
       .stop [] "zz".toList] = true := rfl
/-- … and it is encodable -/
example : mapXml {} [("r".toList, .map [("-a".toList, .str "1".toList),
      ("#text".toList, .str "x".toList), ("b".toList, .str [])])] none
    = .ok "<r a=\"1\">x<b/></r>".toList := rfl

/-- the sequence decoder: a stray end tag ahead of the root is the "stray end tag" error … -/
example : newMapXmlSeq {} Dec.S0 [.text " ".toList, .stop [] "a".toList] .eof = .err .other := rfl
example : seqClass {} [.text " ".toList, .stop [] "a".toList] = .badEnd := rfl
/-- … a mismatched end tag `<a></b>` the "not properly terminated" error … -/
example : newMapXmlSeq {} Dec.S0 [.start [] "a".toList [], .stop [] "b".toList] .eof = .err .other := rfl
/-- … truncated input the stream end's error … -/
example : newMapXmlSeq {} Dec.S0 [.start [] "a".toList [], .text "x".toList] .eof = .eof := rfl
example : newMapXmlSeq {} Dec.S0 [.start [] "a".toList [], .text "x".toList] .bad = .syntax := rfl
/-- … a leading comment the documented no-root result … -/
example : newMapXmlSeq {} Dec.S0 [.comment "c".toList, .start [] "a".toList []] .eof
    = .ok (.noRoot (.map [("#comment".toList, .str "c".toList)])) := rfl
/-- … and `<a x="1"><!--c-->t<?p i?><b/></a>` a MapSeq that satisfies the hypotheses of
    `C15_encode_decoded_seq_partial` and is encoded back -/
def seqSample : List Tok :=
  [.start [] "a".toList [⟨[], "x".toList, "1".toList⟩], .comment "c".toList, .text "t".toList,
   .procinst "p".toList "i".toList, .start [] "b".toList [], .stop [] "b".toList,
   .stop [] "a".toList]
example : seqNamesOK {} seqSample = true := by decide
example : seqClass {} seqSample = .doc := rfl
example : ∃ m, newMapXmlSeq {} Dec.S0 seqSample .eof = .ok (.doc (.map m)) ∧
    SeqShaped {} (.map m) = true ∧ ∀ site, mapSeqXml {} false false m ≠ .panic site :=
  ⟨_, rfl, by decide,
    C15_encode_decoded_seq_partial {} Dec.S0 seqSample .eof _ (by decide) (by decide) rfl false false⟩
/-- a small one in full: `<a x="1"/>` -/
example : newMapXmlSeq {} Dec.S0 [.start [] "a".toList [⟨[], "x".toList, "1".toList⟩],
      .stop [] "a".toList] .eof
    = .ok (.doc (.map [("a".toList, .map [("#attr".toList, .map [("x".toList,
        .map [("#text".toList, .str "1".toList), ("#seq".toList, seqNum 0)])])])])) := rfl

end Mxj.C15
