/-
  Mxj.Props.C05 — "Special characters survive encoding".

  With value escaping enabled every string placed in an element or attribute value is passed
  through `escapeChars` (sequential replace over the regenerated table
  `Mxj.Generated.escapeTable`).  The theorems: the sequential replace is a single pass; the
  tokenizer's entity expansion `unesc` recovers exactly the original string (no double
  escaping) for EVERY string; the escaped text is well-formed character data / attribute value;
  decoder-side escaping makes decode-then-encode the identity on escaped text.
-/
import Mxj.Lemmas.Escape
import Mxj.Model.Xml
namespace Mxj.C05
open Mxj

/-- the sequential replace over the (regenerated) table is a single pass: '&' first means the
    '&' of an inserted entity is never escaped again -/
theorem C05_escape_single_pass (s : Str) : escapeChars s = s.flatMap escOne :=
  escapeChars_flatMap s

/-- exact value recovery, no double escaping, for EVERY string -/
theorem C05_unescape_escape (s : Str) : unesc (escapeChars s) = some s :=
  unesc_escapeChars s

/-- consequence: `escapeChars` is injective (distinct values stay distinct on the wire) -/
theorem C05_escape_injective (s t : Str) (h : escapeChars s = escapeChars t) : s = t := by
  have h1 := C05_unescape_escape s
  rw [h, C05_unescape_escape t] at h1
  exact (Option.some.inj h1).symm

/-- the escaped text contains no raw '<', '>', '"', '\'' -/
theorem C05_escaped_no_specials (s : Str) :
    ∀ c ∈ escapeChars s, c ≠ '<' ∧ c ≠ '>' ∧ c ≠ '"' ∧ c ≠ '\'' := by
  intro c hc
  rw [escapeChars_flatMap, List.mem_flatMap] at hc
  obtain ⟨a, _, hca⟩ := hc
  exact escOne_no_specials a c hca

/-- the five predefined entity texts, as the tokenizer knows them -/
theorem C05_entityTexts :
    entityTexts = ["&amp;".toList, "&lt;".toList, "&gt;".toList, "&quot;".toList, "&apos;".toList] := by
  decide

/-- every '&' of the escaped text starts one of the five predefined entities: every suffix of
    `escapeChars s` that starts with '&' has an entity text as a prefix -/
theorem C05_escaped_amp_is_entity (s : Str) (t : Str) (h : ('&' :: t) <:+ escapeChars s) :
    ∃ e ∈ entityTexts, e <+: ('&' :: t) := by
  induction s with
  | nil =>
    rw [escapeChars_nil] at h
    simp at h
  | cons a s ih =>
    rw [escapeChars_cons] at h
    rcases escOne_suffix_amp a _ t h with h' | ⟨hs, he⟩
    · exact ih h'
    · refine ⟨escOne a, ?_, ?_⟩
      · simp [special] at hs
        rcases hs with (((e | e) | e) | e) | e <;> subst e <;> decide
      · rw [he]; exact List.prefix_append _ _

/-- the same, by position -/
theorem C05_escaped_amp_is_entity_at (s : Str) (i : Nat) (h : (escapeChars s)[i]? = some '&') :
    ∃ e ∈ entityTexts, e <+: (escapeChars s).drop i := by
  obtain ⟨hi, hget⟩ := List.getElem?_eq_some_iff.1 h
  have hd : (escapeChars s).drop i = '&' :: (escapeChars s).drop (i + 1) := by
    rw [List.drop_eq_getElem_cons hi, hget]
  rw [hd]
  apply C05_escaped_amp_is_entity s
  rw [← hd]
  exact List.drop_suffix _ _

/-- no CDATA terminator in the escaped text -/
theorem C05_escaped_no_cdata_end (s : Str) : ¬ ("]]>".toList <:+: escapeChars s) := by
  intro h
  have hmem : '>' ∈ escapeChars s := h.subset (by decide)
  exact (C05_escaped_no_specials s '>' hmem).2.1 rfl

/-- the tokenizer accepts the escaped text (no bare '&', unknown entity or raw '<') -/
theorem C05_escaped_well_formed (s : Str) : (unesc (escapeChars s)).isSome = true := by
  rw [C05_unescape_escape]; rfl

/-- decoder-side mode: on escaped text, unescape-then-escape is the identity -/
theorem C05_decoder_mode_fixed_point (s : Str) :
    (unesc (escapeChars s)).map escapeChars = some (escapeChars s) := by
  rw [C05_unescape_escape]; rfl

/-- the same through the decoder's switch `escDecIf` (XMLEscapeCharsDecoder on) -/
theorem C05_decoder_mode_escDecIf (cfg : DecCfg) (h : cfg.escDec = true) (s : Str) :
    (unesc (escapeChars s)).map (escDecIf cfg) = some (escapeChars s) := by
  rw [C05_unescape_escape]; simp [escDecIf, h]

/-- idempotence fails, as documented ("&amp;" is re-escaped): the theorem above is about
    unesc∘esc, and double escaping is real -/
theorem C05_double_escape_witness : escapeChars (escapeChars ['&']) ≠ escapeChars ['&'] := by
  simp only [escapeChars_flatMap]
  decide

/-! ### non-vacuity -/

example : escapeChars "a<b & \"c\" 'd' >".toList = "a&lt;b &amp; &quot;c&quot; &apos;d&apos; &gt;".toList := by
  rw [escapeChars_flatMap]; decide

example : unesc "a&lt;b &amp;amp; &#65;&#x42;".toList = some "a<b &amp; AB".toList := by decide

example : unesc "a & b".toList = none := by decide

end Mxj.C05
