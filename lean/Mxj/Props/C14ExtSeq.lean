/-
  Mxj.Props.C14ExtSeq — property C14 ("casting changes only leaf types, predictably, and never
  yields NaN or Inf") at the observation point `NewMapXmlSeq(doc, true)`: the sequence-preserving
  decoder `newMapXmlSeq` of Mxj.Model.Seq (the entry point the driver's `xseq` operation calls).

  The sequence decoder casts the text run of an element and every attribute value with the EMPTY
  key (`cast S c.cast tt []`); comment, directive and processing-instruction texts, and the `""`
  of an empty element, are stored as strings without going through `cast`.

  * `CastRelSeq S c`: the leaf-wise relation between an un-cast and a cast sequence decoding
    (same shape, same keys in the same order, `#seq` numbers identical, a string leaf `s` is
    either left alone or replaced by `cast S c s []`); reflexive, equality when the flag is off,
    preserved by the list / map constructors;
  * `C14_seq_structure`: decoding with the cast flag is `CastRelSeq`-related to decoding the same
    tokens under the same configuration without it; identical outcome kind (document / no-root /
    eof / syntax error / other error);  `C14_seq_structure_exact` sharpens "either … or" to an
    exact description of WHICH leaves are cast, by decoding once with a cast that marks its
    argument;
  * `C14_seq_uncast_strings`: flag off — every leaf is a string or a sequence number;
  * `C14_seq_meta_not_cast`, `C14_seq_meta_not_cast_noroot`: flag on — comment / directive /
    processing-instruction texts are strings, whatever the cast options and the `Strconv`;
  * `C14_seq_run_cast_whole`, `C14_seq_run_split_irrelevant`, `C14_seq_run_value`: a run of
    adjacent CharData tokens is cast as a whole: the value depends on the concatenation only;
  * `C14_seq_no_naninf`: NaN/Inf casting off — every number leaf is a sequence number or came from
    an integer parser or from a `ParseFloat` that reported an ordinary value, for ANY `Strconv`.

  Lemmas: Mxj.Lemmas.CastSeq (the decoder is parametric in the leaf cast: `LRel_newMapXmlSeq`).
-/
import Mxj.Props.C14
import Mxj.Lemmas.CastSeq
namespace Mxj.C14
open Mxj Mxj.CastSeq

/-! ### the leaf-wise relation for the sequence decoder -/

/-- what may stand (cast side, `w`) in the place of a leaf `v` of the un-cast decoding: a string
    `s` stays, or becomes `cast S c s []` (empty key!); null, booleans and numbers — the sequence
    decoder's only numbers are the `#seq` values — stay -/
def castLeafSeq (S : Strconv) (c : CastCfg) : Val → Val → Prop
  | .str s, w => w = .str s ∨ w = cast S c s []
  | .null, w => w = .null
  | .bool b, w => w = .bool b
  | .num x, w => w = .num x
  | .list _, _ => False
  | .map _, _ => False

/-- `CastRelSeq S c v0 v`: `v` is `v0` with some string leaves `s` replaced by `cast S c s []`;
    same lists, same keys in the same order, all other leaves equal.  (The Map decoder's `CastRel`
    does not fit: it lets a string only stay when it is `""`, but the sequence decoder also keeps
    comment / directive / processing-instruction texts; and it leaves the key open, while the
    sequence decoder always casts under the empty key.) -/
def CastRelSeq (S : Strconv) (c : CastCfg) : Val → Val → Prop := LRel (castLeafSeq S c)
def CastRelSeqList (S : Strconv) (c : CastCfg) : List Val → List Val → Prop := LRelList (castLeafSeq S c)
def CastRelSeqEntries (S : Strconv) (c : CastCfg) : Entries → Entries → Prop :=
  LRelEntries (castLeafSeq S c)

section RelSeq
variable (S : Strconv) (c : CastCfg)

theorem CastRelSeq_str (s : Str) (w : Val) :
    CastRelSeq S c (.str s) w ↔ (w = .str s ∨ w = cast S c s []) := by
  unfold CastRelSeq LRel; exact Iff.rfl

theorem CastRelSeq_num (x : Str) (w : Val) : CastRelSeq S c (.num x) w ↔ w = .num x := by
  unfold CastRelSeq LRel; exact Iff.rfl

theorem CastRelSeq_bool (b : Bool) (w : Val) : CastRelSeq S c (.bool b) w ↔ w = .bool b := by
  unfold CastRelSeq LRel; exact Iff.rfl

theorem CastRelSeq_null (w : Val) : CastRelSeq S c .null w ↔ w = .null := by
  unfold CastRelSeq LRel; exact Iff.rfl

/-- `#seq` numbers are identical on both sides -/
theorem CastRelSeq_seqNum (n : Nat) (w : Val) : CastRelSeq S c (seqNum n) w ↔ w = seqNum n := by
  unfold seqNum; exact CastRelSeq_num S c _ w

theorem CastRelSeq_list_left (xs : List Val) (w : Val) :
    CastRelSeq S c (.list xs) w ↔ ∃ ys, w = .list ys ∧ CastRelSeqList S c xs ys := by
  unfold CastRelSeq CastRelSeqList LRel; exact Iff.rfl

theorem CastRelSeq_map_left (a : Entries) (w : Val) :
    CastRelSeq S c (.map a) w ↔ ∃ b, w = .map b ∧ CastRelSeqEntries S c a b := by
  unfold CastRelSeq CastRelSeqEntries LRel; exact Iff.rfl

/-- preserved by the list constructor -/
theorem CastRelSeq_list (xs ys : List Val) :
    CastRelSeq S c (.list xs) (.list ys) ↔ CastRelSeqList S c xs ys := LRel_list _ xs ys

/-- preserved by the map constructor -/
theorem CastRelSeq_map (a b : Entries) :
    CastRelSeq S c (.map a) (.map b) ↔ CastRelSeqEntries S c a b := LRel_map _ a b

theorem CastRelSeqList_nil : CastRelSeqList S c [] [] := LRelList_nil _

theorem CastRelSeqList_cons (x y : Val) (xs ys : List Val) :
    CastRelSeqList S c (x :: xs) (y :: ys) ↔ CastRelSeq S c x y ∧ CastRelSeqList S c xs ys :=
  LRelList_cons _ x y xs ys

theorem CastRelSeqEntries_nil : CastRelSeqEntries S c [] [] := LRelEntries_nil _

theorem CastRelSeqEntries_cons (k k' : Str) (v w : Val) (a b : Entries) :
    CastRelSeqEntries S c ((k, v) :: a) ((k', w) :: b) ↔
      k = k' ∧ CastRelSeq S c v w ∧ CastRelSeqEntries S c a b :=
  LRelEntries_cons _ k k' v w a b

/-- same keys, in the same order -/
theorem CastRelSeqEntries_keys (a b : Entries) (h : CastRelSeqEntries S c a b) : keys a = keys b :=
  LRelEntries_keys _ a b h

theorem CastRelSeqList_length (xs ys : List Val) (h : CastRelSeqList S c xs ys) :
    xs.length = ys.length := LRelList_length _ xs ys h

/-- preserved by `m[k] = v` -/
theorem CastRelSeqEntries_insert (k : Str) (v w : Val) (hv : CastRelSeq S c v w) (a b : Entries)
    (h : CastRelSeqEntries S c a b) : CastRelSeqEntries S c (insert k v a) (insert k w b) :=
  LRelEntries_insert _ k v w hv a b h

mutual
/-- reflexive (whatever the flag): every string may stay -/
theorem CastRelSeq_refl : ∀ (v : Val), CastRelSeq S c v v
  | .str s => (CastRelSeq_str S c s _).2 (Or.inl rfl)
  | .null => (CastRelSeq_null S c _).2 rfl
  | .bool b => (CastRelSeq_bool S c b _).2 rfl
  | .num x => (CastRelSeq_num S c x _).2 rfl
  | .list xs => (CastRelSeq_list S c xs xs).2 (CastRelSeqList_refl xs)
  | .map a => (CastRelSeq_map S c a a).2 (CastRelSeqEntries_refl a)
theorem CastRelSeqList_refl : ∀ (xs : List Val), CastRelSeqList S c xs xs
  | [] => CastRelSeqList_nil S c
  | x :: xs => (CastRelSeqList_cons S c x x xs xs).2 ⟨CastRelSeq_refl x, CastRelSeqList_refl xs⟩
theorem CastRelSeqEntries_refl : ∀ (a : Entries), CastRelSeqEntries S c a a
  | [] => CastRelSeqEntries_nil S c
  | (k, v) :: rest =>
      (CastRelSeqEntries_cons S c k k v v rest rest).2 ⟨rfl, CastRelSeq_refl v, CastRelSeqEntries_refl rest⟩
end

mutual
/-- with the cast flag off the relation is equality -/
theorem CastRelSeq_off (hr : c.r = false) : ∀ (v w : Val), CastRelSeq S c v w → w = v
  | .str s, w, h => by
      rcases (CastRelSeq_str S c s w).1 h with rfl | rfl
      · rfl
      · exact cast_off S c s [] hr
  | .null, w, h => (CastRelSeq_null S c w).1 h
  | .bool b, w, h => (CastRelSeq_bool S c b w).1 h
  | .num x, w, h => (CastRelSeq_num S c x w).1 h
  | .list xs, w, h => by
      obtain ⟨ys, rfl, h'⟩ := (CastRelSeq_list_left S c xs w).1 h
      rw [CastRelSeqList_off hr xs ys h']
  | .map a, w, h => by
      obtain ⟨b, rfl, h'⟩ := (CastRelSeq_map_left S c a w).1 h
      rw [CastRelSeqEntries_off hr a b h']
theorem CastRelSeqList_off (hr : c.r = false) :
    ∀ (xs ys : List Val), CastRelSeqList S c xs ys → ys = xs
  | [], ys, h => by unfold CastRelSeqList LRelList at h; exact h
  | x :: xs, ys, h => by
      unfold CastRelSeqList LRelList at h
      obtain ⟨y, ys', rfl, h1, h2⟩ := h
      rw [CastRelSeq_off hr x y h1, CastRelSeqList_off hr xs ys' h2]
theorem CastRelSeqEntries_off (hr : c.r = false) :
    ∀ (a b : Entries), CastRelSeqEntries S c a b → b = a
  | [], b, h => by unfold CastRelSeqEntries LRelEntries at h; exact h
  | (k, v) :: rest, b, h => by
      unfold CastRelSeqEntries LRelEntries at h
      obtain ⟨w, b', rfl, h1, h2⟩ := h
      rw [CastRelSeq_off hr v w h1, CastRelSeqEntries_off hr rest b' h2]
end

/-- the leaf casts of the un-cast and the cast run are related, strings and sequence numbers
    are related to themselves -/
theorem castLeafSeq_hyp : LeafHyp (castLeafSeq S c) S S { c with r := false } c where
  scalar := by
    intro v w h
    cases v with
    | str s =>
      rcases h with rfl | rfl
      · exact ⟨rfl, rfl⟩
      · have := Dec.cast_scalar S c s []
        cases hc : cast S c s [] <;> simp_all [Dec.scalar, Val.isList, Val.isMap]
    | null => cases h; exact ⟨rfl, rfl⟩
    | bool b => cases h; exact ⟨rfl, rfl⟩
    | num x => cases h; exact ⟨rfl, rfl⟩
    | list xs => exact h.elim
    | map a => exact h.elim
  hcast := by
    intro s
    rw [cast_off S { c with r := false } s [] rfl]
    exact Or.inr rfl
  str := fun s => Or.inl rfl
  seq := fun n => by unfold seqNum; exact rfl

end RelSeq

/-! ### 1. same structure, leaf-wise cast -/

/-- `c` with the cast flag off, everything else (cast options included) unchanged -/
def uncastSeqCfg (c : SeqCfg) : SeqCfg := { c with cast := { c.cast with r := false } }

theorem uncastSeqCfg_r (c : SeqCfg) : (uncastSeqCfg c).cast.r = false := rfl

/-- the relation between the two top-level results, for every token stream -/
theorem CastRelSeq_newMapXmlSeq (c : SeqCfg) (S : Strconv) (fin : StreamEnd) (toks : List Tok) :
    LRelTop (castLeafSeq S c.cast) (newMapXmlSeq (uncastSeqCfg c) S toks fin)
      (newMapXmlSeq c S toks fin) := by
  have h := LRel_newMapXmlSeq (castLeafSeq_hyp S c.cast) c fin toks
  rw [withCast_self] at h
  exact h

/-- decoding with the cast flag relates leaf-wise to decoding the same tokens without it: same
    kind of result (document / no-root result / eof / syntax error / other error / panic), a
    document's values `CastRelSeq`-related, a no-root result identical -/
theorem C14_seq_structure (c : SeqCfg) (S : Strconv) (fin : StreamEnd) (toks : List Tok) :
    let c0 : SeqCfg := { c with cast := { c.cast with r := false } }
    match newMapXmlSeq c0 S toks fin, newMapXmlSeq c S toks fin with
    | .ok (.doc v0), .ok (.doc v) => CastRelSeq S c.cast v0 v
    | .ok (.noRoot v0), .ok (.noRoot v) => v = v0
    | .eof, .eof => True | .syntax, .syntax => True | .err a, .err b => a = b | .panic a, .panic b => a = b
    | _, _ => False := by
  intro c0
  have h : LRelTop (castLeafSeq S c.cast) (newMapXmlSeq c0 S toks fin) (newMapXmlSeq c S toks fin) :=
    CastRelSeq_newMapXmlSeq c S fin toks
  revert h
  rcases newMapXmlSeq c0 S toks fin with (v0 | v0) | _ | _ | k0 | s0 <;>
    rcases newMapXmlSeq c S toks fin with (v | v) | _ | _ | k | s <;>
    simp only [LRelTop, CastRelSeq] <;> intro h <;>
    first | exact h | exact h.2 | trivial

/-- the same at every fuel, for the element loop from related states (also: same unread tokens) -/
theorem C14_seq_structure_seqElem (c : SeqCfg) (S : Strconv) (fin : StreamEnd) (f : Nat) (skey : Str)
    (na nb : Entries) (seq : Nat) (pend : Option (Str × Bool)) (toks : List Tok)
    (hE : CastRelSeqEntries S c.cast na nb) :
    LRelOut (castLeafSeq S c.cast) (seqElem (uncastSeqCfg c) S fin f skey na seq pend toks)
      (seqElem c S fin f skey nb seq pend toks) := by
  have h := LRel_seqElem (castLeafSeq_hyp S c.cast) c fin f skey na nb seq pend toks hE
  rw [withCast_self] at h
  exact h

/-- … in particular: a document decodes with the flag iff it decodes without it, and the two
    MapSeq values are related -/
theorem C14_seq_structure_doc (c : SeqCfg) (S : Strconv) (fin : StreamEnd) (toks : List Tok) (v : Val)
    (h : newMapXmlSeq c S toks fin = .ok (.doc v)) :
    ∃ v0, newMapXmlSeq (uncastSeqCfg c) S toks fin = .ok (.doc v0) ∧ CastRelSeq S c.cast v0 v := by
  have hr := CastRelSeq_newMapXmlSeq c S fin toks
  rw [h] at hr
  revert hr
  rcases newMapXmlSeq (uncastSeqCfg c) S toks fin with (v0 | v0) | _ | _ | k0 | s0 <;>
    simp only [LRelTop] <;> intro hr
  · exact ⟨v0, rfl, hr⟩
  all_goals exact hr.elim

/-! ### 2. un-cast decoding: strings (and sequence numbers) only -/

/-- a leaf of an un-cast sequence decoding: a string, or one of the decoder's sequence numbers
    `seqNum n` (= the number `i:n`) -/
def StrOrSeqNum (v : Val) : Prop := (∃ s, v = .str s) ∨ (∃ n, v = seqNum n)

/-- with the cast flag off every leaf of the decoded value — element text, attribute values,
    comment / directive / processing-instruction texts, the `""` of empty elements — is a string,
    the only other leaves being the sequence numbers; no booleans, no nulls, no other numbers.
    Both for a document and for a no-root result.
    (Not claimed: that a sequence number sits directly under the `#seq` key — for an element that
    is itself named like the `#seq` key, `addChild` moves the number into a list.) -/
theorem C14_seq_uncast_strings (c : SeqCfg) (S : Strconv) (fin : StreamEnd) (toks : List Tok)
    (top : SeqTop) (hr : c.cast.r = false) (h : newMapXmlSeq c S toks fin = .ok top) :
    AllLeaves StrOrSeqNum top.val :=
  allLeaves_newMapXmlSeq StrOrSeqNum c S
    (fun s => Or.inl ⟨s, cast_off S c.cast s [] hr⟩) (fun s => Or.inl ⟨s, rfl⟩)
    (fun n => Or.inr ⟨n, rfl⟩) fin toks top h

/-- with the flag ON the leaves are strings, sequence numbers, or proper cast results -/
theorem C14_seq_leaves (c : SeqCfg) (S : Strconv) (fin : StreamEnd) (toks : List Tok)
    (top : SeqTop) (h : newMapXmlSeq c S toks fin = .ok top) :
    AllLeaves (fun v => StrOrSeqNum v ∨ ∃ s, v = cast S c.cast s []) top.val :=
  allLeaves_newMapXmlSeq _ c S
    (fun s => Or.inr ⟨s, rfl⟩) (fun s => Or.inl (Or.inl ⟨s, rfl⟩))
    (fun n => Or.inl (Or.inr ⟨n, rfl⟩)) fin toks top h

/-! ### 3. comments, directives, processing instructions are never cast -/

/-- the entry the element loop stores for a comment / directive / processing-instruction token
    at sequence number `seq`.  Neither the cast options nor the `Strconv` occur. -/
def metaEntry (c : SeqCfg) (seq : Nat) : Tok → Option (Str × Val)
  | .comment s => some (c.commentK, .map [(c.textK, .str s), (c.seqK, seqNum seq)])
  | .directive s => some (c.directiveK, .map [(c.textK, .str s), (c.seqK, seqNum seq)])
  | .procinst t i =>
      some (c.procinstK, .map [(c.targetK, .str t), (c.instK, .str i), (c.seqK, seqNum seq)])
  | _ => none

theorem metaEntry_isSome (c : SeqCfg) (seq : Nat) (tok : Tok) :
    (metaEntry c seq tok).isSome = true ↔
      (∃ s, tok = .comment s) ∨ (∃ s, tok = .directive s) ∨ (∃ t i, tok = .procinst t i) := by
  cases tok <;> simp [metaEntry]

/-- with the cast flag ON (or off), inside an element: a comment, directive or processing
    instruction stores `metaEntry` — its text as a STRING plus the sequence number — and goes on;
    the text is not passed to `cast`: the entry is the same for every cast configuration and
    every `Strconv`, and all its leaves are strings / the sequence number -/
theorem C14_seq_meta_not_cast (c : SeqCfg) (S : Strconv) (fin : StreamEnd) (f : Nat) (skey : Str)
    (na : Entries) (seq : Nat) (pend : Option (Str × Bool)) (tok : Tok) (rest : List Tok)
    (k : Str) (v : Val) (h : metaEntry c seq tok = some (k, v)) :
    seqElem c S fin (f + 1) skey na seq pend (tok :: rest)
        = seqElem c S fin f skey (insert k v na) (seq + 1) none rest
      ∧ AllLeaves StrOrSeqNum v
      ∧ ∀ cc : CastCfg, metaEntry (withCast c cc) seq tok = some (k, v) := by
  have hs : ∀ s, StrOrSeqNum (.str s) := fun s => Or.inl ⟨s, rfl⟩
  have hn : AllLeaves StrOrSeqNum (seqNum seq) := by
    unfold seqNum AllLeaves; exact Or.inr ⟨seq, rfl⟩
  cases tok with
  | comment s =>
    simp only [metaEntry, Option.some.injEq, Prod.mk.injEq] at h
    obtain ⟨rfl, rfl⟩ := h
    refine ⟨by simp only [seqElem], ?_, fun _ => rfl⟩
    simp only [AllLeaves, AllLeavesEntries, and_true]
    exact ⟨hs s, hn⟩
  | directive s =>
    simp only [metaEntry, Option.some.injEq, Prod.mk.injEq] at h
    obtain ⟨rfl, rfl⟩ := h
    refine ⟨by simp only [seqElem], ?_, fun _ => rfl⟩
    simp only [AllLeaves, AllLeavesEntries, and_true]
    exact ⟨hs s, hn⟩
  | procinst t i =>
    simp only [metaEntry, Option.some.injEq, Prod.mk.injEq] at h
    obtain ⟨rfl, rfl⟩ := h
    refine ⟨by simp only [seqElem], ?_, fun _ => rfl⟩
    simp only [AllLeaves, AllLeavesEntries, and_true]
    exact ⟨hs t, hs i, hn⟩
  | start _ _ _ => simp [metaEntry] at h
  | stop _ _ => simp [metaEntry] at h
  | text _ => simp [metaEntry] at h

/-- the three shapes of a no-root result -/
theorem seqTop_noRoot_form (c : SeqCfg) (S : Strconv) (fin : StreamEnd) :
    ∀ (f : Nat) (toks : List Tok) (m : Val), seqTop c S fin f toks = .ok (.noRoot m) →
      (∃ s, m = .map [(c.commentK, .str s)]) ∨ (∃ s, m = .map [(c.directiveK, .str s)]) ∨
        (∃ t i, m = .map [(c.procinstK, .map [(c.targetK, .str t), (c.instK, .str i)])]) := by
  intro f
  induction f with
  | zero => intro toks m h; simp [seqTop] at h
  | succ f ih =>
    intro toks m h
    cases toks with
    | nil => cases fin <;> simp [seqTop] at h
    | cons tok toks =>
      cases tok with
      | start sp name attrs =>
        simp only [seqTop] at h
        split at h <;> cases h
      | stop _ _ => simp [seqTop] at h
      | text s => simp only [seqTop] at h; exact ih toks m h
      | comment s =>
        simp only [seqTop, Outcome.ok.injEq, SeqTop.noRoot.injEq] at h
        exact Or.inl ⟨s, h.symm⟩
      | directive s =>
        simp only [seqTop, Outcome.ok.injEq, SeqTop.noRoot.injEq] at h
        exact Or.inr (Or.inl ⟨s, h.symm⟩)
      | procinst t i =>
        simp only [seqTop, Outcome.ok.injEq, SeqTop.noRoot.injEq] at h
        exact Or.inr (Or.inr ⟨t, i, h.symm⟩)

/-- ahead of any root element: the no-root result of a comment / directive / processing
    instruction holds its text as a string — whatever the cast flag — and is the same result
    under every cast configuration and every `Strconv` -/
theorem C14_seq_meta_not_cast_noroot (c : SeqCfg) (S : Strconv) (fin : StreamEnd) (toks : List Tok)
    (m : Val) (h : newMapXmlSeq c S toks fin = .ok (.noRoot m)) :
    ((∃ s, m = .map [(c.commentK, .str s)]) ∨ (∃ s, m = .map [(c.directiveK, .str s)]) ∨
        (∃ t i, m = .map [(c.procinstK, .map [(c.targetK, .str t), (c.instK, .str i)])]))
      ∧ ∀ (cc : CastCfg) (S' : Strconv), newMapXmlSeq (withCast c cc) S' toks fin = .ok (.noRoot m) := by
  refine ⟨seqTop_noRoot_form c S fin _ toks m h, ?_⟩
  intro cc S'
  -- any leaf relation will do: a no-root result is related only to itself
  have H : LeafHyp (fun _ w => w.isList = false ∧ w.isMap = false) S S' c.cast cc :=
    { scalar := fun _ _ h => h
      hcast := fun s => by
        have := Dec.cast_scalar S' cc s []
        cases hc : cast S' cc s [] <;> simp_all [Dec.scalar, Val.isList, Val.isMap]
      str := fun _ => ⟨rfl, rfl⟩
      seq := fun _ => ⟨rfl, rfl⟩ }
  have hr := LRel_newMapXmlSeq H c fin toks
  rw [withCast_self, h] at hr
  revert hr
  rcases newMapXmlSeq (withCast c cc) S' toks fin with (v | v) | _ | _ | k | s <;>
    simp only [LRelTop] <;> intro hr
  · exact hr.elim
  · rw [hr.2]
  all_goals exact hr.elim

/-! ### 4. a run of CharData tokens is cast as a whole -/

/-- the merge step: inside an element, from any state, two adjacent CharData tokens `a`, `b`
    (text next to a CDATA section) act exactly like the single token `a ++ b` — the run is
    accumulated and the WHOLE accumulated text is trimmed and cast again, replacing the value
    cast from `a` alone.  (`#text` and `#seq` must be different keys; one unit of fuel per
    token.) -/
theorem C14_seq_run_cast_whole (c : SeqCfg) (S : Strconv) (fin : StreamEnd) (f : Nat) (skey : Str)
    (na : Entries) (seq : Nat) (pend : Option (Str × Bool)) (a b : Str) (rest : List Tok)
    (hk : c.textK ≠ c.seqK) :
    seqElem c S fin (f + 2) skey na seq pend (.text a :: .text b :: rest) =
      seqElem c S fin (f + 1) skey na seq pend (.text (a ++ b) :: rest) :=
  seqElem_merge c S fin f skey na seq pend a b rest hk

/-- two token streams that differ only in how one run of character data is split into tokens —
    anywhere in the document, at any depth — decode to the same result (value or error) -/
theorem C14_seq_run_split_irrelevant (c : SeqCfg) (S : Strconv) (fin : StreamEnd)
    (hk : c.textK ≠ c.seqK) (pre : List Tok) (a b : Str) (post : List Tok) :
    newMapXmlSeq c S (pre ++ .text a :: .text b :: post) fin =
      newMapXmlSeq c S (pre ++ .text (a ++ b) :: post) fin :=
  merge_newMapXmlSeq c S fin hk pre a b post

/-- the value of an element whose content is one run `a, t1, …, tn` of CharData tokens (no child
    elements in between) that is not blank: attributes, then `#text` = the cast — under the empty
    key — of the trimmed concatenation, then `#seq` -/
theorem C14_seq_run_value (c : SeqCfg) (S : Strconv) (fin : StreamEnd) (hk : c.textK ≠ c.seqK)
    (sp name : Str) (na : Entries) (seq : Nat) (a : Str) (ts : List Str) (rest : List Tok) (f : Nat)
    (hne : (escDecIf c.dec (trimChars (trimSet c.dec) (a ++ ts.flatten))).isEmpty = false) :
    seqElem c S fin (f + ts.length + 2) (qualName c sp name) na seq none
        (.text a :: (ts.map Tok.text ++ .stop sp name :: rest)) =
      .ok (.map (insert c.seqK (seqNum seq) (insert c.textK
        (cast S c.cast (escDecIf c.dec (trimChars (trimSet c.dec) (a ++ ts.flatten))) []) na)), rest) := by
  have e : f + ts.length + 2 = (f + 1) + ts.length + 1 := by omega
  rw [e, seqElem_run c S fin hk (qualName c sp name) na seq none (.stop sp name :: rest) ts a (f + 1)]
  simp only [seqElem, List.nil_append, hne, Bool.false_eq_true, if_false, ne_eq, not_true_eq_false,
    Dec.insert_ne_nil]

/-! ### 5. never NaN / Inf unless CastNanInf -/

/-- `x` is the rendering of an integer, or of a `ParseFloat` result that `Strconv` reports as an
    ordinary value (not NaN, not ±Inf) -/
def NumOrigin (S : Strconv) (c : CastCfg) (x : Str) : Prop :=
  ∃ s, (c.toInt = true ∧ (S.parseInt s = some x ∨ S.parseUint s = some x)) ∨
    (c.toFloat = true ∧ S.parseFloat s = some (x, false))

/-- a leaf that is a number is a sequence number or has an ordinary origin -/
def NoNanInfLeaf (S : Strconv) (c : CastCfg) (v : Val) : Prop :=
  ∀ x, v = .num x → (∃ n, v = seqNum n) ∨ NumOrigin S c x

/-- for ANY `Strconv`, with NaN/Inf casting off: every number leaf of the decoded value is a
    sequence number, or came from an integer parser, or from a `ParseFloat` that reported a
    non-special value (leaf level: `C14_no_naninf`) -/
theorem C14_seq_no_naninf (c : SeqCfg) (S : Strconv) (fin : StreamEnd) (toks : List Tok)
    (top : SeqTop) (hn : c.cast.nanInf = false) (h : newMapXmlSeq c S toks fin = .ok top) :
    AllLeaves (NoNanInfLeaf S c.cast) top.val := by
  apply allLeaves_newMapXmlSeq (NoNanInfLeaf S c.cast) c S _ _ _ fin toks top h
  · intro s x hx
    right
    rcases C14_no_naninf S c.cast s [] x hn hx with ⟨hi, hp⟩ | ⟨hf, hp⟩
    · exact ⟨s, Or.inl ⟨hi, hp⟩⟩
    · exact ⟨s, Or.inr ⟨hf, hp⟩⟩
  · intro s x hx; cases hx
  · intro n x _; exact Or.inl ⟨n, rfl⟩

/-- in negative form: for any classification `special` of number renderings that agrees with the
    `Strconv` (integer renderings and sequence numbers are ordinary, a float rendering is special
    exactly when `ParseFloat` says so), no number leaf is special -/
theorem C14_seq_no_naninf_special (c : SeqCfg) (S : Strconv) (fin : StreamEnd) (toks : List Tok)
    (top : SeqTop) (hn : c.cast.nanInf = false) (h : newMapXmlSeq c S toks fin = .ok top)
    (special : Str → Bool)
    (hint : ∀ s x, S.parseInt s = some x → special x = false)
    (huint : ∀ s x, S.parseUint s = some x → special x = false)
    (hfloat : ∀ s x sp, S.parseFloat s = some (x, sp) → special x = sp)
    (hseq : ∀ n, special ("i:".toList ++ natToStr n) = false) :
    AllLeaves (fun v => ∀ x, v = .num x → special x = false) top.val := by
  refine AllLeaves_mono ?_ _ (C14_seq_no_naninf c S fin toks top hn h)
  intro v hv x hx
  rcases hv x hx with ⟨n, hn'⟩ | ⟨s, ⟨_, hp | hp⟩ | ⟨_, hp⟩⟩
  · rw [hx] at hn'
    unfold seqNum at hn'
    cases hn'
    exact hseq n
  · exact hint s x hp
  · exact huint s x hp
  · exact hfloat s x false hp

/-! ### 1'. the exact form of the structure theorem: decode once with a cast that marks -/

/-- a `Strconv` whose ParseInt accepts every text and renders it as itself behind the tag `M:` -/
def markConv : Strconv where
  parseInt s := some ("M:".toList ++ s)
  parseUint _ := none
  parseFloat _ := none
  lower s := s

/-- cast flag and integer casting on, no NaN/Inf word guard -/
def markCfg : CastCfg := { r := true, toInt := true, nanInf := true }

/-- under the marking configuration `cast` wraps its argument: every text that is passed to
    `cast` becomes the number `M:text`, every text that is not stays a string -/
theorem cast_mark (s : Str) : cast markConv markCfg s [] = .num ("M:".toList ++ s) := by
  simp [cast, markConv, markCfg]

/-- reading a marked leaf back: `M:s` is where `cast` was called on `s` -/
def unmarkLeaf (S : Strconv) (c : CastCfg) : Val → Val
  | .num x => if "M:".toList.isPrefixOf x then cast S c (x.drop 2) [] else .num x
  | v => v

mutual
/-- `unmarkLeaf` at every leaf -/
def unmark (S : Strconv) (c : CastCfg) : Val → Val
  | .list xs => .list (unmarkList S c xs)
  | .map a => .map (unmarkEntries S c a)
  | .null => .null
  | .bool b => .bool b
  | .num x => unmarkLeaf S c (.num x)
  | .str s => .str s
def unmarkList (S : Strconv) (c : CastCfg) : List Val → List Val
  | [] => []
  | x :: xs => unmark S c x :: unmarkList S c xs
def unmarkEntries (S : Strconv) (c : CastCfg) : Entries → Entries
  | [] => []
  | (k, v) :: rest => (k, unmark S c v) :: unmarkEntries S c rest
end

/-- the graph of `unmarkLeaf` on leaves -/
def unmarkRel (S : Strconv) (c : CastCfg) (v w : Val) : Prop :=
  (v.isList = false ∧ v.isMap = false) ∧ w = unmarkLeaf S c v

mutual
theorem unmark_of_rel (S : Strconv) (c : CastCfg) :
    ∀ (v w : Val), LRel (unmarkRel S c) v w → w = unmark S c v
  | .list xs, w, h => by
      unfold LRel at h; obtain ⟨ys, rfl, h⟩ := h
      unfold unmark; rw [unmarkList_of_rel S c xs ys h]
  | .map a, w, h => by
      unfold LRel at h; obtain ⟨b, rfl, h⟩ := h
      unfold unmark; rw [unmarkEntries_of_rel S c a b h]
  | .null, w, h => by unfold LRel at h; unfold unmark; exact h.2
  | .bool _, w, h => by unfold LRel at h; unfold unmark; exact h.2
  | .num _, w, h => by unfold LRel at h; unfold unmark; exact h.2
  | .str _, w, h => by unfold LRel at h; unfold unmark; exact h.2
theorem unmarkList_of_rel (S : Strconv) (c : CastCfg) :
    ∀ (xs ys : List Val), LRelList (unmarkRel S c) xs ys → ys = unmarkList S c xs
  | [], ys, h => by unfold LRelList at h; unfold unmarkList; exact h
  | x :: xs, ys, h => by
      unfold LRelList at h; obtain ⟨y, ys', rfl, h1, h2⟩ := h
      unfold unmarkList
      rw [unmark_of_rel S c x y h1, unmarkList_of_rel S c xs ys' h2]
theorem unmarkEntries_of_rel (S : Strconv) (c : CastCfg) :
    ∀ (a b : Entries), LRelEntries (unmarkRel S c) a b → b = unmarkEntries S c a
  | [], b, h => by unfold LRelEntries at h; unfold unmarkEntries; exact h
  | (k, v) :: rest, b, h => by
      unfold LRelEntries at h; obtain ⟨w, b', rfl, h1, h2⟩ := h
      unfold unmarkEntries
      rw [unmark_of_rel S c v w h1, unmarkEntries_of_rel S c rest b' h2]
end

theorem unmarkRel_hyp (S : Strconv) (c : CastCfg) : LeafHyp (unmarkRel S c) markConv S markCfg c where
  scalar := by
    intro v w h
    obtain ⟨⟨h1, h2⟩, rfl⟩ := h
    cases v with
    | num x =>
      simp only [unmarkLeaf]
      split
      · have := Dec.cast_scalar S c (x.drop 2) []
        cases hc : cast S c (x.drop 2) [] <;> simp_all [Dec.scalar, Val.isList, Val.isMap]
      · exact ⟨rfl, rfl⟩
    | list xs => simp [Val.isList] at h1
    | map a => simp [Val.isMap] at h2
    | null => exact ⟨rfl, rfl⟩
    | bool b => exact ⟨rfl, rfl⟩
    | str s => exact ⟨rfl, rfl⟩
  hcast := by
    intro s
    rw [cast_mark]
    refine ⟨⟨rfl, rfl⟩, ?_⟩
    simp [unmarkLeaf]
  str := fun s => ⟨⟨rfl, rfl⟩, rfl⟩
  seq := fun n => by
    refine ⟨⟨rfl, rfl⟩, ?_⟩
    simp [seqNum, unmarkLeaf]

/-- apply `g` to the value of a successful result -/
def mapTopVal (g : Val → Val) : Outcome SeqTop → Outcome SeqTop
  | .ok (.doc v) => .ok (.doc (g v))
  | .ok (.noRoot v) => .ok (.noRoot (g v))
  | .eof => .eof
  | .syntax => .syntax
  | .err k => .err k
  | .panic s => .panic s

/-- the exact form: decode the tokens ONCE under the marking cast — the result shows the
    structure, all strings that are not cast (comment / directive / processing-instruction texts,
    `""` of empty elements) and, as `M:text`, every place where `cast` is called and on which
    text.  The decoding under ANY cast configuration and ANY `Strconv` is that value with each
    mark `M:s` replaced by `cast S c.cast s []` and nothing else changed.  Hence the structure
    does not depend on the cast flag, on the cast options or on the `Strconv`; which leaves are
    cast does not either; and strings that are not cast are the same in all decodings. -/
theorem C14_seq_structure_exact (c : SeqCfg) (S : Strconv) (fin : StreamEnd) (toks : List Tok) :
    newMapXmlSeq c S toks fin =
      mapTopVal (unmark S c.cast) (newMapXmlSeq (withCast c markCfg) markConv toks fin) := by
  have h := LRel_newMapXmlSeq (unmarkRel_hyp S c.cast) c fin toks
  rw [withCast_self] at h
  revert h
  rcases newMapXmlSeq (withCast c markCfg) markConv toks fin with (v0 | v0) | _ | _ | k0 | s0 <;>
    rcases newMapXmlSeq c S toks fin with (v | v) | _ | _ | k | s <;>
    simp only [LRelTop, mapTopVal] <;> intro h <;> try (exact h.elim)
  · rw [unmark_of_rel S c.cast v0 v h]
  · rw [unmark_of_rel S c.cast v0 v h.1]
  · trivial
  · trivial
  · rw [h]
  · rw [h]

/-! ### non-vacuity: concrete decodings -/

/-- the MapSeq of a successful document decoding -/
def docVal : Outcome SeqTop → Option Val
  | .ok (.doc v) => some v
  | _ => none

/-- parses "-5" and "1" as floats; "-", "5x", "1x" are not numbers -/
def minusConv : Strconv where
  parseInt _ := none
  parseUint _ := none
  parseFloat s :=
    if s = "-5".toList then some ("f:-5".toList, false)
    else if s = "1".toList then some ("f:1".toList, false)
    else none
  lower s := s.map Char.toLower

/-- `<a>-<![CDATA[5]]></a>`: the CharData tokens `-` and `5` — the run is cast as a whole: −5 -/
example : docVal (newMapXmlSeq { cast := onCfg } minusConv
    [.start [] "a".toList [], .text "-".toList, .text "5".toList, .stop [] "a".toList] .eof) =
    some (.map [("a".toList, .map [("#text".toList, .num "f:-5".toList), ("#seq".toList, .num "i:0".toList)])]) := by
  decide

/-- the single token `-5` -/
example : docVal (newMapXmlSeq { cast := onCfg } minusConv
    [.start [] "a".toList [], .text "-5".toList, .stop [] "a".toList] .eof) =
    some (.map [("a".toList, .map [("#text".toList, .num "f:-5".toList), ("#seq".toList, .num "i:0".toList)])]) := by
  decide

/-- the same fact as an instance of the theorem (its hypothesis holds for the default keys) -/
example : newMapXmlSeq { cast := onCfg } minusConv
      ([.start [] "a".toList []] ++ .text "-".toList :: .text "5".toList :: [.stop [] "a".toList]) .eof =
    newMapXmlSeq { cast := onCfg } minusConv
      ([.start [] "a".toList []] ++ .text ("-".toList ++ "5".toList) :: [.stop [] "a".toList]) .eof :=
  C14_seq_run_split_irrelevant _ _ _ (by decide) _ _ _ _

/-- the value cast from the first token alone (`1`, a number) is REPLACED when the run goes on:
    `1` then `x` is the string `1x` -/
example : docVal (newMapXmlSeq { cast := onCfg } minusConv
    [.start [] "a".toList [], .text "1".toList, .text "x".toList, .stop [] "a".toList] .eof) =
    some (.map [("a".toList, .map [("#text".toList, .str "1x".toList), ("#seq".toList, .num "i:0".toList)])]) := by
  decide

/-- `C14_seq_run_value`'s hypothesis "the run is not blank" is satisfiable -/
example : (escDecIf ({ cast := onCfg } : SeqCfg).dec (trimChars (trimSet ({ cast := onCfg } : SeqCfg).dec)
    ("-".toList ++ ["5".toList].flatten))).isEmpty = false := by decide

/-- `<a id="42"><!--42--><b>42</b><?pi 42?><c>true</c><d/></a>` -/
def seqDemoToks : List Tok :=
  [.start [] "a".toList [⟨[], "id".toList, "42".toList⟩],
   .comment "42".toList,
   .start [] "b".toList [], .text "42".toList, .stop [] "b".toList,
   .procinst "pi".toList "42".toList,
   .start [] "c".toList [], .text "true".toList, .stop [] "c".toList,
   .start [] "d".toList [], .stop [] "d".toList,
   .stop [] "a".toList]

/-- cast flag on: attribute value, element texts are cast; the comment text `42` and the
    processing instruction's `42` stay strings; the empty element's `""` stays -/
example : docVal (newMapXmlSeq { cast := onCfg } demoConv seqDemoToks .eof) =
    some (.map [("a".toList, .map [
      ("#attr".toList, .map [("id".toList, .map [("#text".toList, .num "f:42".toList), ("#seq".toList, .num "i:0".toList)])]),
      ("#comment".toList, .map [("#text".toList, .str "42".toList), ("#seq".toList, .num "i:0".toList)]),
      ("b".toList, .map [("#text".toList, .num "f:42".toList), ("#seq".toList, .num "i:1".toList)]),
      ("#procinst".toList, .map [("#target".toList, .str "pi".toList), ("#inst".toList, .str "42".toList),
        ("#seq".toList, .num "i:2".toList)]),
      ("c".toList, .map [("#text".toList, .bool true), ("#seq".toList, .num "i:3".toList)]),
      ("d".toList, .map [("#text".toList, .str []), ("#seq".toList, .num "i:4".toList)])])]) := by
  decide

/-- cast flag off: the same structure, strings (and sequence numbers) only -/
example : docVal (newMapXmlSeq {} demoConv seqDemoToks .eof) =
    some (.map [("a".toList, .map [
      ("#attr".toList, .map [("id".toList, .map [("#text".toList, .str "42".toList), ("#seq".toList, .num "i:0".toList)])]),
      ("#comment".toList, .map [("#text".toList, .str "42".toList), ("#seq".toList, .num "i:0".toList)]),
      ("b".toList, .map [("#text".toList, .str "42".toList), ("#seq".toList, .num "i:1".toList)]),
      ("#procinst".toList, .map [("#target".toList, .str "pi".toList), ("#inst".toList, .str "42".toList),
        ("#seq".toList, .num "i:2".toList)]),
      ("c".toList, .map [("#text".toList, .str "true".toList), ("#seq".toList, .num "i:3".toList)]),
      ("d".toList, .map [("#text".toList, .str []), ("#seq".toList, .num "i:4".toList)])])]) := by
  decide

/-- the marking decoding of the same tokens: `M:` exactly where `cast` is called -/
example : docVal (newMapXmlSeq (withCast {} markCfg) markConv seqDemoToks .eof) =
    some (.map [("a".toList, .map [
      ("#attr".toList, .map [("id".toList, .map [("#text".toList, .num "M:42".toList), ("#seq".toList, .num "i:0".toList)])]),
      ("#comment".toList, .map [("#text".toList, .str "42".toList), ("#seq".toList, .num "i:0".toList)]),
      ("b".toList, .map [("#text".toList, .num "M:42".toList), ("#seq".toList, .num "i:1".toList)]),
      ("#procinst".toList, .map [("#target".toList, .str "pi".toList), ("#inst".toList, .str "42".toList),
        ("#seq".toList, .num "i:2".toList)]),
      ("c".toList, .map [("#text".toList, .num "M:true".toList), ("#seq".toList, .num "i:3".toList)]),
      ("d".toList, .map [("#text".toList, .str []), ("#seq".toList, .num "i:4".toList)])])]) := by
  decide

/-- a comment ahead of the root under the cast flag: a no-root result holding the string -/
example : newMapXmlSeq { cast := onCfg } demoConv [.comment "42".toList, .start [] "a".toList []] .eof matches
    .ok (.noRoot (.map [(_, .str _)])) := by decide

/-- `metaEntry` is defined on the comment token (hypothesis of `C14_seq_meta_not_cast`) -/
example : metaEntry { cast := onCfg } 3 (.comment "42".toList) =
    some ("#comment".toList, .map [("#text".toList, .str "42".toList), ("#seq".toList, .num "i:3".toList)]) := by
  decide

/-- `<a n="NaN">1e999</a>` with NaN/Inf casting off (hypothesis of `C14_seq_no_naninf`): strings -/
example : docVal (newMapXmlSeq { cast := onCfg } demoConv
    [.start [] "a".toList [⟨[], "n".toList, "NaN".toList⟩], .text "1e999".toList, .stop [] "a".toList] .eof) =
    some (.map [("a".toList, .map [
      ("#attr".toList, .map [("n".toList, .map [("#text".toList, .str "NaN".toList), ("#seq".toList, .num "i:0".toList)])]),
      ("#text".toList, .str "1e999".toList), ("#seq".toList, .num "i:0".toList)])]) := by
  decide

/-- … and why the hypothesis is needed: with CastNanInf on they are the special floats -/
example : docVal (newMapXmlSeq { cast := nanCfg } demoConv
    [.start [] "a".toList [⟨[], "n".toList, "NaN".toList⟩], .text "1e999".toList, .stop [] "a".toList] .eof) =
    some (.map [("a".toList, .map [
      ("#attr".toList, .map [("n".toList, .map [("#text".toList, .num "f:NaN".toList), ("#seq".toList, .num "i:0".toList)])]),
      ("#text".toList, .num "f:+Inf".toList), ("#seq".toList, .num "i:0".toList)])]) := by
  decide

/-- the compatibility hypotheses of `C14_seq_no_naninf_special` are satisfiable for `demoConv`:
    special = "the rendering is f:NaN or f:+Inf" -/
example : ∃ special : Str → Bool,
    (∀ s x, demoConv.parseInt s = some x → special x = false) ∧
    (∀ s x, demoConv.parseUint s = some x → special x = false) ∧
    (∀ s x sp, demoConv.parseFloat s = some (x, sp) → special x = sp) ∧
    (∀ n, special ("i:".toList ++ natToStr n) = false) := by
  refine ⟨fun x => x = "f:NaN".toList || x = "f:+Inf".toList, ?_, ?_, ?_, ?_⟩
  · intro s x h
    simp only [demoConv] at h
    split at h
    · cases h; decide
    · split at h
      · cases h; decide
      · cases h
  · intro s x h
    simp only [demoConv] at h
    split at h
    · cases h; decide
    · cases h
  · intro s x sp h
    simp only [demoConv] at h
    repeat' split at h
    all_goals first | (cases h; decide) | cases h
  · intro n
    simp

end Mxj.C14
