/-
  Mxj.Props.C06 — JSON encode/decode is lossless.

  Model: Mxj.Model.Json — `quoteChar`/`quote` (encoding/json's string-literal encoder, with and
  without EscapeHTML), `encN`/`mapJson` (compact encoder of key-sorted values), the JSON text
  grammar as encoding/json implements it (`strBody`, `numberLit`, fuel-indexed `value`/
  `elements`/`members`), `firstValue`, `newMapJson`.  Helper lemmas and the vocabulary used
  below live in Mxj.Lemmas.Json (namespace `Mxj.Json`):
    `unquote t`       a whole string literal, nothing after the closing quote
    `NumOk lit`       `numberLit lit = some (lit, [])` : the number grammar recognises all of it
    `numEnd rest`     `rest` is empty or starts with no digit, '.', 'e', 'E'
    `JsonShaped v`    every `num` is `"jn:" ++ lit` with `NumOk lit`; maps have distinct keys
    `sz v`            fuel that suffices to decode the encoding of `v`
    `wrapObj s`       `{"object":` ++ s ++ `}` — what the PINNED `NewMapJson` decoded for a leading '['
                      (repaired defect F-JSON-ARRAYTAIL, kept as documentation)
    `wrapVal v`       `{"object": v}` — what `NewMapJson` returns for a leading '['
    `objKey`          the characters of `object`
    `rewriteUnsafe`   the pinned byte rewrite of the three HTML escape sequences
    `esc00 x y`       the six characters backslash, u, 0, 0, x, y
  Property theorems and non-vacuity examples only.
-/
import Mxj.Lemmas.Json
namespace Mxj.C06
open Mxj Mxj.Json

/-! ### string literals -/

/-- decoding what the encoder wrote gives the string back — both escaping modes, EVERY string
    (every `Char`, i.e. every Unicode scalar value), any continuation `rest`, any fuel above the
    number of characters of `s` -/
theorem C06_unquote_quote (html : Bool) (s rest : Str) (n : Nat) (hn : s.length < n) :
    strBody n (s.flatMap (quoteChar html) ++ '"' :: rest) [] = some (s, rest) := by
  rw [strBody_flatMap html s n rest [] hn]; rfl

/-- with the fuel `value` and `members` actually use: length of the remaining text + 1 -/
theorem C06_unquote_quote_fuel (html : Bool) (s rest : Str) :
    strBody ((s.flatMap (quoteChar html) ++ '"' :: rest).length + 1)
      (s.flatMap (quoteChar html) ++ '"' :: rest) [] = some (s, rest) :=
  C06_unquote_quote html s rest _ (by
    have := length_le_flatMap_quoteChar html s
    simp only [List.length_append, List.length_cons]; omega)

/-- as a whole literal -/
theorem C06_unquote_quote_literal (html : Bool) (s : Str) : unquote (quote html s) = some s :=
  unquote_quote html s

/-- as a JSON value, followed by anything -/
theorem C06_string_value (html : Bool) (s rest : Str) (f : Nat) :
    value (f + 1) (quote html s ++ rest) = some (.str s, rest) :=
  value_str html s rest f

/-- with EscapeHTML the literal contains none of '<', '>', '&' -/
theorem C06_safe_has_no_html (s : Str) : ∀ c ∈ quote true s, c ≠ '<' ∧ c ≠ '>' ∧ c ≠ '&' := by
  intro c hc
  simp only [quote, List.mem_append, List.mem_cons, List.not_mem_nil, or_false,
    List.mem_flatMap] at hc
  rcases hc with (h | ⟨x, _, hx⟩) | h
  · subst h; decide
  · exact mem_quoteChar_safe x c hx
  · subst h; decide

/-- without it they appear literally -/
theorem C06_default_literal (s : Str) (c : Char) (hc : c = '<' ∨ c = '>' ∨ c = '&') (h : c ∈ s) :
    c ∈ quote false s := by
  simp only [quote, List.mem_append, List.mem_cons, List.not_mem_nil, or_false,
    List.mem_flatMap]
  exact Or.inl (Or.inr ⟨c, h, by rw [quoteChar_default_html c hc]; simp⟩)

/-! ### whole values -/

/-- decoding the compact encoding of a JSON-shaped value returns it, for every fuel from `sz w`
    on and any continuation that cannot extend a trailing number literal.  (Distinct keys are
    enough here; sortedness is not needed.) -/
theorem C06_roundtrip_value_enc (html : Bool) (w : Val) (hw : JsonShaped w = true) (rest : Str)
    (hrest : ∀ t, w = .num t → numEnd rest = true) (f : Nat) (hf : sz w ≤ f) :
    value f (encN html w ++ rest) = some (w, rest) :=
  rt_value w html rest f hw hrest hf

/-- … in particular of the key-sorted normal form `Map.Json` writes -/
theorem C06_roundtrip_value (html : Bool) (v : Val) (hv : JsonShaped v = true) (rest : Str)
    (hrest : ∀ t, v = .num t → numEnd rest = true) :
    ∃ f0, ∀ f ≥ f0, value f (encN html v.norm ++ rest) = some (v.norm, rest) := by
  refine ⟨sz v.norm, fun f hf => rt_value v.norm html rest f (jsonShaped_norm v hv) ?_ hf⟩
  intro t ht
  cases v <;> simp only [Val.norm] at ht <;> first | exact hrest t ht | cases ht

/-- the `rest` condition cannot be dropped: a digit after a number is swallowed -/
example : value 5 (encN false (.num "jn:1".toList) ++ "2".toList)
    = some (.num "jn:12".toList, []) := by decide
/-- … and "e+" after a number makes the text invalid -/
example : value 5 (encN false (.num "jn:1".toList) ++ "e+".toList) = none := by decide

/-- the decoder's own fuel (text length + 1) is always enough -/
theorem C06_firstValue_enc (html : Bool) (w : Val) (hw : JsonShaped w = true) :
    firstValue (encN html w) = some w := by
  have := firstValue_encN html w hw [] (fun _ _ => rfl)
  rwa [List.append_nil] at this

/-! ### Map level -/

/-- `NewMapJson (Json m)` is exactly the key-sorted normal form of `m`, for both encodings -/
theorem C06_roundtrip_exact (safe : Bool) (m : Entries) (hm : JsonShaped (.map m) = true) :
    newMapJson (mapJson safe (.map m)) = some (Val.norm (.map m)) :=
  newMapJson_mapJson safe m hm

/-- hence `NewMapJson (Json m) = m` up to the order of entries -/
theorem C06_roundtrip (safe : Bool) (m : Entries) (hm : JsonShaped (.map m) = true) :
    ∃ r, newMapJson (mapJson safe (.map m)) = some r ∧ r ≈ᵥ .map m :=
  ⟨_, newMapJson_mapJson safe m hm, norm_idem (.map m) hm⟩

/-- distinct keys cannot be dropped (a Go map has them anyway): with a repeated key the text
    has the key twice and the decoder keeps one entry -/
example : newMapJson (mapJson false (.map [("a".toList, .null), ("a".toList, .bool true)]))
    = some (.map [("a".toList, .null)]) := by decide

/-- the pinned byte rewrite was unsound: the value `<` (six characters: backslash, u, 0,
    0, 3, c) is encoded as backslash backslash u 0 0 3 c; the rewrite turns the second backslash
    and the five characters after it into '<', leaving backslash '<' — not a JSON escape.
    Kept as documentation of the repaired defect (F-JSON-REWRITE). -/
theorem C06_rewrite_unsound_witness :
    firstValue (rewriteUnsafe (quote true (esc00 '3' 'c'))) = none ∧
    firstValue (quote true (esc00 '3' 'c')) = some (.str (esc00 '3' 'c')) ∧
    firstValue (quote false (esc00 '3' 'c')) = some (.str (esc00 '3' 'c')) := by decide

/-- what the rewrite produced for that value -/
example : rewriteUnsafe (quote true (esc00 '3' 'c')) = ['"', '\\', '<', '"'] := by decide
/-- on harmless strings the rewrite did what was intended -/
example : rewriteUnsafe (quote true "a<b>&".toList) = quote false "a<b>&".toList := by decide

/-! ### what `NewMapJson` accepts

  The property's sentence: "NewMapJson accepts exactly the inputs whose first value
  encoding/json decodes as an object (or array, wrapped under "object") and returns the same
  value".  Since the repair of F-JSON-ARRAYTAIL the array branch decodes the first value on its
  own, so the sentence holds for arrays too (the recorded finding F-JSON-NULL - `null` gives a nil
  Map and no error - stays as it is and is part of every statement below). -/

/-- `NewMapJson` accepts a non-empty input exactly when
      * it does not start (after white space) with '[' and its first value is an object, or the
        recorded case `null` (a nil Map and no error);
      * it starts with '[' and its first value is an array (equivalently: it has a first value,
        see `C06_accepts_iff_first_value` and `C06_bracket_first_value_is_array`). -/
theorem C06_accepts_iff (s : Str) (hs : s ≠ []) :
    (newMapJson s).isSome ↔
      if (skipWs s).head? = some '[' then ∃ xs, firstValue s = some (.list xs)
      else (∃ m, firstValue s = some (.map m)) ∨ firstValue s = some .null := by
  rw [newMapJson_eq s hs]
  by_cases hb : (skipWs s).head? = some '['
  · simp only [hb, if_true]
    cases hfv : firstValue s with
    | none => simp
    | some v =>
      obtain ⟨xs, rfl⟩ := firstValue_bracket_isList s hb v hfv
      simp
  · simp only [hb, if_false]
    cases hfv : firstValue s with
    | none => simp
    | some v => cases v <;> simp

/-- the same without looking at the first character: a non-empty input is accepted exactly when
    its first value is an object, `null`, or an array -/
theorem C06_accepts_iff_first_value (s : Str) (hs : s ≠ []) :
    (newMapJson s).isSome ↔
      (∃ m, firstValue s = some (.map m)) ∨ firstValue s = some .null ∨
        (∃ xs, firstValue s = some (.list xs)) := by
  rw [newMapJson_spec s hs]
  cases hfv : firstValue s with
  | none => simp
  | some v => cases v <;> simp

/-- the documented empty input -/
theorem C06_accepts_empty : newMapJson [] = some (.map []) := rfl

/-- `NewMapJson` is a function of the first value alone: object and `null` as they are, an array
    under "object", any other first value - or none - is an error -/
theorem C06_first_value_spec (s : Str) (hs : s ≠ []) :
    newMapJson s =
      (match firstValue s with
        | some (.map m) => some (.map m)
        | some .null => some .null
        | some (.list xs) => some (.map [(objKey, .list xs)])
        | _ => none) :=
  newMapJson_spec s hs

/-- "… and returns the same value": `r` is returned exactly when the first value is `r` itself
    (an object, or `null`) or an array `xs` and `r` is `{"object": xs}` - one key, nothing else -/
theorem C06_array_first_value (s : Str) (hs : s ≠ []) (r : Val) :
    newMapJson s = some r ↔
      (firstValue s = some r ∧ ((∃ m, r = .map m) ∨ r = .null)) ∨
        (∃ xs, firstValue s = some (.list xs) ∧ r = .map [(objKey, .list xs)]) := by
  rw [newMapJson_spec s hs]
  cases hfv : firstValue s with
  | none => simp
  | some v =>
    cases v with
    | null =>
      simp only [Option.some.injEq, reduceCtorEq, false_and, exists_false, or_false]
      constructor
      · intro h; exact ⟨h, Or.inr h.symm⟩
      · intro h; exact h.1
    | map m =>
      simp only [Option.some.injEq, reduceCtorEq, false_and, exists_false, or_false]
      constructor
      · intro h; exact ⟨h, Or.inl ⟨m, h.symm⟩⟩
      · intro h; exact h.1
    | list xs =>
      simp only [Option.some.injEq, Val.list.injEq]
      constructor
      · intro h; exact Or.inr ⟨xs, rfl, h.symm⟩
      · rintro (⟨h, ⟨m, hm⟩ | hn⟩ | ⟨ys, hy, hr⟩)
        · rw [← h] at hm; cases hm
        · rw [← h] at hn; cases hn
        · rw [hr, hy]
    | bool b =>
      constructor
      · intro h; cases h
      · rintro (⟨h, ⟨m, hm⟩ | hn⟩ | ⟨ys, hy, _⟩)
        · simp only [Option.some.injEq] at h; rw [← h] at hm; cases hm
        · simp only [Option.some.injEq] at h; rw [← h] at hn; cases hn
        · cases hy
    | num t =>
      constructor
      · intro h; cases h
      · rintro (⟨h, ⟨m, hm⟩ | hn⟩ | ⟨ys, hy, _⟩)
        · simp only [Option.some.injEq] at h; rw [← h] at hm; cases hm
        · simp only [Option.some.injEq] at h; rw [← h] at hn; cases hn
        · cases hy
    | str t =>
      constructor
      · intro h; cases h
      · rintro (⟨h, ⟨m, hm⟩ | hn⟩ | ⟨ys, hy, _⟩)
        · simp only [Option.some.injEq] at h; rw [← h] at hm; cases hm
        · simp only [Option.some.injEq] at h; rw [← h] at hn; cases hn
        · cases hy

/-- the accepted value is the first value itself, resp. `null` -/
theorem C06_accepted_value (s : Str) (hs : s ≠ []) (hb : (skipWs s).head? ≠ some '[') (r : Val)
    (h : newMapJson s = some r) : firstValue s = some r ∧ ((∃ m, r = .map m) ∨ r = .null) := by
  rw [newMapJson_eq s hs, if_neg hb] at h
  cases hfv : firstValue s with
  | none => simp [hfv] at h
  | some v =>
    rw [hfv] at h
    cases v with
    | null => simp only [Option.some.injEq] at h; subst h; exact ⟨rfl, Or.inr rfl⟩
    | map m => simp only [Option.some.injEq] at h; subst h; exact ⟨rfl, Or.inl ⟨_, rfl⟩⟩
    | bool b => cases h
    | num t => cases h
    | str t => cases h
    | list xs => cases h

/-- behind a leading '[' a first value can only be an array (a malformed array is an error of
    the decoder, never some other value) -/
theorem C06_bracket_first_value_is_array (s : Str) (hb : (skipWs s).head? = some '[') (v : Val)
    (h : firstValue s = some v) : ∃ xs, v = .list xs :=
  firstValue_bracket_isList s hb v h

/-- with a leading '[' the result is EXACTLY `{"object": xs}` where `xs` is the first value of
    the input: "object" is the only key and it is bound to the array.  (Before the repair only
    "the first key is object" held: see the pinned-wrapper examples below.) -/
theorem C06_wrapper_shape (s : Str) (hs : s ≠ []) (hb : (skipWs s).head? = some '[') (r : Val)
    (h : newMapJson s = some r) :
    ∃ xs, firstValue s = some (.list xs) ∧ r = .map [(objKey, .list xs)] := by
  rw [newMapJson_eq s hs, if_pos hb] at h
  cases hfv : firstValue s with
  | none => simp [hfv] at h
  | some v =>
    obtain ⟨xs, rfl⟩ := firstValue_bracket_isList s hb v hfv
    rw [hfv] at h
    simp only [Option.map_some, Option.some.injEq] at h
    exact ⟨xs, rfl, h.symm⟩

/-- what follows the array is not looked at (the reproducers of F-JSON-ARRAYTAIL) -/
example : newMapJson "[1],\"x\":2".toList = some (.map [(objKey, .list [.num "jn:1".toList])]) := by
  decide +kernel
example : newMapJson "[1],\"object\":5".toList
    = some (.map [(objKey, .list [.num "jn:1".toList])]) := by
  decide +kernel
example : newMapJson "[1,2] x".toList
    = some (.map [(objKey, .list [.num "jn:1".toList, .num "jn:2".toList])]) := by
  decide +kernel
example : newMapJson "[1,2]}".toList
    = some (.map [(objKey, .list [.num "jn:1".toList, .num "jn:2".toList])]) := by
  decide +kernel
example : newMapJson " \n[1]\n<!--".toList = some (.map [(objKey, .list [.num "jn:1".toList])]) := by
  decide +kernel
/-- a malformed array is an error -/
example : newMapJson "[1,2".toList = none := by decide +kernel
example : newMapJson "[1 2]".toList = none := by decide +kernel
example : newMapJson "[".toList = none := by decide +kernel
/-- the pinned wrapper (`{"object":` ++ input ++ `}` decoded as one text) read the tail as part
    of the wrapper object: two keys, the key rebound, an accepted stray brace, a refused tail -/
example : firstValue (wrapObj "[1],\"x\":2".toList)
    = some (.map [(objKey, .list [.num "jn:1".toList]), ("x".toList, .num "jn:2".toList)]) := by
  decide +kernel
example : firstValue (wrapObj "[1],\"object\":5".toList)
    = some (.map [(objKey, .num "jn:5".toList)]) := by
  decide +kernel
example : firstValue (wrapObj "[1,2] x".toList) = none := by decide +kernel
example : (firstValue (wrapObj "[1,2]}".toList)).isSome = true := by decide +kernel

/-- an encoded array is accepted and comes back under "object" -/
theorem C06_array_wrapped (html : Bool) (xs : List Val) (hx : JsonShaped (.list xs) = true) :
    newMapJson (encN html (.list xs)) = some (.map [(objKey, .list xs)]) :=
  newMapJson_array html xs hx

/-- … whatever follows it -/
theorem C06_array_wrapped_tail (html : Bool) (xs : List Val) (hx : JsonShaped (.list xs) = true)
    (rest : Str) :
    newMapJson (encN html (.list xs) ++ rest) = some (.map [(objKey, .list xs)]) :=
  newMapJson_array_tail html xs hx rest

/-- an encoded Map followed by anything is accepted and comes back as the same value -/
theorem C06_roundtrip_exact_tail (safe : Bool) (m : Entries) (hm : JsonShaped (.map m) = true)
    (rest : Str) :
    newMapJson (mapJson safe (.map m) ++ rest) = some (Val.norm (.map m)) :=
  newMapJson_mapJson_tail safe m hm rest

/-- trailing bytes are never looked at: `NewMapJson` is a function of the first value
    (`C06_first_value_spec`), so a tail `t` that leaves the first value alone leaves the result
    alone.  PARTIAL: the hypothesis `firstValue (s ++ t) = firstValue s` is discharged here for
    every text the encoder writes (`C06_array_wrapped_tail`, `C06_roundtrip_exact_tail`, from
    `firstValue_encN` with an arbitrary continuation); what is missing is the grammar lemma that
    it holds for EVERY text `s` whose first value is an object or array (`value f s = some (v, r)`
    with `v` not a number implies `value f' (s ++ t) = some (v, r ++ t)` for `f' ≥ f`: a mutual
    induction over `value`/`elements`/`members`/`strBody`/`numberLit` that is not done).  The
    examples above and the harness (every generated array/object text is run with random tails
    against encoding/json's first value, no exception) cover it meanwhile. -/
theorem C06_trailing_ignored_partial (s t : Str) (hs : s ≠ [])
    (h : firstValue (s ++ t) = firstValue s) : newMapJson (s ++ t) = newMapJson s := by
  rw [newMapJson_spec s hs, newMapJson_spec (s ++ t) (by simp [hs]), h]

/-- the hypothesis is needed: a tail can complete a value that was not one (`[1,2` alone is an
    error), and it is satisfiable on every reproducer of the finding -/
example : newMapJson "[1,2".toList = none ∧
    newMapJson ("[1,2".toList ++ "]".toList)
      = some (.map [(objKey, .list [.num "jn:1".toList, .num "jn:2".toList])]) := by
  decide +kernel
example : firstValue ("[1,2]".toList ++ " x".toList) = firstValue "[1,2]".toList := by
  decide +kernel
example : firstValue ("[1]".toList ++ ",\"x\":2".toList) = firstValue "[1]".toList := by
  decide +kernel

/-- other first values are refused; trailing bytes are not looked at -/
example : newMapJson "\"str\"".toList = none := by decide
example : newMapJson "12".toList = none := by decide
example : newMapJson " null".toList = some .null := by decide
example : newMapJson "{\"a\":1} trailing }{".toList
    = some (.map [("a".toList, .num "jn:1".toList)]) := by decide +kernel

/-! ### non-vacuity -/

/-- a Map with hostile strings: quotes, backslashes, control characters, HTML characters,
    U+2028, a non-BMP character, the six-character sequence of the rewrite witness, numbers,
    nested containers, keys out of order -/
def exMap : Entries :=
  [ ("z<\"\\".toList, .str ['a', '\n', '\x01', '\x08', Char.ofNat 0x2028, '&', '>', Char.ofNat 0x1F600]),
    ("k".toList, .str (esc00 '3' 'c')),
    ("a".toList, .list [.num "jn:-1.5e+3".toList, .null, .bool true, .map [], .list []]),
    ("m".toList, .map [("b".toList, .num "jn:0".toList), ("a".toList, .str [])]) ]

example : JsonShaped (.map exMap) = true := by decide
example : newMapJson (mapJson true (.map exMap)) = some (Val.norm (.map exMap)) := by
  decide +kernel
example : newMapJson (mapJson false (.map exMap)) = some (Val.norm (.map exMap)) := by
  decide +kernel
example : mapJson true (.map exMap) ≠ mapJson false (.map exMap) := by decide
example : ∃ r, newMapJson (mapJson false (.map exMap)) = some r ∧ r ≈ᵥ .map exMap :=
  C06_roundtrip false exMap (by decide)

end Mxj.C06
