/-
  Mxj.Props.C18ExtCfg — what an option history means for the codecs.

  `Opt.cfgOfState` / `Opt.encOfState` say which package variables the decoder and encoder models
  read (the driver's `optdoc` op decodes under `cfgOfState (run dflt history)` and is compared
  with `NewMapXml` after the same history on every run).  The theorems: restoring the defaults
  restores the default configurations; the decoder configuration evolves on its own
  (`stepCfg`: no call makes it depend on an encoder-side variable), so the encoder-side calls -
  wherever they stand in a history - never change what a decoder does afterwards.
-/
import Mxj.Props.C18
import Mxj.Model.OptCfg
namespace Mxj.C18
open Mxj Mxj.Opt

/-- a fresh process decodes with the default configuration -/
theorem C18_cfg_fresh (cast : Bool) : cfgOfState dflt cast = { cast := { r := cast } } := rfl

theorem C18_enc_fresh : encOfState dflt = {} := rfl

/-- after ANY history (punctuation key prefixes) followed by the restoring calls, the decoders
    and the encoders are configured as in a fresh process -/
theorem C18_cfg_restore (calls : List Call) (h : punctPrefixes calls = true) (cast : Bool) :
    cfgOfState (run (run dflt calls) restoreCalls) cast = { cast := { r := cast } }
      ∧ encOfState (run (run dflt calls) restoreCalls) = {} := by
  rw [C18_restore calls h]; exact ⟨rfl, rfl⟩

/-- the decoder configuration is a state machine of its own: what a call does to it is a
    function of the decoder configuration alone (no encoder-side variable is ever read) -/
theorem C18_cfg_step (st : St) (c : Call) (cast : Bool) :
    cfgOfState (step st c) cast = stepCfg (cfgOfState st cast) c := by
  cases c <;> simp only [step, stepCfg, cfgOfState] <;> (try split) <;> (try rfl)
  all_goals (first | rfl | (split <;> rfl))

theorem C18_cfg_run (calls : List Call) (st : St) (cast : Bool) :
    cfgOfState (run st calls) cast = calls.foldl stepCfg (cfgOfState st cast) := by
  induction calls generalizing st with
  | nil => rfl
  | cons c cs ih =>
    show cfgOfState (run (step st c) cs) cast = _
    rw [ih (step st c), C18_cfg_step]; rfl

/-- an encoder-side call does nothing to the decoder configuration -/
theorem C18_cfg_encoder_call (cfg : DecCfg) (c : Call) (hc : encoderOnly c = true) :
    stepCfg cfg c = cfg := by
  cases c <;> simp [encoderOnly] at hc <;> rfl

/-- decoders ignore the encoder switches: the decoder configuration after a history is the one
    after the same history with every encoder-side call (Go empty-element syntax, validity check,
    encoder-side escaping, field separator, dot notation, array size, skip function, XMPP switch)
    removed, wherever those calls stand -/
theorem C18_decoder_ignores_encoder_calls (calls : List Call) (st : St) (cast : Bool) :
    cfgOfState (run st calls) cast
      = cfgOfState (run st (calls.filter (fun c => !encoderOnly c))) cast := by
  rw [C18_cfg_run, C18_cfg_run]
  generalize cfgOfState st cast = cfg
  induction calls generalizing cfg with
  | nil => rfl
  | cons c cs ih =>
    by_cases hc : encoderOnly c = true
    · rw [List.filter_cons_of_neg (by simpa using hc)]
      show cs.foldl stepCfg (stepCfg cfg c) = _
      rw [C18_cfg_encoder_call cfg c hc]; exact ih cfg
    · rw [List.filter_cons_of_pos (by simpa using hc)]
      exact ih (stepCfg cfg c)

/-- non-vacuity: a history mixing both kinds of calls -/
example : cfgOfState (run dflt [.xmlEscapeChars (some true), .coerceKeysToLower none, .xmlGoEmptyElemSyntax,
      .setGlobalKeyMapPrefix ['%'], .setFieldSeparator (some ['|']), .castValuesToInt (some true)]) true
    = { lowerCase := true, textK := "%text".toList, cast := { r := true, toInt := true } } := by
  simp [C18_cfg_run, cfgOfState, dflt, stepCfg, tog, rekey, replaceAll]
  decide

end Mxj.C18
