/-
  Mxj.Props.C02ExtSym — C02 "decode → encode → decode is a fixed point" for SYMMETRIC
  NON-DEFAULT option combinations (tree level, and through bytes under the tokenizer law).

  `Props/C02.lean` proves the fixed point for the default decoder / encoder options (`dc`, `ec`).
  Here the same statement is proved for every pair `(d, e)` of decoder / encoder configurations
  that is symmetric (`EncSym.Sym`): same attribute prefix, same text key (not itself an
  attribute key), no tag sequence numbers, no decoder-side escaping, no `checkTagToSkip` set —
  and ANY setting of lower-case / snake-case key folding, keep-spaces, simple-values-as-map and
  `cast` (float / bool), all at once.  Facts about the standard library enter as explicit
  laws (trusted base):
    * `EncSym.LowerLaw S`  — `strings.ToLower` is idempotent and commutes with '-' ↦ '_'
                             (needed only when keys are lower-cased);
    * `EncSym.FloatLaw S`  — the `%v` text of a parsed float parses back to the same float, is
                             non-empty and free of white space, is not a NaN/Inf word when the
                             float is finite, and "true"/"false" are neither floats nor such
                             words (needed only when values are cast).
    * `EncSym.FloatTextLaw S` — (bytes only) that text contains nothing XML escaping rewrites.
  The development is in Lemmas/EncodeSym1 … EncodeSym5 and Lemmas/EncodeSym.

  `C02_sym_fixed_point_tree` is the general theorem (abstract laws `FoldLaw`, `LeafLaw`);
  `C02_sym_fixed_point_tree_tb` the same from the trusted-base laws; the per-option theorems
  `C02_sym_fold_…`, `C02_sym_keepSpace_…`, `C02_sym_asMap_…`, `C02_sym_prefix_textKey_…`,
  `C02_sym_cast_…` are its instances; `C02_sym_fixed_point_bytes(_tb)` is the statement through
  bytes (`TokLaw`, compact encoder).  Every hypothesis comes with a counterexample below.
-/
import Mxj.Lemmas.EncodeSym
import Mxj.Props.C02
namespace Mxj.C02
open Mxj Mxj.Enc Mxj.EncSym

/-! ### the shape of decoded values, and the image -/

/-- what the conventions produce under the options `d` has the shape `DecodedG d S e`: leaves are
    the cast of their own (trimmed, non-empty) text, lists have at least two non-list members,
    maps are non-empty, have distinct keys and — unless simple values decode as maps — are not
    text-only, attribute entries are cast scalars, every key is a fixed point of the folding. -/
theorem C02_sym_decoded (d : DecCfg) (S : Strconv) (e : EncCfg) (hs : Sym d e)
    (hF : FoldLaw d S) (hL : LeafLaw d S) (sp name : Str) (attrs : List Attr) (kids : List Node)
    (hd : Conv.inDomain d S (.elem sp name attrs kids) = true)
    (hn : NamesOkG d S e (.elem sp name attrs kids) = true) :
    DecodedG d S e (Conv.value d S (.elem sp name attrs kids)) = true :=
  value_decodedG d S e hs hF hL _ hd hn rfl

/-- a value of that shape is its own image under encode-then-decode with `(e, d)` -/
theorem C02_sym_decoded_image (d : DecCfg) (S : Strconv) (e : EncCfg)
    (hta : isAttrK e e.textK = false) (v : Val) (h : DecodedG d S e v = true) :
    imageG d S e v ≈ᵥ v := image_decodedG d S e hta v h

/-- … and stays of that shape when normalised -/
theorem C02_sym_decoded_norm (d : DecCfg) (S : Strconv) (e : EncCfg) (v : Val)
    (h : DecodedG d S e v = true) : DecodedG d S e v.norm = true := DecodedG_norm d S e v h

/-! ### the fixed point, all symmetric options at once -/

/-- XML → Map → XML → Map is a fixed point at tree level for every symmetric option pair:
    for an in-domain tree `t` (C01 domain under `d`) whose names survive (`NamesOkG`),
    `Conv.doc d S t` is a one-entry Map `{root}`; encoding it with `e` succeeds with a single
    tree `n`, and the conventions (under `d`) applied to `n` give an equivalent Map.
    `FoldLaw d S`: key folding is idempotent; `LeafLaw d S`: the text written for a cast leaf is
    cast back to the same leaf (both derived from the trusted-base laws in
    `C02_sym_fixed_point_tree_tb`). -/
theorem C02_sym_fixed_point_tree (d : DecCfg) (S : Strconv) (e : EncCfg) (hs : Sym d e)
    (hF : FoldLaw d S) (hL : LeafLaw d S) (sp name : Str) (attrs : List Attr) (kids : List Node)
    (hd : Conv.inDomain d S (.elem sp name attrs kids) = true)
    (hnames : NamesOkG d S e (.elem sp name attrs kids) = true) :
    ∃ root, Conv.doc d S (.elem sp name attrs kids) = .map [root] ∧
      ∃ n, encTree e root.1 root.2.norm = .ok [n]
        ∧ Conv.doc d S n ≈ᵥ Conv.doc d S (.elem sp name attrs kids) := by
  obtain ⟨n, hn, hdoc, hv⟩ := fixed_point_valueG d S e hs hF hL sp name attrs kids hd hnames
  refine ⟨(elemKey d S name, Conv.value d S (.elem sp name attrs kids)), rfl, n, hn, ?_⟩
  rw [hdoc]
  have h2 : Conv.doc d S (.elem sp name attrs kids)
      = .map [(elemKey d S name, Conv.value d S (.elem sp name attrs kids))] := rfl
  rw [h2]
  unfold Val.equiv at hv ⊢
  simp only [norm_singleton_map, hv]

/-- the same from the trusted-base laws: `LowerLaw S` when keys are lower-cased, `FloatLaw S`
    when values are cast; integer casting off (documented as asymmetric: see the counterexample
    `toInt_counterexample` below) -/
theorem C02_sym_fixed_point_tree_tb (d : DecCfg) (S : Strconv) (e : EncCfg) (hs : Sym d e)
    (hlow : d.lowerCase = true → LowerLaw S)
    (hI : d.cast.toInt = false) (hfl : d.cast.r = true → FloatLaw S)
    (sp name : Str) (attrs : List Attr) (kids : List Node)
    (hd : Conv.inDomain d S (.elem sp name attrs kids) = true)
    (hnames : NamesOkG d S e (.elem sp name attrs kids) = true) :
    ∃ root, Conv.doc d S (.elem sp name attrs kids) = .map [root] ∧
      ∃ n, encTree e root.1 root.2.norm = .ok [n]
        ∧ Conv.doc d S n ≈ᵥ Conv.doc d S (.elem sp name attrs kids) :=
  C02_sym_fixed_point_tree d S e hs (FoldLaw_of d S hlow) (LeafLaw_of d S hI hfl)
    sp name attrs kids hd hnames

/-! ### one option at a time -/

/-- key folding (`lowerCase`, `snake`, either or both), everything else default -/
theorem C02_sym_fold_fixed_point_tree (lc sn : Bool) (S : Strconv)
    (hlow : lc = true → LowerLaw S) (sp name : Str) (attrs : List Attr) (kids : List Node)
    (hd : Conv.inDomain { lowerCase := lc, snake := sn } S (.elem sp name attrs kids) = true)
    (hnames : NamesOkG { lowerCase := lc, snake := sn } S ec (.elem sp name attrs kids) = true) :
    ∃ root, Conv.doc { lowerCase := lc, snake := sn } S (.elem sp name attrs kids) = .map [root] ∧
      ∃ n, encTree ec root.1 root.2.norm = .ok [n]
        ∧ Conv.doc { lowerCase := lc, snake := sn } S n
            ≈ᵥ Conv.doc { lowerCase := lc, snake := sn } S (.elem sp name attrs kids) :=
  C02_sym_fixed_point_tree_tb { lowerCase := lc, snake := sn } S ec
    ⟨rfl, rfl, by decide, rfl, rfl, rfl⟩ hlow rfl (fun h => by simp at h)
    sp name attrs kids hd hnames

/-- keep-spaces (only tabs, returns, backspaces and newlines are trimmed) -/
theorem C02_sym_keepSpace_fixed_point_tree (S : Strconv) (sp name : Str) (attrs : List Attr)
    (kids : List Node)
    (hd : Conv.inDomain { keepSpace := true } S (.elem sp name attrs kids) = true)
    (hnames : NamesOkG { keepSpace := true } S ec (.elem sp name attrs kids) = true) :
    ∃ root, Conv.doc { keepSpace := true } S (.elem sp name attrs kids) = .map [root] ∧
      ∃ n, encTree ec root.1 root.2.norm = .ok [n]
        ∧ Conv.doc { keepSpace := true } S n
            ≈ᵥ Conv.doc { keepSpace := true } S (.elem sp name attrs kids) :=
  C02_sym_fixed_point_tree_tb { keepSpace := true } S ec
    ⟨rfl, rfl, by decide, rfl, rfl, rfl⟩ (fun h => by simp at h) rfl
    (fun h => by simp at h) sp name attrs kids hd hnames

/-- simple values decode as `{text key: value}` maps -/
theorem C02_sym_asMap_fixed_point_tree (S : Strconv) (sp name : Str) (attrs : List Attr)
    (kids : List Node)
    (hd : Conv.inDomain { asMap := true } S (.elem sp name attrs kids) = true)
    (hnames : NamesOkG { asMap := true } S ec (.elem sp name attrs kids) = true) :
    ∃ root, Conv.doc { asMap := true } S (.elem sp name attrs kids) = .map [root] ∧
      ∃ n, encTree ec root.1 root.2.norm = .ok [n]
        ∧ Conv.doc { asMap := true } S n
            ≈ᵥ Conv.doc { asMap := true } S (.elem sp name attrs kids) :=
  C02_sym_fixed_point_tree_tb { asMap := true } S ec
    ⟨rfl, rfl, by decide, rfl, rfl, rfl⟩ (fun h => by simp at h) rfl
    (fun h => by simp at h) sp name attrs kids hd hnames

/-- any attribute prefix `p` and any text key `tk` that does not properly extend `p`
    (with the empty prefix `NamesOkG` admits only attribute-free trees) -/
theorem C02_sym_prefix_textKey_fixed_point_tree (p tk : Str) (S : Strconv)
    (hpt : isAttrK { attrPrefix := p, textK := tk } tk = false)
    (sp name : Str) (attrs : List Attr) (kids : List Node)
    (hd : Conv.inDomain { attrPrefix := p, textK := tk } S (.elem sp name attrs kids) = true)
    (hnames : NamesOkG { attrPrefix := p, textK := tk } S
      { attrPrefix := p, textK := tk, escape := true } (.elem sp name attrs kids) = true) :
    ∃ root, Conv.doc { attrPrefix := p, textK := tk } S (.elem sp name attrs kids) = .map [root] ∧
      ∃ n, encTree { attrPrefix := p, textK := tk, escape := true } root.1 root.2.norm = .ok [n]
        ∧ Conv.doc { attrPrefix := p, textK := tk } S n
            ≈ᵥ Conv.doc { attrPrefix := p, textK := tk } S (.elem sp name attrs kids) :=
  C02_sym_fixed_point_tree_tb { attrPrefix := p, textK := tk } S
    { attrPrefix := p, textK := tk, escape := true }
    ⟨rfl, rfl, hpt, rfl, rfl, rfl⟩ (fun h => by simp at h) rfl
    (fun h => by simp at h) sp name attrs kids hd hnames

/-- float / bool casting (`cast` with any of `toFloat`, `toBool`, `nanInf`; no integer casting,
    no skip set) -/
theorem C02_sym_cast_fixed_point_tree (c : CastCfg) (S : Strconv) (hI : c.toInt = false)
    (hskip : c.skipSet = false) (hfl : c.r = true → FloatLaw S)
    (sp name : Str) (attrs : List Attr) (kids : List Node)
    (hd : Conv.inDomain { cast := c } S (.elem sp name attrs kids) = true)
    (hnames : NamesOkG { cast := c } S ec (.elem sp name attrs kids) = true) :
    ∃ root, Conv.doc { cast := c } S (.elem sp name attrs kids) = .map [root] ∧
      ∃ n, encTree ec root.1 root.2.norm = .ok [n]
        ∧ Conv.doc { cast := c } S n ≈ᵥ Conv.doc { cast := c } S (.elem sp name attrs kids) :=
  C02_sym_fixed_point_tree_tb { cast := c } S ec
    ⟨rfl, rfl, by decide, rfl, rfl, hskip⟩ (fun h => by simp at h) hI hfl
    sp name attrs kids hd hnames


/-! ### through bytes -/

/-- XML → Map → XML → Map through bytes, for every symmetric option pair with value escaping
    on: decode the token stream of an in-domain tree `t` with `d` (`newMapXml`, C01), encode the
    Map with `mv.Xml()` under `e` (`mapXml`), tokenize the bytes (`tokens`, TB-XML `TokLaw`) and
    decode again with `d`: the second Map is equivalent to the first.
    `NumPlainLaw d S e`: the `%v` text of a cast number is non-empty and needs no escaping (from
    `FloatLaw` + `FloatTextLaw` in `C02_sym_fixed_point_bytes_tb`).  `hwn`, as in
    `C02_fixed_point_bytes`: the tree the encoder builds is well-named (executable predicate;
    that it is inherited from `t` is not proved here).
    This is the COMPACT encoder; with keep-spaces the INDENTED encoder is not a fixed point
    (finding F-KEEPSP-INDENT). -/
theorem C02_sym_fixed_point_bytes (tokens : Str → List Tok) (law : TokLaw tokens)
    (d : DecCfg) (S : Strconv) (e : EncCfg) (hs : Sym d e) (hesc : e.escape = true)
    (hF : FoldLaw d S) (hL : LeafLaw d S) (hP : NumPlainLaw d S e)
    (fin : StreamEnd) (pre post : List Tok) (hpre : ∀ t ∈ pre, ¬ isStart t)
    (sp name : Str) (attrs : List Attr) (kids : List Node)
    (hd : Conv.inDomain d S (.elem sp name attrs kids) = true)
    (hadj : noAdjText (.elem sp name attrs kids) = true)
    (hnames : NamesOkG d S e (.elem sp name attrs kids) = true)
    (hwn : ∀ n, encTree e (elemKey d S name)
        (Conv.value d S (.elem sp name attrs kids)).norm = .ok [n] → WellNamed n = true) :
    ∃ m out m',
      newMapXml d S (pre ++ flatten (.elem sp name attrs kids) ++ post) fin = .ok (.map m)
      ∧ mapXml e m none = .ok out
      ∧ newMapXml d S (tokens out) fin = .ok m'
      ∧ m' ≈ᵥ .map m := by
  -- first decode
  obtain ⟨x, hx, hxe⟩ := C01.C01_decode_one_root d S fin pre post hpre sp name attrs kids hd hadj
  have hD := C02_sym_decoded d S e hs hF hL sp name attrs kids hd hnames
  have hDn := DecodedG_norm d S e _ hD
  have hnl : (Conv.value d S (.elem sp name attrs kids)).isList = false := by
    unfold DecodedG at hD
    simp only [Bool.and_eq_true, Bool.not_eq_true'] at hD
    exact hD.1
  unfold DecodedG at hDn
  simp only [Bool.and_eq_true, Bool.not_eq_true'] at hDn
  -- encode: same bytes as for the conventions' value
  have hm1 : Val.map [(elemKey d S name, x)]
      ≈ᵥ Val.map [(elemKey d S name, Conv.value d S (.elem sp name attrs kids))] := by
    unfold Val.equiv at hxe ⊢
    simp only [norm_singleton_map, hxe]
  obtain ⟨n, hn, hdoc, hv⟩ := fixed_point_valueG d S e hs hF hL sp name attrs kids hd hnames
  have hbytes : mapXml e [(elemKey d S name, x)] none = .ok (render e n) := by
    rw [C16.C16_mapXml_perm_invariant e _ _ none hm1, mapXml_single e _ _ hnl,
      C02_render_eq_bytes e _ _ [n] (DecodedG_Plain d S e hP _ hD) hn]
    simp
  -- tokenize and decode again
  have hW := hwn n hn
  obtain ⟨a', k', he⟩ := encTree_single e _ _ [n] hDn.1 hn
  have he' : n = .elem [] (elemKey d S name) a' k' := by simpa using he
  subst he'
  have hdom : Conv.inDomain d S (.elem [] (elemKey d S name) a' k') = true := by
    obtain ⟨_, _, _, h⟩ := encTree_domG d S e hs _ _ _ hDn.2 hn _ (List.mem_singleton.2 rfl)
    exact h
  have hadj' : noAdjText (.elem [] (elemKey d S name) a' k') = true := by
    unfold WellNamed at hW
    simp only [Bool.and_eq_true] at hW
    exact hW.2
  obtain ⟨m', hm', hme⟩ := C01.C01_decode_conventions d S fin [] [] (by simp) []
    (elemKey d S name) a' k' hdom hadj'
  refine ⟨[(elemKey d S name, x)], render e (.elem [] (elemKey d S name) a' k'), m', hx, hbytes,
    ?_, ?_⟩
  · rw [law.render_flatten e _ hesc hW]
    simpa using hm'
  · refine Val.equiv_trans hme ?_
    rw [hdoc]
    unfold Val.equiv at hv hxe ⊢
    simp only [norm_singleton_map, hv, hxe]

/-- the same from the trusted-base laws -/
theorem C02_sym_fixed_point_bytes_tb (tokens : Str → List Tok) (law : TokLaw tokens)
    (d : DecCfg) (S : Strconv) (e : EncCfg) (hs : Sym d e) (hesc : e.escape = true)
    (hlow : d.lowerCase = true → LowerLaw S) (hI : d.cast.toInt = false)
    (hfl : d.cast.r = true → FloatLaw S ∧ FloatTextLaw S)
    (fin : StreamEnd) (pre post : List Tok) (hpre : ∀ t ∈ pre, ¬ isStart t)
    (sp name : Str) (attrs : List Attr) (kids : List Node)
    (hd : Conv.inDomain d S (.elem sp name attrs kids) = true)
    (hadj : noAdjText (.elem sp name attrs kids) = true)
    (hnames : NamesOkG d S e (.elem sp name attrs kids) = true)
    (hwn : ∀ n, encTree e (elemKey d S name)
        (Conv.value d S (.elem sp name attrs kids)).norm = .ok [n] → WellNamed n = true) :
    ∃ m out m',
      newMapXml d S (pre ++ flatten (.elem sp name attrs kids) ++ post) fin = .ok (.map m)
      ∧ mapXml e m none = .ok out
      ∧ newMapXml d S (tokens out) fin = .ok m'
      ∧ m' ≈ᵥ .map m :=
  C02_sym_fixed_point_bytes tokens law d S e hs hesc (FoldLaw_of d S hlow)
    (LeafLaw_of d S hI (fun h => (hfl h).1)) (NumPlainLaw_of d S e hI hfl)
    fin pre post hpre sp name attrs kids hd hadj hnames hwn

/-! ### non-vacuity: concrete instances of the laws -/

/-- a float parser on a finite table ("1.50" and "1.5" are the float 1.5, `%v` text "1.5";
    "NaN"/"nan" are NaN) -/
def pfT (s : Str) : Option (Str × Bool) :=
  if s = "1.50".toList ∨ s = "1.5".toList then some ("f:1.5".toList, false)
  else if s = "NaN".toList ∨ s = "nan".toList then some ("f:NaN".toList, true)
  else none

/-- a `Strconv` with ASCII lower-casing and that float parser -/
def S1 : Strconv :=
  { parseInt := fun _ => none, parseUint := fun _ => none, parseFloat := pfT, lower := lowerAscii }

theorem S1_lower : LowerLaw S1 := lowerAscii_law S1 rfl

theorem S1_float : FloatLaw S1 := by
  constructor
  · intro s t sp h
    have h' : pfT s = some (t, sp) := h
    unfold pfT at h'
    split at h'
    · simp only [Option.some.injEq, Prod.mk.injEq] at h'
      obtain ⟨rfl, rfl⟩ := h'
      decide
    · split at h'
      · simp only [Option.some.injEq, Prod.mk.injEq] at h'
        obtain ⟨rfl, rfl⟩ := h'
        decide
      · simp at h'
  · intro s t sp h
    have h' : pfT s = some (t, sp) := h
    unfold pfT at h'
    split at h'
    · simp only [Option.some.injEq, Prod.mk.injEq] at h'
      obtain ⟨rfl, rfl⟩ := h'
      decide
    · split at h'
      · simp only [Option.some.injEq, Prod.mk.injEq] at h'
        obtain ⟨rfl, rfl⟩ := h'
        decide
      · simp at h'
  · intro s t h
    have h' : pfT s = some (t, false) := h
    unfold pfT at h'
    split at h'
    · simp only [Option.some.injEq, Prod.mk.injEq, and_true] at h'
      subst h'
      decide
    · split at h'
      · simp at h'
      · simp at h'
  · intro b; cases b <;> decide
  · intro b; cases b <;> decide

theorem S1_floatText : FloatTextLaw S1 := by
  constructor
  intro s t sp h
  have h' : pfT s = some (t, sp) := h
  unfold pfT at h'
  split at h'
  · simp only [Option.some.injEq, Prod.mk.injEq] at h'
    obtain ⟨rfl, rfl⟩ := h'
    decide
  · split at h'
    · simp only [Option.some.injEq, Prod.mk.injEq] at h'
      obtain ⟨rfl, rfl⟩ := h'
      decide
    · simp at h'

/-! ### non-vacuity: the theorems on concrete trees with non-default options -/

/-- `<Doc-Root Attr-One="1.50" B="nan">␤<Item-A> 1.50 </Item-A>␤<item_a>T</item_a>`
    `<C K-k="true">w<D/></C>␤</Doc-Root>` -/
def symTree : Node :=
  .elem [] "Doc-Root".toList [⟨[], "Attr-One".toList, "1.50".toList⟩, ⟨[], "B".toList, "nan".toList⟩]
    [.text "\n".toList, .elem [] "Item-A".toList [] [.text " 1.50 ".toList], .text "\n".toList,
     .elem [] "item_a".toList [] [.text "T".toList],
     .elem [] "C".toList [⟨[], "K-k".toList, "true".toList⟩] [.text "w".toList, .elem [] "D".toList [] []],
     .text "\n".toList]

/-- prefix "at_", text key "_t", lower-case + snake-case keys, simple values as maps, cast -/
def dA : DecCfg :=
  { attrPrefix := "at_".toList, textK := "_t".toList, lowerCase := true, snake := true,
    asMap := true, cast := { r := true } }
def eA : EncCfg := { attrPrefix := "at_".toList, textK := "_t".toList, escape := true }

/-- prefix "@", lower-case + snake-case keys, keep-spaces, cast with NaN/Inf -/
def dB : DecCfg :=
  { attrPrefix := "@".toList, lowerCase := true, snake := true, keepSpace := true,
    cast := { r := true, nanInf := true } }
def eB : EncCfg := { attrPrefix := "@".toList, escape := true }

theorem symA : Sym dA eA := ⟨rfl, rfl, by decide, rfl, rfl, rfl⟩
theorem symB : Sym dB eB := ⟨rfl, rfl, by decide, rfl, rfl, rfl⟩

example : Conv.inDomain dA S1 symTree = true := by decide
example : NamesOkG dA S1 eA symTree = true := by decide
example : Conv.inDomain dB S1 symTree = true := by decide
example : NamesOkG dB S1 eB symTree = true := by decide

/-- the Map of the document under `dA`: folded keys, cast attribute and leaf values (the
    NaN word stays a string), simple values as `{"_t": value}` maps … -/
example : Conv.doc dA S1 symTree = .map [("doc_root".toList, .map
    [("at_attr_one".toList, .num "f:1.5".toList), ("at_b".toList, .str "nan".toList),
     ("item_a".toList, .list [.map [("_t".toList, .num "f:1.5".toList)],
                              .map [("_t".toList, .bool true)]]),
     ("c".toList, .map [("at_k_k".toList, .bool true), ("d".toList, .str []),
                        ("_t".toList, .str "w".toList)])])] := by decide

/-- … and under `dB`: spaces kept (so " 1.50 " is not a number), NaN cast -/
example : Conv.doc dB S1 symTree = .map [("doc_root".toList, .map
    [("@attr_one".toList, .num "f:1.5".toList), ("@b".toList, .num "f:NaN".toList),
     ("item_a".toList, .list [.str " 1.50 ".toList, .bool true]),
     ("c".toList, .map [("@k_k".toList, .bool true), ("d".toList, .str []),
                        ("#text".toList, .str "w".toList)])])] := by decide

/-- the general theorem applies to both … -/
example : FixedPointAt dA S1 eA symTree :=
  C02_sym_fixed_point_tree_tb dA S1 eA symA (fun _ => S1_lower) rfl (fun _ => S1_float)
    _ _ _ _ (by decide) (by decide)
example : FixedPointAt dB S1 eB symTree :=
  C02_sym_fixed_point_tree_tb dB S1 eB symB (fun _ => S1_lower) rfl (fun _ => S1_float)
    _ _ _ _ (by decide) (by decide)

/-- … and the one-option theorems to their option sets -/
example : FixedPointAt { lowerCase := true, snake := true } S1 ec symTree :=
  C02_sym_fold_fixed_point_tree true true S1 (fun _ => S1_lower) _ _ _ _ (by decide) (by decide)
example : FixedPointAt { keepSpace := true } S1 ec symTree :=
  C02_sym_keepSpace_fixed_point_tree S1 _ _ _ _ (by decide) (by decide)
example : FixedPointAt { asMap := true } S1 ec symTree :=
  C02_sym_asMap_fixed_point_tree S1 _ _ _ _ (by decide) (by decide)
example : FixedPointAt { attrPrefix := "at_".toList, textK := "_t".toList } S1
    { attrPrefix := "at_".toList, textK := "_t".toList, escape := true } symTree :=
  C02_sym_prefix_textKey_fixed_point_tree "at_".toList "_t".toList S1 (by decide)
    _ _ _ _ (by decide) (by decide)
example : FixedPointAt { cast := { r := true, nanInf := true } } S1 ec symTree :=
  C02_sym_cast_fixed_point_tree { r := true, nanInf := true } S1 rfl rfl (fun _ => S1_float)
    _ _ _ _ (by decide) (by decide)

/-- the tree the encoder builds for the `dA` Map (names are the folded keys, numbers and
    booleans are written as their `%v` text), and the Map it decodes to: the same entries -/
example : ∃ n, encTree eA "doc_root".toList
      (match Conv.doc dA S1 symTree with | .map [r] => r.2.norm | _ => .null) = .ok [n]
    ∧ n = .elem [] "doc_root".toList
        [⟨[], "attr_one".toList, "1.5".toList⟩, ⟨[], "b".toList, "nan".toList⟩]
        [.elem [] "c".toList [⟨[], "k_k".toList, "true".toList⟩]
           [.text "w".toList, .elem [] "d".toList [] []],
         .elem [] "item_a".toList [] [.text "1.5".toList],
         .elem [] "item_a".toList [] [.text "true".toList]]
    ∧ Conv.doc dA S1 n ≈ᵥ Conv.doc dA S1 symTree := ⟨_, rfl, rfl, by decide⟩

/-- the bytes `mv.Xml()` writes for that Map under `eA`, and the premises of
    `C02_sym_fixed_point_bytes_tb` other than the tokenizer law: the encoder's tree is well-named,
    the document has no adjacent text nodes -/
example : (match Conv.doc dA S1 symTree with | .map m => mapXml eA m none | _ => .error .other)
    = .ok ("<doc_root attr_one=\"1.5\" b=\"nan\"><c k_k=\"true\">w<d/></c>"
        ++ "<item_a>1.5</item_a><item_a>true</item_a></doc_root>").toList := by rfl
example : noAdjText symTree = true := by decide
example : ∀ n, encTree eA (elemKey dA S1 "Doc-Root".toList)
    (Conv.value dA S1 symTree).norm = .ok [n] → WellNamed n = true := by
  intro n h
  have h' : encTree eA (elemKey dA S1 "Doc-Root".toList) (Conv.value dA S1 symTree).norm
      = .ok [.elem [] "doc_root".toList
        [⟨[], "attr_one".toList, "1.5".toList⟩, ⟨[], "b".toList, "nan".toList⟩]
        [.elem [] "c".toList [⟨[], "k_k".toList, "true".toList⟩]
           [.text "w".toList, .elem [] "d".toList [] []],
         .elem [] "item_a".toList [] [.text "1.5".toList],
         .elem [] "item_a".toList [] [.text "true".toList]]] := rfl
  rw [h'] at h
  simp only [Except.ok.injEq, List.cons.injEq, and_true] at h
  subst h
  decide
example (tokens : Str → List Tok) (law : TokLaw tokens) (hwn : ∀ n, encTree eA
      (elemKey dA S1 "Doc-Root".toList) (Conv.value dA S1 symTree).norm = .ok [n] →
      WellNamed n = true) :
    ∃ m out m', newMapXml dA S1 ([] ++ flatten symTree ++ []) .eof = .ok (.map m)
      ∧ mapXml eA m none = .ok out ∧ newMapXml dA S1 (tokens out) .eof = .ok m'
      ∧ m' ≈ᵥ .map m :=
  C02_sym_fixed_point_bytes_tb tokens law dA S1 eA symA rfl (fun _ => S1_lower) rfl
    (fun _ => ⟨S1_float, S1_floatText⟩) .eof [] [] (by simp) _ _ _ _ (by decide) (by decide)
    (by decide) hwn

/-! ### counterexamples: every hypothesis is needed

  Each is `¬ FixedPointAt d S e t` for an in-domain tree `t`, by evaluating the executable
  form `fpCheck` (`fpCheck_iff`). -/

/-- `Sym.txt_not_attr` — the text key must not be an attribute key.  Prefix "#te", text key
    "#text": `<a>hi<b/></a>` decodes to `{"b": "", "#text": "hi"}`; the encoder writes the text
    entry as the ATTRIBUTE `xt="hi"` (and as text), and the child `b` is lost:
    `<a xt="hi">hi</a>`. -/
example :
    let d : DecCfg := { attrPrefix := "#te".toList }
    let e : EncCfg := { attrPrefix := "#te".toList, escape := true }
    let t : Node := .elem [] "a".toList [] [.text "hi".toList, .elem [] "b".toList [] []]
    Conv.inDomain d S1 t = true ∧ NamesOkG d S1 e t = true ∧ ¬ FixedPointAt d S1 e t := by
  refine ⟨by decide, by decide, ?_⟩
  rw [← fpCheck_iff]; decide

/-- `Sym.skip` — no `checkTagToSkip` set.  With the set `{"a"}`, `<a><b/>1.5</a>` decodes the
    (late) text under the text key: `{"b": "", "#text": 1.5}`; re-encoded the text comes first,
    `<a>1.5<b/></a>`, is cast with the element's key "a", skipped, and stays the string "1.5". -/
example :
    let d : DecCfg := { cast := { r := true, skipSet := true, skip := ["a".toList] } }
    let t : Node := .elem [] "a".toList [] [.elem [] "b".toList [] [], .text "1.5".toList]
    Conv.inDomain d S1 t = true ∧ NamesOkG d S1 ec t = true ∧ ¬ FixedPointAt d S1 ec t := by
  refine ⟨by decide, by decide, ?_⟩
  rw [← fpCheck_iff]; decide

/-- `Sym.seq` — tag sequence numbers: `<a><b/></a>` decodes to `{"b": {"_seq": 0, "#text": ""}}`;
    re-encoded, `_seq` is a child element and is numbered itself. -/
example :
    let d : DecCfg := { seqNum := true }
    let t : Node := .elem [] "a".toList [] [.elem [] "b".toList [] []]
    Conv.inDomain d S1 t = true ∧ NamesOkG d S1 ec t = true ∧ ¬ FixedPointAt d S1 ec t := by
  refine ⟨by decide, by decide, ?_⟩
  rw [← fpCheck_iff]; decide

/-- `Sym.esc` — decoder-side escaping: the text `x<y` of `<a>x&lt;y</a>` decodes to "x&lt;y",
    which is written and decoded again as "x&amp;lt;y". -/
example :
    let d : DecCfg := { escDec := true }
    let t : Node := .elem [] "a".toList [] [.text "x<y".toList]
    Conv.inDomain d S1 t = true ∧ NamesOkG d S1 ec t = true ∧ ¬ FixedPointAt d S1 ec t := by
  refine ⟨by decide, by decide, ?_⟩
  rw [← fpCheck_iff]; decide

/-- `Sym.pfx` / `Sym.txt` — the two sides must agree: decoding with prefix "@" and encoding with
    the default "-" turns the attribute into a child element, whose value is then trimmed. -/
example :
    let d : DecCfg := { attrPrefix := "@".toList }
    let t : Node := .elem [] "a".toList [⟨[], "x".toList, " 1 ".toList⟩] []
    Conv.inDomain d S1 t = true ∧ ¬ FixedPointAt d S1 ec t := by
  refine ⟨by decide, ?_⟩
  rw [← fpCheck_iff]; decide
example :
    let d : DecCfg := { textK := "_t".toList, asMap := true }
    let t : Node := .elem [] "a".toList [] [.text "w".toList]
    Conv.inDomain d S1 t = true ∧ NamesOkG d S1 ec t = true ∧ ¬ FixedPointAt d S1 ec t := by
  refine ⟨by decide, by decide, ?_⟩
  rw [← fpCheck_iff]; decide

/-- `NamesOkG`, attributes — an attribute whose (folded) local name is empty decodes to the key
    that is just the prefix, which the encoder takes for a child element; its value is then
    trimmed: `<a ="" 1 "">`-style tree, keep-spaces off.  The same happens for EVERY attribute
    when the prefix is empty (`isAttrK_of_empty_prefix`): -/
example :
    let t : Node := .elem [] "a".toList [⟨[], [], " 1 ".toList⟩] []
    Conv.inDomain { asMap := true } S1 t = true ∧ NamesOkG { asMap := true } S1 ec t = false
      ∧ ¬ FixedPointAt { asMap := true } S1 ec t := by
  refine ⟨by decide, by decide, ?_⟩
  rw [← fpCheck_iff]; decide
example :
    let d : DecCfg := { attrPrefix := [] }
    let e : EncCfg := { attrPrefix := [], escape := true }
    let t : Node := .elem [] "a".toList [⟨[], "x".toList, " 1 ".toList⟩] []
    Conv.inDomain d S1 t = true ∧ NamesOkG d S1 e t = false ∧ ¬ FixedPointAt d S1 e t := by
  refine ⟨by decide, by decide, ?_⟩
  rw [← fpCheck_iff]; decide

/-- `NamesOkG`, elements — a child element whose key properly extends the prefix is taken for an
    attribute by the encoder, which rejects its Map value: `<a><Ax><c/></Ax></a>` with prefix
    "a" and lower-cased keys (the name itself does not begin with the prefix; its key does). -/
example :
    let d : DecCfg := { attrPrefix := "a".toList, lowerCase := true }
    let e : EncCfg := { attrPrefix := "a".toList, escape := true }
    let t : Node := .elem [] "r".toList [] [.elem [] "Ax".toList [] [.elem [] "c".toList [] []]]
    Conv.inDomain d S1 t = true ∧ NamesOkG d S1 e t = false ∧ ¬ FixedPointAt d S1 e t := by
  refine ⟨by decide, by decide, ?_⟩
  rw [← fpCheck_iff]; decide

/-- `Conv.inDomain` (the C01 domain) — a child element whose key is the text key:
    `<a><#text k="1"/></a>` decodes to `{"#text": {"-k": "1"}}`, which the encoder rejects (a Map
    under the text key).  (The other half of the domain, at most one text run per element, is
    what makes `Conv.value` the decoder's result — C01; the proof here does not use it.) -/
example :
    let t : Node := .elem [] "a".toList [] [.elem [] "#text".toList [⟨[], "k".toList, "1".toList⟩] []]
    Conv.inDomain { keepSpace := true } S1 t = false ∧ NamesOkG { keepSpace := true } S1 ec t = true
      ∧ ¬ FixedPointAt { keepSpace := true } S1 ec t := by
  refine ⟨by decide, by decide, ?_⟩
  rw [← fpCheck_iff]; decide

/-- `FoldLaw` / `LowerLaw.idem` — a lower-casing that is not idempotent (here: it prepends "x"):
    `<a/>` decodes to the key "xa", the re-encoded `<xa/>` to "xxa". -/
example :
    let S : Strconv := { S1 with lower := fun s => 'x' :: s }
    let t : Node := .elem [] "a".toList [] []
    Conv.inDomain { lowerCase := true } S t = true ∧ NamesOkG { lowerCase := true } S ec t = true
      ∧ ¬ FixedPointAt { lowerCase := true } S ec t := by
  refine ⟨by decide, by decide, ?_⟩
  rw [← fpCheck_iff]; decide

/-- `LeafLaw` / `FloatLaw.reparse` — a float parser whose `%v` text does not parse back to the
    same float ("1" ↦ 2, "2" ↦ 3): `<a>1</a>` decodes to 2, the re-encoded `<a>2</a>` to 3. -/
example :
    let S : Strconv := { S1 with parseFloat := fun s =>
      if s = "1".toList then some ("f:2".toList, false)
      else if s = "2".toList then some ("f:3".toList, false) else none }
    let t : Node := .elem [] "a".toList [] [.text "1".toList]
    Conv.inDomain { cast := { r := true } } S t = true
      ∧ NamesOkG { cast := { r := true } } S ec t = true
      ∧ ¬ FixedPointAt { cast := { r := true } } S ec t := by
  refine ⟨by decide, by decide, ?_⟩
  rw [← fpCheck_iff]; decide

/-- `toInt_counterexample` — integer casting is asymmetric even for a lawful float parser:
    "1.0" is not an integer, so it is cast to the float 1, written "1", which IS an integer.
    (`S` below satisfies the float laws on these texts: "1.0" ↦ 1, "1" ↦ 1, `%v` text "1".) -/
example :
    let S : Strconv := { S1 with
      parseInt := fun s => if s = "1".toList then some "i:1".toList else none
      parseFloat := fun s =>
        if s = "1.0".toList ∨ s = "1".toList then some ("f:1".toList, false) else none }
    let d : DecCfg := { cast := { r := true, toInt := true } }
    let t : Node := .elem [] "a".toList [] [.text "1.0".toList]
    Conv.inDomain d S t = true ∧ NamesOkG d S ec t = true ∧ ¬ FixedPointAt d S ec t := by
  refine ⟨by decide, by decide, ?_⟩
  rw [← fpCheck_iff]; decide
end Mxj.C02
