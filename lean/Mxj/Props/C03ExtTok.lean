/-
  Mxj.Props.C03ExtTok — C03 at BYTE level, through the executable tokenizer model.

  `Props/C03.lean` says that the encoder's TREE decodes to the declared `image`; "the output is
  well-formed XML" was left to the harness.  Here the sentence is proved for the bytes:

    * `balanced : List Tok → Bool` (Lemmas/EncTok.lean) — a one-pass stack check: start and end
      tags properly nested with matching names, exactly one root element, no character data
      outside it;
    * `C03_tok_balanced`        the token sequence of EVERY element tree is balanced;
    * `C03_tok_well_formed`     for every value `v` of C03's domain (`EncDomain`, `Plain`) that is
                                not a list (a list writes several roots), under a key that is
                                an XML name, with `ValNamed v` (executable predicate of the
                                VALUE): the encoder succeeds with bytes `out`, the tokenizer
                                model ACCEPTS `out`, the tokens are balanced, and the decoder
                                model on those tokens returns a Map equivalent to
                                `{key: image v}`;
    * `C03_tok_well_formed_tree`  the same with `WellNamed` of the encoder's tree as hypothesis;
    * `C03_tok_named_tree`      the bridge `ValNamed v → WellNamed` of every encoder tree;
    * `C03_tok_mapXml_well_formed`, `C03_tok_mapXml_single_well_formed`  the same for
                                `mv.Xml(rootTag)` and for `mv.Xml()` on a one-entry Map;
    * `C03_tok_anyXml_well_formed`  the same for `AnyXml(v, rt, et)` and `anyImage`;
    * `C03_tok_list_not_well_formed`  a witness that "not a list" is needed.

  `ValNamed` (Lemmas/EncTok.lean): element keys are colon-free ASCII XML names, attribute keys
  the prefix "-" plus such a name with scalar values, strings / number texts / text-key texts
  hold only XML characters other than '\r' (numbers and text-key texts non-empty).  The
  `AnyXml` form keeps the tree-level hypotheses (executable on the tree).

  Tie to Go: harness/c03.go compares, for every generated Map, the tokens of `mv.Xml()` as
  `encoding/xml` reports them with the model's (`xtok`) and checks the model's `balanced`
  verdict (`xbal`) against a Go stack check of the `encoding/xml` tokens.
-/
import Mxj.Lemmas.EncTok
import Mxj.Props.C02ExtTok
import Mxj.Props.C03
namespace Mxj.C03
open Mxj Mxj.Enc Mxj.Tokz Mxj.EncTok

/-- the token sequence of every element tree — any names, attributes, depth, kinds of
    children — is balanced -/
theorem C03_tok_balanced (sp name : Str) (attrs : List Attr) (kids : List Node) :
    balanced (flatten (.elem sp name attrs kids)) = true :=
  balanced_flatten_elem sp name attrs kids

/-- two roots are not balanced: `balanced` does check "exactly one root" -/
theorem C03_tok_two_roots_unbalanced (sp nm sp' nm' : Str) (as as' : List Attr)
    (ks ks' : List Node) (rest : List Tok) :
    balanced (flatten (.elem sp nm as ks) ++ flatten (.elem sp' nm' as' ks') ++ rest) = false :=
  balanced_two_roots sp nm sp' nm' as as' ks ks' rest

/-- from a single well-named tree to its bytes, tokens and Map: the tokenizer accepts the
    rendering, the tokens are balanced, and decoding them gives the conventions' document -/
theorem C03_tok_tree (S : Strconv) (fin : StreamEnd) (cfg : EncCfg) (hesc : cfg.escape = true)
    (key : Str) (as : List Attr) (ks : List Node)
    (hW : WellNamed (.elem [] key as ks) = true)
    (hd : Conv.inDomain dc S (.elem [] key as ks) = true) :
    ∃ toks m', tokenize (render cfg (.elem [] key as ks)) = some toks
      ∧ balanced toks = true
      ∧ newMapXml dc S toks fin = .ok m'
      ∧ m' ≈ᵥ siblingsValue dc S [.elem [] key as ks] := by
  have hadj : noAdjText (.elem [] key as ks) = true := by
    unfold WellNamed at hW
    simp only [Bool.and_eq_true] at hW
    exact hW.2
  obtain ⟨m', hm', hme⟩ :=
    C01.C01_decode_conventions dc S fin [] [] (by simp) [] key as ks hd hadj
  refine ⟨flatten (.elem [] key as ks), m', C02.C02_tok_escaped cfg _ hesc hW,
    balanced_flatten_elem _ _ _ _, by simpa using hm', ?_⟩
  rw [siblingsValue_doc]
  exact hme

/-- C03 at byte level.  For every value of the domain of C03 that is not a list and whose
    encoder tree is well-named, with escaping on: `marshal` succeeds with bytes `out`; the
    tokenizer model accepts `out`; the token stream is balanced (well-formed: properly nested
    matching tags, one root); and the decoder model on those tokens returns a Map equivalent to
    `{key: image v}`. -/
theorem C03_tok_well_formed_tree (S : Strconv) (fin : StreamEnd) (key : Str) (v : Val)
    (hdom : EncDomain v = true) (hp : Plain ec v = true) (hnl : v.isList = false)
    (hW : ∀ n, encTree ec key v.norm = .ok [n] → WellNamed n = true) :
    ∃ out toks m', marshal ec key v = .ok out
      ∧ tokenize out = some toks
      ∧ balanced toks = true
      ∧ newMapXml dc S toks fin = .ok m'
      ∧ m' ≈ᵥ imageUnder key v := by
  obtain ⟨ns, hns⟩ := C03_encode_succeeds key v hdom
  obtain ⟨as, ks, rfl⟩ := encTree_single ec key v.norm ns (by rw [isList_norm]; exact hnl) hns
  have hW' := hW _ hns
  have hd : Conv.inDomain dc S (.elem [] key as ks) = true := by
    obtain ⟨_, _, _, h⟩ := encTree_dom S key _ _ hns _ (List.mem_singleton.2 rfl)
    exact h
  obtain ⟨toks, m', ht, hb, hm, he⟩ := C03_tok_tree S fin ec rfl key as ks hW' hd
  refine ⟨render ec (.elem [] key as ks), toks, m', ?_, ht, hb, hm, ?_⟩
  · rw [C02.C02_render_eq_bytes ec key v _ hp hns]
    simp
  · exact Val.equiv_trans he (C03_encode_preserves S key v hdom _ hns)

/-- the bridge from the VALUE to the tree: if the key is an XML name and the value is
    `ValNamed` (Lemmas/EncTok.lean, executable: every element key a colon-free ASCII XML name,
    every attribute key the prefix plus such a name, attribute values scalars, every string /
    number / text-key text made of XML characters other than '\r', numbers and text-key texts
    non-empty), every tree the encoder builds is `WellNamed` -/
theorem C03_tok_named_tree (key : Str) (v : Val) (ns : List Node)
    (hk : xmlNameOk key = true) (hv : ValNamed v = true) (h : encTree ec key v.norm = .ok ns) :
    ∀ n ∈ ns, WellNamed n = true :=
  encTree_norm_wellNamed key v ns hk hv h

/-- C03 at byte level, all hypotheses executable predicates of the KEY and the VALUE: for every
    value of the domain of C03 (`EncDomain`, `Plain`) that is not a list, under a key that is an
    XML name, with `ValNamed v`: the encoder succeeds, the tokenizer model accepts the bytes,
    the token stream is balanced, and the decoder model on those tokens returns a Map
    equivalent to `{key: image v}` -/
theorem C03_tok_well_formed (S : Strconv) (fin : StreamEnd) (key : Str) (v : Val)
    (hdom : EncDomain v = true) (hp : Plain ec v = true) (hnl : v.isList = false)
    (hk : xmlNameOk key = true) (hv : ValNamed v = true) :
    ∃ out toks m', marshal ec key v = .ok out
      ∧ tokenize out = some toks
      ∧ balanced toks = true
      ∧ newMapXml dc S toks fin = .ok m'
      ∧ m' ≈ᵥ imageUnder key v :=
  C03_tok_well_formed_tree S fin key v hdom hp hnl
    (fun n hn => C03_tok_named_tree key v [n] hk hv hn n (List.mem_singleton.2 rfl))

/-- the same for `mv.Xml(rootTag)`: the Map itself under the given root tag -/
theorem C03_tok_mapXml_well_formed (S : Strconv) (fin : StreamEnd) (rt : Str) (m : Entries)
    (hdom : EncDomain (.map m) = true) (hp : Plain ec (.map m) = true)
    (hk : xmlNameOk rt = true) (hv : ValNamed (.map m) = true) :
    ∃ out toks m', mapXml ec m (some rt) = .ok out
      ∧ tokenize out = some toks
      ∧ balanced toks = true
      ∧ newMapXml dc S toks fin = .ok m'
      ∧ m' ≈ᵥ imageUnder rt (.map m) :=
  C03_tok_well_formed S fin rt (.map m) hdom hp rfl hk hv

/-- `mv.Xml()` without a root tag on a Map with a single entry that is not a list: the entry's
    key is the root -/
theorem C03_tok_mapXml_single_well_formed (S : Strconv) (fin : StreamEnd) (k : Str) (v : Val)
    (hdom : EncDomain v = true) (hp : Plain ec v = true) (hnl : v.isList = false)
    (hk : xmlNameOk k = true) (hv : ValNamed v = true) :
    ∃ out toks m', mapXml ec [(k, v)] none = .ok out
      ∧ tokenize out = some toks
      ∧ balanced toks = true
      ∧ newMapXml dc S toks fin = .ok m'
      ∧ m' ≈ᵥ imageUnder k v := by
  have e : mapXml ec [(k, v)] none = marshal ec k v := by
    cases v with
    | list _ => simp [Val.isList] at hnl
    | null | bool _ | num _ | str _ | map _ => rfl
  rw [e]
  exact C03_tok_well_formed S fin k v hdom hp hnl hk hv

/-- the same for `AnyXml(v, rt, et)` whenever its tree is a single well-named element in the
    decoder's domain (it always is one element `rt`; the hypotheses are executable) -/
theorem C03_tok_anyXml_well_formed (S : Strconv) (fin : StreamEnd) (v : Val) (rt et : Str)
    (as : List Attr) (ks : List Node)
    (hwf : v.wf = true) (hp : Plain ec v = true)
    (h : anyTree ec v rt et = .ok [.elem [] rt as ks])
    (hW : WellNamed (.elem [] rt as ks) = true)
    (hd : Conv.inDomain dc S (.elem [] rt as ks) = true) :
    ∃ out toks m', anyXml ec v rt et = .ok out
      ∧ tokenize out = some toks
      ∧ balanced toks = true
      ∧ newMapXml dc S toks fin = .ok m'
      ∧ m' ≈ᵥ .map [(rt, anyImage v et)] := by
  obtain ⟨toks, m', ht, hb, hm, he⟩ := C03_tok_tree S fin ec rfl rt as ks hW hd
  refine ⟨render ec (.elem [] rt as ks), toks, m', ?_, ht, hb, hm, ?_⟩
  · rw [C02.C02_anyXml_eq_render ec v rt et hp, h]
    simp [Except.map]
  · rw [C03_anyXml_preserves S v rt et _ hwf h] at he
    exact he

/-! ### non-vacuity, and the hypotheses are needed -/

/-- the sample of `Props/C03.lean` (attribute, text with '<', a list of maps, empties): its
    tree is well-named, so the theorem applies; the bytes tokenize, balanced -/
example : EncDomain sample = true ∧ Plain ec sample = true ∧ sample.isList = false :=
  ⟨by decide, by rfl, rfl⟩
example : ∃ n, encTree ec "doc".toList sample.norm = .ok [n] ∧ WellNamed n = true :=
  ⟨_, rfl, by decide⟩
example : xmlNameOk "doc".toList = true ∧ ValNamed sample = true := ⟨by decide, by decide⟩
/-- `ValNamed` is needed: '\r' in a string comes back as '\n' (the tokens are not the
    tree's), an empty number text or an empty text-key value gives an empty text node, a key
    with a blank is rejected by the tokenizer -/
example : ValNamed (.str "x\ry".toList) = false := by decide
example : (tokenize "<a>x\ry</a>".toList)
    = some [.start [] "a".toList [], .text "x\ny".toList, .stop [] "a".toList] := by decide
example : ValNamed (.map [("a b".toList, .null)]) = false := by decide
example : ValNamed (.map [("-a b".toList, .str [])]) = false := by decide
example : ((tokenize
    "<doc><item><n>1.5</n></item><item><n>true</n></item><none/><note id=\"7\"> a&lt;b </note><z/></doc>".toList).map
      balanced) = some true := by decide

/-- "not a list" is needed: a two-member list under a key writes two roots — the tokenizer
    accepts the bytes, but the stream is not balanced -/
theorem C03_tok_list_not_well_formed :
    let v := Val.list [.str "x".toList, .str "y".toList]
    marshal ec "a".toList v = .ok "<a>x</a><a>y</a>".toList
      ∧ (tokenize "<a>x</a><a>y</a>".toList).map balanced = some false :=
  ⟨rfl, by decide⟩

/-- `WellNamed` is needed: a key that is not an XML name is written as it is, and the
    tokenizer rejects the bytes -/
example : marshal ec "a b".toList (.str "x".toList) = .ok "<a b>x</a b>".toList := rfl
example : tokenize "<a b>x</a b>".toList = none := by decide

/-- mismatched / unclosed / stray tags are not balanced -/
example : balanced [.start [] "a".toList [], .stop [] "b".toList] = false := by decide
example : balanced [.start [] "a".toList []] = false := by decide
example : balanced [.text "x".toList, .start [] "a".toList [], .stop [] "a".toList] = false := by
  decide
example : balanced [.comment "c".toList, .start [] "a".toList [], .text "x".toList,
    .start [] "b".toList [], .stop [] "b".toList, .stop [] "a".toList] = true := by decide

end Mxj.C03
