/-
  Mxj.Props.C05ExtEnc — "Special characters survive encoding", the ENCODER-level clause at model
  level: with value escaping on (`cfg.escape = true`, XMLEscapeChars(true)) every text and every
  attribute value the Map encoder writes is `escapeChars v` of the value `v` the encoder's tree
  holds at that place, so the tokenizer's entity expansion (`unesc`, C05_unescape_escape) gives
  `v` back and the written value contains no raw `<`, `>`, `"`, `'` and no `&` that does not start
  one of the five predefined entities.

  Shape of the statements.  `escNode n` (Mxj.Lemmas.IndentCor) is the tree `n` with every text
  node and every attribute value replaced by its `escapeChars`; `render { cfg with escape :=
  false }` writes a tree RAW (`C05_enc_raw_text`, `C05_enc_raw_attr`).
    * tree level, every tree:  `render cfg n` = raw rendering of `escNode n`
      (`C05_enc_render_escaped`); `unescNode (escNode n) = some n` (`C05_enc_unescape_tree`);
      the values of `escNode n` are the escaped values of `n`, each unescapes to its original and
      has no raw special (`C05_enc_values_escaped`, `C05_enc_unescape_values`,
      `C05_enc_no_raw_specials`);
    * encoder level: the bytes of `marshal` (compact, `C05_enc_marshal_escaped`) and of
      `mapXmlIndent` (indented, `C05_enc_indent_escaped`) are the raw rendering of the escaped
      tree (resp. escaped layout tree) of `encTree`;
    * which scalar sits where: a string leaf, a string attribute, a string under the text key, a
      text-only element (`C05_enc_string_leaf`, `C05_enc_string_attr`, `C05_enc_string_textkey`,
      `C05_enc_text_only_element`) — bytes and tree side by side.
  Numbers, booleans and `nil` are written with `%v`, unescaped: that is the hypothesis `Plain`
  of the byte-level theorems (counterexample below).
-/
import Mxj.Lemmas.IndentCor
import Mxj.Props.C05
import Mxj.Props.C02
import Mxj.Props.C02ExtIndent
import Mxj.Props.C03
namespace Mxj.C05
open Mxj Mxj.Enc

/-! ### what the canonical rendering writes for a value -/

/-- a text node is written as its escaped text -/
theorem C05_enc_text_written (cfg : EncCfg) (he : cfg.escape = true) (s : Str) :
    render cfg (.text s) = escapeChars s := by
  simp only [render, escIf, he, if_true]

/-- an attribute is written as ` name="escaped value"` -/
theorem C05_enc_attr_written (cfg : EncCfg) (he : cfg.escape = true) (a : Attr) (as : List Attr) :
    renderAttrs cfg (a :: as)
      = " ".toList ++ a.name ++ "=\"".toList ++ escapeChars a.value ++ "\"".toList
          ++ renderAttrs cfg as := by
  simp only [renderAttrs, escIf, he, if_true]

/-- "raw": with the escape flag off a text node is written as it stands … -/
theorem C05_enc_raw_text (cfg : EncCfg) (s : Str) :
    render { cfg with escape := false } (.text s) = s := by
  simp only [render, escIf, Bool.false_eq_true, if_false]

/-- … and so is an attribute value -/
theorem C05_enc_raw_attr (cfg : EncCfg) (a : Attr) (as : List Attr) :
    renderAttrs { cfg with escape := false } (a :: as)
      = " ".toList ++ a.name ++ "=\"".toList ++ a.value ++ "\"".toList
          ++ renderAttrs { cfg with escape := false } as := by
  simp only [renderAttrs, escIf, Bool.false_eq_true, if_false]

/-- every tree: with escaping on, the bytes are the raw rendering of the tree whose every text
    and attribute value has been replaced by its `escapeChars` — "for every node of the tree,
    the bytes written for its value are the escaped value"; markup (names, brackets, quotes,
    the empty-element syntax) is the same -/
theorem C05_enc_render_escaped (cfg : EncCfg) (he : cfg.escape = true) (n : Node) :
    render cfg n = render { cfg with escape := false } (escNode n) :=
  render_escNode cfg he n

/-- the values on the wire are, in document order, the escaped values of the tree -/
theorem C05_enc_values_escaped (n : Node) :
    nodeValues (escNode n) = (nodeValues n).map escapeChars :=
  nodeValues_map escapeChars n

/-- the tokenizer's entity expansion, applied to every attribute value and every text of the
    escaped tree, gives the original tree back: exact value recovery at every node -/
theorem C05_enc_unescape_tree (n : Node) : unescNode (escNode n) = some n := unescNode_esc n

/-- value by value: every written value is `escapeChars v` of a value `v` of the tree, and
    `unesc` of it is `v` -/
theorem C05_enc_unescape_values (n : Node) :
    ∀ w ∈ nodeValues (escNode n), ∃ v ∈ nodeValues n, w = escapeChars v ∧ unesc w = some v := by
  intro w hw
  rw [C05_enc_values_escaped, List.mem_map] at hw
  obtain ⟨v, hv, rfl⟩ := hw
  exact ⟨v, hv, rfl, C05_unescape_escape v⟩

/-- … by position: the i-th written value is the escaped i-th value -/
theorem C05_enc_value_at (n : Node) (i : Nat) (v : Str) (h : (nodeValues n)[i]? = some v) :
    (nodeValues (escNode n))[i]? = some (escapeChars v)
      ∧ unesc (escapeChars v) = some v := by
  refine ⟨?_, C05_unescape_escape v⟩
  rw [C05_enc_values_escaped, List.getElem?_map, h]
  rfl

/-- no written value contains a raw '<', '>', '"' or '\'', and every '&' in it starts one of
    the five predefined entities: the value ends where the markup says it ends -/
theorem C05_enc_no_raw_specials (n : Node) :
    ∀ w ∈ nodeValues (escNode n),
      (∀ c ∈ w, c ≠ '<' ∧ c ≠ '>' ∧ c ≠ '"' ∧ c ≠ '\'')
      ∧ (∀ t, ('&' :: t) <:+ w → ∃ e ∈ entityTexts, e <+: ('&' :: t))
      ∧ ¬ ("]]>".toList <:+: w) := by
  intro w hw
  obtain ⟨v, _, rfl, _⟩ := C05_enc_unescape_values n w hw
  exact ⟨C05_escaped_no_specials v, C05_escaped_amp_is_entity v, C05_escaped_no_cdata_end v⟩

/-! ### the compact encoder -/

/-- `marshalMapToXmlIndent(false, …)` with escaping on: the bytes are the raw rendering of the
    escaped trees of `encTree`, and entity expansion gives those trees back.
    `Plain cfg v`: numbers / `nil` under the text key are written with `%v`, unescaped — the
    hypothesis says their text needs no escaping (counterexample below). -/
theorem C05_enc_marshal_escaped (cfg : EncCfg) (key : Str) (v : Val) (out : Str)
    (he : cfg.escape = true) (hp : Plain cfg v = true) (h : marshal cfg key v = .ok out) :
    ∃ ns, encTree cfg key v.norm = .ok ns
      ∧ out = ns.flatMap (fun n => render { cfg with escape := false } (escNode n))
      ∧ ∀ n ∈ ns, unescNode (escNode n) = some n := by
  obtain ⟨ns, hns, ho⟩ := C02.C02_bytes_eq_render cfg key v out hp h
  refine ⟨ns, hns, ?_, fun n _ => C05_enc_unescape_tree n⟩
  rw [ho]
  congr 1
  funext n
  exact C05_enc_render_escaped cfg he n

/-- the same for `mv.Xml()` when it encodes the whole Map under a root tag -/
theorem C05_enc_mapXml_escaped (cfg : EncCfg) (m : Entries) (rt : Str) (out : Str)
    (he : cfg.escape = true) (hp : Plain cfg (.map m) = true)
    (h : mapXml cfg m (some rt) = .ok out) :
    ∃ ns, encTree cfg rt (Val.map m).norm = .ok ns
      ∧ out = ns.flatMap (fun n => render { cfg with escape := false } (escNode n))
      ∧ ∀ n ∈ ns, unescNode (escNode n) = some n :=
  C05_enc_marshal_escaped cfg rt (.map m) out he hp h

/-! ### which scalar sits where: bytes and tree side by side -/

/-- a non-empty string stored under an element key: `<key>` escaped string `</key>`; the tree
    holds the string itself -/
theorem C05_enc_string_leaf (cfg : EncCfg) (he : cfg.escape = true) (key s : Str) (hs : s ≠ []) :
    marshal cfg key (.str s)
        = .ok ("<".toList ++ key ++ ">".toList ++ escapeChars s ++ closeTag key)
      ∧ encTree cfg key (.str s) = .ok [.elem [] key [] [.text s]]
      ∧ unesc (escapeChars s) = some s := by
  have h1 : s.isEmpty = false := by cases s <;> simp_all
  have h2 : (escapeChars s).isEmpty = false := by rw [escapeChars_isEmpty, h1]
  have h3 : (escapeChars s).length > 0 := by
    cases h : escapeChars s with
    | nil => rw [h] at h2; simp at h2
    | cons _ _ => simp
  refine ⟨?_, ?_, C05_unescape_escape s⟩
  · simp only [marshal, Val.norm, marshalN, escIf, he, if_true, h2, Bool.false_eq_true, if_false,
      endOf, h3, decide_true, Bool.true_or, List.append_assoc]
    have : ¬ (escapeChars s).length = 0 := by omega
    simp [this]
  · simp only [encTree, h1, Bool.false_eq_true, if_false]

/-- a string stored under an attribute key: ` name="` escaped string `"`; the tree holds the
    string itself -/
theorem C05_enc_string_attr (cfg : EncCfg) (he : cfg.escape = true) (k s : Str) :
    attrText cfg k (.str s)
        = .ok (" ".toList ++ k.drop cfg.attrPrefix.length ++ "=\"".toList ++ escapeChars s
                ++ "\"".toList)
      ∧ encAttr cfg k (.str s) = .ok ⟨[], k.drop cfg.attrPrefix.length, s⟩
      ∧ unesc (escapeChars s) = some s := by
  refine ⟨?_, rfl, C05_unescape_escape s⟩
  simp only [attrText, escIf, he, if_true]

/-- a string stored under the text key: written escaped; the tree holds the string itself -/
theorem C05_enc_string_textkey (cfg : EncCfg) (he : cfg.escape = true) (s : Str) :
    textValue cfg (.str s) = some (escapeChars s) ∧ fmtV (.str s) = some s
      ∧ unesc (escapeChars s) = some s := by
  refine ⟨?_, rfl, C05_unescape_escape s⟩
  simp only [textValue, escIf, he, if_true]

/-- a text-only element — a map with attribute entries and a string under the text key, nothing
    else: `<key` attributes `>` escaped string `</key>` -/
theorem C05_enc_text_only_element (cfg : EncCfg) (he : cfg.escape = true) (key s atext : Str)
    (vv : Entries) (ha : attrsText cfg vv = .ok atext)
    (hn : countAttrs cfg vv + 1 = vv.length) (hl : lookup cfg.textK vv = some (.str s)) :
    marshalN cfg key (.map vv)
      = .ok ("<".toList ++ key ++ atext ++ ">".toList ++ escapeChars s ++ closeTag key) := by
  have hne : ¬ countAttrs cfg vv = vv.length := by omega
  simp only [marshalN, ha, hne, if_false, hl, textValue, escIf, he, if_true, hn, endOf]
  simp

/-! ### the indented encoder -/

/-- `Map.XmlIndent` with escaping on (blank / tab prefix and indent): the bytes are the prefix
    and the raw rendering of the ESCAPED layout tree of the one tree `n` the encoder builds;
    entity expansion gives the layout tree back, and the values of the layout tree are the
    values of `n` plus white-space texts (`C02_indent_tokens`) -/
theorem C05_enc_indent_escaped (cfg : EncCfg) (pfx indent : Str) (m : Entries)
    (rootTag : Option Str) (out : Str) (he : cfg.escape = true)
    (hpfx : ∀ c ∈ pfx, c = ' ' ∨ c = '\t') (hind : ∀ c ∈ indent, c = ' ' ∨ c = '\t')
    (hp : Plain cfg (.map m) = true) (hr : Regular cfg (.map m) = true)
    (h : mapXmlIndent cfg pfx indent m rootTag = .ok out) :
    ∃ n, encTree cfg (mapXmlIndentRoot m rootTag).1 (mapXmlIndentRoot m rootTag).2.norm = .ok [n]
      ∧ out = pfx ++ render { cfg with escape := false } (escNode (layI indent 0 pfx n))
      ∧ unescNode (escNode (layI indent 0 pfx n)) = some (layI indent 0 pfx n)
      ∧ (flatten n).Sublist (docToksI pfx indent n) := by
  obtain ⟨n, hn, _, ho, _⟩ := C02.C02_indent_bytes_single cfg pfx indent m rootTag out hp hr h
  obtain ⟨attrs, kids, e⟩ := encTree_single cfg _ _ [n]
    (by rw [isList_norm]; exact mapXmlIndentRoot_not_list m rootTag) hn
  have e' : n = .elem [] (mapXmlIndentRoot m rootTag).1 attrs kids := by simpa using e
  refine ⟨n, hn, ?_, C05_enc_unescape_tree _, C02.C02_indent_tokens_sublist pfx indent n⟩
  rw [ho, e', C02.C02_indent_renderI_eq_render cfg indent 0 pfx (plainText_of_blank cfg indent hind)
    (plainText_of_blank cfg pfx hpfx), C05_enc_render_escaped cfg he]
  simp [nlOf]

/-! ### non-vacuity, and what is NOT escaped -/

/-- the C05 sample string as an attribute value and as element text -/
example :
    marshal ec "e".toList (.map [("-q".toList, .str "a<b & \"c\" 'd' >".toList),
                                  ("#text".toList, .str "a<b & \"c\" 'd' >".toList)])
      = .ok ("<e q=\"a&lt;b &amp; &quot;c&quot; &apos;d&apos; &gt;\">"
              ++ "a&lt;b &amp; &quot;c&quot; &apos;d&apos; &gt;</e>").toList := by rfl

/-- its tree holds the unescaped strings; the escaped tree, written raw, is those bytes -/
example :
    encTree ec "e".toList (Val.map [("-q".toList, .str "a<b & \"c\" 'd' >".toList),
                                    ("#text".toList, .str "a<b & \"c\" 'd' >".toList)]).norm
      = .ok [.elem [] "e".toList [⟨[], "q".toList, "a<b & \"c\" 'd' >".toList⟩]
                [.text "a<b & \"c\" 'd' >".toList]] := by rfl
example :
    render { ec with escape := false }
        (escNode (.elem [] "e".toList [⟨[], "q".toList, "a<b & \"c\" 'd' >".toList⟩]
                [.text "a<b & \"c\" 'd' >".toList]))
      = ("<e q=\"a&lt;b &amp; &quot;c&quot; &apos;d&apos; &gt;\">"
              ++ "a&lt;b &amp; &quot;c&quot; &apos;d&apos; &gt;</e>").toList := by rfl
example :
    nodeValues (.elem [] "e".toList [⟨[], "q".toList, "a<b".toList⟩] [.text "c&d".toList])
      = ["a<b".toList, "c&d".toList] := by rfl

/-- the C03 sample (`note` has an attribute and the text ` a<b `) is in the domain of
    `C05_enc_marshal_escaped` -/
example : ∃ ns, encTree ec "doc".toList C03.sample.norm = .ok ns
    ∧ (ns.flatMap fun n => render { ec with escape := false } (escNode n))
        = "<doc><item><n>1.5</n></item><item><n>true</n></item><none/><note id=\"7\"> a&lt;b </note><z/></doc>".toList
    ∧ ∀ n ∈ ns, unescNode (escNode n) = some n := by
  obtain ⟨ns, h1, h2, h3⟩ := C05_enc_marshal_escaped ec "doc".toList C03.sample _ rfl (by rfl) (by rfl)
  exact ⟨ns, h1, h2.symm, h3⟩

/-- the indented encoder on the same sample -/
example : mapXmlIndent ec [] "  ".toList [("note".toList,
      .map [("-id".toList, .str "\"7\"".toList), ("#text".toList, .str " a<b ".toList),
            ("x".toList, .str "&".toList)])] none
    = .ok "<note id=\"&quot;7&quot;\"> a&lt;b \n  <x>&amp;</x>\n</note>".toList := by rfl

/-- `cfg.escape = true` is needed: with the default (off) nothing is escaped -/
example : marshal {} "a".toList (.str "x<y".toList) = .ok "<a>x<y</a>".toList := by rfl

/-- `Plain` is needed: a number's `%v` text is written raw even with escaping on (real numbers
    never contain a special character; the model's `Val.num` carries an arbitrary text), and so
    is a `nil` under the text key (`<nil>`) -/
example : marshal ec "a".toList (.num "f:1<2".toList) = .ok "<a>1<2</a>".toList := by rfl
example : marshal ec "a".toList (.map [("#text".toList, .null), ("b".toList, .str "x".toList)])
    = .ok "<a><nil><b>x</b></a>".toList := by rfl
example : Plain ec (.num "f:1<2".toList) = false ∧
    Plain ec (.map [("#text".toList, .null), ("b".toList, .str "x".toList)]) = false := by
  constructor <;> rfl

end Mxj.C05
