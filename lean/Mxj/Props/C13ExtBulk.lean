/-
  Mxj.Props.C13ExtBulk — the JSON bulk handler `HandleJsonReader(rdr, mapHandler, errHandler)`
  with BOTH handlers.

  Model: Mxj.Model.Bulk — `BulkRes` (Maps handed to the map handler in order, number of
  error-handler calls, whether an error was returned) and
  `handleJson cont fuel budget sched acc errs`, the Go loop over `getJson` + `newMapJson`:
    * `cont`    the error handler's answer: `false` = the first error is returned
                (`failed = true`), `true` = the loop goes on behind the bytes the failed round
                consumed;
    * `budget`  the map handler returns `false` on its `budget`-th call; `budget = 0` is the
                handler that NEVER stops (`spend`);
    * `fuel`    rounds the model may run; `sched.length + 1` always suffice
                (`C13_bulk_fuel_enough`), running out is reported as `failed = true`.
  Every non-EOF error of a round goes to the error handler: the scanner errors
  `.noClose`/`.stray`/`.ioerr` of `getJson` as well as a scanned object that does not decode.

  Streams are written as in C19: `sepText docs` = each document `d` as the separator text `d.1`
  (any characters except braces and quotes — JSON white space in particular) followed by the
  model's compact encoding of the JSON-shaped Map `d.2`.  A "balanced but invalid" text is a text
  `bad` whose scanner extent is all of it (`getJson (plain bad) {} = (.doc raw, [])`; for texts of
  the generative grammar of C13 this is `C13_getjson_extent`, see `C13_bulk_balanced_extent`)
  and whose scanned form does not decode (`newMapJson raw = none`).

  Helper lemmas live in Mxj.Lemmas.Bulk (namespace `Mxj.Files`).  Property theorems and
  non-vacuity examples only.
-/
import Mxj.Lemmas.Bulk
import Mxj.Props.C13
import Mxj.Props.C19
namespace Mxj.C13
open Mxj Mxj.Stream Mxj.Json Mxj.Files

/-! ### no error: the bulk loop is the file loop -/

/-- on ANY schedule on which the file loop `NewMapsFromJsonFile` ends without error, the bulk
    handler with a map handler that never stops (budget 0) hands over exactly the Maps the file
    loop returns, never calls the error handler and returns no error — for both answers `cont`
    of the error handler -/
theorem C13_bulk_no_error_general (cont : Bool) (f : Nat) (s : Sched) (acc : List Val) (e : Nat)
    (h : (readMapsJson f s acc).failed = false) :
    handleJson cont f 0 s acc e = ⟨(readMapsJson f s acc).maps, e, false⟩ :=
  handleJson_eq_readMapsJson cont f s acc e h

/-- (a) a stream on which every item decodes — JSON-shaped Maps written with the model's encoder,
    separated and followed by arbitrary skippable text: the bulk handler with a map handler that
    never stops hands over exactly the Maps `readMapsJson` returns (which are the normal forms of
    the written Maps, in order), `errs = 0`, `failed = false`; `cont` does not matter -/
theorem C13_bulk_no_error_is_file_loop (cont : Bool) (docs : List (Str × Entries))
    (hlead : ∀ d ∈ docs, ∀ c ∈ d.1, c ≠ '{' ∧ c ≠ '}' ∧ c ≠ '"')
    (hms : ∀ d ∈ docs, JsonShaped (.map d.2) = true)
    (trail : Str) (htrail : ∀ c ∈ trail, c ≠ '{' ∧ c ≠ '}' ∧ c ≠ '"')
    (f : Nat) (hf : docs.length < f) :
    handleJson cont f 0 (plain (sepText docs ++ trail)) [] 0
        = ⟨(readMapsJson f (plain (sepText docs ++ trail)) []).maps, 0, false⟩ ∧
      readMapsJson f (plain (sepText docs ++ trail)) []
        = ⟨docs.map (fun d => Val.norm (.map d.2)), false⟩ := by
  have h := C19.C19_json_file_separated docs hlead hms trail htrail f hf
  exact ⟨handleJson_eq_readMapsJson cont f _ [] 0 (by rw [h]), h⟩

/-- … spelled out: the Maps handed over are the normal forms of the written Maps, in order -/
theorem C13_bulk_no_error_maps (cont : Bool) (docs : List (Str × Entries))
    (hlead : ∀ d ∈ docs, ∀ c ∈ d.1, c ≠ '{' ∧ c ≠ '}' ∧ c ≠ '"')
    (hms : ∀ d ∈ docs, JsonShaped (.map d.2) = true)
    (trail : Str) (htrail : ∀ c ∈ trail, c ≠ '{' ∧ c ≠ '}' ∧ c ≠ '"')
    (f : Nat) (hf : docs.length < f) :
    handleJson cont f 0 (plain (sepText docs ++ trail)) [] 0
      = ⟨docs.map (fun d => Val.norm (.map d.2)), 0, false⟩ := by
  obtain ⟨h1, h2⟩ := C13_bulk_no_error_is_file_loop cont docs hlead hms trail htrail f hf
  rw [h1, h2]

/-- … and for what `Maps.JsonFile` writes (C19): the bulk handler sees every written Map -/
theorem C13_bulk_json_file (cont : Bool) (ms : List Entries)
    (hms : ∀ m ∈ ms, JsonShaped (.map m) = true) (f : Nat) (hf : ms.length < f) :
    handleJson cont f 0 (plain (jsonString (ms.map Val.map))) [] 0
      = ⟨ms.map (fun m => Val.norm (.map m)), 0, false⟩ := by
  have h := C19.C19_json_file ms hms f hf
  rw [handleJson_eq_readMapsJson cont f _ [] 0 (by rw [h]), h]

/-! ### errors -/

/-- a text of the generative grammar of C13 (an object, strings may hold anything) after
    skippable characters is balanced: its scanner extent is the whole text (this is
    `C13_getjson_extent` with nothing behind the object) -/
theorem C13_bulk_balanced_extent (lead : Str) (hlead : ∀ c ∈ lead, c ≠ '{' ∧ c ≠ '}' ∧ c ≠ '"')
    (items : List Item) :
    getJson (plain (lead ++ flat (.obj items))) {} = (.doc (flatNoWs (.obj items)), []) := by
  have h := C13_getjson_extent lead hlead items []
  rwa [List.append_nil, plain_nil] at h

/-- after `k` well-formed documents, a balanced text that does not decode, followed by ANY
    schedule `s`: one error-handler call; with `cont = false` that is the end, with
    `cont = true` the loop resumes exactly behind the closing brace of the bad text (with `s`),
    the Maps of the `k` documents handed over and what is left of the budget -/
theorem C13_bulk_error_resumes (cont : Bool) (docs : List (Str × Entries))
    (hlead : ∀ d ∈ docs, ∀ c ∈ d.1, c ≠ '{' ∧ c ≠ '}' ∧ c ≠ '"')
    (hms : ∀ d ∈ docs, JsonShaped (.map d.2) = true)
    (bad raw : Str) (hext : getJson (plain bad) {} = (.doc raw, []))
    (hbad : newMapJson raw = none) (s : Sched)
    (g b : Nat) (hb : b = 0 ∨ docs.length < b) :
    handleJson cont (docs.length + (g + 1)) b (plain (sepText docs ++ bad) ++ s) [] 0
      = if cont then
          handleJson true g (b - docs.length) s (docs.map (fun d => Val.norm (.map d.2))).reverse 1
        else ⟨docs.map (fun d => Val.norm (.map d.2)), 1, true⟩ := by
  rw [plain_append, List.append_assoc, handleJson_docs cont docs hlead hms (g + 1) b _ [] 0 hb,
    handleJson_bad cont bad raw hext hbad]
  cases cont <;> simp

/-- (b) well-formed documents d1..dk, then a balanced but invalid object text, then anything:
    with an error handler that answers `false` the Maps of d1..dk were handed over, the error
    handler was called once and the error is returned.  (Budget: never stops, or more than k.) -/
theorem C13_bulk_error_stops (docs : List (Str × Entries))
    (hlead : ∀ d ∈ docs, ∀ c ∈ d.1, c ≠ '{' ∧ c ≠ '}' ∧ c ≠ '"')
    (hms : ∀ d ∈ docs, JsonShaped (.map d.2) = true)
    (bad raw : Str) (hext : getJson (plain bad) {} = (.doc raw, []))
    (hbad : newMapJson raw = none) (s : Sched)
    (f b : Nat) (hb : b = 0 ∨ docs.length < b) (hf : docs.length < f) :
    handleJson false f b (plain (sepText docs ++ bad) ++ s) [] 0
      = ⟨docs.map (fun d => Val.norm (.map d.2)), 1, true⟩ := by
  obtain ⟨g, rfl⟩ : ∃ g, f = docs.length + (g + 1) := ⟨f - docs.length - 1, by omega⟩
  rw [C13_bulk_error_resumes false docs hlead hms bad raw hext hbad s g b hb]
  rfl

/-- (c) the same stream continued by well-formed documents e1..em and the end of the stream: with
    an error handler that answers `true` (and a map handler that never stops, or has budget for
    all k + m Maps) the Maps of d1..dk and e1..em were handed over, in order, the error handler
    was called once, and no error is returned -/
theorem C13_bulk_error_continues (docs : List (Str × Entries))
    (hlead : ∀ d ∈ docs, ∀ c ∈ d.1, c ≠ '{' ∧ c ≠ '}' ∧ c ≠ '"')
    (hms : ∀ d ∈ docs, JsonShaped (.map d.2) = true)
    (bad raw : Str) (hext : getJson (plain bad) {} = (.doc raw, []))
    (hbad : newMapJson raw = none)
    (docs2 : List (Str × Entries))
    (hlead2 : ∀ d ∈ docs2, ∀ c ∈ d.1, c ≠ '{' ∧ c ≠ '}' ∧ c ≠ '"')
    (hms2 : ∀ d ∈ docs2, JsonShaped (.map d.2) = true)
    (trail : Str) (htrail : ∀ c ∈ trail, c ≠ '{' ∧ c ≠ '}' ∧ c ≠ '"')
    (f b : Nat) (hb : b = 0 ∨ docs.length + docs2.length < b)
    (hf : docs.length + docs2.length + 1 < f) :
    handleJson true f b (plain (sepText docs ++ bad ++ sepText docs2 ++ trail)) [] 0
      = ⟨docs.map (fun d => Val.norm (.map d.2)) ++ docs2.map (fun d => Val.norm (.map d.2)),
          1, false⟩ := by
  obtain ⟨g, rfl⟩ : ∃ g, f = docs.length + ((docs2.length + (g + 1)) + 1) :=
    ⟨f - docs.length - docs2.length - 2, by omega⟩
  have e1 : plain (sepText docs ++ bad ++ sepText docs2 ++ trail)
      = plain (sepText docs ++ bad) ++ (plain (sepText docs2) ++ plain trail) := by
    simp only [plain_append, List.append_assoc]
  rw [e1, C13_bulk_error_resumes true docs hlead hms bad raw hext hbad _ _ b (by omega),
    if_pos rfl,
    handleJson_docs true docs2 hlead2 hms2 (g + 1) (b - docs.length) _ _ 1 (by omega),
    handleJson_trail true trail htrail]
  simp

/-! ### the map handler says stop -/

/-- (d) with a budget `1 ≤ b ≤ k` the map handler sees exactly the first `b` Maps and nothing
    behind the `b`-th document is looked at: the result is the same whatever schedule `s` follows
    the documents (and only the first `b` documents matter — take `docs` of length `b`; `s` may
    then hold garbage, errors, anything).  No error-handler call, no error; `cont` is
    irrelevant.  Budget 0 is the handler that never stops, hence `1 ≤ b`; in Go the handler
    cannot stop the loop before it has been called once. -/
theorem C13_bulk_handler_stop (cont : Bool) (docs : List (Str × Entries))
    (hlead : ∀ d ∈ docs, ∀ c ∈ d.1, c ≠ '{' ∧ c ≠ '}' ∧ c ≠ '"')
    (hms : ∀ d ∈ docs, JsonShaped (.map d.2) = true)
    (b : Nat) (hb1 : 1 ≤ b) (hb : b ≤ docs.length) (s : Sched) (f : Nat) (hf : b ≤ f) :
    handleJson cont f b (plain (sepText docs) ++ s) [] 0
      = ⟨(docs.take b).map (fun d => Val.norm (.map d.2)), 0, false⟩ := by
  have h := handleJson_stop cont docs hlead hms f b s [] 0 hb1 hb hf
  simpa using h

/-- … explicitly: the rest of the stream and the error handler's answer do not matter -/
theorem C13_bulk_handler_stop_independent (cont cont' : Bool) (docs : List (Str × Entries))
    (hlead : ∀ d ∈ docs, ∀ c ∈ d.1, c ≠ '{' ∧ c ≠ '}' ∧ c ≠ '"')
    (hms : ∀ d ∈ docs, JsonShaped (.map d.2) = true)
    (b : Nat) (hb1 : 1 ≤ b) (hb : b ≤ docs.length) (s s' : Sched) (f : Nat) (hf : b ≤ f) :
    handleJson cont f b (plain (sepText docs) ++ s) [] 0
      = handleJson cont' f b (plain (sepText docs) ++ s') [] 0 := by
  rw [C13_bulk_handler_stop cont docs hlead hms b hb1 hb s f hf,
    C13_bulk_handler_stop cont' docs hlead hms b hb1 hb s' f hf]

/-! ### scanner errors go to the error handler too -/

/-- after `k` well-formed documents, whatever makes the scanner fail — "no closing }", a stray
    closing brace, an I/O error: any result that is neither a document nor io.EOF — is one
    error-handler call; `cont = false` ends the loop with the error, `cont = true` resumes with
    exactly what the scanner left unread -/
theorem C13_bulk_scanner_error (cont : Bool) (docs : List (Str × Entries))
    (hlead : ∀ d ∈ docs, ∀ c ∈ d.1, c ≠ '{' ∧ c ≠ '}' ∧ c ≠ '"')
    (hms : ∀ d ∈ docs, JsonShaped (.map d.2) = true)
    (s rest : Sched) (r : JRes) (h : getJson s {} = (r, rest))
    (hdoc : ∀ raw, r ≠ .doc raw) (heof : ∀ raw, r ≠ .eof raw)
    (g b : Nat) (hb : b = 0 ∨ docs.length < b) :
    handleJson cont (docs.length + (g + 1)) b (plain (sepText docs) ++ s) [] 0
      = if cont then
          handleJson true g (b - docs.length) rest
            (docs.map (fun d => Val.norm (.map d.2))).reverse 1
        else ⟨docs.map (fun d => Val.norm (.map d.2)), 1, true⟩ := by
  rw [handleJson_docs cont docs hlead hms (g + 1) b _ [] 0 hb,
    handleJson_scanErr cont g _ s rest r h hdoc heof]
  cases cont <;> simp

/-- a failing read after `k` documents: reported, and (with `cont = true`) the loop goes on with
    the reads after it -/
theorem C13_bulk_io_error (cont : Bool) (docs : List (Str × Entries))
    (hlead : ∀ d ∈ docs, ∀ c ∈ d.1, c ≠ '{' ∧ c ≠ '}' ∧ c ≠ '"')
    (hms : ∀ d ∈ docs, JsonShaped (.map d.2) = true) (s : Sched)
    (g b : Nat) (hb : b = 0 ∨ docs.length < b) :
    handleJson cont (docs.length + (g + 1)) b (plain (sepText docs) ++ Rd.fail :: s) [] 0
      = if cont then
          handleJson true g (b - docs.length) s
            (docs.map (fun d => Val.norm (.map d.2))).reverse 1
        else ⟨docs.map (fun d => Val.norm (.map d.2)), 1, true⟩ :=
  C13_bulk_scanner_error cont docs hlead hms (Rd.fail :: s) s (.ioerr []) (getJson_fail s {})
    (fun _ => by simp) (fun _ => by simp) g b hb

/-- a stray closing brace after `k` documents: reported, the brace is consumed, and (with
    `cont = true`) the loop goes on right behind it -/
theorem C13_bulk_stray_brace (cont : Bool) (docs : List (Str × Entries))
    (hlead : ∀ d ∈ docs, ∀ c ∈ d.1, c ≠ '{' ∧ c ≠ '}' ∧ c ≠ '"')
    (hms : ∀ d ∈ docs, JsonShaped (.map d.2) = true) (s : Sched)
    (g b : Nat) (hb : b = 0 ∨ docs.length < b) :
    handleJson cont (docs.length + (g + 1)) b
        (plain (sepText docs) ++ Rd.byte '}' false :: s) [] 0
      = if cont then
          handleJson true g (b - docs.length) s
            (docs.map (fun d => Val.norm (.map d.2))).reverse 1
        else ⟨docs.map (fun d => Val.norm (.map d.2)), 1, true⟩ :=
  C13_bulk_scanner_error cont docs hlead hms (Rd.byte '}' false :: s) s (.stray [])
    (by rw [getJson_byte]; rfl) (fun _ => by simp) (fun _ => by simp) g b hb

/-! ### fuel -/

/-- the fuel is only a device of the model: with more fuel than reads in the schedule the result
    does not depend on it (every round that does not end the loop consumes at least one read) -/
theorem C13_bulk_fuel_enough (cont : Bool) (f g b : Nat) (s : Sched) (acc : List Val) (e : Nat)
    (hf : s.length < f) (hg : s.length < g) :
    handleJson cont f b s acc e = handleJson cont g b s acc e :=
  handleJson_fuel cont f g b s acc e hf hg

/-! ### non-vacuity -/

/-- the stream `{"a":1} {"zbad":} {"d":2}` -/
def exBulk : Str := "{\"a\":1} {\"zbad\":} {\"d\":2}".toList

def exD : List (Str × Entries) := [([], [("a".toList, .num "jn:1".toList)])]
def exE : List (Str × Entries) := [([' '], [("d".toList, .num "jn:2".toList)])]
def exBad : Str := " {\"zbad\":}".toList
def exRaw : Str := "{\"zbad\":}".toList

/-- the stream is of the shape of (b) and (c): d1, a balanced text that does not decode, e1 -/
example : sepText exD ++ exBad ++ sepText exE ++ [] = exBulk := by decide +kernel

/-- the hypotheses on the documents hold … -/
theorem C13_bulk_ex_before_ok : (∀ d ∈ exD, ∀ c ∈ d.1, c ≠ '{' ∧ c ≠ '}' ∧ c ≠ '"') ∧
    (∀ d ∈ exD, JsonShaped (.map d.2) = true) := by decide +kernel
theorem C13_bulk_ex_after_ok : (∀ d ∈ exE, ∀ c ∈ d.1, c ≠ '{' ∧ c ≠ '}' ∧ c ≠ '"') ∧
    (∀ d ∈ exE, JsonShaped (.map d.2) = true) := by decide +kernel
theorem C13_bulk_ex_all_ok : (∀ d ∈ exD ++ exE, ∀ c ∈ d.1, c ≠ '{' ∧ c ≠ '}' ∧ c ≠ '"') ∧
    (∀ d ∈ exD ++ exE, JsonShaped (.map d.2) = true) := by decide +kernel

/-- … and those on the bad text: its scanner extent is the whole text, and it does not decode -/
theorem C13_bulk_ex_bad_ok :
    getJson (plain exBad) {} = (.doc exRaw, []) ∧ newMapJson exRaw = none := by
  decide +kernel

/-- the bad text is balanced also in the sense of the grammar of C13 -/
example : exBad = [' '] ++ flat (.obj [.str [.plain 'z' (by decide), .plain 'b' (by decide),
      .plain 'a' (by decide), .plain 'd' (by decide)], .ch ':' (by decide)]) := by decide +kernel

/-- the decodings of d1 and e1 -/
example : exD.map (fun d => Val.norm (.map d.2)) = [.map [("a".toList, .num "jn:1".toList)]] ∧
    exE.map (fun d => Val.norm (.map d.2)) = [.map [("d".toList, .num "jn:2".toList)]] := by
  decide +kernel

/-- (b) by the theorem: `cont = false` -/
example : handleJson false 30 0 (plain (sepText exD ++ exBad) ++ plain (sepText exE)) [] 0
    = ⟨exD.map (fun d => Val.norm (.map d.2)), 1, true⟩ :=
  C13_bulk_error_stops exD C13_bulk_ex_before_ok.1 C13_bulk_ex_before_ok.2
    exBad exRaw C13_bulk_ex_bad_ok.1 C13_bulk_ex_bad_ok.2
    (plain (sepText exE)) 30 0 (Or.inl rfl) (by decide)

/-- (c) by the theorem: `cont = true` -/
example : handleJson true 30 0 (plain (sepText exD ++ exBad ++ sepText exE ++ [])) [] 0
    = ⟨exD.map (fun d => Val.norm (.map d.2)) ++ exE.map (fun d => Val.norm (.map d.2)),
        1, false⟩ :=
  C13_bulk_error_continues exD C13_bulk_ex_before_ok.1 C13_bulk_ex_before_ok.2
    exBad exRaw C13_bulk_ex_bad_ok.1 C13_bulk_ex_bad_ok.2
    exE C13_bulk_ex_after_ok.1 C13_bulk_ex_after_ok.2 [] (by decide) 30 0 (Or.inl rfl) (by decide)

/-- … and by evaluating the model on the bytes, in both modes -/
example : handleJson false 30 0 (plain exBulk) [] 0
    = ⟨[.map [("a".toList, .num "jn:1".toList)]], 1, true⟩ := by decide +kernel

example : handleJson true 30 0 (plain exBulk) [] 0
    = ⟨[.map [("a".toList, .num "jn:1".toList)], .map [("d".toList, .num "jn:2".toList)]],
        1, false⟩ := by decide +kernel

/-- (d): budget 1 on the same stream — the handler sees `{"a":1}` only and the bad text is never
    looked at (no error-handler call) -/
example : handleJson true 30 1 (plain exBulk) [] 0
    = ⟨[.map [("a".toList, .num "jn:1".toList)]], 0, false⟩ := by decide +kernel

example : handleJson false 30 1 (plain (sepText exD) ++ plain (exBad ++ sepText exE)) [] 0
    = ⟨(exD.take 1).map (fun d => Val.norm (.map d.2)), 0, false⟩ :=
  C13_bulk_handler_stop false exD C13_bulk_ex_before_ok.1 C13_bulk_ex_before_ok.2 1 (by decide)
    (by decide) _ 30 (by decide)

/-- budget 2 with `cont = true`: the second Map handed over is the one BEHIND the bad text, and
    the third document is not looked at -/
example : handleJson true 30 2 (plain (exBulk ++ " {\"e\":3}".toList)) [] 0
    = ⟨[.map [("a".toList, .num "jn:1".toList)], .map [("d".toList, .num "jn:2".toList)]],
        1, false⟩ := by decide +kernel

/-- (a) on a stream without errors, both modes, by the theorem -/
example (cont : Bool) : handleJson cont 30 0 (plain (sepText (exD ++ exE) ++ ['\n'])) [] 0
    = ⟨(exD ++ exE).map (fun d => Val.norm (.map d.2)), 0, false⟩ :=
  C13_bulk_no_error_maps cont (exD ++ exE) C13_bulk_ex_all_ok.1 C13_bulk_ex_all_ok.2 ['\n']
    (by decide) 30 (by decide)

/-- scanner errors are counted like decoder errors: a stray brace, the bad object, an object
    that is never closed — three error-handler calls, two Maps, no error returned -/
example : handleJson true 40 0 (plain "{\"a\":1} } {\"zbad\":} {\"d\":2} {".toList) [] 0
    = ⟨[.map [("a".toList, .num "jn:1".toList)], .map [("d".toList, .num "jn:2".toList)]],
        3, false⟩ := by decide +kernel

/-- … and with `cont = false` the first of them ends the loop -/
example : handleJson false 40 0 (plain "{\"a\":1} } {\"zbad\":} {\"d\":2} {".toList) [] 0
    = ⟨[.map [("a".toList, .num "jn:1".toList)]], 1, true⟩ := by decide +kernel

/-- the fuel bound of (b): with exactly `k` rounds the model runs out of fuel before it sees the
    bad text (reported as `failed` with no error-handler call) -/
example : handleJson false 1 0 (plain exBulk) [] 0
    = ⟨[.map [("a".toList, .num "jn:1".toList)]], 0, true⟩ := by decide +kernel

end Mxj.C13
