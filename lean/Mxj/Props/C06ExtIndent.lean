/-
  Mxj.Props.C06ExtIndent — `Map.JsonIndent` inside the proved part of C06: the indented output
  decodes back to the Map, for both encodings and every white-space prefix / indent.

  Model: `Forms.mapJsonIndent safe pfx ind m` (Mxj.Model.Forms: `encNI`, the structural model of
  what `json.Encoder` with `SetIndent(prefix, indent)` writes — `json.Indent` of the compact
  bytes; `JsonIndent("", "")` is the compact form) beside `Json.newMapJson` / `Json.value`
  (Mxj.Model.Json).  Tie: the driver op `jenci` prints `mapJsonIndent` and what `newMapJson` makes
  of it; harness/c06.go compares both byte for byte / value for value with the real
  `Map.JsonIndent(prefix, indent[, safe])` and `NewMapJson` on generated Maps and layouts, and
  evaluates the property's own statement (valid JSON, decodes to a Map deep-equal to the
  original, compacts to the `Json()` bytes, no raw HTML character in safe mode) on the
  implementation.

  Vocabulary (Mxj.Lemmas.JsonIndent, namespace `Mxj.Json`):
    `WsOnly s`   every character of `s` is JSON white space: ' ', '\t', '\r', '\n'
    `NoHtml s`   none of '<', '>', '&' occurs in `s`
  and from Mxj.Lemmas.Json: `JsonShaped`, `sz`, `numEnd` (see Mxj.Props.C06).

  `newMapJson` is unfolded in ONE lemma (`Json.newMapJson_of_brace`: a text starting with '{'
  never takes the array wrapper); nothing here depends on the '['-branch of `newMapJson`.

  Property theorems and non-vacuity examples only.  Not proved here: that deleting the layout
  from the indented bytes gives the compact bytes (checked on the implementation by the harness
  through `json.Compact`); the decoded values are proved equal instead
  (`C06_indent_same_as_compact`).
-/
import Mxj.Lemmas.JsonIndent
import Mxj.Props.C06
namespace Mxj.C06
open Mxj Mxj.Json Mxj.Forms

/-! ### the grammar skips the layout -/

/-- leading JSON white space is invisible to the value grammar -/
theorem C06_indent_leading_ws (f : Nat) (w s : Str) (hw : WsOnly w = true) :
    value f (w ++ s) = value f s :=
  value_ws f w s hw

/-- decoding the INDENTED encoding of a JSON-shaped value returns the value, at every nesting
    depth `d`, for every white-space prefix and indent, both escaping modes, every fuel from
    `sz w` on (the fuel the compact text needs) and any continuation that cannot extend a
    trailing number literal -/
theorem C06_indent_value (html : Bool) (pfx ind : Str) (d : Nat) (w : Val) (rest : Str) (f : Nat)
    (hp : WsOnly pfx = true) (hi : WsOnly ind = true) (hw : JsonShaped w = true)
    (hrest : ∀ t, w = .num t → numEnd rest = true) (hf : sz w ≤ f) :
    value f (encNI html pfx ind d w ++ rest) = some (w, rest) :=
  rtI_value w html pfx ind d rest f hp hi hw hrest hf

/-- … and the compact text read from the same fuel gives the same value and the same rest -/
theorem C06_indent_value_same_as_compact (html : Bool) (pfx ind : Str) (d : Nat) (w : Val)
    (rest : Str) (f : Nat) (hp : WsOnly pfx = true) (hi : WsOnly ind = true)
    (hw : JsonShaped w = true) (hrest : ∀ t, w = .num t → numEnd rest = true) (hf : sz w ≤ f) :
    value f (encNI html pfx ind d w ++ rest) = value f (encN html w ++ rest) := by
  rw [rtI_value w html pfx ind d rest f hp hi hw hrest hf, rt_value w html rest f hw hrest hf]

/-- the decoder's own fuel (length of the indented text + 1) is always enough -/
theorem C06_indent_firstValue (html : Bool) (pfx ind : Str) (d : Nat) (w : Val)
    (hp : WsOnly pfx = true) (hi : WsOnly ind = true) (hw : JsonShaped w = true) :
    firstValue (encNI html pfx ind d w) = some w := by
  have := firstValue_encNI html pfx ind d w hp hi hw [] (fun _ _ => rfl)
  rwa [List.append_nil] at this

/-! ### Map level -/

/-- `NewMapJson (JsonIndent (prefix, indent, safe) m)` is exactly the key-sorted normal form of
    `m`: every JSON-shaped Map, both encodings, every prefix and indent of JSON white space -/
theorem C06_indent_roundtrip_exact (safe : Bool) (pfx ind : Str) (m : Entries)
    (hp : WsOnly pfx = true) (hi : WsOnly ind = true) (hm : JsonShaped (.map m) = true) :
    newMapJson (mapJsonIndent safe pfx ind (.map m)) = some (Val.norm (.map m)) :=
  newMapJson_mapJsonIndent safe pfx ind m hp hi hm

/-- the indented output decodes to the same Map as the compact output -/
theorem C06_indent_same_as_compact (safe : Bool) (pfx ind : Str) (m : Entries)
    (hp : WsOnly pfx = true) (hi : WsOnly ind = true) (hm : JsonShaped (.map m) = true) :
    newMapJson (mapJsonIndent safe pfx ind (.map m)) = newMapJson (mapJson safe (.map m)) := by
  rw [newMapJson_mapJsonIndent safe pfx ind m hp hi hm, C06_roundtrip_exact safe m hm]

/-- hence `NewMapJson (JsonIndent m) = m` up to the order of entries -/
theorem C06_indent_roundtrip (safe : Bool) (pfx ind : Str) (m : Entries)
    (hp : WsOnly pfx = true) (hi : WsOnly ind = true) (hm : JsonShaped (.map m) = true) :
    ∃ r, newMapJson (mapJsonIndent safe pfx ind (.map m)) = some r ∧ r ≈ᵥ .map m :=
  ⟨_, newMapJson_mapJsonIndent safe pfx ind m hp hi hm, norm_idem (.map m) hm⟩

/-- the two escaping modes of `JsonIndent` decode to the same Map -/
theorem C06_indent_modes_agree (pfx ind : Str) (m : Entries)
    (hp : WsOnly pfx = true) (hi : WsOnly ind = true) (hm : JsonShaped (.map m) = true) :
    newMapJson (mapJsonIndent true pfx ind (.map m))
      = newMapJson (mapJsonIndent false pfx ind (.map m)) := by
  rw [newMapJson_mapJsonIndent true pfx ind m hp hi hm,
    newMapJson_mapJsonIndent false pfx ind m hp hi hm]

/-- `JsonIndent("", "", safe)` returns the bytes of `Json(safe)` (the encoder indents only when
    prefix or indent is non-empty) -/
theorem C06_indent_empty_layout_is_compact (safe : Bool) (m : Val) :
    mapJsonIndent safe [] [] m = mapJson safe m := rfl

/-! ### safe mode -/

/-- the safe indented output contains no raw '<', '>', '&' — for every JSON-shaped Map and every
    prefix / indent that has none itself -/
theorem C06_indent_safe_has_no_html_of (pfx ind : Str) (m : Entries) (hp : NoHtml pfx)
    (hi : NoHtml ind) (hm : JsonShaped (.map m) = true) :
    ∀ c ∈ mapJsonIndent true pfx ind (.map m), c ≠ '<' ∧ c ≠ '>' ∧ c ≠ '&' :=
  noHtml_mapJsonIndent pfx ind (.map m) hp hi hm

/-- … in particular for white-space prefix and indent -/
theorem C06_indent_safe_has_no_html (pfx ind : Str) (m : Entries) (hp : WsOnly pfx = true)
    (hi : WsOnly ind = true) (hm : JsonShaped (.map m) = true) :
    ∀ c ∈ mapJsonIndent true pfx ind (.map m), c ≠ '<' ∧ c ≠ '>' ∧ c ≠ '&' :=
  noHtml_mapJsonIndent pfx ind (.map m) (noHtml_of_wsOnly pfx hp) (noHtml_of_wsOnly ind hi) hm

/-- the compact safe output has none either (whole Maps, not only string literals) -/
theorem C06_indent_compact_safe_has_no_html (m : Entries) (hm : JsonShaped (.map m) = true) :
    ∀ c ∈ mapJson true (.map m), c ≠ '<' ∧ c ≠ '>' ∧ c ≠ '&' :=
  noHtml_encN _ (jsonShaped_norm _ hm)

/-- `JsonShaped` (well-formed number literals) cannot be dropped there: the model writes a
    number's text as it is -/
example : '<' ∈ mapJsonIndent true [] " ".toList (.map [("a".toList, .num "jn:<".toList)]) := by
  decide

/-! ### the white-space hypothesis is needed -/

/-- a prefix that is not white space ("x") makes the output undecodable; so does such an indent;
    and in safe mode a prefix with an HTML character puts it into the output -/
theorem C06_indent_ws_needed_witness :
    newMapJson (mapJsonIndent false "x".toList [] (.map [("a".toList, .null)])) = none ∧
    newMapJson (mapJsonIndent false [] "x".toList (.map [("a".toList, .null)])) = none ∧
    newMapJson (mapJsonIndent false " ".toList "\t".toList (.map [("a".toList, .null)]))
      = some (.map [("a".toList, .null)]) ∧
    '<' ∈ mapJsonIndent true "<".toList [] (.map [("a".toList, .null)]) := by decide

/-- what the encoder wrote for the first of them -/
example : mapJsonIndent false "x".toList [] (.map [("a".toList, .null)])
    = "{\nx\"a\": null\nx}".toList := by decide

/-- with an EMPTY Map the layout is never written, so even that prefix is harmless -/
example : newMapJson (mapJsonIndent false "x".toList "y".toList (.map [])) = some (.map []) := by
  decide

/-! ### non-vacuity -/

example : WsOnly " \t".toList = true ∧ WsOnly "\r\n  ".toList = true ∧ WsOnly [] = true
    ∧ WsOnly "x".toList = false ∧ WsOnly [Char.ofNat 0xA0] = false := by decide

/-- the hostile Map of Mxj.Props.C06 (`exMap`: quotes, backslashes, control and HTML characters,
    U+2028, a non-BMP character, the rewrite witness, numbers, empty and nested containers, keys
    out of order), prefix " ", indent "\t" : the hypotheses hold, the indented text differs from
    the compact one, and it decodes to the normal form — evaluated, not only proved -/
example : JsonShaped (.map exMap) = true ∧ WsOnly " ".toList = true ∧ WsOnly "\t".toList = true := by
  decide
example : mapJsonIndent false " ".toList "\t".toList (.map exMap) ≠ mapJson false (.map exMap) := by
  decide
example : newMapJson (mapJsonIndent true " ".toList "\t".toList (.map exMap))
    = some (Val.norm (.map exMap)) := by decide +kernel
example : newMapJson (mapJsonIndent false "\r\n".toList "  ".toList (.map exMap))
    = some (Val.norm (.map exMap)) := by decide +kernel
example : ∃ r, newMapJson (mapJsonIndent false " ".toList "\t".toList (.map exMap)) = some r
    ∧ r ≈ᵥ .map exMap :=
  C06_indent_roundtrip false _ _ exMap (by decide) (by decide) (by decide)

/-- the shape of the text: members on their own lines, `: ` after keys, `{}` / `[]` kept, the
    first line carries no prefix -/
example : mapJsonIndent true "\t".toList "  ".toList
      (.map [("b".toList, .list [.map [], .list [], .num "jn:1".toList]), ("a".toList, .str "<".toList)])
    = ("{\n\t  \"a\": \"\\" ++ "u003c\",\n\t  \"b\": [\n\t    {},\n\t    [],\n\t    1\n\t  ]\n\t}").toList := by
  decide

end Mxj.C06
