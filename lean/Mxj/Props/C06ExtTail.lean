/-
  Mxj.Props.C06ExtTail — "what follows the first value is not looked at", for EVERY text.

  `C06_trailing_ignored_partial` (Props/C06.lean) carried the hypothesis
  `firstValue (s ++ t) = firstValue s` and discharged it for encoder output only.  This file
  proves the missing grammar lemma — PREFIX STABILITY of the model parser of Mxj.Model.Json
  (`value`/`elements`/`members`, the string reader `strBody`, the number reader `numberLit`,
  white space, `hex4`; induction on the fuel in Mxj.Lemmas.JsonTail) — and with it
  `C06_trailing_ignored`, which SUPERSEDES the partial theorem (kept, and used below): no
  hypothesis on the tail is left.

  Vocabulary (Mxj.Lemmas.JsonTail and Mxj.Lemmas.Json, namespace `Mxj.Json`):
    `numEnd t`        `t` is empty or starts with no digit, '.', 'e', 'E'
    `tailOk r t`      the rest `r` of a number is not empty, or `numEnd t`
    `numTail v r t`   `tailOk r t` when `v` is a number, nothing otherwise
    `isNumVal v`      `v` is a number
  The one token a tail can extend is a number literal that ends exactly where the text ends
  ("12" ++ "3", "1" ++ "e5"); a number followed by anything (white space, ',', ']', '}' — every
  number inside an array or object) is shielded by what follows it.  `true`/`false`/`null`,
  strings, arrays and objects end with their own last character.
-/
import Mxj.Lemmas.JsonTail
import Mxj.Props.C06
namespace Mxj.C06
open Mxj Mxj.Json

/-! ### the lexical readers -/

/-- white space: once a non-white-space character is found, the tail is appended to the rest -/
theorem C06_skipWs_prefix_stable (s t : Str) (h : skipWs s ≠ []) :
    skipWs (s ++ t) = skipWs s ++ t := skipWs_append s t h

/-- four hex digits -/
theorem C06_hex4_prefix_stable (s t : Str) (n : Nat) (r : Str) (h : hex4 s = some (n, r)) :
    hex4 (s ++ t) = some (n, r ++ t) := hex4_append s t n r h

/-- the string-literal reader: a literal closed inside `s` is read unchanged from `s ++ t`, with
    every fuel from the one that sufficed on (escapes, \u sequences and surrogate pairs
    included) -/
theorem C06_string_prefix_stable (n : Nat) (s acc k r : Str) (h : strBody n s acc = some (k, r))
    (m : Nat) (hm : n ≤ m) (t : Str) : strBody m (s ++ t) acc = some (k, r ++ t) :=
  strBody_append n s acc k r h m hm t

/-- the number reader: unchanged when the rest is not empty, or the tail cannot extend it -/
theorem C06_number_prefix_stable (x t lit r : Str) (h : tailOk r t = true)
    (hx : numberLit x = some (lit, r)) : numberLit (x ++ t) = some (lit, r ++ t) :=
  numberLit_tail x t lit r h hx

/-- the side condition is needed: a digit, an exponent -/
theorem C06_number_tail_needed_witness :
    numberLit "12".toList = some ("12".toList, []) ∧
    numberLit ("12".toList ++ "3".toList) = some ("123".toList, []) ∧
    numberLit ("1".toList ++ "e5".toList) = some ("1e5".toList, []) ∧
    numberLit ("1".toList ++ "e".toList) = none ∧
    numberLit ("1".toList ++ ".".toList) = none := by decide

/-! ### the grammar -/

/-- PREFIX STABILITY of `value`: if `value f s` reads `v` and leaves `r`, then for every tail
    `t` and every fuel `m ≥ f`, `value m (s ++ t)` reads the same `v` and leaves `r ++ t` —
    provided `v` is not a number that ends where `s` ends and that `t` could extend -/
theorem C06_value_prefix_stable (f : Nat) (s : Str) (v : Val) (r : Str)
    (h : value f s = some (v, r)) (m : Nat) (hm : f ≤ m) (t : Str)
    (ht : numTail v r t = true) : value m (s ++ t) = some (v, r ++ t) :=
  value_append f s v r h m hm t ht

/-- … of `elements` (the inside of an array): no side condition -/
theorem C06_elements_prefix_stable (f : Nat) (s : Str) (acc : List Val) (v : Val) (r : Str)
    (h : elements f s acc = some (v, r)) (m : Nat) (hm : f ≤ m) (t : Str) :
    elements m (s ++ t) acc = some (v, r ++ t) := elements_append f s acc v r h m hm t

/-- … of `members` (the inside of an object): no side condition -/
theorem C06_members_prefix_stable (f : Nat) (s : Str) (acc : Entries) (v : Val) (r : Str)
    (h : members f s acc = some (v, r)) (m : Nat) (hm : f ≤ m) (t : Str) :
    members m (s ++ t) acc = some (v, r ++ t) := members_append f s acc v r h m hm t

/-- fuel monotonicity: more fuel never changes a result -/
theorem C06_value_fuel_mono (f : Nat) (s : Str) (v : Val) (r : Str)
    (h : value f s = some (v, r)) (m : Nat) (hm : f ≤ m) : value m s = some (v, r) :=
  value_mono f s v r h m hm

/-! ### the first value -/

/-- a first value that is not a number (object, array, string, `true`, `false`, `null`) is the
    first value of EVERY extension of the text -/
theorem C06_first_value_prefix_stable (s t : Str) (v : Val) (h : firstValue s = some v)
    (hv : isNumVal v = false) : firstValue (s ++ t) = firstValue s := by
  apply firstValue_append_of s t
  · intro v1 r hs
    have : v1 = v := by
      simp only [firstValue, hs, Option.map_some, Option.some.injEq] at h; exact h
    rw [this]; exact numTail_of_not_num v r t hv
  · rw [h]; rfl

/-- any first value, a number included, when the tail cannot extend a number -/
theorem C06_first_value_prefix_stable_numEnd (s t : Str) (h : (firstValue s).isSome = true)
    (ht : numEnd t = true) : firstValue (s ++ t) = firstValue s :=
  firstValue_append_of s t (fun v r _ => numTail_of_numEnd v r t ht) h

/-- both conditions are needed together: a number at the end of the text is extended by a digit
    or an exponent, and a text without a first value can get one from the tail -/
theorem C06_first_value_tail_needed_witness :
    firstValue "12".toList = some (.num "jn:12".toList) ∧
    firstValue ("12".toList ++ "3".toList) = some (.num "jn:123".toList) ∧
    firstValue (" 1".toList ++ "e5".toList) = some (.num "jn:1e5".toList) ∧
    firstValue ("1".toList ++ "e".toList) = none ∧
    firstValue "[1,2".toList = none ∧
    firstValue ("[1,2".toList ++ "]".toList)
      = some (.list [.num "jn:1".toList, .num "jn:2".toList]) ∧
    firstValue "tru".toList = none ∧
    firstValue ("tru".toList ++ "e".toList) = some (.bool true) := by decide +kernel

/-! ### NewMapJson -/

/-- TRAILING BYTES ARE IGNORED: for every non-empty text `s` that `NewMapJson` accepts (its first
    value is an object, an array or `null` — F-JSON-NULL) and EVERY tail `t`,
    `NewMapJson (s ++ t) = NewMapJson s`.  Leading white space, nested numbers, escapes: nothing
    is excluded.  Supersedes `C06_trailing_ignored_partial`, whose hypothesis is discharged. -/
theorem C06_trailing_ignored (s t : Str) (hs : s ≠ []) (h : (newMapJson s).isSome = true) :
    newMapJson (s ++ t) = newMapJson s := by
  obtain ⟨v, hv, hn⟩ := newMapJson_accepts_not_num s hs h
  exact C06_trailing_ignored_partial s t hs (C06_first_value_prefix_stable s t v hv hn)

/-- the same for every text with a first value that is not a number, accepted or refused: a
    string or a boolean in front is refused whatever follows -/
theorem C06_trailing_ignored_first_value (s t : Str) (hs : s ≠ []) (v : Val)
    (hv : firstValue s = some v) (hn : isNumVal v = false) :
    newMapJson (s ++ t) = newMapJson s :=
  C06_trailing_ignored_partial s t hs (C06_first_value_prefix_stable s t v hv hn)

/-- a number in front is refused whatever follows, although the tail may change WHICH number -/
theorem C06_number_refused_any_tail (s t : Str) (hs : s ≠ []) (lit : Str)
    (hv : firstValue s = some (.num lit)) (ht : numEnd t = true) :
    newMapJson (s ++ t) = none := by
  rw [C06_trailing_ignored_partial s t hs
    (C06_first_value_prefix_stable_numEnd s t (by rw [hv]; rfl) ht), newMapJson_spec s hs, hv]

/-- an accepted text stays accepted, with the same result, under every tail — and the result is
    still described by `C06_first_value_spec`'s cases -/
theorem C06_accepted_stays_accepted (s t : Str) (hs : s ≠ [])
    (h : (newMapJson s).isSome = true) : (newMapJson (s ++ t)).isSome = true := by
  rw [C06_trailing_ignored s t hs h]; exact h

/-- both hypotheses of `C06_trailing_ignored` are needed: the empty text is the empty Map and a
    tail is then the whole input; a refused text (unclosed array, white space only) can be
    completed by the tail -/
theorem C06_trailing_hyps_needed_witness :
    newMapJson [] = some (.map []) ∧
    newMapJson ([] ++ "[1]".toList) = some (.map [(objKey, .list [.num "jn:1".toList])]) ∧
    newMapJson "[1,2".toList = none ∧
    newMapJson ("[1,2".toList ++ "]".toList)
      = some (.map [(objKey, .list [.num "jn:1".toList, .num "jn:2".toList])]) ∧
    newMapJson " ".toList = none ∧
    newMapJson (" ".toList ++ "{}".toList) = some (.map []) := by decide +kernel

/-! ### non-vacuity: the hypotheses hold on non-trivial texts, and the conclusions compute -/

/-- leading white space, a nested object with escapes and numbers right before the brackets,
    followed by bytes that would extend the last number if it were exposed -/
example : (newMapJson " {\"a\\u00e9\":[1,2.5e3,{\"b\":null}],\"c\":-0}".toList).isSome = true := by
  decide +kernel
example : newMapJson (" {\"a\":[1,2]}".toList ++ "345e1 ]}".toList)
    = some (.map [("a".toList, .list [.num "jn:1".toList, .num "jn:2".toList])]) := by
  decide +kernel
example : newMapJson ("\n[1,2]".toList ++ "3".toList)
    = some (.map [(objKey, .list [.num "jn:1".toList, .num "jn:2".toList])]) := by
  decide +kernel
/-- F-JSON-NULL with a tail: `null` is accepted (a nil Map), whatever follows -/
example : (newMapJson "null".toList).isSome = true ∧
    newMapJson ("null".toList ++ "x".toList) = some .null := by decide +kernel
/-- a number inside is shielded by the bracket, a number in front is not -/
example : numTail (.num "jn:2".toList) "]".toList "3".toList = true ∧
    numTail (.num "jn:2".toList) [] "3".toList = false ∧
    numTail (.list []) [] "3".toList = true := by decide
example : value 3 " [ ]".toList = some (.list [], []) ∧
    value 9 (" [ ]".toList ++ "]".toList) = some (.list [], "]".toList) := by decide +kernel

end Mxj.C06
