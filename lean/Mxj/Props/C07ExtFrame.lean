/-
  Mxj.Props.C07ExtFrame — frame of C07's API over the package-level state, on facts regenerated from
  /repo's current source on every run: the path queries read the field separator and the initial result capacity only (no decoder, encoder or leaf option);
  and none of them (nor any function they can reach) assigns a package-level variable, so what they
  return is a function of their arguments and of exactly those options - no hidden state carried
  from one call to the next.
-/
import Mxj.Lemmas.Facts
namespace Mxj.C07
open Mxj

/-- the option variables C07's functions may read -/
def frameAllowed : List String := ["PathNotExistError", "defaultArraySize", "fieldSep"]

theorem C07_frame_reads (root g v : String) (hr : root ∈ Generated.c07FrameRoots)
    (h : Facts.Reach root g) (hv : v ∈ Facts.readsOf g) : v ∈ frameAllowed := by
  have hc : Facts.closed Generated.c07FrameRootsClosure = true := by decide
  have ho : Facts.onlyReads Generated.c07FrameRootsClosure frameAllowed = true := by decide
  have hin := Facts.mem_of_all_contains' Generated.c07FrameRoots Generated.c07FrameRootsClosure
    (by decide) root hr
  exact Facts.reads_subset_of_cert _ _ hc ho root g v hin h hv

theorem C07_frame_no_hidden_state (root g : String) (hr : root ∈ Generated.c07FrameRoots)
    (h : Facts.Reach root g) : Facts.writesOf g = [] := by
  have hc : Facts.closed Generated.c07FrameRootsClosure = true := by decide
  have hn : Facts.noneWrites Generated.c07FrameRootsClosure = true := by decide
  have hin := Facts.mem_of_all_contains' Generated.c07FrameRoots Generated.c07FrameRootsClosure
    (by decide) root hr
  exact Facts.not_writes_of_cert _ hc hn root g hin h

/-- the statements are not vacuous: the API group is present in the source -/
theorem C07_frame_roots_present : Generated.c07FrameRoots.length ≥ 1 := by decide

end Mxj.C07
