/-
  Mxj.Props.C08ExtPerm — C08 quantifies over every hash-iteration order of every Go map.  In the
  model a map is an association list and the iteration order is the entry order; `ValPerm m m'`
  says m' is m with the entries of EVERY map (at every depth) permuted.  ValuesForKey's answers on
  m' are a permutation of its answers on m (each answer compared up to `ValPerm`, since an answer
  is a sub-tree whose own maps are permuted too); PathsForKey returns the same SET of paths.
-/
import Mxj.Lemmas.PermKey
namespace Mxj.C08
open Mxj

/-- ValuesForKey's collector: on well-formed values the answers do not depend on map iteration
    order, up to a permutation of the answer list — for every key and sub-key condition -/
theorem C08_perm_hasKey (key : Str) (subs : SubKeys) (m m' : Val)
    (hw : m.wf = true) (h : ValPerm m m') : PermR (hasKey key subs m) (hasKey key subs m') :=
  hasKey_valperm key subs hw h

/-- the number of values never depends on the iteration order -/
theorem C08_perm_hasKey_length (key : Str) (subs : SubKeys) (m m' : Val)
    (hw : m.wf = true) (h : ValPerm m m') :
    (hasKey key subs m).length = (hasKey key subs m').length :=
  (hasKey_valperm key subs hw h).length

/-- `ValuesForKey` itself (sub-key arguments parsed first; the parse does not look at the map) -/
theorem C08_perm_valuesForKey (fieldSep : Str) (pf : Str → Option Str) (key : Str)
    (subkeys : List Str) (m m' : Val) (hw : m.wf = true) (h : ValPerm m m') :
    (∃ e, valuesForKey fieldSep pf m key subkeys = .error e
        ∧ valuesForKey fieldSep pf m' key subkeys = .error e)
    ∨ ∃ vs vs', valuesForKey fieldSep pf m key subkeys = .ok vs
        ∧ valuesForKey fieldSep pf m' key subkeys = .ok vs' ∧ PermR vs vs' := by
  unfold valuesForKey
  cases subKeyArg fieldSep pf subkeys with
  | error e => exact .inl ⟨e, rfl, rfl⟩
  | ok subs => exact .inr ⟨_, _, rfl, rfl, hasKey_valperm key _ hw h⟩

/-- PathsForKey: the same set of paths, whatever the iteration order -/
theorem C08_perm_pathsForKey (key : Str) (m m' : Val) (hw : m.wf = true) (h : ValPerm m m') :
    ∀ p, p ∈ pathsForKey m key ↔ p ∈ pathsForKey m' key := by
  intro p
  unfold pathsForKey
  rw [List.mem_eraseDups, List.mem_eraseDups]
  exact hasKeyPath_valperm key [] p hw h

/-! ### a non-trivial pair, and why `PermR` and not equality -/

private def s (x : String) : Str := x.toList
private def mA : Val := .map [(s "a", .map [(s "x", .str (s "1")), (s "y", .str (s "2"))]),
                              (s "b", .list [.map [(s "x", .num (s "i:1")), (s "q", .null)]])]
/-- the same Go value ranged over in another order, at both depths -/
private def mB : Val := .map [(s "b", .list [.map [(s "q", .null), (s "x", .num (s "i:1"))]]),
                              (s "a", .map [(s "y", .str (s "2")), (s "x", .str (s "1"))])]

example : mA.wf = true := by decide

private theorem mAB : ValPerm mA mB :=
  .map (mid := [(s "b", .list [.map [(s "x", .num (s "i:1")), (s "q", .null)]]),
                (s "a", .map [(s "x", .str (s "1")), (s "y", .str (s "2"))])])
    (List.Perm.swap _ _ _)
    (.cons _ (.list (.cons (.map (List.Perm.swap _ _ _)
        (.cons _ (.refl _) (.cons _ (.refl _) .nil))) .nil))
      (.cons _ (.map (List.Perm.swap _ _ _) (.cons _ (.refl _) (.cons _ (.refl _) .nil))) .nil))

/-- the ORDER of the values for key "x" does change: equality would be false -/
example : hasKey (s "x") [] mA = [.str (s "1"), .num (s "i:1")]
    ∧ hasKey (s "x") [] mB = [.num (s "i:1"), .str (s "1")] := by
  constructor <;> decide

example : PermR (hasKey (s "x") [] mA) (hasKey (s "x") [] mB) :=
  C08_perm_hasKey _ _ _ _ (by decide) mAB

example : ∀ p, p ∈ pathsForKey mA (s "x") ↔ p ∈ pathsForKey mB (s "x") :=
  C08_perm_pathsForKey _ _ _ (by decide) mAB

end Mxj.C08
