/-
  Mxj.Props.C08 — ValuesForKey / PathsForKey / PathForKeyShortest and the sub-key predicate
  against their specifications.  Property theorems only; helper lemmas live in
  Mxj.Lemmas.Key.

  Model: Mxj.Model.Path (hasSubKeys, hasKey, hasKeyPath, pathsForKey, shortestOf).
  Specification: Mxj.Model.KeySpec (subPred, valuesForKey, pathsForKey), written
  independently of the model.
-/
import Mxj.Lemmas.Key
namespace Mxj.C08
open Mxj

/-- the implementation's sub-key test is the documented predicate -/
theorem C08_subpred_doc (v : Val) (subs : SubKeys) : hasSubKeys v subs = KeySpec.subPred subs v :=
  hasSubKeys_eq_subPred v subs

/-- sub-keys only filter: the result with conditions is the unfiltered result, filtered -/
theorem C08_filter (key : Str) (subs : SubKeys) (m : Val) :
    hasKey key subs m = (hasKey key [] m).filter (fun v => hasSubKeys v subs) :=
  hasKey_filter key subs m

/-- ValuesForKey returns exactly the values stored under the key at any depth — in this
    model even in the same order (the model iterates a map in association-list order, the
    specification in pre-order over the same association lists). -/
theorem C08_values_spec_eq (key : Str) (subs : SubKeys) (m : Val) (hwf : m.wf = true)
    (hstar : key = ['*'] → KeySpec.noStarKey m = true) :
    hasKey key subs m = KeySpec.valuesForKey key subs m := by
  rw [C08_filter, hasKey_eq_nodes key m hwf hstar]
  unfold KeySpec.valuesForKey KeySpec.allUnder
  congr 1
  funext v
  exact C08_subpred_doc v subs

/-- ValuesForKey returns exactly (as a multiset) the values stored under the key at any depth -/
theorem C08_values_spec (key : Str) (subs : SubKeys) (m : Val) (hwf : m.wf = true)
    (hstar : key = ['*'] → KeySpec.noStarKey m = true) :
    List.Perm (hasKey key subs m) (KeySpec.valuesForKey key subs m) := by
  rw [C08_values_spec_eq key subs m hwf hstar]

/-- PathsForKey returns exactly the distinct dot-paths ending in the key (as a set; both sides
    duplicate-free) -/
theorem C08_paths_spec (m : Val) (key : Str) (hs : KeySpec.pathSafe m = true) :
    (∀ p, p ∈ pathsForKey m key ↔ p ∈ KeySpec.pathsForKey m key)
    ∧ (pathsForKey m key).Nodup ∧ (KeySpec.pathsForKey m key).Nodup := by
  refine ⟨?_, nodup_eraseDups _, nodup_eraseDups _⟩
  intro p
  unfold pathsForKey KeySpec.pathsForKey
  have h := mem_hasKeyPath key m [] (by simp) hs p
  simp only [List.nil_append] at h
  have hj : joinDot [] = ([] : Str) := rfl
  rw [hj] at h
  simp only [List.mem_eraseDups, h, List.mem_map, List.mem_filter, decide_eq_true_eq]
  constructor
  · rintro ⟨q, h1, h2, h3⟩; exact ⟨q, ⟨h1, h2⟩, h3.symm⟩
  · rintro ⟨q, ⟨h1, h2⟩, h3⟩; exact ⟨q, h1, h2, h3.symm⟩

/-- PathForKeyShortest's scan returns a member of minimal segment count, whatever the order -/
theorem C08_shortest (ps : List Str) (h : ps ≠ []) :
    shortestOf ps ∈ ps ∧ ∀ q ∈ ps, segCount (shortestOf ps) ≤ segCount q := by
  cases ps with
  | nil => exact absurd rfl h
  | cons p ps =>
    obtain ⟨h1, h2, h3⟩ := shortest_fold ps p
    simp only [shortestOf]
    refine ⟨?_, ?_⟩
    · cases h1 with
      | inl h => simp [h]
      | inr h => simp [h]
    · intro q hq
      simp only [List.mem_cons] at hq
      cases hq with
      | inl h => subst h; exact h2
      | inr h => exact h3 q h

/-- the values found through the paths are exactly the values ValuesForKey returns -/
theorem C08_paths_values (m : Val) (key : Str) (hwf : m.wf = true) (hs : KeySpec.pathSafe m = true)
    (hn : Denote.noListInList m = true) (hk : KeySpec.keySafe key = true) :
    List.Perm ((pathsForKey m key).flatMap fun p => oldValues none m p) (hasKey key [] m) :=
  paths_values_perm m key hwf hs hn hk

/-! ### the hypotheses are satisfiable on a non-trivial Map -/

/-- `{"a": [ {"k": 1}, {"k": 2, "b": "x"} ], "k": "top"}` -/
def sample : Val :=
  .map [(['a'], .list [.map [(['k'], .num ['1'])],
                       .map [(['k'], .num ['2']), (['b'], .str ['x'])]]),
        (['k'], .str ['t', 'o', 'p'])]

example : sample.wf = true ∧ KeySpec.pathSafe sample = true ∧ KeySpec.noStarKey sample = true
    ∧ Denote.noListInList sample = true ∧ KeySpec.keySafe ['k'] = true := by decide

example : hasKey ['k'] [] sample = [.str ['t', 'o', 'p'], .num ['1'], .num ['2']] := by decide

example : pathsForKey sample ['k'] = [['k'], ['a', '.', 'k']] := by decide

/-- the theorems instantiate on it (`walk` is well-founded, so this one is not by `decide`) -/
example : List.Perm ((pathsForKey sample ['k']).flatMap fun p => oldValues none sample p)
    [.str ['t', 'o', 'p'], .num ['1'], .num ['2']] :=
  C08_paths_values sample ['k'] (by decide) (by decide) (by decide) (by decide)

example : List.Perm (hasKey ['*'] [] sample) (KeySpec.valuesForKey ['*'] [] sample) :=
  C08_values_spec ['*'] [] sample (by decide) (fun _ => by decide)

example : ∀ p, p ∈ pathsForKey sample ['k'] ↔ p ∈ KeySpec.pathsForKey sample ['k'] :=
  (C08_paths_spec sample ['k'] (by decide)).1

end Mxj.C08
