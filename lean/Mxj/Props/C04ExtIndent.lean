/-
  Mxj.Props.C04ExtIndent — the INDENTED sequence encoder `MapSeq.XmlIndent(prefix, indent)`
  (model: Mxj.Model.SeqIndent, `seqEncP` / `mapSeqXmlIndent`; lemmas: Mxj.Lemmas.SeqIndent,
  namespace `Mxj.SeqIL`): its layout is harmless for the sequence round trip.

  The model follows `mapToXmlSeqIndent(doIndent, sb, key, value, pp)` write by write; every
  `sb.WriteString` under `if doIndent` is a `Piece.lay`, every other one a `Piece.raw`.

  (0) the `pretty` state: `Outdent` undoes `Indent`; the loops hand back the state they got;
  (1) structure of the output
      bytes:  the indented pieces minus the `lay` pieces are the compact output
              (`C04_indent_layout_only`: same Go function, `doIndent = false`), which is the
              existing compact model `seqEnc` (`C04_indent_compact_mode`), every input;
      trees:  `seqEncTreeL` = the compact tree `seqEncTree` with layout NODES between the
              nodes (`C04_indent_strip_layout`, exact); the layout strings are made of the
              newline, `prefix` and `indent` characters and text is only ever the first child
              (`C04_indent_layout_shape`); the bytes are the rendering of that tree
              (`C04_indent_bytes_are_rendering`, either empty-element syntax);
  (2) the sequence decoder, run on the token stream of the indented output (adjacent character
      data merged into one token, as a tokenizer reports it), gives what it gives on the
      compact output's stream, if `prefix` / `indent` consist of characters the decoder trims
      (`C04_indent_same_decode`); with the C04 round trip: decode → XmlIndent → decode is the
      identity on the C04 domain (`C04_indent_roundtrip`, `C04_indent_roundtrip_bytes`);
  (3) `mapSeqXmlIndent` fails / panics exactly when `mapSeqXml` does (`C04_indent_parity*`).

  Property theorems and examples only.
-/
import Mxj.Lemmas.SeqIndent
set_option linter.unusedSimpArgs false
namespace Mxj.C04
open Mxj Mxj.SeqL Mxj.SeqIL Mxj.Dec

/-! ### (0) the `pretty` state -/

/-- `p.Indent(); p.Outdent()` leaves `p` as it was (`padding[:len(padding)-len(indent)]` cuts
    exactly the indent that was appended) -/
theorem C04_indent_outdent_undoes_indent (p : Pretty) : p.indentStep.outdent = p :=
  outdent_indentStep p

/-- the loop over the children hands back the state it was given -/
theorem C04_indent_kids_state (c : SeqCfg) (esc ge di : Bool) (f : Nat) (p p' : Pretty)
    (kvs : List (Str × Val)) (a : List Piece)
    (h : seqKidsP c esc ge di f p kvs = .ok (a, p')) : p' = p := by
  rw [seqKidsP_eq] at h
  cases e : kidsOf (seqEncP c esc ge di f) di p kvs <;> rw [e] at h <;>
    simp only [Outcome.mapOk] at h <;> cases h
  rfl

/-- … and so does the loop over the members of a list -/
theorem C04_indent_members_state (c : SeqCfg) (esc ge di : Bool) (f : Nat) (p p' : Pretty)
    (key : Str) (xs : List Val) (a : List Piece)
    (h : seqMembersP c esc ge di f p key xs = .ok (a, p')) : p' = p := by
  rw [seqMembersP_eq] at h
  cases e : membersOf (seqEncP c esc ge di f) di p key xs <;> rw [e] at h <;>
    simp only [Outcome.mapOk] at h <;> cases h
  rfl

/-! ### (1a) structure of the output, bytes -/

/-- the bytes are the pieces in order (definition) -/
theorem C04_indent_bytes (c : SeqCfg) (esc ge : Bool) (pfx ind : Str) (m : Entries) :
    mapSeqXmlIndent c esc ge pfx ind m
      = (mapSeqXmlIndentP c esc ge pfx ind m).mapOk Piece.flat := rfl

/-- FULL STRENGTH (every value, key, fuel, `pretty` state, escape / empty-element setting): the
    pieces `mapToXmlSeqIndent(true, …)` writes, minus those written under `if doIndent`, are
    the bytes `mapToXmlSeqIndent(false, …)` writes — same success, same failure -/
theorem C04_indent_layout_only (c : SeqCfg) (esc ge : Bool) (f : Nat) (p p' : Pretty) (key : Str)
    (v : Val) :
    (seqEncP c esc ge true f p key v).mapOk Piece.core
      = (seqEncP c esc ge false f p' key v).mapOk Piece.flat :=
  encP_core c esc ge f p p' key v

/-- the compact mode of the new model is the existing compact model `seqEnc`, provided no
    string / number / boolean sits under the comment, directive or processing-instruction key
    (`noteOk`) -/
theorem C04_indent_compact_mode (c : SeqCfg) (esc ge : Bool) (f : Nat) (p : Pretty) (key : Str)
    (v : Val) (hn : noteOk c key v = true) :
    (seqEncP c esc ge false f p key v).mapOk Piece.flat = seqEnc c esc ge f key v :=
  (encP_rel c esc ge f p key v).eq hn

/- `noteOk` is forced, and it is `seqEnc` that is off there: for `{"#comment": "abc"}` Go omits
   the `<key` (first type switch: `if key != commentK && …`) and writes `>abc</#comment>`, in
   both modes (checked against the code); `seqEnc` has `<#comment>abc</#comment>`. -/
example :
    (seqEncP seqDflt false false false 3 (Pretty.init [] []) "#comment".toList
        (.str "abc".toList)).mapOk Piece.flat = .ok ">abc</#comment>".toList
    ∧ seqEnc seqDflt false false 3 "#comment".toList (.str "abc".toList)
        = .ok "<#comment>abc</#comment>".toList
    ∧ noteOk seqDflt "#comment".toList (.str "abc".toList) = false := by
  refine ⟨?_, ?_, ?_⟩
  · simp [seqEncP, seqDflt, ltKey, noteKeyB, endOf, closeTag, Outcome.mapOk, Piece.flat, layPad,
      layEnd]
  · simp [seqEnc, endOf, closeTag]
  · simp [noteOk, noteKeyB, seqDflt]

/-- the indented output without its layout pieces IS the compact output of `seqEnc` -/
theorem C04_indent_core_is_compact (c : SeqCfg) (esc ge : Bool) (f : Nat) (p : Pretty) (key : Str)
    (v : Val) (hn : noteOk c key v = true) :
    (seqEncP c esc ge true f p key v).mapOk Piece.core = seqEnc c esc ge f key v := by
  rw [encP_core c esc ge f p p key v]
  exact (encP_rel c esc ge f p key v).eq hn

/-- `msv.XmlIndent(prefix, indent)` against `msv.Xml()`: the same bytes once the layout pieces
    are dropped, when both choose the same root (`seqRootAgree`) -/
theorem C04_indent_core_is_Xml (c : SeqCfg) (esc ge : Bool) (pfx ind : Str) (m : Entries)
    (hr : seqRootAgree m = true) (hn : noteOk c (seqRootI m).1 (seqRootI m).2 = true) :
    (mapSeqXmlIndentP c esc ge pfx ind m).mapOk Piece.core = mapSeqXml c esc ge m := by
  rw [mapSeqXml_rootI c esc ge m hr]
  exact C04_indent_core_is_compact c esc ge _ _ _ _ hn

/- `seqRootAgree` is forced: for a single entry holding a list of maps `Xml()` writes a row of
   `key` elements in LIST order, `XmlIndent()` wraps the entry in `<doc>` and writes the members
   in `#seq` order (checked against the code: `"<r>b</r><r>a</r>"` against
   `"<doc>\n  <r>a</r>\n  <r>b</r>\n</doc>"`). -/

example : seqRootAgree SeqISample.rootList = false := by decide
example : mapSeqXml seqDflt false false SeqISample.rootList = .ok "<r>b</r><r>a</r>".toList := by
  simp [SeqISample.rootList, mapSeqXml, allMaps, Val.isMap, seqEnc, seqMembers, seqKids, seqDflt, lookup,
    unrollEntries, sortBySeq, insertBySeq, seqOf, strOf, digitsVal, isDigit, fmtV, closeTag,
    Val.depth, Val.depthList, Val.depthEntries]
example : mapSeqXmlIndent seqDflt false false [] "  ".toList SeqISample.rootList
    = .ok "<doc>\n  <r>a</r>\n  <r>b</r>\n</doc>".toList := by
  simp [SeqISample.rootList, mapSeqXmlIndent, mapSeqXmlIndentP, seqRootI, seqEncP, seqKidsP, seqMembersP,
    seqDflt, lookup, unrollEntries, sortBySeq, insertBySeq, seqOf, Outcome.mapOk, Outcome.fstOk,
    Piece.flat, layPad, layNl, layEnd, Pretty.init, Pretty.deeper, Pretty.shallower,
    Pretty.indentStep, Pretty.outdent, closeTag, Val.isList, fmtV, strOf, digitsVal, isDigit, ltKey,
    noteKeyB, endOf, defaultRootTag, Val.depth, Val.depthList, Val.depthEntries]

/-! ### (1b) structure of the output, trees -/

/-- FULL STRENGTH: dropping the layout nodes of the indented encoder's tree gives the compact
    encoder's tree, exactly — same nodes, same order, same text, same failure; no hypothesis on
    `prefix` / `indent` -/
theorem C04_indent_strip_layout (c : SeqCfg) (f : Nat) (p : Pretty) (key : Str) (v : Val) :
    (seqEncTreeL c f p key v).mapOk LNode.stripKids = seqEncTree c f key v :=
  encTreeL_strip c f p key v

/-- where the layout is and what it is made of: in the output forest no text node stands at the
    top; in every element text is only ever the FIRST child (so layout never splits or precedes
    the text of an element; it may follow it — mixed content, see the example below); and every
    layout string consists of characters satisfying `P`, for any `P` that holds of the newline
    and of the characters of `p.padding` and `p.indent` -/
theorem C04_indent_layout_shape (c : SeqCfg) (P : Char → Bool) (hnl : P '\n' = true) (f : Nat)
    (p : Pretty) (key : Str) (v : Val) (out : List LNode)
    (hpad : ∀ ch ∈ p.padding, P ch = true) (hind : ∀ ch ∈ p.indent, P ch = true)
    (h : seqEncTreeL c f p key v = .ok out) :
    noTextTop out = true ∧ shapeKidsL out = true
      ∧ LNode.allLays (fun s => s.all P) out = true :=
  encTreeL_shape c P hnl f p key v out ⟨hpad, hind⟩ h

/-- the layout strings of `msv.XmlIndent(prefix, indent)`: newline, `prefix` and `indent`
    characters only -/
theorem C04_indent_layout_chars (c : SeqCfg) (pfx ind : Str) (f : Nat) (key : Str) (v : Val)
    (out : List LNode) (h : seqEncTreeL c f (Pretty.init pfx ind) key v = .ok out) :
    LNode.allLays (fun s => s.all (fun ch => ch == '\n' || pfx.contains ch || ind.contains ch))
      out = true :=
  (encTreeL_shape c (fun ch => ch == '\n' || pfx.contains ch || ind.contains ch) (by simp) f _ key v
    out ⟨fun ch h => by simp [Pretty.init] at h; simp [h], fun ch h => by
      simp [Pretty.init] at h; simp [h]⟩ h).2.2

/- Non-vacuity, and the one place where layout touches character data: MIXED CONTENT.  For
   `<r>hi<a/></r>` the encoder writes the text, then `"\n"`, then the child's padding: the
   CharData token of `r` becomes `"hi\n  "` (the decoder trims it back to `"hi"`). -/

example :
    mapSeqXmlIndent seqDflt false false [] "  ".toList SeqISample.mixed = .ok "<r>hi\n  <a/>\n</r>".toList := by
  simp [SeqISample.mixed, mapSeqXmlIndent, mapSeqXmlIndentP, seqRootI, seqEncP, seqKidsP, seqDflt, lookup,
    unrollEntries, sortBySeq, insertBySeq, seqOf, Outcome.mapOk, Piece.flat, layPad, layNl, layEnd,
    Pretty.init, Pretty.deeper, Pretty.shallower, Pretty.indentStep, Pretty.outdent, closeTag,
    Val.isList, fmtV, strOf, digitsVal, isDigit]

/-- its layout tree … -/
example :
    seqEncTreeL seqDflt 4 (Pretty.init [] "  ".toList) "r".toList
        (.map [("#text".toList, .str "hi".toList), ("#seq".toList, .num "i:0".toList),
          ("a".toList, .map [("#text".toList, .str []), ("#seq".toList, .num "i:1".toList)])])
      = .ok [.lay [], .elem "r".toList []
          [.text "hi".toList, .lay "\n".toList, .lay "  ".toList, .elem "a".toList [] [],
           .lay "\n".toList, .lay []]] := by
  simp [seqEncTreeL, seqKidsTreeL, seqDflt, lookup, unrollEntries, sortBySeq, insertBySeq,
    seqOf, Pretty.init, Pretty.deeper, Pretty.indentStep, Val.isList, fmtV, strOf, digitsVal,
    isDigit, textKidL, nlL, seqAttrNodes]

/-- … and what a tokenizer reports for it -/
example :
    flattenKids (mergeKids (unqualifyKids (LNode.toNodes
      [.lay [], .elem "r".toList []
          [.text "hi".toList, .lay "\n".toList, .lay "  ".toList, .elem "a".toList [] [],
           .lay "\n".toList, .lay []]])))
      = [.text [], .start [] "r".toList [], .text "hi\n  ".toList, .start [] "a".toList [],
         .stop [] "a".toList, .text "\n".toList, .stop [] "r".toList] := by
  decide

/- QUIRK (indentation defect, harmless for decoding): a list that is itself a member of a list is
   indented once more by `case []interface{}` (`p.Indent()` per member) on top of the
   indentation its parent list gave it — `{"r": {"a": [["x", ["y"]]]}}`, checked against the
   code. -/
example :
    mapSeqXmlIndent seqDflt false false [] "  ".toList
        [("r".toList, .map [("a".toList, .list [.list [.str "x".toList, .list [.str "y".toList]]])])]
      = .ok "<r>\n  <a>x</a>\n    <a>y</a>\n</r>".toList := by
  simp [mapSeqXmlIndent, mapSeqXmlIndentP, seqRootI, seqEncP, seqKidsP, seqMembersP, seqDflt, lookup,
    unrollEntries, sortBySeq, insertBySeq, seqOf, Outcome.mapOk, Outcome.fstOk, Piece.flat, layPad,
    layNl, layEnd, Pretty.init, Pretty.deeper, Pretty.shallower, Pretty.indentStep, Pretty.outdent,
    closeTag, Val.isList, fmtV, strOf, digitsVal, isDigit, ltKey, noteKeyB, endOf, Val.depth,
    Val.depthList, Val.depthEntries]

/-- the indented bytes are the rendering of the layout tree — for EITHER empty-element syntax
    (with layout the bytes are a function of the tree, unlike the compact encoder's), for
    values whose leaves are strings (`seqPlain`) with `noteOk` -/
theorem C04_indent_bytes_are_rendering (c : SeqCfg) (esc ge : Bool) (hts : c.textK ≠ c.seqK)
    (f : Nat) (p : Pretty) (key : Str) (v : Val) (hv : seqPlain c v = true)
    (hn : noteOk c key v = true) :
    (seqEncP c esc ge true f p key v).mapOk Piece.flat
      = (seqEncTreeL c f p key v).mapOk (renderLKids esc ge) :=
  encP_linkL c esc ge hts f p key v hv hn

/-! ### (2) the decoder does not see the layout -/

theorem C04_indent_newline_trimmed (c : SeqCfg) : (trimSet c.dec).contains '\n' = true := by
  unfold trimSet; split <;> decide

/-- FULL STRENGTH in the value: whenever the compact tree of `(key, v)` is a single element, the
    sequence decoder gives the same result on the token stream of the indented output — layout
    as character data, adjacent character data merged into one token, names split at the colon
    — as on the token stream of the compact output.  Hypotheses: `prefix` / `indent` (the
    padding and indent of `p`) consist of characters of the decoder's trim set (`\t \r \b \n`
    and, unless `keepSpace`, the blank), and the text key is not the sequence key -/
theorem C04_indent_same_decode (c : SeqCfg) (S : Strconv) (fin : StreamEnd)
    (hts : c.textK ≠ c.seqK) (f : Nat) (p : Pretty) (key : Str) (v : Val) (outL : List LNode)
    (n : Str) (as : List Attr) (ks0 : List Node)
    (hpad : ∀ ch ∈ p.padding, (trimSet c.dec).contains ch = true)
    (hind : ∀ ch ∈ p.indent, (trimSet c.dec).contains ch = true)
    (hI : seqEncTreeL c f p key v = .ok outL)
    (hC : seqEncTree c f key v = .ok [.elem [] n as ks0]) :
    newMapXmlSeq c S (flattenKids (mergeKids (unqualifyKids (LNode.toNodes outL)))) fin
      = newMapXmlSeq c S (flatten (unqualify (.elem [] n as ks0))) fin := by
  have hsh := encTreeL_shape c (fun ch => (trimSet c.dec).contains ch)
    (C04_indent_newline_trimmed c) f p key v outL ⟨hpad, hind⟩ hI
  have hst := encTreeL_strip c f p key v
  rw [hI, hC] at hst
  simp only [Outcome.mapOk, Outcome.ok.injEq] at hst
  rw [tokens_decode_merged c S fin hts outL n as ks0 hsh.1 hsh.2.1 hsh.2.2 hst]
  have := newMapXmlSeq_tree c S fin [] [] (by simp) (splitQual n).1 (splitQual n).2
    (as.map unqualAttr) (unqualifyKids ks0)
  simp only [List.nil_append, List.append_nil] at this
  simp only [unqualify]
  exact this.symm

/- The hypothesis on `prefix` / `indent` is forced.  With `indent = "x"` the layout of
   `<r><a/></r>` is character data the decoder keeps: `r` acquires a `#text` and `a` moves to
   `#seq` 1 … -/

example :
    seqEncTreeL seqDflt 4 (Pretty.init [] "x".toList) "r".toList SeqISample.ra
      = .ok [.lay [], .elem "r".toList []
          [.lay "\n".toList, .lay "x".toList, .elem "a".toList [] [], .lay "\n".toList, .lay []]]
    ∧ seqEncTree seqDflt 4 "r".toList SeqISample.ra
      = .ok [.elem [] "r".toList [] [.elem [] "a".toList [] []]] := by
  constructor
  · simp [SeqISample.ra, seqEncTreeL, seqKidsTreeL, seqDflt, lookup, unrollEntries, sortBySeq, insertBySeq,
      seqOf, Pretty.init, Pretty.deeper, Pretty.indentStep, Val.isList, fmtV, strOf, digitsVal,
      isDigit, textKidL, nlL, seqAttrNodes]
  · simp [SeqISample.ra, seqEncTree, seqKidsTree, seqDflt, lookup, unrollEntries, sortBySeq, insertBySeq,
      seqOf, fmtV, strOf, digitsVal, isDigit, textKid]

example :
    newMapXmlSeq seqDflt SeqSample.S0 (flattenKids (mergeKids (unqualifyKids (LNode.toNodes
        [.lay [], .elem "r".toList []
          [.lay "\n".toList, .lay "x".toList, .elem "a".toList [] [], .lay "\n".toList,
           .lay []]])))) .eof
      = .ok (.doc (.map [("r".toList, .map [
          ("#text".toList, .str "x".toList), ("#seq".toList, .num "i:0".toList),
          ("a".toList, .map [("#text".toList, .str []), ("#seq".toList, .num "i:1".toList)])])]))
    ∧ newMapXmlSeq seqDflt SeqSample.S0
        (flatten (unqualify (.elem [] "r".toList [] [.elem [] "a".toList [] []]))) .eof
      = .ok (.doc (.map [("r".toList, SeqISample.ra)])) := by
  constructor <;> rfl

/-- … and the trim set depends on the configuration: with `keepSpace` the blank is not in it
    (`trimSet`), so `indent = "  "` is kept as text -/
example :
    newMapXmlSeq { keepSpace := true } SeqSample.S0
        (flattenKids (mergeKids (unqualifyKids (LNode.toNodes
          [.lay [], .elem "r".toList []
            [.lay "\n".toList, .lay "  ".toList, .elem "a".toList [] [], .lay "\n".toList,
             .lay []]])))) .eof
      = .ok (.doc (.map [("r".toList, .map [
          ("#text".toList, .str "  ".toList), ("#seq".toList, .num "i:0".toList),
          ("a".toList, .map [("#text".toList, .str []), ("#seq".toList, .num "i:1".toList)])])])) := by
  rfl

/-- … and both are the document value of the compact tree -/
theorem C04_indent_decode_value (c : SeqCfg) (S : Strconv) (fin : StreamEnd)
    (hts : c.textK ≠ c.seqK) (f : Nat) (p : Pretty) (key : Str) (v : Val) (outL : List LNode)
    (n : Str) (as : List Attr) (ks0 : List Node)
    (hpad : ∀ ch ∈ p.padding, (trimSet c.dec).contains ch = true)
    (hind : ∀ ch ∈ p.indent, (trimSet c.dec).contains ch = true)
    (hI : seqEncTreeL c f p key v = .ok outL)
    (hC : seqEncTree c f key v = .ok [.elem [] n as ks0]) :
    newMapXmlSeq c S (flattenKids (mergeKids (unqualifyKids (LNode.toNodes outL)))) fin
      = .ok (.doc (SeqFold.doc c S (unqualify (.elem [] n as ks0)))) := by
  have hsh := encTreeL_shape c (fun ch => (trimSet c.dec).contains ch)
    (C04_indent_newline_trimmed c) f p key v outL ⟨hpad, hind⟩ hI
  have hst := encTreeL_strip c f p key v
  rw [hI, hC] at hst
  simp only [Outcome.mapOk, Outcome.ok.injEq] at hst
  exact tokens_decode_merged c S fin hts outL n as ks0 hsh.1 hsh.2.1 hsh.2.2 hst

/-- the decoder does not see `normalize` (blank text dropped, text trimmed) on trees whose
    elements have text only as their first child — in particular on the C04 domain: decoding
    the compact output reproduces the decoded value -/
theorem C04_indent_decode_normalized (c : SeqCfg) (S : Strconv) (hts : c.textK ≠ c.seqK)
    (t : Node) (hd : seqDomain c t = true) :
    SeqFold.value c S (normalizeC c t) = SeqFold.value c S t :=
  value_normalize c S hts t (tfAll_of_domain c t hd)

/-- merging adjacent character data (what a tokenizer does) is invisible to the decoder, on
    every tree -/
theorem C04_indent_decode_merged (c : SeqCfg) (S : Strconv) (hts : c.textK ≠ c.seqK) (t : Node) :
    SeqFold.value c S (mergeText t) = SeqFold.value c S t :=
  value_merge c S hts t

/-- decode → XmlIndent → decode on the C04 domain (default configuration, names as the tokenizer
    hands them over): the decoded value `v` of an in-domain document encodes, with enough fuel,
    to a layout tree whose token stream decodes to the MapSeq we started from -/
theorem C04_indent_roundtrip (S : Strconv) (fin : StreamEnd) (pfx ind : Str)
    (hpfx : ∀ ch ∈ pfx, (trimSet seqDflt.dec).contains ch = true)
    (hind : ∀ ch ∈ ind, (trimSet seqDflt.dec).contains ch = true)
    (sp name : Str) (attrs : List Attr) (kids : List Node)
    (hd : SeqDomain (.elem sp name attrs kids) = true)
    (hn : plainNames (.elem sp name attrs kids) = true) :
    ∃ key v, SeqFold.doc seqDflt S (.elem sp name attrs kids) = .map [(key, v)]
      ∧ ∀ f, (Node.elem sp name attrs kids).height + 1 ≤ f →
          ∃ outL, seqEncTreeL seqDflt f (Pretty.init pfx ind) key v = .ok outL
            ∧ LNode.stripKids outL = [qualify seqDflt (normalize (.elem sp name attrs kids))]
            ∧ newMapXmlSeq seqDflt S
                (flattenKids (mergeKids (unqualifyKids (LNode.toNodes outL)))) fin
              = .ok (.doc (SeqFold.doc seqDflt S (.elem sp name attrs kids))) := by
  refine ⟨_, _, rfl, fun f hf => ?_⟩
  obtain ⟨outL, h1, h2⟩ := treeL_roundtrip seqDflt S cfgOk_dflt sp name attrs kids hd
    (Pretty.init pfx ind) f hf
  refine ⟨outL, h1, h2, ?_⟩
  have hsh := encTreeL_shape seqDflt (fun ch => (trimSet seqDflt.dec).contains ch)
    (C04_indent_newline_trimmed seqDflt) f _ _ _ outL ⟨hpfx, hind⟩ h1
  have hq : qualify seqDflt (normalizeC seqDflt (.elem sp name attrs kids))
      = .elem [] (qualName seqDflt sp name) (attrs.map (qualAttr seqDflt))
          (qualifyKids seqDflt (normalizeKidsC seqDflt kids)) := rfl
  rw [hq] at h2
  rw [tokens_decode_merged seqDflt S fin cfgOk_dflt.ts outL _ _ _ hsh.1 hsh.2.1 hsh.2.2 h2, ← hq,
    doc_roundtrip seqDflt S cfgOk_dflt.ts rfl sp name attrs kids hd hn]

/-- end to end with `NewMapXmlSeq` and `MapSeq.XmlIndent` and their own fuel: decode the token
    stream of an in-domain document; `XmlIndent(prefix, indent)` of the result succeeds, its
    bytes are the rendering of a layout tree over the normalised document, and — `prefix` and
    `indent` made of characters the decoder trims, names as the tokenizer hands them over —
    the token stream of that tree decodes to the same MapSeq -/
theorem C04_indent_roundtrip_bytes (S : Strconv) (fin fin' : StreamEnd) (esc ge : Bool)
    (pfx ind : Str) (pre post : List Tok) (hpre : ∀ t ∈ pre, isText t = true)
    (sp name : Str) (attrs : List Attr) (kids : List Node)
    (hd : SeqDomain (.elem sp name attrs kids) = true) :
    ∃ m outL,
      newMapXmlSeq seqDflt S (pre ++ flatten (.elem sp name attrs kids) ++ post) fin
        = .ok (.doc (.map m))
      ∧ mapSeqXmlIndent seqDflt esc ge pfx ind m = .ok (renderLKids esc ge outL)
      ∧ LNode.stripKids outL = [qualify seqDflt (normalize (.elem sp name attrs kids))]
      ∧ ((∀ ch ∈ pfx, (trimSet seqDflt.dec).contains ch = true) →
         (∀ ch ∈ ind, (trimSet seqDflt.dec).contains ch = true) →
         plainNames (.elem sp name attrs kids) = true →
         newMapXmlSeq seqDflt S
             (flattenKids (mergeKids (unqualifyKids (LNode.toNodes outL)))) fin'
           = .ok (.doc (.map m))) := by
  obtain ⟨outL, h0, h1, h2⟩ := mapSeqXmlIndent_roundtrip seqDflt S cfgOk_dflt esc ge pfx ind
    sp name attrs kids hd
  refine ⟨_, outL, newMapXmlSeq_tree seqDflt S fin pre post hpre sp name attrs kids, h1, h2, ?_⟩
  intro hpfx hind hn
  have hsh := encTreeL_shape seqDflt (fun ch => (trimSet seqDflt.dec).contains ch)
    (C04_indent_newline_trimmed seqDflt) _ _ _ _ outL ⟨hpfx, hind⟩ h0
  have hq : qualify seqDflt (normalizeC seqDflt (.elem sp name attrs kids))
      = .elem [] (qualName seqDflt sp name) (attrs.map (qualAttr seqDflt))
          (qualifyKids seqDflt (normalizeKidsC seqDflt kids)) := rfl
  rw [hq] at h2
  rw [tokens_decode_merged seqDflt S fin' cfgOk_dflt.ts outL _ _ _ hsh.1 hsh.2.1 hsh.2.2 h2, ← hq,
    doc_roundtrip seqDflt S cfgOk_dflt.ts rfl sp name attrs kids hd hn]
  rfl

/-- non-vacuity on the C04 sample document (interleaved siblings a, b, a; prefixed names; a
    comment; leading text), `prefix = " "`, `indent = "\t"` -/
example : SeqDomain SeqSample.tree = true ∧ plainNames SeqSample.tree = true := by decide
example : ∀ ch ∈ " \t".toList, (trimSet seqDflt.dec).contains ch = true := by decide
example : ∃ m outL,
      newMapXmlSeq seqDflt SeqSample.S0 (flatten SeqSample.tree) .eof = .ok (.doc (.map m))
      ∧ mapSeqXmlIndent seqDflt true false " ".toList "\t".toList m
          = .ok (renderLKids true false outL)
      ∧ LNode.stripKids outL = [qualify seqDflt (normalize SeqSample.tree)]
      ∧ newMapXmlSeq seqDflt SeqSample.S0
          (flattenKids (mergeKids (unqualifyKids (LNode.toNodes outL)))) .eof
        = .ok (.doc (.map m)) := by
  obtain ⟨m, outL, h1, h2, h3, h4⟩ := C04_indent_roundtrip_bytes SeqSample.S0 .eof .eof true false
    " ".toList "\t".toList [] [] (by simp) [] "r".toList _ _
    (by decide : SeqDomain SeqSample.tree = true)
  exact ⟨m, outL, (by rw [List.nil_append, List.append_nil] at h1; exact h1), h2, h3,
    h4 (by decide) (by decide) (by decide)⟩

/-! ### (3) error / panic parity -/

/-- FULL STRENGTH: the worker, in either mode, fails exactly as `seqEnc` does — same outcome
    class (`ok` / error kind / panic site) for every value, key, fuel and `pretty` state -/
theorem C04_indent_parity_worker (c : SeqCfg) (esc ge di : Bool) (f : Nat) (p : Pretty)
    (key : Str) (v : Val) :
    (seqEncP c esc ge di f p key v).mapOk (fun _ => ())
      = (seqEnc c esc ge f key v).mapOk (fun _ => ()) :=
  encP_parity c esc ge di f p key v

/-- `msv.XmlIndent(prefix, indent)` fails / panics exactly when `msv.Xml()` does, whenever both
    choose the same root (`seqRootAgree`: not a single entry holding a list of maps) -/
theorem C04_indent_parity (c : SeqCfg) (esc ge : Bool) (pfx ind : Str) (m : Entries)
    (hr : seqRootAgree m = true) :
    (mapSeqXmlIndent c esc ge pfx ind m).mapOk (fun _ => ())
      = (mapSeqXml c esc ge m).mapOk (fun _ => ()) := by
  rw [mapSeqXml_rootI c esc ge m hr]
  unfold mapSeqXmlIndent mapSeqXmlIndentP
  rw [mapOk_mapOk]
  exact encP_parity c esc ge true _ _ _ _

/- `seqRootAgree` is forced for parity as well: with a list of maps at the root the two encoders
   visit the members in different orders (list order against `#seq` order), so they can stop at
   different members — here `Xml()` returns the attribute error of the first member,
   `XmlIndent()` panics in the second one (`#seq` 0) first. -/

example : seqRootAgree SeqISample.twoRoots = false := by decide
example : mapSeqXml seqDflt false false SeqISample.twoRoots = .err .other := by
  simp [SeqISample.twoRoots, mapSeqXml, allMaps, Val.isMap, seqEnc, seqMembers, seqKids, seqDflt, lookup,
    unrollEntries, sortBySeq, insertBySeq, seqOf, seqAttrsText, seqAttrText, strOf, digitsVal,
    isDigit]
example : mapSeqXmlIndent seqDflt false false [] [] SeqISample.twoRoots
    = .panic "comment text is not a string" := by
  simp [SeqISample.twoRoots, mapSeqXmlIndent, mapSeqXmlIndentP, seqRootI, seqEncP, seqKidsP, seqMembersP,
    seqDflt, lookup, unrollEntries, sortBySeq, insertBySeq, seqOf, Outcome.mapOk, Outcome.fstOk,
    Piece.flat, layPad, layNl, layEnd, Pretty.init, Pretty.deeper, Pretty.shallower,
    Pretty.indentStep, Pretty.outdent, closeTag, Val.isList, fmtV, strOf, digitsVal, isDigit, ltKey,
    noteKeyB, endOf, defaultRootTag, Val.depth, Val.depthList, Val.depthEntries, seqAttrsText,
    seqAttrText]

/-- spelled out: success, each error, each panic -/
theorem C04_indent_parity_iff (c : SeqCfg) (esc ge : Bool) (pfx ind : Str) (m : Entries)
    (hr : seqRootAgree m = true) :
    ((∃ s, mapSeqXmlIndent c esc ge pfx ind m = .ok s) ↔ (∃ s, mapSeqXml c esc ge m = .ok s))
    ∧ (∀ k, mapSeqXmlIndent c esc ge pfx ind m = .err k ↔ mapSeqXml c esc ge m = .err k)
    ∧ (∀ site, mapSeqXmlIndent c esc ge pfx ind m = .panic site
        ↔ mapSeqXml c esc ge m = .panic site) := by
  have h := C04_indent_parity c esc ge pfx ind m hr
  cases e1 : mapSeqXmlIndent c esc ge pfx ind m <;> cases e2 : mapSeqXml c esc ge m <;>
    rw [e1, e2] at h <;> simp only [Outcome.mapOk] at h <;> first | cases h | skip
  all_goals simp_all

/-- every in-domain decoded document: `XmlIndent` succeeds (as `Xml` does) -/
theorem C04_indent_succeeds (S : Strconv) (esc ge : Bool) (pfx ind : Str) (sp name : Str)
    (attrs : List Attr) (kids : List Node) (hd : SeqDomain (.elem sp name attrs kids) = true) :
    ∃ s, mapSeqXmlIndent seqDflt esc ge pfx ind
      [(qualName seqDflt sp name, SeqFold.value seqDflt S (.elem sp name attrs kids))] = .ok s := by
  obtain ⟨outL, _, h1, _⟩ := mapSeqXmlIndent_roundtrip seqDflt S cfgOk_dflt esc ge pfx ind
    sp name attrs kids hd
  exact ⟨_, h1⟩

end Mxj.C04
