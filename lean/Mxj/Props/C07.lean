/-
  Mxj.Props.C07 — ValuesForPath returns exactly the values a dot / wildcard / indexed path
  denotes.  Property theorems only; helper lemmas live in Mxj.Lemmas.Path.

  Model: Mxj.Model.Path (walker, look-ahead wrapper).  Specification: Mxj.Model.Denote
  (frontier semantics, written independently of the walker).
-/
import Mxj.Lemmas.Path
import Mxj.Lemmas.PathIdx
namespace Mxj.C07
open Mxj Mxj.Denote

/-- The recursive walker (`valuesForKeyPath`) returns, in order, exactly what the
    plain/wildcard path denotes on the frontier semantics, then the leaf filter — for every
    value, every key list, every sub-key set. -/
theorem C07_walk_is_denotation (subs : Option SubKeys) (m : Val) (ks : List Str) :
    walk subs m ks = (run (ks.map plainStep) [m]).flatMap (loadLeaf subs) := by
  simpa using walk_front subs ks [m]

/-- `ValuesForPath` on a path without `[`: exactly `Denote.valuesForPath` (same values, same
    order, sub-keys only filter), for every Map, every path string, every sub-key list. -/
theorem C07_plain_path_is_denotation (sep : Str) (pf : Str → Option Str) (m : Val) (p : Str)
    (subkeys : List Str) (vs : List Val) (hp : p.contains '[' = false)
    (h : valuesForPath sep pf m p subkeys = .ok vs) :
    Denote.valuesForPath sep pf m p subkeys = some vs := by
  unfold Mxj.valuesForPath at h
  unfold Denote.valuesForPath
  simp only [hp, Bool.not_false, if_true] at h ⊢
  cases hs : subKeyArg sep pf subkeys with
  | error e => simp [hs] at h
  | ok subs =>
    simp only [hs] at h ⊢
    injection h with h
    subst h
    congr 1
    unfold oldValues Denote.path
    rw [C07_walk_is_denotation, lastIsIdx_plain]
    cases subs with
    | none =>
      simp only [subFilter, Bool.false_eq_true, if_false]
      congr 1; funext v; exact (loadLeaf_none v).symm
    | some s =>
      have hne := subKeyArg_some_ne_nil sep pf subkeys s hs
      simp only [subFilter, Bool.false_eq_true, if_false]
      rw [List.filter_flatMap]
      congr 1; funext v
      exact (loadLeaf_some s hne v).symm

/-- never a value from an intermediate step: with no sub-keys the result is the expansion of
    the final frontier only. -/
theorem C07_no_intermediate (m : Val) (ks : List Str) :
    walk none m ks = (run (ks.map plainStep) [m]).flatMap expand := by
  rw [C07_walk_is_denotation]; congr 1; funext v; exact loadLeaf_none v

/-- `ValueForPath` is the first value of `ValuesForPath`, `PathNotExistError` when none. -/
theorem C07_first (m : Val) (p : Str) :
    valueForPath m p = (match valuesForPath [':'] (fun _ => none) m p [] with
      | .error e => .error e
      | .ok vs => match vs.head? with
        | some v => .ok v
        | none => .error .pathNotExist) := by
  unfold valueForPath
  cases valuesForPath [':'] (fun _ => none) m p [] with
  | error e => rfl
  | ok vs => cases vs <;> rfl

/-- `Exists` is "ValuesForPath is non-empty". -/
theorem C07_exists (sep : Str) (pf : Str → Option Str) (m : Val) (p : Str) (subkeys : List Str) :
    pathExists sep pf m p subkeys = (valuesForPath sep pf m p subkeys).map (fun vs => !vs.isEmpty) := by
  unfold pathExists
  cases valuesForPath sep pf m p subkeys <;> rfl

/-- The look-ahead index wrapper (`valuesForArray`) computes the frontier denotation of an
    indexed path on every Map without a list directly inside a list: `k[i]` selects, for each
    parent, the i-th of the values `k` alone would yield. -/
theorem C07_indexed_is_denotation (keys : List Key) (kvs : Entries) (hne : keys ≠ [])
    (hnames : ∀ k ∈ keys, (k.isArray = false → nameOk k.name = true)
      ∧ (k.isArray = true → nameOk k.name = true ∧ k.name ≠ ['*']))
    (hm : noListInList (.map kvs) = true) :
    valuesForArray keys (.map kvs) = Denote.path (keys.map keyStep) (.map kvs) :=
  vfa_is_denotation keys kvs hne hnames hm

/-- `ValuesForPath` (plain, wildcard and indexed paths, with or without sub-keys): whenever
    the specification applies — the arguments parse, indexes sit on non-empty non-wildcard
    keys, and for indexed paths the Map has no list directly inside a list — the result is
    exactly the denotation, same values in the same order. -/
theorem C07_path_is_denotation (sep : Str) (pf : Str → Option Str) (m : Entries) (p : Str)
    (subkeys : List Str) (vs spec : List Val)
    (h : valuesForPath sep pf (.map m) p subkeys = .ok vs)
    (hs : Denote.valuesForPath sep pf (.map m) p subkeys = some spec) : vs = spec :=
  valuesForPath_is_denotation sep pf m p subkeys vs spec h hs

/-- non-vacuity of the indexed theorem: `items[1].sub.list[0]`-style path (index, plain keys,
    index) on a list of maps is inside the specification's domain -/
example :
    Denote.valuesForPath [':'] (fun _ => none)
      (.map [(['d'], .list [.map [(['s'], .map [(['l'], .list [.str ['a'], .str ['b']])])],
                            .map [(['s'], .map [(['l'], .list [.str ['c'], .str ['d']])])]])])
      "d[1].s.l[0]".toList []
    = some [.str ['c']] := by decide

/-- non-vacuity: a concrete Map with a list of maps, a path that goes through the list -/
example :
    walk none (.map [(['a'], .list [.map [(['b'], .str ['x'])],
                                    .map [(['b'], .list [.num ['1'], .null])]])])
      [['a'], ['b']]
    = [.str ['x'], .num ['1'], .null] := by
  simp [walk, lookup, loadLeaf, passSubs]

end Mxj.C07
