/-
  Mxj.Props.C19 — file round trip, the JSON-file part (the part with mxj's own loop logic):
  a list of Maps written with `Maps.JsonFile` is read back by `NewMapsFromJsonFile` as the same
  number of Maps, in order, each equal to the original; unreadable or malformed files yield an
  error together with the Maps read so far.

  Model: Mxj.Model.Files — `jsonString` (what `JsonFile` writes: the concatenation of the per-Map
  compact encodings `mapJson false`), `ReadRes`, `readMapsJson` (the loop of
  `NewMapsFromJsonFile`: scanner `getJson` + `newMapJson` until io.EOF; an error returns the Maps
  read so far) — over Mxj.Model.Stream (`Sched`, `plain`, `getJson`) and Mxj.Model.Json
  (`mapJson`, `newMapJson`).  Helper lemmas live in Mxj.Lemmas.Files (namespace `Mxj.Files`):
    `Gr`/`Bd`, `gr_encN`   the compact encoder writes texts of C13's generative grammar
    `Good`, `stepJ_good`   scanner invariant "inside an object"
    `getJson_cut`          input that ends inside an object gives "no closing }"
    `readMapsJson_file`    the loop over what `JsonFile` wrote, followed by any schedule
    `sepText docs`         encoded Maps, each preceded by a separator text `d.1`
  and the results of C06 (`newMapJson (mapJson safe m) = norm m`) and C13 (`getJson` returns
  exactly one object of the grammar and leaves the rest unread; schedule independence).
  Property theorems and non-vacuity examples only.
-/
import Mxj.Lemmas.Files
namespace Mxj.C19
open Mxj Mxj.Stream Mxj.Json Mxj.Files

/-! ### the encoder writes what the scanner is proved against -/

/-- the compact encoding of a JSON-shaped Map is an object text of the generative grammar of
    C13: there are items with `flat (.obj items) = mapJson safe (.map m)` and, since the compact
    encoder writes no white space outside strings, `flatNoWs (.obj items)` is the same text.
    (Strings become `Item.str` with `StrCh.esc`/`plain` per `quoteChar`, nested objects
    `Item.obj`, everything else — brackets, commas, colons, literals, number characters —
    `Item.ch`.) -/
theorem C19_mapJson_in_grammar (safe : Bool) (m : Entries)
    (hm : Json.JsonShaped (.map m) = true) :
    ∃ items, Stream.flat (.obj items) = Json.mapJson safe (.map m) ∧
      Stream.flatNoWs (.obj items) = Json.mapJson safe (.map m) :=
  mapJson_items safe m hm

/-- the scanner cuts exactly one encoded Map off the front of the file, whatever follows -/
theorem C19_getjson_one_map (m : Entries) (hm : Json.JsonShaped (.map m) = true) (rest : Str) :
    Stream.getJson (Stream.plain (Json.mapJson false (.map m) ++ rest)) {}
      = (.doc (Json.mapJson false (.map m)), Stream.plain rest) :=
  getJson_mapJson false m hm rest

/-- … also when an arbitrary delivery schedule follows (zero-length reads, errors, anything) -/
theorem C19_getjson_one_map_then (m : Entries) (hm : Json.JsonShaped (.map m) = true)
    (s : Sched) :
    Stream.getJson (Stream.plain (Json.mapJson false (.map m)) ++ s) {}
      = (.doc (Json.mapJson false (.map m)), s) :=
  getJson_mapJson_sched false m hm s

/-- `JsonShaped` cannot be dropped: a "number" whose literal is a brace is written verbatim and
    closes the object early (Go's encoder can only write well-formed number literals) -/
example : Stream.getJson (Stream.plain
      (Json.mapJson false (.map [("a".toList, .num "jn:}".toList)]))) {}
    = (.doc "{\"a\":}".toList, Stream.plain "}".toList) := by decide

/-! ### the round trip -/

/-- the general form: the loop over what `JsonFile` wrote, followed by ANY schedule `s`, reads
    every Map back — exactly `Val.norm` of it, in order — and goes on with `s` -/
theorem C19_json_file_then (ms : List Entries)
    (hms : ∀ m ∈ ms, Json.JsonShaped (.map m) = true) (f : Nat) (s : Sched) (acc : List Val) :
    Files.readMapsJson (ms.length + f)
        (Stream.plain (Files.jsonString (ms.map Val.map)) ++ s) acc
      = Files.readMapsJson f s ((ms.map (fun m => Val.norm (.map m))).reverse ++ acc) :=
  readMapsJson_file ms hms f s acc

/-- headline: what `JsonFile` writes is read back Map by Map — same number, same order, each
    equal to the original up to the order of entries (exactly `Val.norm` of it) — and no error -/
theorem C19_json_file (ms : List Entries) (hms : ∀ m ∈ ms, Json.JsonShaped (.map m) = true)
    (f : Nat) (hf : ms.length < f) :
    Files.readMapsJson f (Stream.plain (Files.jsonString (ms.map Val.map))) []
      = ⟨ms.map (fun m => Val.norm (.map m)), false⟩ := by
  obtain ⟨g, rfl⟩ : ∃ g, f = ms.length + (g + 1) := ⟨f - ms.length - 1, by omega⟩
  have h := readMapsJson_file ms hms (g + 1) [] []
  rw [List.append_nil] at h
  rw [h, readMapsJson_end]
  simp

/-- in words: no error, the same number of Maps, and the i-th Map read equals the i-th Map
    written up to the order of entries at every level -/
theorem C19_json_file_same_maps (ms : List Entries)
    (hms : ∀ m ∈ ms, Json.JsonShaped (.map m) = true) (f : Nat) (hf : ms.length < f) :
    ∃ rs, Files.readMapsJson f (Stream.plain (Files.jsonString (ms.map Val.map))) []
        = ⟨rs, false⟩ ∧ rs.length = ms.length ∧
      ∀ (i : Nat) (h1 : i < rs.length) (h2 : i < ms.length), rs[i] ≈ᵥ .map ms[i] := by
  refine ⟨_, C19_json_file ms hms f hf, by simp, ?_⟩
  intro i h1 h2
  rw [List.getElem_map]
  exact norm_idem (.map ms[i]) (hms _ (List.getElem_mem h2))

/-- an empty object is a Map too (the repaired behaviour).  `[{}]` and lists containing `{}`
    are covered by the headline; the special case explicitly: -/
theorem C19_empty_object_kept :
    Files.readMapsJson 3 (Stream.plain "{}".toList) [] = ⟨[.map []], false⟩ :=
  C19_json_file [[]] (by decide) 3 (by decide)

/-- … also between other Maps: nothing is dropped, nothing is shifted -/
theorem C19_empty_object_between (a b : Entries) (ha : Json.JsonShaped (.map a) = true)
    (hb : Json.JsonShaped (.map b) = true) :
    Files.readMapsJson 4 (Stream.plain (Files.jsonString [.map a, .map [], .map b])) []
      = ⟨[Val.norm (.map a), .map [], Val.norm (.map b)], false⟩ := by
  have h := C19_json_file [a, [], b] (by
    intro m hm
    simp only [List.mem_cons, List.not_mem_nil, or_false] at hm
    rcases hm with rfl | rfl | rfl
    · exact ha
    · decide
    · exact hb) 4 (by simp)
  have e : Val.norm (.map []) = .map [] := by decide
  simpa [e] using h

/-- an empty file is an empty list of Maps and no error -/
theorem C19_empty_file (f : Nat) (hf : 0 < f) :
    Files.readMapsJson f (Stream.plain []) [] = ⟨[], false⟩ :=
  C19_json_file [] (by simp) f hf

/-- at the scanner level: the raw documents `getJson` hands to the decoder are exactly the
    per-Map encodings, in order, followed by io.EOF (`readAll` of C13) -/
theorem C19_scanner_docs (ms : List Entries) (hms : ∀ m ∈ ms, Json.JsonShaped (.map m) = true)
    (n : Nat) (hn : ms.length < n) :
    Stream.readAll n (Stream.plain (Files.jsonString (ms.map Val.map)))
      = (ms.map (fun m => Json.mapJson false (.map m)), some (.eof [])) :=
  readAll_jsonString ms hms n hn

/-- robustness beyond what `JsonFile` writes: the Maps may be separated (and followed) by any
    characters except braces and quotes — new lines, blanks, commas — and are read back the
    same.  `sepText docs` = each `d.1 ++ mapJson false (.map d.2)` in order. -/
theorem C19_json_file_separated (docs : List (Str × Entries))
    (hlead : ∀ d ∈ docs, ∀ c ∈ d.1, c ≠ '{' ∧ c ≠ '}' ∧ c ≠ '"')
    (hms : ∀ d ∈ docs, Json.JsonShaped (.map d.2) = true)
    (trail : Str) (htrail : ∀ c ∈ trail, c ≠ '{' ∧ c ≠ '}' ∧ c ≠ '"')
    (f : Nat) (hf : docs.length < f) :
    Files.readMapsJson f (Stream.plain (Files.sepText docs ++ trail)) []
      = ⟨docs.map (fun d => Val.norm (.map d.2)), false⟩ := by
  have h := readMapsJson_separated docs hlead hms trail htrail f [] hf
  simpa using h

/-! ### every delivery schedule -/

/-- the loop does not depend on how the reader delivers the bytes -/
theorem C19_schedule_free (f : Nat) (s : Sched) (acc : List Val) (hs : Tame s = true) :
    Files.readMapsJson f s acc = Files.readMapsJson f (Stream.plain (bytesOf s)) acc :=
  readMapsJson_sched_free f s acc hs

/-- the headline under every tame schedule carrying the file's bytes (zero-length reads in
    between, the last byte delivered together with io.EOF, a final (0, io.EOF) read, …) -/
theorem C19_json_file_sched (ms : List Entries)
    (hms : ∀ m ∈ ms, Json.JsonShaped (.map m) = true) (s : Sched) (hs : Tame s = true)
    (hb : bytesOf s = Files.jsonString (ms.map Val.map)) (f : Nat) (hf : ms.length < f) :
    Files.readMapsJson f s [] = ⟨ms.map (fun m => Val.norm (.map m)), false⟩ := by
  rw [readMapsJson_sched_free f s [] hs, hb]
  exact C19_json_file ms hms f hf

/-! ### errors: the Maps read so far are returned -/

/-- after the Maps of a well-formed prefix, whatever makes one more round fail — a scanner error
    (no closing brace, stray closing brace, I/O error) or a scanned object that does not decode —
    ends the loop with an error and exactly the Maps read so far -/
theorem C19_error_keeps_maps (ms : List Entries)
    (hms : ∀ m ∈ ms, Json.JsonShaped (.map m) = true) (s : Sched)
    (hbad : match Stream.getJson s {} with
      | (.doc raw, _) => Json.newMapJson raw = none
      | (.eof _, _) => False
      | _ => True)
    (f : Nat) (hf : ms.length < f) :
    Files.readMapsJson f (Stream.plain (Files.jsonString (ms.map Val.map)) ++ s) []
      = ⟨ms.map (fun m => Val.norm (.map m)), true⟩ := by
  obtain ⟨g, rfl⟩ : ∃ g, f = ms.length + (g + 1) := ⟨f - ms.length - 1, by omega⟩
  rw [readMapsJson_file ms hms (g + 1) s [], List.append_nil, readMapsJson]
  generalize Stream.getJson s {} = x at hbad
  obtain ⟨r, rest⟩ := x
  cases r with
  | doc raw => simp only at hbad; simp [hbad]
  | eof raw => exact absurd hbad id
  | noClose raw => simp
  | stray raw => simp
  | ioerr raw => simp

/-- unreadable: a read error after k Maps returns those k Maps and the error -/
theorem C19_io_error (ms : List Entries) (hms : ∀ m ∈ ms, Json.JsonShaped (.map m) = true)
    (s : Sched) (f : Nat) (hf : ms.length < f) :
    Files.readMapsJson f (Stream.plain (Files.jsonString (ms.map Val.map)) ++ Rd.fail :: s) []
      = ⟨ms.map (fun m => Val.norm (.map m)), true⟩ :=
  C19_error_keeps_maps ms hms (Rd.fail :: s) (by rw [getJson_fail]; trivial) f hf

/-- truncation: a file cut inside the (k+1)-th document — after the first k encodings comes a
    non-empty proper prefix of the (k+1)-th encoding (it contains the opening brace, since every
    encoding starts with it) — yields the first k Maps together with an error -/
theorem C19_truncated (ms : List Entries) (hms : ∀ m ∈ ms, Json.JsonShaped (.map m) = true)
    (k : Nat) (hk : k < ms.length) (cut : Str)
    (hpre : cut <+: Json.mapJson false (.map ms[k])) (hne : cut ≠ [])
    (hproper : cut ≠ Json.mapJson false (.map ms[k])) (f : Nat) (hf : k < f) :
    Files.readMapsJson f
        (Stream.plain (Files.jsonString ((ms.take k).map Val.map) ++ cut)) []
      = ⟨(ms.take k).map (fun m => Val.norm (.map m)), true⟩ := by
  have hmk := hms _ (List.getElem_mem hk)
  obtain ⟨tail, htail⟩ := hpre
  have htne : tail ≠ [] := by
    rintro rfl
    rw [List.append_nil] at htail
    exact hproper htail
  -- the scanner ends inside the object
  obtain ⟨tl, htl⟩ := mapJson_head false ms[k]
  have hhead : ∃ t, cut = '{' :: t := by
    cases cut with
    | nil => exact absurd rfl hne
    | cons c t =>
      rw [htl, List.cons_append] at htail
      simp only [List.cons.injEq] at htail
      exact ⟨t, by rw [htail.1]⟩
  have hfull := getJson_mapJson false ms[k] hmk []
  rw [List.append_nil, ← htail] at hfull
  obtain ⟨raw, hraw⟩ := getJson_cut cut tail hhead htne (by rw [hfull]; rfl)
  -- the loop
  rw [plain_append]
  refine C19_error_keeps_maps (ms.take k) (fun m hm => hms m (List.mem_of_mem_take hm))
    (plain cut) (by rw [hraw]; trivial) f ?_
  rw [List.length_take]; omega

/-- … cut exactly at a document boundary it yields the first k Maps and no error -/
theorem C19_truncated_at_boundary (ms : List Entries)
    (hms : ∀ m ∈ ms, Json.JsonShaped (.map m) = true) (k : Nat) (f : Nat) (hf : k < f) :
    Files.readMapsJson f (Stream.plain (Files.jsonString ((ms.take k).map Val.map))) []
      = ⟨(ms.take k).map (fun m => Val.norm (.map m)), false⟩ := by
  refine C19_json_file (ms.take k) (fun m hm => hms m (List.mem_of_mem_take hm)) f ?_
  rw [List.length_take]; omega

/-- truncation under every tame schedule carrying the truncated file's bytes -/
theorem C19_truncated_sched (ms : List Entries)
    (hms : ∀ m ∈ ms, Json.JsonShaped (.map m) = true)
    (k : Nat) (hk : k < ms.length) (cut : Str)
    (hpre : cut <+: Json.mapJson false (.map ms[k])) (hne : cut ≠ [])
    (hproper : cut ≠ Json.mapJson false (.map ms[k])) (s : Sched) (hs : Tame s = true)
    (hb : bytesOf s = Files.jsonString ((ms.take k).map Val.map) ++ cut)
    (f : Nat) (hf : k < f) :
    Files.readMapsJson f s [] = ⟨(ms.take k).map (fun m => Val.norm (.map m)), true⟩ := by
  rw [readMapsJson_sched_free f s [] hs, hb]
  exact C19_truncated ms hms k hk cut hpre hne hproper f hf

/-! ### non-vacuity -/

/-- a Map with hostile strings: braces and quotes in keys and values, a value that ends in a
    backslash, white space inside strings, a nested object whose key ends in a backslash -/
def exA : Entries :=
  [ ("k}\"".toList, .str "a{\"b} \\".toList),
    ("z".toList, .map [("in{\\".toList, .str "}".toList), ("e".toList, .map [])]),
    ("n".toList, .list [.num "jn:-1.5e+3".toList, .null, .bool false, .str "]}".toList]) ]

/-- a second one: only braces, a lone quote, a lone backslash, an empty key -/
def exB : Entries :=
  [ ("}{".toList, .str "\"".toList), ("".toList, .str "\\".toList),
    ("t".toList, .str "{{{ \n\t}".toList) ]

example : JsonShaped (.map exA) = true ∧ JsonShaped (.map exB) = true := by decide

/-- what is written -/
example : mapJson false (.map exB)
    = "{\"\":\"\\\\\",\"t\":\"{{{ \\n\\t}\",\"}{\":\"\\\"\"}".toList := by decide

/-- written and read back: by the theorem … -/
example : readMapsJson 3 (plain (jsonString [.map exA, .map exB])) []
    = ⟨[Val.norm (.map exA), Val.norm (.map exB)], false⟩ :=
  C19_json_file [exA, exB] (by decide) 3 (by decide)

/-- … and by evaluating the model -/
example : (readMapsJson 3 (plain (jsonString [.map exA, .map exB])) []).maps
      = [Val.norm (.map exA), Val.norm (.map exB)] ∧
    (readMapsJson 3 (plain (jsonString [.map exA, .map exB])) []).failed = false := by
  decide +kernel

/-- with an empty object in between, and more fuel than needed -/
example : (readMapsJson 9 (plain (jsonString [.map exB, .map [], .map exA])) []).maps
      = [Val.norm (.map exB), .map [], Val.norm (.map exA)] ∧
    (readMapsJson 9 (plain (jsonString [.map exB, .map [], .map exA])) []).failed = false := by
  decide +kernel

/-- the same file through a schedule with zero-length reads, its last byte delivered together
    with io.EOF, then (0, io.EOF) -/
def exSched : Sched :=
  ((jsonString [.map exA, .map exB]).dropLast.flatMap fun c => [.zero, .byte c false])
    ++ [.byte '}' true, .zeroEof]

example : bytesOf exSched = jsonString [.map exA, .map exB] ∧ Tame exSched = true := by
  decide +kernel

example : readMapsJson 3 exSched [] = ⟨[Val.norm (.map exA), Val.norm (.map exB)], false⟩ :=
  C19_json_file_sched [exA, exB] (by decide) exSched (by decide +kernel) (by decide +kernel) 3
    (by decide)

/-- truncation inside the second document, in the middle of a string that holds braces: the
    first Map and an error -/
example : (readMapsJson 3 (plain (jsonString [.map exA] ++ (mapJson false (.map exB)).take 17))
      []).maps = [Val.norm (.map exA)] ∧
    (readMapsJson 3 (plain (jsonString [.map exA] ++ (mapJson false (.map exB)).take 17))
      []).failed = true := by
  decide +kernel

example : readMapsJson 3 (plain (jsonString (([exA, exB].take 1).map Val.map)
      ++ (mapJson false (.map exB)).take 17)) []
    = ⟨([exA, exB].take 1).map (fun m => Val.norm (.map m)), true⟩ :=
  C19_truncated [exA, exB] (by decide) 1 (by decide) _ (List.take_prefix _ _) (by decide)
    (by decide) 3 (by decide)

/-- cut right after the opening brace -/
example : (readMapsJson 3 (plain (jsonString [.map exA] ++ ['{'])) []).maps
      = [Val.norm (.map exA)] ∧
    (readMapsJson 3 (plain (jsonString [.map exA] ++ ['{'])) []).failed = true := by
  decide +kernel

/-- malformed: the second object scans but does not decode — the first Map and an error -/
example : (readMapsJson 3 (plain (jsonString [.map exA] ++ "{\"b\":x}".toList)) []).maps
      = [Val.norm (.map exA)] ∧
    (readMapsJson 3 (plain (jsonString [.map exA] ++ "{\"b\":x}".toList)) []).failed = true := by
  decide +kernel

/-- a stray closing brace after the first Map -/
example : (readMapsJson 3 (plain (jsonString [.map exA] ++ "}".toList)) []).maps
      = [Val.norm (.map exA)] ∧
    (readMapsJson 3 (plain (jsonString [.map exA] ++ "}".toList)) []).failed = true := by
  decide +kernel

/-- a read error after the first Map -/
example : readMapsJson 3 (plain (jsonString [.map exA]) ++ [Rd.fail]) []
    = ⟨[Val.norm (.map exA)], true⟩ :=
  C19_io_error [exA] (by decide) [] 3 (by decide)

/-- new-line separated, with a trailing new line -/
example : readMapsJson 3 (plain (sepText [([], exA), (['\n'], exB)] ++ ['\n'])) []
    = ⟨[Val.norm (.map exA), Val.norm (.map exB)], false⟩ :=
  C19_json_file_separated [([], exA), (['\n'], exB)] (by decide) (by decide) ['\n'] (by decide) 3
    (by decide)

/-- the separator condition cannot be dropped: a quote between two documents hides the second -/
example : (readMapsJson 3 (plain (sepText [([], exB), (['"'], exB)])) []).maps
    = [Val.norm (.map exB)] := by decide +kernel

/-- the fuel bound is needed only to let the loop see the end of the file: with exactly
    `ms.length` rounds the model runs out of fuel (reported as an error) -/
example : (readMapsJson 2 (plain (jsonString [.map exA, .map exB])) []).failed = true := by
  decide +kernel

end Mxj.C19
