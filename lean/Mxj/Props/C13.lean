/-
  Mxj.Props.C13 — stream decoding is independent of how the reader delivers bytes.

  Model: Mxj.Model.Stream — delivery schedules (`Rd`, `Sched`, `bytesOf`), the repaired byte
  adaptors (`readByte`, `drain`, `teeReadByte`) and the `getJson` scanner.  Helper lemmas and the
  vocabulary used below live in Mxj.Lemmas.Stream (namespace `Mxj.Stream`):
    `upToEnd s`   the prefix of `s` before its first (0,EOF)/(0,error) entry
    `endErr s`    the error that entry carries (EOF when the schedule just runs out)
    `NoFail s`    no (0,error) entry
    `WF s`        nothing but (0,EOF)/(0,error) follows a byte delivered together with io.EOF
    `EndsOnce s`  no byte is delivered after a (0,EOF)/(0,error) read
    `Tame s`      no (0,error) entry is reached, no byte after a (0,EOF) entry
    `Item`, `StrCh`, `flat`, `flatNoWs`   generator of object texts, independent of the scanner
    `readAll`     iterate `getJson` until it returns something else than a document
  Property theorems and non-vacuity examples only.
-/
import Mxj.Lemmas.Stream
namespace Mxj.C13
open Mxj Mxj.Stream

/-! ### the byte adaptor (`byteReader.ReadByte`, `teeReader.ReadByte`) -/

/-- the adaptor is transparent: the bytes ReadByte delivers, until its first error, are exactly
    the data bytes the schedule carries before the first (0,EOF)/(0,error) entry, in order, each
    once — whatever zero-length reads are interspersed and whether or not the last byte came
    with io.EOF.  Holds for EVERY schedule. -/
theorem C13_adaptor_transparent (s : Sched) :
    (drain (s.length + 1) s).1 = bytesOf (upToEnd s) := by
  rw [drain_eq s _ (Nat.lt_succ_self _)]

/-- the same for every sufficient fuel, together with the error that ended the run -/
theorem C13_adaptor_transparent_fuel (s : Sched) (n : Nat) (hn : s.length < n) :
    drain n s = (bytesOf (upToEnd s), endErr s) :=
  drain_eq s n hn

/-- without (0, error) entries the run ends with io.EOF — also right after a last byte that
    was delivered together with io.EOF, and also when the schedule just runs out -/
theorem C13_adaptor_eof_after_last (s : Sched) (h : NoFail s) :
    (drain (s.length + 1) s).2 = .eof := by
  rw [drain_eq s _ (Nat.lt_succ_self _)]; exact endErr_noFail s h

/-- no byte is lost: when nothing is delivered after a (0,EOF)/(0,error) read, ReadByte
    delivers ALL data bytes of the schedule -/
theorem C13_adaptor_lossless (s : Sched) (h : EndsOnce s = true) :
    (drain (s.length + 1) s).1 = bytesOf s := by
  rw [C13_adaptor_transparent, bytesOf_upToEnd s h]

/-- the historically dropped byte: in a well-formed schedule whose last data byte `b` arrives
    together with io.EOF (after any mixture `a` of bytes and zero-length reads), `b` is
    delivered, as the last byte -/
theorem C13_adaptor_last_byte_with_eof (a : Sched) (b : Char) (r : Sched)
    (ha : ∀ x ∈ a, x.isEnd = false) (hwf : WF (a ++ .byte b true :: r) = true) :
    (drain ((a ++ .byte b true :: r).length + 1) (a ++ .byte b true :: r)).1
      = bytesOf a ++ [b] := by
  rw [C13_adaptor_transparent, upToEnd_append_noEnd a _ ha, bytesOf_append]
  simp [upToEnd, bytesOf, upToEnd_allEnd r (wf_after_eof_byte a b r hwf)]

/-- the tee adaptor delivers the same byte and the same remaining schedule as `readByte`, and
    appends exactly that byte to `w` (and nothing on error) -/
theorem C13_tee_same (w : Str) (s : Sched) :
    (teeReadByte w s).1 = (readByte s).1 ∧ (teeReadByte w s).2.1 = (readByte s).2 ∧
    (teeReadByte w s).2.2 = (match (readByte s).1 with
                              | .ok b => w ++ [b]
                              | .error _ => w) := by
  unfold teeReadByte
  cases h : readByte s with
  | mk r rest => cases r <;> simp

/-! ### the scanner `getJson` does not depend on the schedule -/

/-- the side condition in words: no (0,error) entry, and no byte after a (0,EOF) entry -/
theorem C13_tame_of (s : Sched) (h1 : NoFail s)
    (h2 : ∀ a b, s = a ++ Rd.zeroEof :: b → bytesOf b = []) : Tame s = true :=
  tame_of s h1 h2

/-- the scanner does not depend on the schedule, only on the bytes (from every scanner state) -/
theorem C13_getjson_schedule_free (s : Sched) (st : JState) (hs : Tame s = true) :
    (getJson s st).1 = (getJson (plain (bytesOf s)) st).1 :=
  (getJson_sched_free s st hs).1

/-- … and it consumes exactly the reads up to and including the one that delivered the closing
    brace: the bytes left unread are the same as with the plain one-byte-per-read schedule -/
theorem C13_getjson_no_overread (s : Sched) (st : JState) (hs : Tame s = true) :
    bytesOf (getJson s st).2 = bytesOf (getJson (plain (bytesOf s)) st).2 :=
  (getJson_sched_free s st hs).2

/-- what is left unread is a suffix of the schedule (nothing is re-ordered or invented) -/
theorem C13_getjson_rest_suffix (s : Sched) (st : JState) : (getJson s st).2 <:+ s :=
  getJson_suffix s st

/-- `Tame` cannot be dropped: a (0,error) read before the object changes the result -/
example : (getJson [.fail, .byte '{' false, .byte '}' false] {}).1
        ≠ (getJson (plain (bytesOf [.fail, .byte '{' false, .byte '}' false])) {}).1 := by decide

/-! ### extent: exactly one object is returned, the rest stays unread -/

/-- for the generative grammar of object texts (`Item`; strings may contain anything, escaped
    quotes and backslashes included) the scanner returns exactly the object, minus white space
    outside strings, and leaves the rest unread.  `lead` may contain anything except braces and
    quotes (a '"' before the first '{' would open a "string" outside any object, a '}' is the
    stray-brace error). -/
theorem C13_getjson_extent (lead : Str) (hlead : ∀ c ∈ lead, c ≠ '{' ∧ c ≠ '}' ∧ c ≠ '"')
    (items : List Item) (rest : Str) :
    getJson (plain (lead ++ flat (.obj items) ++ rest)) {}
      = (.doc (flatNoWs (.obj items)), plain rest) :=
  getJson_obj lead hlead items rest

/-- the same through any tame schedule carrying those bytes -/
theorem C13_getjson_extent_sched (s : Sched) (hs : Tame s = true) (lead : Str)
    (hlead : ∀ c ∈ lead, c ≠ '{' ∧ c ≠ '}' ∧ c ≠ '"') (items : List Item) (rest : Str)
    (hb : bytesOf s = lead ++ flat (.obj items) ++ rest) :
    (getJson s {}).1 = .doc (flatNoWs (.obj items)) ∧ bytesOf (getJson s {}).2 = rest := by
  have h := getJson_sched_free s {} hs
  rw [hb, getJson_obj lead hlead items rest] at h
  exact ⟨h.1, by rw [h.2, bytesOf_plain]⟩

/-- the `lead` condition cannot be dropped: a quote before the object hides its braces -/
example : (getJson (plain "\"{}".toList) {}).1 = .eof [] := by decide
example : (getJson (plain "}{}".toList) {}).1 = .stray [] := by decide

/-- hence several documents one after another come out one by one, in order, then EOF -/
theorem C13_docs_in_order (docs : List (Str × List Item))
    (hlead : ∀ d ∈ docs, ∀ c ∈ d.1, c ≠ '{' ∧ c ≠ '}' ∧ c ≠ '"')
    (trail : Str) (htrail : ∀ c ∈ trail, c ≠ '{' ∧ c ≠ '}' ∧ c ≠ '"')
    (n : Nat) (hn : docs.length < n) :
    readAll n (plain (docsText docs ++ trail))
      = (docs.map (fun d => flatNoWs (.obj d.2)), some (.eof [])) :=
  readAll_docs docs hlead trail htrail n hn

/-- … through every tame schedule that carries those bytes -/
theorem C13_docs_in_order_sched (s : Sched) (hs : Tame s = true) (docs : List (Str × List Item))
    (hlead : ∀ d ∈ docs, ∀ c ∈ d.1, c ≠ '{' ∧ c ≠ '}' ∧ c ≠ '"')
    (trail : Str) (htrail : ∀ c ∈ trail, c ≠ '{' ∧ c ≠ '}' ∧ c ≠ '"')
    (hb : bytesOf s = docsText docs ++ trail) (n : Nat) (hn : docs.length < n) :
    readAll n s = (docs.map (fun d => flatNoWs (.obj d.2)), some (.eof [])) := by
  rw [readAll_sched_free n s hs, hb]
  exact readAll_docs docs hlead trail htrail n hn

/-! ### non-vacuity -/

/-- a schedule with zero-length reads and a last byte delivered with io.EOF -/
def exSched : Sched := [.zero, .byte 'a' false, .zero, .zero, .byte 'b' true, .zeroEof]

example : WF exSched = true ∧ EndsOnce exSched = true ∧ Tame exSched = true := by decide
example : drain (exSched.length + 1) exSched = ("ab".toList, .eof) := by decide
example : NoFail exSched := by intro r hr; revert r; decide
/-- the pre-repair behaviour would have lost 'b' (it arrived with io.EOF) -/
example : (drain 7 exSched).1 = bytesOf exSched := by decide

/-- a stream of two objects, the first holds a string ending in an escaped backslash:
    `{"a": "x\\"} {"b":1}` -/
def exText : Str := "{\"a\": \"x\\\\\"} {\"b\":1}\n".toList

example : readAll 3 (plain exText)
    = (["{\"a\":\"x\\\\\"}".toList, "{\"b\":1}".toList], some (.eof [])) := by decide

/-- the same text is generated by the grammar -/
def exDocs : List (Str × List Item) :=
  [ ([], [.str [.plain 'a' (by decide)], .ch ':' (by decide), .ws ' ' (by decide),
          .str [.plain 'x' (by decide), .esc '\\']]),
    ([' '], [.str [.plain 'b' (by decide)], .ch ':' (by decide), .ch '1' (by decide)]) ]

example : docsText exDocs ++ ['\n'] = exText := by decide
example : exDocs.map (fun d => flatNoWs (.obj d.2))
    = ["{\"a\":\"x\\\\\"}".toList, "{\"b\":1}".toList] := by decide

/-- the same text delivered with zero-length reads in between and its last byte with io.EOF -/
def exTextSched : Sched :=
  (exText.dropLast.flatMap fun c => [.zero, .byte c false]) ++ [.byte '\n' true, .zeroEof]

example : bytesOf exTextSched = exText ∧ Tame exTextSched = true := by decide
example : readAll 3 exTextSched
    = (["{\"a\":\"x\\\\\"}".toList, "{\"b\":1}".toList], some (.eof [])) := by decide

/-- braces, quotes and white space inside strings do not count -/
example : getJson (plain "{\"k\":\"} \\\" {\"}tail".toList) {}
    = (.doc "{\"k\":\"} \\\" {\"}".toList, plain "tail".toList) := by decide

end Mxj.C13
