/-
  Mxj.Props.C14 — "Casting changes only leaf types, predictably, and never yields NaN or Inf".

  * the decision chain of `cast` (documented order: skip-tag, cast flag, NaN/Inf word guard, int,
    uint, float with the special-value guard, bool screen), one characterisation per branch;
  * no numeric result is NaN/±Inf unless CastNanInf is on — for ANY `Strconv`;
  * un-cast decoding yields only string leaves (plus the `_seq` numbers);
  * decoding with the cast flag yields the same structure and keys as decoding without it, each
    string leaf `s` replaced by `cast S c s t` — for every token stream, fuel and outcome.
-/
import Mxj.Lemmas.Cast
namespace Mxj.C14
open Mxj

/-! ### the decision chain -/

/-- 2. cast flag off: nothing is cast -/
theorem C14_cast_off (S : Strconv) (c : CastCfg) (s t : Str) (h : c.r = false) :
    cast S c s t = .str s := cast_off S c s t h

/-- 1. a registered skip function that accepts the (non-empty) key: nothing is cast -/
theorem C14_cast_skip (S : Strconv) (c : CastCfg) (s t : Str)
    (h : c.skipSet = true) (ht : t ≠ []) (hm : t ∈ c.skip) : cast S c s t = .str s := by
  apply cast_skipped
  cases t with
  | nil => exact absurd rfl ht
  | cons a r => simp [castSkipped, h, hm]

/-- the result is the identical string, a number or a boolean — never a list, map or null -/
theorem C14_cast_result (S : Strconv) (c : CastCfg) (s t : Str) :
    cast S c s t = .str s ∨ (∃ x, cast S c s t = .num x) ∨ (∃ b, cast S c s t = .bool b) :=
  cast_result S c s t

/-- "past the first two guards": not skipped and the cast flag is on -/
def Active (c : CastCfg) (t : Str) : Prop := castSkipped c t = false ∧ c.r = true

/-- not skipped ⇔ no function registered, or empty key, or the function rejects the key -/
theorem C14_not_skipped_iff (c : CastCfg) (t : Str) :
    castSkipped c t = false ↔ (c.skipSet = false ∨ t = [] ∨ t ∉ c.skip) := by
  cases t with
  | nil => simp [castSkipped]
  | cons a r =>
    cases hs : c.skipSet <;> simp [castSkipped, hs]

/-- the whole chain as one equation (`castChain` is the int / uint / float / bool part) -/
theorem C14_cast_eq (S : Strconv) (c : CastCfg) (s t : Str) :
    cast S c s t =
      if castSkipped c t then .str s
      else if !c.r then .str s
      else if !c.nanInf && isNanInfWord S s then .str s
      else castChain S c s := cast_eq S c s t

/-- 3. NaN/Inf word guard: unless CastNanInf, "nan", "inf", "-inf" in any letter case stay strings -/
theorem C14_cast_nanword (S : Strconv) (c : CastCfg) (s t : Str)
    (hn : c.nanInf = false) (hw : isNanInfWord S s = true) : cast S c s t = .str s :=
  cast_nanword S c s t hn hw

/-- the word guard, spelled out -/
def Unguarded (S : Strconv) (c : CastCfg) (s : Str) : Prop :=
  c.nanInf = true ∨ isNanInfWord S s = false

theorem cast_active (S : Strconv) (c : CastCfg) (s t : Str) (ha : Active c t)
    (hg : Unguarded S c s) : cast S c s t = castChain S c s := by
  apply cast_eq_chain S c s t ha.1 ha.2
  rcases hg with h | h <;> simp [h]

/-- 4. int: CastValuesToInt on and ParseInt succeeds -/
theorem C14_cast_int (S : Strconv) (c : CastCfg) (s t x : Str) (ha : Active c t)
    (hg : Unguarded S c s) (hi : c.toInt = true) (hp : S.parseInt s = some x) :
    cast S c s t = .num x := by
  rw [cast_active S c s t ha hg]; exact castChain_int S c s x hi hp

/-- 5. uint: ParseInt fails, ParseUint succeeds -/
theorem C14_cast_uint (S : Strconv) (c : CastCfg) (s t x : Str) (ha : Active c t)
    (hg : Unguarded S c s) (hi : c.toInt = true) (hp : S.parseInt s = none)
    (hu : S.parseUint s = some x) : cast S c s t = .num x := by
  rw [cast_active S c s t ha hg]; exact castChain_uint S c s x hi hp hu

/-- 6. float: no integer result, ParseFloat succeeds with an ordinary value (or CastNanInf is on) -/
theorem C14_cast_float (S : Strconv) (c : CastCfg) (s t x : Str) (sp : Bool) (ha : Active c t)
    (hg : Unguarded S c s) (hi : noInt S c s) (hf : c.toFloat = true)
    (hp : S.parseFloat s = some (x, sp)) (hsp : c.nanInf = true ∨ sp = false) :
    cast S c s t = .num x := by
  rw [cast_active S c s t ha hg]; exact castChain_float S c s x sp hi hf hp hsp

/-- 6'. float guard: ParseFloat yields NaN/±Inf (any spelling, e.g. "1e999", "Infinity") and
    CastNanInf is off: the string is returned — the bool step is NOT tried -/
theorem C14_cast_float_special (S : Strconv) (c : CastCfg) (s t x : Str) (ha : Active c t)
    (hg : Unguarded S c s) (hi : noInt S c s) (hf : c.toFloat = true)
    (hp : S.parseFloat s = some (x, true)) (hn : c.nanInf = false) : cast S c s t = .str s := by
  rw [cast_active S c s t ha hg]; exact castChain_float_special S c s x hi hf hp hn

/-- 7. bool: no integer, no float, passes the screen, ParseBool succeeds -/
theorem C14_cast_bool (S : Strconv) (c : CastCfg) (s t : Str) (b : Bool) (ha : Active c t)
    (hg : Unguarded S c s) (hi : noInt S c s) (hf : noFloat S c s) (hb : c.toBool = true)
    (hscr : boolScreen s = true) (hp : parseBool s = some b) : cast S c s t = .bool b := by
  rw [cast_active S c s t ha hg]; exact castChain_bool S c s b hi hf hb hscr hp

/-- 8. otherwise: the identical string -/
theorem C14_cast_fallthrough (S : Strconv) (c : CastCfg) (s t : Str) (ha : Active c t)
    (hg : Unguarded S c s) (hi : noInt S c s) (hf : noFloat S c s)
    (hb : c.toBool = false ∨ boolScreen s = false ∨ parseBool s = none) : cast S c s t = .str s := by
  rw [cast_active S c s t ha hg]; exact castChain_str S c s hi hf hb

/-- the key is consulted by the skip test only -/
theorem C14_cast_key_irrelevant (S : Strconv) (c : CastCfg) (s t t' : Str) (h : c.skipSet = false) :
    cast S c s t = cast S c s t' := cast_key_irrelevant S c s t t' h

/-- a boolean result is what ParseBool says -/
theorem C14_cast_bool_sound (S : Strconv) (c : CastCfg) (s t : Str) (b : Bool)
    (h : cast S c s t = .bool b) : c.toBool = true ∧ parseBool s = some b := by
  have hne : cast S c s t ≠ .str s := by rw [h]; intro e; cases e
  obtain ⟨_, _, _, hc⟩ := cast_ne_str_guards S c s t hne
  rw [hc] at h
  unfold castChain at h
  simp only at h
  split at h
  · rename_i v hv
    split at hv
    · split at hv
      · cases hv; cases h
      · cases hu : S.parseUint s with
        | none => simp [hu] at hv
        | some u => simp [hu] at hv; subst hv; cases h
    · cases hv
  · split at h
    · rename_i v hv
      split at hv
      · split at hv
        · split at hv
          · cases hv
          · cases hv; cases h
        · cases hv
      · cases hv
    · cases h
    · split at h
      · rename_i hcond
        simp only [Bool.and_eq_true] at hcond
        split at h
        · rename_i b' hb'
          cases h; exact ⟨hcond.1, hb'⟩
        · cases h
      · cases h

/-! ### never NaN / Inf unless CastNanInf -/

/-- for ANY Strconv, a numeric result came from an integer parser or from a ParseFloat that
    reported a non-special value -/
theorem C14_no_naninf (S : Strconv) (c : CastCfg) (s t x : Str) (hn : c.nanInf = false)
    (h : cast S c s t = .num x) :
    (c.toInt = true ∧ (S.parseInt s = some x ∨ S.parseUint s = some x)) ∨
    (c.toFloat = true ∧ S.parseFloat s = some (x, false)) := by
  have hne : cast S c s t ≠ .str s := by rw [h]; intro e; cases e
  obtain ⟨_, _, _, hc⟩ := cast_ne_str_guards S c s t hne
  rw [hc] at h
  rcases castChain_num S c s x h with ⟨hi, hp | ⟨_, hu⟩⟩ | ⟨_, hf, sp, hpf, hsp⟩
  · exact Or.inl ⟨hi, Or.inl hp⟩
  · exact Or.inl ⟨hi, Or.inr hu⟩
  · rcases hsp with hsp | hsp
    · rw [hn] at hsp; cases hsp
    · subst hsp; exact Or.inr ⟨hf, hpf⟩

/-- and the text was none of the NaN/Inf words -/
theorem C14_no_naninf_word (S : Strconv) (c : CastCfg) (s t : Str) (hn : c.nanInf = false)
    (h : cast S c s t ≠ .str s) : isNanInfWord S s = false := by
  obtain ⟨_, _, hg, _⟩ := cast_ne_str_guards S c s t h
  simpa [hn] using hg

/-! ### un-cast decoding -/

/-- un-cast decoding yields only string leaves (apart from the `_seq` numbers) -/
theorem C14_uncast_strings (cfg : DecCfg) (S : Strconv) (fin : StreamEnd) (toks : List Tok) (v : Val)
    (hr : cfg.cast.r = false) (h : newMapXml cfg S toks fin = .ok v) : onlyStrLeaves v = true :=
  strLeaves_of_cfg _ v (strLeaves_newMapXml cfg S fin toks v hr h)

/-- without tag sequence numbers there is no number anywhere -/
theorem C14_uncast_strings_noseq (cfg : DecCfg) (S : Strconv) (fin : StreamEnd) (toks : List Tok)
    (v : Val) (hr : cfg.cast.r = false) (hs : cfg.seqNum = false)
    (h : newMapXml cfg S toks fin = .ok v) : allStrLeaves v = true := by
  have := strLeaves_newMapXml cfg S fin toks v hr h
  rw [hs] at this; exact this

/-! ### same structure, leaf-wise cast -/

/-- decoding with the cast flag relates leaf-wise to decoding the same tokens without it; the
    error / eof / panic outcomes are identical -/
theorem C14_structure (cfg : DecCfg) (S : Strconv) (fin : StreamEnd) (toks : List Tok) :
    let cfg0 := { cfg with cast := { cfg.cast with r := false } }
    match newMapXml cfg0 S toks fin, newMapXml cfg S toks fin with
    | .ok v0, .ok v => CastRel S cfg.cast v0 v
    | .eof, .eof => True | .syntax, .syntax => True | .err a, .err b => a = b | .panic a, .panic b => a = b
    | _, _ => False := by
  intro cfg0
  have h : CastRelOutV S cfg.cast (newMapXml cfg0 S toks fin) (newMapXml cfg S toks fin) :=
    CastRel_newMapXml cfg S fin toks
  revert h
  cases newMapXml cfg0 S toks fin <;> cases newMapXml cfg S toks fin <;> simp [CastRelOutV]

/-- the same at every fuel, for the element loop from related states (also: same unread tokens) -/
theorem C14_structure_parseElem (cfg : DecCfg) (S : Strconv) (fin : StreamEnd) (f : Nat) (skey : Str)
    (na nb : Entries) (n m : Option Val) (seq : Nat) (pend : Option Str) (toks : List Tok)
    (hE : CastRelEntries S cfg.cast na nb) (hn : CastRelOpt S cfg.cast n m) :
    CastRelOut S cfg.cast (parseElem (uncastCfg cfg) S fin f skey na n seq pend toks)
      (parseElem cfg S fin f skey nb m seq pend toks) :=
  CastRel_parseElem cfg S fin f skey na nb n m seq pend toks hE hn

theorem C14_structure_decodeTop (cfg : DecCfg) (S : Strconv) (fin : StreamEnd) (f : Nat)
    (toks : List Tok) :
    CastRelOut S cfg.cast (decodeTop (uncastCfg cfg) S fin f toks) (decodeTop cfg S fin f toks) :=
  CastRel_decodeTop cfg S fin f toks

/-- what the relation says at a map: same keys, same order -/
theorem C14_rel_keys (S : Strconv) (c : CastCfg) (a : Entries) (w : Val)
    (h : CastRel S c (.map a) w) : ∃ b, w = .map b ∧ keys a = keys b ∧ CastRelEntries S c a b := by
  unfold CastRel at h
  obtain ⟨b, rfl, hb⟩ := h
  exact ⟨b, rfl, CastRelEntries_keys S c a b hb, hb⟩

/-- at a list: same length, element-wise related -/
theorem C14_rel_list (S : Strconv) (c : CastCfg) (xs : List Val) (w : Val)
    (h : CastRel S c (.list xs) w) : ∃ ys, w = .list ys ∧ xs.length = ys.length ∧ CastRelList S c xs ys := by
  unfold CastRel at h
  obtain ⟨ys, rfl, hb⟩ := h
  exact ⟨ys, rfl, CastRelList_length S c xs ys hb, hb⟩

/-- at a string leaf: the cast of that very text (the empty value of an empty element is not
    passed to `cast` and stays "") -/
theorem C14_rel_leaf (S : Strconv) (c : CastCfg) (s : Str) (w : Val) (h : CastRel S c (.str s) w) :
    (s = [] ∧ w = .str []) ∨ ∃ t, w = cast S c s t := by
  unfold CastRel at h; exact h

mutual
theorem rel_off_val (S : Strconv) (c : CastCfg) (hr : c.r = false) :
    ∀ (v w : Val), CastRel S c v w → w = v
  | .str s, w, h => by
      unfold CastRel at h
      rcases h with ⟨rfl, rfl⟩ | ⟨t, rfl⟩
      · rfl
      · exact cast_off S c s t hr
  | .null, w, h => by unfold CastRel at h; exact h
  | .bool b, w, h => by unfold CastRel at h; exact h
  | .num x, w, h => by unfold CastRel at h; exact h
  | .list xs, w, h => by
      unfold CastRel at h
      obtain ⟨ys, rfl, h⟩ := h
      rw [rel_off_list S c hr xs ys h]
  | .map a, w, h => by
      unfold CastRel at h
      obtain ⟨b, rfl, h⟩ := h
      rw [rel_off_entries S c hr a b h]
theorem rel_off_list (S : Strconv) (c : CastCfg) (hr : c.r = false) :
    ∀ (xs ys : List Val), CastRelList S c xs ys → ys = xs
  | [], ys, h => by unfold CastRelList at h; exact h
  | x :: xs, ys, h => by
      unfold CastRelList at h
      obtain ⟨y, ys', rfl, h1, h2⟩ := h
      rw [rel_off_val S c hr x y h1, rel_off_list S c hr xs ys' h2]
theorem rel_off_entries (S : Strconv) (c : CastCfg) (hr : c.r = false) :
    ∀ (a b : Entries), CastRelEntries S c a b → b = a
  | [], b, h => by unfold CastRelEntries at h; exact h
  | (k, v) :: rest, b, h => by
      unfold CastRelEntries at h
      obtain ⟨w, b', rfl, h1, h2⟩ := h
      rw [rel_off_val S c hr v w h1, rel_off_entries S c hr rest b' h2]
end

/-- the relation is not vacuous: with the cast flag off it is equality -/
theorem C14_rel_off (S : Strconv) (c : CastCfg) (hr : c.r = false) (v w : Val)
    (h : CastRel S c v w) : w = v := rel_off_val S c hr v w h

/-! ### non-vacuity: a small concrete `Strconv` -/

/-- knows the integers "42", "-7", the floats "3.5", "1e999" (= +Inf), "NaN", "Inf";
    lower-cases ASCII -/
def demoConv : Strconv where
  parseInt s := if s = "42".toList then some "i:42".toList
    else if s = "-7".toList then some "i:-7".toList else none
  parseUint s := if s = "42".toList then some "u:42".toList else none
  parseFloat s :=
    if s = "3.5".toList then some ("f:3.5".toList, false)
    else if s = "42".toList then some ("f:42".toList, false)
    else if s = "1e999".toList then some ("f:+Inf".toList, true)
    else if s = "NaN".toList then some ("f:NaN".toList, true)
    else if s = "Inf".toList then some ("f:+Inf".toList, true)
    else none
  lower s := s.map Char.toLower

def onCfg : CastCfg := { r := true }
def intCfg : CastCfg := { r := true, toInt := true }
def nanCfg : CastCfg := { r := true, nanInf := true }
def skipCfg : CastCfg := { r := true, skipSet := true, skip := ["id".toList] }

example : cast demoConv onCfg "3.5".toList "k".toList = .num "f:3.5".toList := by decide
example : cast demoConv onCfg "true".toList "k".toList = .bool true := by decide
example : cast demoConv onCfg "False".toList "k".toList = .bool false := by decide
example : cast demoConv onCfg "NaN".toList "k".toList = .str "NaN".toList := by decide
example : cast demoConv onCfg "Inf".toList "k".toList = .str "Inf".toList := by decide
example : cast demoConv onCfg "1e999".toList "k".toList = .str "1e999".toList := by decide
example : cast demoConv nanCfg "NaN".toList "k".toList = .num "f:NaN".toList := by decide
example : cast demoConv nanCfg "1e999".toList "k".toList = .num "f:+Inf".toList := by decide
example : cast demoConv onCfg "42".toList "k".toList = .num "f:42".toList := by decide
example : cast demoConv intCfg "42".toList "k".toList = .num "i:42".toList := by decide
example : cast demoConv onCfg "hello".toList "k".toList = .str "hello".toList := by decide
example : cast demoConv onCfg "truthy".toList "k".toList = .str "truthy".toList := by decide
example : cast demoConv {} "3.5".toList "k".toList = .str "3.5".toList := by decide
example : cast demoConv skipCfg "3.5".toList "id".toList = .str "3.5".toList := by decide
example : cast demoConv skipCfg "3.5".toList "k".toList = .num "f:3.5".toList := by decide

/-- the value of a successful decoding -/
def okVal : Outcome Val → Option Val
  | .ok v => some v
  | _ => none

/-- `<a id="42"><b>3.5</b><b>true</b><c>NaN</c><d/></a>` -/
def demoToks : List Tok :=
  [.start [] "a".toList [⟨[], "id".toList, "42".toList⟩],
   .start [] "b".toList [], .text "3.5".toList, .stop [] "b".toList,
   .start [] "b".toList [], .text "true".toList, .stop [] "b".toList,
   .start [] "c".toList [], .text "NaN".toList, .stop [] "c".toList,
   .start [] "d".toList [], .stop [] "d".toList,
   .stop [] "a".toList]

example : okVal (newMapXml { cast := onCfg } demoConv demoToks .eof) =
    some (.map [("a".toList, .map [("-id".toList, .num "f:42".toList),
      ("b".toList, .list [.num "f:3.5".toList, .bool true]),
      ("c".toList, .str "NaN".toList), ("d".toList, .str [])])]) := by
  decide

example : okVal (newMapXml {} demoConv demoToks .eof) =
    some (.map [("a".toList, .map [("-id".toList, .str "42".toList),
      ("b".toList, .list [.str "3.5".toList, .str "true".toList]),
      ("c".toList, .str "NaN".toList), ("d".toList, .str [])])]) := by
  decide

/-- why `CastRel` has the disjunct "`s = []` and the leaf stays `\"\"`": the value `""` of an empty
    element is produced by the EndElement case without calling `cast`; for an arbitrary `Strconv`
    (here one whose ParseInt accepts the empty text) `cast` of `""` is not `""` -/
def emptyIntConv : Strconv where
  parseInt s := if s = [] then some "i:0".toList else none
  parseUint _ := none
  parseFloat _ := none
  lower s := s

example : okVal (newMapXml { cast := intCfg } emptyIntConv [.start [] "a".toList [], .stop [] "a".toList] .eof)
    = some (.map [("a".toList, .str [])]) := by decide
example (t : Str) : cast emptyIntConv intCfg [] t = .num "i:0".toList := by
  rw [cast_key_irrelevant emptyIntConv intCfg [] t [] rfl]; decide

end Mxj.C14
