/-
  Mxj.Props.C03ExtIndent — "JSON-shaped data survives encoding", carried over to the INDENTED
  encoder `Map.XmlIndent(prefix, indent, rootTag...)` (model `mapXmlIndent`): nothing is lost,
  duplicated or moved by `XmlIndent` either.

  The pieces composed (all existing theorems):
    C03_encode_succeeds / C03_tree_preserves   the encoder's tree `n` and `image`
    C02_indent_bytes_eq_renderI, …_renderI_eq_render   indented bytes = prefix ++ canonical
                                                rendering of the layout tree `layI … n` of the
                                                SAME tree `n` (needs `Plain`, `Regular`)
    C02_indent_same_decode_trim                 a decoder that trims prefix / indent gives the
                                                same result on the layout tree's token stream
                                                (`docToksI`) as on the tree's own (`flatten`)
    C01_decode_conventions                      that result is the conventions' Map of `n`
  Statements:
    `C03_indent_tree_preserves`   (domain `EncDomain` only) there is ONE tree `n`; its
        conventions-decoding is `{root: image}` — exactly for the normalised value, `≈ᵥ` for the
        value; and the stream decoder `newMapXml`, run on the INDENTED token stream
        `docToksI prefix indent n`, returns a Map `≈ᵥ {root: image}` — when prefix and indent
        are made of characters the decoder trims;
    `C03_indent_bytes`            (`Plain`, `Regular` in addition) `XmlIndent` succeeds and its
        bytes are `prefix ++ render (layI indent 0 prefix n)` for that same `n`;
    `C03_indent_preserves`        both, for blank / tab prefix and indent.
  Level: tree / token.  THROUGH BYTES the composition with the tokenizer law `C02.TokLaw` does
  NOT go through, for two reasons: (i) `TokLaw` speaks about `tokens (render cfg n)` for a
  `WellNamed n` only, and `WellNamed` includes `noAdjText`; the layout tree has ADJACENT text
  nodes wherever an element has element children (the `"\n"` behind a child is followed by the
  padding of the next one, and an element's own text by the first `"\n" ++ padding`), for which
  a tokenizer reports ONE CharData token; (ii) the prefix stands in front of the root element,
  outside any `render`.  What is missing is a tokenizer law for merged character data plus the
  lemma that `newMapXml` does not see the split of a CharData run into several text tokens
  (the sequence decoder has it: `C04_indent_decode_merged`); no existing theorem supplies it
  for `newMapXml`.

  Property theorems and examples only; helper lemmas are in Mxj.Lemmas.IndentCor.
-/
import Mxj.Lemmas.IndentCor
import Mxj.Props.C01
import Mxj.Props.C02
import Mxj.Props.C02ExtIndent
import Mxj.Props.C03
namespace Mxj.C03
open Mxj Mxj.Enc

/-- the root `XmlIndent` picks for a Map of the domain is in the domain (and never a list) -/
theorem C03_indent_root_domain (m : Entries) (rt : Option Str) (hdom : EncDomain (.map m) = true) :
    EncDomain (mapXmlIndentRoot m rt).2 = true ∧ (mapXmlIndentRoot m rt).2.isList = false :=
  ⟨mapXmlIndentRoot_domain m rt hdom, mapXmlIndentRoot_not_list m rt⟩

/-- TREE / TOKEN LEVEL, every Map of the C03 domain, every root tag, prefix and indent:
    the encoder builds ONE tree `n` for the root `XmlIndent` picks; the decoding conventions
    applied to `n` give `{root: image}`; and if every character of prefix and indent is in the
    (default) decoder's trim set, decoding the INDENTED token stream — the prefix as a text
    token, then the tokens of the layout tree — gives a Map equal, up to the order of map
    entries, to `{root: image}`: every key with its value, every list in list order, attributes
    as attributes, text as text; the layout contributes nothing -/
theorem C03_indent_tree_preserves (S : Strconv) (fin : StreamEnd) (pfx indent : Str) (m : Entries)
    (rootTag : Option Str) (hdom : EncDomain (.map m) = true)
    (hpfx : inTrim dc pfx) (hind : inTrim dc indent) :
    ∃ n, encTree ec (mapXmlIndentRoot m rootTag).1 (mapXmlIndentRoot m rootTag).2.norm = .ok [n]
      ∧ siblingsValue dc S [n]
          = imageUnder (mapXmlIndentRoot m rootTag).1 (mapXmlIndentRoot m rootTag).2.norm
      ∧ Conv.doc dc S n
          ≈ᵥ imageUnder (mapXmlIndentRoot m rootTag).1 (mapXmlIndentRoot m rootTag).2
      ∧ ∃ v, newMapXml dc S (docToksI pfx indent n) fin = .ok v
          ∧ v ≈ᵥ imageUnder (mapXmlIndentRoot m rootTag).1 (mapXmlIndentRoot m rootTag).2 := by
  obtain ⟨hd, hl⟩ := C03_indent_root_domain m rootTag hdom
  generalize (mapXmlIndentRoot m rootTag).1 = key at *
  generalize (mapXmlIndentRoot m rootTag).2 = v at *
  have hwf := EncDomain_wf v hd
  have hln : v.norm.isList = false := by rw [isList_norm]; exact hl
  obtain ⟨ns, hns⟩ := C03_encode_succeeds key v hd
  obtain ⟨attrs, kids, rfl⟩ := encTree_single ec key v.norm ns hln hns
  have hdoc : Conv.doc dc S (.elem [] key attrs kids) = imageUnder key v.norm :=
    doc_encTree S key v.norm _ (wf_norm v hwf) hln hns
  have heq : Conv.doc dc S (.elem [] key attrs kids) ≈ᵥ imageUnder key v := by
    rw [hdoc]
    have := image_norm v hwf
    unfold Val.equiv at this ⊢
    simp only [imageUnder, norm_singleton_map, this]
  refine ⟨_, hns, C03_encode_preserves_norm S key v hwf _ hns, heq, ?_⟩
  have hin : Conv.inDomain dc S (.elem [] key attrs kids) = true := by
    obtain ⟨_, _, _, h⟩ := encTree_dom S key v.norm _ hns _ (List.mem_singleton.2 rfl)
    exact h
  have hadj : noAdjText (.elem [] key attrs kids) = true := encTree_noAdjText key v.norm _ hns
  obtain ⟨w, hw, hwe⟩ :=
    C01.C01_decode_conventions dc S fin [] [] (by simp) [] key attrs kids hin hadj
  refine ⟨w, ?_, Val.equiv_trans hwe heq⟩
  rw [C02.C02_indent_same_decode_trim dc S fin pfx indent hpfx hind]
  simpa using hw

/-- BYTES: with `Plain` and `Regular` (the hypotheses of the indent theorem
    `C02_indent_bytes_eq_renderI`; `Regular` is forced, see below) and a prefix and an indent
    that need no escaping, `XmlIndent` succeeds on the domain and writes the prefix followed by
    the canonical rendering of the layout tree of the tree `n` of `C03_indent_tree_preserves`;
    the compact encoder writes the canonical rendering of `n` itself -/
theorem C03_indent_bytes (pfx indent : Str) (m : Entries) (rootTag : Option Str) (n : Node)
    (hp : Plain ec (.map m) = true) (hr : Regular ec (.map m) = true)
    (hpfx : plainText ec pfx = true) (hind : plainText ec indent = true)
    (hn : encTree ec (mapXmlIndentRoot m rootTag).1 (mapXmlIndentRoot m rootTag).2.norm = .ok [n]) :
    mapXmlIndent ec pfx indent m rootTag = .ok (pfx ++ render ec (layI indent 0 pfx n))
      ∧ marshal ec (mapXmlIndentRoot m rootTag).1 (mapXmlIndentRoot m rootTag).2
          = .ok (render ec n) := by
  obtain ⟨attrs, kids, e⟩ := encTree_single ec _ _ [n]
    (by rw [isList_norm]; exact mapXmlIndentRoot_not_list m rootTag) hn
  have e' : n = .elem [] (mapXmlIndentRoot m rootTag).1 attrs kids := by simpa using e
  constructor
  · rw [C02.C02_indent_bytes_eq_renderI ec pfx indent m rootTag hp hr, hn, e']
    simp only [Except.map, List.flatMap_cons, List.flatMap_nil, List.append_nil]
    rw [C02.C02_indent_renderI_eq_render ec indent 0 pfx hind hpfx]
    simp [nlOf]
  · rw [C02.C02_render_eq_bytes ec _ _ [n] (mapXmlIndentRoot_plain ec m rootTag hp) hn]
    simp

/-- C03 for `XmlIndent`, end to end at the level the existing theorems reach: a Map of the C03
    domain that is `Plain` and `Regular`, blank / tab prefix and indent.  `XmlIndent` succeeds;
    its bytes are the prefix and the rendering of the layout tree of ONE tree `n`, the tree whose
    conventions-decoding is `{root: image}` (`C03_tree_preserves`); and decoding the indented
    token stream gives a Map `≈ᵥ {root: image}` — the same image the compact encoder is shown to
    preserve, so `XmlIndent` loses, duplicates and moves nothing -/
theorem C03_indent_preserves (S : Strconv) (fin : StreamEnd) (pfx indent : Str) (m : Entries)
    (rootTag : Option Str) (hdom : EncDomain (.map m) = true)
    (hp : Plain ec (.map m) = true) (hr : Regular ec (.map m) = true)
    (hpfx : ∀ c ∈ pfx, c = ' ' ∨ c = '\t') (hind : ∀ c ∈ indent, c = ' ' ∨ c = '\t') :
    ∃ n, encTree ec (mapXmlIndentRoot m rootTag).1 (mapXmlIndentRoot m rootTag).2.norm = .ok [n]
      ∧ mapXmlIndent ec pfx indent m rootTag = .ok (pfx ++ render ec (layI indent 0 pfx n))
      ∧ siblingsValue dc S [n]
          = imageUnder (mapXmlIndentRoot m rootTag).1 (mapXmlIndentRoot m rootTag).2.norm
      ∧ ∃ v, newMapXml dc S (docToksI pfx indent n) fin = .ok v
          ∧ v ≈ᵥ imageUnder (mapXmlIndentRoot m rootTag).1 (mapXmlIndentRoot m rootTag).2 := by
  obtain ⟨n, hn, hs, _, hv⟩ := C03_indent_tree_preserves S fin pfx indent m rootTag hdom
    (inTrim_of_blank dc rfl pfx hpfx) (inTrim_of_blank dc rfl indent hind)
  exact ⟨n, hn, (C03_indent_bytes pfx indent m rootTag n hp hr (plainText_of_blank ec pfx hpfx)
    (plainText_of_blank ec indent hind) hn).1, hs, hv⟩

/-- with a root tag the image is that of the whole Map under the tag -/
theorem C03_indent_preserves_rootTag (S : Strconv) (fin : StreamEnd) (pfx indent : Str)
    (m : Entries) (rt : Str) (hdom : EncDomain (.map m) = true)
    (hp : Plain ec (.map m) = true) (hr : Regular ec (.map m) = true)
    (hpfx : ∀ c ∈ pfx, c = ' ' ∨ c = '\t') (hind : ∀ c ∈ indent, c = ' ' ∨ c = '\t') :
    ∃ n, mapXmlIndent ec pfx indent m (some rt) = .ok (pfx ++ render ec (layI indent 0 pfx n))
      ∧ ∃ v, newMapXml dc S (docToksI pfx indent n) fin = .ok v
          ∧ v ≈ᵥ .map [(rt, image (.map m))] := by
  obtain ⟨n, _, hb, _, hv⟩ := C03_indent_preserves S fin pfx indent m (some rt) hdom hp hr hpfx hind
  exact ⟨n, hb, hv⟩

/-- the extra tokens are white space only and the tree's tokens all survive, in order -/
theorem C03_indent_nothing_dropped (pfx indent : Str) (n : Node) :
    (flatten n).Sublist (docToksI pfx indent n)
      ∧ WsExt (wsOk (pfx ++ indent)) (docToksI pfx indent n) (flatten n) :=
  ⟨C02.C02_indent_tokens_sublist pfx indent n, C02.C02_indent_tokens pfx indent n⟩

/-- outside the domain `XmlIndent` fails as the compact encoder does (every Map) -/
theorem C03_indent_fails_alike (pfx indent : Str) (m : Entries) (rootTag : Option Str)
    (e : ErrKind) :
    mapXmlIndent ec pfx indent m rootTag = .error e
      ↔ marshal ec (mapXmlIndentRoot m rootTag).1 (mapXmlIndentRoot m rootTag).2 = .error e :=
  C02.C02_indent_error_iff ec pfx indent m rootTag e

/-! ### non-vacuity -/

/-- the C03 sample without its empty list (an empty list is not `Regular`): an attribute entry,
    a text entry with a special character, a list of two maps, a null -/
def indentSample : Entries := [("doc".toList, .map [
  ("note".toList, .map [("-id".toList, .num "i:7".toList), ("#text".toList, .str " a<b ".toList)]),
  ("item".toList, .list [.map [("n".toList, .num "f:1.5".toList)], .map [("n".toList, .bool true)]]),
  ("z".toList, .null)])]

example : EncDomain (.map indentSample) = true := by decide
example : Plain ec (.map indentSample) = true := by rfl
example : Regular ec (.map indentSample) = true := by decide

set_option maxRecDepth 4096 in
/-- the indented bytes -/
example : mapXmlIndent ec " ".toList "\t".toList indentSample none = .ok
    (" <doc>\n \t<item>\n \t\t<n>1.5</n>\n \t</item>\n \t<item>\n \t\t<n>true</n>\n \t</item>\n"
      ++ " \t<note id=\"7\"> a&lt;b </note>\n \t<z/>\n </doc>").toList := by rfl

/-- the one tree -/
def indentSampleTree : Node :=
  .elem [] "doc".toList []
    [.elem [] "item".toList [] [.elem [] "n".toList [] [.text "1.5".toList]],
     .elem [] "item".toList [] [.elem [] "n".toList [] [.text "true".toList]],
     .elem [] "note".toList [⟨[], "id".toList, "7".toList⟩] [.text " a<b ".toList],
     .elem [] "z".toList [] []]

example : encTree ec (mapXmlIndentRoot indentSample none).1 (mapXmlIndentRoot indentSample none).2.norm
    = .ok [indentSampleTree] := by rfl

/-- decoding the indented token stream: the image (list in list order, attribute as a string,
    text trimmed, null as "") -/
example : newMapXml dc C02.indentS0 (docToksI " ".toList "\t".toList indentSampleTree) .eof
    = .ok (.map [("doc".toList, .map [
        ("item".toList, .list [.map [("n".toList, .str "1.5".toList)],
                               .map [("n".toList, .str "true".toList)]]),
        ("note".toList, .map [("-id".toList, .str "7".toList), ("#text".toList, .str "a<b".toList)]),
        ("z".toList, .str [])])]) := by rfl

example : imageUnder (mapXmlIndentRoot indentSample none).1 (mapXmlIndentRoot indentSample none).2
    = .map [("doc".toList, .map [
        ("note".toList, .map [("-id".toList, .str "7".toList), ("#text".toList, .str "a<b".toList)]),
        ("item".toList, .list [.map [("n".toList, .str "1.5".toList)],
                               .map [("n".toList, .str "true".toList)]]),
        ("z".toList, .str [])])] := by decide

/-- the theorem instantiated -/
example : ∃ n v, mapXmlIndent ec " ".toList "\t".toList indentSample none
        = .ok (" ".toList ++ render ec (layI "\t".toList 0 " ".toList n))
      ∧ newMapXml dc C02.indentS0 (docToksI " ".toList "\t".toList n) .eof = .ok v
      ∧ v ≈ᵥ imageUnder (mapXmlIndentRoot indentSample none).1 (mapXmlIndentRoot indentSample none).2 := by
  obtain ⟨n, _, h1, _, v, h2, h3⟩ := C03_indent_preserves C02.indentS0 .eof " ".toList "\t".toList
    indentSample none (by decide) (by rfl) (by decide) (by decide) (by decide)
  exact ⟨n, v, h1, h2, h3⟩

/-! ### the hypotheses are needed -/

/-- prefix / indent in the trim set: with `indent = "x"` the layout comes back as a `#text`
    entry that is not in the image -/
example : newMapXml dc C02.indentS0
      (docToksI [] "x".toList (.elem [] "a".toList [] [.elem [] "b".toList [] [.text "v".toList]])) .eof
    = .ok (.map [("a".toList, .map [("b".toList, .str "v".toList), ("#text".toList, .str "x".toList)])]) := by
  rfl
example : imageUnder "a".toList (.map [("b".toList, .str "v".toList)])
    = .map [("a".toList, .map [("b".toList, .str "v".toList)])] := by decide

/-- `Regular` (for the bytes): the full C03 sample has an empty list, and `XmlIndent` writes it
    (directly below the root) without the newline behind it — `<none/>` and `<note …>` share a
    line; deeper down the padding goes INSIDE the tag (`C02ExtIndent`, counterexample (a)).  That
    is not `prefix ++ render (layI …)` of the encoder's tree. -/
example : Regular ec (.map [("doc".toList, sample)]) = false := by decide
set_option maxRecDepth 4096 in
example : mapXmlIndent ec [] "  ".toList [("doc".toList, sample)] none = .ok
    ("<doc>\n  <item>\n    <n>1.5</n>\n  </item>\n  <item>\n    <n>true</n>\n  </item>\n"
      ++ "  <none/>  <note id=\"7\"> a&lt;b </note>\n  <z/>\n</doc>").toList := by rfl

set_option maxRecDepth 4096 in
/-- … whereas the rendering of the layout tree of the encoder's tree has the newline -/
example : (encTree ec "doc".toList sample.norm).map
      (fun ns => ns.flatMap (fun n => render ec (layI "  ".toList 0 [] n))) = .ok
    ("<doc>\n  <item>\n    <n>1.5</n>\n  </item>\n  <item>\n    <n>true</n>\n  </item>\n"
      ++ "  <none/>\n  <note id=\"7\"> a&lt;b </note>\n  <z/>\n</doc>").toList := by rfl

/-- `EncDomain`: an attribute with a list value is rejected by both encoders -/
example : EncDomain (.map [("r".toList, .map [("-a".toList, .list [])])]) = false := by decide
example : mapXmlIndent ec [] "  ".toList [("r".toList, .map [("-a".toList, .list [])])] none
    = .error .other := by rfl

end Mxj.C03
