/-
  Mxj.Props.C18 — "Package options have only their documented effect and can always be restored".

  The option variables are modelled as the state machine `Mxj.Model.Opt` (one field per variable,
  one `Call` constructor per setter form).  The theorems: explicit calls are idempotent
  (`C18_idempotent`), argument-less forms do what the documentation says (`C18_argless_*`), the
  two escaping switches are never both on (`C18_never_both`), any history with punctuation key
  prefixes can be undone by the explicit restore calls (`C18_restore`; the hypothesis is needed:
  `C18_restore_needs_punct`), two derived variables are functions of their masters, the model's
  fresh state and set of writers agree with the regenerated facts of the Go source, and the facts
  part of non-interference (`C18_seq_json_ignore_prefix_and_case`,
  `C18_decoders_ignore_encoder_switches`).
-/
import Mxj.Lemmas.Opt
import Mxj.Lemmas.Facts
namespace Mxj.C18
open Mxj Mxj.Opt

/-! ### idempotence -/

/-- every setter called with an explicit value is idempotent (`explicit`: toggling setters with
    `some b`, the string/number/flag setters, the two empty-element setters, the non-toggling
    argument-less forms; for SetGlobalKeyMapPrefix the argument must be a single character) -/
theorem C18_idempotent (st : St) (c : Call) (h : explicit c = true) :
    step (step st c) c = step st c := by
  cases c with
  | setGlobalKeyMapPrefix s =>
    match s, h with
    | [p], _ => simp [step, rekey_idem]
  | disableTrimWhiteSpace b => cases b <;> simp [step]
  | prependAttrWithHyphen v => cases v <;> simp [step]
  | setFieldSeparator s =>
    cases s with
    | none => simp [step]
    | some x => cases x <;> simp [step]
  | setArraySize n => by_cases hn : n > 32 <;> simp [step, hn]
  | xmlEscapeChars b =>
    cases b with
    | none => simp [explicit] at h
    | some v => simp [step, tog]
  | xmlEscapeCharsDecoder b =>
    cases b with
    | none => simp [explicit] at h
    | some v =>
      cases v <;> cases hx : st.xmlEscapeChars <;> simp [step, tog, hx]
  | setAttrPrefix s => simp [step]
  | setCheckTagToSkipFunc r => simp [step]
  | xmlGoEmptyElemSyntax => simp [step]
  | xmlDefaultEmptyElemSyntax => simp [step]
  | _ =>
    rename_i b
    cases b with
    | none => simp [explicit] at h
    | some v => simp [step, tog]

/-- the one-character condition on SetGlobalKeyMapPrefix is needed: with a two-character (or an
    empty) prefix a second identical call changes the keys again -/
theorem C18_idempotent_needs_single_char :
    (∃ s, step (step dflt (.setGlobalKeyMapPrefix s)) (.setGlobalKeyMapPrefix s)
        ≠ step dflt (.setGlobalKeyMapPrefix s)) :=
  ⟨['a', 'b'], by decide⟩

/-! ### the argument-less forms -/

/-- the argument-less form of each of the eleven pure toggling setters flips its field, and
    applying it twice restores the whole state -/
theorem C18_argless_toggle (st : St) (t : Toggle) :
    t.field (step st (t.call none)) = !t.field st ∧
    step (step st (t.call none)) (t.call none) = st := by
  cases t <;> simp [Toggle.field, Toggle.call, step, tog]

/-- with an explicit value a toggling setter sets its field -/
theorem C18_toggle_explicit (st : St) (t : Toggle) (b : Bool) :
    t.field (step st (t.call (some b))) = b := by
  cases t <;> simp [Toggle.field, Toggle.call, step, tog]

/-- XMLEscapeCharsDecoder() flips its own field, and twice restores that field -/
theorem C18_argless_toggle_escape_decoder (st : St) :
    (step st (.xmlEscapeCharsDecoder none)).xmlEscapeCharsDecoder = !st.xmlEscapeCharsDecoder ∧
    (step (step st (.xmlEscapeCharsDecoder none)) (.xmlEscapeCharsDecoder none)).xmlEscapeCharsDecoder
      = st.xmlEscapeCharsDecoder := by
  simp [step, tog]

/-- XMLEscapeChars() is a toggle while the decoder switch is off … -/
theorem C18_argless_toggle_escape (st : St) (h : st.xmlEscapeCharsDecoder = false) :
    (step st (.xmlEscapeChars none)).xmlEscapeChars = !st.xmlEscapeChars ∧
    step (step st (.xmlEscapeChars none)) (.xmlEscapeChars none) = st := by
  cases st; simp_all [step, tog]

/-- … and has no effect while it is on (in a reachable state: `C18_never_both`) -/
theorem C18_argless_escape_blocked (st : St) (h : st.xmlEscapeCharsDecoder = true)
    (h' : st.xmlEscapeChars = false) : step st (.xmlEscapeChars none) = st := by
  cases st; simp_all [step, tog]

/-- the call forms that are not `explicit` are exactly the argument-less forms of the eleven pure
    toggles and of the two escaping switches (covered by the theorems above), and
    SetGlobalKeyMapPrefix with an argument that is not one character -/
theorem C18_argless_cover (c : Call) (h : explicit c = false) :
    (∃ t : Toggle, c = t.call none) ∨ c = .xmlEscapeChars none ∨ c = .xmlEscapeCharsDecoder none
      ∨ ∃ s, c = .setGlobalKeyMapPrefix s := by
  cases c with
  | setGlobalKeyMapPrefix s => exact .inr (.inr (.inr ⟨s, rfl⟩))
  | includeTagSeqNum b => cases b <;> simp [explicit] at h; exact .inl ⟨.includeTagSeqNum, rfl⟩
  | coerceKeysToLower b => cases b <;> simp [explicit] at h; exact .inl ⟨.coerceKeysToLower, rfl⟩
  | coerceKeysToSnakeCase b =>
    cases b <;> simp [explicit] at h; exact .inl ⟨.coerceKeysToSnakeCase, rfl⟩
  | castValuesToInt b => cases b <;> simp [explicit] at h; exact .inl ⟨.castValuesToInt, rfl⟩
  | handleXMPPStreamTag b =>
    cases b <;> simp [explicit] at h; exact .inl ⟨.handleXMPPStreamTag, rfl⟩
  | decodeSimpleValuesAsMap b =>
    cases b <;> simp [explicit] at h; exact .inl ⟨.decodeSimpleValuesAsMap, rfl⟩
  | castNanInf b => cases b <;> simp [explicit] at h; exact .inl ⟨.castNanInf, rfl⟩
  | castValuesToFloat b => cases b <;> simp [explicit] at h; exact .inl ⟨.castValuesToFloat, rfl⟩
  | castValuesToBool b => cases b <;> simp [explicit] at h; exact .inl ⟨.castValuesToBool, rfl⟩
  | xmlCheckIsValid b => cases b <;> simp [explicit] at h; exact .inl ⟨.xmlCheckIsValid, rfl⟩
  | leafUseDotNotation b => cases b <;> simp [explicit] at h; exact .inl ⟨.leafUseDotNotation, rfl⟩
  | xmlEscapeChars b => cases b <;> simp [explicit] at h; exact .inr (.inl rfl)
  | xmlEscapeCharsDecoder b => cases b <;> simp [explicit] at h; exact .inr (.inr (.inl rfl))
  | _ => simp [explicit] at h

/-- XMLEscapeCharsDecoder() twice does not restore the whole state: it clears the encoder switch -/
theorem C18_argless_decoder_twice_clears_encoder :
    run (run dflt [.xmlEscapeChars (some true)]) [.xmlEscapeCharsDecoder none, .xmlEscapeCharsDecoder none]
      ≠ run dflt [.xmlEscapeChars (some true)] := by decide

/-- DisableTrimWhiteSpace() disables (it does not toggle) -/
theorem C18_argless_disable_trim (st : St) :
    (step st (.disableTrimWhiteSpace none)).disableTrimWhiteSpace = true ∧
    (step st (.disableTrimWhiteSpace none)).trimRunes = trimKeep ∧
    step st (.disableTrimWhiteSpace none) = step st (.disableTrimWhiteSpace (some true)) := by
  simp [step]

/-- SetFieldSeparator() and SetFieldSeparator("") reset to ":" -/
theorem C18_argless_fieldsep (st : St) :
    (step st (.setFieldSeparator none)).fieldSep = [':'] ∧
    (step st (.setFieldSeparator (some []))).fieldSep = [':'] ∧
    step st (.setFieldSeparator none) = step st (.setFieldSeparator (some [':'])) ∧
    step st (.setFieldSeparator (some [])) = step st (.setFieldSeparator (some [':'])) := by
  simp [step]

/-! ### invariants over all histories -/

/-- the two escaping switches are never both on, after any history from the fresh state -/
theorem C18_never_both (calls : List Call) :
    ¬ ((run dflt calls).xmlEscapeChars = true ∧ (run dflt calls).xmlEscapeCharsDecoder = true) := by
  refine run_inv (fun st => ¬ (st.xmlEscapeChars = true ∧ st.xmlEscapeCharsDecoder = true))
    ?_ calls dflt (by decide)
  intro st c h
  cases c with
  | prependAttrWithHyphen v => cases v <;> exact h
  | setFieldSeparator s =>
    cases s with
    | none => exact h
    | some x => cases x <;> exact h
  | xmlEscapeChars b =>
    cases hd : st.xmlEscapeCharsDecoder <;> simp [step, hd]
  | xmlEscapeCharsDecoder b =>
    cases hd : tog st.xmlEscapeCharsDecoder b <;> cases he : st.xmlEscapeChars <;>
      simp [step, hd, he]
  | _ => exact h

/-- trimRunes is a function of the flag -/
theorem C18_trim_invariant (calls : List Call) :
    (run dflt calls).trimRunes
      = if (run dflt calls).disableTrimWhiteSpace then trimKeep else trimAll := by
  refine run_inv (fun st => st.trimRunes = if st.disableTrimWhiteSpace then trimKeep else trimAll)
    ?_ calls dflt (by decide)
  intro st c h
  cases c with
  | prependAttrWithHyphen v => cases v <;> exact h
  | setFieldSeparator s =>
    cases s with
    | none => exact h
    | some x => cases x <;> exact h
  | disableTrimWhiteSpace b =>
    cases b with
    | none => simp [step]
    | some x => cases x <;> simp [step]
  | _ => exact h

/-- lenAttrPrefix is the byte length of attrPrefix -/
theorem C18_lenAttrPrefix_invariant (calls : List Call) :
    (run dflt calls).lenAttrPrefix = (String.ofList (run dflt calls).attrPrefix).utf8ByteSize := by
  refine run_inv (fun st => st.lenAttrPrefix = (String.ofList st.attrPrefix).utf8ByteSize)
    ?_ calls dflt (by decide)
  intro st c h
  cases c with
  | prependAttrWithHyphen v =>
    cases v with
    | true => show (1 : Nat) = (String.ofList ['-']).utf8ByteSize; decide
    | false => show (0 : Nat) = (String.ofList []).utf8ByteSize; decide
  | setFieldSeparator s =>
    cases s with
    | none => exact h
    | some x => cases x <;> exact h
  | setAttrPrefix s => simp [step]
  | _ => exact h

/-! ### restoring -/

/-- after ANY finite history of calls whose key-prefix arguments are single punctuation
    characters (one character, not a lower-case ASCII letter), setting every option back to its
    default yields exactly the fresh state -/
theorem C18_restore (calls : List Call) (h : punctPrefixes calls = true) :
    run (run dflt calls) restoreCalls = dflt :=
  restore_of_keysOK _ (keysOK_run calls h)

/-- and the hypothesis is needed: after SetGlobalKeyMapPrefix("t") the keys are "ttext" …, and
    SetGlobalKeyMapPrefix("#") then replaces every 't': "#ex#" -/
theorem C18_restore_needs_punct : ∃ calls, run (run dflt calls) restoreCalls ≠ dflt :=
  ⟨[.setGlobalKeyMapPrefix ['t']], by decide⟩

/-- the same for an empty prefix: the keys lose their first character ("text"), and the restore
    then rewrites every 't' ("#ex#") … -/
theorem C18_restore_needs_nonempty :
    run (run dflt [.setGlobalKeyMapPrefix []]) restoreCalls ≠ dflt := by decide

/-- … and for a two-character prefix: "##text" stays "##text" under SetGlobalKeyMapPrefix("#") -/
theorem C18_restore_needs_single :
    run (run dflt [.setGlobalKeyMapPrefix ['#', '#']]) restoreCalls ≠ dflt := by decide

/-! ### agreement with the Go source (regenerated facts) -/

/-- the model's fresh state is the source's initialisers: for every (name, value) in
    `dump dflt`, `Generated.defaults` maps the same name to the same value -/
theorem C18_defaults_match_source :
    (dump dflt).all (fun kv => (Generated.defaults.lookup kv.1) == some kv.2) = true := by decide

/-- only the option setters write package-level variables: every entry of
    `Generated.globalWriters` is one of the setters named in the model -/
theorem C18_only_setters_write_globals :
    (Generated.globalWriters.map (·.1)).all (fun f => setterNames.contains f) = true := by decide

/-- conversely every modelled setter is a writer in the source, and it assigns exactly the
    variables the model's `step` assigns (`modelWrites`, cf. `C18_frame`) -/
theorem C18_writers_match_model (c : Call) :
    Generated.globalWriters.lookup (goName c) = some (modelWrites c) := by
  cases c <;> rfl

/-- compare two dumps entry by entry: equal, or the name is in `modelWrites` -/
local macro "frame_tac" : tactic => `(tactic|
  (simp only [dump, List.zip_cons_cons, List.zip_nil_right, List.forall_mem_cons] <;>
   and_intros <;>
   first
     | exact Or.inl rfl
     | (refine Or.inr ?_; simp [modelWrites]; done)
     | (simp; done)))

/-- frame ("only their documented effect"): a call changes no variable outside `modelWrites`
    (the dumps before and after agree entry-wise except at those names) -/
theorem C18_frame (st : St) (c : Call) :
    ∀ p ∈ List.zip (dump st) (dump (step st c)), p.1 = p.2 ∨ p.1.1 ∈ modelWrites c := by
  cases c with
  | prependAttrWithHyphen v => cases v <;> frame_tac
  | setFieldSeparator s =>
    have e' : ∃ x, step st (.setFieldSeparator s) = { st with fieldSep := x } := by
      cases s with
      | none => exact ⟨_, rfl⟩
      | some x => cases x <;> exact ⟨_, rfl⟩
    obtain ⟨x, hx⟩ := e'
    rw [hx]
    frame_tac
  | _ => frame_tac

/-! ### non-interference (facts) -/

theorem mem_of_all_contains (roots S : List String) (h : roots.all (S.contains ·) = true)
    (r : String) (hr : r ∈ roots) : r ∈ S := by
  have := (List.all_eq_true.mp h) r hr
  simpa using this

/-- attribute prefix and case folding are not read anywhere in the transitive callees of the
    sequence codec and the JSON functions -/
theorem C18_seq_json_ignore_prefix_and_case (root g : String)
    (hr : root ∈ Generated.seqJsonRoots) (h : Facts.Reach root g) :
    "lowerCase" ∉ Facts.readsOf g ∧ "attrPrefix" ∉ Facts.readsOf g ∧
      "lenAttrPrefix" ∉ Facts.readsOf g := by
  have hc : Facts.closed Generated.seqJsonRootsClosure = true := by decide
  have hn : Facts.noneReads Generated.seqJsonRootsClosure
      ["lowerCase", "attrPrefix", "lenAttrPrefix"] = true := by decide
  have hin := mem_of_all_contains Generated.seqJsonRoots Generated.seqJsonRootsClosure
    (by decide) root hr
  have key := fun v hv => Facts.not_reads_of_cert _ _ hc hn root g v hin h hv
  exact ⟨key _ (by simp), key _ (by simp), key _ (by simp)⟩

/-- … and the encoder switches are not read by any decoder -/
theorem C18_decoders_ignore_encoder_switches (root g : String)
    (hr : root ∈ Generated.decoderRoots) (h : Facts.Reach root g) :
    "xmlEscapeChars" ∉ Facts.readsOf g ∧ "useGoXmlEmptyElemSyntax" ∉ Facts.readsOf g ∧
      "xmlCheckIsValid" ∉ Facts.readsOf g := by
  have hc : Facts.closed Generated.decoderRootsClosure = true := by decide
  have hn : Facts.noneReads Generated.decoderRootsClosure
      ["xmlEscapeChars", "useGoXmlEmptyElemSyntax", "xmlCheckIsValid"] = true := by decide
  have hin := mem_of_all_contains Generated.decoderRoots Generated.decoderRootsClosure
    (by decide) root hr
  have key := fun v hv => Facts.not_reads_of_cert _ _ hc hn root g v hin h hv
  exact ⟨key _ (by simp), key _ (by simp), key _ (by simp)⟩

/-- the root sets are not vacuous -/
theorem C18_roots_nonempty :
    18 ≤ Generated.seqJsonRoots.length ∧ 13 ≤ Generated.decoderRoots.length := by decide

/-! ### non-vacuity: a concrete history -/

def sampleHistory : List Call :=
  [.xmlEscapeChars none, .setGlobalKeyMapPrefix ['_'], .xmlEscapeCharsDecoder (some true),
   .setAttrPrefix ['@'], .disableTrimWhiteSpace none, .xmlEscapeChars (some true)]

example : punctPrefixes sampleHistory = true := by decide

/-- its final state: keys re-prefixed, decoder switch on and (because of it) the encoder
    switch off although it was requested last -/
example : run dflt sampleHistory =
    { dflt with textK := "_text".toList, seqK := "_seq".toList, commentK := "_comment".toList,
                attrK := "_attr".toList, directiveK := "_directive".toList,
                procinstK := "_procinst".toList, targetK := "_target".toList,
                instK := "_inst".toList, attrPrefix := ['@'], lenAttrPrefix := 1,
                disableTrimWhiteSpace := true, trimRunes := trimKeep,
                xmlEscapeChars := false, xmlEscapeCharsDecoder := true } := by decide

example : run dflt sampleHistory ≠ dflt := by decide
example : run (run dflt sampleHistory) restoreCalls = dflt := by decide
example : run (run dflt sampleHistory) restoreCalls = dflt := C18_restore _ (by decide)

/-- while the decoder switch is on, XMLEscapeChars(true) is ignored -/
example : (run (run dflt [.xmlEscapeCharsDecoder none]) [.xmlEscapeChars (some true)]).xmlEscapeChars
    = false := by decide

end Mxj.C18
