/-
  Mxj.Props.C17ExtFrame — frame of C17's API over the package-level state, on facts regenerated from
  /repo's current source on every run: every read-only operation, decoder and encoder (and whatever they reach) reads only the package-level variables that exist today - the documented options, the reserved key names, the error values and the escape table; a buffer, cache, counter or table added at package level and used by any of them is a new name in a regenerated read set;
  and none of them (nor any function they can reach) assigns a package-level variable, so what they
  return is a function of their arguments and of exactly those options - no hidden state carried
  from one call to the next.
-/
import Mxj.Lemmas.Facts
namespace Mxj.C17
open Mxj

/-- the option variables C17's functions may read -/
def frameAllowed : List String := ["CustomDecoder", "JsonUseNumber", "KeyNotExistError", "NoRoot", "PathNotExistError", "XmlCharsetReader", "attrK", "attrPrefix", "castNanInf", "castToBool", "castToFloat", "castToInt", "checkTagToSkip", "commentK", "decodeSimpleValuesAsMap", "defaultArraySize", "directiveK", "escapechars", "fieldSep", "handleXMPPStreamTag", "includeTagSeqNum", "instK", "jhandlerPollInterval", "lenAttrPrefix", "lowerCase", "procinstK", "seqK", "snakeCaseKeys", "targetK", "textK", "trimRunes", "useDotNotation", "useGoXmlEmptyElemSyntax", "xhandlerPollInterval", "xmlCheckIsValid", "xmlEscapeChars", "xmlEscapeCharsDecoder"]

theorem C17_frame_reads (root g v : String) (hr : root ∈ Generated.queryRoots)
    (h : Facts.Reach root g) (hv : v ∈ Facts.readsOf g) : v ∈ frameAllowed := by
  have hc : Facts.closed Generated.queryRootsClosure = true := by decide
  have ho : Facts.onlyReads Generated.queryRootsClosure frameAllowed = true := by decide
  have hin := Facts.mem_of_all_contains' Generated.queryRoots Generated.queryRootsClosure
    (by decide) root hr
  exact Facts.reads_subset_of_cert _ _ hc ho root g v hin h hv

theorem C17_frame_no_hidden_state (root g : String) (hr : root ∈ Generated.queryRoots)
    (h : Facts.Reach root g) : Facts.writesOf g = [] := by
  have hc : Facts.closed Generated.queryRootsClosure = true := by decide
  have hn : Facts.noneWrites Generated.queryRootsClosure = true := by decide
  have hin := Facts.mem_of_all_contains' Generated.queryRoots Generated.queryRootsClosure
    (by decide) root hr
  exact Facts.not_writes_of_cert _ hc hn root g hin h

/-- the statements are not vacuous: the API group is present in the source -/
theorem C17_frame_roots_present : Generated.queryRoots.length ≥ 1 := by decide

end Mxj.C17
