/-
  Mxj.Props.C16ExtForms — C16 for the API *forms* around the encoders (model: Mxj.Model.Forms):
  "the Writer forms write exactly the bytes the byte-returning forms return (and the Raw forms
  return them as well), and the Maps string/file forms are the concatenation of the per-Map
  encodings."

  (a) `C16_forms_writer_eq_bytes*`   — Writer forms: on success the Writer's content is the old
      content followed by exactly the bytes of the byte-returning form; on an encoder error the
      Writer is untouched and the error is the encoder's.  Xml, XmlIndent, Json, JsonIndent.
  (b) `C16_forms_raw_returns_written*` — `JsonWriterRaw` / `JsonIndentWriterRaw` return exactly
      what they wrote, and write what the non-Raw forms write.  (`XmlWriterRaw` and
      `XmlIndentWriterRaw` are commented out in xml.go.)
  (c) `C16_forms_maps_concat*` / `C16_forms_maps_split*` — when every member encodes, the string
      forms are the concatenation of the member encodings (`JsonStringIndent`: joined with "\n",
      no trailing "\n"); the result for `a ++ b` is composed of the results for `a` and for `b`.
  (d) `C16_forms_maps_first_error*` — first failing member at position k: the first k encodings
      and that member's error; nothing after position k is looked at.
  (e) `C16_forms_maps_perm_invariant*` — members replaced by `≈ᵥ` members (same Map, entries in
      another order at any depth): same string, same error.  All string, file and Writer forms.
  (f) `C16_forms_file_eq_string*` — the file forms leave exactly the string form in the file,
      whatever was in it before; on an encoder error the file is not touched (the Go code
      encodes BEFORE `os.Create`).
  (g) `C16_forms_json_string_ignores_flag*` — `Maps.JsonString(safe)`,
      `Maps.JsonStringIndent(…, safe)` and the JSON file forms give the same bytes for both
      values of the flag (observed behaviour: the flag is not handed to `v.Json()`).
  (+) `C16_forms_writer_seq_eq_string*` — one Writer-form call per member on the same Writer
      appends exactly the string form (what the doc comments of the file forms recommend for
      appending to a file).

  The theorems for an arbitrary byte-returning encoder (`C16_forms_writer_eq_bytes`,
  `C16_forms_raw_returns_written`, `C16_forms_loop_*`, `C16_forms_file_eq_string`) cover every
  form at once — each named form is a definitional instance — and in particular the JSON forms
  under an encoder that CAN fail (the model's JSON encoder is total, so for the JSON forms of the
  model the error statements are vacuous; `C16_forms_json_never_fails`).

  The examples at the end are the outputs of the Go library on the same Maps (go1.23.5).
  Helper lemmas: Mxj.Lemmas.Forms.
-/
import Mxj.Lemmas.Forms
import Mxj.Props.C16
import Mxj.Props.C16ExtIndent
namespace Mxj.C16
open Mxj Mxj.Enc Mxj.Forms

/-! ### (a) the Writer forms write exactly the bytes of the byte-returning forms -/

/-- every Writer form, whatever the encoder: success appends exactly the encoder's bytes, an
    encoder error leaves the Writer alone and is returned -/
theorem C16_forms_writer_eq_bytes (enc : Bytes) (w : Sink) :
    (∀ b, enc = .ok b → writerForm enc w = (⟨w.written ++ b⟩, none))
    ∧ (∀ e, enc = .error e → writerForm enc w = (w, some e)) :=
  ⟨fun _ h => by subst h; rfl, fun _ h => by subst h; rfl⟩

/-- `mv.XmlWriter(w, rootTag...)` against `mv.Xml(rootTag...)` -/
theorem C16_forms_writer_eq_bytes_xml (cfg : EncCfg) (m : Entries) (rt : Option Str) (w : Sink) :
    (∀ b, mapXml cfg m rt = .ok b → xmlWriter cfg m rt w = (⟨w.written ++ b⟩, none))
    ∧ (∀ e, mapXml cfg m rt = .error e → xmlWriter cfg m rt w = (w, some e)) :=
  C16_forms_writer_eq_bytes _ w

/-- `mv.XmlIndentWriter(w, prefix, indent, rootTag...)` against `mv.XmlIndent(…)` -/
theorem C16_forms_writer_eq_bytes_xmlIndent (cfg : EncCfg) (pfx indent : Str) (m : Entries)
    (rt : Option Str) (w : Sink) :
    (∀ b, mapXmlIndent cfg pfx indent m rt = .ok b →
        xmlIndentWriter cfg pfx indent m rt w = (⟨w.written ++ b⟩, none))
    ∧ (∀ e, mapXmlIndent cfg pfx indent m rt = .error e →
        xmlIndentWriter cfg pfx indent m rt w = (w, some e)) :=
  C16_forms_writer_eq_bytes _ w

/-- `mv.JsonWriter(w, safe)` against `mv.Json(safe)` (the flag IS passed on here) -/
theorem C16_forms_writer_eq_bytes_json (safe : Bool) (m : Entries) (w : Sink) :
    jsonWriter safe m w = (⟨w.written ++ Json.mapJson safe (.map m)⟩, none) := rfl

/-- `mv.JsonIndentWriter(w, prefix, indent, safe)` against `mv.JsonIndent(prefix, indent, safe)` -/
theorem C16_forms_writer_eq_bytes_jsonIndent (safe : Bool) (pfx ind : Str) (m : Entries)
    (w : Sink) :
    jsonIndentWriter safe pfx ind m w = (⟨w.written ++ mapJsonIndent safe pfx ind (.map m)⟩, none) :=
  rfl

/-- a Writer form never removes or changes what the Writer already holds -/
theorem C16_forms_writer_extends (enc : Bytes) (w : Sink) :
    ∃ b, (writerForm enc w).1.written = w.written ++ b := by
  cases enc with
  | error e => exact ⟨[], by simp [writerForm]⟩
  | ok b => exact ⟨b, rfl⟩

/-- the JSON encoder of the model is total: the JSON byte-returning forms never return an error -/
theorem C16_forms_json_never_fails (safe : Bool) (pfx ind : Str) (m : Entries) :
    (∃ b, jsonBytes safe m = .ok b) ∧ (∃ b, jsonIndentBytes safe pfx ind m = .ok b) :=
  ⟨⟨_, rfl⟩, ⟨_, rfl⟩⟩

/-! ### (b) the Raw forms return exactly what they wrote -/

/-- every Raw Writer form, whatever the encoder: the bytes returned are the bytes appended to the
    Writer; Writer and error are those of the non-Raw form; on success the bytes are the
    encoder's -/
theorem C16_forms_raw_returns_written (enc : Bytes) (w : Sink) :
    (writerFormRaw enc w).1.written = w.written ++ (writerFormRaw enc w).2.1
    ∧ (writerFormRaw enc w).1 = (writerForm enc w).1
    ∧ (writerFormRaw enc w).2.2 = (writerForm enc w).2
    ∧ (∀ b, enc = .ok b → (writerFormRaw enc w).2.1 = b) := by
  cases enc with
  | error e => simp [writerFormRaw, writerForm]
  | ok b => simp [writerFormRaw, writerForm, Sink.write]

/-- `mv.JsonWriterRaw(w, safe)` -/
theorem C16_forms_raw_returns_written_json (safe : Bool) (m : Entries) (w : Sink) :
    jsonWriterRaw safe m w
      = (⟨w.written ++ Json.mapJson safe (.map m)⟩, Json.mapJson safe (.map m), none) := rfl

/-- `mv.JsonIndentWriterRaw(w, prefix, indent, safe)` -/
theorem C16_forms_raw_returns_written_jsonIndent (safe : Bool) (pfx ind : Str) (m : Entries)
    (w : Sink) :
    jsonIndentWriterRaw safe pfx ind m w
      = (⟨w.written ++ mapJsonIndent safe pfx ind (.map m)⟩,
          mapJsonIndent safe pfx ind (.map m), none) := rfl

/-! ### (c) the string forms are the concatenation of the member encodings -/

/-- the plain loop for any encoder: `xs` the member encodings → their concatenation, no error -/
theorem C16_forms_loop_concat (enc : Entries → Bytes) (ms : Maps) (xs : List Str)
    (h : Encodes enc ms xs) : mapsLoop enc ms [] = (xs.flatten, none) := by
  simpa using mapsLoop_ok enc ms xs [] h

/-- the `haveFirst` loop for any encoder: the member encodings joined with "\n" — a separator
    between members, none after the last -/
theorem C16_forms_loopSep_concat (enc : Entries → Bytes) (ms : Maps) (xs : List Str)
    (h : Encodes enc ms xs) : mapsLoopSep enc ms false [] = (joinWith ['\n'] xs, none) := by
  simpa using mapsLoopSep_ok enc ms xs [] h

/-- `mvs.XmlString()` = the concatenation of `m.Xml()` over the members -/
theorem C16_forms_maps_concat_xml (cfg : EncCfg) (ms : Maps) (xs : List Str)
    (h : Encodes (fun m => mapXml cfg m none) ms xs) :
    mapsXmlString cfg ms = (xs.flatten, none) :=
  C16_forms_loop_concat _ ms xs h

/-- `mvs.XmlStringIndent(prefix, indent)` = the concatenation of `m.XmlIndent(prefix, indent)`:
    no separator — the root element of `XmlIndent` has no trailing newline, so the next
    document's prefix follows the previous end tag directly -/
theorem C16_forms_maps_concat_xmlIndent (cfg : EncCfg) (pfx indent : Str) (ms : Maps)
    (xs : List Str) (h : Encodes (fun m => mapXmlIndent cfg pfx indent m none) ms xs) :
    mapsXmlStringIndent cfg pfx indent ms = (xs.flatten, none) :=
  C16_forms_loop_concat _ ms xs h

/-- `mvs.JsonString(safe)` = the concatenation of `m.Json()` (safeEncoding = false) -/
theorem C16_forms_maps_concat_json (safe : Bool) (ms : Maps) :
    mapsJsonString safe ms = ((ms.map fun m => Json.mapJson false (.map m)).flatten, none) :=
  C16_forms_loop_concat _ ms _ (encodes_total _ ms)

/-- … which is the string the C19 round-trip theorems read back (`Files.jsonString`) -/
theorem C16_forms_maps_concat_json_files (safe : Bool) (ms : Maps) :
    mapsJsonString safe ms = (Files.jsonString (ms.map Val.map), none) := by
  rw [C16_forms_maps_concat_json]
  simp [Files.jsonString, List.flatMap, List.map_map, Function.comp_def]

/-- `mvs.JsonStringIndent(prefix, indent, safe)` = `m.JsonIndent(prefix, indent)`
    (safeEncoding = false) of the members joined with "\n"; nothing after the last member, and
    the empty `Maps` gives the empty string -/
theorem C16_forms_maps_concat_jsonIndent (pfx ind : Str) (safe : Bool) (ms : Maps) :
    mapsJsonStringIndent pfx ind safe ms
      = (joinWith ['\n'] (ms.map fun m => mapJsonIndent false pfx ind (.map m)), none) :=
  C16_forms_loopSep_concat _ ms _ (encodes_total _ ms)

/-- (c) in one statement: the four string forms, every member encoding -/
theorem C16_forms_maps_concat (cfg : EncCfg) (pfx indent : Str) (safe : Bool) (ms : Maps)
    (xs ys : List Str) (hx : Encodes (fun m => mapXml cfg m none) ms xs)
    (hy : Encodes (fun m => mapXmlIndent cfg pfx indent m none) ms ys) :
    mapsXmlString cfg ms = (xs.flatten, none)
    ∧ mapsXmlStringIndent cfg pfx indent ms = (ys.flatten, none)
    ∧ mapsJsonString safe ms = ((ms.map fun m => Json.mapJson false (.map m)).flatten, none)
    ∧ mapsJsonStringIndent pfx indent safe ms
        = (joinWith ['\n'] (ms.map fun m => mapJsonIndent false pfx indent (.map m)), none) :=
  ⟨C16_forms_maps_concat_xml cfg ms xs hx, C16_forms_maps_concat_xmlIndent cfg pfx indent ms ys hy,
   C16_forms_maps_concat_json safe ms, C16_forms_maps_concat_jsonIndent pfx indent safe ms⟩

/-- the string forms succeed exactly when every member encodes -/
theorem C16_forms_maps_concat_iff (cfg : EncCfg) (pfx indent : Str) (ms : Maps) :
    ((mapsXmlString cfg ms).2 = none ↔ ∃ xs, Encodes (fun m => mapXml cfg m none) ms xs)
    ∧ ((mapsXmlStringIndent cfg pfx indent ms).2 = none
        ↔ ∃ xs, Encodes (fun m => mapXmlIndent cfg pfx indent m none) ms xs) :=
  ⟨mapsLoop_none_iff _ ms [], mapsLoop_none_iff _ ms []⟩

/-- splitting the list, any encoder, success or not: the result for `a ++ b` is the result for
    `a` if that is an error, else the string for `a` followed by the result for `b` -/
theorem C16_forms_loop_split (enc : Entries → Bytes) (a b : Maps) :
    mapsLoop enc (a ++ b) []
      = match mapsLoop enc a [] with
        | (t, some e) => (t, some e)
        | (t, none) => (t ++ (mapsLoop enc b []).1, (mapsLoop enc b []).2) :=
  mapsLoop_split enc a b

/-- `XmlString` of `a ++ b`, on success: both parts succeed and the strings concatenate —
    the result does not depend on how the `Maps` is split -/
theorem C16_forms_maps_split_xml (cfg : EncCfg) (a b : Maps)
    (h : (mapsXmlString cfg (a ++ b)).2 = none) :
    mapsXmlString cfg (a ++ b) = ((mapsXmlString cfg a).1 ++ (mapsXmlString cfg b).1, none)
    ∧ (mapsXmlString cfg a).2 = none ∧ (mapsXmlString cfg b).2 = none := by
  unfold mapsXmlString at h ⊢
  rw [mapsLoop_split] at h ⊢
  cases hA : mapsLoop (fun m => mapXml cfg m none) a [] with
  | mk t o =>
    cases o with
    | some e => rw [hA] at h; simp at h
    | none =>
      rw [hA] at h
      simp only at h
      exact ⟨by simp only [h], rfl, h⟩

/-- the same for `XmlStringIndent` -/
theorem C16_forms_maps_split_xmlIndent (cfg : EncCfg) (pfx indent : Str) (a b : Maps)
    (h : (mapsXmlStringIndent cfg pfx indent (a ++ b)).2 = none) :
    mapsXmlStringIndent cfg pfx indent (a ++ b)
      = ((mapsXmlStringIndent cfg pfx indent a).1 ++ (mapsXmlStringIndent cfg pfx indent b).1, none)
    ∧ (mapsXmlStringIndent cfg pfx indent a).2 = none
    ∧ (mapsXmlStringIndent cfg pfx indent b).2 = none := by
  unfold mapsXmlStringIndent at h ⊢
  rw [mapsLoop_split] at h ⊢
  cases hA : mapsLoop (fun m => mapXmlIndent cfg pfx indent m none) a [] with
  | mk t o =>
    cases o with
    | some e => rw [hA] at h; simp at h
    | none =>
      rw [hA] at h
      simp only at h
      exact ⟨by simp only [h], rfl, h⟩

/-- `JsonString` of `a ++ b` (always succeeds) -/
theorem C16_forms_maps_split_json (safe : Bool) (a b : Maps) :
    mapsJsonString safe (a ++ b) = ((mapsJsonString safe a).1 ++ (mapsJsonString safe b).1, none) := by
  simp [C16_forms_maps_concat_json]

/-- `JsonStringIndent` of `a ++ b`: the two strings with ONE "\n" between them when both parts
    are non-empty (and just the other part's string when one is empty) -/
theorem C16_forms_maps_split_jsonIndent (pfx ind : Str) (safe : Bool) (a b : Maps) :
    mapsJsonStringIndent pfx ind safe (a ++ b)
      = ((mapsJsonStringIndent pfx ind safe a).1
          ++ (if a.isEmpty || b.isEmpty then [] else ['\n'])
          ++ (mapsJsonStringIndent pfx ind safe b).1, none) := by
  simp only [C16_forms_maps_concat_jsonIndent]
  cases a with
  | nil => simp [joinWith]
  | cons x a =>
    cases b with
    | nil => simp [joinWith]
    | cons y b =>
      rw [List.map_append, joinNl_append _ _ (by simp) (by simp)]
      simp

/-! ### (d) the first failing member -/

/-- the plain loop, any encoder: `pre` encodes to `xs`, `bad` fails with `e` → the concatenation
    of `xs` and `e`; `tail` is universally quantified: no member after `bad` matters -/
theorem C16_forms_loop_first_error (enc : Entries → Bytes) (pre : Maps) (bad : Entries)
    (tail : Maps) (xs : List Str) (e : ErrKind) (hp : Encodes enc pre xs)
    (hb : enc bad = .error e) : mapsLoop enc (pre ++ bad :: tail) [] = (xs.flatten, some e) := by
  simpa using mapsLoop_first_error enc bad e tail hb pre xs [] hp

/-- the `haveFirst` loop, any encoder: the encodings before the failing member joined with "\n"
    — the separator is written only once the next member has encoded, so the string returned
    with the error does not end in "\n" -/
theorem C16_forms_loopSep_first_error (enc : Entries → Bytes) (pre : Maps) (bad : Entries)
    (tail : Maps) (xs : List Str) (e : ErrKind) (hp : Encodes enc pre xs)
    (hb : enc bad = .error e) :
    mapsLoopSep enc (pre ++ bad :: tail) false [] = (joinWith ['\n'] xs, some e) := by
  simpa using mapsLoopSep_first_error enc bad e tail hb pre xs [] hp

/-- both loops, any encoder, any prefix (encoding or not): what follows a failing member is never
    looked at -/
theorem C16_forms_loop_tail_irrelevant (enc : Entries → Bytes) (pre : Maps) (bad : Entries)
    (tail tail' : Maps) (e : ErrKind) (hb : enc bad = .error e) :
    mapsLoop enc (pre ++ bad :: tail) [] = mapsLoop enc (pre ++ bad :: tail') []
    ∧ mapsLoopSep enc (pre ++ bad :: tail) false [] = mapsLoopSep enc (pre ++ bad :: tail') false [] :=
  ⟨mapsLoop_tail_irrelevant enc bad e hb pre tail tail' [],
   mapsLoopSep_tail_irrelevant enc bad e hb pre tail tail' false []⟩

/-- `mvs.XmlString()` with the first failing member behind `pre` -/
theorem C16_forms_maps_first_error_xml (cfg : EncCfg) (pre : Maps) (bad : Entries) (tail : Maps)
    (xs : List Str) (e : ErrKind) (hp : Encodes (fun m => mapXml cfg m none) pre xs)
    (hb : mapXml cfg bad none = .error e) :
    mapsXmlString cfg (pre ++ bad :: tail) = (xs.flatten, some e) :=
  C16_forms_loop_first_error _ pre bad tail xs e hp hb

/-- `mvs.XmlStringIndent(prefix, indent)` with the first failing member behind `pre` -/
theorem C16_forms_maps_first_error_xmlIndent (cfg : EncCfg) (pfx indent : Str) (pre : Maps)
    (bad : Entries) (tail : Maps) (xs : List Str) (e : ErrKind)
    (hp : Encodes (fun m => mapXmlIndent cfg pfx indent m none) pre xs)
    (hb : mapXmlIndent cfg pfx indent bad none = .error e) :
    mapsXmlStringIndent cfg pfx indent (pre ++ bad :: tail) = (xs.flatten, some e) :=
  C16_forms_loop_first_error _ pre bad tail xs e hp hb

/-- (d) in one statement, for `XmlString`: the first `k = pre.length` encodings concatenated and
    the error of member `k`, the same for every tail -/
theorem C16_forms_maps_first_error (cfg : EncCfg) (pre : Maps) (bad : Entries)
    (xs : List Str) (e : ErrKind) (hp : Encodes (fun m => mapXml cfg m none) pre xs)
    (hb : mapXml cfg bad none = .error e) :
    ∀ (tail : Maps), mapsXmlString cfg (pre ++ bad :: tail) = (xs.flatten, some e) :=
  fun tail => C16_forms_maps_first_error_xml cfg pre bad tail xs e hp hb

/-- the same by position: the members before position `k` encode to `xs`, member `k` fails -/
theorem C16_forms_maps_first_error_at (cfg : EncCfg) (ms : Maps) (k : Nat) (hk : k < ms.length)
    (xs : List Str) (e : ErrKind) (hp : Encodes (fun m => mapXml cfg m none) (ms.take k) xs)
    (hb : mapXml cfg ms[k] none = .error e) :
    mapsXmlString cfg ms = (xs.flatten, some e)
    ∧ ∀ (tail : Maps), mapsXmlString cfg (ms.take (k + 1) ++ tail) = (xs.flatten, some e) := by
  have hsplit : ms = ms.take k ++ ms[k] :: ms.drop (k + 1) := by
    rw [← List.drop_eq_getElem_cons hk, List.take_append_drop]
  have htake : ms.take (k + 1) = ms.take k ++ [ms[k]] := by
    rw [List.take_succ_eq_append_getElem hk]
  refine ⟨?_, fun tail => ?_⟩
  · rw [hsplit]
    have := C16_forms_maps_first_error_xml cfg (ms.take k) ms[k] (ms.drop (k + 1)) xs e hp hb
    simpa using this
  · rw [htake, List.append_assoc]
    exact C16_forms_maps_first_error_xml cfg (ms.take k) ms[k] tail xs e hp hb

/-- `XmlString` / `XmlStringIndent`: nothing after a failing member is looked at -/
theorem C16_forms_maps_first_error_tail (cfg : EncCfg) (pfx indent : Str) (pre : Maps)
    (bad : Entries) (tail tail' : Maps) :
    (∀ e, mapXml cfg bad none = .error e →
      mapsXmlString cfg (pre ++ bad :: tail) = mapsXmlString cfg (pre ++ bad :: tail'))
    ∧ (∀ e, mapXmlIndent cfg pfx indent bad none = .error e →
      mapsXmlStringIndent cfg pfx indent (pre ++ bad :: tail)
        = mapsXmlStringIndent cfg pfx indent (pre ++ bad :: tail')) :=
  ⟨fun e hb => (C16_forms_loop_tail_irrelevant _ pre bad tail tail' e hb).1,
   fun e hb => (C16_forms_loop_tail_irrelevant _ pre bad tail tail' e hb).1⟩

/-! ### (e) equal Maps, however they were built -/

/-- `ms'` is `ms` with every member's entries listed in another order, at any depth -/
abbrev SameMaps (ms ms' : Maps) : Prop := All₂ (fun m m' => Val.map m ≈ᵥ Val.map m') ms ms'

/-- `mvs.XmlString()` — same string on success, same prefix and same error on failure -/
theorem C16_forms_maps_perm_invariant (cfg : EncCfg) (ms ms' : Maps) (h : SameMaps ms ms') :
    mapsXmlString cfg ms = mapsXmlString cfg ms' :=
  mapsLoop_congr _ _ ms ms' []
    (All₂.imp (fun m m' hm => C16_mapXml_perm_invariant cfg m m' none hm) h)

/-- … in particular when every member's entry list is permuted (distinct keys: a Go map) -/
theorem C16_forms_maps_perm_invariant' (cfg : EncCfg) (ms ms' : Maps)
    (h : All₂ (fun m m' => List.Perm m m' ∧ distinctKeys m = true) ms ms') :
    mapsXmlString cfg ms = mapsXmlString cfg ms' :=
  C16_forms_maps_perm_invariant cfg ms ms'
    (All₂.imp (fun _ _ hm => equiv_map_of_perm hm.1 hm.2) h)

/-- `mvs.XmlStringIndent(prefix, indent)` -/
theorem C16_forms_maps_perm_invariant_xmlIndent (cfg : EncCfg) (pfx indent : Str) (ms ms' : Maps)
    (h : SameMaps ms ms') :
    mapsXmlStringIndent cfg pfx indent ms = mapsXmlStringIndent cfg pfx indent ms' :=
  mapsLoop_congr _ _ ms ms' []
    (All₂.imp (fun m m' hm => C16_indent_perm_invariant cfg pfx indent m m' none hm) h)

/-- `m.Json(safe)` and `m.JsonIndent(prefix, indent, safe)`: the encoder sorts the keys -/
theorem C16_forms_json_perm_invariant (safe : Bool) (pfx ind : Str) (m m' : Entries)
    (h : Val.map m ≈ᵥ Val.map m') :
    jsonBytes safe m = jsonBytes safe m' ∧ jsonIndentBytes safe pfx ind m = jsonIndentBytes safe pfx ind m' := by
  have hn : (Val.map m).norm = (Val.map m').norm := h
  simp only [jsonBytes, jsonIndentBytes, Json.mapJson, mapJsonIndent, hn, and_self]

/-- `mvs.JsonString(safe)` -/
theorem C16_forms_maps_perm_invariant_json (safe : Bool) (ms ms' : Maps) (h : SameMaps ms ms') :
    mapsJsonString safe ms = mapsJsonString safe ms' :=
  mapsLoop_congr _ _ ms ms' []
    (All₂.imp (fun m m' hm => (C16_forms_json_perm_invariant false [] [] m m' hm).1) h)

/-- `mvs.JsonStringIndent(prefix, indent, safe)` -/
theorem C16_forms_maps_perm_invariant_jsonIndent (pfx ind : Str) (safe : Bool) (ms ms' : Maps)
    (h : SameMaps ms ms') :
    mapsJsonStringIndent pfx ind safe ms = mapsJsonStringIndent pfx ind safe ms' :=
  mapsLoopSep_congr _ _ ms ms' false []
    (All₂.imp (fun m m' hm => (C16_forms_json_perm_invariant false pfx ind m m' hm).2) h)

/-- the four file forms -/
theorem C16_forms_file_perm_invariant (cfg : EncCfg) (pfx indent : Str) (safe : Bool)
    (ms ms' : Maps) (h : SameMaps ms ms') (old : Sink) :
    mapsXmlFile cfg ms old = mapsXmlFile cfg ms' old
    ∧ mapsXmlFileIndent cfg pfx indent ms old = mapsXmlFileIndent cfg pfx indent ms' old
    ∧ mapsJsonFile safe ms old = mapsJsonFile safe ms' old
    ∧ mapsJsonFileIndent pfx indent safe ms old = mapsJsonFileIndent pfx indent safe ms' old := by
  simp only [mapsXmlFile, mapsXmlFileIndent, mapsJsonFile, mapsJsonFileIndent,
    C16_forms_maps_perm_invariant cfg ms ms' h,
    C16_forms_maps_perm_invariant_xmlIndent cfg pfx indent ms ms' h,
    C16_forms_maps_perm_invariant_json safe ms ms' h,
    C16_forms_maps_perm_invariant_jsonIndent pfx indent safe ms ms' h, and_self]

/-- the Writer and Raw Writer forms of one Map -/
theorem C16_forms_writer_perm_invariant (cfg : EncCfg) (pfx indent : Str) (safe : Bool)
    (m m' : Entries) (rt : Option Str) (h : Val.map m ≈ᵥ Val.map m') (w : Sink) :
    xmlWriter cfg m rt w = xmlWriter cfg m' rt w
    ∧ xmlIndentWriter cfg pfx indent m rt w = xmlIndentWriter cfg pfx indent m' rt w
    ∧ jsonWriter safe m w = jsonWriter safe m' w
    ∧ jsonIndentWriter safe pfx indent m w = jsonIndentWriter safe pfx indent m' w
    ∧ jsonWriterRaw safe m w = jsonWriterRaw safe m' w
    ∧ jsonIndentWriterRaw safe pfx indent m w = jsonIndentWriterRaw safe pfx indent m' w := by
  obtain ⟨hj, hji⟩ := C16_forms_json_perm_invariant safe pfx indent m m' h
  simp only [xmlWriter, xmlIndentWriter, jsonWriter, jsonIndentWriter, jsonWriterRaw,
    jsonIndentWriterRaw, C16_mapXml_perm_invariant cfg m m' rt h,
    C16_indent_perm_invariant cfg pfx indent m m' rt h, hj, hji, and_self]

/-! ### (f) the file forms leave exactly the string form in the file -/

/-- every file form: a string without error → the file holds exactly that string, whatever it
    held before; an encoder error → the file is not touched (not even truncated) and the error
    is returned -/
theorem C16_forms_file_eq_string (str : Str × Option ErrKind) (old : Sink) :
    (str.2 = none → fileForm str old = (⟨str.1⟩, none))
    ∧ (∀ e, str.2 = some e → fileForm str old = (old, some e)) := by
  obtain ⟨s, o⟩ := str
  refine ⟨fun h => ?_, fun e h => ?_⟩
  · simp only at h; subst h; exact fileForm_ok s old
  · simp only at h; subst h; rfl

/-- on success the result does not depend on the old content of the file -/
theorem C16_forms_file_old_irrelevant (str : Str × Option ErrKind) (old old' : Sink)
    (h : str.2 = none) : fileForm str old = fileForm str old' := by
  rw [(C16_forms_file_eq_string str old).1 h, (C16_forms_file_eq_string str old').1 h]

/-- `mvs.XmlFile(file)` and `mvs.XmlFileIndent(file, prefix, indent)` -/
theorem C16_forms_file_eq_string_xml (cfg : EncCfg) (pfx indent : Str) (ms : Maps) (old : Sink) :
    ((mapsXmlString cfg ms).2 = none →
        ∀ old', mapsXmlFile cfg ms old' = (⟨(mapsXmlString cfg ms).1⟩, none))
    ∧ (∀ e, (mapsXmlString cfg ms).2 = some e → mapsXmlFile cfg ms old = (old, some e))
    ∧ ((mapsXmlStringIndent cfg pfx indent ms).2 = none →
        ∀ old', mapsXmlFileIndent cfg pfx indent ms old'
          = (⟨(mapsXmlStringIndent cfg pfx indent ms).1⟩, none))
    ∧ (∀ e, (mapsXmlStringIndent cfg pfx indent ms).2 = some e →
        mapsXmlFileIndent cfg pfx indent ms old = (old, some e)) :=
  ⟨fun h old' => (C16_forms_file_eq_string _ old').1 h, (C16_forms_file_eq_string _ old).2,
   fun h old' => (C16_forms_file_eq_string _ old').1 h, (C16_forms_file_eq_string _ old).2⟩

/-- `mvs.JsonFile(file, safe)`: the file holds the concatenation of the member encodings — the
    string `Files.jsonString` whose reading back is C19 — whatever it held before -/
theorem C16_forms_file_eq_string_json (safe : Bool) (ms : Maps) (old : Sink) :
    mapsJsonFile safe ms old = (⟨Files.jsonString (ms.map Val.map)⟩, none) := by
  unfold mapsJsonFile
  rw [C16_forms_maps_concat_json_files]
  exact fileForm_ok _ old

/-- `mvs.JsonFileIndent(file, prefix, indent, safe)`: one pretty-printed member after the other,
    separated by "\n" -/
theorem C16_forms_file_eq_string_jsonIndent (pfx ind : Str) (safe : Bool) (ms : Maps) (old : Sink) :
    mapsJsonFileIndent pfx ind safe ms old
      = (⟨joinWith ['\n'] (ms.map fun m => mapJsonIndent false pfx ind (.map m))⟩, none) := by
  unfold mapsJsonFileIndent
  rw [C16_forms_maps_concat_jsonIndent]
  exact fileForm_ok _ old

/-! ### (g) `Maps.JsonString` ignores its flag -/

/-- observed behaviour, modelled as the Go code is: `Maps.JsonString(safeEncoding...)` calls
    `v.Json()` without the flag, so both flag values give the same string (the members are
    always encoded with safeEncoding = false); the same for `JsonStringIndent` and the two JSON
    file forms, which compute the flag and pass it to the string forms -/
theorem C16_forms_json_string_ignores_flag (pfx ind : Str) (ms : Maps) (old : Sink) :
    mapsJsonString true ms = mapsJsonString false ms
    ∧ mapsJsonStringIndent pfx ind true ms = mapsJsonStringIndent pfx ind false ms
    ∧ mapsJsonFile true ms old = mapsJsonFile false ms old
    ∧ mapsJsonFileIndent pfx ind true ms old = mapsJsonFileIndent pfx ind false ms old :=
  ⟨rfl, rfl, rfl, rfl⟩

/-- … whereas the per-Map forms do honour it: `Maps.JsonString(true)` of a one-member `Maps` is
    `m.Json(false)`, which differs from `m.Json(true)` as soon as a string holds `<`, `>` or `&` -/
theorem C16_forms_json_string_ignores_flag_witness :
    let m : Entries := [("r".toList, .str "t<".toList)]
    (mapsJsonString true [m]).1 = Json.mapJson false (.map m)
    ∧ Json.mapJson true (.map m) ≠ Json.mapJson false (.map m)
    ∧ (jsonWriter true m ⟨[]⟩).1.written ≠ (mapsJsonString true [m]).1 := by
  decide

/-! ### (+) a sequence of Writer-form calls appends the string form -/

/-- any encoder: one Writer-form call per member on the same Writer, stopping at the first error,
    leaves the old content followed by the string form's string, and returns its error -/
theorem C16_forms_writer_seq_eq_string (enc : Entries → Bytes) (ms : Maps) (w : Sink) :
    writeAll (fun m => writerForm (enc m)) ms w
      = (⟨w.written ++ (mapsLoop enc ms []).1⟩, (mapsLoop enc ms []).2) := by
  rw [writeAll_eq_loop, mapsLoop_acc]

/-- `XmlWriter` per member = `XmlString`, `XmlIndentWriter` per member = `XmlStringIndent`,
    `JsonWriter(w)` per member (flag false) = `JsonString` -/
theorem C16_forms_writer_seq_eq_string_maps (cfg : EncCfg) (pfx indent : Str) (safe : Bool)
    (ms : Maps) (w : Sink) :
    writeAll (fun m => xmlWriter cfg m none) ms w
      = (⟨w.written ++ (mapsXmlString cfg ms).1⟩, (mapsXmlString cfg ms).2)
    ∧ writeAll (fun m => xmlIndentWriter cfg pfx indent m none) ms w
      = (⟨w.written ++ (mapsXmlStringIndent cfg pfx indent ms).1⟩,
          (mapsXmlStringIndent cfg pfx indent ms).2)
    ∧ writeAll (jsonWriter false) ms w
      = (⟨w.written ++ (mapsJsonString safe ms).1⟩, (mapsJsonString safe ms).2) :=
  ⟨C16_forms_writer_seq_eq_string _ ms w, C16_forms_writer_seq_eq_string _ ms w,
   C16_forms_writer_seq_eq_string (jsonBytes false) ms w⟩

/-! ### non-vacuity: the outputs of the Go library on the same Maps -/

section Examples
set_option maxRecDepth 16000

/-- `{"b":2, "a":{"y":nil, "x":true}}` -/
def fA : Entries := [("b".toList, .num "i:2".toList),
  ("a".toList, .map [("y".toList, .null), ("x".toList, .bool true)])]
/-- the same Map with the entries in another order at both levels -/
def fA' : Entries := [("a".toList, .map [("x".toList, .bool true), ("y".toList, .null)]),
  ("b".toList, .num "i:2".toList)]
/-- `{"r":{"-k":"v", "#text":"t<"}}` -/
def fB : Entries := [("r".toList, .map [("-k".toList, .str "v".toList),
  ("#text".toList, .str "t<".toList)])]
/-- `{"l":[1, "s", [], {}, [{"q":"<&>"}]]}` -/
def fC : Entries := [("l".toList, .list [.num "i:1".toList, .str "s".toList, .list [], .map [],
  .list [.map [("q".toList, .str "<&>".toList)]]])]
/-- an attribute whose value is a list: `Xml` / `XmlIndent` return
    "invalid attribute value for: -k:<[]interface {}>" -/
def fBad : Entries := [("r".toList, .map [("-k".toList, .list []), ("a".toList, .null)])]

example : mapXml {} fBad none = .error .other
    ∧ mapXmlIndent {} [] " ".toList fBad none = .error .other := ⟨rfl, rfl⟩

-- (a) Writer forms: `buf` holds "old:" before the call
example : xmlWriter {} fA none ⟨"old:".toList⟩
    = (⟨"old:<doc><a><x>true</x><y/></a><b>2</b></doc>".toList⟩, none) := by decide
example : xmlWriter {} fBad none ⟨"old:".toList⟩ = (⟨"old:".toList⟩, some .other) := by decide
example : xmlIndentWriter {} [] " ".toList fA (some "root".toList) ⟨"old:".toList⟩
    = (⟨"old:<root>\n <a>\n  <x>true</x>\n  <y/>\n </a>\n <b>2</b>\n</root>".toList⟩, none) := by
  decide
example : xmlIndentWriter {} [] " ".toList fBad none ⟨"old:".toList⟩
    = (⟨"old:".toList⟩, some .other) := by decide

-- (b) Raw forms: `JsonWriterRaw(w, true)` and `JsonIndentWriterRaw(w, "", " ")`
example : jsonWriterRaw true fB ⟨"old:".toList⟩
    = (⟨("old:{\"r\":{\"#text\":\"t\\" ++ "u003c\",\"-k\":\"v\"}}").toList⟩,
        ("{\"r\":{\"#text\":\"t\\" ++ "u003c\",\"-k\":\"v\"}}").toList, none) := by decide
example : jsonIndentWriterRaw false [] " ".toList fB ⟨"old:".toList⟩
    = (⟨"old:{\n \"r\": {\n  \"#text\": \"t<\",\n  \"-k\": \"v\"\n }\n}".toList⟩,
        "{\n \"r\": {\n  \"#text\": \"t<\",\n  \"-k\": \"v\"\n }\n}".toList, none) := by decide

-- `JsonIndent`: prefix and indent, empty object / array, nested arrays, safe encoding
example : mapJsonIndent false ">".toList "\t".toList (.map fC)
    = "{\n>\t\"l\": [\n>\t\t1,\n>\t\t\"s\",\n>\t\t[],\n>\t\t{},\n>\t\t[\n>\t\t\t{\n>\t\t\t\t\"q\": \"<&>\"\n>\t\t\t}\n>\t\t]\n>\t]\n>}".toList := by
  decide
example : mapJsonIndent false "P".toList [] (.map fA)
    = "{\nP\"a\": {\nP\"x\": true,\nP\"y\": null\nP},\nP\"b\": 2\nP}".toList := by decide
/-- `JsonIndent("", "")` is the compact encoding (the encoder indents only when prefix or indent
    is non-empty) -/
example : mapJsonIndent false [] [] (.map fA) = "{\"a\":{\"x\":true,\"y\":null},\"b\":2}".toList
    ∧ mapJsonIndent false [] [] (.map fA) = Json.mapJson false (.map fA) := by decide
example : mapJsonIndent true [] "  ".toList (.map []) = "{}".toList := by decide

-- (c) the string forms on `Maps{a, b, c, {}}`
example : mapsXmlString {} [fA, fB, fC, []]
    = ("<doc><a><x>true</x><y/></a><b>2</b></doc><r k=\"v\">t<</r><doc><l>1</l><l>s</l><l/><l/><l><q><&></q></l></doc><doc/>".toList,
        none) := by decide
example : mapsXmlStringIndent {} " ".toList "  ".toList [fA, fB, fC, []]
    = (" <doc>\n   <a>\n     <x>true</x>\n     <y/>\n   </a>\n   <b>2</b>\n </doc> <r k=\"v\">t<</r> <doc>\n   <l>1</l>\n   <l>s</l>\n     <l   />\n   <l/>\n     <l>\n       <q><&></q>\n     </l>\n </doc> <doc/>".toList,
        none) := by decide
example : mapsJsonString true [fA, fB, fC, []]
    = ("{\"a\":{\"x\":true,\"y\":null},\"b\":2}{\"r\":{\"#text\":\"t<\",\"-k\":\"v\"}}{\"l\":[1,\"s\",[],{},[{\"q\":\"<&>\"}]]}{}".toList,
        none) := by decide
example : mapsJsonStringIndent [] " ".toList true [fA, fB, []]
    = ("{\n \"a\": {\n  \"x\": true,\n  \"y\": null\n },\n \"b\": 2\n}\n{\n \"r\": {\n  \"#text\": \"t<\",\n  \"-k\": \"v\"\n }\n}\n{}".toList,
        none) := by decide
/-- no member: the empty string; one member: no "\n" at all -/
example : mapsJsonStringIndent [] " ".toList false [] = ([], none)
    ∧ mapsJsonStringIndent [] " ".toList false [fA]
      = ("{\n \"a\": {\n  \"x\": true,\n  \"y\": null\n },\n \"b\": 2\n}".toList, none) := by decide

-- (d) `Maps{a, bad, b}`: the encoding of `a` and the error of `bad`; `b` is not looked at
example : mapsXmlString {} [fA, fBad, fB]
    = ("<doc><a><x>true</x><y/></a><b>2</b></doc>".toList, some .other) := by decide
example : mapsXmlStringIndent {} [] " ".toList [fA, fBad, fB]
    = ("<doc>\n <a>\n  <x>true</x>\n  <y/>\n </a>\n <b>2</b>\n</doc>".toList, some .other) := by
  decide
example : mapsXmlString {} [fA, fBad, fB] = mapsXmlString {} [fA, fBad, fBad, fC, fC] := by decide

-- (e) the same Maps built in another entry order
example : SameMaps [fA, fB] [fA', fB] :=
  .cons (by decide) (.cons (by decide) .nil)
example : mapsXmlString {} [fA', fB] = mapsXmlString {} [fA, fB]
    ∧ mapsJsonStringIndent [] " ".toList false [fA', fB]
        = mapsJsonStringIndent [] " ".toList false [fA, fB] := by decide

-- (f) the file forms over a file that held something longer
example : mapsXmlFile {} [fA, fB] ⟨"previous content, much longer than what comes next ....................................".toList⟩
    = (⟨"<doc><a><x>true</x><y/></a><b>2</b></doc><r k=\"v\">t<</r>".toList⟩, none) := by decide
/-- a failing member: `XmlFile` returns the error and the file keeps its old content -/
example : mapsXmlFile {} [fA, fBad, fB] ⟨"<doc/>".toList⟩ = (⟨"<doc/>".toList⟩, some .other) := by
  decide
example : mapsXmlFileIndent {} [] " ".toList [fA, fB] ⟨"zzz".toList⟩
    = (⟨"<doc>\n <a>\n  <x>true</x>\n  <y/>\n </a>\n <b>2</b>\n</doc><r k=\"v\">t<</r>".toList⟩,
        none) := by decide
/-- (g) `JsonFile(file, true)`: `<` is NOT escaped in the file -/
example : mapsJsonFile true [fA, fB] ⟨"zzz".toList⟩
    = (⟨"{\"a\":{\"x\":true,\"y\":null},\"b\":2}{\"r\":{\"#text\":\"t<\",\"-k\":\"v\"}}".toList⟩,
        none) := by decide
example : mapsJsonFileIndent [] " ".toList true [fA, fB] ⟨"zzz".toList⟩
    = (⟨"{\n \"a\": {\n  \"x\": true,\n  \"y\": null\n },\n \"b\": 2\n}\n{\n \"r\": {\n  \"#text\": \"t<\",\n  \"-k\": \"v\"\n }\n}".toList⟩,
        none) := by decide

-- (+) two `XmlWriter` calls on one Writer
example : writeAll (fun m => xmlWriter {} m none) [fA, fB] ⟨"old:".toList⟩
    = (⟨"old:<doc><a><x>true</x><y/></a><b>2</b></doc><r k=\"v\">t<</r>".toList⟩, none) := by decide

end Examples

end Mxj.C16
