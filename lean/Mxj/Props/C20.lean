/-
  Mxj.Props.C20 — "The legacy packages agree with the core" (the part with its own code).

  x2j-wrapper implements its own walkers (`ValuesFromKeyPath`, `ValuesAtKeyPath`) and its own
  `PathsForKey` / `PathForKeyShortest`; `Mxj.Model.Wrapper` models them.  Here they are related
  to the core models of `Map.ValuesForPath`, `Map.PathsForKey`, `Map.PathForKeyShortest`
  (`Mxj.Model.Path`): with attributes requested the wrapper's walker IS the core walker; in the
  default mode it is the core walker with attribute entries (keys starting with '-') skipped at
  wildcard steps, and nothing else changes.  Every other legacy function is a one-line
  composition of core calls and is checked by the differential harness.
-/
import Mxj.Lemmas.Wrapper
namespace Mxj.C20
open Mxj Mxj.Wrapper

/-! ### ValuesFromKeyPath -/

/-- with attributes requested the wrapper's walker IS the core walker, for every value and key
    list -/
theorem C20_valuesFrom_attrs (m : Val) (ks : List Str) : wWalk true m ks = walk none m ks :=
  wWalk_true ks m

/-- hence ValuesFromKeyPath(m, path, true) = Map.ValuesForPath(path) whenever the path has no '['
    and does not end in '.' (the core drops one trailing empty segment, the wrapper does not) -/
theorem C20_valuesFromKeyPath_attrs (m : Val) (path : Str) (h1 : path.contains '[' = false)
    (h2 : (splitDot path).getLast? ≠ some []) :
    valuesForPath [':'] (fun _ => none) m path [] = .ok (valuesFromKeyPath m path true) := by
  rw [valuesForPath_plain m path h1]
  unfold valuesFromKeyPath pathKeys
  rw [dropTrailingEmpty_of_last _ h2, C20_valuesFrom_attrs]

/-- … and the trailing-dot difference is real: on `{"a":"x"}` the path `a.` yields `["x"]` in
    the core (the empty last segment is dropped) and nothing in the wrapper (it looks up the key
    `""` in the string `"x"`) -/
theorem C20_trailing_dot_witness :
    ∃ m path, valuesForPath [':'] (fun _ => none) m path [] ≠ .ok (valuesFromKeyPath m path true) := by
  refine ⟨.map [(['a'], .str ['x'])], ['a', '.'], ?_⟩
  have hs : splitDot ['a', '.'] = [['a'], []] := by decide
  rw [valuesForPath_plain _ _ (by decide)]
  simp [valuesFromKeyPath, pathKeys, hs, dropTrailingEmpty, wWalk, walk, lookup, loadLeaf]

/-- default mode: attribute entries (keys starting with '-') are excluded at wildcard steps,
    nothing else changes -/
theorem C20_valuesFrom_noattrs (m : Val) (ks : List Str) :
    wWalk false m ks = walkNoAttrs m ks :=
  wWalk_false ks m

/-- when the Map has no attribute entries at all both modes coincide with the core -/
theorem C20_noattrs_eq_core (m : Val) (ks : List Str) (h : noDashKeys m = true) :
    wWalk false m ks = walk none m ks :=
  wWalk_noDash false ks m h

/-- … so on such a Map ValuesFromKeyPath(m, path, false) = Map.ValuesForPath(path) as well -/
theorem C20_valuesFromKeyPath_noattrs (m : Val) (path : Str) (h1 : path.contains '[' = false)
    (h2 : (splitDot path).getLast? ≠ some []) (h : noDashKeys m = true) :
    valuesForPath [':'] (fun _ => none) m path [] = .ok (valuesFromKeyPath m path false) := by
  rw [valuesForPath_plain m path h1]
  unfold valuesFromKeyPath pathKeys
  rw [dropTrailingEmpty_of_last _ h2, C20_noattrs_eq_core _ _ h]

/-- a path without wildcard is unaffected by the attribute switch -/
theorem C20_no_wildcard_same (m : Val) (ks : List Str) (h : ∀ k ∈ ks, k ≠ ['*']) :
    wWalk false m ks = wWalk true m ks :=
  wWalk_no_wild false true ks m h

/-! ### ValuesAtKeyPath -/

/-- ValuesAtKeyPath = the core values at the parent path when one of them is a map holding the
    last key (or the last key is "*"), else nothing -/
theorem C20_valuesAt (m : Val) (path : Str) :
    valuesAtKeyPath m path true =
      (let keys := splitDot path
       let parent := if keys.length > 1 then walk none m keys.dropLast else [m]
       let key := keys.getLast?.getD []
       if parent.isEmpty then []
       else if key = ['*'] then parent
       else if parent.any (fun v => match v with
           | .map kvs => (lookup key kvs).isSome
           | _ => false) then parent
       else []) := by
  unfold valuesAtKeyPath
  simp only [C20_valuesFrom_attrs]
  rfl

/-- the same in the default mode, over the attribute-skipping walk -/
theorem C20_valuesAt_noattrs (m : Val) (path : Str) :
    valuesAtKeyPath m path false =
      (let keys := splitDot path
       let parent := if keys.length > 1 then walkNoAttrs m keys.dropLast else [m]
       let key := keys.getLast?.getD []
       if parent.isEmpty then []
       else if key = ['*'] then parent
       else if parent.any (fun v => match v with
           | .map kvs => (lookup key kvs).isSome
           | _ => false) then parent
       else []) := by
  unfold valuesAtKeyPath
  simp only [C20_valuesFrom_noattrs]
  rfl

/-! ### PathsForKey / PathForKeyShortest

  The repaired wrapper `hasKeyPath` is textually the core algorithm, so both packages are
  modelled by the same `hasKeyPath`; `PathsForKey` collects its results in a set and
  `PathForKeyShortest` scans that set (`shortestOf`) in whatever order Go's `range` enumerates
  it.  The equalities are definitional in the model; what needs proof is that the scan's answer
  has minimal segment count whatever the enumeration order. -/

/-- the wrapper's PathsForKey is the core's (definitional in the model) -/
theorem C20_pathsForKey (m : Val) (key : Str) : wPathsForKey m key = pathsForKey m key := rfl

/-- the scan returns one of the paths … -/
theorem C20_shortest_mem (ps : List Str) (h : ps ≠ []) : shortestOf ps ∈ ps :=
  shortestOf_mem ps h

/-- … of minimal segment count -/
theorem C20_shortest_minimal (ps : List Str) (r : Str) (h : r ∈ ps) :
    segCount (shortestOf ps) ≤ segCount r :=
  shortestOf_le ps r h

/-- the shortest-path scan returns a path of the same (minimal) segment count regardless of the
    order in which the set is enumerated -/
theorem C20_shortest_order_independent (ps qs : List Str) (h : List.Perm ps qs) :
    segCount (shortestOf ps) = segCount (shortestOf qs) := by
  cases ps with
  | nil => rw [List.Perm.nil_eq h]
  | cons p ps' =>
    have hq : qs ≠ [] := by
      intro e; subst e; exact absurd h.symm.nil_eq (by simp)
    apply Nat.le_antisymm
    · exact shortestOf_le _ _ (h.mem_iff.2 (shortestOf_mem qs hq))
    · exact shortestOf_le _ _ (h.mem_iff.1 (shortestOf_mem _ (by simp)))

/-- hence PathForKeyShortest of the wrapper and of the core return paths of the same length,
    whichever way each enumerates its path set -/
theorem C20_pathForKeyShortest (m : Val) (key : Str) (ps qs : List Str)
    (hp : List.Perm ps (wPathsForKey m key)) (hq : List.Perm qs (pathsForKey m key)) :
    segCount (shortestOf ps) = segCount (shortestOf qs) :=
  C20_shortest_order_independent ps qs (hp.trans hq.symm)

/-- only the length is determined: ties are broken by enumeration order (`a` and `b` are both
    shortest; the scan returns whichever comes first) -/
theorem C20_shortest_tie_witness :
    ∃ ps qs, List.Perm ps qs ∧ shortestOf ps ≠ shortestOf qs := by
  refine ⟨[['a'], ['b']], [['b'], ['a']], List.Perm.swap _ _ _, ?_⟩
  decide

/-! ### non-vacuity -/

/-- `{"doc":[{"-id":"1","name":"a"},{"-id":"2","name":"b"}]}` -/
def sample : Val :=
  .map [("doc".toList, .list [
    .map [("-id".toList, .str "1".toList), ("name".toList, .str "a".toList)],
    .map [("-id".toList, .str "2".toList), ("name".toList, .str "b".toList)]])]

/-- with attributes requested the wildcard yields the attribute values too … -/
example : wWalk true sample ["doc".toList, ['*']]
    = [.str "1".toList, .str "a".toList, .str "2".toList, .str "b".toList] := by
  simp [sample, wWalk, wLeaf, lookup, isDashKey]

/-- … in the default mode it does not: the two modes differ -/
example : wWalk false sample ["doc".toList, ['*']] = [.str "a".toList, .str "b".toList] := by
  simp [sample, wWalk, wLeaf, lookup, isDashKey]

example : wWalk false sample ["doc".toList, ['*']] ≠ wWalk true sample ["doc".toList, ['*']] := by
  simp [sample, wWalk, wLeaf, lookup, isDashKey]

/-- the core walker agrees with the attribute mode on the sample -/
example : walk none sample ["doc".toList, ['*']]
    = [.str "1".toList, .str "a".toList, .str "2".toList, .str "b".toList] := by
  simp [sample, walk, loadLeaf, lookup]

/-- naming the attribute explicitly reaches it in both modes (no wildcard on the path) -/
example : wWalk false sample ["doc".toList, "-id".toList] = [.str "1".toList, .str "2".toList] := by
  simp [sample, wWalk, wLeaf, lookup]

/-- the sample has attribute entries, a Map without them satisfies `noDashKeys` -/
example : noDashKeys sample = false := by decide
example : noDashKeys (.map [("a".toList, .list [.map [("b".toList, .null)]])]) = true := by decide

/-- ValuesAtKeyPath on the sample: the parent values when one holds the key, else nothing -/
example : valuesAtKeyPath sample "doc.name".toList true = walk none sample ["doc".toList] := by
  rw [C20_valuesAt]
  have hs : splitDot "doc.name".toList = ["doc".toList, "name".toList] := by decide
  have hp : passSubs none = fun _ => true := rfl
  simp only [hs]
  simp [sample, walk, loadLeaf, lookup, hp, List.dropLast]

example : valuesAtKeyPath sample "doc.zip".toList true = [] := by
  rw [C20_valuesAt]
  have hs : splitDot "doc.zip".toList = ["doc".toList, "zip".toList] := by decide
  have hp : passSubs none = fun _ => true := rfl
  simp only [hs]
  simp [sample, walk, loadLeaf, lookup, hp, List.dropLast]

end Mxj.C20
