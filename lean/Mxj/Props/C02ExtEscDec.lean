/-
  Mxj.Props.C02ExtEscDec — C02 "decode → encode → decode is a fixed point" under
  DECODER-SIDE ESCAPING (`XMLEscapeCharsDecoder`), the one symmetric option combination
  `Props/C02ExtSym.lean` excludes (`Sym.esc`).

  mxj has two mutually exclusive switches.  Encoder-side (`XMLEscapeChars`): the Map holds plain
  values and the ENCODER writes `escapeChars v`.  Decoder-side (`XMLEscapeCharsDecoder`): the
  DECODER stores `escapeChars v` in the Map for every text / attribute value `v` it reads, and
  the encoder — its own escaping off — writes the stored strings as they are.

  Option coverage (`SymEsc d e` / `EscPair d d0`): decoder-side escaping on, the encoder's
  escaping off, the cast flag off (`d.cast.r = false`; then the cast sub-flags and the
  `checkTagToSkip` set are inert and may be anything), and ANY attribute prefix, text key (not
  itself an attribute key, same on both sides), lower-case / snake-case key folding, keep-spaces
  and simple-values-as-map.  Part 1 additionally allows tag sequence numbers; the fixed point
  (as for every symmetric pair, `Sym.seq`) does not.  With the cast flag ON the statement of
  part 1 is false in general (`cast` sees the escaped text) and is not attempted.

  Part 1  `C02_escdec_stored_escaped…` — the Map under decoder-side escaping is the Map of the
          plain decoding with `escapeChars` applied to every string leaf (`EscDec.mapLeaves`),
          for EVERY tree; also through the stream decoder (`…_tokens`).
  Part 2  `C02_escdec_fixed_point…` — XML → Map → XML → Map is a fixed point.  The encoder
          writes the stored strings raw; the tokenizer reads raw text `r` as `unesc r`
          (`EscDec.rawView`, the tree the second decoding sees); on the encoder's tree for the
          decoded Map this view is defined and decodes to an equivalent Map.  Proof: part 1, the
          encoder's tree commutes with `mapLeaves`, `unesc ∘ escapeChars = id` (C05), and the
          plain fixed point `C02_sym_fixed_point_tree`.
          `TokLawRaw` is the trusted tokenizer law for raw text (it implies `TokLaw`), and
          `C02_escdec_fixed_point_bytes` the statement through bytes.
  Part 3  `C02_escdec_values_reproduced` — the raw strings the encoder writes are exactly
          `escapeChars` of the values of the plain Map, the bytes are the bytes encoder-side
          escaping would have written, and (C05) they contain no raw `<`, `>`, `"`, `'` and
          every `&` opens an entity.
  Part 4  a concrete document and the both-switches-on witness (double escaping).
-/
import Mxj.Lemmas.EscDec2
import Mxj.Props.C02ExtSym
import Mxj.Props.C05
namespace Mxj.C02
open Mxj Mxj.Enc Mxj.EncSym Mxj.EscDec

/-! ### Part 1: what the decoder stores -/

/-- decoder-side escaping stores the escaped values: for every tree, the conventions under `d`
    (escaping on) give the Map of the conventions under `d0` (the same options, escaping off)
    with `escapeChars` applied to every string leaf — text and attribute values alike; keys are
    untouched.  `EscPair d d0`: cast flag off on both sides; every other option (prefix, text
    key, key folding, keep-spaces, as-map, sequence numbers) arbitrary but equal. -/
theorem C02_escdec_stored_escaped (d d0 : DecCfg) (S : Strconv) (h : EscPair d d0) (t : Node) :
    Conv.doc d S t = mapLeaves escapeChars (Conv.doc d0 S t) :=
  doc_pair h S t

/-- the same for an element's value -/
theorem C02_escdec_stored_escaped_value (d d0 : DecCfg) (S : Strconv) (h : EscPair d d0)
    (t : Node) : Conv.value d S t = mapLeaves escapeChars (Conv.value d0 S t) :=
  value_pair h S t

/-- the instance "the same configuration with the switch turned off" -/
theorem C02_escdec_stored_escaped_switch (d : DecCfg) (S : Strconv) (hesc : d.escDec = true)
    (hc : d.cast.r = false) (t : Node) :
    Conv.doc d S t = mapLeaves escapeChars (Conv.doc { d with escDec := false } S t) :=
  doc_pair (EscPair_switch d hesc hc) S t

/-- default conventions: `{ escDec := true }` against the default decoder `dc` -/
theorem C02_escdec_stored_escaped_default (S : Strconv) (t : Node) :
    Conv.doc { escDec := true } S t = mapLeaves escapeChars (Conv.doc dc S t) :=
  doc_pair (d := { escDec := true }) (d0 := dc) ⟨rfl, rfl, rfl, rfl, rfl, rfl, rfl, rfl, rfl, rfl, rfl⟩ S t

/-- hence every string the decoder stores is an escaped string: the string leaves of the Map
    are `escapeChars` of the string leaves of the plain Map, in the same order -/
theorem C02_escdec_stored_leaves (d d0 : DecCfg) (S : Strconv) (h : EscPair d d0) (t : Node) :
    leaves (Conv.doc d S t) = (leaves (Conv.doc d0 S t)).map escapeChars := by
  rw [doc_pair h S t, leaves_mapLeaves]

/-- the C01 domain does not depend on the switch -/
theorem C02_escdec_domain (d d0 : DecCfg) (S : Strconv) (h : EscPair d d0) (t : Node) :
    Conv.inDomain d S t = Conv.inDomain d0 S t :=
  inDomain_pair h S t

/-- through the stream decoder (`newMapXml`, C01): decoding the token stream of an in-domain
    tree with the switch on and with it off both succeed, and the first Map is the second with
    every string leaf escaped (up to the order of map entries) -/
theorem C02_escdec_stored_escaped_tokens (d d0 : DecCfg) (S : Strconv) (h : EscPair d d0)
    (fin : StreamEnd) (pre post : List Tok) (hpre : ∀ t ∈ pre, ¬ isStart t)
    (sp name : Str) (attrs : List Attr) (kids : List Node)
    (hd : Conv.inDomain d S (.elem sp name attrs kids) = true)
    (hadj : noAdjText (.elem sp name attrs kids) = true) :
    ∃ m m0,
      newMapXml d S (pre ++ flatten (.elem sp name attrs kids) ++ post) fin = .ok m
      ∧ newMapXml d0 S (pre ++ flatten (.elem sp name attrs kids) ++ post) fin = .ok m0
      ∧ m ≈ᵥ mapLeaves escapeChars m0 := by
  have hd0 : Conv.inDomain d0 S (.elem sp name attrs kids) = true := by
    rw [← inDomain_pair h S]; exact hd
  obtain ⟨m, hm, hme⟩ := C01.C01_decode_conventions d S fin pre post hpre sp name attrs kids hd hadj
  obtain ⟨m0, hm0, hme0⟩ :=
    C01.C01_decode_conventions d0 S fin pre post hpre sp name attrs kids hd0 hadj
  refine ⟨m, m0, hm, hm0, ?_⟩
  refine Val.equiv_trans hme ?_
  rw [doc_pair h S]
  exact Val.equiv_symm (equiv_mapLeaves escapeChars hme0)

/-! ### Part 2: the fixed point -/

/-- a symmetric decoder / encoder pair under decoder-side escaping: same attribute prefix; same
    text key, which is not itself an attribute key; no tag sequence numbers; decoder-side
    escaping ON and the encoder's own escaping OFF (the two switches are mutually exclusive);
    cast flag off -/
structure SymEsc (d : DecCfg) (e : EncCfg) : Prop where
  pfx : e.attrPrefix = d.attrPrefix
  txt : e.textK = d.textK
  txt_not_attr : isAttrK e e.textK = false
  seq : d.seqNum = false
  esc : d.escDec = true
  enc_off : e.escape = false
  cast : d.cast.r = false

theorem C02_escdec_sym_pair {d : DecCfg} {e : EncCfg} (hs : SymEsc d e) : EscPair d (plainOf d) :=
  EscPair_plainOf d hs.esc hs.cast

/-- the plain counterpart `(plainOf d, e)` is a symmetric pair in the sense of `C02ExtSym` -/
theorem C02_escdec_sym_plain {d : DecCfg} {e : EncCfg} (hs : SymEsc d e) : Sym (plainOf d) e :=
  ⟨hs.pfx, hs.txt, hs.txt_not_attr, hs.seq, rfl, rfl⟩

theorem C02_escdec_foldLaw_plain {d : DecCfg} {S : Strconv} (hF : FoldLaw d S) : FoldLaw (plainOf d) S :=
  ⟨hF.elem_idem, hF.attr_idem⟩

/-- the tree-level core, with everything the later theorems need: for an in-domain tree `t`
    there is the tree `n0` the encoder builds for the PLAIN Map, the encoder's tree for the
    decoder-escaped Map is `mapNode escapeChars n0`, and the conventions under `d` applied to
    `n0` give a Map equivalent to the one of `t` -/
theorem C02_escdec_core (d : DecCfg) (S : Strconv) (e : EncCfg) (hs : SymEsc d e) (hF : FoldLaw d S)
    (sp name : Str) (attrs : List Attr) (kids : List Node)
    (hd : Conv.inDomain d S (.elem sp name attrs kids) = true)
    (hnames : NamesOkG d S e (.elem sp name attrs kids) = true) :
    ∃ n0,
      encTree e (elemKey d S name) (Conv.value (plainOf d) S (.elem sp name attrs kids)).norm
        = .ok [n0]
      ∧ encTree e (elemKey d S name) (Conv.value d S (.elem sp name attrs kids)).norm
        = .ok [mapNode escapeChars n0]
      ∧ Conv.doc d S n0 ≈ᵥ Conv.doc d S (.elem sp name attrs kids)
      ∧ Conv.inDomain d S n0 = true
      ∧ (∃ a' k', n0 = .elem [] (elemKey d S name) a' k')
      ∧ StrOnly (Conv.value d S (.elem sp name attrs kids)) = true
      ∧ (Conv.value d S (.elem sp name attrs kids)).isList = false := by
  have hp := C02_escdec_sym_pair hs
  have hs0 := C02_escdec_sym_plain hs
  have hF0 := C02_escdec_foldLaw_plain hF
  have hL0 : LeafLaw (plainOf d) S := LeafLaw_of_noCast (plainOf d) S rfl
  have hd0 : Conv.inDomain (plainOf d) S (.elem sp name attrs kids) = true := by
    rw [← inDomain_pair hp S]; exact hd
  have hn0 : NamesOkG (plainOf d) S e (.elem sp name attrs kids) = true := by
    rw [← NamesOkG_pair hp S e]; exact hnames
  -- the plain fixed point (C02ExtSym)
  obtain ⟨root0, hroot0, n0, hn0e, hfp⟩ :=
    C02_sym_fixed_point_tree (plainOf d) S e hs0 hF0 hL0 sp name attrs kids hd0 hn0
  have hroot : root0 = (elemKey d S name, Conv.value (plainOf d) S (.elem sp name attrs kids)) := by
    have h2 : Conv.doc (plainOf d) S (.elem sp name attrs kids)
        = .map [(elemKey d S name, Conv.value (plainOf d) S (.elem sp name attrs kids))] := rfl
    rw [h2] at hroot0
    simp only [Val.map.injEq, List.cons.injEq, and_true] at hroot0
    exact hroot0.symm
  subst hroot
  -- the plain value has only string leaves
  have hD := C02_sym_decoded (plainOf d) S e hs0 hF0 hL0 sp name attrs kids hd0 hn0
  have hDn := DecodedG_norm (plainOf d) S e _ hD
  have hSO : StrOnly (Conv.value (plainOf d) S (.elem sp name attrs kids)).norm = true :=
    DecodedG_StrOnly (plainOf d) S e rfl _ hDn
  have hSO' : StrOnly (Conv.value (plainOf d) S (.elem sp name attrs kids)) = true :=
    DecodedG_StrOnly (plainOf d) S e rfl _ hD
  have hnl : (Conv.value (plainOf d) S (.elem sp name attrs kids)).isList = false := by
    unfold DecodedG at hD
    simp only [Bool.and_eq_true, Bool.not_eq_true'] at hD
    exact hD.1
  unfold DecodedG at hDn
  simp only [Bool.and_eq_true, Bool.not_eq_true'] at hDn
  refine ⟨n0, hn0e, ?_, ?_, ?_, ?_, ?_, ?_⟩
  · rw [value_pair hp S, norm_mapLeaves]
    exact encTree_mapLeaves_single e escapeChars escapeChars_isEmpty _ _ n0 hSO hn0e
  · rw [doc_pair hp S n0, doc_pair hp S (.elem sp name attrs kids)]
    exact equiv_mapLeaves escapeChars hfp
  · rw [inDomain_pair hp S]
    obtain ⟨_, _, _, h⟩ := encTree_domG (plainOf d) S e hs0 _ _ _ hDn.2 hn0e _
      (List.mem_singleton.2 rfl)
    exact h
  · obtain ⟨a', k', he⟩ := encTree_single e _ _ [n0] hDn.1 hn0e
    exact ⟨a', k', by simpa using he⟩
  · rw [value_pair hp S, StrOnly_mapLeaves]; exact hSO'
  · rw [value_pair hp S, isList_mapLeaves]; exact hnl

/-- XML → Map → XML → Map is a fixed point under decoder-side escaping (tree level).
    For an in-domain tree `t` (C01 domain) whose names survive (`NamesOkG`), `Conv.doc d S t` —
    the Map with ESCAPED leaves — is a one-entry Map `{root}`; the encoder (own escaping off,
    `SymEsc.enc_off`) builds a single tree `n` whose text and attribute values are the stored
    strings, written raw; the tokenizer's view of that raw text (`rawView`: each value `r` read
    as `unesc r`) is defined — no bare '&', unknown entity or raw '<' — and decoding it again
    under `d` gives an equivalent Map. -/
theorem C02_escdec_fixed_point (d : DecCfg) (S : Strconv) (e : EncCfg) (hs : SymEsc d e)
    (hF : FoldLaw d S) (sp name : Str) (attrs : List Attr) (kids : List Node)
    (hd : Conv.inDomain d S (.elem sp name attrs kids) = true)
    (hnames : NamesOkG d S e (.elem sp name attrs kids) = true) :
    ∃ root, Conv.doc d S (.elem sp name attrs kids) = .map [root] ∧
      ∃ n, encTree e root.1 root.2.norm = .ok [n] ∧
        ∃ n', rawView n = some n'
          ∧ Conv.doc d S n' ≈ᵥ Conv.doc d S (.elem sp name attrs kids) := by
  obtain ⟨n0, _, hn, hfp, _⟩ := C02_escdec_core d S e hs hF sp name attrs kids hd hnames
  exact ⟨(elemKey d S name, Conv.value d S (.elem sp name attrs kids)), rfl,
    mapNode escapeChars n0, hn, n0, rawView_mapNode_escape n0, hfp⟩

/-- the same from the trusted-base law about `strings.ToLower` (needed only when keys are
    lower-cased) -/
theorem C02_escdec_fixed_point_tb (d : DecCfg) (S : Strconv) (e : EncCfg) (hs : SymEsc d e)
    (hlow : d.lowerCase = true → LowerLaw S)
    (sp name : Str) (attrs : List Attr) (kids : List Node)
    (hd : Conv.inDomain d S (.elem sp name attrs kids) = true)
    (hnames : NamesOkG d S e (.elem sp name attrs kids) = true) :
    ∃ root, Conv.doc d S (.elem sp name attrs kids) = .map [root] ∧
      ∃ n, encTree e root.1 root.2.norm = .ok [n] ∧
        ∃ n', rawView n = some n'
          ∧ Conv.doc d S n' ≈ᵥ Conv.doc d S (.elem sp name attrs kids) :=
  C02_escdec_fixed_point d S e hs (FoldLaw_of d S hlow) sp name attrs kids hd hnames

/-- default conventions: decoder `{ escDec := true }`, encoder `{}` (escaping off) -/
theorem C02_escdec_fixed_point_default (S : Strconv) (sp name : Str) (attrs : List Attr)
    (kids : List Node)
    (hd : Conv.inDomain { escDec := true } S (.elem sp name attrs kids) = true)
    (hnames : NamesOkG { escDec := true } S {} (.elem sp name attrs kids) = true) :
    ∃ root, Conv.doc { escDec := true } S (.elem sp name attrs kids) = .map [root] ∧
      ∃ n, encTree {} root.1 root.2.norm = .ok [n] ∧
        ∃ n', rawView n = some n'
          ∧ Conv.doc { escDec := true } S n'
              ≈ᵥ Conv.doc { escDec := true } S (.elem sp name attrs kids) :=
  C02_escdec_fixed_point_tb { escDec := true } S {} ⟨rfl, rfl, by decide, rfl, rfl, rfl, rfl⟩
    (fun h => by simp at h) sp name attrs kids hd hnames

/-! ### the tokenizer law for raw text, and the fixed point through bytes -/

/-- TB-XML-RAW: what the standard tokenizer (`xml.Decoder.RawToken` on the bytes, collected
    until EOF) returns for the canonical rendering, with the encoder's escaping OFF, of a tree
    `n` whose text nodes and attribute values are RAW strings.  If every value `r` of `n` is
    well-formed character data — `unesc r = some v`: no bare '&', no unknown entity, no raw '<'
    (`rawView n = some n'`, `n'` the tree of the `v`s) — and contains no raw '>' or '"'
    (`rawSafe`: no "]]>", no attribute delimiter), and `n'` is a canonical well-named tree
    (`WellNamed`, as in `TokLaw`), then the tokens are the token sequence of `n'`: the tokenizer
    hands over `v` for the raw text `r`.  This is the trusted tokenizer law; `TokLaw` (escaping
    on) is the special case `r = escapeChars v` (`C02_escdec_raw_law_implies_law`). -/
structure TokLawRaw (tokens : Str → List Tok) : Prop where
  render_raw : ∀ (cfg : EncCfg) (n n' : Node), cfg.escape = false → rawView n = some n' →
    rawSafe n = true → WellNamed n' = true → tokens (render cfg n) = flatten n'

/-- the raw law implies the law `C02_fixed_point_bytes` uses: writing `escapeChars v` raw is
    what the encoder with escaping on does -/
theorem C02_escdec_raw_law_implies_law {tokens : Str → List Tok} (law : TokLawRaw tokens) : TokLaw tokens := by
  constructor
  intro cfg n hesc hW
  have hcfg : escOn (escOff cfg) = cfg := by
    cases cfg
    simp only [escOn, escOff] at hesc ⊢
    simp only [hesc]
  have hr := render_mapNode_escape (escOff cfg) rfl n
  rw [hcfg] at hr
  rw [← hr]
  exact law.render_raw (escOff cfg) _ n rfl (rawView_mapNode_escape n)
    (rawSafe_mapNode_escape n) hW

/-- XML → Map → XML → Map through bytes under decoder-side escaping: decode the token stream of
    an in-domain tree `t` with `d` (`newMapXml`; the Map holds escaped strings), encode the Map
    with `mv.Xml()` under `e` (`mapXml`, the encoder's escaping off: the strings are written
    raw), tokenize the bytes (`tokens`, TB-XML-RAW) and decode again with `d`: the second Map is
    equivalent to the first.  `hwn`, as in `C02_fixed_point_bytes`: the tree the tokenizer sees
    — the encoder's tree for the PLAIN Map — is well-named (executable predicate). -/
theorem C02_escdec_fixed_point_bytes (tokens : Str → List Tok) (law : TokLawRaw tokens)
    (d : DecCfg) (S : Strconv) (e : EncCfg) (hs : SymEsc d e) (hF : FoldLaw d S)
    (fin : StreamEnd) (pre post : List Tok) (hpre : ∀ t ∈ pre, ¬ isStart t)
    (sp name : Str) (attrs : List Attr) (kids : List Node)
    (hd : Conv.inDomain d S (.elem sp name attrs kids) = true)
    (hadj : noAdjText (.elem sp name attrs kids) = true)
    (hnames : NamesOkG d S e (.elem sp name attrs kids) = true)
    (hwn : ∀ n0, encTree e (elemKey d S name)
        (Conv.value (plainOf d) S (.elem sp name attrs kids)).norm = .ok [n0] →
        WellNamed n0 = true) :
    ∃ m out m',
      newMapXml d S (pre ++ flatten (.elem sp name attrs kids) ++ post) fin = .ok (.map m)
      ∧ mapXml e m none = .ok out
      ∧ newMapXml d S (tokens out) fin = .ok m'
      ∧ m' ≈ᵥ .map m := by
  -- first decode
  obtain ⟨x, hx, hxe⟩ := C01.C01_decode_one_root d S fin pre post hpre sp name attrs kids hd hadj
  obtain ⟨n0, hn0e, hn, hfp, hdom, ⟨a', k', hshape⟩, hSO, hnl⟩ :=
    C02_escdec_core d S e hs hF sp name attrs kids hd hnames
  -- encode: same bytes as for the conventions' value
  have hm1 : Val.map [(elemKey d S name, x)]
      ≈ᵥ Val.map [(elemKey d S name, Conv.value d S (.elem sp name attrs kids))] := by
    unfold Val.equiv at hxe ⊢
    simp only [norm_singleton_map, hxe]
  have hbytes : mapXml e [(elemKey d S name, x)] none
      = .ok (render e (mapNode escapeChars n0)) := by
    rw [C16.C16_mapXml_perm_invariant e _ _ none hm1, mapXml_single e _ _ hnl,
      C02_render_eq_bytes e _ _ [mapNode escapeChars n0] (StrOnly_Plain e _ hSO) hn]
    simp
  -- tokenize and decode again
  have hW := hwn n0 hn0e
  subst hshape
  have hadj' : noAdjText (.elem [] (elemKey d S name) a' k') = true := by
    unfold WellNamed at hW
    simp only [Bool.and_eq_true] at hW
    exact hW.2
  obtain ⟨m', hm', hme⟩ := C01.C01_decode_conventions d S fin [] [] (by simp) []
    (elemKey d S name) a' k' hdom hadj'
  refine ⟨[(elemKey d S name, x)], _, m', hx, hbytes, ?_, ?_⟩
  · rw [law.render_raw e _ _ hs.enc_off (rawView_mapNode_escape _) (rawSafe_mapNode_escape _) hW]
    simpa using hm'
  · refine Val.equiv_trans hme (Val.equiv_trans hfp ?_)
    exact Val.equiv_symm hm1

/-! ### Part 3: decode followed by encode reproduces the original escaped values -/

/-- the raw strings the encoder writes for the decoder-escaped Map are exactly `escapeChars` of
    the values of the plain Map: with `n0` the tree the encoder builds for the plain Map (values
    unescaped) and `n` the tree it builds for the decoder-escaped Map (values written raw),
    `n = mapNode escapeChars n0`; the bytes written for `n` with the encoder's escaping off are
    the bytes encoder-side escaping would have written for the plain Map; and every raw string
    `r` is `escapeChars v` for a value `v` of `n0`, is read back as `v`, contains no raw
    `<`, `>`, `"`, `'`, and each of its `&` opens one of the five predefined entities. -/
theorem C02_escdec_values_reproduced (d : DecCfg) (S : Strconv) (e : EncCfg) (hs : SymEsc d e)
    (hF : FoldLaw d S) (sp name : Str) (attrs : List Attr) (kids : List Node)
    (hd : Conv.inDomain d S (.elem sp name attrs kids) = true)
    (hnames : NamesOkG d S e (.elem sp name attrs kids) = true) :
    ∃ n0 n,
      encTree e (elemKey d S name) (Conv.value (plainOf d) S (.elem sp name attrs kids)).norm
        = .ok [n0]
      ∧ encTree e (elemKey d S name) (Conv.value d S (.elem sp name attrs kids)).norm = .ok [n]
      ∧ n = mapNode escapeChars n0
      ∧ nodeVals n = (nodeVals n0).map escapeChars
      ∧ render e n = render (escOn e) n0
      ∧ ∀ r ∈ nodeVals n,
          (∃ v ∈ nodeVals n0, r = escapeChars v ∧ unesc r = some v)
          ∧ (∀ c ∈ r, c ≠ '<' ∧ c ≠ '>' ∧ c ≠ '"' ∧ c ≠ '\'')
          ∧ (∀ t, ('&' :: t) <:+ r → ∃ ent ∈ entityTexts, ent <+: ('&' :: t)) := by
  obtain ⟨n0, hn0e, hn, _⟩ := C02_escdec_core d S e hs hF sp name attrs kids hd hnames
  refine ⟨n0, mapNode escapeChars n0, hn0e, hn, rfl, nodeVals_mapNode escapeChars n0,
    render_mapNode_escape e hs.enc_off n0, ?_⟩
  intro r hr
  rw [nodeVals_mapNode] at hr
  obtain ⟨v, hv, rfl⟩ := List.mem_map.1 hr
  exact ⟨⟨v, hv, rfl, C05.C05_unescape_escape v⟩, C05.C05_escaped_no_specials v,
    fun t ht => C05.C05_escaped_amp_is_entity v t ht⟩

/-- the values alone, without reference to the trees: whatever single string the encoder writes
    raw for the decoder-escaped Map is well-formed character data free of raw specials -/
theorem C02_escdec_values_wellformed (d : DecCfg) (S : Strconv) (e : EncCfg) (hs : SymEsc d e)
    (hF : FoldLaw d S) (sp name : Str) (attrs : List Attr) (kids : List Node)
    (hd : Conv.inDomain d S (.elem sp name attrs kids) = true)
    (hnames : NamesOkG d S e (.elem sp name attrs kids) = true)
    (n : Node)
    (hn : encTree e (elemKey d S name) (Conv.value d S (.elem sp name attrs kids)).norm = .ok [n]) :
    rawSafe n = true ∧ (rawView n).isSome = true := by
  obtain ⟨n0, _, hn', _⟩ := C02_escdec_core d S e hs hF sp name attrs kids hd hnames
  rw [hn'] at hn
  simp only [Except.ok.injEq, List.cons.injEq, and_true] at hn
  subst hn
  exact ⟨rawSafe_mapNode_escape n0, by rw [rawView_mapNode_escape]; rfl⟩

/-! ### Part 4: non-vacuity, and why both switches on breaks the fixed point -/

/-- decoder-side escaping on, everything else default; encoder with its own escaping off -/
def dE : DecCfg := { escDec := true }
def eE : EncCfg := {}

theorem C02_escdec_example_sym : SymEsc dE eE := ⟨rfl, rfl, by decide, rfl, rfl, rfl, rfl⟩
theorem C02_escdec_example_fold : FoldLaw dE S0 := FoldLaw_of dE S0 (fun h => by simp [dE] at h)

/-- the document `<r k="&quot;q&quot;"> a&amp;b&lt;c <i/></r>` as the tokenizer hands it over:
    attribute value `"q"`, text ` a&b<c ` -/
def escTree : Node :=
  .elem [] "r".toList [⟨[], "k".toList, "\"q\"".toList⟩]
    [.text " a&b<c ".toList, .elem [] "i".toList [] []]

example : Conv.inDomain dE S0 escTree = true := by decide
example : NamesOkG dE S0 eE escTree = true := by decide

/-- the plain Map … -/
example : Conv.doc (plainOf dE) S0 escTree = .map [("r".toList, .map
    [("-k".toList, .str "\"q\"".toList), ("i".toList, .str []),
     ("#text".toList, .str "a&b<c".toList)])] := by decide

/-- … and the Map under decoder-side escaping: the same with every string leaf escaped -/
def escMap : Val := .map
    [("-k".toList, .str "&quot;q&quot;".toList), ("i".toList, .str []),
     ("#text".toList, .str "a&amp;b&lt;c".toList)]

example : Conv.doc dE S0 escTree = .map [("r".toList, escMap)] := by decide
example : Conv.doc dE S0 escTree = mapLeaves escapeChars (Conv.doc (plainOf dE) S0 escTree) :=
  C02_escdec_stored_escaped dE (plainOf dE) S0 (C02_escdec_sym_pair C02_escdec_example_sym) escTree

/-- the tree the encoder builds for it (values raw), its bytes with the encoder's escaping off … -/
def escEncTree : Node :=
  .elem [] "r".toList [⟨[], "k".toList, "&quot;q&quot;".toList⟩]
    [.text "a&amp;b&lt;c".toList, .elem [] "i".toList [] []]

example : encTree eE "r".toList escMap.norm = .ok [escEncTree] := by rfl
example : render eE escEncTree = "<r k=\"&quot;q&quot;\">a&amp;b&lt;c<i/></r>".toList := by decide
example : mapXml eE [("r".toList, escMap)] none
    = .ok "<r k=\"&quot;q&quot;\">a&amp;b&lt;c<i/></r>".toList := by rfl

/-- … what the tokenizer reads back: the original values (text now trimmed) … -/
def escBackTree : Node :=
  .elem [] "r".toList [⟨[], "k".toList, "\"q\"".toList⟩]
    [.text "a&b<c".toList, .elem [] "i".toList [] []]

example : rawView escEncTree = some escBackTree := by rfl
example : rawSafe escEncTree = true := by decide
example : WellNamed escBackTree = true := by decide

/-- … and the second decoding gives the same Map: the fixed point, computed -/
example : Conv.doc dE S0 escBackTree = .map [("r".toList, escMap)] := by decide

/-- the theorems apply to the document -/
example : ∃ root, Conv.doc dE S0 escTree = .map [root] ∧
    ∃ n, encTree eE root.1 root.2.norm = .ok [n] ∧
      ∃ n', rawView n = some n' ∧ Conv.doc dE S0 n' ≈ᵥ Conv.doc dE S0 escTree :=
  C02_escdec_fixed_point dE S0 eE C02_escdec_example_sym C02_escdec_example_fold _ _ _ _ (by decide) (by decide)

example : ∃ root, Conv.doc dE S0 escTree = .map [root] ∧
    ∃ n, encTree eE root.1 root.2.norm = .ok [n] ∧
      ∃ n', rawView n = some n' ∧ Conv.doc dE S0 n' ≈ᵥ Conv.doc dE S0 escTree :=
  ⟨("r".toList, escMap), by decide, escEncTree, rfl, escBackTree, rfl, by decide⟩

/-- the first decoding through the stream decoder, computed (entries in parser order) -/
example : newMapXml dE S0 (flatten escTree) .eof = .ok (.map [("r".toList, .map
    [("-k".toList, .str "&quot;q&quot;".toList), ("#text".toList, .str "a&amp;b&lt;c".toList),
     ("i".toList, .str [])])]) := rfl

/-- the premises of `C02_escdec_fixed_point_bytes` other than the tokenizer law hold for the
    document: under `TokLawRaw` the round trip through bytes is a fixed point -/
example (tokens : Str → List Tok) (law : TokLawRaw tokens) :
    ∃ m out m', newMapXml dE S0 ([] ++ flatten escTree ++ []) .eof = .ok (.map m)
      ∧ mapXml eE m none = .ok out ∧ newMapXml dE S0 (tokens out) .eof = .ok m'
      ∧ m' ≈ᵥ .map m :=
  C02_escdec_fixed_point_bytes tokens law dE S0 eE C02_escdec_example_sym C02_escdec_example_fold
    .eof [] [] (by simp) _ _ _ _ (by decide) (by decide) (by decide) (by
      intro n0 h
      have h' : encTree eE (elemKey dE S0 "r".toList) (Conv.value (plainOf dE) S0 escTree).norm
          = .ok [escBackTree] := rfl
      have h2 : Except.ok [escBackTree] = (Except.ok [n0] : Except ErrKind (List Node)) :=
        h'.symm.trans h
      simp only [Except.ok.injEq, List.cons.injEq, and_true] at h2
      subst h2
      decide)

/-- both switches on: the encoder escapes the already escaped strings, the tokenizer undoes one
    level only, and the decoder escapes again — the stored "&amp;" comes back as "&amp;amp;".
    At tree level (`TokLaw`: with the encoder's escaping on, the second decoding sees the
    encoder's tree itself) this is `¬ FixedPointAt` for the decoder `dE` and the escaping encoder
    `ec`; the root cause is that `escapeChars` is not idempotent. -/
theorem C02_escdec_double_escape_witness :
    escapeChars (escapeChars "&".toList) ≠ escapeChars "&".toList :=
  C05.C05_double_escape_witness

theorem C02_escdec_both_switches_witness :
    Conv.inDomain dE S0 escTree = true ∧ NamesOkG dE S0 ec escTree = true
      ∧ ¬ FixedPointAt dE S0 ec escTree := by
  refine ⟨by decide, by decide, ?_⟩
  rw [← fpCheck_iff]; decide

/-- what comes back with both switches on, computed: the leaves are escaped twice -/
example : ∃ n, encTree ec "r".toList escMap.norm = .ok [n]
    ∧ Conv.doc dE S0 n = .map [("r".toList, .map
        [("-k".toList, .str "&amp;quot;q&amp;quot;".toList), ("i".toList, .str []),
         ("#text".toList, .str "a&amp;amp;b&amp;lt;c".toList)])] := ⟨_, rfl, by decide⟩

/-- and with NEITHER switch on the stored strings are written raw unescaped: the bytes of the
    plain Map are not well-formed (`rawView` fails on the raw '&' / '<') -/
example : ∃ n, encTree eE "r".toList
      (.map [("-k".toList, .str "\"q\"".toList), ("#text".toList, .str "a&b<c".toList)]) = .ok [n]
    ∧ rawView n = none := ⟨_, rfl, rfl⟩

end Mxj.C02
