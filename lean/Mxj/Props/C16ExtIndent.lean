/-
  Mxj.Props.C16ExtIndent — "Encoders are deterministic", carried over to the INDENTED encoders
  `Map.XmlIndent` (model `mapXmlIndent`, Mxj.Model.EncodeIndent) and `MapSeq.XmlIndent` (model
  `mapSeqXmlIndent`, Mxj.Model.SeqIndent).

  (1) `C16_indent_perm_invariant`: Maps that are equal up to the order of map entries at every
      depth (`≈ᵥ`) give byte-identical `XmlIndent` output — for every prefix, indent and root tag,
      success or failure, no hypothesis.  Corollaries: entry lists that are permutations
      (`C16_indent_perm_invariant'`), the inductive "same Map, built in another order" relation
      `PermEq` (`C16_indent_permEq_invariant`), and the worker `marshalI` on the normalised value
      (`C16_indent_marshalI_invariant`).
  (2) `C16_indent_seq_vperm_invariant` / `C16_indent_seq_perm_invariant`: the same for the
      sequence encoder, leaning on the C04 order theorems (`C04_perm_invariant_all`: relation
      `VPerm`, hypothesis `GoodAt` — distinct keys and distinct `#seq` numbers at every
      element, which is what makes Go's `sort.Sort(elemListSeq)` order-independent).  New here:
      the statement is about the BYTES of the indented encoder (the C04 all-level theorem is
      about the compact encoder's tree), for every `pretty` state, either mode of the worker.
      `C16_indent_seq_equiv`: the `≈ᵥ` form.

  Property theorems and examples only; helper lemmas are in Mxj.Lemmas.IndentCor.
-/
import Mxj.Lemmas.IndentCor
import Mxj.Props.C16
import Mxj.Props.C02ExtIndent
import Mxj.Props.C04ExtIndent
set_option linter.unusedSimpArgs false
namespace Mxj.C16
open Mxj Mxj.Enc

/-! ### (1) `Map.XmlIndent` -/

/-- equal Maps however built (any entry order at any depth) give byte-identical INDENTED XML:
    same bytes on success, same error on failure; every prefix, indent and root tag -/
theorem C16_indent_perm_invariant (cfg : EncCfg) (pfx indent : Str) (m m' : Entries)
    (rt : Option Str) (h : Val.map m ≈ᵥ Val.map m') :
    mapXmlIndent cfg pfx indent m rt = mapXmlIndent cfg pfx indent m' rt := by
  obtain ⟨h1, h2⟩ := mapXmlIndentRoot_equiv m m' rt h
  unfold mapXmlIndent
  simp only [h1, h2]

/-- … in particular when the two entry lists are permutations of each other (distinct keys) -/
theorem C16_indent_perm_invariant' (cfg : EncCfg) (pfx indent : Str) (m m' : Entries)
    (rt : Option Str) (hp : List.Perm m m') (hd : distinctKeys m = true) :
    mapXmlIndent cfg pfx indent m rt = mapXmlIndent cfg pfx indent m' rt :=
  C16_indent_perm_invariant cfg pfx indent m m' rt (equiv_map_of_perm hp hd)

/-- … and for the same Map built in any entry order at any depth (`PermEq`) -/
theorem C16_indent_permEq_invariant (cfg : EncCfg) (pfx indent : Str) (m m' : Entries)
    (rt : Option Str) (hwf : (Val.map m).wf = true) (h : PermEq (.map m) (.map m')) :
    mapXmlIndent cfg pfx indent m rt = mapXmlIndent cfg pfx indent m' rt :=
  C16_indent_perm_invariant cfg pfx indent m m' rt (C16_permEq_equiv _ _ hwf h)

/-- the worker: `marshalMapToXmlIndent(true, …)` is run on the normalised value, so `≈ᵥ` values
    give the same bytes under every key, in every `pretty` state -/
theorem C16_indent_marshalI_invariant (cfg : EncCfg) (indent : Str) (p : Enc.Pretty) (key : Str)
    (v w : Val) (h : v ≈ᵥ w) :
    marshalI cfg indent p key v.norm = marshalI cfg indent p key w.norm := by
  rw [show v.norm = w.norm from h]

/-- the root `XmlIndent` picks does not depend on the entry order either -/
theorem C16_indent_root_invariant (m m' : Entries) (rt : Option Str)
    (h : Val.map m ≈ᵥ Val.map m') :
    (mapXmlIndentRoot m rt).1 = (mapXmlIndentRoot m' rt).1
      ∧ (mapXmlIndentRoot m rt).2 ≈ᵥ (mapXmlIndentRoot m' rt).2 :=
  mapXmlIndentRoot_equiv m m' rt h

/-- the indented and the compact encoder agree on WHEN they fail, so the error case of
    `C16_indent_perm_invariant` is the error case of `C16_perm_invariant` -/
theorem C16_indent_error_invariant (cfg : EncCfg) (pfx indent pfx' indent' : Str) (m m' : Entries)
    (rt : Option Str) (h : Val.map m ≈ᵥ Val.map m') (e : ErrKind)
    (he : mapXmlIndent cfg pfx indent m rt = .error e) :
    mapXmlIndent cfg pfx' indent' m' rt = .error e := by
  rw [C02.C02_indent_error_iff] at he ⊢
  obtain ⟨h1, h2⟩ := mapXmlIndentRoot_equiv m m' rt h
  rw [← h1, ← C16_perm_invariant cfg _ _ _ h2]
  exact he

/-! ### non-vacuity -/

/-- the C16 sample: entries swapped at the root AND inside the nested map -/
example :
    let a : Entries := [("b".toList, .num "i:2".toList),
                        ("a".toList, .map [("y".toList, .null), ("x".toList, .bool true)])]
    let b : Entries := [("a".toList, .map [("x".toList, .bool true), ("y".toList, .null)]),
                        ("b".toList, .num "i:2".toList)]
    Val.map a ≈ᵥ Val.map b
      ∧ mapXmlIndent {} " ".toList "  ".toList a (some "r".toList)
          = .ok " <r>\n   <a>\n     <x>true</x>\n     <y/>\n   </a>\n   <b>2</b>\n </r>".toList
      ∧ mapXmlIndent {} " ".toList "  ".toList b (some "r".toList)
          = .ok " <r>\n   <a>\n     <x>true</x>\n     <y/>\n   </a>\n   <b>2</b>\n </r>".toList :=
  ⟨by decide, rfl, rfl⟩

/-- the C02ExtIndent sample with the entries of `r` reversed -/
example :
    Val.map C02.indentMap ≈ᵥ Val.map
      [("r".toList, .map [("g".toList, .null), ("e".toList, .map [("f".toList, .num "f:1.5".toList)]),
        ("b".toList, .list [.str "c".toList, .str "d".toList]),
        ("#text".toList, .str "hello".toList), ("-k".toList, .str "v".toList)])] := by decide

/-- the error case: an attribute whose value is a list, behind / before another entry -/
example :
    mapXmlIndent {} [] "  ".toList
        [("r".toList, .map [("-k".toList, .list []), ("a".toList, .null)])] none = .error .other
    ∧ mapXmlIndent {} [] "  ".toList
        [("r".toList, .map [("a".toList, .null), ("-k".toList, .list [])])] none = .error .other :=
  ⟨rfl, rfl⟩

/-- list order is NOT map-entry order: `≈ᵥ` does not identify lists with their members
    permuted, and the bytes differ -/
example :
    ¬ (Val.map [("a".toList, .list [.str "x".toList, .str "y".toList])]
        ≈ᵥ Val.map [("a".toList, .list [.str "y".toList, .str "x".toList])]) := by decide

/-! ### (2) `MapSeq.XmlIndent` -/

section Seq
open Mxj.SeqL Mxj.SeqIL

/-- the worker `mapToXmlSeqIndent(doIndent, …)`, FULL STRENGTH: both modes, every fuel, key and
    `pretty` state, escaping and empty-element setting — the pieces written for `w` and `v` are
    the same whenever `w` is `v` with the entries of every map, at every level, in some other
    order (`VPerm`), and `v` is `GoodAt` its key (distinct keys and distinct `#seq` numbers at
    every element: the hypothesis of `C04_perm_invariant_all`) -/
theorem C16_indent_seq_worker_invariant (c : SeqCfg) (esc ge di : Bool) (f : Nat) (p : Mxj.Pretty)
    (key : Str) (w v : Val) (h : VPerm w v) (hg : GoodAt c key v) :
    seqEncP c esc ge di f p key w = seqEncP c esc ge di f p key v :=
  seqEncP_vperm c esc ge di f p key w v h hg

/-- `msv.XmlIndent(prefix, indent)`: byte-identical output (same bytes, same error, same panic)
    for MapSeqs that differ only in the order of map entries, at any depth.  `GoodAt` is asked
    of the root `XmlIndent` picks (`seqRootI`: the single entry, or the whole MapSeq under
    `doc`). -/
theorem C16_indent_seq_vperm_invariant (c : SeqCfg) (esc ge : Bool) (pfx ind : Str)
    (m' m : Entries) (h : VPerm (.map m') (.map m))
    (hg : GoodAt c (seqRootI m).1 (seqRootI m).2) :
    mapSeqXmlIndent c esc ge pfx ind m' = mapSeqXmlIndent c esc ge pfx ind m := by
  unfold mapSeqXmlIndent
  rw [mapSeqXmlIndentP_vperm c esc ge pfx ind h hg]

/-- … in particular for a permutation of the top-level entries -/
theorem C16_indent_seq_perm_invariant (c : SeqCfg) (esc ge : Bool) (pfx ind : Str)
    (m' m : Entries) (hp : m'.Perm m) (hg : GoodAt c (seqRootI m).1 (seqRootI m).2) :
    mapSeqXmlIndent c esc ge pfx ind m' = mapSeqXmlIndent c esc ge pfx ind m :=
  C16_indent_seq_vperm_invariant c esc ge pfx ind m' m (VPerm.of_perm hp) hg

/-- a value is its own normal form with the entries in another order: `≈ᵥ` is covered by `VPerm` -/
theorem C16_indent_vperm_norm (v : Val) : VPerm v.norm v := vperm_norm v

/-- the `≈ᵥ` form: equal MapSeqs (any entry order at any depth), both `GoodAt` their root, give
    byte-identical `XmlIndent` output -/
theorem C16_indent_seq_equiv (c : SeqCfg) (esc ge : Bool) (pfx ind : Str) (m m' : Entries)
    (h : Val.map m ≈ᵥ Val.map m')
    (hg : GoodAt c (seqRootI m).1 (seqRootI m).2)
    (hg' : GoodAt c (seqRootI m').1 (seqRootI m').2) :
    mapSeqXmlIndent c esc ge pfx ind m = mapSeqXmlIndent c esc ge pfx ind m' := by
  have h1 := C16_indent_seq_vperm_invariant c esc ge pfx ind _ m (vperm_norm (.map m)) hg
  have h2 := C16_indent_seq_vperm_invariant c esc ge pfx ind _ m' (vperm_norm (.map m')) hg'
  have e : (Val.map m).norm = (Val.map m').norm := h
  simp only [Val.norm] at h1 h2 e
  rw [← h1, ← h2]
  injection e with e
  rw [e]

/-- every decoded document qualifies: whatever order Go ranges over the maps of the decoded
    MapSeq in, at every level, `XmlIndent` writes the same bytes -/
theorem C16_indent_seq_decoded (S : Strconv) (esc ge : Bool) (pfx ind : Str) (sp name : Str)
    (attrs : List Attr) (kids : List Node) (hd : SeqDomain (.elem sp name attrs kids) = true)
    (w : Val) (hw : VPerm w (SeqFold.value seqDflt S (.elem sp name attrs kids))) :
    mapSeqXmlIndent seqDflt esc ge pfx ind [(qualName seqDflt sp name, w)]
      = mapSeqXmlIndent seqDflt esc ge pfx ind
          [(qualName seqDflt sp name, SeqFold.value seqDflt S (.elem sp name attrs kids))] := by
  apply C16_indent_seq_vperm_invariant
  · simp only [VPerm]
    refine ⟨_, _, rfl, List.Perm.refl _, ?_⟩
    simp only [EPerm]
    exact ⟨_, [], rfl, hw, rfl⟩
  · rw [value_eq_finish seqDflt S sp name attrs kids, seqRootI_finish,
      ← value_eq_finish seqDflt S sp name attrs kids]
    exact (good_value seqDflt S cfgOk_dflt _ hd _).1

/-- by-product for the COMPACT sequence encoder: `C04_perm_invariant_all` (all levels) is about
    the tree `seqEncTree`; the worker theorem in its compact mode, with `C04_indent_compact_mode`,
    gives the BYTES of `seqEnc` — for values without a scalar under a comment / directive /
    processing-instruction key (`noteOk`, where `seqEnc` and the Go code part ways) -/
theorem C16_indent_seq_compact_invariant (c : SeqCfg) (esc ge : Bool) (f : Nat) (key : Str)
    (w v : Val) (h : VPerm w v) (hg : GoodAt c key v)
    (hw : noteOk c key w = true) (hv : noteOk c key v = true) :
    seqEnc c esc ge f key w = seqEnc c esc ge f key v := by
  rw [← C04.C04_indent_compact_mode c esc ge f (Mxj.Pretty.init [] []) key w hw,
    ← C04.C04_indent_compact_mode c esc ge f (Mxj.Pretty.init [] []) key v hv,
    seqEncP_vperm c esc ge false f _ key w v h hg]

/-! non-vacuity and the forced hypothesis -/

/-- `<r><a>x</a><b>y</b></r>` as a MapSeq, entries of `r` and of its children in two orders -/
def seqOrdA : Entries :=
  [("r".toList, .map [
     ("b".toList, .map [("#text".toList, .str "y".toList), ("#seq".toList, .num "i:1".toList)]),
     ("a".toList, .map [("#seq".toList, .num "i:0".toList), ("#text".toList, .str "x".toList)]),
     ("#seq".toList, .num "i:0".toList)])]
def seqOrdB : Entries :=
  [("r".toList, .map [("#seq".toList, .num "i:0".toList),
     ("a".toList, .map [("#text".toList, .str "x".toList), ("#seq".toList, .num "i:0".toList)]),
     ("b".toList, .map [("#seq".toList, .num "i:1".toList), ("#text".toList, .str "y".toList)])])]

example : Val.map seqOrdA ≈ᵥ Val.map seqOrdB := by decide

example :
    mapSeqXmlIndent seqDflt true false " ".toList "\t".toList seqOrdA
      = .ok " <r>\n \t<a>x</a>\n \t<b>y</b>\n </r>".toList
    ∧ mapSeqXmlIndent seqDflt true false " ".toList "\t".toList seqOrdB
      = .ok " <r>\n \t<a>x</a>\n \t<b>y</b>\n </r>".toList := by
  constructor <;>
    simp [seqOrdA, seqOrdB, mapSeqXmlIndent, mapSeqXmlIndentP, seqRootI, seqEncP, seqKidsP, seqMembersP,
      seqDflt, lookup, unrollEntries, sortBySeq, insertBySeq, seqOf, Outcome.mapOk, Outcome.fstOk,
      Piece.flat, layPad, layNl, layEnd, Pretty.init, Pretty.deeper, Pretty.shallower,
      Pretty.indentStep, Pretty.outdent, closeTag, Val.isList, fmtV, strOf, digitsVal, isDigit, ltKey,
      noteKeyB, endOf, defaultRootTag, Val.depth, Val.depthList, Val.depthEntries, escapeChars_flatMap,
      escOne]

/-- the hypotheses of `C16_indent_seq_equiv` hold for the two -/
example : GoodAt seqDflt (seqRootI seqOrdB).1 (seqRootI seqOrdB).2 := by
  simp [seqOrdB, seqRootI, GoodAt, GoodE, GoodAttrs, isNoteKey, keys, seqDflt, lookup, unrollEntries,
    seqOf, strOf, digitsVal, isDigit, Val.isList]

/-- the theorem instantiated on the C04 sample document -/
example (w : Val) (hw : VPerm w (SeqFold.value seqDflt SeqSample.S0 SeqSample.tree)) :
    mapSeqXmlIndent seqDflt true false " ".toList "\t".toList [("r".toList, w)]
      = mapSeqXmlIndent seqDflt true false " ".toList "\t".toList
          [("r".toList, SeqFold.value seqDflt SeqSample.S0 SeqSample.tree)] :=
  C16_indent_seq_decoded SeqSample.S0 true false _ _ [] "r".toList _ _
    (by decide : SeqDomain SeqSample.tree = true) w hw

/-- `GoodAt` is forced: two children carrying the SAME `#seq` are written in an order that
    depends on the order in which Go's map range hands them to `sort.Sort` (here: the model's
    insertion sort) — the two entry orders of one and the same Map give different bytes -/
example :
    let m : Entries :=
      [("a".toList, .map [("#seq".toList, .num "i:0".toList), ("#text".toList, .str "x".toList)]),
       ("b".toList, .map [("#seq".toList, .num "i:0".toList), ("#text".toList, .str "y".toList)])]
    Val.map m ≈ᵥ Val.map m.reverse
      ∧ mapSeqXmlIndent seqDflt false false [] "  ".toList m
          = .ok "<doc>\n  <b>y</b>\n  <a>x</a>\n</doc>".toList
      ∧ mapSeqXmlIndent seqDflt false false [] "  ".toList m.reverse
          = .ok "<doc>\n  <a>x</a>\n  <b>y</b>\n</doc>".toList := by
  refine ⟨by decide, ?_, ?_⟩ <;>
    simp [mapSeqXmlIndent, mapSeqXmlIndentP, seqRootI, seqEncP, seqKidsP, seqMembersP,
      seqDflt, lookup, unrollEntries, sortBySeq, insertBySeq, seqOf, Outcome.mapOk, Outcome.fstOk,
      Piece.flat, layPad, layNl, layEnd, Pretty.init, Pretty.deeper, Pretty.shallower,
      Pretty.indentStep, Pretty.outdent, closeTag, Val.isList, fmtV, strOf, digitsVal, isDigit, ltKey,
      noteKeyB, endOf, defaultRootTag, Val.depth, Val.depthList, Val.depthEntries]

end Seq

end Mxj.C16
