/-
  Mxj.Props.C06ExtFrame — frame of C06's API over the package-level state, on facts regenerated from
  /repo's current source on every run: the JSON codec and Copy read JsonUseNumber only;
  and none of them (nor any function they can reach) assigns a package-level variable, so what they
  return is a function of their arguments and of exactly those options - no hidden state carried
  from one call to the next.
-/
import Mxj.Lemmas.Facts
namespace Mxj.C06
open Mxj

/-- the option variables C06's functions may read -/
def frameAllowed : List String := ["JsonUseNumber"]

theorem C06_frame_reads (root g v : String) (hr : root ∈ Generated.c06FrameRoots)
    (h : Facts.Reach root g) (hv : v ∈ Facts.readsOf g) : v ∈ frameAllowed := by
  have hc : Facts.closed Generated.c06FrameRootsClosure = true := by decide
  have ho : Facts.onlyReads Generated.c06FrameRootsClosure frameAllowed = true := by decide
  have hin := Facts.mem_of_all_contains' Generated.c06FrameRoots Generated.c06FrameRootsClosure
    (by decide) root hr
  exact Facts.reads_subset_of_cert _ _ hc ho root g v hin h hv

theorem C06_frame_no_hidden_state (root g : String) (hr : root ∈ Generated.c06FrameRoots)
    (h : Facts.Reach root g) : Facts.writesOf g = [] := by
  have hc : Facts.closed Generated.c06FrameRootsClosure = true := by decide
  have hn : Facts.noneWrites Generated.c06FrameRootsClosure = true := by decide
  have hin := Facts.mem_of_all_contains' Generated.c06FrameRoots Generated.c06FrameRootsClosure
    (by decide) root hr
  exact Facts.not_writes_of_cert _ hc hn root g hin h

/-- the statements are not vacuous: the API group is present in the source -/
theorem C06_frame_roots_present : Generated.c06FrameRoots.length ≥ 1 := by decide

end Mxj.C06
