/-
  Mxj.Props.C12 — Map.NewMap: for key pairs old:new the returned Map contains at each new
  path exactly the values ValuesForPath(old) yields on the receiver (the single value, or a
  list when several), contains nothing else, skips old paths that yield nothing, and rejects
  malformed pairs with an error.  Exact content is claimed when no new path equals or
  extends another (`incomparable`).  Property theorems only; helper lemmas live in
  Mxj.Lemmas.NewMap (namespace `Mxj.NM`).

  Model: Mxj.Model.NewMap (storeNew, addNewVal, singleOrList, newKeyPath, newMapLoop, newMap).
  Specification vocabulary (Mxj.Lemmas.NewMap): `getPath` (value at a key path through nested
  maps, Mxj.Model.Mutate), `mkPath`, `clearAlong`, `incomparable`, `pairOf`, `validPair`,
  `malformed`, `contrib`/`contribPaths`, `addAll`.

  All loop theorems hold for an arbitrary `vfp : Str → Except ErrKind (List Val)` standing for
  `mv.ValuesForPath(oldKey)`; the last section instantiates them at the real `newMap`.
-/
import Mxj.Lemmas.NewMap
namespace Mxj.C12
open Mxj Mxj.NM

/-! ### one insertion -/

/-- insertion along a new path that neither equals nor extends (nor is extended by) any path
    already present: the result has the new value at that path and every path incomparable
    with it keeps its value -/
theorem C12_add_fresh (nv : Val) (n : Entries) (p : List Str) (hp : p ≠ [])
    (hclear : clearAlong n p = true) :
    getPath (.map (addNewVal nv n p)) p = some nv ∧
    ∀ q, incomparable p q → getPath (.map (addNewVal nv n p)) q = getPath (.map n) q :=
  ⟨addNewVal_get nv p n hp hclear, fun q hq => addNewVal_frame nv p q n hq⟩

/-- the frame part needs no clearness: whatever already sits along `p` (scalars turned into
    lists, lists appended to or descended into), paths incomparable with `p` are untouched -/
theorem C12_add_frame (nv : Val) (n : Entries) (p q : List Str) (h : incomparable p q) :
    getPath (.map (addNewVal nv n p)) q = getPath (.map n) q :=
  addNewVal_frame nv p q n h

/-- building into a fresh map along a path creates exactly that path -/
theorem C12_add_empty (nv : Val) (p : List Str) : addNewVal nv [] p = mkPath nv p :=
  addNewVal_nil_eq_mkPath nv p

/-- clearness along the other new paths is preserved by an insertion (the loop invariant) -/
theorem C12_add_keeps_clear (nv : Val) (n : Entries) (p q : List Str)
    (hq : clearAlong n q = true) (h : incomparable p q) :
    clearAlong (addNewVal nv n p) q = true :=
  clearAlong_addNewVal nv p q n hq h

/-- the path of a non-empty new key is non-empty -/
theorem C12_newKeyPath_ne_nil (nw : Str) (h : nw ≠ []) : newKeyPath nw ≠ [] :=
  newKeyPath_ne_nil nw h

/-! ### the loop -/

section Loop
variable (vfp : Str → Except ErrKind (List Val))

/-- which new paths contribute: those of non-empty pairs `old:new` (or `old` alone, meaning
    `old:old`) whose old path yields at least one value -/
theorem C12_contribPaths_spec (pairs : List Str) (p : List Str) :
    p ∈ contribPaths vfp pairs ↔
      ∃ v ∈ pairs, v ≠ [] ∧ ∃ o nw vs, pairOf v = some (o, nw) ∧ vfp o = .ok vs ∧ vs ≠ [] ∧
        p = newKeyPath nw :=
  mem_contribPaths vfp pairs p

/-- on valid pairs whose old paths all evaluate, the loop cannot fail and is exactly the
    in-order insertion of the contributions, from any accumulator -/
theorem C12_loop_is_fold (pairs : List Str) (n : Entries)
    (hvalid : ∀ v ∈ pairs, v ≠ [] → validPair v = true)
    (hok : ∀ v ∈ pairs, v ≠ [] → ∀ o nw, pairOf v = some (o, nw) → ∃ vs, vfp o = .ok vs) :
    newMapLoop vfp pairs n = (addAll n (contrib vfp pairs), none) :=
  newMapLoop_eq_addAll vfp pairs n hvalid hok

/-- the general form of the content theorem, from an arbitrary accumulator `n` that is clear
    along every contributing new path: no error; every contribution is found at its path;
    every path incomparable with all contributing paths keeps the value it had in `n` -/
theorem C12_content_from (pairs : List Str) (n : Entries)
    (hvalid : ∀ v ∈ pairs, v ≠ [] → validPair v = true)
    (hok : ∀ v ∈ pairs, v ≠ [] → ∀ o nw, pairOf v = some (o, nw) → ∃ vs, vfp o = .ok vs)
    (hinc : List.Pairwise incomparable (contribPaths vfp pairs))
    (hclear : ∀ p ∈ contribPaths vfp pairs, clearAlong n p = true) :
    ∃ result, newMapLoop vfp pairs n = (result, none) ∧
      (∀ v ∈ pairs, v ≠ [] → ∀ o nw vs, pairOf v = some (o, nw) → vfp o = .ok vs → vs ≠ [] →
        getPath (.map result) (newKeyPath nw) = some (singleOrList vs)) ∧
      (∀ q, (∀ p ∈ contribPaths vfp pairs, incomparable p q) →
        getPath (.map result) q = getPath (.map n) q) := by
  refine ⟨addAll n (contrib vfp pairs), newMapLoop_eq_addAll vfp pairs n hvalid hok, ?_, ?_⟩
  · intro v hvm hv o nw vs hp he hvs
    have hmem : (newKeyPath nw, singleOrList vs) ∈ contrib vfp pairs :=
      (mem_contrib vfp pairs _ _).2 ⟨v, hvm, hv, o, nw, vs, hp, he, hvs, rfl, rfl⟩
    refine addAll_get (contrib vfp pairs) n ?_ hinc ?_ _ hmem
    · intro c hc
      obtain ⟨v', hvm', hv', o', nw', vs', hp', -, -, hc1, -⟩ :=
        (mem_contrib vfp pairs c.1 c.2).1 hc
      obtain ⟨o'', nw'', hp'', -, hnw, -⟩ := validPair_some v' (hvalid v' hvm' hv')
      rw [hp'] at hp''
      cases hp''
      rw [hc1]; exact newKeyPath_ne_nil nw' hnw
    · intro c hc
      exact hclear c.1 (List.mem_map_of_mem hc)
  · intro q hq
    refine addAll_frame q (contrib vfp pairs) n ?_
    intro c hc
    exact hq c.1 (List.mem_map_of_mem hc)

/-- the whole loop started from the empty accumulator: for valid pairs (every non-empty pair
    string satisfies `validPair`, `vfp` returns `.ok` on every old key) whose contributing new
    paths are pairwise incomparable: no error; every contributing pair `old:new` has
    `singleOrList (values of old)` at the path of `new`; and the result contains nothing else —
    every non-empty path incomparable with all contributing new paths is absent -/
theorem C12_content (pairs : List Str)
    (hvalid : ∀ v ∈ pairs, v ≠ [] → validPair v = true)
    (hok : ∀ v ∈ pairs, v ≠ [] → ∀ o nw, pairOf v = some (o, nw) → ∃ vs, vfp o = .ok vs)
    (hinc : List.Pairwise incomparable (contribPaths vfp pairs)) :
    ∃ result, newMapLoop vfp pairs [] = (result, none) ∧
      (∀ v ∈ pairs, v ≠ [] → ∀ o nw vs, pairOf v = some (o, nw) → vfp o = .ok vs → vs ≠ [] →
        getPath (.map result) (newKeyPath nw) = some (singleOrList vs)) ∧
      (∀ q, q ≠ [] → (∀ p ∈ contribPaths vfp pairs, incomparable p q) →
        getPath (.map result) q = none) := by
  obtain ⟨result, hres, hget, hframe⟩ :=
    C12_content_from vfp pairs [] hvalid hok hinc (fun p _ => clearAlong_nil p)
  refine ⟨result, hres, hget, ?_⟩
  intro q hq hall
  rw [hframe q hall]; exact getPath_empty q hq

/-- when nothing contributes (all old paths yield nothing) the result is the empty Map -/
theorem C12_content_none (pairs : List Str)
    (hvalid : ∀ v ∈ pairs, v ≠ [] → validPair v = true)
    (hnone : ∀ v ∈ pairs, v ≠ [] → ∀ o nw, pairOf v = some (o, nw) → vfp o = .ok []) :
    newMapLoop vfp pairs [] = ([], none) := by
  have hok : ∀ v ∈ pairs, v ≠ [] → ∀ o nw, pairOf v = some (o, nw) → ∃ vs, vfp o = .ok vs :=
    fun v hvm hv o nw hp => ⟨[], hnone v hvm hv o nw hp⟩
  rw [newMapLoop_eq_addAll vfp pairs [] hvalid hok]
  have hc : contrib vfp pairs = [] := by
    cases hcs : contrib vfp pairs with
    | nil => rfl
    | cons c cs =>
      have hm : (c.1, c.2) ∈ contrib vfp pairs := by rw [hcs]; exact List.mem_cons_self
      obtain ⟨v, hvm, hv, o, nw, vs, hp, he, hvs, -, -⟩ := (mem_contrib vfp pairs c.1 c.2).1 hm
      rw [hnone v hvm hv o nw hp] at he
      cases he; exact absurd rfl hvs
  rw [hc]; rfl

/-- an old path yielding [] leaves the accumulator unchanged -/
theorem C12_skips_empty (v : Str) (rest : List Str) (n : Entries) (o nw : Str)
    (hv : v ≠ []) (hp : pairOf v = some (o, nw)) (hval : validPair v = true)
    (he : vfp o = .ok []) :
    newMapLoop vfp (v :: rest) n = newMapLoop vfp rest n :=
  newMapLoop_skip vfp v rest n hv hval o nw hp he

/-- … also in the middle of the list: the pair can be dropped -/
theorem C12_skips_empty_mid (pre : List Str) (v : Str) (rest : List Str) (n : Entries)
    (o nw : Str) (hv : v ≠ []) (hp : pairOf v = some (o, nw)) (hval : validPair v = true)
    (he : vfp o = .ok []) :
    newMapLoop vfp (pre ++ v :: rest) n = newMapLoop vfp (pre ++ rest) n := by
  rw [newMapLoop_append, newMapLoop_append]
  cases newMapLoop vfp pre n with
  | mk n' e => cases e <;> simp [C12_skips_empty vfp v rest _ o nw hv hp hval he]

/-- a pair yielding values stores the single value, or the list when several, along the path
    of the new key and continues -/
theorem C12_adds (v : Str) (rest : List Str) (n : Entries) (o nw : Str) (vs : List Val)
    (hv : v ≠ []) (hp : pairOf v = some (o, nw)) (hval : validPair v = true)
    (he : vfp o = .ok vs) (hvs : vs ≠ []) :
    newMapLoop vfp (v :: rest) n =
      newMapLoop vfp rest (addNewVal (singleOrList vs) n (newKeyPath nw)) :=
  newMapLoop_add vfp v rest n hv hval o nw hp vs he hvs

/-- the parser's verdict in words: a pair is invalid exactly when it has more than one ':',
    an empty old or new part, or a new part containing '*' or '[' -/
theorem C12_malformed_iff (v : Str) (hv : v ≠ []) : validPair v = false ↔ malformed v :=
  validPair_false_iff v hv

/-- "more than one ':'" is "more than two parts" -/
theorem C12_colon_count (v : Str) : (splitOn [':'] v).length = v.count ':' + 1 :=
  splitOn_length ':' v

/-- a pair with more than one ':', an empty old or new part, or a new part containing '*' or
    '[' makes the result's error component `some .keypair`; the Map built so far is returned
    and later pairs are not processed -/
theorem C12_rejects_malformed (pre : List Str) (v : Str) (rest : List Str) (n n' : Entries)
    (hpre : newMapLoop vfp pre n = (n', none)) (hv : v ≠ []) (hm : malformed v) :
    newMapLoop vfp (pre ++ v :: rest) n = (n', some .keypair) := by
  rw [newMapLoop_append, hpre]
  exact newMapLoop_invalid vfp v rest n' hv ((validPair_false_iff v hv).2 hm)

/-- "" pairs are skipped -/
theorem C12_empty_pair_skipped (rest : List Str) (n : Entries) :
    newMapLoop vfp ([] :: rest) n = newMapLoop vfp rest n :=
  newMapLoop_empty_pair vfp rest n

/-- an error from `vfp` is returned with the accumulator so far; later pairs are not
    processed -/
theorem C12_vfp_error (pre : List Str) (v : Str) (rest : List Str) (n n' : Entries)
    (o nw : Str) (e : ErrKind)
    (hpre : newMapLoop vfp pre n = (n', none)) (hv : v ≠ []) (hval : validPair v = true)
    (hp : pairOf v = some (o, nw)) (he : vfp o = .error e) :
    newMapLoop vfp (pre ++ v :: rest) n = (n', some e) := by
  rw [newMapLoop_append, hpre]
  exact newMapLoop_error vfp v rest n' hv hval o nw hp e he

/-- any failure stops the loop: once a prefix has failed, the result is that failure -/
theorem C12_error_stops (pre post : List Str) (n n' : Entries) (e : ErrKind)
    (hpre : newMapLoop vfp pre n = (n', some e)) :
    newMapLoop vfp (pre ++ post) n = (n', some e) := by
  rw [newMapLoop_append, hpre]

end Loop

/-! ### the real `NewMap` -/

/-- `newMap` is the loop run with the receiver's `ValuesForPath` from the empty Map -/
theorem C12_newMap_eq (m : Val) (pairs : List Str) :
    newMap m pairs = newMapLoop (fun p => valuesForPath [':'] (fun _ => none) m p []) pairs [] :=
  rfl

/-- the content theorem at the real `NewMap` -/
theorem C12_newMap_content (m : Val) (pairs : List Str)
    (hvalid : ∀ v ∈ pairs, v ≠ [] → validPair v = true)
    (hok : ∀ v ∈ pairs, v ≠ [] → ∀ o nw, pairOf v = some (o, nw) →
      ∃ vs, valuesForPath [':'] (fun _ => none) m o [] = .ok vs)
    (hinc : List.Pairwise incomparable
      (contribPaths (fun p => valuesForPath [':'] (fun _ => none) m p []) pairs)) :
    ∃ result, newMap m pairs = (result, none) ∧
      (∀ v ∈ pairs, v ≠ [] → ∀ o nw vs, pairOf v = some (o, nw) →
        valuesForPath [':'] (fun _ => none) m o [] = .ok vs → vs ≠ [] →
        getPath (.map result) (newKeyPath nw) = some (singleOrList vs)) ∧
      (∀ q, q ≠ [] →
        (∀ p ∈ contribPaths (fun p => valuesForPath [':'] (fun _ => none) m p []) pairs,
          incomparable p q) →
        getPath (.map result) q = none) :=
  C12_content (fun p => valuesForPath [':'] (fun _ => none) m p []) pairs hvalid hok hinc

/-! ### examples: the hypotheses are satisfiable, and what the model computes -/

/-- `{"a": {"b": "1", "c": [1, 2]}, "d": true}` -/
def exRecv : Val :=
  .map [("a".toList, .map [("b".toList, .str "1".toList),
                           ("c".toList, .list [.num "i:1".toList, .num "i:2".toList])]),
        ("d".toList, .bool true)]

def exPairs : List Str :=
  ["a.b:x.y".toList, [], "a.c:x.z".toList, "d".toList, "nope:q".toList]

/-- single value, list of several, `old` alone meaning `old:old`, "" and a missing old path
    skipped: `{"x": {"y": "1", "z": [1, 2]}, "d": true}` -/
example : newMap exRecv exPairs =
    ([("x".toList, .map [("y".toList, .str "1".toList),
                         ("z".toList, .list [.num "i:1".toList, .num "i:2".toList])]),
      ("d".toList, .bool true)], none) := by
  simp [newMap, newMapLoop, valuesForPath, subKeyArg, oldValues, pathKeys, splitDot, splitOn,
    splitGo, dropTrailingEmpty, walk, exRecv, exPairs, lookup, loadLeaf, passSubs, addNewVal,
    storeNew, Mxj.insert, List.filter, singleOrList, newKeyPath]

/-- a malformed pair: error `keypair`, the Map built so far, later pairs not processed -/
example : newMap exRecv ["a.b:x.y".toList, "a:b:c".toList, "d".toList] =
    ([("x".toList, .map [("y".toList, .str "1".toList)])], some .keypair) := by
  simp [newMap, newMapLoop, valuesForPath, subKeyArg, oldValues, pathKeys, splitDot, splitOn,
    splitGo, dropTrailingEmpty, walk, exRecv, lookup, loadLeaf, addNewVal, storeNew, Mxj.insert,
    singleOrList, newKeyPath]

/-- why exact content needs incomparable new paths: "x.y" extends "x", and the value first
    stored at "x" ends up inside a list -/
example : newMap exRecv ["a.b:x".toList, "d:x.y".toList] =
    ([("x".toList, .list [.str "1".toList, .map [("y".toList, .bool true)]])], none) := by
  simp [newMap, newMapLoop, valuesForPath, subKeyArg, oldValues, pathKeys, splitDot, splitOn,
    splitGo, dropTrailingEmpty, walk, exRecv, lookup, loadLeaf, addNewVal, storeNew, Mxj.insert,
    singleOrList, newKeyPath]

/-- the hypotheses of `C12_newMap_content` hold of `exRecv`, `exPairs` -/
example : ∀ v ∈ exPairs, v ≠ [] → validPair v = true := by decide

example : contribPaths (fun p => valuesForPath [':'] (fun _ => none) exRecv p []) exPairs =
    [["x".toList, "y".toList], ["x".toList, "z".toList], ["d".toList]] := by
  simp [contribPaths, contrib, pairOf, valuesForPath, subKeyArg, oldValues, pathKeys, splitDot,
    splitOn, splitGo, dropTrailingEmpty, walk, exRecv, exPairs, lookup, loadLeaf, passSubs,
    List.filter, newKeyPath]

example : List.Pairwise incomparable
    [["x".toList, "y".toList], ["x".toList, "z".toList], ["d".toList]] := by decide

example : incomparable ["x".toList, "y".toList] ["x".toList, "z".toList] := by decide
example : ¬ incomparable ["x".toList] ["x".toList, "y".toList] := by decide

example : clearAlong [("x".toList, .map [("y".toList, .str "1".toList)])]
    ["x".toList, "z".toList] = true := by decide
example : clearAlong [("x".toList, .map [("y".toList, .str "1".toList)])]
    ["x".toList, "y".toList] = false := by decide

example : pairOf "a.b:x.y".toList = some ("a.b".toList, "x.y".toList) := by decide
example : pairOf "d".toList = some ("d".toList, "d".toList) := by decide
example : validPair "a:b:c".toList = false := by decide
example : malformed "a:b:c".toList := Or.inl (by decide)
example : malformed "a:x[0]".toList :=
  Or.inr (Or.inl ⟨"a".toList, "x[0]".toList, by decide, by decide⟩)
example : malformed ":x".toList := Or.inr (Or.inl ⟨[], "x".toList, by decide, by decide⟩)
example : malformed "a.*".toList := Or.inr (Or.inr ⟨"a.*".toList, by decide, by decide⟩)
example : newKeyPath "x.y.".toList = ["x".toList, "y".toList] := by decide

/-- a decidable stand-in for `ValuesForPath` to instantiate the loop theorems completely -/
def exVfp : Str → Except ErrKind (List Val) := fun o =>
  if o = "a.b".toList then .ok [.str "1".toList]
  else if o = "a.c".toList then .ok [.num "i:1".toList, .num "i:2".toList]
  else if o = "d".toList then .ok [.bool true]
  else .ok []

example : ∃ result, newMapLoop exVfp exPairs [] = (result, none) ∧
    getPath (.map result) ["x".toList, "z".toList]
      = some (.list [.num "i:1".toList, .num "i:2".toList]) ∧
    getPath (.map result) ["q".toList] = none := by
  obtain ⟨result, hres, hget, hnone⟩ := C12_content exVfp exPairs (by decide)
    (fun _ _ _ o _ _ => by unfold exVfp; split <;> (try split) <;> (try split) <;> exact ⟨_, rfl⟩)
    (by decide)
  refine ⟨result, hres, ?_, ?_⟩
  · exact hget "a.c:x.z".toList (by decide) (by decide) "a.c".toList "x.z".toList _
      (by decide) rfl (by simp)
  · refine hnone ["q".toList] (by simp) ?_
    have : contribPaths exVfp exPairs =
        [["x".toList, "y".toList], ["x".toList, "z".toList], ["d".toList]] := by decide
    rw [this]; decide

end Mxj.C12
