/-
  Mxj.Props.C19ExtXml — file round trip, the XML-file part: `NewMapsFromXmlFile` (and the loop
  of `HandleXmlReader`) on a file of several XML documents reads the same number of Maps, in
  order, each equal to the Map its own document decodes to (hence, on C01's domain, the Map the
  documented conventions prescribe); a truncated or malformed file yields an error together
  with the Maps read so far.

  Model: Mxj.Model.FilesXml — `readMapsXml cfg S fin fuel toks acc`: `decodeTop` applied again
  and again to the tokens the previous call left unread, until io.EOF — over Mxj.Model.Decode
  (`decodeTop`, `newMapXml`) and Mxj.Model.Conv (`flatten`, `Fold.doc`, `Conv.doc`).
  (That the tokens of the concatenated bytes are the concatenated tokens, and that the decoder
  reads no byte beyond the root's end tag, is the trusted tokenizer law TB-XML-stop.)
  Helper lemmas live in Mxj.Lemmas.FilesXml (namespace `Mxj.Files`):
    `fileToks docs trail`   the file: each document `d.2` behind its separator `d.1`, then `trail`
    `isElem`                a document's root is an element
    `readMapsXml_file`      the loop over a well-formed file followed by any tokens
    `parseElem_cut`, `decodeTop_cut`   a stream that ends inside an element never closes it
    `handleXml`             the loop of `HandleXmlReader` with a handler that stops after `b` Maps
  and the results of C01 (`decodeTop` on the tokens of a tree is `Fold.doc`, `Fold.doc ≈ᵥ Conv.doc`
  on the domain).  A separator is any list of non-start tokens; the model's first call skips
  them all (for a stray end tag Go's tokenizer would report a syntax error instead: that case is
  `fin = .bad` with the tokens before it).  Property theorems and non-vacuity examples only.
-/
import Mxj.Lemmas.FilesXml
namespace Mxj.C19
open Mxj Mxj.Dec Mxj.Files

/-! ### one round -/

/-- one call of `NewMapXmlReader` on the file: the separator is skipped, the first document's
    Map is returned, and exactly the tokens after its root's end tag are left unread (with the
    fuel the loop passes: number of tokens + 1) -/
theorem C19_xml_one_round (cfg : DecCfg) (S : Strconv) (fin : StreamEnd) (sep : List Tok)
    (hsep : ∀ t ∈ sep, ¬ isStart t) (sp name : Str) (attrs : List Attr) (kids : List Node)
    (rest : List Tok) :
    decodeTop cfg S fin ((sep ++ flatten (.elem sp name attrs kids) ++ rest).length + 1)
        (sep ++ flatten (.elem sp name attrs kids) ++ rest)
      = .ok (Fold.doc cfg S (.elem sp name attrs kids), rest) :=
  decodeTop_doc cfg S fin sep hsep sp name attrs kids rest _ (Nat.le_succ _)

/-! ### the file loop -/

/-- the general form: the loop over a well-formed file followed by ANY tokens `trail` reads every
    document — exactly `Fold.doc` of it, in order — and goes on with `trail` -/
theorem C19_xml_file_then (cfg : DecCfg) (S : Strconv) (fin : StreamEnd)
    (docs : List (List Tok × Node))
    (hsep : ∀ d ∈ docs, ∀ t ∈ d.1, ¬ isStart t) (helem : ∀ d ∈ docs, isElem d.2 = true)
    (f : Nat) (trail : List Tok) (acc : List Val) :
    readMapsXml cfg S fin (docs.length + f) (fileToks docs trail) acc
      = readMapsXml cfg S fin f trail ((docs.map (fun d => Fold.doc cfg S d.2)).reverse ++ acc) :=
  readMapsXml_file cfg S fin docs (fun d hd => ⟨hsep d hd, helem d hd⟩) f trail acc

/-- the file loop for either end of the stream: every document's Map, in order; an error exactly
    when the tokenizer reports something other than io.EOF after the last separator -/
theorem C19_xml_file_any_end (cfg : DecCfg) (S : Strconv) (fin : StreamEnd)
    (docs : List (List Tok × Node))
    (hsep : ∀ d ∈ docs, ∀ t ∈ d.1, ¬ isStart t) (helem : ∀ d ∈ docs, isElem d.2 = true)
    (trail : List Tok) (htrail : ∀ t ∈ trail, ¬ isStart t) (f : Nat) (hf : docs.length < f) :
    readMapsXml cfg S fin f (fileToks docs trail) []
      = ⟨docs.map (fun d => Fold.doc cfg S d.2), decide (fin = .bad)⟩ := by
  obtain ⟨g, rfl⟩ : ∃ g, f = docs.length + (g + 1) := ⟨f - docs.length - 1, by omega⟩
  rw [C19_xml_file_then cfg S fin docs hsep helem, readMapsXml_end cfg S fin g trail htrail]
  simp

/-- headline: a file `sep₀ t₁ sep₁ t₂ … tₙ sepₙ` ending with io.EOF is read Map by Map — same
    number, same order, the i-th Map is `Fold.doc` of the i-th document — and no error -/
theorem C19_xml_file (cfg : DecCfg) (S : Strconv) (docs : List (List Tok × Node))
    (hsep : ∀ d ∈ docs, ∀ t ∈ d.1, ¬ isStart t) (helem : ∀ d ∈ docs, isElem d.2 = true)
    (trail : List Tok) (htrail : ∀ t ∈ trail, ¬ isStart t) (f : Nat) (hf : docs.length < f) :
    readMapsXml cfg S .eof f (fileToks docs trail) []
      = ⟨docs.map (fun d => Fold.doc cfg S d.2), false⟩ :=
  C19_xml_file_any_end cfg S .eof docs hsep helem trail htrail f hf

/-- … and when the tokenizer reports a syntax error instead of io.EOF after the last document
    (trailing garbage that is not a start tag: Go's tokenizer hands over what it could tokenize
    and then the error): all the Maps read so far, together with the error -/
theorem C19_xml_file_bad_end (cfg : DecCfg) (S : Strconv) (docs : List (List Tok × Node))
    (hsep : ∀ d ∈ docs, ∀ t ∈ d.1, ¬ isStart t) (helem : ∀ d ∈ docs, isElem d.2 = true)
    (trail : List Tok) (htrail : ∀ t ∈ trail, ¬ isStart t) (f : Nat) (hf : docs.length < f) :
    readMapsXml cfg S .bad f (fileToks docs trail) []
      = ⟨docs.map (fun d => Fold.doc cfg S d.2), true⟩ :=
  C19_xml_file_any_end cfg S .bad docs hsep helem trail htrail f hf

/-- "each equal to the Map its own encoding decodes to": no error, the same number of Maps, and
    the i-th Map read is what `NewMapXml` returns for the i-th document alone (with or without
    its separator in front, whatever the end of that stream) -/
theorem C19_xml_file_same_as_single (cfg : DecCfg) (S : Strconv) (docs : List (List Tok × Node))
    (hsep : ∀ d ∈ docs, ∀ t ∈ d.1, ¬ isStart t) (helem : ∀ d ∈ docs, isElem d.2 = true)
    (trail : List Tok) (htrail : ∀ t ∈ trail, ¬ isStart t) (f : Nat) (hf : docs.length < f) :
    ∃ rs, readMapsXml cfg S .eof f (fileToks docs trail) [] = ⟨rs, false⟩ ∧
      rs.length = docs.length ∧
      ∀ (i : Nat) (h1 : i < rs.length) (h2 : i < docs.length) (fin : StreamEnd),
        newMapXml cfg S (flatten docs[i].2) fin = .ok rs[i] ∧
        newMapXml cfg S (docs[i].1 ++ flatten docs[i].2) fin = .ok rs[i] := by
  refine ⟨_, C19_xml_file cfg S docs hsep helem trail htrail f hf, by simp, ?_⟩
  intro i h1 h2 fin
  rw [List.getElem_map]
  have hm := List.getElem_mem h2
  have hs := hsep _ hm
  have he := helem _ hm
  generalize docs[i] = d at hs he
  obtain ⟨sep, t⟩ := d
  cases t with
  | elem sp name attrs kids =>
    have a := newMapXml_tree cfg S fin [] [] (by simp) sp name attrs kids
    have b := newMapXml_tree cfg S fin sep [] hs sp name attrs kids
    simp only [List.nil_append, List.append_nil] at a b
    exact ⟨a, b⟩
  | text _ => simp [isElem] at he
  | comment _ => simp [isElem] at he
  | procinst _ _ => simp [isElem] at he
  | directive _ => simp [isElem] at he

/-- on C01's domain the Maps read are the Maps the documented conventions prescribe: no error,
    the same number, and the i-th Map read is `Conv.doc` of the i-th document up to the order of
    entries -/
theorem C19_xml_file_conventions (cfg : DecCfg) (S : Strconv) (docs : List (List Tok × Node))
    (hsep : ∀ d ∈ docs, ∀ t ∈ d.1, ¬ isStart t) (helem : ∀ d ∈ docs, isElem d.2 = true)
    (hdom : ∀ d ∈ docs, Conv.inDomain cfg S d.2 = true) (hadj : ∀ d ∈ docs, noAdjText d.2 = true)
    (trail : List Tok) (htrail : ∀ t ∈ trail, ¬ isStart t) (f : Nat) (hf : docs.length < f) :
    ∃ rs, readMapsXml cfg S .eof f (fileToks docs trail) [] = ⟨rs, false⟩ ∧
      rs.length = docs.length ∧
      ∀ (i : Nat) (h1 : i < rs.length) (h2 : i < docs.length),
        rs[i] ≈ᵥ Conv.doc cfg S docs[i].2 := by
  refine ⟨_, C19_xml_file cfg S docs hsep helem trail htrail f hf, by simp, ?_⟩
  intro i h1 h2
  rw [List.getElem_map]
  have hm := List.getElem_mem h2
  exact doc_equiv cfg S _ (fold_equiv_conv cfg S _ (hdom _ hm) (hadj _ hm))

/-- an empty file — no start tag at all: white space, a lone XML declaration, comments — is an
    empty list of Maps and no error -/
theorem C19_xml_empty_file (cfg : DecCfg) (S : Strconv) (toks : List Tok)
    (h : ∀ t ∈ toks, ¬ isStart t) (f : Nat) (hf : 0 < f) :
    readMapsXml cfg S .eof f toks [] = ⟨[], false⟩ :=
  C19_xml_file cfg S [] (by simp) (by simp) toks h f hf

/-! ### errors: the Maps read so far are returned -/

/-- after the documents of a well-formed prefix, whatever makes one more round fail — the
    tokenizer's error, a decoder error — ends the loop with an error and exactly the Maps read
    so far -/
theorem C19_xml_error_keeps_maps (cfg : DecCfg) (S : Strconv) (fin : StreamEnd)
    (docs : List (List Tok × Node))
    (hsep : ∀ d ∈ docs, ∀ t ∈ d.1, ¬ isStart t) (helem : ∀ d ∈ docs, isElem d.2 = true)
    (rest : List Tok)
    (hbad : match decodeTop cfg S fin (rest.length + 1) rest with
      | .ok _ => False
      | .eof => False
      | _ => True)
    (f : Nat) (hf : docs.length < f) :
    readMapsXml cfg S fin f (fileToks docs rest) []
      = ⟨docs.map (fun d => Fold.doc cfg S d.2), true⟩ := by
  obtain ⟨g, rfl⟩ : ∃ g, f = docs.length + (g + 1) := ⟨f - docs.length - 1, by omega⟩
  rw [C19_xml_file_then cfg S fin docs hsep helem, readMapsXml_fail cfg S fin g rest _ hbad]
  simp

/-- a token stream that ends inside an element never closes it: on a proper prefix of an
    element's tokens (if non-empty it holds the start tag, since the tokens begin with it) the
    decoder runs off the end of the stream — io.EOF or the tokenizer's error, according to `fin`.
    (Go's tokenizer reports `unexpected EOF`, a syntax error, when the input ends inside an
    element: the real stream has `fin = .bad`.) -/
theorem C19_xml_cut_never_closes (cfg : DecCfg) (S : Strconv) (fin : StreamEnd) (sp name : Str)
    (attrs : List Attr) (kids : List Node) (cut : List Tok)
    (hpre : cut <+: flatten (.elem sp name attrs kids))
    (hproper : cut ≠ flatten (.elem sp name attrs kids)) (f : Nat) (hf : cut.length < f) :
    decodeTop cfg S fin f cut = (match fin with | .eof => .eof | .bad => .syntax) := by
  have h := decodeTop_sep_prefix cfg S fin [] (by simp) (.elem sp name attrs kids) rfl cut hpre
    hproper f (by simpa using hf)
  rw [List.nil_append] at h
  exact h

/-- truncation: the token stream is cut inside (or right before) document `k` — after the first
    `k` documents and the `k`-th separator comes a proper prefix `cut` of the `k`-th document's
    tokens.  The loop returns the first `k` Maps; it fails exactly when the stream's end is the
    tokenizer's error.  Go's tokenizer reports `unexpected EOF` (a syntax error, `fin = .bad`)
    when the input ends inside an element, so the real reader returns an error together with
    the Maps read so far (`C19_xml_truncated_error`); only for `cut = []` (the file ends in a
    separator) does it report io.EOF, and then there is no error. -/
theorem C19_xml_truncated (cfg : DecCfg) (S : Strconv) (fin : StreamEnd)
    (docs : List (List Tok × Node))
    (hsep : ∀ d ∈ docs, ∀ t ∈ d.1, ¬ isStart t) (helem : ∀ d ∈ docs, isElem d.2 = true)
    (k : Nat) (hk : k < docs.length) (cut : List Tok)
    (hpre : cut <+: flatten docs[k].2) (hproper : cut ≠ flatten docs[k].2)
    (f : Nat) (hf : k < f) :
    readMapsXml cfg S fin f (fileToks (docs.take k) (docs[k].1 ++ cut)) []
      = ⟨(docs.take k).map (fun d => Fold.doc cfg S d.2), decide (fin = .bad)⟩ := by
  have h := readMapsXml_truncated cfg S fin docs (fun d hd => ⟨hsep d hd, helem d hd⟩) k hk cut
    hpre hproper f hf []
  simpa using h

/-- truncation as Go reports it (unexpected EOF inside an element): the first `k` Maps and an
    error -/
theorem C19_xml_truncated_error (cfg : DecCfg) (S : Strconv) (docs : List (List Tok × Node))
    (hsep : ∀ d ∈ docs, ∀ t ∈ d.1, ¬ isStart t) (helem : ∀ d ∈ docs, isElem d.2 = true)
    (k : Nat) (hk : k < docs.length) (cut : List Tok)
    (hpre : cut <+: flatten docs[k].2) (hproper : cut ≠ flatten docs[k].2)
    (f : Nat) (hf : k < f) :
    readMapsXml cfg S .bad f (fileToks (docs.take k) (docs[k].1 ++ cut)) []
      = ⟨(docs.take k).map (fun d => Fold.doc cfg S d.2), true⟩ :=
  C19_xml_truncated cfg S .bad docs hsep helem k hk cut hpre hproper f hf

/-- … cut exactly at a document boundary (inside a separator) with io.EOF: the first `k` Maps
    and no error -/
theorem C19_xml_truncated_at_boundary (cfg : DecCfg) (S : Strconv) (docs : List (List Tok × Node))
    (hsep : ∀ d ∈ docs, ∀ t ∈ d.1, ¬ isStart t) (helem : ∀ d ∈ docs, isElem d.2 = true)
    (k : Nat) (sepcut : List Tok) (hcut : ∀ t ∈ sepcut, ¬ isStart t) (f : Nat) (hf : k < f) :
    readMapsXml cfg S .eof f (fileToks (docs.take k) sepcut) []
      = ⟨(docs.take k).map (fun d => Fold.doc cfg S d.2), false⟩ := by
  refine C19_xml_file cfg S (docs.take k) (fun d hd => hsep d (List.mem_of_mem_take hd))
    (fun d hd => helem d (List.mem_of_mem_take hd)) sepcut hcut f ?_
  rw [List.length_take]; omega

/-! ### the handler form -/

/-- `HandleXmlReader` with a Map handler that returns `false` on the `b`-th Map (`b` at most the
    number of documents): exactly the first `b` Maps are handed over, no error — and what follows
    the `b`-th document is never read (no condition on `trail`, none on `fin`) -/
theorem C19_xml_handler_stops (cfg : DecCfg) (S : Strconv) (fin : StreamEnd)
    (docs : List (List Tok × Node))
    (hsep : ∀ d ∈ docs, ∀ t ∈ d.1, ¬ isStart t) (helem : ∀ d ∈ docs, isElem d.2 = true)
    (b : Nat) (hb : b ≤ docs.length) (trail : List Tok) (f : Nat) (hf : b < f) :
    handleXml cfg S fin f b (fileToks docs trail) []
      = ⟨(docs.take b).map (fun d => Fold.doc cfg S d.2), false⟩ := by
  have h := handleXml_stops cfg S fin docs (fun d hd => ⟨hsep d hd, helem d hd⟩) b hb trail f hf []
  simpa using h

/-- … with a handler that never stops within the file (`b` beyond the number of documents) the
    loop is the file loop: every Map, and the stream's end decides about the error -/
theorem C19_xml_handler_all (cfg : DecCfg) (S : Strconv) (fin : StreamEnd)
    (docs : List (List Tok × Node))
    (hsep : ∀ d ∈ docs, ∀ t ∈ d.1, ¬ isStart t) (helem : ∀ d ∈ docs, isElem d.2 = true)
    (b : Nat) (hb : docs.length < b) (trail : List Tok) (htrail : ∀ t ∈ trail, ¬ isStart t)
    (f : Nat) (hf : docs.length < f) :
    handleXml cfg S fin f b (fileToks docs trail) []
      = readMapsXml cfg S fin f (fileToks docs trail) [] := by
  rw [C19_xml_file_any_end cfg S fin docs hsep helem trail htrail f hf]
  obtain ⟨g, rfl⟩ : ∃ g, f = docs.length + (g + 1) := ⟨f - docs.length - 1, by omega⟩
  obtain ⟨c, rfl⟩ : ∃ c, b = docs.length + (c + 1) := ⟨b - docs.length - 1, by omega⟩
  rw [handleXml_file cfg S fin docs (fun d hd => ⟨hsep d hd, helem d hd⟩),
    handleXml_end cfg S fin g c trail htrail]
  simp

/-- in one statement: the handler receives the first `min n b` Maps -/
theorem C19_xml_handler_count (cfg : DecCfg) (S : Strconv) (fin : StreamEnd)
    (docs : List (List Tok × Node))
    (hsep : ∀ d ∈ docs, ∀ t ∈ d.1, ¬ isStart t) (helem : ∀ d ∈ docs, isElem d.2 = true)
    (b : Nat) (trail : List Tok) (htrail : ∀ t ∈ trail, ¬ isStart t)
    (f : Nat) (hf : docs.length < f) :
    (handleXml cfg S fin f b (fileToks docs trail) []).maps
        = (docs.take b).map (fun d => Fold.doc cfg S d.2) ∧
      (handleXml cfg S fin f b (fileToks docs trail) []).maps.length = min b docs.length := by
  by_cases hb : b ≤ docs.length
  · rw [C19_xml_handler_stops cfg S fin docs hsep helem b hb trail f (by omega)]
    simp
  · rw [C19_xml_handler_all cfg S fin docs hsep helem b (by omega) trail htrail f hf,
      C19_xml_file_any_end cfg S fin docs hsep helem trail htrail f hf]
    have : docs.take b = docs := List.take_of_length_le (by omega)
    simp only [this, List.length_map]
    exact ⟨trivial, by omega⟩

/-! ### non-vacuity -/

/-- the sample file: `<?xml …?>␤ <r …>…</r> ␤<!--second-->␤ <s>…</s><r …>…</r> ␤<!DOCTYPE x>` —
    three documents (the last two directly adjacent), 43 tokens -/
example : (fileToks exDocs exTrail).length = 43 := by decide

example : (∀ d ∈ exDocs, ∀ t ∈ d.1, ¬ isStart t) ∧ (∀ d ∈ exDocs, isElem d.2 = true) ∧
    (∀ t ∈ exTrail, ¬ isStart t) := by decide

/-- read: by the theorem … -/
example : readMapsXml {} S0 .eof 4 (fileToks exDocs exTrail) []
    = ⟨exDocs.map (fun d => Fold.doc {} S0 d.2), false⟩ :=
  C19_xml_file {} S0 exDocs (by decide) (by decide) exTrail (by decide) 4 (by decide)

/-- … and by evaluating the model: three Maps, the second one
    `{"s": {"k": [{"-a":"b"}, "2"], "#text": "tail"}}` -/
example : (readMapsXml {} S0 .eof 4 (fileToks exDocs exTrail) []).maps
      = [Fold.doc {} S0 sampleTree,
         .map [("s".toList, .map [("k".toList, .list [.map [("-a".toList, .str "b".toList)],
                                                       .str "2".toList]),
                                  ("#text".toList, .str "tail".toList)])],
         Fold.doc {} S0 sampleTreeTextFirst] ∧
    (readMapsXml {} S0 .eof 4 (fileToks exDocs exTrail) []).failed = false := by
  decide +kernel

/-- under other options (numbering, as-map) and with more fuel than needed -/
example : (readMapsXml { seqNum := true, asMap := true } S0 .eof 9 (fileToks exDocs exTrail) []).maps
      = exDocs.map (fun d => Fold.doc { seqNum := true, asMap := true } S0 d.2) ∧
    (readMapsXml { seqNum := true, asMap := true } S0 .eof 9 (fileToks exDocs exTrail) []).failed
      = false := by
  decide +kernel

/-- the sample documents are in C01's domain: the Maps read are the conventions' Maps -/
example : (∀ d ∈ exDocs, Conv.inDomain {} S0 d.2 = true) ∧ (∀ d ∈ exDocs, noAdjText d.2 = true) := by
  decide

example : ∃ rs, readMapsXml {} S0 .eof 4 (fileToks exDocs exTrail) [] = ⟨rs, false⟩ ∧
    rs.length = exDocs.length ∧
    ∀ (i : Nat) (h1 : i < rs.length) (h2 : i < exDocs.length), rs[i] ≈ᵥ Conv.doc {} S0 exDocs[i].2 :=
  C19_xml_file_conventions {} S0 exDocs (by decide) (by decide) (by decide) (by decide) exTrail
    (by decide) 4 (by decide)

/-- … only up to the order of entries: the third document has its text before its children -/
example : (readMapsXml {} S0 .eof 4 (fileToks exDocs exTrail) []).maps[2]?
      ≠ some (Conv.doc {} S0 sampleTreeTextFirst) := by
  decide +kernel

/-- a syntax error after the last document: the three Maps and the error -/
example : readMapsXml {} S0 .bad 4 (fileToks exDocs exTrail) []
    = ⟨exDocs.map (fun d => Fold.doc {} S0 d.2), true⟩ :=
  C19_xml_file_bad_end {} S0 exDocs (by decide) (by decide) exTrail (by decide) 4 (by decide)

/-- an "empty" file: only a declaration and white space -/
example : readMapsXml {} S0 .eof 1 exSep0 [] = ⟨[], false⟩ :=
  C19_xml_empty_file {} S0 exSep0 (by decide) 1 (by decide)

/-- truncation inside the second document, 5 tokens in (right after the start tag of `<k>2</k>`, depth 2): the first
    Map, and the error when the tokenizer reports one -/
example : (flatten exDoc2).take 5 <+: flatten exDocs[1].2 ∧ (flatten exDoc2).take 5 ≠ flatten exDocs[1].2 := by
  decide

example : readMapsXml {} S0 .bad 3
      (fileToks (exDocs.take 1) (exDocs[1].1 ++ (flatten exDoc2).take 5)) []
    = ⟨(exDocs.take 1).map (fun d => Fold.doc {} S0 d.2), true⟩ :=
  C19_xml_truncated_error {} S0 exDocs (by decide) (by decide) 1 (by decide) _ (by decide)
    (by decide) 3 (by decide)

example : (readMapsXml {} S0 .bad 3 (fileToks [(exSep0, sampleTree)]
        (exSep1 ++ (flatten exDoc2).take 5)) []).maps = [Fold.doc {} S0 sampleTree] ∧
    (readMapsXml {} S0 .bad 3 (fileToks [(exSep0, sampleTree)]
        (exSep1 ++ (flatten exDoc2).take 5)) []).failed = true := by
  decide +kernel

example : decodeTop {} S0 .bad 8 ((flatten exDoc2).take 5) = .syntax :=
  C19_xml_cut_never_closes {} S0 .bad [] "s".toList []
    [ .elem [] "k".toList [⟨[], "a".toList, "b".toList⟩] [], .text "tail".toList,
      .elem [] "k".toList [] [.text "2".toList] ] _ (by decide) (by decide) 8 (by decide)

/-- cut right after the second document's start tag; cut just before its root's end tag -/
example : (readMapsXml {} S0 .bad 3 (fileToks [(exSep0, sampleTree)]
        (exSep1 ++ (flatten exDoc2).take 1)) []).failed = true ∧
    (readMapsXml {} S0 .bad 3 (fileToks [(exSep0, sampleTree)]
        (exSep1 ++ (flatten exDoc2).dropLast)) []).maps = [Fold.doc {} S0 sampleTree] := by
  decide +kernel

/-- "proper" cannot be dropped: with the whole document there is one Map more -/
example : (readMapsXml {} S0 .bad 3 (fileToks (exDocs.take 1) (exDocs[1].1 ++ flatten exDoc2))
      []).maps.length = 2 := by
  decide +kernel

/-- the handler stops after two Maps: the third document is not read, no error even with `.bad` -/
example : handleXml {} S0 .bad 3 2 (fileToks exDocs exTrail) []
    = ⟨(exDocs.take 2).map (fun d => Fold.doc {} S0 d.2), false⟩ :=
  C19_xml_handler_stops {} S0 .bad exDocs (by decide) (by decide) 2 (by decide) exTrail 3 (by decide)

example : (handleXml {} S0 .bad 3 2 (fileToks exDocs exTrail) []).maps.length = 2 := by
  decide +kernel

/-! ### the hypotheses are needed -/

/-- a "document" that is not an element (a lone text node) is skipped: no Map for it -/
example : (readMapsXml {} S0 .eof 3 (fileToks [([], Node.text "x".toList)] []) []).maps = [] ∧
    ([([], Node.text "x".toList)] : List (List Tok × Node)).map (fun d => Fold.doc {} S0 d.2)
      = [Val.null] := by
  decide +kernel

/-- a separator with a start tag in it is a document of its own (here: an unclosed one that
    swallows the real document) -/
example : (readMapsXml {} S0 .eof 3
      (fileToks [([Tok.start [] "x".toList []], Node.elem [] "a".toList [] [])] []) []).maps = [] ∧
    ([([Tok.start [] "x".toList []], Node.elem [] "a".toList [] [])] : List (List Tok × Node)).map
      (fun d => Fold.doc {} S0 d.2) = [.map [("a".toList, .str [])]] := by
  decide +kernel

/-- a start tag in the trailer likewise: the loop does not end with io.EOF after the documents
    but decodes (here: fails inside) one more -/
example : (readMapsXml {} S0 .eof 3
      (fileToks [([], Node.elem [] "a".toList [] [])] [Tok.start [] "x".toList []]) []).maps
        = [.map [("a".toList, .str [])]] ∧
    (readMapsXml {} S0 .bad 3
      (fileToks [([], Node.elem [] "a".toList [] [])] [Tok.start [] "x".toList [],
        Tok.stop [] "x".toList]) []).maps.length = 2 := by
  decide +kernel

/-- the fuel bound is needed only to let the loop see the end of the file: with exactly
    `docs.length` rounds the model runs out of fuel (reported as an error) -/
example : (readMapsXml {} S0 .eof 3 (fileToks exDocs exTrail) []).failed = true := by
  decide +kernel

/-- outside C01's domain the Map read is still the document's own Map (`C19_xml_file_same_as_single`)
    but not the conventions' Map: two non-blank text runs -/
example : (readMapsXml {} S0 .eof 2 (fileToks [([], twoRunsTree)] []) []).maps
      = [Fold.doc {} S0 twoRunsTree] ∧
    ¬ (Fold.doc {} S0 twoRunsTree ≈ᵥ Conv.doc {} S0 twoRunsTree) := by
  decide +kernel

end Mxj.C19
