/-
  Mxj.Props.C19ExtFrame — frame of C19's API over the package-level state, on facts regenerated from
  /repo's current source on every run: Gob / NewMapGob read no package-level variable;
  and none of them (nor any function they can reach) assigns a package-level variable, so what they
  return is a function of their arguments and of exactly those options - no hidden state carried
  from one call to the next.
-/
import Mxj.Lemmas.Facts
namespace Mxj.C19
open Mxj

/-- the option variables C19's functions may read -/
def frameAllowed : List String := []

theorem C19_frame_reads (root g v : String) (hr : root ∈ Generated.c19FrameRoots)
    (h : Facts.Reach root g) (hv : v ∈ Facts.readsOf g) : v ∈ frameAllowed := by
  have hc : Facts.closed Generated.c19FrameRootsClosure = true := by decide
  have ho : Facts.onlyReads Generated.c19FrameRootsClosure frameAllowed = true := by decide
  have hin := Facts.mem_of_all_contains' Generated.c19FrameRoots Generated.c19FrameRootsClosure
    (by decide) root hr
  exact Facts.reads_subset_of_cert _ _ hc ho root g v hin h hv

theorem C19_frame_no_hidden_state (root g : String) (hr : root ∈ Generated.c19FrameRoots)
    (h : Facts.Reach root g) : Facts.writesOf g = [] := by
  have hc : Facts.closed Generated.c19FrameRootsClosure = true := by decide
  have hn : Facts.noneWrites Generated.c19FrameRootsClosure = true := by decide
  have hin := Facts.mem_of_all_contains' Generated.c19FrameRoots Generated.c19FrameRootsClosure
    (by decide) root hr
  exact Facts.not_writes_of_cert _ hc hn root g hin h

/-- the statements are not vacuous: the API group is present in the source -/
theorem C19_frame_roots_present : Generated.c19FrameRoots.length ≥ 1 := by decide

end Mxj.C19
