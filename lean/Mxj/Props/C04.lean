/-
  Mxj.Props.C04 — NewMapXmlSeq / MapSeq.Xml: decoding a document with the sequence-preserving
  decoder and encoding the result reproduces the original token stream: the same elements with
  the same (prefix-preserving) names in the same order, each with the same attributes in the
  same order and the same values, the same text, and the same comments, directives and
  processing instructions in the same positions.  Domain (`SeqDomain`): well-formed documents
  with arbitrary interleaving of differently and identically named siblings, namespaced names
  and xmlns attributes, at most one comment, one directive and one processing instruction per
  element, and text either alone in an element or before its child elements.
  Property theorems and non-vacuity examples only; helper lemmas live in Mxj.Lemmas.Seq
  (namespace `Mxj.SeqL`).

  Model: Mxj.Model.Seq (`seqElem`/`seqTop`/`newMapXmlSeq`: the streaming decoder;
  `seqEnc`/`mapSeqXml`: the encoder).  Vocabulary: Mxj.Model.SeqTree (`SeqFold`, `seqEncTree`,
  `normalize`, `qualify`, `SeqDomain`).

  Structure of the argument:
    token stream  --C04_stream_refines_tree-->  SeqFold.doc          (every tree, every config)
    SeqFold.value --C04_decoded_form-->  #attr ++ text ++ grouped children, children numbered
                                         consecutively in document order (C04_children_numbered)
    Go's map range + sort  --C04_sort_inverts_perm-->  the children in document order
    seqEncTree (SeqFold.value t)  --C04_roundtrip_tree(_cfg/_qualified)-->  [normalize t]
    any order of any map          --C04_perm_invariant(_all), C04_roundtrip_any_order(_all)
    seqEnc = rendering of seqEncTree (goEmpty)  --C04_bytes_are_rendering_goEmpty,
                                                  C04_roundtrip_bytes (stream to bytes)
-/
import Mxj.Lemmas.Seq
namespace Mxj.C04
open Mxj Mxj.SeqL Mxj.Dec

/-! ### goal 1: the sort lemma -/

/-- sorting by pairwise distinct sequence numbers undoes any permutation: Go ranges over the map
    (arbitrary order), unrolls lists, then sorts by #seq -/
theorem C04_sort_inverts_perm (c : SeqCfg) (l p : List (Str × Val)) (hp : List.Perm p l)
    (hsorted : List.Pairwise (fun a b => seqOf c a.2 < seqOf c b.2) l) : sortBySeq c p = l :=
  sortBySeq_inverts_perm c l p hp hsorted

/-- `sortBySeq` is a permutation of its input and sorted by `#seq` -/
theorem C04_sort_perm_sorted (c : SeqCfg) (l : List (Str × Val)) :
    (sortBySeq c l).Perm l
      ∧ (sortBySeq c l).Pairwise (fun a b => seqOf c a.2 ≤ seqOf c b.2) :=
  ⟨sortBySeq_perm c l, sortBySeq_sorted c l⟩

/-! ### goal 3: the streaming decoder computes the tree fold -/

theorem C04_seqElem_fuel_mono (c : SeqCfg) (S : Strconv) (fin : StreamEnd) {f g : Nat}
    (hfg : f ≤ g) (skey : Str) (na : Entries) (seq : Nat) (pend : Option (Str × Bool))
    (toks : List Tok) (r : Val × List Tok)
    (h : seqElem c S fin f skey na seq pend toks = .ok r) :
    seqElem c S fin g skey na seq pend toks = .ok r :=
  seqElem_mono_le c S fin hfg h

theorem C04_seqTop_fuel_mono (c : SeqCfg) (S : Strconv) (fin : StreamEnd) {f g : Nat}
    (hfg : f ≤ g) (toks : List Tok) (r : SeqTop) (h : seqTop c S fin f toks = .ok r) :
    seqTop c S fin g toks = .ok r :=
  seqTop_mono_le c S fin hfg h

/-- the element loop on the tokens of an element consumes exactly the element -/
theorem C04_seqElem_consumes_element (c : SeqCfg) (S : Strconv) (fin : StreamEnd)
    (sp name : Str) (attrs : List Attr) (kids : List Node) (rest : List Tok) (f : Nat)
    (hf : (flattenKids kids).length + 1 ≤ f) :
    seqElem c S fin f (qualName c sp name) (seqInitNa c S attrs) 0 none
        (flattenKids kids ++ Tok.stop sp name :: rest)
      = .ok (SeqFold.value c S (.elem sp name attrs kids), rest) := by
  have h := seq_parse_tree c S fin (.elem sp name attrs kids)
  simp only at h
  exact h rest f hf

/-- token-stream recursion = tree recursion, for every tree, every configuration, every
    continuation `rest` -/
theorem C04_stream_refines_tree (c : SeqCfg) (S : Strconv) (fin : StreamEnd)
    (sp name : Str) (attrs : List Attr) (kids : List Node) (rest : List Tok) :
    ∃ f0, ∀ f, f0 ≤ f →
      seqTop c S fin f (flatten (.elem sp name attrs kids) ++ rest)
        = .ok (.doc (SeqFold.doc c S (.elem sp name attrs kids))) :=
  ⟨(flattenKids kids).length + 2, fun f hf => seqTop_tree c S fin sp name attrs kids rest f hf⟩

/-- the same with the explicit fuel bound: the number of tokens of the element is enough -/
theorem C04_stream_refines_tree_bound (c : SeqCfg) (S : Strconv) (fin : StreamEnd)
    (sp name : Str) (attrs : List Attr) (kids : List Node) (rest : List Tok) (f : Nat)
    (hf : (flatten (.elem sp name attrs kids)).length ≤ f) :
    seqTop c S fin f (flatten (.elem sp name attrs kids) ++ rest)
      = .ok (.doc (SeqFold.doc c S (.elem sp name attrs kids))) :=
  seqTop_tree c S fin sp name attrs kids rest f (by rw [length_flatten_elem] at hf; exact hf)

/-- with the default fuel of `newMapXmlSeq`, any leading character data (BOM, white space) and
    any trailing tokens -/
theorem C04_newMapXmlSeq_tree (c : SeqCfg) (S : Strconv) (fin : StreamEnd) (pre post : List Tok)
    (hpre : ∀ t ∈ pre, isText t = true) (sp name : Str) (attrs : List Attr) (kids : List Node) :
    newMapXmlSeq c S (pre ++ flatten (.elem sp name attrs kids) ++ post) fin
      = .ok (.doc (SeqFold.doc c S (.elem sp name attrs kids))) :=
  newMapXmlSeq_tree c S fin pre post hpre sp name attrs kids

/-! ### goal 2: decoder numbering — the normal form of a decoded element

  For an element in the domain the decoder's map is, in this order: the `#attr` entry (if there
  are attributes), the text entries `#text`, `#seq` (if there is text), then the children
  grouped by key (`addAll`: repeated names promoted to lists by `addChild`).  `itemsOf` lists
  the non-text children in document order with the sequence number each one carries. -/

/-- the default configuration satisfies the side conditions of the general theorems -/
theorem C04_cfgOk_dflt : CfgOk seqDflt := cfgOk_dflt

/-- structure of the decoded map -/
theorem C04_decoded_form (c : SeqCfg) (S : Strconv) (hc : CfgOk c) (sp name : Str)
    (attrs : List Attr) (kids : List Node) (hd : seqDomain c (.elem sp name attrs kids) = true) :
    SeqFold.value c S (.elem sp name attrs kids) = SeqFold.finish (decodedEntries c S attrs kids)
    ∧ decodedEntries c S attrs kids
      = (if attrs.isEmpty then [] else [(c.attrK, .map (attrEntries c 0 attrs))])
        ++ textEntries c (leadText c kids) ++ addAll [] (itemsOf c S kids) :=
  ⟨value_eq_finish c S sp name attrs kids, decodedEntries_form c S hc sp name attrs kids hd⟩

/-- attributes carry their index: the i-th attribute is stored under its qualified name as
    `{"#text": value, "#seq": i}` (shown for the first; `attrEntries` recurses with `i + 1`) -/
theorem C04_attrs_numbered (c : SeqCfg) (i : Nat) (a : Attr) (as : List Attr) :
    attrEntries c i (a :: as)
      = (qualName c a.space a.name, .map [(c.textK, .str a.value), (c.seqK, seqNum i)])
        :: attrEntries c (i + 1) as := rfl

/-- … so the `#seq` numbers of the attribute entries are `0, 1, 2, …` in document order -/
theorem C04_attrs_seqs (c : SeqCfg) (hc : CfgOk c) (attrs : List Attr) :
    (attrEntries c 0 attrs).map (fun e => seqOf c e.2) = List.range' 0 attrs.length :=
  attrEntries_seqs c hc attrs 0

/-- the non-text children — child elements (after `seqChild`), comment, directive, processing
    instruction — carry consecutive `#seq` numbers in document order, starting at 1 behind a
    text and at 0 otherwise -/
theorem C04_children_numbered (c : SeqCfg) (S : Strconv) (hc : CfgOk c) (kids : List Node) :
    (itemsOf c S kids).map (fun e => seqOf c e.2)
      = List.range' (if (leadText c kids).isSome then 1 else 0) (itemsOf c S kids).length :=
  items_seqs c S hc kids _

/-- … hence pairwise distinct and increasing -/
theorem C04_children_increasing (c : SeqCfg) (S : Strconv) (hc : CfgOk c) (kids : List Node) :
    (itemsOf c S kids).Pairwise (fun a b => seqOf c a.2 < seqOf c b.2) :=
  items_pairwise c S hc kids _

/-- what `unrollEntries` finds in the decoded map is a permutation of the children, and sorting
    by `#seq` puts them back in document order -/
theorem C04_children_unrolled (c : SeqCfg) (S : Strconv) (hc : CfgOk c) (sp name : Str)
    (attrs : List Attr) (kids : List Node) (hd : seqDomain c (.elem sp name attrs kids) = true) :
    (unrollEntries c (decodedEntries c S attrs kids)).Perm (itemsOf c S kids)
    ∧ sortBySeq c (unrollEntries c (decodedEntries c S attrs kids)) = itemsOf c S kids :=
  ⟨itemsOf_unrolled c S hc sp name attrs kids hd, sorted_children c S hc sp name attrs kids hd⟩

/-- the decoded map has pairwise distinct keys, and its unrolled children pairwise distinct
    sequence numbers -/
theorem C04_decoded_distinct (c : SeqCfg) (S : Strconv) (hc : CfgOk c) (sp name : Str)
    (attrs : List Attr) (kids : List Node) (hd : seqDomain c (.elem sp name attrs kids) = true) :
    (keys (decodedEntries c S attrs kids)).Nodup
    ∧ ((unrollEntries c (decodedEntries c S attrs kids)).map (fun e => seqOf c e.2)).Nodup :=
  ⟨decoded_keys_nodup c S hc sp name attrs kids hd, decoded_seqs_nodup c S hc sp name attrs kids hd⟩

/-- the same for the map of a child element (the decoded map with the parent's `#seq` put in):
    the hypotheses of `C04_perm_invariant` hold at every element of a decoded document -/
theorem C04_decoded_distinct_child (c : SeqCfg) (S : Strconv) (hc : CfgOk c) (sp name : Str)
    (attrs : List Attr) (kids : List Node) (hd : seqDomain c (.elem sp name attrs kids) = true)
    (n : Nat) :
    (keys (insert c.seqK (seqNum n) (decodedEntries c S attrs kids))).Nodup
    ∧ ((unrollEntries c (insert c.seqK (seqNum n) (decodedEntries c S attrs kids))).map
        (fun e => seqOf c e.2)).Nodup := by
  refine ⟨nodup_keys_insert _ _ _ (decoded_keys_nodup c S hc sp name attrs kids hd), ?_⟩
  rw [unroll_insert_seq]
  exact decoded_seqs_nodup c S hc sp name attrs kids hd

/-! ### goal 4: the round trip at tree level -/

/-- general configuration (`CfgOk`: no cast, no decoder-side escaping, reserved keys distinct;
    snake-case and `keepSpace` are allowed — `qualify c` / `normalizeC c` follow them): the
    decoded value of an in-domain element re-encodes to the normalised element with its names
    spelled `prefix:local`, both as the document root and as a child carrying any `#seq` -/
theorem C04_roundtrip_tree_cfg (c : SeqCfg) (S : Strconv) (hc : CfgOk c) (sp name : Str)
    (attrs : List Attr) (kids : List Node) (hd : seqDomain c (.elem sp name attrs kids) = true)
    (f : Nat) (hf : (Node.elem sp name attrs kids).height + 1 ≤ f) :
    seqEncTree c f (qualName c sp name) (SeqFold.value c S (.elem sp name attrs kids))
        = .ok [qualify c (normalizeC c (.elem sp name attrs kids))]
    ∧ ∀ n, seqEncTree c f (qualName c sp name)
          (seqChild c n (SeqFold.value c S (.elem sp name attrs kids)))
        = .ok [qualify c (normalizeC c (.elem sp name attrs kids))] := by
  have h := enc_tree c S hc (.elem sp name attrs kids)
  simp only at h
  exact h hd f hf

/-- default configuration, names as the document text spells them.
    (`Val` keys hold only the qualified name `prefix:local`, so the encoder's tree has its names
    in that form: `qualify`.) -/
theorem C04_roundtrip_tree_qualified (S : Strconv) (t : Node) (hd : SeqDomain t = true) :
    ∃ key v, SeqFold.doc seqDflt S t = .map [(key, v)]
      ∧ ∀ f, t.height + 1 ≤ f →
          seqEncTree seqDflt f key v = .ok [qualify seqDflt (normalize t)] := by
  cases t with
  | elem sp name attrs kids =>
    exact ⟨_, _, rfl, fun f hf =>
      (C04_roundtrip_tree_cfg seqDflt S cfgOk_dflt sp name attrs kids hd f hf).1⟩
  | text _ => simp [SeqDomain, seqDomain] at hd
  | comment _ => simp [SeqDomain, seqDomain] at hd
  | directive _ => simp [SeqDomain, seqDomain] at hd
  | procinst _ _ => simp [SeqDomain, seqDomain] at hd

/- The statement as first drafted,
     `∃ key v, SeqFold.doc dflt S t = .map [(key, v)] ∧ seqEncTree dflt … key v = .ok [normalize t]`
   with element names = keys, is false whenever a prefix is present: the key of `<p:a/>` is
   `p:a`, so the encoder's tree is `.elem [] "p:a" [] []`, not `.elem "p" "a" [] []`
   (see the `example` below).  The true versions: `C04_roundtrip_tree_qualified` (above), and
   `C04_roundtrip_tree` (next), which splits the names at the colon again — for names the
   tokenizer can produce (`plainNames`: no colon inside a prefix or a local name, local names
   non-empty). -/
example :
    ∃ key v, SeqFold.doc seqDflt SeqSample.S0 (.elem "p".toList "a".toList [] []) = .map [(key, v)]
      ∧ seqEncTree seqDflt 5 key v = .ok [.elem [] "p:a".toList [] []] := by
  refine ⟨"p:a".toList, .str [], rfl, ?_⟩
  simp [seqEncTree, textKid]

/-- the round trip, names split again into prefix and local part -/
theorem C04_roundtrip_tree (S : Strconv) (t : Node) (hd : SeqDomain t = true)
    (hn : plainNames t = true) :
    ∃ key v, SeqFold.doc seqDflt S t = .map [(key, v)]
      ∧ ∀ f, t.height + 1 ≤ f →
          ∃ n, seqEncTree seqDflt f key v = .ok [n] ∧ unqualify n = normalize t := by
  obtain ⟨key, v, h1, h2⟩ := C04_roundtrip_tree_qualified S t hd
  refine ⟨key, v, h1, fun f hf => ⟨_, h2 f hf, ?_⟩⟩
  exact unqualify_qualify seqDflt rfl _ (plainNames_normalize seqDflt t hn)

/-- stream to tree to stream: decoding the tokens of an in-domain document and re-encoding the
    result gives the normalised document -/
theorem C04_roundtrip_stream (S : Strconv) (fin : StreamEnd) (pre post : List Tok)
    (hpre : ∀ t ∈ pre, isText t = true) (sp name : Str) (attrs : List Attr) (kids : List Node)
    (hd : SeqDomain (.elem sp name attrs kids) = true) :
    ∃ key v, newMapXmlSeq seqDflt S (pre ++ flatten (.elem sp name attrs kids) ++ post) fin
        = .ok (.doc (.map [(key, v)]))
      ∧ ∀ f, (Node.elem sp name attrs kids).height + 1 ≤ f →
          seqEncTree seqDflt f key v
            = .ok [qualify seqDflt (normalize (.elem sp name attrs kids))] :=
  ⟨_, _, newMapXmlSeq_tree seqDflt S fin pre post hpre sp name attrs kids, fun f hf =>
    (C04_roundtrip_tree_cfg seqDflt S cfgOk_dflt sp name attrs kids hd f hf).1⟩

/-! ### Go's map order does not matter -/

/-- one level: `seqEncTree` and `seqEnc` give the same result for any permutation of the
    entries of the map, provided its keys are distinct (a Go map) and the sequence numbers of
    its unrolled children are distinct -/
theorem C04_perm_invariant (c : SeqCfg) (esc goEmpty : Bool) (f : Nat) (key : Str)
    {val val' : Entries} (hp : val'.Perm val) (hk : (keys val).Nodup)
    (hs : ((unrollEntries c val).map (fun e => seqOf c e.2)).Nodup) :
    seqEncTree c f key (.map val') = seqEncTree c f key (.map val)
    ∧ seqEnc c esc goEmpty f key (.map val') = seqEnc c esc goEmpty f key (.map val) :=
  ⟨seqEncTree_perm c f key hp hk hs, seqEnc_perm c esc goEmpty f key hp hk hs⟩

/-- … and the same for the `#attr` map (and any other list the encoder sorts) -/
theorem C04_perm_invariant_sort (c : SeqCfg) {l p : List (Str × Val)} (hp : p.Perm l)
    (hn : (l.map (fun e => seqOf c e.2)).Nodup) : sortBySeq c p = sortBySeq c l :=
  sortBySeq_congr c hp hn

/-- the round trip with the root's entries in ANY order (Go's range order) -/
theorem C04_roundtrip_any_order (S : Strconv) (sp name : Str) (attrs : List Attr)
    (kids : List Node) (hd : SeqDomain (.elem sp name attrs kids) = true)
    (hne : (decodedEntries seqDflt S attrs kids).isEmpty = false)
    (val' : Entries) (hp : val'.Perm (decodedEntries seqDflt S attrs kids))
    (f : Nat) (hf : (Node.elem sp name attrs kids).height + 1 ≤ f) :
    seqEncTree seqDflt f (qualName seqDflt sp name) (.map val')
      = .ok [qualify seqDflt (normalize (.elem sp name attrs kids))] := by
  have h := (C04_roundtrip_tree_cfg seqDflt S cfgOk_dflt sp name attrs kids hd f hf).1
  rw [value_eq_finish] at h
  simp only [SeqFold.finish, hne, Bool.false_eq_true, if_false] at h
  rw [seqEncTree_perm seqDflt f _ hp
    (decoded_keys_nodup seqDflt S cfgOk_dflt sp name attrs kids hd)
    (decoded_seqs_nodup seqDflt S cfgOk_dflt sp name attrs kids hd)]
  exact h

/-- ALL levels.  `VPerm w v`: `w` is `v` with the entries of every map, at every level
    (elements, list members, the `#attr` map, attribute entries, comment / PI entries), in some
    other order.  `GoodAt c key v`: every map of `v` is what a Go map can be (distinct keys) and
    the children / attributes of every element carry pairwise distinct `#seq`.  Then the
    encoder's tree is the same -/
theorem C04_perm_invariant_all (c : SeqCfg) (f : Nat) (key : Str) (w v : Val) (h : VPerm w v)
    (hg : GoodAt c key v) : seqEncTree c f key w = seqEncTree c f key v :=
  seqEncTree_vperm c f key w v h hg

/-- the relation is reflexive and contains the one-level permutations -/
theorem C04_vperm_refl (v : Val) : VPerm v v := VPerm.refl v
theorem C04_vperm_of_perm {m b : Entries} (h : m.Perm b) : VPerm (.map m) (.map b) :=
  VPerm.of_perm h

/-- decoded values satisfy the hypothesis, under any key, as the root and as a child -/
theorem C04_decoded_good (S : Strconv) (t : Node) (hd : SeqDomain t = true) (key : Str) :
    GoodAt seqDflt key (SeqFold.value seqDflt S t)
    ∧ ∀ n, GoodAt seqDflt key (seqChild seqDflt n (SeqFold.value seqDflt S t)) :=
  good_value seqDflt S cfgOk_dflt t hd key

/-- the round trip whatever order Go ranges over the maps in, at every level -/
theorem C04_roundtrip_any_order_all (S : Strconv) (sp name : Str) (attrs : List Attr)
    (kids : List Node) (hd : SeqDomain (.elem sp name attrs kids) = true) (w : Val)
    (hw : VPerm w (SeqFold.value seqDflt S (.elem sp name attrs kids)))
    (f : Nat) (hf : (Node.elem sp name attrs kids).height + 1 ≤ f) :
    seqEncTree seqDflt f (qualName seqDflt sp name) w
      = .ok [qualify seqDflt (normalize (.elem sp name attrs kids))] := by
  rw [seqEncTree_vperm seqDflt f _ w _ hw (good_value seqDflt S cfgOk_dflt _ hd _).1]
  exact (C04_roundtrip_tree_cfg seqDflt S cfgOk_dflt sp name attrs kids hd f hf).1

/-! ### bytes = rendering of the tree -/

/-- with `XmlGoEmptyElemSyntax` the bytes `seqEnc` writes are the canonical rendering of the
    tree `seqEncTree` builds, for values whose leaves are strings (`seqPlain`; the numbers
    under `#seq` are never written) -/
theorem C04_bytes_are_rendering_goEmpty (c : SeqCfg) (esc : Bool) (hts : c.textK ≠ c.seqK)
    (f : Nat) (key : Str) (v : Val) (hv : seqPlain c v = true) :
    seqEnc c esc true f key v = (seqEncTree c f key v).mapOk (renderSeqKids esc true) :=
  seqEnc_link c esc hts f key v hv

/- For `goEmpty = false` the bytes are NOT a function of the tree: an element without content
   is written `<k/>` in the "simple" and "empty" branches of `seqEnc` but `<k></k>` in the
   general branch — e.g. a root with attributes only (its map has no `#seq`) against the same
   element as a child: same tree, different bytes.  So
     `seqEnc c esc goEmpty f key v = .ok bytes ↔ bytes = render of seqEncTree`
   holds as stated only with `goEmpty = true` (`C04_bytes_are_rendering_goEmpty`). -/
example :
    SeqFold.value seqDflt SeqSample.S0 (.elem [] "r".toList [⟨[], "a".toList, "1".toList⟩] [])
      = .map [("#attr".toList, .map [("a".toList,
          .map [("#text".toList, .str "1".toList), ("#seq".toList, .num "i:0".toList)])])] := by
  rfl
example :
    seqEnc seqDflt false false 5 "r".toList
        (.map [("#attr".toList, .map [("a".toList,
          .map [("#text".toList, .str "1".toList), ("#seq".toList, .num "i:0".toList)])])])
      = .ok "<r a=\"1\"></r>".toList
    ∧ seqEnc seqDflt false false 5 "r".toList
        (seqChild seqDflt 0 (.map [("#attr".toList, .map [("a".toList,
          .map [("#text".toList, .str "1".toList), ("#seq".toList, .num "i:0".toList)])])]))
      = .ok "<r a=\"1\"/>".toList := by
  constructor <;>
    simp [seqEnc, seqKids, seqAttrsText, seqAttrText, seqChild, insert, seqDflt, lookup,
      unrollEntries, sortBySeq, insertBySeq, closeTag]
example :
    seqEncTree seqDflt 5 "r".toList
        (.map [("#attr".toList, .map [("a".toList,
          .map [("#text".toList, .str "1".toList), ("#seq".toList, .num "i:0".toList)])])])
      = .ok [.elem [] "r".toList [⟨[], "a".toList, "1".toList⟩] []]
    ∧ seqEncTree seqDflt 5 "r".toList
        (seqChild seqDflt 0 (.map [("#attr".toList, .map [("a".toList,
          .map [("#text".toList, .str "1".toList), ("#seq".toList, .num "i:0".toList)])])]))
      = .ok [.elem [] "r".toList [⟨[], "a".toList, "1".toList⟩] []] := by
  constructor <;>
    simp [seqEncTree, seqKidsTree, seqAttrNodes, seqAttrNode, seqChild, insert, seqDflt, lookup,
      unrollEntries, sortBySeq, insertBySeq]

/-- decoded values are in that domain -/
theorem C04_decoded_plain (S : Strconv) (t : Node) (hd : SeqDomain t = true) :
    seqPlain seqDflt (SeqFold.value seqDflt S t) = true :=
  plain_value seqDflt S cfgOk_dflt t hd

/-- end to end at byte level (with `XmlGoEmptyElemSyntax`): decode the token stream, call
    `msv.Xml()` — the result is the rendering of the normalised document; the fuel
    `mapSeqXml` supplies is enough -/
theorem C04_roundtrip_bytes (S : Strconv) (fin : StreamEnd) (esc : Bool) (pre post : List Tok)
    (hpre : ∀ t ∈ pre, isText t = true) (sp name : Str) (attrs : List Attr) (kids : List Node)
    (hd : SeqDomain (.elem sp name attrs kids) = true) :
    ∃ m, newMapXmlSeq seqDflt S (pre ++ flatten (.elem sp name attrs kids) ++ post) fin
        = .ok (.doc (.map m))
      ∧ mapSeqXml seqDflt esc true m
        = .ok (renderSeq esc true (qualify seqDflt (normalize (.elem sp name attrs kids)))) :=
  ⟨_, newMapXmlSeq_tree seqDflt S fin pre post hpre sp name attrs kids,
    mapSeqXml_roundtrip seqDflt S cfgOk_dflt esc sp name attrs kids hd⟩

/-! ### goal 5: the property's words -/

/-- the re-encoded element: same (qualified) name, the attributes in the same order with the
    same values (equal lists, not permutations), the trimmed text first, then every child
    element, comment, directive and processing instruction at its position -/
theorem C04_reencoded_shape (S : Strconv) (sp name : Str) (attrs : List Attr) (kids : List Node)
    (hd : SeqDomain (.elem sp name attrs kids) = true) (f : Nat)
    (hf : (Node.elem sp name attrs kids).height + 1 ≤ f) :
    seqEncTree seqDflt f (qualName seqDflt sp name)
        (SeqFold.value seqDflt S (.elem sp name attrs kids))
      = .ok [.elem [] (qualName seqDflt sp name) (attrs.map (qualAttr seqDflt))
          (textNodes (leadText seqDflt kids)
            ++ (dropText kids).map (fun k => qualify seqDflt (normalizeC seqDflt k)))] := by
  rw [(C04_roundtrip_tree_cfg seqDflt S cfgOk_dflt sp name attrs kids hd f hf).1]
  simp only [normalizeC, qualify,
    normalized_children seqDflt kids (seqDomain_parts hd).tf]

/-- attribute order: the i-th attribute of the result is the i-th attribute of the source -/
theorem C04_attr_order (attrs : List Attr) (i : Nat) (a : Attr) (h : attrs[i]? = some a) :
    (attrs.map (qualAttr seqDflt))[i]?
      = some ⟨[], qualName seqDflt a.space a.name, a.value⟩ := by
  simp [List.getElem?_map, h, qualAttr]

/-- sibling order: the i-th non-text child of the result (behind the text, if any) is the
    normalised i-th non-text child of the source -/
theorem C04_sibling_order (kids : List Node) (i : Nat) (k : Node) (h : (dropText kids)[i]? = some k) :
    (textNodes (leadText seqDflt kids)
        ++ (dropText kids).map (fun k => qualify seqDflt (normalizeC seqDflt k)))[
          (textNodes (leadText seqDflt kids)).length + i]?
      = some (qualify seqDflt (normalizeC seqDflt k)) := by
  rw [List.getElem?_append_right (Nat.le_add_right _ _)]
  simp [List.getElem?_map, h]

/-- comments, directives and processing instructions come back unchanged, in the same position -/
theorem C04_notes_unchanged (s t i : Str) :
    qualify seqDflt (normalizeC seqDflt (.comment s)) = .comment s
    ∧ qualify seqDflt (normalizeC seqDflt (.directive s)) = .directive s
    ∧ qualify seqDflt (normalizeC seqDflt (.procinst t i)) = .procinst t i :=
  ⟨rfl, rfl, rfl⟩

/-- a child element comes back as an element with its qualified name and its attributes in
    order -/
theorem C04_child_element (sp name : Str) (attrs : List Attr) (ks : List Node) :
    qualify seqDflt (normalizeC seqDflt (.elem sp name attrs ks))
      = .elem [] (qualName seqDflt sp name) (attrs.map (qualAttr seqDflt))
          (qualifyKids seqDflt (normalizeKidsC seqDflt ks)) := rfl

/-- qualified names keep the prefix -/
theorem C04_qualName (sp name : Str) :
    qualName seqDflt sp name = if sp.isEmpty then name else sp ++ [':'] ++ name := rfl

/-! ### non-vacuity -/

/-- `<r x="1" n:y="2"> hi <a>1</a><!--note--><p:b/>␤<a k="v"/></r>`: interleaved siblings
    a, b, a; two attributes (one prefixed); a comment; leading text -/
example : SeqDomain SeqSample.tree = true := by decide
example : plainNames SeqSample.tree = true := by decide

/-- its MapSeq: `a` promoted to a list whose members carry `#seq` 1 and 4; comment 2; `p:b` 3 -/
example :
    newMapXmlSeq seqDflt SeqSample.S0 (flatten SeqSample.tree) .eof
      = .ok (.doc (.map [("r".toList, .map [
          ("#attr".toList, .map [
            ("x".toList, .map [("#text".toList, .str "1".toList), ("#seq".toList, .num "i:0".toList)]),
            ("n:y".toList, .map [("#text".toList, .str "2".toList), ("#seq".toList, .num "i:1".toList)])]),
          ("#text".toList, .str "hi".toList),
          ("#seq".toList, .num "i:0".toList),
          ("a".toList, .list [
            .map [("#text".toList, .str "1".toList), ("#seq".toList, .num "i:1".toList)],
            .map [("#attr".toList, .map [
                    ("k".toList, .map [("#text".toList, .str "v".toList),
                                       ("#seq".toList, .num "i:0".toList)])]),
                  ("#seq".toList, .num "i:4".toList)]]),
          ("#comment".toList, .map [("#text".toList, .str "note".toList),
                                    ("#seq".toList, .num "i:2".toList)]),
          ("p:b".toList, .map [("#text".toList, .str []), ("#seq".toList, .num "i:3".toList)])])])) := by
  rfl

/-- its re-encoding as a tree (by the theorem; `seqEncTree` does not unfold by `rfl`) -/
example :
    seqEncTree seqDflt 10 "r".toList (SeqFold.value seqDflt SeqSample.S0 SeqSample.tree)
      = .ok [.elem [] "r".toList
          [⟨[], "x".toList, "1".toList⟩, ⟨[], "n:y".toList, "2".toList⟩]
          [.text "hi".toList,
           .elem [] "a".toList [] [.text "1".toList],
           .comment "note".toList,
           .elem [] "p:b".toList [] [],
           .elem [] "a".toList [⟨[], "k".toList, "v".toList⟩] []]] :=
  (C04_roundtrip_tree_cfg seqDflt SeqSample.S0 cfgOk_dflt [] "r".toList _ _
    (by decide : SeqDomain SeqSample.tree = true) 10 (by decide)).1

/-- … and as bytes (`XmlGoEmptyElemSyntax`, escaping on) -/
example :
    mapSeqXml seqDflt true true [("r".toList, SeqFold.value seqDflt SeqSample.S0 SeqSample.tree)]
      = .ok (renderSeq true true (qualify seqDflt (normalize SeqSample.tree))) :=
  mapSeqXml_roundtrip seqDflt SeqSample.S0 cfgOk_dflt true [] "r".toList _ _
    (by decide : SeqDomain SeqSample.tree = true)
example :
    renderSeq false true (qualify seqDflt (normalize SeqSample.tree))
      = "<r x=\"1\" n:y=\"2\">hi<a>1</a><!--note--><p:b></p:b><a k=\"v\"></a></r>".toList := by
  decide

example : unqualify (qualify seqDflt (normalize SeqSample.tree)) = normalize SeqSample.tree := by rfl

/-- `VPerm` in action: the root's entries swapped AND the entries of the child's map swapped -/
example :
    VPerm (.map [("b".toList, .map [("#seq".toList, .num "i:1".toList), ("#text".toList, .str [])]),
                 ("a".toList, .str "x".toList)])
          (.map [("a".toList, .str "x".toList),
                 ("b".toList, .map [("#text".toList, .str []), ("#seq".toList, .num "i:1".toList)])]) := by
  rw [VPerm]
  refine ⟨[("b".toList, .map [("#text".toList, .str []), ("#seq".toList, .num "i:1".toList)]),
           ("a".toList, .str "x".toList)], _, rfl, List.Perm.swap _ _ [], ?_⟩
  rw [EPerm]
  refine ⟨_, _, rfl, ?_, ?_⟩
  · rw [VPerm]
    exact ⟨[("#seq".toList, .num "i:1".toList), ("#text".toList, .str [])], _, rfl,
      List.Perm.swap _ _ [], EPerm.refl _⟩
  · exact EPerm.refl _

/-- the domain restrictions are needed: text behind a child element is written first … -/
example : SeqDomain (.elem [] "r".toList [] [.elem [] "a".toList [] [], .text "x".toList]) = false := by
  decide
example :
    SeqFold.value seqDflt SeqSample.S0 (.elem [] "r".toList [] [.elem [] "a".toList [] [], .text "x".toList])
      = .map [("a".toList, .map [("#text".toList, .str []), ("#seq".toList, .num "i:0".toList)]),
              ("#text".toList, .str "x".toList), ("#seq".toList, .num "i:1".toList)] := by rfl
example :
    seqEncTree seqDflt 5 "r".toList
        (.map [("a".toList, .map [("#text".toList, .str []), ("#seq".toList, .num "i:0".toList)]),
               ("#text".toList, .str "x".toList), ("#seq".toList, .num "i:1".toList)])
      = .ok [.elem [] "r".toList [] [.text "x".toList, .elem [] "a".toList [] []]] := by
  simp [seqEncTree, seqKidsTree, seqDflt, lookup, unrollEntries, sortBySeq, insertBySeq, fmtV,
    textKid]

/-- … and of two comments in one element only the second survives -/
example : SeqDomain (.elem [] "r".toList [] [.comment "1".toList, .comment "2".toList]) = false := by
  decide
example :
    SeqFold.value seqDflt SeqSample.S0 (.elem [] "r".toList [] [.comment "1".toList, .comment "2".toList])
      = .map [("#comment".toList,
          .map [("#text".toList, .str "2".toList), ("#seq".toList, .num "i:1".toList)])] := by rfl
example :
    seqEncTree seqDflt 5 "r".toList
        (.map [("#comment".toList,
          .map [("#text".toList, .str "2".toList), ("#seq".toList, .num "i:1".toList)])])
      = .ok [.elem [] "r".toList [] [.comment "2".toList]] := by
  simp [seqEncTree, seqKidsTree, seqDflt, lookup, unrollEntries, sortBySeq, insertBySeq, strOf]

end Mxj.C04
