/-
  Mxj.Props.C04 — NewMapXmlSeq / MapSeq.Xml: decoding a document with the sequence-preserving
  decoder and encoding the result reproduces the original token stream: the same elements with
  the same (prefix-preserving) names in the same order, each with the same attributes in the
  same order and the same values, the same text, and the same comments, directives and
  processing instructions in the same positions.  Domain (`SeqDomain`): well-formed documents
  with arbitrary interleaving of differently and identically named siblings, namespaced names
  and xmlns attributes, at most one comment, one directive and one processing instruction per
  element, and text either alone in an element or before its child elements.
  Property theorems and non-vacuity examples only; helper lemmas live in Mxj.Lemmas.Seq
  (namespace `Mxj.SeqL`).

  Model: Mxj.Model.Seq (`seqElem`/`seqTop`/`newMapXmlSeq`: the streaming decoder;
  `seqEnc`/`mapSeqXml`: the encoder).  Vocabulary: Mxj.Model.SeqTree (`SeqFold`, `seqEncTree`,
  `normalize`, `qualify`, `SeqDomain`).

  Structure of the argument:
    token stream  --C04_stream_refines_tree-->  SeqFold.doc          (every tree, every config)
    SeqFold.value --C04_decoded_form-->  #attr ++ text ++ grouped children, children numbered
                                         consecutively in document order (C04_children_numbered)
    Go's map range + sort  --C04_sort_inverts_perm-->  the children in document order
    seqEncTree (SeqFold.value t)  --C04_roundtrip_tree-->  [normalize t]
-/
import Mxj.Lemmas.Seq
namespace Mxj.C04
open Mxj Mxj.SeqL Mxj.Dec

/-! ### goal 1: the sort lemma -/

/-- sorting by pairwise distinct sequence numbers undoes any permutation: Go ranges over the map
    (arbitrary order), unrolls lists, then sorts by #seq -/
theorem C04_sort_inverts_perm (c : SeqCfg) (l p : List (Str × Val)) (hp : List.Perm p l)
    (hsorted : List.Pairwise (fun a b => seqOf c a.2 < seqOf c b.2) l) : sortBySeq c p = l :=
  sortBySeq_inverts_perm c l p hp hsorted

/-- `sortBySeq` is a permutation of its input and sorted by `#seq` -/
theorem C04_sort_perm_sorted (c : SeqCfg) (l : List (Str × Val)) :
    (sortBySeq c l).Perm l
      ∧ (sortBySeq c l).Pairwise (fun a b => seqOf c a.2 ≤ seqOf c b.2) :=
  ⟨sortBySeq_perm c l, sortBySeq_sorted c l⟩

/-! ### goal 3: the streaming decoder computes the tree fold -/

theorem C04_seqElem_fuel_mono (c : SeqCfg) (S : Strconv) (fin : StreamEnd) {f g : Nat}
    (hfg : f ≤ g) (skey : Str) (na : Entries) (seq : Nat) (pend : Option (Str × Bool))
    (toks : List Tok) (r : Val × List Tok)
    (h : seqElem c S fin f skey na seq pend toks = .ok r) :
    seqElem c S fin g skey na seq pend toks = .ok r :=
  seqElem_mono_le c S fin hfg h

theorem C04_seqTop_fuel_mono (c : SeqCfg) (S : Strconv) (fin : StreamEnd) {f g : Nat}
    (hfg : f ≤ g) (toks : List Tok) (r : SeqTop) (h : seqTop c S fin f toks = .ok r) :
    seqTop c S fin g toks = .ok r :=
  seqTop_mono_le c S fin hfg h

/-- the element loop on the tokens of an element consumes exactly the element -/
theorem C04_seqElem_consumes_element (c : SeqCfg) (S : Strconv) (fin : StreamEnd)
    (sp name : Str) (attrs : List Attr) (kids : List Node) (rest : List Tok) (f : Nat)
    (hf : (flattenKids kids).length + 1 ≤ f) :
    seqElem c S fin f (qualName c sp name) (seqInitNa c S attrs) 0 none
        (flattenKids kids ++ Tok.stop sp name :: rest)
      = .ok (SeqFold.value c S (.elem sp name attrs kids), rest) := by
  have h := seq_parse_tree c S fin (.elem sp name attrs kids)
  simp only at h
  exact h rest f hf

/-- token-stream recursion = tree recursion, for every tree, every configuration, every
    continuation `rest` -/
theorem C04_stream_refines_tree (c : SeqCfg) (S : Strconv) (fin : StreamEnd)
    (sp name : Str) (attrs : List Attr) (kids : List Node) (rest : List Tok) :
    ∃ f0, ∀ f, f0 ≤ f →
      seqTop c S fin f (flatten (.elem sp name attrs kids) ++ rest)
        = .ok (.doc (SeqFold.doc c S (.elem sp name attrs kids))) :=
  ⟨(flattenKids kids).length + 2, fun f hf => seqTop_tree c S fin sp name attrs kids rest f hf⟩

/-- the same with the explicit fuel bound: the number of tokens of the element is enough -/
theorem C04_stream_refines_tree_bound (c : SeqCfg) (S : Strconv) (fin : StreamEnd)
    (sp name : Str) (attrs : List Attr) (kids : List Node) (rest : List Tok) (f : Nat)
    (hf : (flatten (.elem sp name attrs kids)).length ≤ f) :
    seqTop c S fin f (flatten (.elem sp name attrs kids) ++ rest)
      = .ok (.doc (SeqFold.doc c S (.elem sp name attrs kids))) :=
  seqTop_tree c S fin sp name attrs kids rest f (by rw [length_flatten_elem] at hf; exact hf)

/-- with the default fuel of `newMapXmlSeq`, any leading character data (BOM, white space) and
    any trailing tokens -/
theorem C04_newMapXmlSeq_tree (c : SeqCfg) (S : Strconv) (fin : StreamEnd) (pre post : List Tok)
    (hpre : ∀ t ∈ pre, isText t = true) (sp name : Str) (attrs : List Attr) (kids : List Node) :
    newMapXmlSeq c S (pre ++ flatten (.elem sp name attrs kids) ++ post) fin
      = .ok (.doc (SeqFold.doc c S (.elem sp name attrs kids))) :=
  newMapXmlSeq_tree c S fin pre post hpre sp name attrs kids

end Mxj.C04
