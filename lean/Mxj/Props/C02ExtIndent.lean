/-
  Mxj.Props.C02ExtIndent — the INDENTED Map encoder `Map.XmlIndent(prefix, indent, rootTag...)`
  (model: Mxj.Model.EncodeIndent, `marshalI` / `mapXmlIndent`): its layout is harmless.

  (1) `C02_indent_bytes_eq_renderI`: the bytes are the indented rendering `renderI` of the SAME
      tree `encTree` builds for the compact encoder; `C02_indent_error_iff`: it fails exactly
      when the compact encoder fails (every Map, no hypothesis).
  (2) `C02_indent_renderI_eq_render`, `C02_indent_tokens`, `C02_indent_tokens_simple`: the
      indented rendering is the canonical rendering of a layout tree `layI`, whose tokens are the
      tree's tokens plus white-space text tokens (newlines and characters of prefix / indent
      only); an element without element children is left untouched.
  (3) `C02_indent_same_decode` (+ `_trim`, `C02_indent_roundtrip`): with a prefix and an indent
      the decoder trims, decoding the indented token stream gives exactly the Map decoding the
      compact one gives.  With `keepSpace` (DisableTrimWhiteSpace) it does not: known defect.

  Property theorems and examples only; definitions and helper lemmas are in
  Mxj.Lemmas.EncodeIndent (namespace `Mxj.Enc`).
-/
import Mxj.Lemmas.EncodeIndent
namespace Mxj.C02
open Mxj Mxj.Enc

/-! ### (1) bytes = indented rendering of the encoder's tree -/

/-- `Map.XmlIndent` writes, at nesting count 0 and with the prefix as padding, the indented
    rendering `renderI` of the tree the (compact) encoder builds for the root `XmlIndent` picks
    — as one equation, success and failure.
    `Plain cfg`: as for the compact encoder (`C02_marshal_eq_render`): raw `%v` texts need no
    escaping.  `Regular cfg`: no empty list, no list directly inside a list, at most one
    text-key entry per map — on other values the Go code's layout is not a function of the tree
    (counterexamples below). -/
theorem C02_indent_bytes_eq_renderI (cfg : EncCfg) (pfx indent : Str) (m : Entries)
    (rootTag : Option Str) (hp : Plain cfg (.map m) = true) (hr : Regular cfg (.map m) = true) :
    mapXmlIndent cfg pfx indent m rootTag
      = (encTree cfg (mapXmlIndentRoot m rootTag).1 (mapXmlIndentRoot m rootTag).2.norm).map
          (fun ns => ns.flatMap (renderI cfg indent 0 pfx)) :=
  mapXmlIndent_eq cfg pfx indent m rootTag hp hr

/-- … spelled out for a successful run: there is ONE tree `n`; the indented bytes are its
    indented rendering and the compact encoder's bytes (same root) are its canonical rendering -/
theorem C02_indent_bytes_single (cfg : EncCfg) (pfx indent : Str) (m : Entries)
    (rootTag : Option Str) (out : Str)
    (hp : Plain cfg (.map m) = true) (hr : Regular cfg (.map m) = true)
    (h : mapXmlIndent cfg pfx indent m rootTag = .ok out) :
    ∃ n, encTree cfg (mapXmlIndentRoot m rootTag).1 (mapXmlIndentRoot m rootTag).2.norm = .ok [n]
      ∧ isElem n = true
      ∧ out = renderI cfg indent 0 pfx n
      ∧ marshal cfg (mapXmlIndentRoot m rootTag).1 (mapXmlIndentRoot m rootTag).2
          = .ok (render cfg n) := by
  rw [C02_indent_bytes_eq_renderI cfg pfx indent m rootTag hp hr] at h
  cases hE : encTree cfg (mapXmlIndentRoot m rootTag).1 (mapXmlIndentRoot m rootTag).2.norm with
  | error e => rw [hE] at h; simp [Except.map] at h
  | ok ns =>
    rw [hE] at h
    simp only [Except.map, Except.ok.injEq] at h
    obtain ⟨attrs, kids, e⟩ := encTree_single cfg _ _ ns
      (by rw [isList_norm]; exact mapXmlIndentRoot_not_list m rootTag) hE
    subst e
    refine ⟨_, rfl, rfl, by simpa using h.symm, ?_⟩
    unfold marshal
    rw [marshalN_eq_render cfg _ _ (Plain_norm cfg _ (mapXmlIndentRoot_plain cfg m rootTag hp)), hE]
    simp [Except.map]

/-- `Map.XmlIndent` fails exactly when the compact encoder fails on the same root, with the
    same error — for EVERY Map (no `Plain`, no `Regular`) -/
theorem C02_indent_error_iff (cfg : EncCfg) (pfx indent : Str) (m : Entries)
    (rootTag : Option Str) (e : ErrKind) :
    mapXmlIndent cfg pfx indent m rootTag = .error e
      ↔ marshal cfg (mapXmlIndentRoot m rootTag).1 (mapXmlIndentRoot m rootTag).2 = .error e := by
  have h := mapXmlIndent_err cfg pfx indent m rootTag
  unfold unitE at h
  cases h1 : mapXmlIndent cfg pfx indent m rootTag <;>
    cases h2 : marshal cfg (mapXmlIndentRoot m rootTag).1 (mapXmlIndentRoot m rootTag).2 <;>
    rw [h1, h2] at h <;> simp [Except.map] at h ⊢ <;> simp [h]

/-- `Regular` does not depend on the order of map entries (it holds for the normalised value
    if it holds for the value) -/
theorem C02_indent_regular_norm (cfg : EncCfg) (v : Val) (h : Regular cfg v = true) :
    Regular cfg v.norm = true := Regular_norm cfg v h

/-! ### (2) the layout as extra white-space text tokens -/

/-- the indented rendering of an element is: the padding, the CANONICAL rendering of the layout
    tree `layI` (the tree with the layout as explicit text nodes), the final newline — when
    prefix and indent need no escaping (always so for blanks and tabs:
    `plainText_of_blank`) -/
theorem C02_indent_renderI_eq_render (cfg : EncCfg) (indent : Str) (cnt : Nat) (pad : Str)
    (hind : plainText cfg indent = true) (hpad : plainText cfg pad = true)
    (sp name : Str) (attrs : List Attr) (kids : List Node) :
    renderI cfg indent cnt pad (.elem sp name attrs kids)
      = pad ++ render cfg (layI indent cnt pad (.elem sp name attrs kids)) ++ nlOf cnt := by
  have := renderI_eq_render_layI cfg indent hind (.elem sp name attrs kids) cnt pad hpad
  simpa [isElem] using this

/-- the token sequence of the indented document (`docToksI`: the prefix as a text token, then
    the tokens of the layout tree) is the token sequence of the tree with extra TEXT tokens,
    each of them non-empty and made of newlines and characters of prefix / indent only
    (`WsExt`, `wsOk`) — for every tree -/
theorem C02_indent_tokens (pfx indent : Str) (t : Node) :
    WsExt (wsOk (pfx ++ indent)) (docToksI pfx indent t) (flatten t) := by
  have h1 : WsExt (wsOk (pfx ++ indent)) (flattenKids (wsNode pfx)) [] :=
    wsExt_wsNode pfx (fun c hc => .inr (List.mem_append_left _ hc))
  have h2 := flatten_layI indent (pfx ++ indent) (fun c hc => List.mem_append_right _ hc) t 0 pfx
    (fun c hc => List.mem_append_left _ hc)
  simpa [docToksI] using h1.append h2

/-- … in particular the tree's tokens are a subsequence of the indented document's -/
theorem C02_indent_tokens_sublist (pfx indent : Str) (t : Node) :
    (flatten t).Sublist (docToksI pfx indent t) := (C02_indent_tokens pfx indent t).sublist

/-- where the extra tokens go: nowhere inside an element that has no element child (an empty
    element, a text-only element).  An element WITH element children gets, among its children:
    `"\n" ++ pad'` before the first element child, `pad'` before every later one, `"\n"` after
    each, `pad` after the last (`pad' = pad ++ indent`; definition of `layI`/`layBodyI`) — also
    when it has text as well (the Go code writes `>text`, newline, children): then the first
    extra token directly follows the text (example below). -/
theorem C02_indent_tokens_simple (indent : Str) (cnt : Nat) (pad sp name : Str)
    (attrs : List Attr) (kids : List Node) (h : kids.any isElem = false) :
    layI indent cnt pad (.elem sp name attrs kids) = .elem sp name attrs kids :=
  layI_simple indent cnt pad sp name attrs kids h

/-! ### (3) the decoder does not see the layout -/

/-- general form: if every character of prefix and indent is in the decoder's trim set
    (`strings.Trim` cut set: tab, CR, BS, LF, and the blank unless `keepSpace`), decoding the
    indented token stream gives EXACTLY the outcome of decoding the compact one — every tree,
    every decoder configuration -/
theorem C02_indent_same_decode_trim (cfg : DecCfg) (S : Strconv) (fin : StreamEnd)
    (pfx indent : Str) (hpfx : inTrim cfg pfx) (hind : inTrim cfg indent)
    (sp name : Str) (attrs : List Attr) (kids : List Node) :
    newMapXml cfg S (docToksI pfx indent (.elem sp name attrs kids)) fin
      = newMapXml cfg S (flatten (.elem sp name attrs kids)) fin :=
  newMapXml_docToksI cfg S fin pfx indent hpfx hind sp name attrs kids

/-- prefix and indent made of blanks and tabs, white space trimmed (`keepSpace = false`, the
    default): same Map -/
theorem C02_indent_same_decode (cfg : DecCfg) (S : Strconv) (fin : StreamEnd)
    (hk : cfg.keepSpace = false) (pfx indent : Str)
    (hpfx : ∀ c ∈ pfx, c = ' ' ∨ c = '\t') (hind : ∀ c ∈ indent, c = ' ' ∨ c = '\t')
    (sp name : Str) (attrs : List Attr) (kids : List Node) :
    newMapXml cfg S (docToksI pfx indent (.elem sp name attrs kids)) fin
      = newMapXml cfg S (flatten (.elem sp name attrs kids)) fin :=
  C02_indent_same_decode_trim cfg S fin pfx indent (inTrim_of_blank cfg hk pfx hpfx)
    (inTrim_of_blank cfg hk indent hind) sp name attrs kids

/-- end to end: a `Plain`, `Regular` Map that `XmlIndent` encodes (blank/tab prefix and indent)
    has ONE tree `n` such that: the indented bytes are the prefix followed by the canonical
    rendering of the layout tree of `n`; the compact bytes are the canonical rendering of `n`;
    and a trimming decoder gives the same outcome on the two token streams -/
theorem C02_indent_roundtrip (cfg : EncCfg) (pfx indent : Str) (m : Entries)
    (rootTag : Option Str) (out : Str)
    (hpfx : ∀ c ∈ pfx, c = ' ' ∨ c = '\t') (hind : ∀ c ∈ indent, c = ' ' ∨ c = '\t')
    (hp : Plain cfg (.map m) = true) (hr : Regular cfg (.map m) = true)
    (h : mapXmlIndent cfg pfx indent m rootTag = .ok out) :
    ∃ n, out = pfx ++ render cfg (layI indent 0 pfx n)
      ∧ marshal cfg (mapXmlIndentRoot m rootTag).1 (mapXmlIndentRoot m rootTag).2 = .ok (render cfg n)
      ∧ ∀ (dcfg : DecCfg) (S : Strconv) (fin : StreamEnd), dcfg.keepSpace = false →
          newMapXml dcfg S (docToksI pfx indent n) fin = newMapXml dcfg S (flatten n) fin := by
  obtain ⟨n, hn, _, ho, hc⟩ := C02_indent_bytes_single cfg pfx indent m rootTag out hp hr h
  obtain ⟨attrs, kids, e⟩ := encTree_single cfg _ _ [n]
    (by rw [isList_norm]; exact mapXmlIndentRoot_not_list m rootTag) hn
  have e' : n = .elem [] (mapXmlIndentRoot m rootTag).1 attrs kids := by simpa using e
  subst e'
  refine ⟨_, ?_, hc, ?_⟩
  · rw [ho, C02_indent_renderI_eq_render cfg indent 0 pfx (plainText_of_blank cfg indent hind)
      (plainText_of_blank cfg pfx hpfx)]
    simp [nlOf]
  · intro dcfg S fin hk
    exact C02_indent_same_decode dcfg S fin hk pfx indent hpfx hind _ _ _ _

/-! ### non-vacuity, counterexamples, the known defect -/

/-- a `Strconv` (unused: the cast flag is off) -/
def indentS0 : Strconv :=
  { parseInt := fun _ => none, parseUint := fun _ => none, parseFloat := fun _ => none, lower := id }

/-- `{"r": {"-k": "v", "#text": "hello", "b": ["c", "d"], "e": {"f": 1.5}, "g": nil}}` -/
def indentMap : Entries :=
  [("r".toList, .map [("-k".toList, .str "v".toList), ("#text".toList, .str "hello".toList),
      ("b".toList, .list [.str "c".toList, .str "d".toList]),
      ("e".toList, .map [("f".toList, .num "f:1.5".toList)]), ("g".toList, .null)])]

example : Plain {} (.map indentMap) = true := by decide
example : Regular {} (.map indentMap) = true := by decide

/-- the indented bytes (as the real `XmlIndent("", "  ")` writes them) … -/
example : mapXmlIndent {} [] "  ".toList indentMap none
    = .ok "<r k=\"v\">hello\n  <b>c</b>\n  <b>d</b>\n  <e>\n    <f>1.5</f>\n  </e>\n  <g/>\n</r>".toList := by
  rfl

/-- … with a prefix and a tab indent, a root tag and Go's empty-element syntax … -/
example : mapXmlIndent { goEmpty := true } " ".toList "\t".toList indentMap (some "doc".toList)
    = .ok (" <doc>\n \t<r k=\"v\">hello\n \t\t<b>c</b>\n \t\t<b>d</b>\n \t\t<e>\n \t\t\t<f>1.5</f>\n \t\t</e>\n"
            ++ " \t\t<g></g>\n \t</r>\n </doc>").toList := by
  rfl

/-- … the compact bytes … -/
example : mapXml {} indentMap none
    = .ok "<r k=\"v\">hello<b>c</b><b>d</b><e><f>1.5</f></e><g/></r>".toList := by rfl

/-- … the one tree behind both … -/
def indentTree : Node :=
  .elem [] "r".toList [⟨[], "k".toList, "v".toList⟩]
    [.text "hello".toList, .elem [] "b".toList [] [.text "c".toList],
     .elem [] "b".toList [] [.text "d".toList],
     .elem [] "e".toList [] [.elem [] "f".toList [] [.text "1.5".toList]],
     .elem [] "g".toList [] []]

example : encTree {} (mapXmlIndentRoot indentMap none).1 (mapXmlIndentRoot indentMap none).2.norm
    = .ok [indentTree] := by rfl
example : renderI {} "  ".toList 0 [] indentTree
    = "<r k=\"v\">hello\n  <b>c</b>\n  <b>d</b>\n  <e>\n    <f>1.5</f>\n  </e>\n  <g/>\n</r>".toList := by
  rfl

/-- … its layout tree: in the mixed element `r` the first extra token follows the text `hello`;
    the text-only elements `b`, `f` and the empty element `g` are untouched -/
example : layI "  ".toList 0 [] indentTree
    = .elem [] "r".toList [⟨[], "k".toList, "v".toList⟩]
        [.text "hello".toList,
         .text "\n  ".toList, .elem [] "b".toList [] [.text "c".toList], .text "\n".toList,
         .text "  ".toList, .elem [] "b".toList [] [.text "d".toList], .text "\n".toList,
         .text "  ".toList,
           .elem [] "e".toList []
             [.text "\n    ".toList, .elem [] "f".toList [] [.text "1.5".toList], .text "\n".toList,
              .text "  ".toList],
           .text "\n".toList,
         .text "  ".toList, .elem [] "g".toList [] [], .text "\n".toList] := by
  rfl

/-- … and the two decodings agree (default decoder: white space trimmed) -/
example : newMapXml {} indentS0 (docToksI [] "  ".toList indentTree) .eof
    = newMapXml {} indentS0 (flatten indentTree) .eof := by rfl
example : newMapXml {} indentS0 (docToksI [] "  ".toList indentTree) .eof
    = .ok (.map [("r".toList, .map [("-k".toList, .str "v".toList),
        ("#text".toList, .str "hello".toList),
        ("b".toList, .list [.str "c".toList, .str "d".toList]),
        ("e".toList, .map [("f".toList, .str "1.5".toList)]), ("g".toList, .str [])])]) := by rfl

/-- KNOWN DEFECT (F-KEEPSP-INDENT): with `keepSpace` (DisableTrimWhiteSpace) blanks are not
    trimmed, the blank indentation comes back as `#text` entries, and the indented round trip is
    not a fixed point: `<a><b>x</b></a>` decodes to `{"a": {"b": "x"}}`, its indented form
    `<a>␤  <b>x</b>␤</a>` to `{"a": {"b": "x", "#text": "  "}}` -/
example : newMapXml { keepSpace := true } indentS0
      (flatten (.elem [] "a".toList [] [.elem [] "b".toList [] [.text "x".toList]])) .eof
    = .ok (.map [("a".toList, .map [("b".toList, .str "x".toList)])]) := by rfl
example : newMapXml { keepSpace := true } indentS0
      (docToksI [] "  ".toList (.elem [] "a".toList [] [.elem [] "b".toList [] [.text "x".toList]])) .eof
    = .ok (.map [("a".toList, .map [("b".toList, .str "x".toList), ("#text".toList, .str "  ".toList)])]) := by
  rfl
/-- … while a TAB indent is harmless even then (tabs are always trimmed: the general form
    `C02_indent_same_decode_trim` applies) -/
example : inTrim { keepSpace := true } "\t".toList := by
  intro c hc
  have : c = '\t' := by simpa using hc
  subst this; decide

/-- `Regular` is needed, (a): an EMPTY LIST is written `<z` padding `/>` — the padding goes
    INSIDE the tag — one level deeper than its siblings' padding would suggest, and directly
    below the root without the newline; the tree (`<z/>`, like `nil` or `""`) cannot tell -/
example : mapXmlIndent {} [] "  ".toList
      [("r".toList, .map [("m".toList, .map [("y".toList, .str "1".toList), ("z".toList, .list [])]),
                          ("z".toList, .list [])])] none
    = .ok "<r>\n  <m>\n    <y>1</y>\n    <z  />\n  </m>\n  <z/></r>".toList := by rfl
example : (encTree {} "r".toList (Val.map [("m".toList, .map [("y".toList, .str "1".toList),
      ("z".toList, .list [])]), ("z".toList, .list [])]).norm).map
        (fun ns => ns.flatMap (renderI {} "  ".toList 0 []))
    = .ok "<r>\n  <m>\n    <y>1</y>\n    <z/>\n  </m>\n  <z/>\n</r>".toList := by rfl
/-- … with a prefix that is not white space the element NAME changes (`<zxx/>`) -/
example : mapXmlIndent {} "xx".toList "  ".toList
      [("r".toList, .map [("m".toList, .map [("z".toList, .list [])])])] none
    = .ok "xx<r>\nxx  <m>\nxx    <zxx  />\nxx  </m>\nxx</r>".toList := by rfl

/-- `Regular` is needed, (b): the members of a LIST INSIDE A LIST are indented twice; the tree
    has them as plain siblings -/
example : mapXmlIndent {} [] "  ".toList
      [("r".toList, .map [("a".toList, .list [.list [.str "p".toList, .str "q".toList], .str "s".toList])])]
      none
    = .ok "<r>\n    <a>p</a>\n    <a>q</a>\n  <a>s</a>\n</r>".toList := by rfl
example : (encTree {} "r".toList (Val.map [("a".toList,
      .list [.list [.str "p".toList, .str "q".toList], .str "s".toList])]).norm).map
        (fun ns => ns.flatMap (renderI {} "  ".toList 0 []))
    = .ok "<r>\n  <a>p</a>\n  <a>q</a>\n  <a>s</a>\n</r>".toList := by rfl

/-- `Regular` is needed, (c): with TWO text-key entries (impossible for a Go map; possible for
    the association-list model) the element is not "simple" for the Go code although its tree
    is text-only -/
example : mapXmlIndent {} [] "  ".toList
      [("r".toList, .map [("#text".toList, .str "t".toList), ("#text".toList, .str "u".toList)])] none
    = .ok "<r>u\n</r>".toList := by rfl
example : (encTree {} "r".toList (Val.map [("#text".toList, .str "t".toList),
      ("#text".toList, .str "u".toList)]).norm).map (fun ns => ns.flatMap (renderI {} "  ".toList 0 []))
    = .ok "<r>u</r>".toList := by rfl

/-- `Plain` is needed exactly as for the compact encoder: a number text that would need escaping
    is written raw -/
example : mapXmlIndent { escape := true } [] "  ".toList [("a".toList, .num "f:1<2".toList)] none
    = .ok "<a>1<2</a>".toList := by rfl
example : (encTree { escape := true } "a".toList (Val.num "f:1<2".toList)).map
        (fun ns => ns.flatMap (renderI { escape := true } "  ".toList 0 []))
    = .ok "<a>1&lt;2</a>".toList := by rfl

/-- failure: an attribute whose value is a list — the indented and the compact encoder agree -/
example : mapXmlIndent {} [] "  ".toList
      [("r".toList, .map [("-k".toList, .list [.str "bad".toList])])] none = .error .other := by rfl
example : marshal {} "r".toList (.map [("-k".toList, .list [.str "bad".toList])]) = .error .other := by
  rfl

end Mxj.C02
