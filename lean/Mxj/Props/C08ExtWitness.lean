/-
  Mxj.Props.C08ExtWitness — why `hasSubKeys` cannot look at the SIZE of the node.

  Three independently seeded changes (S3-C08, S10-C10, S12-C08) added the "optimisation"
  `if len(node) < len(subkeys) { return false }`.  It is unsound because a negated condition on an
  absent key (`!k:*`) holds without an entry of its own: a node can satisfy more conditions than it
  has entries.  The statements below say so for the model `hasSubKeys` (tied to the Go function by
  the C08 correspondence, hook `VerifHasSubKeys`).
-/
import Mxj.Model.Path
import Mxj.Model.Denote
import Mxj.Model.KeySpec
namespace Mxj.C08
open Mxj

/-- the condition `!k:*` holds of every map that has no entry `k` — in particular of the empty map -/
theorem C08_negated_absent_holds (mv : Entries) (k : Str) (h : lookup k mv = none) :
    subCond mv ('!' :: k) (.str ['*']) = true := by
  simp [subCond, hasPrefix, h]

/-- so any number of such conditions holds of a node that lacks all the keys, however few entries
    the node has: no bound of the form "a node with fewer entries than conditions cannot match" -/
theorem C08_no_size_bound (mv : Entries) (ks : List Str) (h : ∀ k ∈ ks, lookup k mv = none) :
    hasSubKeys (.map mv) (ks.map fun k => ('!' :: k, SubVal.str ['*'])) = true := by
  unfold hasSubKeys
  split
  · rfl
  · simp only [List.all_eq_true, List.mem_map]
    rintro ⟨k', sv⟩ ⟨k, hk, heq⟩
    cases heq
    exact C08_negated_absent_holds mv k (h k hk)

/-- the witness of the seeded demonstrations: `{"id":"a"}` satisfies `id:a` AND `!skip:*` - two
    conditions, one entry -/
theorem C08_size_early_out_unsound :
    hasSubKeys (.map [("id".toList, .str "a".toList)])
      [("id".toList, .str "a".toList), ("!skip".toList, .str "*".toList)] = true := by decide

/-- … and the empty node satisfies a negated-absent condition -/
theorem C08_empty_node_matches : hasSubKeys (.map []) [("!k".toList, .str "*".toList)] = true := by
  decide

/-! ### the recorded finding F-NESTED-LIST as a theorem

`C08_paths_values` (values through the paths ~ ValuesForKey) carries the hypothesis
`Denote.noListInList m`.  It is needed: on a list directly inside a list the key walker descends,
the path walker does not (one-level "a list stands for its members"), so the value found by
`ValuesForKey` is not reachable through the path `PathsForKey` reports.  The same Map is the
reproducer of the `finding:` line in known_findings.txt and is replayed on the implementation by
the C08 consistency oracle (signature `pfk:consistency:list-in-list`). -/

/-- `{"a":[[{"k":1}]]}` : a list directly inside a list -/
def nestedSample : Val := .map [(['a'], .list [.list [.map [(['k'], .num ['1'])]]])]

example : Denote.noListInList nestedSample = false := by decide
example : nestedSample.wf = true ∧ KeySpec.pathSafe nestedSample = true
    ∧ KeySpec.keySafe ['k'] = true := by decide

/-- every other hypothesis of `C08_paths_values` holds of `nestedSample`, `ValuesForKey("k")`
    returns `[1]`, `PathsForKey("k")` returns `["a.k"]`, and `ValuesForPath("a.k")` returns nothing -/
theorem C08_list_in_list_witness :
    hasKey ['k'] [] nestedSample = [.num ['1']]
    ∧ pathsForKey nestedSample ['k'] = [['a', '.', 'k']]
    ∧ (pathsForKey nestedSample ['k']).flatMap (fun p => oldValues none nestedSample p) = [] := by
  refine ⟨by decide, by decide, ?_⟩
  have hp : pathsForKey nestedSample ['k'] = [['a', '.', 'k']] := by decide
  have hk : pathKeys ['a', '.', 'k'] = [['a'], ['k']] := by decide
  rw [hp]
  simp [oldValues, hk, nestedSample, walk, lookup]

/-- hence the conclusion of `C08_paths_values` fails there: the hypothesis cannot be dropped -/
theorem C08_paths_values_needs_no_list_in_list :
    ¬ List.Perm ((pathsForKey nestedSample ['k']).flatMap fun p => oldValues none nestedSample p)
        (hasKey ['k'] [] nestedSample) := by
  rw [C08_list_in_list_witness.2.2, C08_list_in_list_witness.1]
  intro h
  exact absurd h.length_eq (by decide)

end Mxj.C08
