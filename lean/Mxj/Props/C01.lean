/-
  Mxj.Props.C01 — NewMapXml: decoding a well-formed XML document yields exactly the Map the
  documented conventions prescribe: one root key; each attribute under prefix+name; each child
  element under its local name; repeated sibling names collected into one list in document
  order; a text-only element as its (trimmed) string; text beside attributes or children under
  the text key; an empty element as the empty string — under every combination of decoder
  options.  Domain: at most one non-blank text run per element (`Conv.inDomain`).
  Property theorems and non-vacuity examples only; helper lemmas live in Mxj.Lemmas.Decode
  (namespace `Mxj.Dec`).

  Model: Mxj.Model.Decode (`parseElem`, `decodeTop`, `newMapXml`: the streaming decoder, fuel
  indexed).  Specification: Mxj.Model.Conv (`Conv.value`, `Conv.doc`, `Conv.inDomain`); the
  tree-recursive `Fold.value`/`Fold.doc` is the bridge between the two.

  Structure of the argument:
    token stream  --C01_stream_refines_tree / C01_newMapXml_tree-->  Fold.doc   (every tree,
                                                                     every configuration)
    Fold.value    --C01_fold_is_convention-->  Conv.value            (on the domain, up to the
                                                                     order of map entries)
-/
import Mxj.Lemmas.Decode
namespace Mxj.C01
open Mxj Mxj.Dec

/-! ### the streaming parser computes the tree fold -/

/-- fuel monotonicity of the element loop: a successful run stays the same with more fuel -/
theorem C01_parseElem_fuel_mono (cfg : DecCfg) (S : Strconv) (fin : StreamEnd) {f g : Nat}
    (hfg : f ≤ g) (skey : Str) (na : Entries) (n : Option Val) (seq : Nat) (pend : Option Str)
    (toks : List Tok) (r : Val × List Tok)
    (h : parseElem cfg S fin f skey na n seq pend toks = .ok r) :
    parseElem cfg S fin g skey na n seq pend toks = .ok r :=
  parseElem_mono_le cfg S fin hfg h

/-- fuel monotonicity of the first call -/
theorem C01_decodeTop_fuel_mono (cfg : DecCfg) (S : Strconv) (fin : StreamEnd) {f g : Nat}
    (hfg : f ≤ g) (toks : List Tok) (r : Val × List Tok)
    (h : decodeTop cfg S fin f toks = .ok r) : decodeTop cfg S fin g toks = .ok r :=
  decodeTop_mono_le cfg S fin hfg h

/-- token-stream recursion = tree recursion, for every tree, every configuration, every
    continuation `rest` -/
theorem C01_stream_refines_tree (cfg : DecCfg) (S : Strconv) (fin : StreamEnd)
    (sp name : Str) (attrs : List Attr) (kids : List Node) (rest : List Tok) :
    ∃ f0, ∀ f, f0 ≤ f →
      decodeTop cfg S fin f (flatten (.elem sp name attrs kids) ++ rest)
        = .ok (Fold.doc cfg S (.elem sp name attrs kids), rest) :=
  ⟨(flattenKids kids).length + 2, fun f hf => decodeTop_tree cfg S fin sp name attrs kids rest f hf⟩

/-- the same with the explicit fuel bound: the number of tokens of the element is enough -/
theorem C01_stream_refines_tree_bound (cfg : DecCfg) (S : Strconv) (fin : StreamEnd)
    (sp name : Str) (attrs : List Attr) (kids : List Node) (rest : List Tok) (f : Nat)
    (hf : (flatten (.elem sp name attrs kids)).length ≤ f) :
    decodeTop cfg S fin f (flatten (.elem sp name attrs kids) ++ rest)
      = .ok (Fold.doc cfg S (.elem sp name attrs kids), rest) :=
  decodeTop_tree cfg S fin sp name attrs kids rest f (by rw [length_flatten_elem] at hf; exact hf)

/-- with the default fuel of `newMapXml` (token count + 1) and any prolog of non-start tokens
    (BOM text, comments, PIs, directives) and any trailing tokens -/
theorem C01_newMapXml_tree (cfg : DecCfg) (S : Strconv) (fin : StreamEnd) (pre post : List Tok)
    (hpre : ∀ t ∈ pre, ¬ isStart t) (sp name : Str) (attrs : List Attr) (kids : List Node) :
    newMapXml cfg S (pre ++ flatten (.elem sp name attrs kids) ++ post) fin
      = .ok (Fold.doc cfg S (.elem sp name attrs kids)) :=
  newMapXml_tree cfg S fin pre post hpre sp name attrs kids

/-! ### the fold is the convention -/

/-- the imperative insert/promote fold IS the declarative convention (group-by in
    first-occurrence order, text placement) on the domain, up to the order of map entries -/
theorem C01_fold_is_convention (cfg : DecCfg) (S : Strconv) (t : Node)
    (hd : Conv.inDomain cfg S t = true) (hn : noAdjText t = true) :
    Fold.value cfg S t ≈ᵥ Conv.value cfg S t :=
  fold_equiv_conv cfg S t hd hn

/-- the grouping part holds key by key without any domain restriction: what the declarative
    grouping stores under a key is what folding `addChild` over the children stores there -/
theorem C01_group_is_fold (cfg : DecCfg) (S : Strconv) (base : Entries) (kids : List Node) (k : Str) :
    lookup k (Conv.groupOnto base (Conv.childVals cfg S 0 kids))
      = lookup k ((Conv.childVals cfg S 0 kids).foldl (fun b c => addChild b c.1 c.2) base) :=
  lookup_groupOnto_eq_addAll base _ (childVals_not_list cfg S kids 0) k

/-- headline: decoding the token stream of any in-domain tree yields the conventions' Map -/
theorem C01_decode_conventions (cfg : DecCfg) (S : Strconv) (fin : StreamEnd) (pre post : List Tok)
    (hpre : ∀ t ∈ pre, ¬ isStart t) (sp name : Str) (attrs : List Attr) (kids : List Node)
    (hd : Conv.inDomain cfg S (.elem sp name attrs kids) = true)
    (hn : noAdjText (.elem sp name attrs kids) = true) :
    ∃ v, newMapXml cfg S (pre ++ flatten (.elem sp name attrs kids) ++ post) fin = .ok v
      ∧ v ≈ᵥ Conv.doc cfg S (.elem sp name attrs kids) :=
  ⟨_, newMapXml_tree cfg S fin pre post hpre sp name attrs kids,
    doc_equiv cfg S _ (fold_equiv_conv cfg S _ hd hn)⟩

/-- headline, root key made explicit: the result is a Map with exactly one key, the root
    element's key, holding the conventions' value of the root element -/
theorem C01_decode_one_root (cfg : DecCfg) (S : Strconv) (fin : StreamEnd) (pre post : List Tok)
    (hpre : ∀ t ∈ pre, ¬ isStart t) (sp name : Str) (attrs : List Attr) (kids : List Node)
    (hd : Conv.inDomain cfg S (.elem sp name attrs kids) = true)
    (hn : noAdjText (.elem sp name attrs kids) = true) :
    ∃ x, newMapXml cfg S (pre ++ flatten (.elem sp name attrs kids) ++ post) fin
          = .ok (.map [(elemKey cfg S name, x)])
      ∧ x ≈ᵥ Conv.value cfg S (.elem sp name attrs kids) :=
  ⟨_, newMapXml_tree cfg S fin pre post hpre sp name attrs kids, fold_equiv_conv cfg S _ hd hn⟩

/-! ### what the conventions say, option by option (corollaries on `Conv.value`) -/

/-- one root key: the root element's key -/
theorem C01_root_key (cfg : DecCfg) (S : Strconv) (sp name : Str) (attrs : List Attr)
    (kids : List Node) :
    Conv.doc cfg S (.elem sp name attrs kids)
      = .map [(elemKey cfg S name, Conv.value cfg S (.elem sp name attrs kids))] := rfl

/-- element keys: lower-case first (if on), then snake-case (if on) -/
theorem C01_elemKey (cfg : DecCfg) (S : Strconv) (name : Str) :
    elemKey cfg S name
      = (if cfg.snake then snakeCase else id) (if cfg.lowerCase then S.lower name else name) := by
  unfold elemKey; cases cfg.snake <;> rfl

/-- attribute keys: snake-case the local name (if on), lower-case it (if on), behind the prefix
    exactly as set -/
theorem C01_attrKey (cfg : DecCfg) (S : Strconv) (name : Str) :
    attrKey cfg S name
      = cfg.attrPrefix ++ (if cfg.lowerCase then S.lower else id)
          (if cfg.snake then snakeCase name else name) := by
  unfold attrKey; cases cfg.lowerCase <;> rfl

/-- the keys the attributes occupy are exactly the `attrKey`s of the attributes -/
theorem C01_attr_keys (cfg : DecCfg) (S : Strconv) (attrs : List Attr) (k : Str) :
    k ∈ keys (loadAttrs cfg S attrs) ↔ ∃ a ∈ attrs, k = attrKey cfg S a.name :=
  mem_keys_loadAttrs cfg S attrs k

/-- one attribute: its (cast, optionally escaped) value under its key -/
theorem C01_attr_single (cfg : DecCfg) (S : Strconv) (a : Attr) :
    loadAttrs cfg S [a]
      = [(attrKey cfg S a.name,
          cast S cfg.cast (escDecIf cfg a.value) (attrKey cfg S a.name))] := rfl

/-- the keys the child elements occupy: the element keys of the element children, in document
    order (comments, PIs, directives and text contribute none) -/
theorem C01_child_keys (cfg : DecCfg) (S : Strconv) (kids : List Node) :
    keys (Conv.childVals cfg S 0 kids) = (elemNames kids).map (elemKey cfg S) :=
  childVals_keys cfg S kids 0

/-- repeated sibling names are collected into one list in document order: what is stored
    under a key is `collect` of the attribute already there and the children's values -/
theorem C01_group_lookup (base : Entries) (cs : List (Str × Val)) (k : Str) :
    lookup k (Conv.groupOnto base cs)
      = if k ∈ keys cs then Conv.collect (lookup k base) (valsOf k cs) else lookup k base :=
  lookup_groupOnto base cs k

/-- one value stays itself, several become a list (no attribute under the key) -/
theorem C01_collect_one (v : Val) : Conv.collect none [v] = some v := rfl
theorem C01_collect_many (v w : Val) (vs : List Val) :
    Conv.collect none (v :: w :: vs) = some (.list (v :: w :: vs)) := rfl

/-- an empty element is the empty string -/
theorem C01_empty_element (cfg : DecCfg) (S : Strconv) (sp name : Str) :
    Conv.value cfg S (.elem sp name [] []) = .str [] := rfl

/-- an element with attributes only is the Map of its attributes -/
theorem C01_attrs_only (cfg : DecCfg) (S : Strconv) (sp name : Str) (attrs : List Attr) :
    Conv.value cfg S (.elem sp name attrs [])
      = if (loadAttrs cfg S attrs).isEmpty then .str [] else .map (loadAttrs cfg S attrs) := by
  simp [Conv.value, Conv.childVals, Conv.groupOnto, Conv.textRuns]

/-- a text-only element is its trimmed (cast) string -/
theorem C01_text_only (cfg : DecCfg) (S : Strconv) (sp name s : Str)
    (hm : cfg.asMap = false) (hs : (Conv.textOf cfg s).isEmpty = false) :
    Conv.value cfg S (.elem sp name [] [.text s])
      = cast S cfg.cast (Conv.textOf cfg s) (elemKey cfg S name) := by
  simp [Conv.value, Conv.childVals, Conv.groupOnto, Conv.textRuns, loadAttrs, hm, hs]

/-- with `asMap` a text-only element is `{textK: …}` -/
theorem C01_text_only_asMap (cfg : DecCfg) (S : Strconv) (sp name s : Str)
    (hm : cfg.asMap = true) (hs : (Conv.textOf cfg s).isEmpty = false) :
    Conv.value cfg S (.elem sp name [] [.text s])
      = .map [(cfg.textK, cast S cfg.cast (Conv.textOf cfg s) cfg.textK)] := by
  simp [Conv.value, Conv.childVals, Conv.groupOnto, Conv.textRuns, loadAttrs, hm, hs, insert]

/-- a blank text run changes nothing: the element is the empty string -/
theorem C01_blank_text (cfg : DecCfg) (S : Strconv) (sp name s : Str)
    (hs : (Conv.textOf cfg s).isEmpty = true) :
    Conv.value cfg S (.elem sp name [] [.text s]) = .str [] := by
  simp [Conv.value, Conv.childVals, Conv.groupOnto, Conv.textRuns, loadAttrs, hs]

/-- text beside an attribute goes under the text key -/
theorem C01_text_beside_attr (cfg : DecCfg) (S : Strconv) (sp name s : Str) (a : Attr)
    (hs : (Conv.textOf cfg s).isEmpty = false) :
    Conv.value cfg S (.elem sp name [a] [.text s])
      = .map (insert cfg.textK (cast S cfg.cast (Conv.textOf cfg s) cfg.textK)
                (loadAttrs cfg S [a])) := by
  simp [Conv.value, Conv.childVals, Conv.groupOnto, Conv.textRuns, loadAttrs, hs, insert]

/-- the characters trimmed from a text run: white space, except the blank under `keepSpace` -/
theorem C01_trimSet (cfg : DecCfg) :
    trimSet cfg = if cfg.keepSpace then ['\t', '\r', '\x08', '\n']
                  else ['\t', '\r', '\x08', '\n', ' '] := rfl

/-- with `keepSpace` blanks are not trimmed: a run without tab, CR, BS, LF is kept whole -/
theorem C01_keepSpace (cfg : DecCfg) (s : Str) (hk : cfg.keepSpace = true)
    (hs : ∀ c ∈ s, c ≠ '\t' ∧ c ≠ '\r' ∧ c ≠ '\x08' ∧ c ≠ '\n') :
    Conv.textOf cfg s = escDecIf cfg s := by
  unfold Conv.textOf
  rw [trimChars_eq_self]
  intro c hc
  have := hs c hc
  simp [trimSet, hk, this]

/-- with `escDec` text values are `escapeChars`-ed (after trimming) -/
theorem C01_escDec_text (cfg : DecCfg) (s : Str) (he : cfg.escDec = true) :
    Conv.textOf cfg s = escapeChars (trimChars (trimSet cfg) s) := by
  simp [Conv.textOf, escDecIf, he]

/-- with `escDec` attribute values are `escapeChars`-ed -/
theorem C01_escDec_attr (cfg : DecCfg) (S : Strconv) (a : Attr) (he : cfg.escDec = true) :
    loadAttrs cfg S [a]
      = [(attrKey cfg S a.name, cast S cfg.cast (escapeChars a.value) (attrKey cfg S a.name))] := by
  simp [loadAttrs, escDecIf, he, insert]

/-- with `seqNum` every element child carries `_seq` = its index among the element children -/
theorem C01_seqNum (cfg : DecCfg) (S : Strconv) (hs : cfg.seqNum = true) (kids : List Node)
    (i : Nat) (c : Str × Val) (h : (Conv.childVals cfg S 0 kids)[i]? = some c) :
    ∃ kvs, c.2 = .map kvs
      ∧ lookup "_seq".toList kvs = some (.num ("i:".toList ++ natToStr i)) := by
  have := childVals_seq_index cfg S hs kids 0 i c h
  simpa using this

/-- without `seqNum` child values are the conventions' values, undecorated -/
theorem C01_no_seqNum (cfg : DecCfg) (seq : Nat) (v : Val) (hs : cfg.seqNum = false) :
    seqDecorate cfg seq v = (v, seq) := by
  simp [seqDecorate, hs]

/-! ### non-vacuity -/

/-- `<r id="1"><a x="1">t1</a>␤<b><c>deep</c></b><!--note--><a/> hello </r>` is in the domain -/
example : Conv.inDomain {} S0 sampleTree = true := by decide
example : noAdjText sampleTree = true := by decide

/-- its decoded value: `{"r": {"-id":"1", "a":[{"-x":"1","#text":"t1"}, ""], "b":{"c":"deep"},
    "#text":"hello"}}` -/
example :
    newMapXml {} S0 (Tok.procinst "xml".toList [] :: flatten sampleTree ++ [Tok.text "\n".toList]) .eof
      = .ok (.map [("r".toList, .map [
          ("-id".toList, .str "1".toList),
          ("a".toList, .list [.map [("-x".toList, .str "1".toList), ("#text".toList, .str "t1".toList)],
                              .str []]),
          ("b".toList, .map [("c".toList, .str "deep".toList)]),
          ("#text".toList, .str "hello".toList)])]) := by rfl

example : Conv.doc {} S0 sampleTree
      = .map [("r".toList, .map [
          ("-id".toList, .str "1".toList),
          ("a".toList, .list [.map [("-x".toList, .str "1".toList), ("#text".toList, .str "t1".toList)],
                              .str []]),
          ("b".toList, .map [("c".toList, .str "deep".toList)]),
          ("#text".toList, .str "hello".toList)])] := by decide

/-- the same tree under other options is in the domain too (numbering, as-map, empty attribute
    prefix: attribute and child keys then share one key space) -/
example : Conv.inDomain { seqNum := true, asMap := true, attrPrefix := [] } S0 sampleTree = true := by
  decide

/-- text before the children: the fold stores the text key in the middle, the convention at
    the end — equal only up to the order of entries (this is why the theorem is stated with `≈ᵥ`) -/
example : Conv.inDomain {} S0 sampleTreeTextFirst = true ∧ noAdjText sampleTreeTextFirst = true := by
  decide
example : Fold.value {} S0 sampleTreeTextFirst ≠ Conv.value {} S0 sampleTreeTextFirst := by decide
example : Fold.value {} S0 sampleTreeTextFirst ≈ᵥ Conv.value {} S0 sampleTreeTextFirst := by decide

/-- the domain restrictions are needed: with two non-blank text runs (`<r k="1">x<a/>y</r>`)
    the decoder keeps the last run, the convention names the first -/
example : Conv.inDomain {} S0 twoRunsTree = false := by decide
example : ¬ (Fold.value {} S0 twoRunsTree ≈ᵥ Conv.value {} S0 twoRunsTree) := by decide

/-- … and with a child element whose key is the text key the decoder promotes the text to a
    list -/
example : Conv.inDomain {} S0 textKeyChildTree = false := by decide
example : ¬ (Fold.value {} S0 textKeyChildTree ≈ᵥ Conv.value {} S0 textKeyChildTree) := by decide

end Mxj.C01
