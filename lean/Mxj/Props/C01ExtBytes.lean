/-
  Mxj.Props.C01ExtBytes — property C01 at BYTE level: for documents written with varied surface
  syntax, tokenizing the bytes with the tokenizer model (`Mxj.Tokz.tokenize`, compared with
  `encoding/xml` by the harness op `xtok`) and decoding with `newMapXml` yields the Map the
  documented conventions prescribe.

  Surface grammar (`Model/Surface.lean`, `Surf.SNode` / `renderS` / `toNode`): every text node is
  written either as a run of raw character data — any mixture of literal characters (quote
  characters included), predefined entities and decimal / hexadecimal numeric character
  references that `unesc` expands to the value — or as a CDATA section; every attribute value in
  EITHER QUOTE STYLE, raw in the same sense, with optional white space before the name and
  around `=`; optional white space before the `>` / `/>` of start tags and the `>` of end tags;
  an element without children as `<a/>` or as `<a></a>`; comments between nodes.

    * `C01_bytes_tokenize`            tokenize (renderS n) = some (flatten (toNode n))
    * `C01_bytes_tokenize_cont`       … followed by ANY tokenizable rest (no read beyond the node)
    * `C01_bytes_tokenize_doc`        prolog bytes ++ document ++ trailer bytes
    * `C01_bytes_start_tag`, `C01_bytes_attr_either_quote`, `C01_bytes_end_tag_space`,
      `C01_bytes_cdata_token`, `C01_bytes_comment_token`     the one-step facts
    * `C01_bytes_stream_refines_tree` bytes → tokens → `decodeTop` = the tree fold
    * `C01_bytes_newMapXml_tree`      bytes → `newMapXml` = `Fold.doc`, every configuration
    * `C01_bytes_decode_conventions`  HEADLINE: on C01's domain the conventions' Map
    * `C01_bytes_decode_one_root`     … with the root key explicit
    * `C01_bytes_surface_irrelevant`  two ways of writing the same source tree: same Map
    * `C01_bytes_cdata_same_as_text`  a text node written as CDATA or as escaped text: same Map

    * `C01_bytes_run_split_irrelevant`  the decoder's fold does not depend on how a run of
                                      character data is split into adjacent text nodes
                                      (`Fold.value (mergeN t) = Fold.value t`, every tree, every cfg)
    * `C01_bytes_merged_no_adjacent`  `noAdjText (mergeN t)` for every tree
    * `C01_bytes_decode_conventions_mixed`  HEADLINE for MIXED runs: text nodes written as any
                                      sequence of raw runs and CDATA sections (no two raw runs side by
                                      side); the Map is the conventions' Map of the source tree with each
                                      run concatenated (`mergeN (toNode n)`); only `Conv.inDomain` of
                                      that tree is asked for

  A CDATA section directly beside raw text (or another CDATA section) is tokenized piece by piece
  (`toNode` then has adjacent text nodes, one per piece, exactly the CharData tokens
  `encoding/xml` delivers); `C01_bytes_decode_conventions` needs `noAdjText` as
  `C01_decode_conventions` does; `C01_bytes_decode_conventions_mixed` lifts this by the
  split-insensitivity lemma (`Lemmas/SurfaceSplit.lean`; the decoder concatenates consecutive
  CharData: F-CDATA-SPLIT).  MISSING (named honestly): processing instructions between nodes of
  the surface tree (in prolog and trailer they are covered: `pre` / `post` are arbitrary
  tokenizable bytes); name-space prefixes (`toNode` yields empty name spaces, as C02's
  `WellNamed`); `\r` (the tokenizer rewrites it); a literal `>` in raw text or values (write
  `&gt;` or CDATA).
-/
import Mxj.Lemmas.Surface
import Mxj.Lemmas.SurfaceSplit
import Mxj.Props.C01
namespace Mxj.C01
open Mxj Mxj.Dec Mxj.Tokz Mxj.Surf

/-- tokenizing the surface rendering of a well-formed surface tree gives the token stream of the
    source tree it denotes: one CharData token per raw run and per CDATA section -/
theorem C01_bytes_tokenize (n : SNode) (hok : surfOk n = true) :
    tokenize (renderS n) = some (flatten (toNode n)) :=
  tokenize_renderS n hok

/-- … followed by any tokenizable `rest` (beginning with `<`, or empty, if `n` is a raw run): the
    tokens of `n`, then those of `rest` -/
theorem C01_bytes_tokenize_cont (n : SNode) (hok : surfOk n = true) (rest : Str) (us : List Tok)
    (hr : tokenize rest = some us) (hj : isRaw n = true → startsLt rest = true) :
    tokenize (renderS n ++ rest) = some (flatten (toNode n) ++ us) :=
  tok_node n hok rest us hr hj

/-- a CDATA section is one CharData token holding the content verbatim -/
theorem C01_bytes_cdata_token (s rest : Str) (hc : hasCDEnd s = false) (hx : xmlCharsOk s = true) :
    step (cdOpen ++ (s ++ (cdClose ++ rest))) = some ([Tok.text s], rest) :=
  step_cdata s rest hc hx

/-- white space before the `>` of an end tag is skipped -/
theorem C01_bytes_end_tag_space (name ws rest : Str) (hn : xmlNameOk name = true)
    (hw : allSp ws = true) :
    step ('<' :: '/' :: (name ++ (ws ++ '>' :: rest))) = some ([Tok.stop [] name], rest) :=
  step_stop_ws name ws rest hn hw

/-- a comment is one Comment token (which the decoder skips) -/
theorem C01_bytes_comment_token (s rest : Str) (hc : cmtOk s = true) :
    step ('<' :: '!' :: '-' :: '-' :: (s ++ ('-' :: '-' :: '>' :: rest)))
      = some ([Tok.comment s], rest) :=
  step_comment s rest hc

/-- one attribute, either quote style, white space around `=`: name and expanded value -/
theorem C01_bytes_attr_either_quote (name raw val : Str) (single : Bool) (w2 w3 tl : Str)
    (hn : xmlNameOk name = true) (hw2 : allSp w2 = true) (hw3 : allSp w3 = true)
    (hr : rawOk (quoteOf single) raw = true) (hu : unesc raw = some val)
    (hv : xmlCharsOk val = true) :
    lexAttr (name ++ (w2 ++ ('=' :: (w3 ++ (quoteOf single :: (raw ++ (quoteOf single :: tl)))))))
      = some (⟨[], name, val⟩, tl) :=
  lexAttr_surf name raw val single w2 w3 tl hn hw2 hw3 hr hu hv

/-- a start tag / an empty-element tag with any number of surface attributes and white space
    before its end: one StartElement (and EndElement) with the expanded attribute values -/
theorem C01_bytes_start_tag (name : Str) (as : List SAttr) (wt : Str) (e : Bool) (rest : Str)
    (hn : xmlNameOk name = true) (has : as.all sattrOk = true) (hwt : allSp wt = true) :
    step ('<' :: (name ++ (renderSAttrs as ++ (wt ++ (tagEnd e ++ rest)))))
      = some (if e then [Tok.start [] name (valsOf as), Tok.stop [] name]
              else [Tok.start [] name (valsOf as)], rest) :=
  step_start_surf name as wt e rest hn has hwt

/-- a whole document: any tokenizable prolog `pre` (XML declaration, comments, white space, BOM
    text …), the root element, any tokenizable trailer `post` -/
theorem C01_bytes_tokenize_doc (pre post : Str) (ps qs : List Tok)
    (hpre : tokenize pre = some ps) (hpost : tokenize post = some qs)
    (n : SNode) (hroot : isElemS n = true) (hok : surfOk n = true) :
    tokenize (pre ++ renderS n ++ post) = some (ps ++ flatten (toNode n) ++ qs) := by
  have hraw : isRaw n = false := by cases n <;> simp_all [isElemS, isRaw]
  have h1 := tok_node n hok post qs hpost (by simp [hraw])
  have h2 := tokenize_append pre (renderS n ++ post) ps _ hpre h1
    (by simp [junctionOk, startsLt_elemS n post hroot])
  simpa [List.append_assoc] using h2

/-- bytes → tokens → the first decoder call = the tree fold, for every configuration and every
    tokenizable continuation -/
theorem C01_bytes_stream_refines_tree (cfg : DecCfg) (S : Strconv) (fin : StreamEnd)
    (n : SNode) (hroot : isElemS n = true) (hok : surfOk n = true)
    (rest : Str) (us : List Tok) (hr : tokenize rest = some us) :
    ∃ ts, tokenize (renderS n ++ rest) = some ts ∧
      ∃ f0, ∀ f, f0 ≤ f → decodeTop cfg S fin f ts = .ok (Fold.doc cfg S (toNode n), us) := by
  have hraw : isRaw n = false := by cases n <;> simp_all [isElemS, isRaw]
  refine ⟨_, tok_node n hok rest us hr (by simp [hraw]), ?_⟩
  obtain ⟨name, vals, kids, he⟩ := toNode_elemS n hroot
  rw [he]
  exact C01_stream_refines_tree cfg S fin [] name vals kids us

/-- bytes → `newMapXml` = `Fold.doc` of the source tree: every surface tree, every configuration -/
theorem C01_bytes_newMapXml_tree (cfg : DecCfg) (S : Strconv) (fin : StreamEnd)
    (pre post : Str) (ps qs : List Tok)
    (hpre : tokenize pre = some ps) (hpost : tokenize post = some qs)
    (hps : ∀ t ∈ ps, ¬ isStart t)
    (n : SNode) (hroot : isElemS n = true) (hok : surfOk n = true) :
    ∃ ts, tokenize (pre ++ renderS n ++ post) = some ts
      ∧ newMapXml cfg S ts fin = .ok (Fold.doc cfg S (toNode n)) := by
  refine ⟨_, C01_bytes_tokenize_doc pre post ps qs hpre hpost n hroot hok, ?_⟩
  obtain ⟨name, vals, kids, he⟩ := toNode_elemS n hroot
  rw [he]
  exact C01_newMapXml_tree cfg S fin ps qs hps [] name vals kids

/-- HEADLINE: for every in-domain source tree and every way of writing it that the surface
    grammar offers, decoding the BYTES (tokenize, then `newMapXml`) yields the Map the
    conventions prescribe — under every combination of decoder options -/
theorem C01_bytes_decode_conventions (cfg : DecCfg) (S : Strconv) (fin : StreamEnd)
    (pre post : Str) (ps qs : List Tok)
    (hpre : tokenize pre = some ps) (hpost : tokenize post = some qs)
    (hps : ∀ t ∈ ps, ¬ isStart t)
    (n : SNode) (hroot : isElemS n = true) (hok : surfOk n = true)
    (hd : Conv.inDomain cfg S (toNode n) = true) (hn : noAdjText (toNode n) = true) :
    ∃ ts v, tokenize (pre ++ renderS n ++ post) = some ts
      ∧ newMapXml cfg S ts fin = .ok v
      ∧ v ≈ᵥ Conv.doc cfg S (toNode n) := by
  obtain ⟨name, vals, kids, he⟩ := toNode_elemS n hroot
  have ht := C01_bytes_tokenize_doc pre post ps qs hpre hpost n hroot hok
  rw [he] at hd hn ht ⊢
  obtain ⟨v, h1, h2⟩ := C01_decode_conventions cfg S fin ps qs hps [] name vals kids hd hn
  exact ⟨_, v, ht, h1, h2⟩

/-- … the root key explicit -/
theorem C01_bytes_decode_one_root (cfg : DecCfg) (S : Strconv) (fin : StreamEnd)
    (pre post : Str) (ps qs : List Tok)
    (hpre : tokenize pre = some ps) (hpost : tokenize post = some qs)
    (hps : ∀ t ∈ ps, ¬ isStart t)
    (name : Str) (attrs : List SAttr) (wt ws : Str) (kids : List SNode)
    (hok : surfOk (.elem name attrs wt ws kids) = true)
    (hd : Conv.inDomain cfg S (toNode (.elem name attrs wt ws kids)) = true)
    (hn : noAdjText (toNode (.elem name attrs wt ws kids)) = true) :
    ∃ ts x, tokenize (pre ++ renderS (.elem name attrs wt ws kids) ++ post) = some ts
      ∧ newMapXml cfg S ts fin = .ok (.map [(elemKey cfg S name, x)])
      ∧ x ≈ᵥ Conv.value cfg S (toNode (.elem name attrs wt ws kids)) := by
  have ht := C01_bytes_tokenize_doc pre post ps qs hpre hpost _ rfl hok
  simp only [toNode] at hd hn ht ⊢
  obtain ⟨x, h1, h2⟩ := C01_decode_one_root cfg S fin ps qs hps [] name (valsOf attrs) (toNodes kids) hd hn
  exact ⟨_, x, ht, h1, h2⟩

/-- the surface choice does not matter: two surface trees that denote the same source tree
    decode (from their bytes) to the same Map -/
theorem C01_bytes_surface_irrelevant (cfg : DecCfg) (S : Strconv) (fin : StreamEnd)
    (n m : SNode) (hn : surfOk n = true) (hm : surfOk m = true) (he : toNode n = toNode m) :
    ∃ ts us, tokenize (renderS n) = some ts ∧ tokenize (renderS m) = some us
      ∧ newMapXml cfg S ts fin = newMapXml cfg S us fin := by
  refine ⟨_, _, C01_bytes_tokenize n hn, C01_bytes_tokenize m hm, ?_⟩
  rw [he]

/-- in particular a text node written as a CDATA section or as escaped text -/
theorem C01_bytes_cdata_same_as_text (cfg : DecCfg) (S : Strconv) (fin : StreamEnd)
    (name s raw : Str) (hn : xmlNameOk name = true)
    (hs : surfOk (.cdata s) = true) (hr : surfOk (.text raw s) = true) :
    ∃ ts us, tokenize (renderS (.elem name [] [] [] [.cdata s])) = some ts
      ∧ tokenize (renderS (.elem name [] [] [] [.text raw s])) = some us
      ∧ newMapXml cfg S ts fin = newMapXml cfg S us fin := by
  have hs' := hs
  have hr' := hr
  simp [surfOk] at hs' hr'
  apply C01_bytes_surface_irrelevant cfg S fin
  · simp [surfOk, surfOkKids, hn, hs', allSp, isRaw, nextNotRaw]
  · simp [surfOk, surfOkKids, hn, hr', allSp, isRaw, nextNotRaw]
  · simp [toNode, toNodes]

/-- the decoder's fold is insensitive to how a run of character data is split into directly
    adjacent text nodes (raw pieces, CDATA sections): every tree, every configuration -/
theorem C01_bytes_run_split_irrelevant (cfg : DecCfg) (S : Strconv) (t : Node) :
    Fold.value cfg S (mergeN t) = Fold.value cfg S t :=
  value_mergeN cfg S t

/-- … one step of it: two adjacent text nodes are one text node -/
theorem C01_bytes_two_pieces_one_run (cfg : DecCfg) (S : Strconv) (sp name : Str)
    (attrs : List Attr) (a b : Str) (rest : List Node) :
    Fold.value cfg S (.elem sp name attrs (.text a :: .text b :: rest))
      = Fold.value cfg S (.elem sp name attrs (.text (a ++ b) :: rest)) := by
  simp only [Fold.value, kids'_text_text]

/-- the tree with its runs concatenated has no two adjacent text nodes -/
theorem C01_bytes_merged_no_adjacent (t : Node) : noAdjText (mergeN t) = true :=
  noAdj_mergeN t

/-- HEADLINE for mixed runs: every surface tree (text written as ANY sequence of raw runs and
    CDATA sections), every decoder configuration: if the source tree with each run concatenated
    is in C01's domain, decoding the bytes yields the conventions' Map of that tree -/
theorem C01_bytes_decode_conventions_mixed (cfg : DecCfg) (S : Strconv) (fin : StreamEnd)
    (pre post : Str) (ps qs : List Tok)
    (hpre : tokenize pre = some ps) (hpost : tokenize post = some qs)
    (hps : ∀ t ∈ ps, ¬ isStart t)
    (n : SNode) (hroot : isElemS n = true) (hok : surfOk n = true)
    (hd : Conv.inDomain cfg S (mergeN (toNode n)) = true) :
    ∃ ts v, tokenize (pre ++ renderS n ++ post) = some ts
      ∧ newMapXml cfg S ts fin = .ok v
      ∧ v ≈ᵥ Conv.doc cfg S (mergeN (toNode n)) := by
  obtain ⟨ts, h1, h2⟩ := C01_bytes_newMapXml_tree cfg S fin pre post ps qs hpre hpost hps n hroot hok
  obtain ⟨name, vals, kids, he⟩ := toNode_elemS n hroot
  refine ⟨ts, _, h1, h2, ?_⟩
  have hn := noAdj_mergeN (toNode n)
  rw [he] at hd hn ⊢
  simp only [mergeN] at hd hn ⊢
  rw [← doc_mergeN cfg S [] name vals kids]
  exact doc_equiv cfg S _ (fold_equiv_conv cfg S _ hd hn)

/-! ### non-vacuity, and witnesses that the hypotheses are needed -/

/-- `<r id = '&#49;"'␣><a␣␣x="1">t&#x31;"</a >` LF `<b><!--n - m--><c><![CDATA[d<&>p]]></c></b><a␣/> hel&#108;o &amp; </r >`:
    a single-quoted attribute value holding a `"` and a numeric reference, white space around
    `=` and inside tags, a numeric reference and a literal quote in text, a comment, a CDATA
    section with markup characters, both empty-element forms -/
def surfSample : SNode :=
  .elem "r".toList [{ name := "id".toList, raw := "&#49;\"".toList, val := "1\"".toList, single := true,
                      w2 := " ".toList, w3 := " ".toList }] " ".toList " ".toList
    [ .elem "a".toList [{ name := "x".toList, raw := "1".toList, val := "1".toList, w1 := " ".toList }] [] " ".toList
        [.text "t&#x31;\"".toList "t1\"".toList],
      .text "\n".toList "\n".toList,
      .elem "b".toList [] [] [] [.comment "n - m".toList, .elem "c".toList [] [] [] [.cdata "d<&>p".toList]],
      .empty "a".toList [] " ".toList,
      .text " hel&#108;o &amp; ".toList " hello & ".toList ]

example : renderS surfSample
    = "<r id = '&#49;\"' ><a  x=\"1\">t&#x31;\"</a >\n<b><!--n - m--><c><![CDATA[d<&>p]]></c></b><a /> hel&#108;o &amp; </r >".toList := by
  rfl
example : surfOk surfSample = true := by rfl
example : isElemS surfSample = true := rfl
example : Conv.inDomain {} S0 (toNode surfSample) = true := by decide
example : noAdjText (toNode surfSample) = true := by decide
example : tokenize ("<?xml version=\"1.0\"?>\n<!--c-->".toList)
    = some [.procinst "xml".toList "version=\"1.0\"".toList, .text "\n".toList, .comment "c".toList] := by
  decide

/-- the bytes decode to `{"r": {"-id":"1\"", "a":[{"-x":"1","#text":"t1\""}, ""], "b":{"c":"d<&>p"},
    "#text":"hello &"}}` -/
example : (tokenize (renderS surfSample)).map (fun ts => newMapXml {} S0 ts .eof)
    = some (.ok (.map [("r".toList, .map [
          ("-id".toList, .str "1\"".toList),
          ("a".toList, .list [.map [("-x".toList, .str "1".toList), ("#text".toList, .str "t1\"".toList)],
                              .str []]),
          ("b".toList, .map [("c".toList, .str "d<&>p".toList)]),
          ("#text".toList, .str "hello &".toList)])])) := by
  rw [C01_bytes_tokenize surfSample (by rfl)]
  rfl

/-- a CDATA section beside raw text: tokenized piece by piece (two CharData tokens) -/
example : surfOk (.elem "c".toList [] [] [] [.text "-".toList "-".toList, .cdata "5".toList]) = true := by
  rfl
example : tokenize "<c>-<![CDATA[5]]></c>".toList
    = some [.start [] "c".toList [], .text "-".toList, .text "5".toList, .stop [] "c".toList] :=
  C01_bytes_tokenize (.elem "c".toList [] [] [] [.text "-".toList "-".toList, .cdata "5".toList]) (by rfl)

/-- `surfOk` is needed: two raw runs side by side are ONE token … -/
example : tokenize (renderS (.elem "a".toList [] [] [] [.text "x".toList "x".toList, .text "y".toList "y".toList]))
    ≠ some (flatten (toNode (.elem "a".toList [] [] [] [.text "x".toList "x".toList, .text "y".toList "y".toList]))) := by
  decide
/-- … `]]>` inside a CDATA section ends it early … -/
example : tokenize (renderS (.elem "a".toList [] [] [] [.cdata "x]]>y".toList]))
    ≠ some (flatten (toNode (.elem "a".toList [] [] [] [.cdata "x]]>y".toList]))) := by decide
/-- … a raw value that is not what `unesc` makes of the written text is not what comes back … -/
example : tokenize (renderS (.elem "a".toList [] [] [] [.text "&#65;".toList "B".toList]))
    ≠ some (flatten (toNode (.elem "a".toList [] [] [] [.text "&#65;".toList "B".toList]))) := by decide
/-- … the quote character inside a value written in that quote style ends the value early … -/
example : tokenize (renderS (.empty "a".toList [{ name := "k".toList, raw := "x'y".toList, val := "x'y".toList, single := true }] []))
    = none := by decide
/-- … (the other style is fine) … -/
example : surfOk (.empty "a".toList [{ name := "k".toList, raw := "x'y".toList, val := "x'y".toList }] []) = true := by
  rfl
/-- … `--` inside a comment is a syntax error … -/
example : tokenize (renderS (.elem "a".toList [] [] [] [.comment "x--y".toList])) = none := by decide
/-- … and something other than white space before the `>` of an end tag is a syntax error. -/
example : tokenize (renderS (.elem "a".toList [] [] "/".toList [])) = none := by decide

/-- mixed runs: `<c k="1">-<![CDATA[5]]><![CDATA[ ]]>&#54;<a/></c>` is well-formed, its merged source
    tree `<c k="1">-5 6<a/></c>` is in the domain (the unmerged one has adjacent text nodes) -/
def mixedSample : SNode :=
  .elem "c".toList [{ name := "k".toList, raw := "1".toList, val := "1".toList }] [] []
    [.text "-".toList "-".toList, .cdata "5".toList, .cdata " ".toList, .text "&#54;".toList "6".toList,
     .empty "a".toList [] []]
example : surfOk mixedSample = true := by rfl
example : noAdjText (toNode mixedSample) = false := by decide
example : mergeN (toNode mixedSample)
    = .elem [] "c".toList [⟨[], "k".toList, "1".toList⟩] [.text "-5 6".toList, .elem [] "a".toList [] []] := by
  rfl
example : Conv.inDomain {} S0 (mergeN (toNode mixedSample)) = true := by decide
example : (tokenize (renderS mixedSample)).map (fun ts => newMapXml {} S0 ts .eof)
    = some (.ok (.map [("c".toList, .map [("-k".toList, .str "1".toList), ("#text".toList, .str "-5 6".toList),
        ("a".toList, .str [])])])) := by
  rw [C01_bytes_tokenize mixedSample (by rfl)]
  rfl

end Mxj.C01
