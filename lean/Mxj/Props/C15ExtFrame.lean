/-
  Mxj.Props.C15ExtFrame — frame of C15's API over the package-level state, on facts regenerated from
  /repo's current source on every run: the decoders, queries and encoders C15 calls read only the package-level variables that exist today and assign none: no counter, depth or cache survives a call - in particular not a call that failed;
  and none of them (nor any function they can reach) assigns a package-level variable, so what they
  return is a function of their arguments and of exactly those options - no hidden state carried
  from one call to the next.
-/
import Mxj.Lemmas.Facts
namespace Mxj.C15
open Mxj

/-- the option variables C15's functions may read -/
def frameAllowed : List String := ["CustomDecoder", "JsonUseNumber", "KeyNotExistError", "NoRoot", "PathNotExistError", "XmlCharsetReader", "attrK", "attrPrefix", "castNanInf", "castToBool", "castToFloat", "castToInt", "checkTagToSkip", "commentK", "decodeSimpleValuesAsMap", "defaultArraySize", "directiveK", "escapechars", "fieldSep", "handleXMPPStreamTag", "includeTagSeqNum", "instK", "jhandlerPollInterval", "lenAttrPrefix", "lowerCase", "procinstK", "seqK", "snakeCaseKeys", "targetK", "textK", "trimRunes", "useDotNotation", "useGoXmlEmptyElemSyntax", "xhandlerPollInterval", "xmlCheckIsValid", "xmlEscapeChars", "xmlEscapeCharsDecoder"]

theorem C15_frame_reads (root g v : String) (hr : root ∈ Generated.queryRoots)
    (h : Facts.Reach root g) (hv : v ∈ Facts.readsOf g) : v ∈ frameAllowed := by
  have hc : Facts.closed Generated.queryRootsClosure = true := by decide
  have ho : Facts.onlyReads Generated.queryRootsClosure frameAllowed = true := by decide
  have hin := Facts.mem_of_all_contains' Generated.queryRoots Generated.queryRootsClosure
    (by decide) root hr
  exact Facts.reads_subset_of_cert _ _ hc ho root g v hin h hv

theorem C15_frame_no_hidden_state (root g : String) (hr : root ∈ Generated.queryRoots)
    (h : Facts.Reach root g) : Facts.writesOf g = [] := by
  have hc : Facts.closed Generated.queryRootsClosure = true := by decide
  have hn : Facts.noneWrites Generated.queryRootsClosure = true := by decide
  have hin := Facts.mem_of_all_contains' Generated.queryRoots Generated.queryRootsClosure
    (by decide) root hr
  exact Facts.not_writes_of_cert _ hc hn root g hin h

/-- the statements are not vacuous: the API group is present in the source -/
theorem C15_frame_roots_present : Generated.queryRoots.length ≥ 1 := by decide

end Mxj.C15
