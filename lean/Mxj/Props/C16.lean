/-
  Mxj.Props.C16 — "Encoders are deterministic".

  Go ranges over a map in random order and then `sort.Sort`s attributes and child elements by
  key.  The model (`Mxj.Model.Encode`) normalises the value first (`Val.norm`: the entries of
  every map sorted by key with `sortByKey`) and walks the entries in order.  The theorems:
  `strLe` is a total order and `sortByKey` a sorted permutation, so that for entry lists with
  pairwise distinct keys (every Go map) EVERY iteration order sorts to the same list
  (`C16_sort_unique`); hence maps that differ only in entry order at any depth are `≈ᵥ`
  (`C16_permEq_equiv`) and encode to identical bytes (`C16_perm_invariant`,
  `C16_mapXml_perm_invariant`).
-/
import Mxj.Lemmas.Encode
namespace Mxj.C16
open Mxj Mxj.Enc

/-! ### the key order -/

theorem C16_strLe_total (a b : Str) : strLe a b = true ∨ strLe b a = true := strLe_total a b

theorem C16_strLe_trans (a b c : Str) (h1 : strLe a b = true) (h2 : strLe b c = true) :
    strLe a c = true := strLe_trans a b c h1 h2

theorem C16_strLe_antisymm (a b : Str) (h1 : strLe a b = true) (h2 : strLe b a = true) : a = b :=
  strLe_antisymm a b h1 h2

/-- `sortByKey` really sorts: the result is a permutation of its input … -/
theorem C16_sortByKey_perm (kvs : Entries) : List.Perm (sortByKey kvs) kvs := sortByKey_perm kvs

/-- … ascending w.r.t. `strLe` -/
theorem C16_sortByKey_sorted (kvs : Entries) :
    List.Pairwise (fun a b => strLe a.1 b.1 = true) (sortByKey kvs) := sortByKey_sorted kvs

/-- with pairwise distinct keys the order is strict: attributes and child elements come out in
    strictly ascending key order -/
theorem C16_sortByKey_strict (kvs : Entries) (hd : distinctKeys kvs = true) :
    List.Pairwise (fun a b => strLe a.1 b.1 = true ∧ a.1 ≠ b.1) (sortByKey kvs) := by
  refine List.Pairwise.and (sortByKey_sorted kvs) ?_
  have hn := keys_sortByKey_nodup ((distinctKeys_iff kvs).1 hd)
  unfold keys at hn
  exact List.pairwise_map.1 hn

/-- what Go does — range over the map in ANY order, then sort.Sort by key — equals the model's
    "sort, then walk": for entry lists with pairwise distinct keys every permutation sorts to
    the same list -/
theorem C16_sort_unique (a b : Entries) (hp : List.Perm a b) (hd : distinctKeys a = true) :
    sortByKey a = sortByKey b :=
  sortByKey_congr ((distinctKeys_iff a).1 hd) hp

/-- normalisation is idempotent on well-formed values (maps with distinct keys).
    The hypothesis is needed: `sortByKey` inserts an entry AFTER the entries with an equal key
    that are already placed, i.e. it reverses runs of equal keys, so on
    `{"a":1,"a":2}` (not a Go map) normalising twice restores the original order. -/
theorem C16_norm_idempotent (v : Val) (hwf : v.wf = true) : v.norm.norm = v.norm := norm_idem v hwf

/-- the counterexample to idempotence without `wf` -/
example :
    let v := Val.map [("a".toList, .num "i:1".toList), ("a".toList, .num "i:2".toList)]
    v.norm.norm ≠ v.norm := by decide

theorem C16_norm_wf (v : Val) (hwf : v.wf = true) : v.norm.wf = true := wf_norm v hwf

/-- a normalised value is equivalent to the original -/
theorem C16_norm_equiv (v : Val) (hwf : v.wf = true) : v.norm ≈ᵥ v := norm_idem v hwf

/-! ### byte-identical output -/

/-- equal Maps however built (any entry order at any depth) give byte-identical XML -/
theorem C16_perm_invariant (cfg : EncCfg) (key : Str) (v w : Val) (h : v ≈ᵥ w) :
    marshal cfg key v = marshal cfg key w := by
  unfold marshal
  rw [show v.norm = w.norm from h]

theorem allMaps_normList : ∀ (xs : List Val), allMaps (Val.normList xs) = allMaps xs
  | [] => rfl
  | x :: xs => by
      have ih := allMaps_normList xs
      unfold allMaps at ih ⊢
      cases x <;> simp [Val.normList, Val.norm, Val.isMap, ih]

/-- does `mv.Xml()` use the single entry as the root? (not for a list with a non-map member) -/
def rootSel : Val → Bool
  | .list xs => allMaps xs
  | _ => true

theorem mapXml_single (cfg : EncCfg) (k : Str) (v : Val) :
    mapXml cfg [(k, v)] none
      = if rootSel v then marshal cfg k v else marshal cfg defaultRootTag (.map [(k, v)]) := by
  cases v <;> rfl

theorem rootSel_norm (v : Val) : rootSel v.norm = rootSel v := by
  cases v <;> simp [rootSel, Val.norm, allMaps_normList]

/-- the same for `mv.Xml()`: the root selection looks only at the number of entries and at the
    shape (list of maps or not) of a single entry's value, both of which `≈ᵥ` preserves -/
theorem C16_mapXml_perm_invariant (cfg : EncCfg) (m m' : Entries) (rt : Option Str)
    (h : Val.map m ≈ᵥ Val.map m') : mapXml cfg m rt = mapXml cfg m' rt := by
  have hmar : ∀ k, marshal cfg k (.map m) = marshal cfg k (.map m') :=
    fun k => C16_perm_invariant cfg k _ _ h
  have hn : sortByKey (Val.normEntries m) = sortByKey (Val.normEntries m') := by
    have h' : (Val.map m).norm = (Val.map m').norm := h
    simpa [Val.norm] using h'
  have hlen : m.length = m'.length := by
    have := congrArg List.length hn
    rw [(sortByKey_perm _).length_eq, (sortByKey_perm _).length_eq, normEntries_eq_map,
      normEntries_eq_map, List.length_map, List.length_map] at this
    exact this
  cases rt with
  | some r => simp only [mapXml, hmar]
  | none =>
    match m, m', hlen, hn, hmar with
    | [], [], _, _, _ => rfl
    | [], _ :: _, hl, _, _ => simp at hl
    | _ :: _, [], hl, _, _ => simp at hl
    | [_], _ :: _ :: _, hl, _, _ => simp at hl
    | _ :: _ :: _, [_], hl, _, _ => simp at hl
    | _ :: _ :: _, _ :: _ :: _, _, _, hmar => simp only [mapXml, hmar]
    | [(k, v)], [(k', v')], _, hn, hmar =>
      simp only [Val.normEntries, sortByKey, List.foldr_cons, List.foldr_nil, insertByKey,
        List.cons.injEq, Prod.mk.injEq, and_true] at hn
      obtain ⟨rfl, hv⟩ := hn
      rw [mapXml_single, mapXml_single, ← rootSel_norm v, hv, rootSel_norm v', hmar,
        C16_perm_invariant cfg k v v' hv]

/-- … in particular when the two entry lists are permutations of each other (distinct keys) -/
theorem C16_mapXml_perm_invariant' (cfg : EncCfg) (m m' : Entries) (rt : Option Str)
    (hp : List.Perm m m') (hd : distinctKeys m = true) : mapXml cfg m rt = mapXml cfg m' rt :=
  C16_mapXml_perm_invariant cfg m m' rt (equiv_map_of_perm hp hd)


/-! ### "the same Map, however built": equal up to entry order at every depth, inductively -/

mutual
/-- `PermEq v w`: `w` is `v` with the entries of every map, at every depth, listed in some
    other order (what two runs of a Go program that build the same map can differ in) -/
inductive PermEq : Val → Val → Prop
  | refl (v : Val) : PermEq v v
  | list {xs ys : List Val} : PermEqList xs ys → PermEq (.list xs) (.list ys)
  | map {kvs kvs' kvs'' : Entries} : PermEqEntries kvs kvs' → kvs'.Perm kvs'' →
      PermEq (.map kvs) (.map kvs'')
inductive PermEqList : List Val → List Val → Prop
  | nil : PermEqList [] []
  | cons {x y : Val} {xs ys : List Val} : PermEq x y → PermEqList xs ys →
      PermEqList (x :: xs) (y :: ys)
inductive PermEqEntries : Entries → Entries → Prop
  | nil : PermEqEntries [] []
  | cons {k : Str} {x y : Val} {xs ys : Entries} : PermEq x y → PermEqEntries xs ys →
      PermEqEntries ((k, x) :: xs) ((k, y) :: ys)
end

mutual
theorem PermEq.equiv : ∀ (v w : Val), v.wf = true → PermEq v w → v.norm = w.norm
  | .null, w, _, h => by cases h; rfl
  | .bool _, w, _, h => by cases h; rfl
  | .num _, w, _, h => by cases h; rfl
  | .str _, w, _, h => by cases h; rfl
  | .list xs, w, hwf, h => by
      cases h with
      | refl => rfl
      | list hl =>
        simp only [Val.wf] at hwf
        simp only [Val.norm, PermEqList.equiv xs _ hwf hl]
  | .map kvs, w, hwf, h => by
      cases h with
      | refl => rfl
      | map he hp =>
        simp only [Val.wf, Bool.and_eq_true] at hwf
        obtain ⟨h1, hk⟩ := PermEqEntries.equiv kvs _ hwf.1 he
        simp only [Val.norm]
        rw [h1]
        congr 1
        apply sortByKey_congr
        · rw [keys_normEntries, ← hk]; exact (distinctKeys_iff kvs).1 hwf.2
        · exact perm_normEntries hp
theorem PermEqList.equiv : ∀ (xs ys : List Val), Val.wfList xs = true → PermEqList xs ys →
    Val.normList xs = Val.normList ys
  | [], ys, _, h => by cases h; rfl
  | x :: xs, ys, hwf, h => by
      cases h with
      | cons hx hr =>
        simp only [Val.wfList, Bool.and_eq_true] at hwf
        simp only [Val.normList, PermEq.equiv x _ hwf.1 hx, PermEqList.equiv xs _ hwf.2 hr]
theorem PermEqEntries.equiv : ∀ (xs ys : Entries), Val.wfEntries xs = true → PermEqEntries xs ys →
    Val.normEntries xs = Val.normEntries ys ∧ keys xs = keys ys
  | [], ys, _, h => by cases h; exact ⟨rfl, rfl⟩
  | (k, x) :: xs, ys, hwf, h => by
      cases h with
      | cons hx hr =>
        simp only [Val.wfEntries, Bool.and_eq_true] at hwf
        obtain ⟨h1, h2⟩ := PermEqEntries.equiv xs _ hwf.2 hr
        exact ⟨by simp only [Val.normEntries, PermEq.equiv x _ hwf.1 hx, h1],
          by simp only [keys_cons, h2]⟩
end

/-- the same Map built in any entry order at any depth is `≈ᵥ` … -/
theorem C16_permEq_equiv (v w : Val) (hwf : v.wf = true) (h : PermEq v w) : v ≈ᵥ w :=
  PermEq.equiv v w hwf h

/-- … and therefore encodes to byte-identical XML -/
theorem C16_permEq_invariant (cfg : EncCfg) (key : Str) (v w : Val) (hwf : v.wf = true)
    (h : PermEq v w) : marshal cfg key v = marshal cfg key w :=
  C16_perm_invariant cfg key v w (C16_permEq_equiv v w hwf h)

/-! ### non-vacuity -/

example :
    let a := Val.map [("b".toList, .num "i:2".toList),
                      ("a".toList, .map [("y".toList, .null), ("x".toList, .bool true)])]
    let b := Val.map [("a".toList, .map [("x".toList, .bool true), ("y".toList, .null)]),
                      ("b".toList, .num "i:2".toList)]
    a ≈ᵥ b ∧ marshal {} "r".toList a = .ok "<r><a><x>true</x><y/></a><b>2</b></r>".toList
      ∧ marshal {} "r".toList b = .ok "<r><a><x>true</x><y/></a><b>2</b></r>".toList :=
  ⟨by decide, rfl, rfl⟩

end Mxj.C16
