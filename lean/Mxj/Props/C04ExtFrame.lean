/-
  Mxj.Props.C04ExtFrame — frame of C04's API over the package-level state, on facts regenerated from
  /repo's current source on every run: the sequence codec reads its own key names, the cast and escaping options and the encoder switches - neither the attribute prefix nor the case-folding switch;
  and none of them (nor any function they can reach) assigns a package-level variable, so what they
  return is a function of their arguments and of exactly those options - no hidden state carried
  from one call to the next.
-/
import Mxj.Lemmas.Facts
namespace Mxj.C04
open Mxj

/-- the option variables C04's functions may read -/
def frameAllowed : List String := ["CustomDecoder", "NoRoot", "XmlCharsetReader", "attrK", "castNanInf", "castToBool", "castToFloat", "castToInt", "checkTagToSkip", "commentK", "directiveK", "escapechars", "handleXMPPStreamTag", "instK", "procinstK", "seqK", "snakeCaseKeys", "targetK", "textK", "trimRunes", "useGoXmlEmptyElemSyntax", "xmlCheckIsValid", "xmlEscapeChars", "xmlEscapeCharsDecoder"]

theorem C04_frame_reads (root g v : String) (hr : root ∈ Generated.c04FrameRoots)
    (h : Facts.Reach root g) (hv : v ∈ Facts.readsOf g) : v ∈ frameAllowed := by
  have hc : Facts.closed Generated.c04FrameRootsClosure = true := by decide
  have ho : Facts.onlyReads Generated.c04FrameRootsClosure frameAllowed = true := by decide
  have hin := Facts.mem_of_all_contains' Generated.c04FrameRoots Generated.c04FrameRootsClosure
    (by decide) root hr
  exact Facts.reads_subset_of_cert _ _ hc ho root g v hin h hv

theorem C04_frame_no_hidden_state (root g : String) (hr : root ∈ Generated.c04FrameRoots)
    (h : Facts.Reach root g) : Facts.writesOf g = [] := by
  have hc : Facts.closed Generated.c04FrameRootsClosure = true := by decide
  have hn : Facts.noneWrites Generated.c04FrameRootsClosure = true := by decide
  have hin := Facts.mem_of_all_contains' Generated.c04FrameRoots Generated.c04FrameRootsClosure
    (by decide) root hr
  exact Facts.not_writes_of_cert _ hc hn root g hin h

/-- the statements are not vacuous: the API group is present in the source -/
theorem C04_frame_roots_present : Generated.c04FrameRoots.length ≥ 1 := by decide

end Mxj.C04
