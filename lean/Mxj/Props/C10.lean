/-
  Mxj.Props.C10 — UpdateValuesForPath.

  Informal property: UpdateValuesForPath({k:v}, path, subkeys...) replaces only values stored
  under key k in nodes the path addresses and only where the sub-key conditions hold; every
  other entry of the Map is left exactly as it was.  The returned count equals the number of
  values replaced, a count of zero leaves the Map untouched, and when the path ends in k and no
  sub-keys are given, ValuesForPath(path) afterwards yields exactly count copies of v.

  Model: Mxj.Model.Update (`updPath`, `updateValuesForPath`).
  Ghost model: `Mxj.Upd.updPathLoci key subs m ks` (Mxj.Lemmas.Update) mirrors `updPath` but
  returns the list of written locations (`List (List Seg)`); it does not depend on the new
  value.  `writeLoc`/`writeAll` write a value at one / at a list of locations, `getLoc`
  (Mxj.Model.Mutate) reads a location, `Incomp a b` says neither location is a prefix of the
  other.  Helper lemmas live in Mxj.Lemmas.Update; this file has the property theorems only.
-/
import Mxj.Lemmas.Update
namespace Mxj.C10
open Mxj Mxj.Upd

/-! ### count zero -/

/-- a count of zero leaves the Map untouched (no well-formedness needed) -/
theorem C10_zero_unchanged (key : Str) (value : Val) (subs : SubKeys) (m : Val) (ks : List Str)
    (h : (updPath key value subs m ks).2 = 0) : (updPath key value subs m ks).1 = m :=
  updPath_zero key value subs ks m h

/-- the same at the API: `UpdateValuesForPath` returning count 0 returns the receiver itself -/
theorem C10_api_zero_unchanged (fieldSep : Str) (pf : Str → Option Str) (m newVal : Val)
    (path : Str) (subkeys : List Str) (t : Val)
    (h : updateValuesForPath fieldSep pf m newVal path subkeys = .ok (t, 0)) : t = m := by
  unfold updateValuesForPath at h
  split at h
  · cases h
  · simp only at h
    split at h
    · cases h
    · rename_i k v _
      have h' := Except.ok.inj h
      have h1 : (updPath k v _ m (splitDot path)).1 = t := congrArg Prod.fst h'
      have h2 : (updPath k v _ m (splitDot path)).2 = 0 := congrArg Prod.snd h'
      rw [← h1]
      exact C10_zero_unchanged k v _ m _ h2

/-! ### the count is the number of values replaced; nothing else changes -/

/-- the count is the number of written locations -/
theorem C10_count_is_loci (key : Str) (value : Val) (subs : SubKeys) (m : Val) (ks : List Str)
    (hwf : m.wf = true) :
    (updPath key value subs m ks).2 = (updPathLoci key subs m ks).length :=
  (realizes_updPath key value subs ks m hwf).count

/-- the written locations are pairwise prefix-incomparable … -/
theorem C10_loci_incomparable (key : Str) (subs : SubKeys) (m : Val) (ks : List Str)
    (hwf : m.wf = true) : (updPathLoci key subs m ks).Pairwise Incomp :=
  (realizes_updPath key .null subs ks m hwf).incomp

/-- … in particular pairwise distinct -/
theorem C10_loci_distinct (key : Str) (subs : SubKeys) (m : Val) (ks : List Str)
    (hwf : m.wf = true) : (updPathLoci key subs m ks).Nodup := by
  refine List.Pairwise.imp ?_ (C10_loci_incomparable key subs m ks hwf)
  intro a b h e
  subst e
  exact h.1 (List.prefix_refl a)

/-- every written location exists in the receiver -/
theorem C10_loci_valid (key : Str) (subs : SubKeys) (m : Val) (ks : List Str)
    (hwf : m.wf = true) : ∀ l ∈ updPathLoci key subs m ks, (getLoc m l).isSome = true :=
  (realizes_updPath key .null subs ks m hwf).valid

/-- the new tree is the old tree with `value` written at exactly the loci -/
theorem C10_tree_is_writes (key : Str) (value : Val) (subs : SubKeys) (m : Val) (ks : List Str)
    (hwf : m.wf = true) :
    (updPath key value subs m ks).1 = writeAll value m (updPathLoci key subs m ks) :=
  (realizes_updPath key value subs ks m hwf).tree

/-- every locus holds `value` afterwards -/
theorem C10_written (key : Str) (value : Val) (subs : SubKeys) (m : Val) (ks : List Str)
    (hwf : m.wf = true) :
    ∀ l ∈ updPathLoci key subs m ks, getLoc (updPath key value subs m ks).1 l = some value := by
  rw [C10_tree_is_writes key value subs m ks hwf]
  exact getLoc_writeAll_mem value _ m (C10_loci_incomparable key subs m ks hwf)
    (C10_loci_valid key subs m ks hwf)

/-- frame: every location that is neither below (or at) nor above a written locus reads the
    same before and after.

    The requested phrasing "for every location not below a written locus" is false for
    locations *above* a locus: with `m = {a:1}`, `key = a`, `ks = [a]` the root location `[]`
    is not below the locus `[.key a]` but `getLoc` at `[]` is the whole (changed) Map.  For such
    a location `C10_tree_is_writes` says exactly what its new value is. -/
theorem C10_only_loci (key : Str) (value : Val) (subs : SubKeys) (m : Val) (ks : List Str)
    (hwf : m.wf = true) (q : List Seg)
    (hq : ∀ l ∈ updPathLoci key subs m ks, Incomp l q) :
    getLoc (updPath key value subs m ks).1 q = getLoc m q := by
  rw [C10_tree_is_writes key value subs m ks hwf]
  exact getLoc_writeAll_incomp value q _ m hq

/-- every written locus is an entry named `key`, or a member of the list stored under `key` -/
theorem C10_loci_under_key (key : Str) (subs : SubKeys) (m : Val) (ks : List Str) :
    ∀ l ∈ updPathLoci key subs m ks,
      (∃ pre, l = pre ++ [Seg.key key]) ∨ (∃ pre i, l = pre ++ [Seg.key key, Seg.idx i]) :=
  underKey_updPathLoci key subs ks m

/-! ### the query afterwards -/

/-- path ends in k, k is not the wildcard, no sub-keys, new value not a list: the query
    afterwards yields exactly count copies of the value.  Neither well-formedness of `m` nor
    "no wildcard in the path" nor "value is a scalar" is needed: `walk` continues below an
    updated node only with the *remaining* path, and at the last step the remaining path is
    empty, so an updated value is never re-entered. -/
theorem C10_query_agrees (key : Str) (value : Val) (m : Val) (ks : List Str)
    (hlast : ks.getLast? = some key) (hkey : key ≠ ['*']) (hnl : value.isList = false) :
    walk none (updPath key value [] m ks).1 ks
      = List.replicate (updPath key value [] m ks).2 value :=
  query_agrees key value hkey hnl ks m hlast

/-- the same through `oldValues` (= `ValuesForPath` without `[`), for a dot path whose
    segments are non-empty -/
theorem C10_query_agrees_path (key : Str) (value : Val) (m : Val) (path : Str)
    (hseg : ∀ s ∈ splitDot path, s ≠ [])
    (hlast : (splitDot path).getLast? = some key) (hkey : key ≠ ['*'])
    (hnl : value.isList = false) :
    oldValues none (updPath key value [] m (splitDot path)).1 path
      = List.replicate (updPath key value [] m (splitDot path)).2 value := by
  unfold oldValues pathKeys
  rw [dropTrailingEmpty_id _ hseg]
  exact C10_query_agrees key value m _ hlast hkey hnl

/-! ### which nodes are updated (path does not end in the new key) -/

/-- when the last path key is a plain key different from `k`, the count is the number of nodes
    the path addresses (`ValuesForPath(path)` on the receiver, lists standing for their
    members) that are maps holding `k` and satisfying the sub-key conditions -/
theorem C10_count_addressed (key : Str) (value : Val) (subs : SubKeys) (m : Val) (ks : List Str)
    (k0 : Str) (hlast : ks.getLast? = some k0) (hk0 : k0 ≠ ['*']) (hne : key ≠ k0) :
    (updPath key value subs m ks).2 = ((walk none m ks).filter (holds key subs)).length :=
  count_addressed key value subs k0 hk0 hne ks m hlast

/-! ### examples: the hypotheses are satisfiable; what the model and its ghost compute -/

/-- `{"a": {"b": 1, "c": 2}, "l": [{"b": 1, "c": 3}, {"b": 1, "c": 4}, 5]}` -/
def exM : Val :=
  .map [(['a'], .map [(['b'], .num ['1']), (['c'], .num ['2'])]),
        (['l'], .list [.map [(['b'], .num ['1']), (['c'], .num ['3'])],
                       .map [(['b'], .num ['1']), (['c'], .num ['4'])], .num ['5']])]

example : exM.wf = true := by decide

/-- path `a.b`, new value `b:x`: one replacement, at `a.b` -/
example : updPath ['b'] (.str ['x']) [] exM [['a'], ['b']]
    = (.map [(['a'], .map [(['b'], .str ['x']), (['c'], .num ['2'])]),
             (['l'], .list [.map [(['b'], .num ['1']), (['c'], .num ['3'])],
                            .map [(['b'], .num ['1']), (['c'], .num ['4'])], .num ['5']])], 1) := by
  simp [exM, updPath, updValue, updMap, updAt, lookup, insert, hasSubKeys]

example : updPathLoci ['b'] [] exM [['a'], ['b']] = [[.key ['a'], .key ['b']]] := by
  simp [exM, updPathLoci, updValueLoci, updMapLoci, updEndLoci, lookup, hasSubKeys]

/-- path `*.b`: the wildcard reaches `a` and the map members of the list `l` -/
example : updPath ['b'] (.str ['x']) [] exM [['*'], ['b']]
    = (.map [(['a'], .map [(['b'], .str ['x']), (['c'], .num ['2'])]),
             (['l'], .list [.map [(['b'], .str ['x']), (['c'], .num ['3'])],
                            .map [(['b'], .str ['x']), (['c'], .num ['4'])], .num ['5']])], 3) := by
  simp [exM, updPath, updValue, updMap, updAt, lookup, insert, hasSubKeys, mapEntriesCount,
    mapCount]

example : updPathLoci ['b'] [] exM [['*'], ['b']]
    = [[.key ['a'], .key ['b']], [.key ['l'], .idx 0, .key ['b']],
       [.key ['l'], .idx 1, .key ['b']]] := by
  simp [exM, updPathLoci, updValueLoci, updMapLoci, updEndLoci, lookup, hasSubKeys, lociEntries,
    lociList]

/-- path `l` with the sub-key `c:4` (a number): only the member satisfying it gets `b := x` -/
example : updPath ['b'] (.str ['x']) [(['c'], .num ['4'])] exM [['l']]
    = (.map [(['a'], .map [(['b'], .num ['1']), (['c'], .num ['2'])]),
             (['l'], .list [.map [(['b'], .num ['1']), (['c'], .num ['3'])],
                            .map [(['b'], .str ['x']), (['c'], .num ['4'])], .num ['5']])], 1) := by
  simp [exM, updPath, updValue, updMap, updAt, lookup, insert, hasSubKeys, subCond, hasPrefix,
    setInMembers, mapCount, List.isPrefixOf, numEq]

example : updPathLoci ['b'] [(['c'], .num ['4'])] exM [['l']]
    = [[.key ['l'], .idx 1, .key ['b']]] := by
  simp [exM, updPathLoci, updValueLoci, updMapLoci, updEndLoci, setInLoci, lookup, hasSubKeys,
    subCond, hasPrefix, lociList, List.isPrefixOf, numEq]

/-- `C10_query_agrees` instantiated: after the `*.b` update the query yields three copies -/
example : walk none (updPath ['b'] (.str ['x']) [] exM [['*'], ['b']]).1 [['*'], ['b']]
    = List.replicate (updPath ['b'] (.str ['x']) [] exM [['*'], ['b']]).2 (.str ['x']) :=
  C10_query_agrees ['b'] (.str ['x']) exM [['*'], ['b']] (by decide) (by decide) (by decide)

/-- `hnl` is needed: a list as the new value is expanded by the query (here: to nothing),
    while the count is 1 -/
example : updPath ['a'] (.list []) [] (.map [(['a'], .num ['1'])]) [['a']]
    = (.map [(['a'], .list [])], 1) := by
  simp [updPath, updValue, updMap, updAt, lookup, insert, hasSubKeys]
example : walk none (.map [(['a'], .list [])]) [['a']] = [] := by
  simp [walk, lookup, loadLeaf]

/-- `hkey` is needed: with the wildcard as the new key nothing is replaced, but the query `*`
    yields every value -/
example : updPath ['*'] (.str ['x']) [] (.map [(['a'], .num ['1'])]) [['*']]
    = (.map [(['a'], .num ['1'])], 0) := by
  simp [updPath, updValue, updMap, updAt, lookup, hasSubKeys, keys]
example : walk none (.map [(['a'], .num ['1'])]) [['*']] = [.num ['1']] := by
  simp [walk, loadLeaf]

/-- the frame theorem cannot cover locations above a locus: the root is not below `[a]` -/
example : getLoc (updPath ['a'] (.str ['x']) [] (.map [(['a'], .num ['1'])]) [['a']]).1 []
    ≠ getLoc (.map [(['a'], .num ['1'])]) [] := by
  simp [updPath, updValue, updMap, updAt, lookup, insert, hasSubKeys, getLoc]

/-- `hwf` is needed for the loci theorems: on an ill-formed "map" with a repeated key the
    wildcard visits both entries (count 2, both changed) while locations can only name the
    first — the ghost loci repeat, and writing at them changes one entry only -/
def exDup : Val := .map [(['a'], .map [(['b'], .num ['1'])]), (['a'], .map [(['b'], .num ['2'])])]
example : exDup.wf = false := by decide
example : updPath ['b'] (.str ['x']) [] exDup [['*'], ['b']]
    = (.map [(['a'], .map [(['b'], .str ['x'])]), (['a'], .map [(['b'], .str ['x'])])], 2) := by
  simp [exDup, updPath, updValue, updMap, updAt, lookup, insert, hasSubKeys, mapEntriesCount]
example : updPathLoci ['b'] [] exDup [['*'], ['b']]
    = [[.key ['a'], .key ['b']], [.key ['a'], .key ['b']]] := by
  simp [exDup, updPathLoci, updValueLoci, updMapLoci, updEndLoci, lookup, hasSubKeys, lociEntries]
example : writeAll (.str ['x']) exDup [[.key ['a'], .key ['b']], [.key ['a'], .key ['b']]]
    = .map [(['a'], .map [(['b'], .str ['x'])]), (['a'], .map [(['b'], .num ['2'])])] := by
  simp [exDup, writeAll, writeLoc, lookup, insert]

end Mxj.C10
