/-
  Mxj.Props.C13ExtXml — the XML and sequence-free half of C13 at token level.

  `NewMapXmlReader` called again and again on one reader, and `HandleXmlReader`, are the loops
  `Files.readMapsXml` / `Files.handleXml` over the token stream of the whole input (each call
  continues with the tokens the previous call left unread; that the bytes are consumed exactly up
  to the root's end tag - the single-byte adaptor of `C13_adaptor_transparent` under the
  tokenizer - is the trusted law TB-XML-stop, sampled by the `xfile` op and the chunked-reader
  oracle).  The statements are those of C19ExtXml, read as statements about streams.
-/
import Mxj.Props.C19ExtXml
namespace Mxj.C13
open Mxj Mxj.Files

/-- documents read one after another from a stream are the Maps of decoding each document on its
    own, in order, followed by io.EOF (`failed = false`), whatever non-element material
    (white space, comments, processing instructions, directives) separates them -/
theorem C13_xml_stream_docs (cfg : DecCfg) (S : Strconv) (docs : List (List Tok × Node))
    (hsep : ∀ d ∈ docs, ∀ t ∈ d.1, ¬ isStart t) (helem : ∀ d ∈ docs, isElem d.2 = true)
    (trail : List Tok) (htrail : ∀ t ∈ trail, ¬ isStart t) (f : Nat) (hf : docs.length < f) :
    ∃ rs, readMapsXml cfg S .eof f (fileToks docs trail) [] = ⟨rs, false⟩ ∧
      rs.length = docs.length ∧
      ∀ (i : Nat) (h1 : i < rs.length) (h2 : i < docs.length) (fin : StreamEnd),
        newMapXml cfg S (flatten docs[i].2) fin = .ok rs[i] :=
  let ⟨rs, h, hl, hi⟩ := C19.C19_xml_file_same_as_single cfg S docs hsep helem trail htrail f hf
  ⟨rs, h, hl, fun i h1 h2 fin => (hi i h1 h2 fin).1⟩

/-- no over-reading: after the first `k` documents the loop continues with exactly the tokens
    that follow them -/
theorem C13_xml_stream_no_overread (cfg : DecCfg) (S : Strconv) (fin : StreamEnd)
    (docs : List (List Tok × Node))
    (hsep : ∀ d ∈ docs, ∀ t ∈ d.1, ¬ isStart t) (helem : ∀ d ∈ docs, isElem d.2 = true)
    (f : Nat) (rest : List Tok) (acc : List Val) :
    readMapsXml cfg S fin (docs.length + f) (fileToks docs rest) acc
      = readMapsXml cfg S fin f rest ((docs.map (fun d => Fold.doc cfg S d.2)).reverse ++ acc) :=
  C19.C19_xml_file_then cfg S fin docs hsep helem f rest acc

/-- the bulk handler invokes the map handler once per document, in order, and stops when the
    handler returns false: nothing after the `b`-th document is looked at -/
theorem C13_xml_handler_stops (cfg : DecCfg) (S : Strconv) (fin : StreamEnd)
    (docs : List (List Tok × Node))
    (hsep : ∀ d ∈ docs, ∀ t ∈ d.1, ¬ isStart t) (helem : ∀ d ∈ docs, isElem d.2 = true)
    (b : Nat) (hb : b ≤ docs.length) (trail : List Tok) (f : Nat) (hf : b < f) :
    handleXml cfg S fin f b (fileToks docs trail) []
      = ⟨(docs.take b).map (fun d => Fold.doc cfg S d.2), false⟩ :=
  C19.C19_xml_handler_stops cfg S fin docs hsep helem b hb trail f hf

/-- … and with a handler that always returns true it sees every document -/
theorem C13_xml_handler_count (cfg : DecCfg) (S : Strconv) (fin : StreamEnd)
    (docs : List (List Tok × Node))
    (hsep : ∀ d ∈ docs, ∀ t ∈ d.1, ¬ isStart t) (helem : ∀ d ∈ docs, isElem d.2 = true)
    (b : Nat) (trail : List Tok) (htrail : ∀ t ∈ trail, ¬ isStart t)
    (f : Nat) (hf : docs.length < f) :
    (handleXml cfg S fin f b (fileToks docs trail) []).maps.length = min b docs.length :=
  (C19.C19_xml_handler_count cfg S fin docs hsep helem b trail htrail f hf).2

/-- a stream that ends inside document `k` delivers the first `k` Maps and then the tokenizer's
    error (`fin = .bad`: "unexpected EOF") -/
theorem C13_xml_stream_truncated (cfg : DecCfg) (S : Strconv) (docs : List (List Tok × Node))
    (hsep : ∀ d ∈ docs, ∀ t ∈ d.1, ¬ isStart t) (helem : ∀ d ∈ docs, isElem d.2 = true)
    (k : Nat) (hk : k < docs.length) (cut : List Tok)
    (hpre : cut <+: flatten docs[k].2) (hproper : cut ≠ flatten docs[k].2)
    (f : Nat) (hf : k < f) :
    readMapsXml cfg S .bad f (fileToks (docs.take k) (docs[k].1 ++ cut)) []
      = ⟨(docs.take k).map (fun d => Fold.doc cfg S d.2), true⟩ :=
  C19.C19_xml_truncated_error cfg S docs hsep helem k hk cut hpre hproper f hf

/-- non-vacuity: the sample file of C19ExtXml -/
example : ∃ rs, readMapsXml {} Dec.S0 .eof 4 (fileToks exDocs exTrail) [] = ⟨rs, false⟩ ∧ rs.length = 3 := by
  obtain ⟨rs, h, hl, _⟩ := C13_xml_stream_docs {} Dec.S0 exDocs (by decide) (by decide) exTrail (by decide) 4 (by decide)
  exact ⟨rs, h, by simpa [exDocs] using hl⟩

end Mxj.C13
