/-
  Mxj.Props.C19ExtTok — the XML-file theorems of C19ExtXml at BYTE level, with the tokenizer
  model (`Mxj.Tokz.tokenize`, Model/Tokenizer.lean, compared with `encoding/xml` by the harness
  op `xtok` on single documents (C02) and on concatenated multi-document files (C19)) in place of
  the formerly trusted law TB-XML-stop ("tokens of the concatenated bytes = concatenated tokens,
  and no read beyond the end tag").

  Helper lemmas: Mxj.Lemmas.TokenizerCat (`Cat`, `tokenize_fileBytes`, `xmlDocsBytes`,
  `Files.xmlString`) and Mxj.Lemmas.TokenizerCatGen (`step_append_*`, `tokF_append`,
  `tokenize_append`: arbitrary accepted input).

    * `C19_tok_cat`                 COMPOSITIONALITY for arbitrary input: `tokenize s = some ts`,
                                    `tokenize t = some us`, junction not inside character data
                                    (`junctionOk`) ⟹ `tokenize (s ++ t) = some (ts ++ us)`
    * `C19_tok_cat_closed`          … `s` whose last token is not character data composes with all `t`
    * `C19_tok_step_no_overread`    one `RawToken` step on markup leaves exactly `rest ++ t` unread

    * `C19_tok_two_docs`            render a ++ sep ++ render b tokenizes to
                                    flatten a ++ [chardata sep, if non-empty] ++ flatten b
    * `C19_tok_file_tokens`         … any number of documents, white-space separators and trailer
    * `C19_tok_file`                bytes → `tokenize` → the file loop `readMapsXml`: the n Maps in
                                    order (`Fold.doc` of each tree), no error
    * `C19_tok_file_same_as_single` … each the Map `NewMapXml` reads from that document's own bytes
    * `C19_tok_file_conventions`    … on C01's domain the conventions' Maps
    * `C19_tok_handler_stops`       the handler form; what follows the b-th document is any
                                    tokenizable input
    * `C19_tok_written_of_decoded`, `C19_tok_xmlstring_roundtrip`
                                    Maps decoded from in-domain documents, written with
                                    `Maps.XmlString` (= `XmlFile`) and read back: equivalent Maps,
                                    same number, same order
    * `C19_tok_no_overread`         the model form of "no read beyond the end tag": the tokens of
                                    `render a ++ rest` are those of `a` followed by those of
                                    `rest`, for EVERY tokenizable `rest`: lexing the document
                                    depends on no byte behind it
    * witnesses that the junction conditions are needed (character data merges)

  Hypotheses that remain: the trees the encoder builds are `WellNamed` element trees, encoder
  escaping on (the raw form is `Tokz.cat_render_raw`), separators of blanks / tabs / line feeds.
  Still trusted: the tokens `encoding/xml` delivers BEFORE a syntax error in a truncated file
  (`tokenize` is all-or-nothing; `C19_xml_truncated…` stay at token level), and that the real
  decoder's read-ahead (one byte, through the single-byte adaptor of C13) loses nothing.
-/
import Mxj.Lemmas.TokenizerCatGen
import Mxj.Props.C19ExtXml
import Mxj.Props.C02ExtTok
namespace Mxj.C19
open Mxj Mxj.Enc Mxj.Dec Mxj.Files Mxj.Tokz

/-! ### tokens of concatenated documents -/

/-- two documents with a white-space separator: the tokens of the first, the separator as one
    run of character data (nothing if it is empty), the tokens of the second -/
theorem C19_tok_two_docs (cfg : EncCfg) (hesc : cfg.escape = true) (a b : Node) (sep : Str)
    (ha : WellNamed a = true) (hb : WellNamed b = true)
    (hea : Files.isElem a = true) (heb : Files.isElem b = true) (hsep : wsOk sep = true) :
    tokenize (render cfg a ++ sep ++ render cfg b)
      = some (flatten a ++ sepToks sep ++ flatten b) := by
  have h1 := cat_render_esc cfg hesc a ha hea
  have h2 := cat_sep_doc sep _ _ hsep (render_elem_lt cfg heb) (cat_render_esc cfg hesc b hb heb)
  have := cat_tokenize (cat_append h1 h2)
  simpa [List.append_assoc] using this

/-- "no read beyond the end tag", model form: whatever tokenizable input follows the document,
    the tokens of the whole are the document's tokens and then the tokens of what follows -/
theorem C19_tok_no_overread (cfg : EncCfg) (hesc : cfg.escape = true) (a : Node)
    (ha : WellNamed a = true) (hea : Files.isElem a = true) (rest : Str) (us : List Tok)
    (hrest : tokenize rest = some us) :
    tokenize (render cfg a ++ rest) = some (flatten a ++ us) :=
  cat_render_esc cfg hesc a ha hea rest us hrest

/-- a whole file: documents `d.2` behind white-space separators `d.1`, white-space trailer -/
theorem C19_tok_file_tokens (cfg : EncCfg) (hesc : cfg.escape = true) (docs : List (Str × Node))
    (hsep : ∀ d ∈ docs, wsOk d.1 = true) (hW : ∀ d ∈ docs, WellNamed d.2 = true)
    (he : ∀ d ∈ docs, Files.isElem d.2 = true) (trail : Str) (htrail : wsOk trail = true) :
    tokenize (xmlDocsBytes cfg docs trail) = some (fileToks (xmlDocsToks docs) (sepToks trail)) :=
  tokenize_xmlDocs cfg hesc docs hsep hW he trail htrail

/-! ### compositionality for arbitrary accepted input -/

/-- the tokenizer model is compositional over concatenation at token boundaries, for ARBITRARY
    input (comments, PIs, CDATA, both quote styles, prefixed names …): if `s` and `t` are accepted
    and the junction is not inside a run of character data (`junctionOk`: the last token of `s`
    is not character data, or `t` is empty or begins with `<`), the tokens of `s ++ t` are those
    of `s` followed by those of `t` -/
theorem C19_tok_cat (s t : Str) (ts us : List Tok) (hs : tokenize s = some ts)
    (ht : tokenize t = some us) (hj : junctionOk ts t = true) :
    tokenize (s ++ t) = some (ts ++ us) :=
  tokenize_append s t ts us hs ht hj

/-- accepted input that ends with a tag, a comment or a processing instruction composes with
    every accepted input -/
theorem C19_tok_cat_closed (s : Str) (ts : List Tok) (hs : tokenize s = some ts)
    (hc : lastIsText ts = false) (t : Str) (us : List Tok) (ht : tokenize t = some us) :
    tokenize (s ++ t) = some (ts ++ us) :=
  cat_of_closed s ts hs hc t us ht

/-- "no read beyond the end tag", step form: one `RawToken` call on input that begins with `<`
    (a start, empty-element or end tag, a comment, a CDATA section, a processing instruction)
    yields the same tokens whatever follows, and leaves exactly the unread rest followed by it;
    `tokF`/`tokenize` are by definition the iteration of `step` -/
theorem C19_tok_step_no_overread (r t : Str) (tk : List Tok) (rest : Str)
    (h : step ('<' :: r) = some (tk, rest)) :
    step ('<' :: (r ++ t)) = some (tk, rest ++ t) :=
  step_append_markup r t tk rest h

/-! ### bytes → tokenizer model → file loop -/

/-- the file written document by document and read back through the tokenizer model and the
    loop of `NewMapsFromXmlFile`: as many Maps as documents, in order, the i-th one `Fold.doc` of
    the i-th tree, and no error -/
theorem C19_tok_file (e : EncCfg) (hesc : e.escape = true) (cfg : DecCfg) (S : Strconv)
    (docs : List (Str × Node))
    (hsep : ∀ d ∈ docs, wsOk d.1 = true) (hW : ∀ d ∈ docs, WellNamed d.2 = true)
    (he : ∀ d ∈ docs, Files.isElem d.2 = true) (trail : Str) (htrail : wsOk trail = true)
    (f : Nat) (hf : docs.length < f) :
    readMapsXml cfg S .eof f (Tokz.tokens (xmlDocsBytes e docs trail)) []
      = ⟨docs.map (fun d => Fold.doc cfg S d.2), false⟩ := by
  unfold Tokz.tokens
  rw [C19_tok_file_tokens e hesc docs hsep hW he trail htrail]
  have hwf := xmlDocsToks_wf docs he
  have := C19_xml_file cfg S (xmlDocsToks docs) hwf.1 hwf.2 (sepToks trail) (sepToks_noStart trail)
    f (by simpa [xmlDocsToks] using hf)
  simpa [xmlDocsToks, List.map_map, Function.comp_def] using this

/-- … and the i-th Map read is the Map `NewMapXml` reads from the i-th document's own bytes -/
theorem C19_tok_file_same_as_single (e : EncCfg) (hesc : e.escape = true) (cfg : DecCfg)
    (S : Strconv) (docs : List (Str × Node))
    (hsep : ∀ d ∈ docs, wsOk d.1 = true) (hW : ∀ d ∈ docs, WellNamed d.2 = true)
    (he : ∀ d ∈ docs, Files.isElem d.2 = true) (trail : Str) (htrail : wsOk trail = true)
    (f : Nat) (hf : docs.length < f) :
    ∃ rs, readMapsXml cfg S .eof f (Tokz.tokens (xmlDocsBytes e docs trail)) [] = ⟨rs, false⟩ ∧
      rs.length = docs.length ∧
      ∀ (i : Nat) (h1 : i < rs.length) (h2 : i < docs.length) (fin : StreamEnd),
        newMapXml cfg S (Tokz.tokens (render e docs[i].2)) fin = .ok rs[i] := by
  refine ⟨_, C19_tok_file e hesc cfg S docs hsep hW he trail htrail f hf, by simp, ?_⟩
  intro i h1 h2 fin
  rw [List.getElem_map]
  have hm := List.getElem_mem h2
  have hw := hW _ hm
  have hel := he _ hm
  generalize docs[i] = d at hw hel
  unfold Tokz.tokens
  rw [C02.C02_tok_escaped e d.2 hesc hw]
  obtain ⟨sep, t⟩ := d
  cases t with
  | elem sp name attrs kids =>
    have a := newMapXml_tree cfg S fin [] [] (by simp) sp name attrs kids
    simpa using a
  | text _ => simp [Files.isElem] at hel
  | comment _ => simp [Files.isElem] at hel
  | procinst _ _ => simp [Files.isElem] at hel
  | directive _ => simp [Files.isElem] at hel

/-- on C01's domain the Maps read from the bytes are the conventions' Maps -/
theorem C19_tok_file_conventions (e : EncCfg) (hesc : e.escape = true) (cfg : DecCfg)
    (S : Strconv) (docs : List (Str × Node))
    (hsep : ∀ d ∈ docs, wsOk d.1 = true) (hW : ∀ d ∈ docs, WellNamed d.2 = true)
    (he : ∀ d ∈ docs, Files.isElem d.2 = true)
    (hdom : ∀ d ∈ docs, Conv.inDomain cfg S d.2 = true)
    (trail : Str) (htrail : wsOk trail = true) (f : Nat) (hf : docs.length < f) :
    ∃ rs, readMapsXml cfg S .eof f (Tokz.tokens (xmlDocsBytes e docs trail)) [] = ⟨rs, false⟩ ∧
      rs.length = docs.length ∧
      ∀ (i : Nat) (h1 : i < rs.length) (h2 : i < docs.length),
        rs[i] ≈ᵥ Conv.doc cfg S docs[i].2 := by
  refine ⟨_, C19_tok_file e hesc cfg S docs hsep hW he trail htrail f hf, by simp, ?_⟩
  intro i h1 h2
  rw [List.getElem_map]
  have hm := List.getElem_mem h2
  have hw := hW _ hm
  unfold WellNamed at hw
  simp only [Bool.and_eq_true] at hw
  exact doc_equiv cfg S _ (fold_equiv_conv cfg S _ (hdom _ hm) hw.2)

/-- the handler form (`HandleXmlReader` with a handler that stops at the `b`-th Map): the first
    `b` Maps, no error, and what follows the documents may be ANY input the tokenizer accepts -/
theorem C19_tok_handler_stops (e : EncCfg) (hesc : e.escape = true) (cfg : DecCfg) (S : Strconv)
    (fin : StreamEnd) (docs : List (Str × Node))
    (hsep : ∀ d ∈ docs, wsOk d.1 = true) (hW : ∀ d ∈ docs, WellNamed d.2 = true)
    (he : ∀ d ∈ docs, Files.isElem d.2 = true) (rest : Str) (us : List Tok)
    (hrest : tokenize rest = some us) (b : Nat) (hb : b ≤ docs.length) (f : Nat) (hf : b < f) :
    handleXml cfg S fin f b (Tokz.tokens (xmlDocsBytes e docs rest)) []
      = ⟨(docs.take b).map (fun d => Fold.doc cfg S d.2), false⟩ := by
  unfold Tokz.tokens
  rw [tokenize_xmlDocs_then e hesc docs hsep hW he rest us hrest]
  have hwf := xmlDocsToks_wf docs he
  have := C19_xml_handler_stops cfg S fin (xmlDocsToks docs) hwf.1 hwf.2 b
    (by simpa [xmlDocsToks] using hb) us f hf
  simpa [xmlDocsToks, List.map_map, Function.comp_def, List.map_take] using this

/-! ### Maps → `XmlString` bytes → Maps -/

/-- `m` is written (default options, `mv.Xml()`) as the rendering of the well-named element tree
    `n`, whose own decoding is equivalent to `m` -/
def Written (S : Strconv) (m : Entries) (n : Node) : Prop :=
  mapXml ec m none = .ok (render ec n) ∧ WellNamed n = true ∧ Files.isElem n = true ∧
    Fold.doc dc S n ≈ᵥ .map m

/-- the Map decoded from an in-domain document is `Written` (the chain of `C02_fixed_point_bytes`;
    same hypotheses) -/
theorem C19_tok_written_of_decoded (S : Strconv)
    (fin : StreamEnd) (pre post : List Tok) (hpre : ∀ t ∈ pre, ¬ isStart t)
    (sp name : Str) (attrs : List Attr) (kids : List Node)
    (hd : Conv.inDomain dc S (.elem sp name attrs kids) = true)
    (hadj : noAdjText (.elem sp name attrs kids) = true)
    (hnames : NamesOk (.elem sp name attrs kids) = true)
    (hwn : ∀ n, encTree ec name (Conv.value dc S (.elem sp name attrs kids)).norm = .ok [n] →
      WellNamed n = true) :
    ∃ m n, newMapXml dc S (pre ++ flatten (.elem sp name attrs kids) ++ post) fin = .ok (.map m)
      ∧ Written S m n := by
  obtain ⟨x, hx, hxe⟩ := C01.C01_decode_one_root dc S fin pre post hpre sp name attrs kids hd hadj
  have hD := C02.C02_decoded S sp name attrs kids hd hnames
  have hm1 : Val.map [(name, x)] ≈ᵥ Val.map [(name, Conv.value dc S (.elem sp name attrs kids))] := by
    unfold Val.equiv at hxe ⊢
    simp only [norm_singleton_map, hxe]
  obtain ⟨n, hn, hdoc, hv⟩ := fixed_point_value S sp name attrs kids hd hnames
  have hbytes : mapXml ec [(name, x)] none = .ok (render ec n) := by
    rw [C16.C16_mapXml_perm_invariant ec _ _ none hm1, C02.mapXml_decoded name _ hD,
      C02.C02_render_eq_bytes ec name _ [n] (Decoded_Plain _ hD) hn]
    simp
  have hW := hwn n hn
  obtain ⟨a', k', e⟩ := encTree_single ec name _ [n] (by
    have := Decoded_norm _ hD
    unfold Decoded at this
    simp only [Bool.and_eq_true, Bool.not_eq_true'] at this
    exact this.1) hn
  have e' : n = .elem [] name a' k' := by simpa using e
  subst e'
  have hdom : Conv.inDomain dc S (.elem [] name a' k') = true := by
    obtain ⟨_, _, e, h⟩ := encTree_dom S name _ _ hn _ (List.mem_singleton.2 rfl)
    exact h
  have hadj' : noAdjText (.elem [] name a' k') = true := by
    unfold WellNamed at hW
    simp only [Bool.and_eq_true] at hW
    exact hW.2
  refine ⟨[(name, x)], .elem [] name a' k', hx, hbytes, hW, rfl, ?_⟩
  refine Val.equiv_trans (doc_equiv dc S _ (fold_equiv_conv dc S _ hdom hadj')) ?_
  rw [hdoc]
  unfold Val.equiv at hv hxe ⊢
  simp only [norm_singleton_map, hv, hxe]

/-- Maps → `Maps.XmlString()` (what `XmlFile` writes: the encodings one after another) →
    tokenizer model → `NewMapsFromXmlFile` loop: the writer succeeds, the reader returns no
    error and as many Maps as were written, in order, each equivalent to the Map written
    (`ps`: the Maps `p.1` with the trees `p.2` they are `Written` as) -/
theorem C19_tok_xmlstring_roundtrip (S : Strconv) (ps : List (Entries × Node))
    (h : ∀ p ∈ ps, Written S p.1 p.2) (f : Nat) (hf : ps.length < f) :
    ∃ bytes rs, xmlString ec (ps.map (·.1)) = .ok bytes ∧
      readMapsXml dc S .eof f (Tokz.tokens bytes) [] = ⟨rs, false⟩ ∧
      rs.length = ps.length ∧
      ∀ (i : Nat) (h1 : i < rs.length) (h2 : i < ps.length), rs[i] ≈ᵥ Val.map ps[i].1 := by
  have hbytes : xmlString ec (ps.map (·.1))
      = .ok (xmlDocsBytes ec (ps.map (fun p => (([] : Str), p.2))) []) := by
    clear hf
    induction ps with
    | nil => rfl
    | cons p ps ih =>
      have hw := h p (List.mem_cons_self ..)
      have ih' := ih (fun q hq => h q (List.mem_cons_of_mem _ hq)) 
      simp only [List.map_cons, xmlString, hw.1, ih']
      simp [xmlDocsBytes, fileBytes]
  refine ⟨_, (ps.map (fun p => (([] : Str), p.2))).map (fun d => Fold.doc dc S d.2), hbytes, ?_,
    by simp, ?_⟩
  · have := C19_tok_file ec rfl dc S (ps.map (fun p => (([] : Str), p.2)))
      (by intro d hd; obtain ⟨p, _, rfl⟩ := List.mem_map.1 hd; rfl)
      (by intro d hd; obtain ⟨p, hp, rfl⟩ := List.mem_map.1 hd; exact (h p hp).2.1)
      (by intro d hd; obtain ⟨p, hp, rfl⟩ := List.mem_map.1 hd; exact (h p hp).2.2.1)
      [] rfl f (by simpa using hf)
    exact this
  · intro i h1 h2
    simp only [List.getElem_map]
    exact (h _ (List.getElem_mem h2)).2.2.2

/-! ### non-vacuity -/

/-- the sample file `<a …>…</a>␤<s>…</s><a …>…</a>␤`: three documents, the last two adjacent -/
def tokDocs : List (Str × Node) :=
  [([], C02.tokTree), ("\n".toList, exDoc2), ([], C02.tokTree)]

example : (∀ d ∈ tokDocs, wsOk d.1 = true) ∧ (∀ d ∈ tokDocs, WellNamed d.2 = true) ∧
    (∀ d ∈ tokDocs, Files.isElem d.2 = true) := by decide

example : xmlDocsBytes ec [([], .elem [] "a".toList [] []), ("\n".toList, .elem [] "b".toList [] [.text "x".toList])]
    "\n".toList = "<a/>\n<b>x</b>\n".toList := by decide

example : readMapsXml {} S0 .eof 4 (Tokz.tokens (xmlDocsBytes ec tokDocs "\n".toList)) []
    = ⟨tokDocs.map (fun d => Fold.doc {} S0 d.2), false⟩ :=
  C19_tok_file ec rfl {} S0 tokDocs (by decide) (by decide) (by decide) _ (by decide) 4 (by decide)

example : tokenize (render ec C02.tokTree ++ " \n".toList ++ render ec exDoc2)
    = some (flatten C02.tokTree ++ [Tok.text " \n".toList] ++ flatten exDoc2) :=
  C19_tok_two_docs ec rfl _ _ _ (by decide) (by decide) (by decide) (by decide) (by decide)

/-- `Written` on a concrete Map: `{"a": {"-k":"v", "#text":"x"}}` is written as `<a k="v">x</a>` -/
example : Written S0 [("a".toList, .map [("-k".toList, .str "v".toList), ("#text".toList, .str "x".toList)])]
    (.elem [] "a".toList [⟨[], "k".toList, "v".toList⟩] [.text "x".toList]) := by
  refine ⟨by rfl, by decide, by decide, ?_⟩
  unfold Val.equiv
  decide +kernel

/-! ### the junction conditions are needed -/

/-- the general law on input outside the encoder's subset: a declaration and a comment, then a
    document with a prefixed name, single quotes and a CDATA section (the first part ends in
    character data, the second begins with `<`) -/
example : tokenize ("<?xml version=\"1.0\"?>\n<!--c-->\n".toList ++ "<p:a k = 'v'><![CDATA[<&]]></p:a >".toList)
    = some ([.procinst "xml".toList "version=\"1.0\"".toList, .text "\n".toList, .comment "c".toList,
             .text "\n".toList] ++
            [.start "p".toList "a".toList [⟨[], "k".toList, "v".toList⟩], .text "<&".toList,
             .stop "p".toList "a".toList]) :=
  C19_tok_cat _ _ _ _ (by decide) (by decide) (by decide)

/-- `junctionOk` is needed, and it is exact for the witness below: both parts are accepted, the
    first ends and the second begins in character data, and the tokens merge -/
example : junctionOk [.start [] "a".toList [], .stop [] "a".toList, .text "x".toList] "y<b/>".toList
    = false := by decide



/-- character data at the junction MERGES: the tokens of `a ++ b` are not the tokens of `a`
    followed by the tokens of `b` when `a` ends and `b` begins inside character data … -/
example : tokenize "<a/>x".toList = some [.start [] "a".toList [], .stop [] "a".toList, .text "x".toList]
    ∧ tokenize "y<b/>".toList = some [.text "y".toList, .start [] "b".toList [], .stop [] "b".toList]
    ∧ tokenize ("<a/>x".toList ++ "y<b/>".toList)
        = some [.start [] "a".toList [], .stop [] "a".toList, .text "xy".toList,
                .start [] "b".toList [], .stop [] "b".toList] := by decide

/-- … so a document that is a lone text node (not an element) does not compose with a
    separator: `isElem` is needed in `C19_tok_two_docs` -/
example : tokenize (render ec (.text "x".toList) ++ " ".toList ++ render ec (.elem [] "b".toList [] []))
    ≠ some (flatten (.text "x".toList) ++ sepToks " ".toList ++ flatten (.elem [] "b".toList [] [])) := by
  decide

/-- a separator that is not white space need not be character data at all: `wsOk` is needed -/
example : tokenize (render ec (.elem [] "a".toList [] []) ++ "&".toList ++ render ec (.elem [] "b".toList [] []))
    = none := by decide

end Mxj.C19
