/-
  Mxj.Props.C09 — LeafNodes returns exactly one entry per scalar value in the Map, with the
  value itself and a path that resolves to exactly that one value; LeafPaths / LeafValues are
  its projections; the no-attributes option removes exactly the attribute entries and the
  text-key path segment.  Property theorems only; helper lemmas live in Mxj.Lemmas.Leaf.

  Model: Mxj.Model.Leaf (`getLeafNodes`, `leafNodes`, `leafPaths`, `leafValues`).
  Specification: Mxj.Model.Leaf (`leafSegs`, `scalars`, `segIsAttr`, `stripSegs`, `renderSegs`)
  and, for resolution, Mxj.Model.Denote (`Denote.path`, `Denote.valuesForPath`).
-/
import Mxj.Lemmas.Leaf
namespace Mxj.C09
open Mxj

/-- one entry per scalar, in traversal order, whatever the keys look like -/
theorem C09_enumerates (cfg : LeafCfg) (m : Val) :
    (leafNodes cfg false m).map (·.value) = scalars m := by
  rw [leafNodes_spec cfg false (fun h => by cases h) m]
  simp only [leafView, Bool.false_eq_true, if_false, List.map_map]
  exact leafSegs_values m

/-
  `C09_is_spec`, as first stated (no side condition), is FALSE:

    theorem C09_is_spec (cfg : LeafCfg) (noattr : Bool) (m : Val) :
        leafNodes cfg noattr m =
          ((if noattr then
              ((leafSegs m).filter fun pv => !pv.1.any (segIsAttr cfg)).map
                fun pv => (stripSegs cfg pv.1, pv.2)
            else leafSegs m).map fun pv => (⟨renderSegs cfg [] pv.1, pv.2⟩ : Leaf))

  `getLeafNodes` drops *any* node string equal to the text key when `noattr` is set — also the
  node string "[i]" (or "i" in dot notation) of a list member.  With the absurd text key "[0]":
  `LeafNodes(true)` of `{"a": ["x"]}` has the path "a", the specification says "a[0]"
  (machine-checked below: `C09_is_spec_needs_htext`).  The hypothesis `htext` — no list-node
  string is the text key, needed only when `noattr = true` — is the only thing added.
-/

/-- the model is the segment-level specification: every scalar with its rendered segment path;
    with the no-attributes option, scalars below an attribute entry are dropped and text-key
    segments are skipped.
    HYPOTHESIS ADDED: `htext` (only constrains the `noattr = true` case; see above). -/
theorem C09_is_spec (cfg : LeafCfg) (noattr : Bool) (m : Val)
    (htext : noattr = true → ∀ i, listNode cfg i ≠ cfg.textK) :
    leafNodes cfg noattr m =
      ((if noattr then
          ((leafSegs m).filter fun pv => !pv.1.any (segIsAttr cfg)).map fun pv => (stripSegs cfg pv.1, pv.2)
        else leafSegs m).map fun pv => (⟨renderSegs cfg [] pv.1, pv.2⟩ : Leaf)) :=
  leafNodes_spec cfg noattr htext m

/-- with attributes kept the statement holds for every configuration, unconditionally -/
theorem C09_is_spec_keep_attrs (cfg : LeafCfg) (m : Val) :
    leafNodes cfg false m = (leafSegs m).map fun pv => (⟨renderSegs cfg [] pv.1, pv.2⟩ : Leaf) := by
  simpa using C09_is_spec cfg false m (fun h => by cases h)

/-- `htext` holds for every text key that does not start with "[" and is not all digits
    (in particular for "#text"), in both notations -/
theorem C09_is_spec_sane_textkey (cfg : LeafCfg) (noattr : Bool) (m : Val)
    (hb : hasPrefix ['['] cfg.textK = false) (hd : cfg.textK.all isDigit = false) :
    leafNodes cfg noattr m =
      ((if noattr then
          ((leafSegs m).filter fun pv => !pv.1.any (segIsAttr cfg)).map fun pv => (stripSegs cfg pv.1, pv.2)
        else leafSegs m).map fun pv => (⟨renderSegs cfg [] pv.1, pv.2⟩ : Leaf)) :=
  C09_is_spec cfg noattr m (fun _ => listNode_ne_of cfg hb hd)

/-- the counterexample that forces `htext`: text key "[0]", Map `{"a": ["x"]}`, no-attributes -/
theorem C09_is_spec_needs_htext :
    let cfg : LeafCfg := ⟨['-'], ['[', '0', ']'], false⟩
    let m : Val := .map [(['a'], .list [.str ['x']])]
    (leafNodes cfg true m).map (·.path) = [['a']]
    ∧ (((leafSegs m).filter fun pv => !pv.1.any (segIsAttr cfg)).map
          fun pv => renderSegs cfg [] (stripSegs cfg pv.1)) = [['a', '[', '0', ']']] := by
  decide

theorem C09_projections (cfg : LeafCfg) (noattr : Bool) (m : Val) :
    leafPaths cfg noattr m = (leafNodes cfg noattr m).map (·.path)
    ∧ leafValues cfg noattr m = (leafNodes cfg noattr m).map (·.value) :=
  ⟨rfl, rfl⟩

/-
  `C09_resolves_denote`, as first stated (without `hfit`), is false in principle:
  `parsePath` reads an index with `strconv.ParseInt(·, 10, 32)`, whose range check rejects
  every index above 2147483647 (`parseInt32_natToStr`: `parseInt32 (natToStr i) =
  if i ≤ 2147483647 then some i else none`, for ALL `i`).  So the leaf path of member
  number 2147483648 of a list does not parse.  `hfit : listsFit (.map kvs) = true` says every
  list in the Map has at most 2^31 members, i.e. every index is ≤ 2147483647.

    theorem C09_resolves_denote (cfg : LeafCfg) (hdot : cfg.useDot = false) (kvs : Entries)
        (hs : KeySpec.pathSafe (.map kvs) = true) (hn : Denote.noListInList (.map kvs) = true)
        (hwf : (Val.map kvs).wf = true) :
        ∀ pv ∈ leafSegs (.map kvs),
          parsePath (renderSegs cfg [] pv.1) = .ok (segKeys pv.1)
          ∧ Denote.path ((segKeys pv.1).map Denote.keyStep) (.map kvs) = [pv.2]
-/

/-- every leaf of a path-safe Map without nested lists: its rendered path parses back to its
    keys, and the path denotes exactly that one value.
    HYPOTHESIS ADDED: `hfit` (list lengths ≤ 2^31; forced by `ParseInt(·, 10, 32)`). -/
theorem C09_resolves_denote (cfg : LeafCfg) (hdot : cfg.useDot = false) (kvs : Entries)
    (hs : KeySpec.pathSafe (.map kvs) = true) (hn : Denote.noListInList (.map kvs) = true)
    (hwf : (Val.map kvs).wf = true) (hfit : listsFit (.map kvs) = true) :
    ∀ pv ∈ leafSegs (.map kvs),
      parsePath (renderSegs cfg [] pv.1) = .ok (segKeys pv.1)
      ∧ Denote.path ((segKeys pv.1).map Denote.keyStep) (.map kvs) = [pv.2] :=
  leaf_resolves cfg hdot kvs ⟨hs, hn, hwf, hfit⟩

/-- the same, read off the entries `LeafNodes` returns: every returned path parses, and the
    parsed keys denote exactly the returned value -/
theorem C09_resolves_leafNodes (cfg : LeafCfg) (hdot : cfg.useDot = false) (kvs : Entries)
    (hs : KeySpec.pathSafe (.map kvs) = true) (hn : Denote.noListInList (.map kvs) = true)
    (hwf : (Val.map kvs).wf = true) (hfit : listsFit (.map kvs) = true) :
    ∀ l ∈ leafNodes cfg false (.map kvs),
      ∃ keys, parsePath l.path = .ok keys
        ∧ Denote.path (keys.map Denote.keyStep) (.map kvs) = [l.value] := by
  intro l hl
  rw [C09_is_spec_keep_attrs] at hl
  obtain ⟨pv, hpv, e⟩ := List.mem_map.1 hl
  subst e
  obtain ⟨h1, h2⟩ := C09_resolves_denote cfg hdot kvs hs hn hwf hfit pv hpv
  exact ⟨segKeys pv.1, h1, h2⟩

/-- every path `LeafNodes` returns lies in the domain of the C07 specification of
    `ValuesForPath` (`Denote.valuesForPath`, no sub-keys), which yields exactly the returned
    value — whether or not the path contains an index -/
theorem C09_resolves_spec (cfg : LeafCfg) (hdot : cfg.useDot = false) (kvs : Entries)
    (hs : KeySpec.pathSafe (.map kvs) = true) (hn : Denote.noListInList (.map kvs) = true)
    (hwf : (Val.map kvs).wf = true) (hfit : listsFit (.map kvs) = true)
    (sep : Str) (pf : Str → Option Str) :
    ∀ l ∈ leafNodes cfg false (.map kvs),
      Denote.valuesForPath sep pf (.map kvs) l.path [] = some [l.value] := by
  intro l hl
  rw [C09_is_spec_keep_attrs] at hl
  obtain ⟨pv, hpv, e⟩ := List.mem_map.1 hl
  subst e
  exact leaf_resolves_spec cfg hdot kvs ⟨hs, hn, hwf, hfit⟩ sep pf pv hpv

/-- the int32 bound is forced, not an artefact: an index above 2147483647 never parses back -/
theorem C09_resolves_bound_forced (i : Nat) (hi : 2147483647 < i) :
    parseInt32 (natToStr i) = none := by
  rw [parseInt32_natToStr]
  have : ¬ i ≤ 2147483647 := by omega
  simp [this]

/-! ### non-vacuity: a Map with an attribute key "-x", a "#text" key and a list of maps -/

-- the example Map `leafExMap` and configuration `leafExCfg` are defined in Mxj.Lemmas.Leaf

/-- the hypotheses of `C09_resolves_denote` and `htext` hold of the example -/
example : KeySpec.pathSafe (.map leafExMap) = true ∧ Denote.noListInList (.map leafExMap) = true
    ∧ (Val.map leafExMap).wf = true ∧ listsFit (.map leafExMap) = true
    ∧ leafExCfg.useDot = false ∧ (∀ i, listNode leafExCfg i ≠ leafExCfg.textK) :=
  ⟨by decide, by decide, by decide, by decide, rfl, listNode_ne_of leafExCfg (by decide) (by decide)⟩

/-- what LeafNodes returns on it, attributes kept -/
example : (leafNodes leafExCfg false (.map leafExMap)).map (fun l => (l.path, l.value)) =
    [("doc.-x".toList, .str ['1']), ("doc.#text".toList, .str ['h','i']),
     ("doc.it[0].a".toList, .num ['i',':','1']), ("doc.it[1].a".toList, .num ['i',':','2']),
     ("doc.it[1].-y".toList, .bool true)] := by
  decide

/-- … and with the no-attributes option: "-x", "-y" gone, "#text" skipped in the path -/
example : (leafNodes leafExCfg true (.map leafExMap)).map (fun l => (l.path, l.value)) =
    [("doc".toList, .str ['h','i']),
     ("doc.it[0].a".toList, .num ['i',':','1']), ("doc.it[1].a".toList, .num ['i',':','2'])] := by
  decide

/-- the resolution clause instantiated at the fourth leaf, "doc.it[1].a" -/
example :
    parsePath ['d','o','c','.','i','t','[','1',']','.','a']
      = .ok [⟨['d','o','c'], false, 0⟩, ⟨['i','t'], true, 1⟩, ⟨['a'], false, 0⟩]
    ∧ Denote.path ([⟨['d','o','c'], false, 0⟩, ⟨['i','t'], true, 1⟩, ⟨['a'], false, 0⟩].map Denote.keyStep)
        (.map leafExMap) = [.num ['i',':','2']] := by
  have h := C09_resolves_denote leafExCfg rfl leafExMap (by decide) (by decide) (by decide) (by decide)
    ([.key ['d','o','c'], .key ['i','t'], .idx 1, .key ['a']], .num ['i',':','2']) (by decide)
  have e : renderSegs leafExCfg [] [.key ['d','o','c'], .key ['i','t'], .idx 1, .key ['a']]
      = ['d','o','c','.','i','t','[','1',']','.','a'] := by decide
  have e' : segKeys [.key ['d','o','c'], .key ['i','t'], .idx 1, .key ['a']]
      = [⟨['d','o','c'], false, 0⟩, ⟨['i','t'], true, 1⟩, ⟨['a'], false, 0⟩] := rfl
  rw [e, e'] at h
  exact h

end Mxj.C09
