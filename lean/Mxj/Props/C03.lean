/-
  Mxj.Props.C03 — "JSON-shaped data survives encoding" (tree level, default options).

  Encoding a JSON-shaped value (maps, lists, strings, numbers, booleans, null) with the compact
  encoder and reading the result back with the documented decoding conventions returns the
  same keys and nesting with every scalar rendered as its (trimmed) text, every list as
  repeated elements in list order, "-"-prefixed scalar entries as attributes and the text key
  as element content; nothing is dropped, reordered within a list or attached to a different
  parent; null, empty string, empty list and empty map all become an empty element.  That
  target is `image` (Model/EncTree.lean), and the theorems say that `Conv.value` on the
  encoder's tree `encTree` IS `image` — exactly (`=`) for the value the encoder walks
  (`v.norm`), and up to map-entry order (`≈ᵥ`) for `v` itself.

  From trees to bytes: `Mxj.C02.C02_marshal_eq_render` (bytes = canonical rendering of the
  tree) and the tokenizer law `Mxj.C02.TokLaw` (trusted base).
-/
import Mxj.Lemmas.Encode
namespace Mxj.C03
open Mxj Mxj.Enc

/-- the encoder accepts every value of the domain: maps with distinct keys whose attribute
    entries and text-key entries are strings, numbers or booleans -/
theorem C03_encode_succeeds (key : Str) (v : Val) (hdom : EncDomain v = true) :
    ∃ ns, encTree ec key v.norm = .ok ns :=
  encTree_ok key v.norm (EncDomain_norm v hdom)

/-- core statement, for ANY entry order: applying the decoding conventions to the sibling
    trees the encoder builds for `v` under `key` gives exactly `{key: image v}`.
    Only hypothesis: maps have distinct keys (`Val.wf`) — success of the encoder is `h`. -/
theorem C03_tree_preserves (S : Strconv) (key : Str) (v : Val) (hwf : v.wf = true)
    (ns : List Node) (h : encTree ec key v = .ok ns) :
    siblingsValue dc S ns = imageUnder key v :=
  siblingsValue_encTree S key v ns hwf h

/-- the same, sibling by sibling: every tree is an element named `key`, and their values are,
    in order, the sibling images of `v` (a list contributes its members' images in list order,
    nested lists flattened; everything else exactly one) -/
theorem C03_siblings (S : Strconv) (key : Str) (v : Val) (hwf : v.wf = true)
    (ns : List Node) (h : encTree ec key v = .ok ns) :
    Conv.childVals dc S 0 ns = (imageSibs v).map (key, ·) :=
  childVals_encTree S key v ns hwf h

/-- for the value the encoder actually walks (entries sorted by key) -/
theorem C03_encode_preserves_norm (S : Strconv) (key : Str) (v : Val) (hwf : v.wf = true)
    (ns : List Node) (h : encTree ec key v.norm = .ok ns) :
    siblingsValue dc S ns = imageUnder key v.norm :=
  siblingsValue_encTree S key v.norm ns (wf_norm v hwf) h

/-- C03: folding the decoder conventions over the produced sibling trees gives the image
    (`EncDomain` is only used through `Val.wf`; see `C03_encode_preserves'`) -/
theorem C03_encode_preserves (S : Strconv) (key : Str) (v : Val) (hdom : EncDomain v = true)
    (ns : List Node) (h : encTree ec key v.norm = .ok ns) :
    siblingsValue dc S ns ≈ᵥ imageUnder key v := by
  have hwf := EncDomain_wf v hdom
  rw [C03_encode_preserves_norm S key v hwf ns h]
  have := image_norm v hwf
  unfold Val.equiv at this ⊢
  simp only [imageUnder, norm_singleton_map, this]

theorem C03_encode_preserves' (S : Strconv) (key : Str) (v : Val) (hwf : v.wf = true)
    (ns : List Node) (h : encTree ec key v.norm = .ok ns) :
    siblingsValue dc S ns ≈ᵥ imageUnder key v := by
  rw [C03_encode_preserves_norm S key v hwf ns h]
  have := image_norm v hwf
  unfold Val.equiv at this ⊢
  simp only [imageUnder, norm_singleton_map, this]

/-- existence form: on the domain the encoder succeeds and its tree decodes to the image -/
theorem C03_roundtrip (S : Strconv) (key : Str) (v : Val) (hdom : EncDomain v = true) :
    ∃ ns, encTree ec key v.norm = .ok ns ∧ siblingsValue dc S ns ≈ᵥ imageUnder key v := by
  obtain ⟨ns, h⟩ := C03_encode_succeeds key v hdom
  exact ⟨ns, h, C03_encode_preserves S key v hdom ns h⟩

/-! ### what `image` says, clause by clause -/

/-- null, the empty string, the empty list and the empty map all become an empty element -/
theorem C03_image_empties :
    image .null = .str [] ∧ image (.str []) = .str [] ∧ image (.list []) = .str []
      ∧ image (.map []) = .str [] := ⟨rfl, rfl, rfl, rfl⟩

/-- a scalar comes back as its `%v` text, trimmed -/
theorem C03_image_str (s : Str) : image (.str s) = .str (trimD s) := rfl
theorem C03_image_num (t : Str) : image (.num t) = .str (trimD (numText t)) := rfl
theorem C03_image_bool (b : Bool) :
    image (.bool b) = .str (if b then "true".toList else "false".toList) := by cases b <;> rfl

/-- a list comes back as its members' images, in list order, nested lists flattened; a single
    resulting sibling is stored directly, several as a list -/
theorem C03_image_list (x : Val) (xs : List Val) :
    image (.list (x :: xs)) = collectV (imageSibs x ++ imageMembers xs) := rfl

/-- a map comes back as: its attribute entries as strings, its other entries imaged under the
    same keys in the same order, and the text-key entry (trimmed; dropped when empty) -/
theorem C03_image_map (kvs : Entries) :
    image (.map kvs) = finishImage (imageAttrs kvs ++ imageElems kvs) (imageText kvs) := rfl

/-- nothing is dropped: every non-attribute, non-text key of a map is a key of the image -/
theorem C03_image_keys (kvs : Entries) :
    keys (imageElems kvs) = (keys kvs).filter isElemK := by
  induction kvs with
  | nil => rfl
  | cons e rest ih =>
    obtain ⟨k, v⟩ := e
    by_cases hs : (decide (k = ec.textK) || isAttrK ec k) = true
    · have he : isElemK k = false := by unfold isElemK; rw [hs]; rfl
      simp only [imageElems, hs, if_true, keys_cons, List.filter_cons, he, Bool.false_eq_true,
        if_false, ih]
    · have hs' : (decide (k = ec.textK) || isAttrK ec k) = false := by simpa using hs
      have he : isElemK k = true := by unfold isElemK; rw [hs']; rfl
      simp only [imageElems, hs', Bool.false_eq_true, if_false, keys_cons, List.filter_cons, he,
        if_true, ih]

theorem C03_image_attr_keys (kvs : Entries) :
    keys (imageAttrs kvs) = (keys kvs).filter (isAttrK ec) := by
  induction kvs with
  | nil => rfl
  | cons e rest ih =>
    obtain ⟨k, v⟩ := e
    by_cases ha : isAttrK ec k = true
    · simp only [imageAttrs, ha, if_true, keys_cons, List.filter_cons, ih]
    · have ha' : isAttrK ec k = false := by simpa using ha
      simp only [imageAttrs, ha', Bool.false_eq_true, if_false, keys_cons, List.filter_cons, ih]

/-! ### non-vacuity -/

/-- a JSON-shaped value with an attribute entry, a text entry, a list of two maps, an empty
    list and a null -/
def sample : Val := .map [
  ("note".toList, .map [("-id".toList, .num "i:7".toList), ("#text".toList, .str " a<b ".toList)]),
  ("item".toList, .list [.map [("n".toList, .num "f:1.5".toList)], .map [("n".toList, .bool true)]]),
  ("none".toList, .list []),
  ("z".toList, .null)]

example : EncDomain sample = true := by decide
example : Plain ec sample = true := by rfl

/-- its bytes -/
example : marshal ec "doc".toList sample = .ok
    "<doc><item><n>1.5</n></item><item><n>true</n></item><none/><note id=\"7\"> a&lt;b </note><z/></doc>".toList := by
  rfl

/-- its tree has one root -/
example : ∃ n, encTree ec "doc".toList sample.norm = .ok [n] := ⟨_, rfl⟩

/-- its image: scalars as text, the list as a list of two maps, the empty list and null as
    "", the attribute as a string, the text trimmed -/
example : image sample = .map [
    ("note".toList, .map [("-id".toList, .str "7".toList), ("#text".toList, .str "a<b".toList)]),
    ("item".toList, .list [.map [("n".toList, .str "1.5".toList)], .map [("n".toList, .str "true".toList)]]),
    ("none".toList, .str []),
    ("z".toList, .str [])] := by decide

/-- an attribute with a list value is outside the domain, and the encoder rejects it -/
example : EncDomain (.map [("-a".toList, .list [])]) = false := by decide
example : encTree ec "k".toList (.map [("-a".toList, .list [])]) = .error .other := rfl

/-! ### `AnyXml` (a list at the top: single-entry-map members unwrapped, others under the
  element tag) -/

/-- the tree `AnyXml(v, rt, et)` builds decodes to `{rt: anyImage v et}`: for a list, every
    member contributes its (normalised) image under its own tag (single-entry map with an
    element key) or under `et`, and repeated tags are grouped in list order by the decoder's
    grouping; for anything else `anyImage v et = image v.norm` -/
theorem C03_anyXml_preserves (S : Strconv) (v : Val) (rt et : Str) (ns : List Node)
    (hwf : v.wf = true) (h : anyTree ec v rt et = .ok ns) :
    siblingsValue dc S ns = .map [(rt, anyImage v et)] :=
  siblingsValue_anyTree S v rt et ns hwf h

/-- the `(tag, value)` sequence of a top-level list, member by member -/
theorem C03_anyPairs_cons_unwrapped (et tag : Str) (val : Val) (rest : List Val)
    (h : (decide (tag = ec.textK) || isAttrK ec tag) = false) :
    anyPairs et (.map [(tag, val)] :: rest)
      = (imageSibs val.norm).map (tag, ·) ++ anyPairs et rest := by
  simp only [anyPairs, h, Bool.false_eq_true, if_false]

example :
    let v := Val.list [.map [("a".toList, .num "i:1".toList)], .str "s".toList,
                       .map [("a".toList, .null)], .list [.bool true, .bool false]]
    anyXml ec v "doc".toList "element".toList = .ok
      "<doc><a>1</a><element>s</element><a/><element>true</element><element>false</element></doc>".toList
    ∧ anyImage v "element".toList = .map [
        ("a".toList, .list [.str "1".toList, .str []]),
        ("element".toList, .list [.str "s".toList, .str "true".toList, .str "false".toList])] :=
  ⟨rfl, by decide⟩

end Mxj.C03
