/-
  Mxj.Props.C02ExtTok — the tokenizer law of C02, PROVED for an executable tokenizer model
  instead of assumed.

  `C02_fixed_point_bytes`, `C02_sym_fixed_point_bytes` and `C02_escdec_fixed_point_bytes` take
  the XML tokenizer as a parameter `tokens : Str → List Tok` with the assumed law `TokLaw tokens`
  / `TokLawRaw tokens` ("tokenizing the canonical rendering of a well-named tree gives the
  tree's own token sequence").  `Model/Tokenizer.lean` is a small total tokenizer for the XML
  subset the encoders emit and a bit more (both quote styles, white space in tags, `p:l` names,
  CDATA, comments, processing instructions; entity and numeric references expanded by the
  existing model `unesc`; `\r` normalisation; the syntax errors of strict mode).  Here:

    * `C02_tok_raw`        the Option-aware law: under the hypotheses of `TokLawRaw` the model
                           tokenizer SUCCEEDS on `render cfg n`, with the tokens `flatten n'`;
    * `C02_tok_law_raw`    `TokLawRaw Tokz.tokens`     (every cfg with escaping off);
    * `C02_tok_law`        `TokLaw Tokz.tokens`        (every cfg with escaping on, every
                           `WellNamed` tree, both empty-element syntaxes, any attributes);
    * `C02_tok_escaped`    Option form of the latter;
    * `C02_tok_text_unescapes`  the key lemma: the character data `escapeChars v` is read back
                           as `v`;
    * `C02_tok_fixed_point_bytes`, `C02_tok_sym_fixed_point_bytes(_tb)`,
      `C02_tok_escdec_fixed_point_bytes`: the byte-level round trips with the tokenizer
      hypothesis discharged.

  The model is tied to `encoding/xml` by the harness: op `xtok` (Driver/OpsTok.lean) prints the
  model's tokens for a byte string, and harness/c02.go compares them with `xml.Decoder.RawToken`
  (and `Token` where no name-space translation applies) for every compact encoder output and for
  the generator's documents inside the supported subset.
-/
import Mxj.Lemmas.Tokenizer
import Mxj.Props.C02ExtEscDec
namespace Mxj.C02
open Mxj Mxj.Enc Mxj.EncSym Mxj.EscDec Mxj.Tokz

/-- Option-aware tokenizer law for raw text: with the encoder's escaping off, if every raw value
    `r` of `n` is well-formed character data (`rawView n = some n'`: `unesc r = some v`), holds
    no raw `<`, `>`, `"` (`rawSafe`), and the tree `n'` of the `v`s is well-named, then the model
    tokenizer accepts `render cfg n` and returns exactly the token sequence of `n'`. -/
theorem C02_tok_raw (cfg : EncCfg) (n n' : Node) (hesc : cfg.escape = false)
    (hv : rawView n = some n') (hs : rawSafe n = true) (hW : WellNamed n' = true) :
    tokenize (render cfg n) = some (flatten n') :=
  tokenize_render cfg hesc n n' hv hs hW

/-- `TokLawRaw` holds for the tokenizer model -/
theorem C02_tok_law_raw : TokLawRaw Tokz.tokens := by
  constructor
  intro cfg n n' hesc hv hs hW
  unfold Tokz.tokens
  rw [C02_tok_raw cfg n n' hesc hv hs hW]
  rfl

/-- `TokLaw` holds for the tokenizer model: for EVERY encoder configuration with escaping on and
    EVERY well-named tree, tokenizing the rendering gives the flattening -/
theorem C02_tok_law : TokLaw Tokz.tokens := C02_escdec_raw_law_implies_law C02_tok_law_raw

/-- … in Option form: the tokenizer does not fail on the encoder's escaped output -/
theorem C02_tok_escaped (cfg : EncCfg) (n : Node) (hesc : cfg.escape = true)
    (hW : WellNamed n = true) : tokenize (render cfg n) = some (flatten n) := by
  have hcfg : escOn (escOff cfg) = cfg := by
    cases cfg
    simp only [escOn, escOff] at hesc ⊢
    simp only [hesc]
  have hr := render_mapNode_escape (escOff cfg) rfl n
  rw [hcfg] at hr
  rw [← hr]
  exact C02_tok_raw (escOff cfg) _ n rfl (rawView_mapNode_escape n) (rawSafe_mapNode_escape n) hW

/-- the key lemma: the run `escapeChars v` of character data (or attribute value) is handed
    back as `v`, for every `v` of XML characters without '\r' -/
theorem C02_tok_text_unescapes (v : Str) (hv : xmlCharsOk v = true) :
    lexChars (escapeChars v) = some v :=
  lexChars_ok _ v (valOk_of_raw _ v (rawSafeStr_escape v) (unesc_escapeChars v) hv)
    (unesc_escapeChars v) hv

/-- every step consumes input: the fuel `tokenize` uses (input length + 1) is enough for any
    result obtainable with any fuel -/
theorem C02_tok_fuel_enough (g : Nat) (s : Str) (ts : List Tok) (h : tokF g s = some ts) :
    tokenize s = some ts := tokenize_of_tokF g s ts h

/-! ### the byte-level fixed points without a tokenizer hypothesis -/

/-- `C02_fixed_point_bytes` with the tokenizer model in place of the assumed tokenizer:
    decode, encode with `mv.Xml()` (escaping on), tokenize the bytes with `Tokz.tokens`, decode
    again — the second Map is equivalent to the first -/
theorem C02_tok_fixed_point_bytes (S : Strconv)
    (fin : StreamEnd) (pre post : List Tok) (hpre : ∀ t ∈ pre, ¬ isStart t)
    (sp name : Str) (attrs : List Attr) (kids : List Node)
    (hd : Conv.inDomain dc S (.elem sp name attrs kids) = true)
    (hadj : noAdjText (.elem sp name attrs kids) = true)
    (hnames : NamesOk (.elem sp name attrs kids) = true)
    (hwn : ∀ n, encTree ec name (Conv.value dc S (.elem sp name attrs kids)).norm = .ok [n] →
      WellNamed n = true) :
    ∃ m out m',
      newMapXml dc S (pre ++ flatten (.elem sp name attrs kids) ++ post) fin = .ok (.map m)
      ∧ mapXml ec m none = .ok out
      ∧ newMapXml dc S (Tokz.tokens out) fin = .ok m'
      ∧ m' ≈ᵥ .map m :=
  C02_fixed_point_bytes Tokz.tokens C02_tok_law S fin pre post hpre sp name attrs kids hd hadj
    hnames hwn

/-- `C02_sym_fixed_point_bytes` for every symmetric option pair, tokenizer model in place -/
theorem C02_tok_sym_fixed_point_bytes
    (d : DecCfg) (S : Strconv) (e : EncCfg) (hs : Sym d e) (hesc : e.escape = true)
    (hF : FoldLaw d S) (hL : LeafLaw d S) (hP : NumPlainLaw d S e)
    (fin : StreamEnd) (pre post : List Tok) (hpre : ∀ t ∈ pre, ¬ isStart t)
    (sp name : Str) (attrs : List Attr) (kids : List Node)
    (hd : Conv.inDomain d S (.elem sp name attrs kids) = true)
    (hadj : noAdjText (.elem sp name attrs kids) = true)
    (hnames : NamesOkG d S e (.elem sp name attrs kids) = true)
    (hwn : ∀ n, encTree e (elemKey d S name)
        (Conv.value d S (.elem sp name attrs kids)).norm = .ok [n] → WellNamed n = true) :
    ∃ m out m',
      newMapXml d S (pre ++ flatten (.elem sp name attrs kids) ++ post) fin = .ok (.map m)
      ∧ mapXml e m none = .ok out
      ∧ newMapXml d S (Tokz.tokens out) fin = .ok m'
      ∧ m' ≈ᵥ .map m :=
  C02_sym_fixed_point_bytes Tokz.tokens C02_tok_law d S e hs hesc hF hL hP fin pre post hpre
    sp name attrs kids hd hadj hnames hwn

/-- … from the library laws (`LowerLaw`, `FloatLaw`, `FloatTextLaw`) -/
theorem C02_tok_sym_fixed_point_bytes_tb
    (d : DecCfg) (S : Strconv) (e : EncCfg) (hs : Sym d e) (hesc : e.escape = true)
    (hlow : d.lowerCase = true → LowerLaw S) (hI : d.cast.toInt = false)
    (hfl : d.cast.r = true → FloatLaw S ∧ FloatTextLaw S)
    (fin : StreamEnd) (pre post : List Tok) (hpre : ∀ t ∈ pre, ¬ isStart t)
    (sp name : Str) (attrs : List Attr) (kids : List Node)
    (hd : Conv.inDomain d S (.elem sp name attrs kids) = true)
    (hadj : noAdjText (.elem sp name attrs kids) = true)
    (hnames : NamesOkG d S e (.elem sp name attrs kids) = true)
    (hwn : ∀ n, encTree e (elemKey d S name)
        (Conv.value d S (.elem sp name attrs kids)).norm = .ok [n] → WellNamed n = true) :
    ∃ m out m',
      newMapXml d S (pre ++ flatten (.elem sp name attrs kids) ++ post) fin = .ok (.map m)
      ∧ mapXml e m none = .ok out
      ∧ newMapXml d S (Tokz.tokens out) fin = .ok m'
      ∧ m' ≈ᵥ .map m :=
  C02_sym_fixed_point_bytes_tb Tokz.tokens C02_tok_law d S e hs hesc hlow hI hfl fin pre post
    hpre sp name attrs kids hd hadj hnames hwn

/-- `C02_escdec_fixed_point_bytes` (decoder-side escaping, values written raw), tokenizer model
    in place -/
theorem C02_tok_escdec_fixed_point_bytes
    (d : DecCfg) (S : Strconv) (e : EncCfg) (hs : SymEsc d e) (hF : FoldLaw d S)
    (fin : StreamEnd) (pre post : List Tok) (hpre : ∀ t ∈ pre, ¬ isStart t)
    (sp name : Str) (attrs : List Attr) (kids : List Node)
    (hd : Conv.inDomain d S (.elem sp name attrs kids) = true)
    (hadj : noAdjText (.elem sp name attrs kids) = true)
    (hnames : NamesOkG d S e (.elem sp name attrs kids) = true)
    (hwn : ∀ n0, encTree e (elemKey d S name)
        (Conv.value (plainOf d) S (.elem sp name attrs kids)).norm = .ok [n0] →
        WellNamed n0 = true) :
    ∃ m out m',
      newMapXml d S (pre ++ flatten (.elem sp name attrs kids) ++ post) fin = .ok (.map m)
      ∧ mapXml e m none = .ok out
      ∧ newMapXml d S (Tokz.tokens out) fin = .ok m'
      ∧ m' ≈ᵥ .map m :=
  C02_escdec_fixed_point_bytes Tokz.tokens C02_tok_law_raw d S e hs hF fin pre post hpre
    sp name attrs kids hd hadj hnames hwn

/-! ### non-vacuity, and witnesses that the hypotheses are needed -/

/-- the hypotheses are satisfiable on a non-trivial instance: the sample document of
    `Props/C02.lean` (attributes, escaped text, an empty element, mixed content), both
    empty-element syntaxes -/
def tokTree : Node :=
  .elem [] "a".toList [⟨[], "x".toList, " 1 \"q\" ".toList⟩]
    [.elem [] "b".toList [] [.text "t<u & v".toList], .elem [] "b".toList [] [],
     .elem [] "c".toList [⟨[], "k".toList, "v".toList⟩, ⟨[], "k-2".toList, "'".toList⟩]
       [.text "w".toList, .elem [] "d".toList [] []]]

example : WellNamed tokTree = true := by decide
example : render ec tokTree
    = "<a x=\" 1 &quot;q&quot; \"><b>t&lt;u &amp; v</b><b/><c k=\"v\" k-2=\"&apos;\">w<d/></c></a>".toList := by
  rfl
example : tokenize (render ec tokTree) = some (flatten tokTree) :=
  C02_tok_escaped ec tokTree rfl (by decide)
example : tokenize (render { escape := true, goEmpty := true } tokTree) = some (flatten tokTree) :=
  C02_tok_escaped _ tokTree rfl (by decide)

/-- a raw tree (escaping off): numeric references and entities in the raw values -/
def rawTree : Node :=
  .elem [] "a".toList [⟨[], "x".toList, "&#x41;&amp;".toList⟩] [.text "1 &lt; 2 &#50;".toList]
def rawTreeView : Node :=
  .elem [] "a".toList [⟨[], "x".toList, "A&".toList⟩] [.text "1 < 2 2".toList]
example : rawView rawTree = some rawTreeView := by rfl
example : rawSafe rawTree = true := by decide
example : WellNamed rawTreeView = true := by decide
example : tokenize (render {} rawTree) = some (flatten rawTreeView) :=
  C02_tok_raw {} rawTree rawTreeView rfl (by rfl) (by decide) (by decide)

/-- the model beyond the encoder's output: single quotes, white space in tags, a prefixed name,
    CDATA, a comment, a processing instruction, `\r\n` -/
example : tokenize "<?p i?><p:a  k = 'v\"' ><!--c--><![CDATA[<&]]>x\r\ny</p:a >".toList
    = some [.procinst "p".toList "i".toList,
            .start "p".toList "a".toList [⟨[], "k".toList, "v\"".toList⟩],
            .comment "c".toList, .text "<&".toList, .text "x\ny".toList,
            .stop "p".toList "a".toList] := by decide

/-- syntax errors of strict mode: `]]>` in character data, a raw `<` in an attribute value, a
    bare `&`, an attribute without a value, a character outside the XML range -/
example : tokenize "<a>]]></a>".toList = none := by decide
example : tokenize "<a k=\"<\"/>".toList = none := by decide
example : tokenize "<a>&x</a>".toList = none := by decide
example : tokenize "<a k/>".toList = none := by decide
example : tokenize "<a>&#1;</a>".toList = none := by decide

/-- `WellNamed` is needed — adjacent text nodes come back as ONE token … -/
example : Tokz.tokens (render ec (.elem [] "a".toList [] [.text "x".toList, .text "y".toList]))
    ≠ flatten (.elem [] "a".toList [] [.text "x".toList, .text "y".toList]) := by decide
/-- … a carriage return in a text node comes back as a line feed … -/
example : Tokz.tokens (render ec (.elem [] "a".toList [] [.text "x\ry".toList]))
    ≠ flatten (.elem [] "a".toList [] [.text "x\ry".toList]) := by decide
/-- … a name with a blank is an element with a (broken) attribute: a syntax error … -/
example : tokenize (render ec (.elem [] "a b".toList [] [])) = none := by decide
/-- … and a name with a colon comes back with a name space. -/
example : Tokz.tokens (render ec (.elem [] "p:a".toList [] []))
    = [.start "p".toList "a".toList [], .stop "p".toList "a".toList] := by decide
/-- `rawSafe` is needed: a raw `"` ends the attribute value early, a raw `]]>` is an error -/
example : tokenize (render {} (.elem [] "a".toList [⟨[], "k".toList, "x\"y".toList⟩] [])) = none := by
  decide
example : tokenize (render {} (.elem [] "a".toList [] [.text "]]>".toList])) = none := by decide

end Mxj.C02
