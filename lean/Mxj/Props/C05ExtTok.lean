/-
  Mxj.Props.C05ExtTok — "special characters survive encoding" at BYTE level, through the
  executable tokenizer model (`Mxj.Tokz.tokenize`, Model/Tokenizer.lean).

  `Props/C05.lean` / `C05ExtEnc.lean` speak about strings and trees (`unesc (escapeChars v) =
  some v`, no raw specials in the written values).  Here the reader is the tokenizer itself:

    * "XML characters" is the tokenizer's own predicate `Tokz.charsOk` (every character in Go's
      `isInCharacterRange`), and `xmlCharsOk v ↔ charsOk v ∧ no '\r' in v`
      (`C05_tok_xmlChars`): '\r' is an XML character, but the tokenizer rewrites it to '\n';
    * `C05_tok_chars_read_back`   the run `escapeChars v` is lexed back as exactly `v`, for ALL
                                  `v` of XML characters without '\r';
    * `C05_tok_text_element`, `C05_tok_attr_element`  a text / an attribute value `v` in an
                                  element, through `render`: the tokens carry exactly `v`;
    * `C05_tok_values_read_back`  every well-named tree, every encoder configuration with
                                  escaping on: the tokenizer accepts the bytes and the values of
                                  the tokens (`tokValues`: attribute values and character data,
                                  in order) are exactly the values of the tree;
    * `C05_tok_marshal_values`    the same from the Go-level encoder `marshal` to tokens
                                  (`_named`: hypotheses on the key and the value only);
    * `C05_tok_string_leaf`       `{key: s}` for a string `s`, bytes to tokens;
    * witnesses (`decide`d): with escaping OFF a value containing '<' makes the tokenizer fail,
      a value containing an entity text comes back changed; '\r' and non-XML characters show
      that the character hypothesis is needed.
-/
import Mxj.Lemmas.EncTok
import Mxj.Props.C02ExtTok
import Mxj.Props.C05ExtEnc
namespace Mxj.C05
open Mxj Mxj.Enc Mxj.Tokz Mxj.EncTok

/-- what "XML characters" means, in the tokenizer's own terms: `xmlCharsOk v` iff every
    character passes the tokenizer's character check `charsOk` and none is '\r' -/
theorem C05_tok_xmlChars (v : Str) :
    xmlCharsOk v = (charsOk v && v.all (fun c => c != '\r')) := xmlCharsOk_eq v

/-- the character data (or attribute value) `escapeChars v` is lexed back as exactly `v`, for
    every string `v` of XML characters without '\r' -/
theorem C05_tok_chars_read_back (v : Str) (hv : xmlCharsOk v = true) :
    lexChars (escapeChars v) = some v := C02.C02_tok_text_unescapes v hv

/-- a text `v` in an element: the tokenizer reads exactly `v` back, whatever specials it holds -/
theorem C05_tok_text_element (cfg : EncCfg) (hesc : cfg.escape = true) (name v : Str)
    (hn : xmlNameOk name = true) (hv : xmlCharsOk v = true) (hne : v.isEmpty = false) :
    tokenize (render cfg (.elem [] name [] [.text v]))
      = some [.start [] name [], .text v, .stop [] name] := by
  have hW : WellNamed (.elem [] name [] [.text v]) = true := by
    simp [WellNamed, wellNamedNode, wellNamedKids, noAdjText, noAdjTextKids, hn, hv, hne]
  rw [C02.C02_tok_escaped cfg _ hesc hW]
  rfl

/-- an attribute value `v` (possibly empty): the tokenizer reads exactly `v` back -/
theorem C05_tok_attr_element (cfg : EncCfg) (hesc : cfg.escape = true) (name k v : Str)
    (hn : xmlNameOk name = true) (hk : xmlNameOk k = true) (hv : xmlCharsOk v = true) :
    tokenize (render cfg (.elem [] name [⟨[], k, v⟩] []))
      = some [.start [] name [⟨[], k, v⟩], .stop [] name] := by
  have hW : WellNamed (.elem [] name [⟨[], k, v⟩] []) = true := by
    simp [WellNamed, wellNamedNode, wellNamedKids, noAdjText, noAdjTextKids, hn, hk, hv]
  rw [C02.C02_tok_escaped cfg _ hesc hW]
  rfl

/-- every well-named tree, every configuration with escaping on: the tokenizer accepts the
    bytes, and the values it hands over — attribute values and character data, in document
    order — are exactly the values of the tree (not their escaped forms, nothing split, merged
    or lost) -/
theorem C05_tok_values_read_back (cfg : EncCfg) (hesc : cfg.escape = true) (n : Node)
    (hW : WellNamed n = true) :
    ∃ toks, tokenize (render cfg n) = some toks ∧ tokValues toks = nodeValues n :=
  ⟨flatten n, C02.C02_tok_escaped cfg n hesc hW, tokValues_flatten n⟩

/-- … while the bytes hold the ESCAPED values (`C05_enc_values_escaped`): the tokenizer undoes
    the escaping value by value -/
theorem C05_tok_values_unescaped (cfg : EncCfg) (hesc : cfg.escape = true) (n : Node)
    (hW : WellNamed n = true) :
    ∃ toks, tokenize (render { cfg with escape := false } (escNode n)) = some toks
      ∧ (tokValues toks).map escapeChars = nodeValues (escNode n) := by
  rw [← C05_enc_render_escaped cfg hesc n, C05_enc_values_escaped]
  obtain ⟨toks, h1, h2⟩ := C05_tok_values_read_back cfg hesc n hW
  exact ⟨toks, h1, by rw [h2]⟩

/-- from the encoder to tokens: for a `Plain` value whose encoder tree is one well-named
    element, the bytes `marshal` writes are accepted and carry exactly the values of the tree -/
theorem C05_tok_marshal_values (key : Str) (v : Val) (n : Node)
    (hp : Plain ec v = true) (hn : encTree ec key v.norm = .ok [n]) (hW : WellNamed n = true) :
    ∃ out toks, marshal ec key v = .ok out ∧ tokenize out = some toks
      ∧ tokValues toks = nodeValues n := by
  obtain ⟨toks, h1, h2⟩ := C05_tok_values_read_back ec rfl n hW
  refine ⟨render ec n, toks, ?_, h1, h2⟩
  rw [C02.C02_render_eq_bytes ec key v _ hp hn]
  simp

/-- … with executable hypotheses on the key and the VALUE only (`ValNamed`, Lemmas/EncTok.lean;
    `EncDomain`, `Plain`, not a list: C03's domain): the encoder builds one tree `n`, writes
    bytes the tokenizer accepts, and the values read back are exactly the values of `n` -/
theorem C05_tok_marshal_values_named (key : Str) (v : Val)
    (hdom : EncDomain v = true) (hp : Plain ec v = true) (hnl : v.isList = false)
    (hk : xmlNameOk key = true) (hv : ValNamed v = true) :
    ∃ n out toks, encTree ec key v.norm = .ok [n] ∧ marshal ec key v = .ok out
      ∧ tokenize out = some toks ∧ tokValues toks = nodeValues n := by
  obtain ⟨ns, hns⟩ := C03.C03_encode_succeeds key v hdom
  obtain ⟨as, ks, rfl⟩ := encTree_single ec key v.norm ns (by rw [isList_norm]; exact hnl) hns
  have hW := encTree_norm_wellNamed key v _ hk hv hns _ (List.mem_singleton.2 rfl)
  obtain ⟨out, toks, h1, h2, h3⟩ := C05_tok_marshal_values key v _ hp hns hW
  exact ⟨_, out, toks, hns, h1, h2, h3⟩

/-- a string under an element key: bytes to tokens, the text is the string itself -/
theorem C05_tok_string_leaf (key s : Str) (hk : xmlNameOk key = true)
    (hs : xmlCharsOk s = true) (hne : s ≠ []) :
    ∃ out, marshal ec key (.str s) = .ok out
      ∧ tokenize out = some [.start [] key [], .text s, .stop [] key] := by
  have hne' : s.isEmpty = false := by cases s <;> simp_all
  obtain ⟨hm, _, _⟩ := C05_enc_string_leaf ec rfl key s hne
  refine ⟨_, hm, ?_⟩
  have := C05_tok_text_element ec rfl key s hk hs hne'
  simp only [render, renderKids, renderAttrs, escIf, List.isEmpty_cons, Bool.false_eq_true,
    if_false, List.append_nil, List.append_assoc] at this
  simpa [List.append_assoc, ec] using this

/-! ### non-vacuity and necessity (all `decide`d on the tokenizer model) -/

/-- all five specials, a tab and a newline, in text and in an attribute -/
example : xmlCharsOk "<&>\"'\t\n ü".toList = true := by decide
example : tokenize (render ec (.elem [] "a".toList [⟨[], "k".toList, "<&>\"'".toList⟩]
      [.text "x<y&&amp;z>\"'".toList]))
    = some [.start [] "a".toList [⟨[], "k".toList, "<&>\"'".toList⟩],
            .text "x<y&&amp;z>\"'".toList, .stop [] "a".toList] := by decide

/-- escaping OFF, a value containing '<': the tokenizer fails (text) / fails (attribute) -/
example : render {} (.elem [] "a".toList [] [.text "x<y".toList]) = "<a>x<y</a>".toList := by
  decide
example : tokenize (render {} (.elem [] "a".toList [] [.text "x<y".toList])) = none := by decide
example : tokenize (render {} (.elem [] "a".toList [⟨[], "k".toList, "x<y".toList⟩] [])) = none := by
  decide
/-- escaping OFF, '<' followed by a name: the tokens CHANGE (an element appears) -/
example : tokenize (render {} (.elem [] "a".toList [] [.text "x<b/>y".toList]))
    = some [.start [] "a".toList [], .text "x".toList, .start [] "b".toList [],
            .stop [] "b".toList, .text "y".toList, .stop [] "a".toList] := by decide
/-- escaping OFF, a bare '&': failure; an entity text: the value comes back changed -/
example : tokenize (render {} (.elem [] "a".toList [] [.text "x&y".toList])) = none := by decide
example : tokenize (render {} (.elem [] "a".toList [] [.text "&lt;".toList]))
    = some [.start [] "a".toList [], .text "<".toList, .stop [] "a".toList] := by decide
/-- escaping OFF, '"' in an attribute value: failure -/
example : tokenize (render {} (.elem [] "a".toList [⟨[], "k".toList, "x\"y".toList⟩] [])) = none := by
  decide

/-- the character hypothesis is needed, escaping ON: '\r' comes back as '\n'; U+0001 and
    U+FFFE are not XML characters and the tokenizer rejects the bytes -/
example : xmlCharsOk "x\ry".toList = false ∧ charsOk "x\ry".toList = true := by decide
example : tokenize (render ec (.elem [] "a".toList [] [.text "x\ry".toList]))
    = some [.start [] "a".toList [], .text "x\ny".toList, .stop [] "a".toList] := by decide
example : charsOk [Char.ofNat 1] = false := by decide
example : tokenize (render ec (.elem [] "a".toList [] [.text [Char.ofNat 1]])) = none := by decide
example : tokenize (render ec (.elem [] "a".toList [] [.text [Char.ofNat 0xFFFE]])) = none := by
  decide

end Mxj.C05
