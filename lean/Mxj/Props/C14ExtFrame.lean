/-
  Mxj.Props.C14ExtFrame — frame of C14's API over the package-level state, on facts regenerated from
  /repo's current source on every run: the decoders that cast read the cast options and the other decoder options, nothing else;
  and none of them (nor any function they can reach) assigns a package-level variable, so what they
  return is a function of their arguments and of exactly those options - no hidden state carried
  from one call to the next.
-/
import Mxj.Lemmas.Facts
namespace Mxj.C14
open Mxj

/-- the option variables C14's functions may read -/
def frameAllowed : List String := ["CustomDecoder", "NoRoot", "XmlCharsetReader", "attrK", "attrPrefix", "castNanInf", "castToBool", "castToFloat", "castToInt", "checkTagToSkip", "commentK", "decodeSimpleValuesAsMap", "directiveK", "escapechars", "handleXMPPStreamTag", "includeTagSeqNum", "instK", "lowerCase", "procinstK", "seqK", "snakeCaseKeys", "targetK", "textK", "trimRunes", "xmlEscapeCharsDecoder"]

theorem C14_frame_reads (root g v : String) (hr : root ∈ Generated.c14FrameRoots)
    (h : Facts.Reach root g) (hv : v ∈ Facts.readsOf g) : v ∈ frameAllowed := by
  have hc : Facts.closed Generated.c14FrameRootsClosure = true := by decide
  have ho : Facts.onlyReads Generated.c14FrameRootsClosure frameAllowed = true := by decide
  have hin := Facts.mem_of_all_contains' Generated.c14FrameRoots Generated.c14FrameRootsClosure
    (by decide) root hr
  exact Facts.reads_subset_of_cert _ _ hc ho root g v hin h hv

theorem C14_frame_no_hidden_state (root g : String) (hr : root ∈ Generated.c14FrameRoots)
    (h : Facts.Reach root g) : Facts.writesOf g = [] := by
  have hc : Facts.closed Generated.c14FrameRootsClosure = true := by decide
  have hn : Facts.noneWrites Generated.c14FrameRootsClosure = true := by decide
  have hin := Facts.mem_of_all_contains' Generated.c14FrameRoots Generated.c14FrameRootsClosure
    (by decide) root hr
  exact Facts.not_writes_of_cert _ hc hn root g hin h

/-- the statements are not vacuous: the API group is present in the source -/
theorem C14_frame_roots_present : Generated.c14FrameRoots.length ≥ 1 := by decide

end Mxj.C14
