/-
  Mxj.Props.C07ExtPerm — C07 quantifies over every hash-iteration order of every Go map.  In the
  model a map is an association list and the iteration order is the entry order; `ValPerm m m'`
  says m' is m with the entries of EVERY map (at every depth) permuted.  The walker's answers on m'
  are a permutation of its answers on m (each answer compared up to `ValPerm`, since an answer is a
  sub-tree and its own maps are permuted too), and without a wildcard they come in the SAME order.
-/
import Mxj.Lemmas.PermQuery
namespace Mxj.C07
open Mxj

/-- ValuesForPath's walker: on well-formed values the answers do not depend on map iteration
    order, up to a permutation of the answer list — for every key list and sub-key condition -/
theorem C07_perm_walk (subs : Option SubKeys) (ks : List Str) (m m' : Val)
    (hw : m.wf = true) (h : ValPerm m m') : PermR (walk subs m ks) (walk subs m' ks) :=
  walk_valperm subs ks hw h

/-- "in list order where no wildcard is involved": no wildcard key => position by position the
    same answers -/
theorem C07_perm_walk_ordered (subs : Option SubKeys) (ks : List Str) (m m' : Val)
    (hk : ∀ k ∈ ks, k ≠ ['*']) (hw : m.wf = true) (h : ValPerm m m') :
    All2 ValPerm (walk subs m ks) (walk subs m' ks) :=
  walk_valperm_ordered subs ks hk hw h

/-- the number of answers never depends on the iteration order -/
theorem C07_perm_walk_length (subs : Option SubKeys) (ks : List Str) (m m' : Val)
    (hw : m.wf = true) (h : ValPerm m m') :
    (walk subs m ks).length = (walk subs m' ks).length :=
  (walk_valperm subs ks hw h).length

/-- `oldValuesForPath` (the bracket-free branch of ValuesForPath) -/
theorem C07_perm_oldValues (subs : Option SubKeys) (path : Str) (m m' : Val)
    (hw : m.wf = true) (h : ValPerm m m') : PermR (oldValues subs m path) (oldValues subs m' path) :=
  walk_valperm subs _ hw h

/-- scalar answers are literally equal: a permuted scalar is the scalar -/
theorem C07_perm_scalar (v w : Val) (h : ValPerm v w) (hs : v.isMap = false ∧ v.isList = false) :
    w = v := by
  cases h with
  | refl => rfl
  | list _ => simp [Val.isList] at hs
  | map _ _ => simp [Val.isMap] at hs

/-! ### a non-trivial pair, and why `PermR` and not equality -/

private def s (x : String) : Str := x.toList
private def mA : Val := .map [(s "a", .map [(s "x", .str (s "1")), (s "y", .str (s "2"))]),
                              (s "b", .list [.map [(s "p", .num (s "i:1")), (s "q", .null)]])]
/-- the same Go value ranged over in another order, at both depths -/
private def mB : Val := .map [(s "b", .list [.map [(s "q", .null), (s "p", .num (s "i:1"))]]),
                              (s "a", .map [(s "y", .str (s "2")), (s "x", .str (s "1"))])]

example : mA.wf = true := by decide

example : ValPerm mA mB :=
  .map (mid := [(s "b", .list [.map [(s "p", .num (s "i:1")), (s "q", .null)]]),
                (s "a", .map [(s "x", .str (s "1")), (s "y", .str (s "2"))])])
    (List.Perm.swap _ _ _)
    (.cons _ (.list (.cons (.map (List.Perm.swap _ _ _)
        (.cons _ (.refl _) (.cons _ (.refl _) .nil))) .nil))
      (.cons _ (.map (List.Perm.swap _ _ _) (.cons _ (.refl _) (.cons _ (.refl _) .nil))) .nil))

/-- with a wildcard the ORDER does change: equality would be false -/
example : walk none mA [s "a", ['*']] = [.str (s "1"), .str (s "2")]
    ∧ walk none mB [s "a", ['*']] = [.str (s "2"), .str (s "1")] := by
  constructor <;> simp [walk, mA, mB, s, lookup, loadLeaf]

/-- without a wildcard the order is kept -/
example : walk none mA [s "a", s "x"] = walk none mB [s "a", s "x"] := by
  simp [walk, mA, mB, s, lookup, loadLeaf]

/-- well-formedness is needed: with a duplicate key, a permutation changes the look-up -/
example : lookup (s "k") [(s "k", Val.null), (s "k", Val.bool true)]
    ≠ lookup (s "k") [(s "k", Val.bool true), (s "k", Val.null)] := by
  simp [lookup, s]

end Mxj.C07
