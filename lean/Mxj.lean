-- This module serves as the root of the `Mxj` library.
-- Import modules here that should be built as part of the library.
import Mxj.Basic
