-- Root of the `Mxj` library.  Property theorems live in Mxj/Props/Cxx.lean and are built
-- per property by /verif/check (and pre-built by /verif/setup.sh); the model is under
-- Mxj/Model, helper lemmas under Mxj/Lemmas, regenerated facts under Mxj/Generated.
import Mxj.Model.Val
