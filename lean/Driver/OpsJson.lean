/- Driver.OpsJson — Map.Json / Map.JsonIndent / NewMapJson / string literals (C06). -/
import Driver.Util
import Mxj.Model.Json
import Mxj.Model.Forms
namespace Mxj.Drv
open Mxj Mxj.Proto

def opJenc : P Out := do
  let safe ← pBool; let m ← pVal; pEnd
  pure ("ok " ++ showStr (Json.mapJson safe m))

/-- `jenci safe prefix indent map` → `ok <bytes of Map.JsonIndent(prefix, indent, safe)>` followed by
    what the model's `NewMapJson` makes of those bytes (`ok <val>` / `err`) -/
def opJenci : P Out := do
  let safe ← pBool; let pfx ← pStr; let ind ← pStr; let m ← pVal; pEnd
  let b := Forms.mapJsonIndent safe pfx ind m
  pure ("ok " ++ showStr b ++ " " ++ (match Json.newMapJson b with
    | some v => "ok " ++ showVal v
    | none => "err"))

def opJquote : P Out := do
  let html ← pBool; let s ← pStr; pEnd
  pure ("ok " ++ showStr (Json.quote html s))

def opJdec : P Out := do
  let s ← pStr; pEnd
  pure (match Json.newMapJson s with
    | some v => "ok " ++ showVal v
    | none => "err")

/-- `jtail s t` : `NewMapJson (s ++ t)`.  When `s` is not empty and accepted the answer is computed
    from `s` ALONE — by `C06_trailing_ignored` it is the answer for `s ++ t`; the tail is not read.
    The harness compares it with the library's answer for the whole text. -/
def opJtail : P Out := do
  let s ← pStr; let t ← pStr; pEnd
  let r := if !s.isEmpty && (Json.newMapJson s).isSome then Json.newMapJson s
           else Json.newMapJson (s ++ t)
  pure (match r with
    | some v => "ok " ++ showVal v
    | none => "err")

end Mxj.Drv
