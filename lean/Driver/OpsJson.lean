/- Driver.OpsJson — Map.Json / NewMapJson / string literals (C06). -/
import Driver.Util
import Mxj.Model.Json
namespace Mxj.Drv
open Mxj Mxj.Proto

def opJenc : P Out := do
  let safe ← pBool; let m ← pVal; pEnd
  pure ("ok " ++ showStr (Json.mapJson safe m))

def opJquote : P Out := do
  let html ← pBool; let s ← pStr; pEnd
  pure ("ok " ++ showStr (Json.quote html s))

def opJdec : P Out := do
  let s ← pStr; pEnd
  pure (match Json.newMapJson s with
    | some v => "ok " ++ showVal v
    | none => "err")

end Mxj.Drv
