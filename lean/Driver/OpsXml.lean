/- Driver.OpsXml — Map decoder model and conventions spec (C01, C14), escapeChars (C05). -/
import Driver.Util
import Mxj.Model.Conv
namespace Mxj.Drv
open Mxj Mxj.Proto

def asStr : Val → Option Str
  | .str s => some s
  | _ => none

def toAttr : Val → Option Attr
  | .list [.str sp, .str n, .str v] => some ⟨sp, n, v⟩
  | _ => none

def toTok : Val → Option Tok
  | .list [.str ['S'], .str sp, .str n, .list as] => (as.mapM toAttr).map (Tok.start sp n ·)
  | .list [.str ['E'], .str sp, .str n] => some (.stop sp n)
  | .list [.str ['T'], .str s] => some (.text s)
  | .list [.str ['C'], .str s] => some (.comment s)
  | .list [.str ['P'], .str t, .str i] => some (.procinst t i)
  | .list [.str ['D'], .str s] => some (.directive s)
  | _ => none

partial def toNode : Val → Option Node
  | .list [.str ['N'], .str sp, .str n, .list as, .list ks] => do
      let as' ← as.mapM toAttr
      let ks' ← ks.mapM toNode
      pure (.elem sp n as' ks')
  | .list [.str ['T'], .str s] => some (.text s)
  | .list [.str ['C'], .str s] => some (.comment s)
  | .list [.str ['P'], .str t, .str i] => some (.procinst t i)
  | .list [.str ['D'], .str s] => some (.directive s)
  | _ => none

def asciiLower (s : Str) : Str := s.map fun c => if 'A' ≤ c ∧ c ≤ 'Z' then Char.ofNat (c.toNat + 32) else c

/-- strconv answers: map from text to `[ int uint [float special] ]` (each `n` when the parse fails) -/
def pStrconv : P Strconv := do
  match ← pVal with
  | .map kvs =>
    let get := fun (s : Str) => lookup s kvs
    pure {
      parseInt := fun s => match get s with
        | some (.list (.num t :: _)) => some t
        | _ => none
      parseUint := fun s => match get s with
        | some (.list (_ :: .num t :: _)) => some t
        | _ => none
      parseFloat := fun s => match get s with
        | some (.list [_, _, .list [.num t, .bool b]]) => some (t, b)
        | _ => none
      lower := asciiLower }
  | _ => throw .bad

def pDecCfg : P DecCfg := do
  let ap ← pStr; let lower ← pBool; let snake ← pBool; let asMap ← pBool; let seqNum ← pBool
  let keep ← pBool; let textK ← pStr; let escDec ← pBool
  let r ← pBool; let toInt ← pBool; let toFloat ← pBool; let toBool ← pBool; let nanInf ← pBool
  let skipSet ← pBool; let skip ← pStrList
  pure { attrPrefix := ap, lowerCase := lower, snake := snake, asMap := asMap, seqNum := seqNum,
         keepSpace := keep, textK := textK, escDec := escDec,
         cast := { r := r, toInt := toInt, toFloat := toFloat, toBool := toBool, nanInf := nanInf,
                   skipSet := skipSet, skip := skip } }

def pFin : P StreamEnd := fun toks => match toks with
  | "eof" :: rest => .ok (.eof, rest)
  | "bad" :: rest => .ok (.bad, rest)
  | _ => .error .bad

def showOutcome (o : Outcome Val) : String :=
  match o with
  | .ok v => "ok " ++ showVal v
  | .eof => "err eof"
  | .syntax => "err syntax"
  | .err k => "err " ++ errKind k
  | .panic s => "panic " ++ s

/-- `xdec cfg strconv tokens fin` -/
def opXdec : P Out := do
  let cfg ← pDecCfg; let S ← pStrconv
  let tv ← pVal; let fin ← pFin; pEnd
  match tv with
  | .list ts => match ts.mapM toTok with
    | some toks => pure (showOutcome (newMapXml cfg S toks fin))
    | none => throw .bad
  | _ => throw .bad

/-- `xconv cfg strconv tree` → the conventions' Map and whether the tree is in the C01 domain -/
def opXconv : P Out := do
  let cfg ← pDecCfg; let S ← pStrconv
  let tv ← pVal; pEnd
  match toNode tv with
  | some t => pure ("ok " ++ showVal (Conv.doc cfg S t) ++ " | "
      ++ (if Conv.inDomain cfg S t then "dom" else "nodom"))
  | none => throw .bad

/-- `xdoc cfg strconv tokens fin tree doc api` → `<decode> | <conventions> | dom/nodom/na`
    (`tree` = `n` when the document did not come from a tree; `doc`, `api` are for the
    implementation side only) -/
def opXdoc : P Out := do
  let cfg ← pDecCfg; let S ← pStrconv
  let tv ← pVal; let fin ← pFin; let tree ← pVal; let _doc ← pStr; let _api ← pNat; pEnd
  match tv with
  | .list ts => match ts.mapM toTok with
    | some toks =>
      let dec := showOutcome (newMapXml cfg S toks fin)
      match tree with
      | .null => pure (dec ++ " | na | na")
      | t => match toNode t with
        | some nd => pure (dec ++ " | " ++ showVal (Conv.doc cfg S nd) ++ " | "
            ++ (if Conv.inDomain cfg S nd then "dom" else "nodom"))
        | none => throw .bad
    | none => throw .bad
  | _ => throw .bad

/-- `esc s` → escapeChars -/
def opEsc : P Out := do
  let s ← pStr; pEnd
  pure ("ok " ++ showStr (escapeChars s) ++ " | " ++ showStr (s.flatMap escOne) ++ " | "
    ++ (match unesc (escapeChars s) with | some u => showStr u | none => "none"))

/-- `unesc s` → tokenizer entity expansion -/
def opUnesc : P Out := do
  let s ← pStr; pEnd
  pure (match unesc s with | some u => "ok " ++ showStr u | none => "err syntax")

/-- `cast cfg strconv s key` -/
def opCast : P Out := do
  let cfg ← pDecCfg; let S ← pStrconv; let s ← pStr; let t ← pStr; pEnd
  pure ("ok " ++ showVal (cast S cfg.cast s t))

end Mxj.Drv
