/- Driver.OpsOpt — option state machine (C18). -/
import Driver.Util
import Mxj.Model.Opt
namespace Mxj.Drv
open Mxj Mxj.Proto Mxj.Opt

def optB : Val → Option (Option Bool)
  | .null => some none
  | .bool b => some (some b)
  | _ => none

/-- one call: `[ s<name> arg ]` -/
def toCall : Val → Option Call
  | .list [.str n, a] =>
    let name := String.ofList n
    match name, a with
    | "SetGlobalKeyMapPrefix", .str s => some (.setGlobalKeyMapPrefix s)
    | "PrependAttrWithHyphen", .bool v => some (.prependAttrWithHyphen v)
    | "SetAttrPrefix", .str s => some (.setAttrPrefix s)
    | "SetCheckTagToSkipFunc", .bool r => some (.setCheckTagToSkipFunc r)
    | "XmlGoEmptyElemSyntax", _ => some .xmlGoEmptyElemSyntax
    | "XmlDefaultEmptyElemSyntax", _ => some .xmlDefaultEmptyElemSyntax
    | "SetFieldSeparator", .null => some (.setFieldSeparator none)
    | "SetFieldSeparator", .str s => some (.setFieldSeparator (some s))
    | "SetArraySize", .num t => some (.setArraySize (digitsVal ((t.dropWhile (· ≠ ':')).drop 1) 0))
    | _, a => match optB a with
      | none => none
      | some b => match name with
        | "IncludeTagSeqNum" => some (.includeTagSeqNum b)
        | "CoerceKeysToLower" => some (.coerceKeysToLower b)
        | "DisableTrimWhiteSpace" => some (.disableTrimWhiteSpace b)
        | "CoerceKeysToSnakeCase" => some (.coerceKeysToSnakeCase b)
        | "CastValuesToInt" => some (.castValuesToInt b)
        | "HandleXMPPStreamTag" => some (.handleXMPPStreamTag b)
        | "DecodeSimpleValuesAsMap" => some (.decodeSimpleValuesAsMap b)
        | "CastNanInf" => some (.castNanInf b)
        | "CastValuesToFloat" => some (.castValuesToFloat b)
        | "CastValuesToBool" => some (.castValuesToBool b)
        | "XmlCheckIsValid" => some (.xmlCheckIsValid b)
        | "XMLEscapeChars" => some (.xmlEscapeChars b)
        | "XMLEscapeCharsDecoder" => some (.xmlEscapeCharsDecoder b)
        | "LeafUseDotNotation" => some (.leafUseDotNotation b)
        | _ => none
  | _ => none

def showDump (st : St) : String :=
  String.intercalate " " ((dump st).map fun (k, v) => k ++ "=" ++ hex v)

/-- `opts calls` → the state after every call, then after restoring the defaults -/
def opOpts : P Out := do
  match ← pVal with
  | .list cs => match cs.mapM toCall with
    | some calls =>
      pEnd
      let states := calls.foldl (fun (acc : St × List String) c =>
        let st := step acc.1 c; (st, showDump st :: acc.2)) (dflt, [])
      let final := run states.1 restoreCalls
      pure ("ok " ++ String.intercalate " ; " states.2.reverse ++ " | " ++ showDump final
        ++ " | " ++ (if final = dflt then "restored" else "NOT-restored"))
    | none => throw .bad
  | _ => throw .bad

end Mxj.Drv
