/- Driver.OpsStream — byte readers and the getJson scanner over delivery schedules (C13). -/
import Driver.Util
import Mxj.Model.Stream
namespace Mxj.Drv
open Mxj Mxj.Proto Mxj.Stream

/-- a schedule is a list of strings: "1c" (byte c), "Ec" (byte c with io.EOF), "0", "Z", "F" -/
def toRd : Val → Option Rd
  | .str ['1', c] => some (.byte c false)
  | .str ['E', c] => some (.byte c true)
  | .str ['0'] => some .zero
  | .str ['Z'] => some .zeroEof
  | .str ['F'] => some .fail
  | _ => none

def pSched : P Sched := do
  match ← pVal with
  | .list xs => match xs.mapM toRd with
    | some s => pure s
    | none => throw .bad
  | _ => throw .bad

def showJRes : JRes → String
  | .doc r => "doc " ++ showStr r
  | .eof r => "eof " ++ showStr r
  | .noClose r => "noclose " ++ showStr r
  | .stray r => "stray " ++ showStr r
  | .ioerr r => "ioerr " ++ showStr r

/-- `getjson sched n` → the results of `n` successive getJson calls on one reader -/
def opGetJson : P Out := do
  let s ← pSched; let n ← pNat; pEnd
  let rec go : Nat → Sched → List String → List String
    | 0, _, acc => acc.reverse
    | k + 1, sch, acc =>
      let (r, rest) := getJson sch {}
      go k rest (showJRes r :: acc)
  pure ("ok " ++ String.intercalate " ; " (go n s []))

/-- `bread sched n` → results of `n` successive byteReader.ReadByte calls -/
def opBread : P Out := do
  let s ← pSched; let n ← pNat; pEnd
  let rec go : Nat → Sched → List String → List String
    | 0, _, acc => acc.reverse
    | k + 1, sch, acc =>
      match readByte sch with
      | (.ok b, rest) => go k rest (("b" ++ showStr [b]) :: acc)
      | (.error .eof, rest) => go k rest ("eof" :: acc)
      | (.error .other, rest) => go k rest ("err" :: acc)
  pure ("ok " ++ String.intercalate " " (go n s []))

end Mxj.Drv
