/-
  Driver.Main — line-protocol driver: one op per input line, one canonical line out.
  Imports model files only (core Lean), so it links as a native executable.
-/
import Driver.Ops
open Mxj Mxj.Drv

def step (line : String) : String :=
  match (line.splitOn " ").filter (· ≠ "") with
  | [] => "bad-op"
  | op :: args => Mxj.Drv.dispatch op args

partial def loop (h : IO.FS.Stream) (out : IO.FS.Stream) : IO Unit := do
  let line ← h.getLine
  if line.isEmpty then return ()
  let l := if line.endsWith "\n" then (line.dropEnd 1).toString else line
  out.putStrLn (step l)
  loop h out

def main : IO Unit := do
  let out ← IO.getStdout
  loop (← IO.getStdin) out
  out.flush
