/- Driver.OpsKey — ops over hasKey / hasKeyPath (C08) and their specifications. -/
import Driver.Util
import Mxj.Model.KeySpec
import Mxj.Model.Denote
namespace Mxj.Drv
open Mxj Mxj.Proto

/-- `vfk sep m key subs pf` → `ok <hasKey result> | <spec>` -/
def opVfk : P Out := do
  let sep ← pStr; let m ← pVal; let key ← pStr; let subs ← pStrList; let pf ← pTable; pEnd
  match subKeyArg sep pf subs with
  | .error e => pure ("err " ++ errKind e)
  | .ok sk =>
    let s := sk.getD []
    pure ("ok " ++ showList (hasKey key s m) ++ " | " ++ showList (KeySpec.valuesForKey key s m))

/-- `pfk m key` → `ok <paths> | <spec paths> | <pathSafe>` -/
def opPfk : P Out := do
  let m ← pVal; let key ← pStr; pEnd
  pure ("ok " ++ showStrs (pathsForKey m key) ++ " | " ++ showStrs (KeySpec.pathsForKey m key)
    ++ " | " ++ (if !KeySpec.pathSafe m then "unsafe" else if Denote.noListInList m then "safe" else "nested"))

/-- `hsk sep v subs pf` → `hasSubKeys` vs documented predicate -/
def opHsk : P Out := do
  let sep ← pStr; let v ← pVal; let subs ← pStrList; let pf ← pTable; pEnd
  match subKeyArg sep pf subs with
  | .error e => pure ("err " ++ errKind e)
  | .ok sk =>
    let s := sk.getD []
    pure ("ok " ++ (if hasSubKeys v s then "t" else "f") ++ " | " ++ (if KeySpec.subPred s v then "t" else "f"))

end Mxj.Drv
