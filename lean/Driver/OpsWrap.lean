/- Driver.OpsWrap — the walkers x2j-wrapper implements itself (Model/Wrapper, C20), so that the
   model the C20 theorems speak about is compared with the Go functions on every run. -/
import Driver.Util
import Mxj.Model.Wrapper
import Mxj.Model.WrapperValue
namespace Mxj.Drv
open Mxj Mxj.Proto

/-- `wfrom m path attrs` → `ok <x2j-wrapper.ValuesFromKeyPath(m, path, attrs)>` -/
def opWfrom : P Out := do
  let m ← pVal; let path ← pStr; let a ← pBool; pEnd
  pure ("ok " ++ showList (Wrapper.valuesFromKeyPath m path a))

/-- `wat m path attrs` → `ok <x2j-wrapper.ValuesAtKeyPath(m, path, attrs)>` -/
def opWat : P Out := do
  let m ← pVal; let path ← pStr; let a ← pBool; pEnd
  pure ("ok " ++ showList (Wrapper.valuesAtKeyPath m path a))

/-- `wpfk m key` → `ok <x2j-wrapper.PathsForKey(m, key)>` (the model's wrapper walker is the core's) -/
def opWpfk : P Out := do
  let m ← pVal; let key ← pStr; pEnd
  pure ("ok " ++ showStrs (pathsForKey m key))

def wErrKind : Wrapper.WErr → String
  | .noKeysBeyond => "noKeysBeyond" | .noKeyInMap => "noKeyInMap"
  | .noListMember => "noListMember" | .noAttrName => "noAttrName" | .noAttrPair => "noAttrPair"
  | .noAttrMatch => "noAttrMatch" | .badAttrPair => "badAttrPair"

/-- `wmval m path attr` → `ok <x2j-wrapper.MapValue(m, path, attr)>` or `err <kind>`; `attr` is a
    map, or `n` for the nil map -/
def opWmval : P Out := do
  let m ← pVal; let path ← pStr; let a ← pVal; pEnd
  let attr ← match a with
    | .null => pure none
    | .map kvs => pure (some kvs)
    | _ => throw .bad
  pure (match Wrapper.mapValue m path attr with
    | .ok v => "ok " ++ showVal v
    | .error e => "err " ++ wErrKind e)

/-- `wvfk m key` → `ok <x2j-wrapper.ValuesForKey(m, key)>` -/
def opWvfk : P Out := do
  let m ← pVal; let key ← pStr; pEnd
  pure ("ok " ++ showList (Wrapper.wValuesForKey m key))

/-- `wattr kv` → `ok <x2j-wrapper.NewAttributeMap(kv...)>` (`n` for nil) or `err badAttrPair` -/
def opWattr : P Out := do
  let kv ← pStrList; pEnd
  pure (match Wrapper.newAttributeMap kv with
    | .ok none => "ok n"
    | .ok (some a) => "ok " ++ showVal (.map a)
    | .error e => "err " ++ wErrKind e)

end Mxj.Drv
