/- Driver.OpsWrap — the walkers x2j-wrapper implements itself (Model/Wrapper, C20), so that the
   model the C20 theorems speak about is compared with the Go functions on every run. -/
import Driver.Util
import Mxj.Model.Wrapper
namespace Mxj.Drv
open Mxj Mxj.Proto

/-- `wfrom m path attrs` → `ok <x2j-wrapper.ValuesFromKeyPath(m, path, attrs)>` -/
def opWfrom : P Out := do
  let m ← pVal; let path ← pStr; let a ← pBool; pEnd
  pure ("ok " ++ showList (Wrapper.valuesFromKeyPath m path a))

/-- `wat m path attrs` → `ok <x2j-wrapper.ValuesAtKeyPath(m, path, attrs)>` -/
def opWat : P Out := do
  let m ← pVal; let path ← pStr; let a ← pBool; pEnd
  pure ("ok " ++ showList (Wrapper.valuesAtKeyPath m path a))

/-- `wpfk m key` → `ok <x2j-wrapper.PathsForKey(m, key)>` (the model's wrapper walker is the core's) -/
def opWpfk : P Out := do
  let m ← pVal; let key ← pStr; pEnd
  pure ("ok " ++ showStrs (pathsForKey m key))

end Mxj.Drv
