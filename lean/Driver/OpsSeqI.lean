/- Driver.OpsSeqI — the indented sequence encoder `MapSeq.XmlIndent` (C04). -/
import Driver.OpsSeq
import Mxj.Model.SeqIndent
namespace Mxj.Drv
open Mxj Mxj.Proto

/-- `xseqi cfg strconv rawtokens fin encEscape goEmpty prefix indent doc` → decode, then encode
    the result with `MapSeq.XmlIndent(prefix, indent)` -/
def opXseqi : P Out := do
  let c ← pSeqCfg; let S ← pStrconv
  let tv ← pVal; let fin ← pFin; let esc ← pBool; let ge ← pBool
  let pfx ← pStr; let ind ← pStr; let _doc ← pStr; pEnd
  match tv with
  | .list ts => match ts.mapM toTok with
    | some toks =>
      match newMapXmlSeq c S toks fin with
      | .ok (.doc (.map m)) =>
          pure ("doc " ++ showVal (.map m) ++ " | " ++ showOut (mapSeqXmlIndent c esc ge pfx ind m))
      | .ok (.doc v) => pure ("doc " ++ showVal v ++ " | err other")
      | .ok (.noRoot m) => pure ("noroot " ++ showVal m)
      | .eof => pure "err eof"
      | .syntax => pure "err syntax"
      | .err _ => pure "err other"
      | .panic s => pure ("panic " ++ s)
    | none => throw .bad
  | _ => throw .bad

end Mxj.Drv
