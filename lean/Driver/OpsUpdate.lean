/- Driver.OpsUpdate — UpdateValuesForPath (C10). -/
import Driver.Util
import Mxj.Model.Update
namespace Mxj.Drv
open Mxj Mxj.Proto

/-- `upd sep m newVal path subs pf` → `ok <m'> <count>` -/
def opUpd : P Out := do
  let sep ← pStr; let m ← pVal; let nv ← pVal; let path ← pStr; let subs ← pStrList; let pf ← pTable; pEnd
  pure (match updateValuesForPath sep pf m nv path subs with
    | .ok (m', c) => "ok " ++ showVal m' ++ " " ++ toString c
    | .error e => "err " ++ errKind e)

end Mxj.Drv
