/- Driver.OpsNewMap — Map.NewMap (C12). -/
import Driver.Util
import Mxj.Model.NewMap
namespace Mxj.Drv
open Mxj Mxj.Proto

/-- `newmap m pairs` → `ok <n>` / `err <kind> <n so far>` -/
def opNewMap : P Out := do
  let m ← pVal; let pairs ← pStrList; pEnd
  pure (match newMap m pairs with
    | (n, none) => "ok " ++ showVal (.map n)
    | (n, some e) => "err " ++ errKind e ++ " " ++ showVal (.map n))

end Mxj.Drv
