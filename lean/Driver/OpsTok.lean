/- Driver.OpsTok — the tokenizer model (`Mxj.Model.Tokenizer`) on bytes: `xtok`, and the token
   printer shared with `xrt` (same canonical token syntax the harness uses when it hands real
   tokens to the model: `[ [ sS space name [ [ space name value ] … ] ] [ sE space name ] [ sT text ] … ]`). -/
import Driver.Util
import Mxj.Model.Tokenizer
namespace Mxj.Drv
open Mxj Mxj.Proto

def attrVal (a : Attr) : Val := .list [.str a.space, .str a.name, .str a.value]

def tokVal : Tok → Val
  | .start sp n as => .list [.str ['S'], .str sp, .str n, .list (as.map attrVal)]
  | .stop sp n => .list [.str ['E'], .str sp, .str n]
  | .text s => .list [.str ['T'], .str s]
  | .comment s => .list [.str ['C'], .str s]
  | .procinst t i => .list [.str ['P'], .str t, .str i]
  | .directive s => .list [.str ['D'], .str s]

/-- the model tokenizer's answer for a byte string: `tok <token list>` or `tok err` -/
def showTokenize (s : Str) : String :=
  match Tokz.tokenize s with
  | some ts => "tok " ++ showList (ts.map tokVal)
  | none => "tok err"

/-- `xtok doc` → the model tokenizer's token list -/
def opXtok : P Out := do
  let s ← pStr; pEnd
  pure (showTokenize s)

end Mxj.Drv
