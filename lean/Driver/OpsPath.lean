/- Driver.OpsPath — ops over Mxj.Model.Path (C07, C08 and users). -/
import Driver.Util
import Mxj.Model.Denote
namespace Mxj.Drv
open Mxj Mxj.Proto

/-- `vfp sep m path subs pftable` → model result and (when in the spec's domain) the
    declarative denotation -/
def opVfp : P Out := do
  let sep ← pStr; let m ← pVal; let path ← pStr; let subs ← pStrList; let pf ← pTable
  let _arr ← pNat; pEnd
  let r := valuesForPath sep pf m path subs
  pure (showRes r ++ " | " ++ (match Denote.valuesForPath sep pf m path subs with | some vs => showList vs | none => "na"))

def opVfp1 : P Out := do
  let m ← pVal; let path ← pStr; pEnd
  let all := match valuesForPath [':'] (fun _ => none) m path [] with
    | .ok vs => showList vs
    | .error _ => "[ ]"
  pure ((match valueForPath m path with
    | .ok v => "ok " ++ showVal v
    | .error e => "err " ++ errKind e) ++ " | " ++ all)

def opExists : P Out := do
  let sep ← pStr; let m ← pVal; let path ← pStr; let subs ← pStrList; let pf ← pTable; pEnd
  pure (match pathExists sep pf m path subs with
    | .ok b => "ok " ++ (if b then "t" else "f")
    | .error e => "err " ++ errKind e)

def opParsePath : P Out := do
  let path ← pStr; pEnd
  pure (match parsePath path with
    | .ok ks => "ok " ++ String.join (ks.map fun k =>
        showStr k.name ++ (if k.isArray then "[" ++ toString k.position ++ "] " else " "))
    | .error e => "err " ++ errKind e)

end Mxj.Drv
