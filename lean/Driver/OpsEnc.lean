/- Driver.OpsEnc — compact Map encoder / AnyXml (C02, C03, C05, C16). -/
import Driver.Util
import Mxj.Model.Encode
import Driver.OpsXml
import Driver.OpsTok
import Mxj.Model.Balanced
namespace Mxj.Drv
open Mxj Mxj.Proto

def pEncCfg : P EncCfg := do
  let ap ← pStr; let tk ← pStr; let esc ← pBool; let ge ← pBool
  pure { attrPrefix := ap, textK := tk, escape := esc, goEmpty := ge }

/-- `xenc cfg api val rt et` → `ok <bytes>` / `err` -/
def opXenc : P Out := do
  let cfg ← pEncCfg; let api ← pNat; let v ← pVal; let rt ← pStr; let et ← pStr; pEnd
  let r : Except ErrKind Str := match api, v with
    | 0, .map m => mapXml cfg m none
    | 1, .map m => mapXml cfg m (some rt)
    | 2, v => anyXml cfg v rt et
    | 3, v => anyXml cfg v defaultRootTag defaultElementTag
    | _, _ => .error .other
  pure (match r with
    | .ok s => "ok " ++ showStr s
    | .error _ => "err")

/-- `xenct cfg api val rt et` → the bytes of `xenc`, the model tokenizer on them and the
    verdict of `balanced` on those tokens: `ok <bytes> | tok <tokens> | bal b` with b = 1, 0 or x (no tokens); or `err` -/
def opXenct : P Out := do
  let cfg ← pEncCfg; let api ← pNat; let v ← pVal; let rt ← pStr; let et ← pStr; pEnd
  let r : Except ErrKind Str := match api, v with
    | 0, .map m => mapXml cfg m none
    | 1, .map m => mapXml cfg m (some rt)
    | 2, v => anyXml cfg v rt et
    | 3, v => anyXml cfg v defaultRootTag defaultElementTag
    | _, _ => .error .other
  pure (match r with
    | .ok s => "ok " ++ showStr s ++ " | " ++ showTokenize s ++ " | bal " ++
        (match Tokz.tokenize s with
         | some ts => if EncTok.balanced ts then "1" else "0"
         | none => "x")
    | .error _ => "err")

/-- `xrt deccfg strconv tokens fin enc-escape goEmpty doc` → decode the tokens, encode the
    decoded Map with the compact encoder: `ok <bytes> | <Map> | tok <tokens of the bytes>` (the
    model tokenizer on the model's own output) -/
def opXrt : P Out := do
  let cfg ← pDecCfg; let S ← pStrconv
  let tv ← pVal; let fin ← pFin; let esc ← pBool; let ge ← pBool; let _doc ← pStr; pEnd
  match tv with
  | .list ts => match ts.mapM toTok with
    | some toks =>
      match newMapXml cfg S toks fin with
      | .ok (.map m) =>
        let ec : EncCfg := { attrPrefix := cfg.attrPrefix, textK := cfg.textK, escape := esc, goEmpty := ge }
        pure (match mapXml ec m none with
          | .ok s => "ok " ++ showStr s ++ " | " ++ showVal (.map m) ++ " | " ++ showTokenize s
          | .error _ => "err encode")
      | o => pure ("dec " ++ showOutcome o)
    | none => throw .bad
  | _ => throw .bad

end Mxj.Drv
