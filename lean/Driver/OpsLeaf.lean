/- Driver.OpsLeaf — LeafNodes model and its segment-level specification (C09). -/
import Driver.Util
import Mxj.Model.Leaf
import Mxj.Model.KeySpec
import Mxj.Model.Denote
namespace Mxj.Drv
open Mxj Mxj.Proto

def showLeaves (ls : List Leaf) : String :=
  "[ " ++ String.join (ls.map fun l => "[ " ++ showStr l.path ++ " " ++ showVal l.value ++ " ] ") ++ "]"

/-- `leaf attrPrefix textK dot noattr m` → `ok <model leaves> | <spec leaves> | res/nores` -/
def opLeaf : P Out := do
  let ap ← pStr; let tk ← pStr; let dot ← pBool; let noattr ← pBool; let m ← pVal; pEnd
  let cfg : LeafCfg := ⟨ap, tk, dot⟩
  let model := leafNodes cfg noattr m
  let segs := leafSegs m
  let segs' := if noattr then
      (segs.filter fun (p, _) => !p.any (segIsAttr cfg)).map fun (p, v) => (stripSegs cfg p, v)
    else segs
  let spec : List Leaf := segs'.map fun (p, v) => ⟨renderSegs cfg [] p, v⟩
  let res := KeySpec.pathSafe m && Denote.noListInList m && !dot && !noattr
  pure ("ok " ++ showLeaves model ++ " | " ++ showLeaves spec ++ " | " ++ (if res then "res" else "nores"))

end Mxj.Drv
