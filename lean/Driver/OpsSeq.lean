/- Driver.OpsSeq — sequence-preserving codec (C04, C05, C15). -/
import Driver.OpsXml
import Mxj.Model.Seq
namespace Mxj.Drv
open Mxj Mxj.Proto

def pSeqCfg : P SeqCfg := do
  let snake ← pBool; let keep ← pBool; let escDec ← pBool
  let r ← pBool; let toInt ← pBool; let toFloat ← pBool; let toBool ← pBool; let nanInf ← pBool
  pure { snake := snake, keepSpace := keep, escDec := escDec,
         cast := { r := r, toInt := toInt, toFloat := toFloat, toBool := toBool, nanInf := nanInf } }

def showOut (o : Outcome Str) : String :=
  match o with
  | .ok s => "ok " ++ showStr s
  | .eof => "err eof" | .syntax => "err syntax" | .err _ => "err other" | .panic s => "panic " ++ s

/-- `xseq cfg strconv rawtokens fin encEscape goEmpty doc` → decode, then encode the result -/
def opXseq : P Out := do
  let c ← pSeqCfg; let S ← pStrconv
  let tv ← pVal; let fin ← pFin; let esc ← pBool; let ge ← pBool; let _doc ← pStr; pEnd
  match tv with
  | .list ts => match ts.mapM toTok with
    | some toks =>
      match newMapXmlSeq c S toks fin with
      | .ok (.doc (.map m)) => pure ("doc " ++ showVal (.map m) ++ " | " ++ showOut (mapSeqXml c esc ge m))
      | .ok (.doc v) => pure ("doc " ++ showVal v ++ " | err other")
      | .ok (.noRoot m) => pure ("noroot " ++ showVal m)
      | .eof => pure "err eof"
      | .syntax => pure "err syntax"
      | .err _ => pure "err other"
      | .panic s => pure ("panic " ++ s)
    | none => throw .bad
  | _ => throw .bad

end Mxj.Drv
