/- Driver.OpsEncI — indented Map encoder `Map.XmlIndent` (C02 extension). -/
import Driver.Util
import Mxj.Model.EncodeIndent
namespace Mxj.Drv
open Mxj Mxj.Proto Mxj.Enc

/-- `xenci attrPrefix textK escape goEmpty prefix indent val rootTag` (an empty `rootTag` means
    "no rootTag argument") → `ok <bytes>` / `err <kind>`; the value must be a map -/
def opXenci : P Out := do
  let ap ← pStr; let tk ← pStr; let esc ← pBool; let ge ← pBool
  let pfx ← pStr; let ind ← pStr; let v ← pVal; let rt ← pStr; pEnd
  let cfg : EncCfg := { attrPrefix := ap, textK := tk, escape := esc, goEmpty := ge }
  let r : Except ErrKind Str := match v with
    | .map m => mapXmlIndent cfg pfx ind m (if rt.isEmpty then none else some rt)
    | _ => .error .other
  pure (match r with
    | .ok s => "ok " ++ showStr s
    | .error k => "err " ++ errKind k)

end Mxj.Drv
