/- Driver.OpsMutate — SetValueForPath / Remove / RenameKey (C11). -/
import Driver.Util
import Mxj.Model.Mutate
namespace Mxj.Drv
open Mxj Mxj.Proto

def showMut (m : Val) (r : Except ErrKind Val) : String :=
  match r with
  | .ok m' => "ok " ++ showVal m'
  | .error e => "err " ++ errKind e ++ " " ++ showVal m

def opSetv : P Out := do
  let m ← pVal; let v ← pVal; let path ← pStr; pEnd
  let pathAry := splitDot path
  let parentKeys := pathKeys (joinDot pathAry.dropLast)
  if path.contains '[' || pathHasWild parentKeys then pure "na"
  else pure (showMut m (setValueForPath m v path))

def opRemove : P Out := do
  let m ← pVal; let path ← pStr; pEnd
  pure (showMut m (removePath m path))

def opRename : P Out := do
  let m ← pVal; let path ← pStr; let nn ← pStr; pEnd
  pure (showMut m (renameKey existsNoSubs m path nn))

end Mxj.Drv
