/- Driver.Util — argument decoding helpers shared by the op tables. -/
import Driver.Proto
import Mxj.Model.Path
namespace Mxj.Drv
open Mxj Mxj.Proto

/-- result of running one op line -/
abbrev Out := String

def errKind : ErrKind → String
  | .subkeySpec => "subkeySpec" | .subkeyBool => "subkeyBool" | .subkeyFloat => "subkeyFloat"
  | .subkeyType => "subkeyType" | .noRightBracket => "noRightBracket" | .badIndex => "badIndex"
  | .pathNotExist => "pathNotExist" | .keyNotExist => "keyNotExist"
  | .newValLen => "newValLen" | .newValSpec => "newValSpec" | .newValBool => "newValBool"
  | .newValFloat => "newValFloat" | .newValType => "newValType"
  | .notAMap => "notAMap" | .renameNotFound => "renameNotFound" | .renameExists => "renameExists"
  | .prevNotFound => "prevNotFound" | .keypair => "keypair" | .other => "other"

/-- a cursor over the argument tokens -/
abbrev P := StateT (List String) (Except PErr)

def pVal : P Val := fun toks => parseVal toks
def pStr : P Str := fun toks => match toks with
  | [] => .error .bad
  | t :: rest => (parseStr t).map fun s => (s, rest)
def pNat : P Nat := fun toks => match toks with
  | [] => .error .bad
  | t :: rest => match t.toNat? with
    | some n => .ok (n, rest)
    | none => .error .bad
def pBool : P Bool := fun toks => match toks with
  | "1" :: rest => .ok (true, rest)
  | "0" :: rest => .ok (false, rest)
  | _ => .error .bad
def pEnd : P Unit := fun toks => match toks with
  | [] => .ok ((), [])
  | _ => .error .bad

/-- a list-of-strings argument, sent as a `Val.list` of `Val.str` -/
def pStrList : P (List Str) := do
  match ← pVal with
  | .list xs => xs.mapM fun x => match x with
      | .str s => pure s
      | _ => throw .bad
  | _ => throw .bad

/-- a string → tagged-number-text table (answers of an external oracle), sent as a map -/
def pTable : P (Str → Option Str) := do
  match ← pVal with
  | .map kvs => pure fun s => match lookup s kvs with
      | some (.num t) => some t
      | _ => none
  | _ => throw .bad

def runP (p : P Out) (args : List String) : Out :=
  match p.run args with
  | .ok (o, _) => o
  | .error .utf8 => "skip-invalid-utf8"
  | .error .bad => "bad-op"

def showRes (r : Except ErrKind (List Val)) : String :=
  match r with
  | .ok vs => "ok " ++ showList vs
  | .error e => "err " ++ errKind e

def showStrs (xs : List Str) : String :=
  "[ " ++ String.join (xs.map fun x => showStr x ++ " ") ++ "]"

end Mxj.Drv
