/-
  Driver.Proto — line protocol between the Go harness and the Lean model.

  One op per line; tokens separated by single spaces.
    value  ::= n | t | f | #<tag>:<text> | s<hex> | [ value* ] | { (k<hex> value)* }
  Strings are the lower-case hex of their UTF-8 bytes (`s` alone is the empty string).
  Printing is canonical: map entries sorted by the hex of their key.
-/
import Mxj.Model.Val
namespace Mxj.Proto
open Mxj

def hexVal (c : Char) : Option Nat :=
  if '0' ≤ c ∧ c ≤ '9' then some (c.toNat - '0'.toNat)
  else if 'a' ≤ c ∧ c ≤ 'f' then some (c.toNat - 'a'.toNat + 10)
  else none

def unhexBytes : List Char → Option (List UInt8)
  | [] => some []
  | [_] => none
  | a :: b :: rest => do
      let x ← hexVal a
      let y ← hexVal b
      let r ← unhexBytes rest
      pure (UInt8.ofNat (x * 16 + y) :: r)

/-- hex → string; `none` on bad hex or invalid UTF-8 -/
def unhex (h : List Char) : Option Str := do
  let bs ← unhexBytes h
  let s ← String.fromUTF8? (ByteArray.mk bs.toArray)
  pure s.toList

def hexDigit (n : Nat) : Char :=
  if n < 10 then Char.ofNat ('0'.toNat + n) else Char.ofNat ('a'.toNat + n - 10)

def hex (s : Str) : String :=
  let bs := (String.ofList s).toUTF8
  String.ofList (bs.toList.flatMap fun b => [hexDigit (b.toNat / 16), hexDigit (b.toNat % 16)])

/-- insertion sort on (key, payload) by key — only for canonical printing -/
def insSorted (x : String × String) : List (String × String) → List (String × String)
  | [] => [x]
  | y :: ys => if x.1 ≤ y.1 then x :: y :: ys else y :: insSorted x ys
def sortPairs (l : List (String × String)) : List (String × String) :=
  l.foldr insSorted []

mutual
partial def showVal : Val → String
  | .null => "n"
  | .bool true => "t"
  | .bool false => "f"
  | .num t => "#" ++ String.ofList t
  | .str s => "s" ++ hex s
  | .list xs => "[ " ++ String.join (xs.map fun x => showVal x ++ " ") ++ "]"
  | .map kvs =>
      let ps := sortPairs (kvs.map fun (k, v) => (hex k, showVal v))
      "{ " ++ String.join (ps.map fun (k, v) => "k" ++ k ++ " " ++ v ++ " ") ++ "}"
end

/-- like `showVal`, but keeps entry order (used where order is the observation) -/
partial def showValOrdered : Val → String
  | .list xs => "[ " ++ String.join (xs.map fun x => showValOrdered x ++ " ") ++ "]"
  | .map kvs =>
      "{ " ++ String.join (kvs.map fun (k, v) => "k" ++ hex k ++ " " ++ showValOrdered v ++ " ") ++ "}"
  | v => showVal v

inductive PErr | bad | utf8
  deriving Repr

/-- parse one value from a token list; returns the rest -/
partial def parseVal : List String → Except PErr (Val × List String)
  | [] => .error .bad
  | tok :: rest =>
    match tok.toList with
    | ['n'] => .ok (.null, rest)
    | ['t'] => .ok (.bool true, rest)
    | ['f'] => .ok (.bool false, rest)
    | '#' :: t => .ok (.num t, rest)
    | 's' :: h => match unhex h with
        | some s => .ok (.str s, rest)
        | none => if (unhexBytes h).isSome then .error .utf8 else .error .bad
    | ['['] => parseList rest []
    | ['{'] => parseEntries rest []
    | _ => .error .bad
where
  parseList : List String → List Val → Except PErr (Val × List String)
    | [], _ => .error .bad
    | "]" :: rest, acc => .ok (.list acc.reverse, rest)
    | toks, acc => do
        let (v, rest) ← parseVal toks
        parseList rest (v :: acc)
  parseEntries : List String → List (Str × Val) → Except PErr (Val × List String)
    | [], _ => .error .bad
    | "}" :: rest, acc => .ok (.map acc.reverse, rest)
    | ktok :: toks, acc =>
        match ktok.toList with
        | 'k' :: h => match unhex h with
            | some k => do
                let (v, rest) ← parseVal toks
                parseEntries rest ((k, v) :: acc)
            | none => if (unhexBytes h).isSome then .error .utf8 else .error .bad
        | _ => .error .bad

/-- parse a string argument token `s<hex>` -/
def parseStr (tok : String) : Except PErr Str :=
  match tok.toList with
  | 's' :: h => match unhex h with
      | some s => .ok s
      | none => if (unhexBytes h).isSome then .error .utf8 else .error .bad
  | _ => .error .bad

def showStr (s : Str) : String := "s" ++ hex s

def showList (xs : List Val) : String :=
  "[ " ++ String.join (xs.map fun x => showVal x ++ " ") ++ "]"

end Mxj.Proto
