/- Driver.Ops — the op table. -/
import Driver.OpsPath
import Driver.OpsKey
import Driver.OpsLeaf
import Driver.OpsMutate
import Driver.OpsUpdate
import Driver.OpsNewMap
import Driver.OpsXml
import Driver.OpsEnc
import Driver.OpsSeq
import Driver.OpsJson
import Driver.OpsStream
import Driver.OpsOpt
import Driver.OpsFiles
import Driver.OpsEncI
import Driver.OpsSeqI
import Driver.OpsOptDoc
import Driver.OpsWrap
import Driver.OpsTok
namespace Mxj.Drv

def dispatch (op : String) (args : List String) : Out :=
  match op with
  | "vfp" => runP opVfp args
  | "vfp1" => runP opVfp1 args
  | "exists" => runP opExists args
  | "parsepath" => runP opParsePath args
  | "vfk" => runP opVfk args
  | "pfk" => runP opPfk args
  | "hsk" => runP opHsk args
  | "leaf" => runP opLeaf args
  | "setv" => runP opSetv args
  | "remove" => runP opRemove args
  | "rename" => runP opRename args
  | "upd" => runP opUpd args
  | "newmap" => runP opNewMap args
  | "xdec" => runP opXdec args
  | "xconv" => runP opXconv args
  | "xdoc" => runP opXdoc args
  | "esc" => runP opEsc args
  | "unesc" => runP opUnesc args
  | "cast" => runP opCast args
  | "xenc" => runP opXenc args
  | "xenct" => runP opXenct args
  | "xrt" => runP opXrt args
  | "xtok" => runP opXtok args
  | "xseq" => runP opXseq args
  | "jenc" => runP opJenc args
  | "jenci" => runP opJenci args
  | "jquote" => runP opJquote args
  | "jdec" => runP opJdec args
  | "jdecf" => runP opJdec args
  | "jtail" => runP opJtail args
  | "getjson" => runP opGetJson args
  | "bread" => runP opBread args
  | "opts" => runP opOpts args
  | "xfile" => runP opXfile args
  | "xenci" => runP opXenci args
  | "xseqi" => runP opXseqi args
  | "optdoc" => runP opOptDoc args
  | "jfile" => runP opJfile args
  | "jbulk" => runP opJbulk args
  | "wfrom" => runP opWfrom args
  | "wat" => runP opWat args
  | "wpfk" => runP opWpfk args
  | "wmval" => runP opWmval args
  | "wvfk" => runP opWvfk args
  | "wattr" => runP opWattr args
  | "implonly" => "na"
  | _ => "bad-op"

end Mxj.Drv
