/- Driver.OpsFiles — the file loops (C19): NewMapsFromXmlFile on the token stream of the whole
   file, NewMapsFromJsonFile on the bytes of the file. -/
import Driver.OpsXml
import Mxj.Model.FilesXml
import Mxj.Model.Bulk
namespace Mxj.Drv
open Mxj Mxj.Proto

def showRead (r : Files.ReadRes) : String :=
  "ok " ++ showVal (.list r.maps) ++ (if r.failed then " failed" else " done")

/-- `xfile cfg strconv tokens fin bytes` (`bytes` is for the implementation side only) -/
def opXfile : P Out := do
  let cfg ← pDecCfg; let S ← pStrconv
  let tv ← pVal; let fin ← pFin; let _bytes ← pStr; pEnd
  match tv with
  | .list ts => match ts.mapM toTok with
    | some toks => pure (showRead (Files.readMapsXml cfg S fin (toks.length + 2) toks []))
    | none => throw .bad
  | _ => throw .bad

/-- `jfile bytes` -/
def opJfile : P Out := do
  let s ← pStr; pEnd
  pure (showRead (Files.readMapsJson (s.length + 2) (Stream.plain s) []))

def showBulk (r : Files.BulkRes) : String :=
  "ok " ++ showVal (.list r.maps) ++ " errs=" ++ toString r.errs ++
    (if r.failed then " failed" else " done")

/-- `jbulk cont budget bytes`: `HandleJsonReader` over the bytes; `cont` (0|1) is what the error
    handler returns, the map handler returns false on its `budget`-th call (0 = never) -/
def opJbulk : P Out := do
  let cont ← pBool; let budget ← pNat; let s ← pStr; pEnd
  pure (showBulk (Files.handleJson cont (s.length + 2) budget (Stream.plain s) [] 0))

end Mxj.Drv
