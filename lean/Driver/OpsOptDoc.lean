/- Driver.OpsOptDoc — an option history followed by a decode (C18): the state the option state
   machine reaches is turned into the decoder configuration of Mxj.Model.Decode. -/
import Driver.OpsOpt
import Driver.OpsXml
import Mxj.Model.OptCfg
namespace Mxj.Drv
open Mxj Mxj.Proto Mxj.Opt

/-- `optdoc calls cast strconv tokens fin doc` → what `NewMapXml(doc, cast)` returns after the calls -/
def opOptDoc : P Out := do
  let cv ← pVal; let cast ← pBool; let S ← pStrconv
  let tv ← pVal; let fin ← pFin; let _doc ← pStr; pEnd
  match cv, tv with
  | .list cs, .list ts =>
    match cs.mapM toCall, ts.mapM toTok with
    | some calls, some toks =>
      let st := run dflt calls
      if st.handleXMPPStreamTag then pure "skip-xmpp"
      else pure (showOutcome (newMapXml (cfgOfState st cast) S toks fin))
    | _, _ => throw .bad
  | _, _ => throw .bad

end Mxj.Drv
