/- Driver.OpsOptDoc — an option history followed by a decode (C18): the state the option state
   machine reaches is turned into the decoder configuration of Mxj.Model.Decode. -/
import Driver.OpsOpt
import Driver.OpsXml
namespace Mxj.Drv
open Mxj Mxj.Proto Mxj.Opt

/-- the decoder configuration a package state stands for (`cast` is the decoder's argument) -/
def cfgOfState (st : St) (cast : Bool) : DecCfg :=
  { attrPrefix := st.attrPrefix, lowerCase := st.lowerCase, snake := st.snakeCaseKeys,
    asMap := st.decodeSimpleValuesAsMap, seqNum := st.includeTagSeqNum,
    keepSpace := st.disableTrimWhiteSpace, textK := st.textK, escDec := st.xmlEscapeCharsDecoder,
    cast := { r := cast, toInt := st.castToInt, toFloat := st.castToFloat, toBool := st.castToBool,
              nanInf := st.castNanInf, skipSet := false, skip := [] } }

/-- `optdoc calls cast strconv tokens fin doc` → what `NewMapXml(doc, cast)` returns after the calls -/
def opOptDoc : P Out := do
  let cv ← pVal; let cast ← pBool; let S ← pStrconv
  let tv ← pVal; let fin ← pFin; let _doc ← pStr; pEnd
  match cv, tv with
  | .list cs, .list ts =>
    match cs.mapM toCall, ts.mapM toTok with
    | some calls, some toks =>
      let st := run dflt calls
      if st.handleXMPPStreamTag then pure "skip-xmpp"
      else pure (showOutcome (newMapXml (cfgOfState st cast) S toks fin))
    | _, _ => throw .bad
  | _, _ => throw .bad

end Mxj.Drv
