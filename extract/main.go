package main

// mxjextract - regenerates, from /repo's current source, the Lean file of *facts* the
// proofs depend on (lean/Mxj/Generated/Facts.lean) plus facts.json.  Syntactic (go/ast)
// only; see DESIGN.md section 5.2.

import (
	"encoding/json"
	"flag"
	"fmt"
	"go/ast"
	"go/importer"
	"go/parser"
	"go/printer"
	"go/token"
	"go/types"
	"os"
	"path/filepath"
	"sort"
	"strconv"
	"strings"
)

type Facts struct {
	EscapeTable [][2]string       `json:"escape_table"`
	Defaults    map[string]string `json:"defaults"`
	Consts      map[string]string `json:"consts"`
	// per function: package-level variables written / read (direct, syntactic)
	Writes map[string][]string `json:"writes"`
	Reads  map[string][]string `json:"reads"`
	Calls  map[string][]string `json:"calls"`
	Vars   []string            `json:"vars"`
}

func leanStr(s string) string {
	var sb strings.Builder
	sb.WriteString("[")
	for i, r := range []rune(s) {
		if i > 0 {
			sb.WriteString(", ")
		}
		sb.WriteString(fmt.Sprintf("Char.ofNat %d", r))
	}
	sb.WriteString("]")
	return sb.String()
}

func lit(e ast.Expr) (string, bool) {
	switch x := e.(type) {
	case *ast.BasicLit:
		switch x.Kind {
		case token.STRING:
			s, err := strconv.Unquote(x.Value)
			return s, err == nil
		case token.INT, token.FLOAT:
			return x.Value, true
		}
	case *ast.Ident:
		if x.Name == "true" || x.Name == "false" || x.Name == "nil" {
			return x.Name, true
		}
		return "=" + x.Name, true
	case *ast.CallExpr: // []byte(`&`)
		if len(x.Args) == 1 {
			return lit(x.Args[0])
		}
	}
	return "", false
}

func main() {
	repo := flag.String("repo", "/repo", "repository root")
	out := flag.String("out", "", "Lean output file")
	jout := flag.String("json", "", "facts.json output")
	flag.Parse()

	fset := token.NewFileSet()
	pkgs, err := parser.ParseDir(fset, *repo, func(fi os.FileInfo) bool {
		return !strings.HasSuffix(fi.Name(), "_test.go") && fi.Name() != "verif_hooks.go"
	}, 0)
	if err != nil {
		fmt.Fprintln(os.Stderr, "extract: parse:", err)
		os.Exit(1)
	}
	pkg := pkgs["mxj"]
	if pkg == nil {
		fmt.Fprintln(os.Stderr, "extract: package mxj not found in", *repo)
		os.Exit(1)
	}
	f := Facts{Defaults: map[string]string{}, Consts: map[string]string{}, Writes: map[string][]string{}, Reads: map[string][]string{}, Calls: map[string][]string{}}
	zero := map[string]string{"bool": "false", "string": "", "int": "0"}
	globals := map[string]bool{}
	var files []string
	for name := range pkg.Files {
		files = append(files, name)
	}
	sort.Strings(files)
	for _, name := range files {
		for _, d := range pkg.Files[name].Decls {
			gd, ok := d.(*ast.GenDecl)
			if !ok {
				continue
			}
			for _, sp := range gd.Specs {
				vs, ok := sp.(*ast.ValueSpec)
				if !ok {
					continue
				}
				for i, n := range vs.Names {
					if gd.Tok == token.CONST {
						if i < len(vs.Values) {
							if v, ok := lit(vs.Values[i]); ok {
								f.Consts[n.Name] = v
							}
						}
						continue
					}
					globals[n.Name] = true
					if n.Name == "escapechars" && i < len(vs.Values) {
						if cl, ok := vs.Values[i].(*ast.CompositeLit); ok {
							for _, row := range cl.Elts {
								rl, ok := row.(*ast.CompositeLit)
								if !ok || len(rl.Elts) != 2 {
									fmt.Fprintln(os.Stderr, "extract: unexpected escape table row shape")
									os.Exit(1)
								}
								a, ok1 := lit(rl.Elts[0])
								b, ok2 := lit(rl.Elts[1])
								if !ok1 || !ok2 {
									fmt.Fprintln(os.Stderr, "extract: non-literal escape table entry")
									os.Exit(1)
								}
								f.EscapeTable = append(f.EscapeTable, [2]string{a, b})
							}
						}
						continue
					}
					if i < len(vs.Values) {
						if v, ok := lit(vs.Values[i]); ok {
							f.Defaults[n.Name] = v
						}
					} else if id, ok := vs.Type.(*ast.Ident); ok {
						if z, ok := zero[id.Name]; ok {
							f.Defaults[n.Name] = z
						}
					} else if vs.Type != nil {
						f.Defaults[n.Name] = "nil"
					}
				}
			}
		}
	}
	// resolve `= minArraySize`-style defaults
	for k, v := range f.Defaults {
		if strings.HasPrefix(v, "=") {
			if c, ok := f.Consts[v[1:]]; ok {
				f.Defaults[k] = c
			}
		}
	}
	for g := range globals {
		f.Vars = append(f.Vars, g)
	}
	sort.Strings(f.Vars)

	// direct global reads / writes / static calls per function, resolved with go/types
	var astFiles []*ast.File
	for _, name := range files {
		astFiles = append(astFiles, pkg.Files[name])
	}
	info := &types.Info{Uses: map[*ast.Ident]types.Object{}, Defs: map[*ast.Ident]types.Object{}, Selections: map[*ast.SelectorExpr]*types.Selection{}, Types: map[ast.Expr]types.TypeAndValue{}}
	conf := types.Config{Importer: importer.ForCompiler(fset, "source", nil), Error: func(error) {}}
	tpkg, _ := conf.Check("github.com/clbanning/mxj/v2", fset, astFiles, info)
	if tpkg == nil {
		fmt.Fprintln(os.Stderr, "extract: type check failed")
		os.Exit(1)
	}
	funcName := func(fn *types.Func) string {
		sig, _ := fn.Type().(*types.Signature)
		if sig != nil && sig.Recv() != nil {
			t := sig.Recv().Type()
			if p, ok := t.(*types.Pointer); ok {
				t = p.Elem()
			}
			if n, ok := t.(*types.Named); ok {
				return n.Obj().Name() + "." + fn.Name()
			}
		}
		return fn.Name()
	}
	isGlobal := func(o types.Object) bool {
		v, ok := o.(*types.Var)
		return ok && v.Pkg() == tpkg && v.Parent() == tpkg.Scope()
	}
	for _, af := range astFiles {
		for _, d := range af.Decls {
			fd, ok := d.(*ast.FuncDecl)
			if !ok || fd.Body == nil {
				continue
			}
			fobj, _ := info.Defs[fd.Name].(*types.Func)
			if fobj == nil {
				continue
			}
			fn := funcName(fobj)
			w, r, c := map[string]bool{}, map[string]bool{}, map[string]bool{}
			written := map[*ast.Ident]bool{}
			ast.Inspect(fd.Body, func(n ast.Node) bool {
				switch x := n.(type) {
				case *ast.AssignStmt:
					for _, l := range x.Lhs {
						if id, ok := l.(*ast.Ident); ok {
							if o := info.Uses[id]; o != nil && isGlobal(o) {
								w[id.Name] = true
								if x.Tok == token.ASSIGN {
									written[id] = true // plain store: not a read
								}
							}
						} else if id := baseIdent(l); id != nil {
							// a store through the variable: g[k] = v, g.f = v, *g = v, g[i].f = v
							if o := info.Uses[id]; o != nil && isGlobal(o) {
								w[id.Name] = true
							}
						}
					}
				case *ast.IncDecStmt:
					if id := baseIdent(x.X); id != nil {
						if o := info.Uses[id]; o != nil && isGlobal(o) {
							w[id.Name] = true
						}
					}
				case *ast.UnaryExpr:
					// &g handed out: whoever gets it can write the variable
					if x.Op == token.AND {
						if id := baseIdent(x.X); id != nil {
							if o := info.Uses[id]; o != nil && isGlobal(o) {
								w[id.Name] = true
							}
						}
					}
				case *ast.SliceExpr:
					// g[:] of a package-level ARRAY handed out aliases the variable's storage
					if id, ok := x.X.(*ast.Ident); ok {
						if o := info.Uses[id]; o != nil && isGlobal(o) {
							if _, isArr := o.Type().Underlying().(*types.Array); isArr {
								w[id.Name] = true
							}
						}
					}
				case *ast.CallExpr:
					if fid, ok := x.Fun.(*ast.Ident); ok && fid.Name == "delete" && len(x.Args) == 2 {
						if id := baseIdent(x.Args[0]); id != nil {
							if o := info.Uses[id]; o != nil && isGlobal(o) {
								w[id.Name] = true
							}
						}
					}
					switch fx := x.Fun.(type) {
					case *ast.Ident:
						if fo, ok := info.Uses[fx].(*types.Func); ok && fo.Pkg() == tpkg {
							c[funcName(fo)] = true
						}
					case *ast.SelectorExpr:
						if sel := info.Selections[fx]; sel != nil {
							if fo, ok := sel.Obj().(*types.Func); ok && fo.Pkg() == tpkg {
								c[funcName(fo)] = true
							}
						} else if fo, ok := info.Uses[fx.Sel].(*types.Func); ok && fo.Pkg() == tpkg {
							c[funcName(fo)] = true
						}
					}
				case *ast.Ident:
					if o := info.Uses[x]; o != nil && isGlobal(o) && !written[x] {
						r[x.Name] = true
					}
				}
				return true
			})
			f.Writes[fn] = keysOf(w)
			f.Reads[fn] = keysOf(r)
			f.Calls[fn] = keysOf(c)
		}
	}

	// ---- potentially panicking sites (index / slice expressions on slices and strings,
	// single-value type assertions, explicit pointer dereferences) after discarding the
	// syntactically guarded ones
	type site struct{ fn, kind, expr string }
	var sites []site
	exprText := func(e ast.Expr) string {
		var b strings.Builder
		printer.Fprint(&b, fset, e)
		return strings.Join(strings.Fields(b.String()), " ")
	}
	for _, af := range astFiles {
		for _, d := range af.Decls {
			fd, ok := d.(*ast.FuncDecl)
			if !ok || fd.Body == nil {
				continue
			}
			fobj, _ := info.Defs[fd.Name].(*types.Func)
			if fobj == nil {
				continue
			}
			fn := funcName(fobj)
			var stack []ast.Node
			ast.Inspect(fd.Body, func(n ast.Node) bool {
				if n == nil {
					stack = stack[:len(stack)-1]
					return true
				}
				stack = append(stack, n)
				switch x := n.(type) {
				case *ast.TypeAssertExpr:
					if x.Type == nil {
						return true // the guard of a type switch
					}
					// comma-ok form?
					if len(stack) >= 2 {
						switch p := stack[len(stack)-2].(type) {
						case *ast.AssignStmt:
							if len(p.Lhs) == 2 && len(p.Rhs) == 1 && p.Rhs[0] == ast.Expr(x) {
								return true
							}
						case *ast.ValueSpec:
							if len(p.Names) == 2 && len(p.Values) == 1 {
								return true
							}
						}
					}
					// inside `case T:` of a type switch on the same operand
					subj, typ := exprText(x.X), exprText(x.Type)
					guarded := false
					for i := len(stack) - 1; i >= 0 && !guarded; i-- {
						cc, ok := stack[i].(*ast.CaseClause)
						if !ok || i == 0 {
							continue
						}
						// find the enclosing type switch
						for j := i - 1; j >= 0; j-- {
							ts, ok := stack[j].(*ast.TypeSwitchStmt)
							if !ok {
								continue
							}
							var ta *ast.TypeAssertExpr
							switch a := ts.Assign.(type) {
							case *ast.ExprStmt:
								ta, _ = a.X.(*ast.TypeAssertExpr)
							case *ast.AssignStmt:
								if len(a.Rhs) == 1 {
									ta, _ = a.Rhs[0].(*ast.TypeAssertExpr)
								}
							}
							if ta != nil && exprText(ta.X) == subj && len(cc.List) == 1 && exprText(cc.List[0]) == typ {
								guarded = true
							}
							break
						}
					}
					if !guarded {
						sites = append(sites, site{fn, "assert", subj + ".(" + typ + ")"})
					}
				case *ast.IndexExpr:
					tv, ok := info.Types[x.X]
					if !ok {
						return true
					}
					switch u := tv.Type.Underlying().(type) {
					case *types.Map:
						return true
					case *types.Array:
						if c, ok := info.Types[x.Index]; ok && c.Value != nil {
							_ = u
							return true // constant index into a fixed-size array is checked by the compiler
						}
					}
					// under `for i := range x` / `for i ... i < len(x)` with the same x and i
					xs, is := exprText(x.X), exprText(x.Index)
					guarded := false
					for i := len(stack) - 1; i >= 0; i-- {
						switch l := stack[i].(type) {
						case *ast.RangeStmt:
							if l.Key != nil && exprText(l.Key) == is && exprText(l.X) == xs {
								guarded = true
							}
						case *ast.ForStmt:
							if be, ok := l.Cond.(*ast.BinaryExpr); ok && be.Op == token.LSS && exprText(be.X) == is && exprText(be.Y) == "len("+xs+")" {
								guarded = true
							}
						}
					}
					// strings.Split(...)[0]
					if ce, ok := x.X.(*ast.CallExpr); ok && exprText(ce.Fun) == "strings.Split" && is == "0" {
						guarded = true
					}
					if !guarded {
						sites = append(sites, site{fn, "index", xs + "[" + is + "]"})
					}
				case *ast.SliceExpr:
					sites = append(sites, site{fn, "slice", exprText(x)})
				case *ast.StarExpr:
					if _, isType := info.Types[x]; isType && info.Types[x].IsType() {
						return true
					}
					sites = append(sites, site{fn, "deref", exprText(x)})
				}
				return true
			})
		}
	}
	sort.Slice(sites, func(i, j int) bool {
		if sites[i].fn != sites[j].fn {
			return sites[i].fn < sites[j].fn
		}
		if sites[i].kind != sites[j].kind {
			return sites[i].kind < sites[j].kind
		}
		return sites[i].expr < sites[j].expr
	})
	// distinct (function, kind, expression) triples
	var uniq []site
	for i, st := range sites {
		if i == 0 || st != sites[i-1] {
			uniq = append(uniq, st)
		}
	}
	sites = uniq

	if *jout != "" {
		b, _ := json.MarshalIndent(f, "", " ")
		os.MkdirAll(filepath.Dir(*jout), 0o755)
		os.WriteFile(*jout, b, 0o644)
	}
	var sb strings.Builder
	sb.WriteString("/- GENERATED by /verif/extract from /repo's current source on every run. Do not edit, do not commit. -/\nnamespace Mxj.Generated\n\n")
	sb.WriteString("/-- `escapechars` of escapechars.go, in source order -/\ndef escapeTable : List (List Char × List Char) := [\n")
	for i, row := range f.EscapeTable {
		sep := ","
		if i == len(f.EscapeTable)-1 {
			sep = ""
		}
		sb.WriteString("  (" + leanStr(row[0]) + ", " + leanStr(row[1]) + ")" + sep + "\n")
	}
	sb.WriteString("]\n\n/-- initial value of every package-level variable with a literal (or zero) initialiser -/\ndef defaults : List (String × List Char) := [\n")
	ks := make([]string, 0, len(f.Defaults))
	for k := range f.Defaults {
		ks = append(ks, k)
	}
	sort.Strings(ks)
	for i, k := range ks {
		sep := ","
		if i == len(ks)-1 {
			sep = ""
		}
		sb.WriteString(fmt.Sprintf("  (%q, %s)%s\n", k, leanStr(f.Defaults[k]), sep))
	}
	sb.WriteString("]\n\n/-- package constants -/\ndef consts : List (String × List Char) := [\n")
	cs := make([]string, 0, len(f.Consts))
	for k := range f.Consts {
		cs = append(cs, k)
	}
	sort.Strings(cs)
	for i, k := range cs {
		sep := ","
		if i == len(cs)-1 {
			sep = ""
		}
		sb.WriteString(fmt.Sprintf("  (%q, %s)%s\n", k, leanStr(f.Consts[k]), sep))
	}
	sb.WriteString("]\n\n/-- functions that assign a package-level variable, with the variables (direct, syntactic) -/\ndef globalWriters : List (String × List String) := [\n")
	var ws []string
	for fn, vs := range f.Writes {
		if len(vs) > 0 {
			ws = append(ws, fmt.Sprintf("  (%q, [%s])", fn, quoteJoin(vs)))
		}
	}
	sort.Strings(ws)
	sb.WriteString(strings.Join(ws, ",\n"))
	sb.WriteString("\n]\n\nend Mxj.Generated\n")
	sb1 := sb.String()
	sb.Reset()
	sb.WriteString("/- GENERATED by /verif/extract from /repo's current source on every run. Do not edit, do not commit. -/\nnamespace Mxj.Generated\n\n")

	// ---- per-function facts with resolved callees, and closure certificates for root sets
	names := make([]string, 0, len(f.Reads))
	for fn := range f.Reads {
		names = append(names, fn)
	}
	sort.Strings(names)
	resolved := map[string][]string{}
	for _, fn := range names {
		resolved[fn] = f.Calls[fn]
	}
	sb.WriteString("/-- per function: package-level variables read, written, and callees (methods resolved by\n    name to every receiver: an over-approximation) -/\ndef funcFacts : List (String × List String × List String × List String) := [\n")
	for i, fn := range names {
		sep := ","
		if i == len(names)-1 {
			sep = ""
		}
		sb.WriteString(fmt.Sprintf("  (%q, [%s], [%s], [%s])%s\n", fn, quoteJoin(f.Reads[fn]), quoteJoin(f.Writes[fn]), quoteJoin(resolved[fn]), sep))
	}
	sb.WriteString("]\n\n")
	closure := func(roots []string) []string {
		seen := map[string]bool{}
		var stack []string
		for _, r := range roots {
			if _, ok := f.Reads[r]; ok && !seen[r] {
				seen[r] = true
				stack = append(stack, r)
			}
		}
		for len(stack) > 0 {
			x := stack[len(stack)-1]
			stack = stack[:len(stack)-1]
			for _, c := range resolved[x] {
				if !seen[c] {
					seen[c] = true
					stack = append(stack, c)
				}
			}
		}
		return keysOf(seen)
	}
	rootSets := [][2]interface{}{
		{"seqJsonRoots", []string{"NewMapXmlSeq", "NewMapFormattedXmlSeq", "NewMapXmlSeqReader", "NewMapXmlSeqReaderRaw", "MapSeq.Xml", "MapSeq.XmlWriter", "Map.Json", "Map.JsonIndent", "Map.JsonWriter", "Map.JsonWriterRaw", "Map.JsonIndentWriter", "Map.JsonIndentWriterRaw", "NewMapJson", "NewMapJsonReader", "NewMapJsonReaderRaw", "HandleJsonReader", "HandleJsonReaderRaw", "Map.Copy"}},
		{"decoderRoots", []string{"NewMapXml", "NewMapXmlReader", "NewMapXmlReaderRaw", "HandleXmlReader", "HandleXmlReaderRaw", "NewMapXmlSeq", "NewMapFormattedXmlSeq", "NewMapXmlSeqReader", "NewMapXmlSeqReaderRaw", "NewMapJson", "NewMapJsonReader", "NewMapJsonReaderRaw", "NewMapGob"}},
		{"queryRoots", []string{"Map.ValuesForKey", "Map.ValueForKey", "Map.ValuesForPath", "Map.ValueForPath", "Map.ValueForPathString", "Map.ValueOrEmptyForPathString", "Map.PathsForKey", "Map.PathForKeyShortest", "Map.Exists", "Map.LeafNodes", "Map.LeafPaths", "Map.LeafValues", "Map.Elements", "Map.Attributes", "Map.Root", "Map.Xml", "Map.XmlIndent", "Map.XmlWriter", "Map.XmlIndentWriter", "MapSeq.Xml", "MapSeq.XmlIndent", "Map.Json", "Map.JsonIndent", "Map.Gob", "Map.Copy", "Map.StringIndent", "Map.StringIndentNoTypeInfo", "AnyXml", "AnyXmlIndent", "NewMapXml", "NewMapXmlSeq", "NewMapJson", "NewMapXmlReader", "NewMapXmlReaderRaw", "HandleXmlReader", "HandleXmlReaderRaw", "NewMapFormattedXmlSeq", "NewMapXmlSeqReader", "NewMapXmlSeqReaderRaw", "NewMapJsonReader", "NewMapJsonReaderRaw", "HandleJsonReader", "HandleJsonReaderRaw", "NewMapGob", "BeautifyXml", "MapSeq.XmlWriter", "MapSeq.XmlIndentWriter", "Map.JsonWriter", "Map.JsonWriterRaw", "Map.JsonIndentWriter", "Map.JsonIndentWriterRaw", "Map.NewMap", "NewMapsFromXmlFile", "NewMapsFromJsonFile", "Maps.XmlString", "Maps.JsonString"}},
	}
	// per-property API groups for the frame theorems (Props/CxxExtFrame.lean): which package-level
	// variables the functions a property observes may read at all, and that they write none
	rootSets = append(rootSets, [][2]interface{}{
		{"c01FrameRoots", []string{"NewMapXml", "NewMapXmlReader", "NewMapXmlReaderRaw"}},
		{"c03FrameRoots", []string{"Map.Xml", "Map.XmlIndent", "Map.XmlWriter", "Map.XmlIndentWriter", "AnyXml", "AnyXmlIndent"}},
		{"c06FrameRoots", []string{"Map.Json", "Map.JsonIndent", "Map.JsonWriter", "Map.JsonWriterRaw", "Map.JsonIndentWriter", "Map.JsonIndentWriterRaw", "NewMapJson", "Map.Copy"}},
		{"c07FrameRoots", []string{"Map.ValuesForPath", "Map.ValueForPath", "Map.ValueForPathString", "Map.ValueOrEmptyForPathString", "Map.Exists"}},
		{"c08FrameRoots", []string{"Map.ValuesForKey", "Map.ValueForKey", "Map.PathsForKey", "Map.PathForKeyShortest"}},
		{"c09FrameRoots", []string{"Map.LeafNodes", "Map.LeafPaths", "Map.LeafValues"}},
		{"c10FrameRoots", []string{"Map.UpdateValuesForPath"}},
		{"c11FrameRoots", []string{"Map.SetValueForPath", "Map.Remove", "Map.RenameKey"}},
		{"c12FrameRoots", []string{"Map.NewMap"}},
		{"c13FrameRoots", []string{"NewMapJsonReader", "NewMapJsonReaderRaw", "HandleJsonReader", "HandleJsonReaderRaw"}},
		{"c19FrameRoots", []string{"Map.Gob", "NewMapGob"}},
		{"c02FrameRoots", []string{"NewMapXml", "Map.Xml", "Map.XmlIndent"}},
		{"c04FrameRoots", []string{"NewMapXmlSeq", "NewMapFormattedXmlSeq", "MapSeq.Xml", "MapSeq.XmlWriter"}},
		{"c05FrameRoots", []string{"Map.Xml", "Map.XmlIndent", "MapSeq.Xml", "AnyXml"}},
		{"c14FrameRoots", []string{"NewMapXml", "NewMapXmlSeq"}},
		{"c16FrameRoots", []string{"Map.Xml", "Map.XmlIndent", "Map.XmlWriter", "Map.XmlIndentWriter", "Map.Json", "Map.JsonIndent", "Map.JsonWriter", "Map.JsonWriterRaw", "Maps.XmlString", "Maps.JsonString", "MapSeq.Xml"}},
	}...)
	for _, rs := range rootSets {
		name := rs[0].(string)
		roots := rs[1].([]string)
		var present []string
		for _, r := range roots {
			if _, ok := f.Reads[r]; ok {
				present = append(present, r)
			}
		}
		sb.WriteString(fmt.Sprintf("def %s : List String := [%s]\n", name, quoteJoin(present)))
		sb.WriteString(fmt.Sprintf("/-- certificate: the extractor's transitive closure of `%s` under the callee relation -/\ndef %sClosure : List String := [%s]\n\n", name, name, quoteJoin(closure(present))))
	}
	sb.WriteString("/-- potentially panicking sites left after the syntactic guards: (function, kind, expression) -/\ndef panicSites : List (String × String × String) := [\n")
	for i, st := range sites {
		sep := ","
		if i == len(sites)-1 {
			sep = ""
		}
		sb.WriteString(fmt.Sprintf("  (%q, %q, %q)%s\n", st.fn, st.kind, st.expr, sep))
	}
	sb.WriteString("]\n\n")
	sb.WriteString("end Mxj.Generated\n")
	if *out != "" {
		os.MkdirAll(filepath.Dir(*out), 0o755)
		writeIfChanged(*out, sb1)
		writeIfChanged(filepath.Join(filepath.Dir(*out), "CallFacts.lean"), sb.String())
	}
	fmt.Printf("extract: %d escape rows, %d defaults, %d consts, %d functions\n", len(f.EscapeTable), len(f.Defaults), len(f.Consts), len(f.Writes))
}

func keysOf(m map[string]bool) []string {
	out := make([]string, 0, len(m))
	for k := range m {
		out = append(out, k)
	}
	sort.Strings(out)
	return out
}

func quoteJoin(ss []string) string {
	q := make([]string, len(ss))
	for i, s := range ss {
		q[i] = strconv.Quote(s)
	}
	return strings.Join(q, ", ")
}

// writeIfChanged keeps the file (and its mtime) when the content is the same, so that lake
// does not rebuild what depends on it.
func writeIfChanged(path, content string) {
	if old, err := os.ReadFile(path); err == nil && string(old) == content {
		return
	}
	if err := os.WriteFile(path, []byte(content), 0o644); err != nil {
		fmt.Fprintln(os.Stderr, err)
		os.Exit(1)
	}
}

// baseIdent: the identifier a store expression goes through (g in g[k], g.f, *g, g[i].f); nil for a
// plain identifier (handled separately) and for anything else.
func baseIdent(e ast.Expr) *ast.Ident {
	depth := 0
	for {
		switch x := e.(type) {
		case *ast.IndexExpr:
			e = x.X
		case *ast.SelectorExpr:
			e = x.X
		case *ast.StarExpr:
			e = x.X
		case *ast.ParenExpr:
			e = x.X
		case *ast.Ident:
			if depth == 0 {
				return nil
			}
			return x
		default:
			return nil
		}
		depth++
	}
}
