module mxjextract

go 1.23
