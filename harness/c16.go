package main

// c16.go - encoders are deterministic and all their variants agree: equal Maps built in
// different insertion orders / capacities give byte-identical output on repeated calls;
// attributes and child elements ascend by key; Writer / Raw / Maps string / file forms are the
// documented compositions.  (Byte-for-byte agreement with the Lean encoder model is C03/C02.)

import (
	"bytes"
	"encoding/xml"
	"fmt"
	"os"
	"path/filepath"
	"sort"
	"strings"

	mxj "github.com/clbanning/mxj/v2"
)

// rebuild makes a deep copy inserting map entries in a PRNG-chosen order and capacity.
func (r *Rng) rebuild(v interface{}) interface{} {
	switch x := v.(type) {
	case map[string]interface{}:
		ks := sortedKeys(x)
		for i := len(ks) - 1; i > 0; i-- {
			j := r.Intn(i + 1)
			ks[i], ks[j] = ks[j], ks[i]
		}
		o := make(map[string]interface{}, r.Pick2(0, 64))
		// extra inserts and deletes perturb the bucket layout
		for i := 0; i < r.Intn(20); i++ {
			o[fmt.Sprintf("\x00tmp%d", i)] = i
		}
		for _, k := range ks {
			o[k] = r.rebuild(x[k])
		}
		for k := range o {
			if strings.HasPrefix(k, "\x00tmp") {
				delete(o, k)
			}
		}
		return o
	case []interface{}:
		o := make([]interface{}, len(x))
		for i, e := range x {
			o[i] = r.rebuild(e)
		}
		return o
	}
	return v
}

// ascending: attributes of every element ascend by name; runs of sibling elements ascend by name.
func ascending(b []byte) string {
	d := xml.NewDecoder(bytes.NewReader(b))
	var lastChild []string
	for {
		t, err := d.RawToken()
		if err != nil {
			return ""
		}
		switch x := t.(type) {
		case xml.StartElement:
			rawName := func(n xml.Name) string {
				if n.Space != "" {
					return n.Space + ":" + n.Local // RawToken splits "xmlns:a" at the colon
				}
				return n.Local
			}
			for i := 1; i < len(x.Attr); i++ {
				if rawName(x.Attr[i-1].Name) > rawName(x.Attr[i].Name) {
					return "attributes of <" + x.Name.Local + "> are not in ascending order"
				}
			}
			if n := len(lastChild); n > 0 {
				if lastChild[n-1] != "" && lastChild[n-1] > x.Name.Local {
					return "child elements " + lastChild[n-1] + ", " + x.Name.Local + " are not in ascending order"
				}
				lastChild[n-1] = x.Name.Local
			}
			lastChild = append(lastChild, "")
		case xml.EndElement:
			if len(lastChild) > 0 {
				lastChild = lastChild[:len(lastChild)-1]
			}
		}
	}
}

type failWriter struct{ bytes.Buffer }

func c16Exec(op string) string {
	c, _ := newCur(op)
	c.pos++ // "variants"
	m := toFloats(c.mapVal()).(map[string]interface{})
	doc := []byte(c.str())
	seed := c.nat()
	pre := c.str()
	ind := c.str()
	if c.err != nil {
		return "bad-op " + c.err.Error()
	}
	mxj.XMLEscapeChars(true)
	bystanders()
	r := NewRng(uint64(seed))
	notes := []string{}
	note := func(s string) { notes = append(notes, s) }
	mv := mxj.Map(m)
	x0, _ := mv.Xml()
	xi0, _ := mv.XmlIndent(pre, ind)
	j0, _ := mv.Json()
	js0, _ := mv.Json(true)
	ji0, _ := mv.JsonIndent(pre, ind)
	for k := 0; k < 4; k++ {
		mk := mxj.Map(r.rebuild(m).(map[string]interface{}))
		if x, _ := mk.Xml(); !bytes.Equal(x, x0) {
			note("Xml() differs for an equal Map built in another insertion order")
		}
		if x, _ := mk.XmlIndent(pre, ind); !bytes.Equal(x, xi0) {
			note("XmlIndent() differs for an equal Map built in another insertion order")
		}
		if x, _ := mk.Json(); !bytes.Equal(x, j0) {
			note("Json() differs for an equal Map built in another insertion order")
		}
		if x, _ := mk.JsonIndent(pre, ind); !bytes.Equal(x, ji0) {
			note("JsonIndent() differs for an equal Map built in another insertion order")
		}
	}
	if x, _ := mv.Xml(); !bytes.Equal(x, x0) {
		note("repeated Xml() calls differ")
	}
	if a := ascending(x0); a != "" {
		note(a)
	}
	// an explicit root tag: Xml("doc") is Xml() for a Map with several keys; for a single non-list
	// key it wraps the document
	if len(mv) > 1 {
		if xd, err := mv.Xml("doc"); err != nil || !bytes.Equal(xd, x0) {
			note("Map.Xml(\"doc\") differs from Map.Xml() for a Map with several keys")
		}
	} else if len(mv) == 1 {
		for k, v := range mv {
			_, isList := v.([]interface{})
			if !isList && !strings.HasPrefix(k, "-") && k != "#text" {
				if xw, err := mv.Xml("wrap"); err != nil || string(xw) != "<wrap>"+string(x0)+"</wrap>" {
					note("Map.Xml(rootTag) is not the compact document wrapped in the root tag")
				}
			}
		}
	}
	// Writer forms - each after a Writer-form call that failed part-way (nothing of a failed
	// call may show up in a later one)
	{
		var junk bytes.Buffer
		badAttr := mxj.Map{"doc": map[string]interface{}{"a": "stale", "c": map[string]interface{}{"-id": []interface{}{1}}}}
		badAttr.XmlWriter(&junk)
		badAttr.XmlIndentWriter(&junk, pre, ind)
		badJson := mxj.Map{"stale": "x", "zz": make(chan int)}
		badJson.JsonWriter(&junk)
		badJson.JsonIndentWriter(&junk, pre, ind)
		badJson.JsonWriterRaw(&junk)
		badJson.JsonIndentWriterRaw(&junk, pre, ind)
	}
	var w bytes.Buffer
	if err := mv.XmlWriter(&w); err != nil || !bytes.Equal(w.Bytes(), x0) {
		note("XmlWriter wrote other bytes than Xml returns")
	}
	w.Reset()
	if err := mv.XmlIndentWriter(&w, pre, ind); err != nil || !bytes.Equal(w.Bytes(), xi0) {
		note("XmlIndentWriter wrote other bytes than XmlIndent returns")
	}
	w.Reset()
	if err := mv.JsonWriter(&w); err != nil || !bytes.Equal(w.Bytes(), j0) {
		note("JsonWriter wrote other bytes than Json returns")
	}
	w.Reset()
	keptRaw, err := mv.JsonWriterRaw(&w, true)
	if err != nil || !bytes.Equal(w.Bytes(), js0) || !bytes.Equal(keptRaw, js0) {
		note("JsonWriterRaw(safe) wrote/returned other bytes than Json(safe) returns")
	}
	w.Reset()
	if err := mv.JsonIndentWriter(&w, pre, ind); err != nil || !bytes.Equal(w.Bytes(), ji0) {
		note("JsonIndentWriter wrote other bytes than JsonIndent returns")
	}
	w.Reset()
	keptRawI, err := mv.JsonIndentWriterRaw(&w, pre, ind)
	if err != nil || !bytes.Equal(w.Bytes(), ji0) || !bytes.Equal(keptRawI, ji0) {
		note("JsonIndentWriterRaw wrote/returned other bytes than JsonIndent returns")
	}
	{
		// what a Raw form returned is the caller's: later Writer-form calls (other content, other form,
		// shorter and longer) leave it alone
		var w2 bytes.Buffer
		other := mxj.Map{"zz": "later", "n": []interface{}{1.0, "two"}}
		other.JsonWriter(&w2)
		other.JsonIndentWriterRaw(&w2, " ", "\t")
		mv.JsonWriter(&w2)
		other.JsonWriterRaw(&w2, true)
		mv.JsonIndentWriter(&w2, "\t", " ")
		if !bytes.Equal(keptRaw, js0) {
			note("RAWKEPT the bytes JsonWriterRaw returned changed during later Writer-form calls: " + clip(string(keptRaw), 120))
		}
		if !bytes.Equal(keptRawI, ji0) {
			note("RAWKEPT the bytes JsonIndentWriterRaw returned changed during later Writer-form calls: " + clip(string(keptRawI), 120))
		}
	}
	// equal content, other Go container types (a sub-document attached as mxj.Map, a YAML decoder's
	// map[interface{}]interface{}, map[string]string, []string): the encoders coerce them (issue #48
	// and the []string arm), so the bytes are those of the plain Map - except where the root rule
	// looks at the members of a root-level list - and in any case the output is a pure function of
	// the value and well formed
	rootList := false
	if len(m) == 1 {
		for _, rv := range m {
			_, rootList = rv.([]interface{})
		}
	}
	for k := uint64(0); k < 2; k++ {
		tx := mxj.Map(retype(m, hashStr(op)+k, "MYSLB", 0).(map[string]interface{}))
		b1, err1 := tx.Xml()
		b2, _ := tx.Xml()
		switch {
		case !bytes.Equal(b1, b2):
			note("TYPED Xml() of one Map holding other Go container types gives different bytes on a second call")
		case err1 == nil && wellFormedAll(x0) && !wellFormedAll(b1):
			note("TYPED Xml() of a Map holding equal content in other Go container types is not well formed: " + clip(string(b1), 160))
		case !rootList && (err1 != nil || !bytes.Equal(b1, x0)):
			note("TYPED Xml() of a Map holding equal content in other Go container types differs: " + clip(string(b1), 160))
		}
		if b, err := tx.XmlIndent(pre, ind); !rootList && (err != nil || !bytes.Equal(b, xi0)) {
			note("TYPED XmlIndent() of a Map holding equal content in other Go container types differs")
		}
		tj := mxj.Map(retype(m, hashStr(op)+k, "MSL", 0).(map[string]interface{}))
		if b, err := tj.Json(); err != nil || !bytes.Equal(b, j0) {
			note("TYPED Json() of a Map holding equal content in other Go container types differs: " + clip(string(b), 160))
		}
		if b, err := tj.Json(true); err != nil || !bytes.Equal(b, js0) {
			note("TYPED Json(safe) of a Map holding equal content in other Go container types differs")
		}
	}
	// MapSeq
	if ms, err := mxj.NewMapXmlSeq(doc); err == nil {
		s0, _ := ms.Xml()
		si0, _ := ms.XmlIndent(pre, ind)
		// indented output is a function of the value, the prefix and the indent of THIS call, whatever
		// prefix another indenting encoder was given in between (same indent string)
		for _, p2 := range []string{"\t", " ", ""} {
			if p2 == pre {
				continue
			}
			a1, _ := ms.XmlIndent(p2, ind)
			mv.XmlIndent(pre, ind)
			mxj.AnyXmlIndent([]interface{}{"x", map[string]interface{}{"a": map[string]interface{}{"b": "1"}}}, pre, ind)
			a2, _ := ms.XmlIndent(p2, ind)
			mx1, _ := mv.XmlIndent(p2, ind)
			ms.XmlIndent(pre, ind)
			mx2, _ := mv.XmlIndent(p2, ind)
			if !bytes.Equal(a1, a2) || !bytes.Equal(mx1, mx2) {
				note(fmt.Sprintf("PREFIXHISTORY XmlIndent(%q, %q) returns other bytes after another indenting call with prefix %q", p2, ind, pre))
				break
			}
		}
		for k := 0; k < 3; k++ {
			mk := mxj.MapSeq(r.rebuild(map[string]interface{}(ms)).(map[string]interface{}))
			if s, _ := mk.Xml(); !bytes.Equal(s, s0) {
				note("MapSeq.Xml() differs for an equal MapSeq built in another insertion order")
			}
			if s, _ := mk.XmlIndent(pre, ind); !bytes.Equal(s, si0) {
				note("MapSeq.XmlIndent() differs for an equal MapSeq built in another insertion order")
			}
		}
		// an explicit root tag only wraps the document: same compact bytes inside, and the Writer
		// forms with a root tag write what the byte forms with that root tag return
		if len(ms) == 1 {
			if sw, err := ms.Xml("wrap"); err != nil || string(sw) != "<wrap>"+string(s0)+"</wrap>" {
				note("MapSeq.Xml(rootTag) is not the compact document wrapped in the root tag")
			}
			siw, _ := ms.XmlIndent(pre, ind, "wrap")
			w.Reset()
			if err := ms.XmlIndentWriter(&w, pre, ind, "wrap"); err != nil || !bytes.Equal(w.Bytes(), siw) {
				note("MapSeq.XmlIndentWriter(rootTag) wrote other bytes than XmlIndent(rootTag) returns")
			}
			w.Reset()
			sw, _ := ms.Xml("wrap")
			if err := ms.XmlWriter(&w, "wrap"); err != nil || !bytes.Equal(w.Bytes(), sw) {
				note("MapSeq.XmlWriter(rootTag) wrote other bytes than Xml(rootTag) returns")
			}
		}
		w.Reset()
		if err := ms.XmlWriter(&w); err != nil || !bytes.Equal(w.Bytes(), s0) {
			note("MapSeq.XmlWriter wrote other bytes than Xml returns")
		}
		w.Reset()
		if err := ms.XmlIndentWriter(&w, pre, ind); err != nil || !bytes.Equal(w.Bytes(), si0) {
			note("MapSeq.XmlIndentWriter wrote other bytes than XmlIndent returns")
		}
		t1, ok1 := tokenStream(s0)
		t2, ok2 := tokenStream(si0)
		if ok1 && ok2 && t1 != t2 {
			note("MapSeq indented and compact token streams differ")
		}
	}
	// Maps string / file forms = concatenation of the per-Map encodings
	m2 := mxj.Map(r.rebuild(m).(map[string]interface{}))
	m2["zz_extra"] = "1"
	ms := mxj.Maps{mv, m2, mv}
	if seed%3 == 0 {
		// a nil Map is a member like any other: it encodes as <doc/> and null
		var nilMap mxj.Map
		nx, _ := nilMap.Xml()
		nxi, _ := nilMap.XmlIndent(pre, ind)
		nj, _ := nilMap.Json()
		nji, _ := nilMap.JsonIndent(pre, ind)
		msn := mxj.Maps{mv, nilMap, mv}
		if s, err := msn.XmlString(); err != nil || s != string(x0)+string(nx)+string(x0) {
			note("Maps.XmlString with a nil member is not the concatenation of the Xml encodings")
		}
		if s, err := msn.XmlStringIndent(pre, ind); err != nil || s != string(xi0)+string(nxi)+string(xi0) {
			note("Maps.XmlStringIndent with a nil member is not the concatenation of the XmlIndent encodings")
		}
		if s, err := msn.JsonString(); err != nil || s != string(j0)+string(nj)+string(j0) {
			note("Maps.JsonString with a nil member is not the concatenation of the Json encodings")
		}
		if s, err := msn.JsonStringIndent(pre, ind); err != nil || s != string(ji0)+"\n"+string(nji)+"\n"+string(ji0) {
			note("Maps.JsonStringIndent with a nil member is not the newline-joined JsonIndent encodings")
		}
	}
	x2, _ := m2.Xml()
	xi2, _ := m2.XmlIndent(pre, ind)
	j2, _ := m2.Json()
	ji2, _ := m2.JsonIndent(pre, ind)
	if s, err := ms.XmlString(); err != nil || s != string(x0)+string(x2)+string(x0) {
		note("Maps.XmlString is not the concatenation of the Xml encodings")
	}
	if s, err := ms.XmlStringIndent(pre, ind); err != nil || s != string(xi0)+string(xi2)+string(xi0) {
		note("Maps.XmlStringIndent is not the concatenation of the XmlIndent encodings")
	}
	if s, err := ms.JsonString(); err != nil || s != string(j0)+string(j2)+string(j0) {
		note("Maps.JsonString is not the concatenation of the Json encodings")
	}
	if s, err := ms.JsonStringIndent(pre, ind); err != nil || s != string(ji0)+"\n"+string(ji2)+"\n"+string(ji0) {
		note("Maps.JsonStringIndent is not the newline-joined JsonIndent encodings")
	}
	f := filepath.Join(scratch(), "c16")
	defer os.Remove(f)
	if err := ms.XmlFile(f); err == nil {
		if b, _ := os.ReadFile(f); string(b) != string(x0)+string(x2)+string(x0) {
			note("Maps.XmlFile wrote other bytes than XmlString returns")
		}
	}
	if err := ms.JsonFileIndent(f, pre, ind); err == nil {
		if b, _ := os.ReadFile(f); string(b) != string(ji0)+"\n"+string(ji2)+"\n"+string(ji0) {
			note("Maps.JsonFileIndent wrote other bytes than JsonStringIndent returns")
		}
	}
	// the file forms with every argument form: what the file holds is what the string form returns
	for _, safe := range []bool{false, true} {
		if err := ms.JsonFile(f, safe); err == nil {
			want, _ := ms.JsonString(safe)
			if b, _ := os.ReadFile(f); string(b) != want {
				note(fmt.Sprintf("Maps.JsonFile(file, %v) wrote other bytes than JsonString(%v) returns", safe, safe))
			}
		}
		if err := ms.JsonFileIndent(f, pre, ind, safe); err == nil {
			want, _ := ms.JsonStringIndent(pre, ind, safe)
			if b, _ := os.ReadFile(f); string(b) != want {
				note(fmt.Sprintf("Maps.JsonFileIndent(file, .., %v) wrote other bytes than JsonStringIndent returns", safe))
			}
		}
	}
	if err := ms.XmlFileIndent(f, pre, ind); err == nil {
		if b, _ := os.ReadFile(f); string(b) != string(xi0)+string(xi2)+string(xi0) {
			note("Maps.XmlFileIndent wrote other bytes than XmlStringIndent returns")
		}
	}
	sort.Strings(notes)
	return "ok | " + strings.Join(uniqStrings(notes), "; ")
}

func uniqStrings(s []string) []string {
	var o []string
	for i, x := range s {
		if i == 0 || x != s[i-1] {
			o = append(o, x)
		}
	}
	return o
}

func c16Describe(op string) string {
	c, _ := newCur(op)
	c.pos++
	m := c.mapVal()
	doc := c.str()
	seed := c.nat()
	return fmt.Sprintf("encoder variants on map=%s seqdoc=%q shuffle-seed=%d prefix=%q indent=%q", jsonOf(m), doc, seed, c.str(), c.str())
}

func c16Judge(op, impl, model string) Verdict {
	v := Verdict{Tags: []string{"variants"}, CorrOK: true, Nontrivial: true}
	if strings.HasPrefix(impl, "panic") {
		v.OracleFail = "an encoder panicked: " + impl
		v.Sig = "variants:panic"
		return v
	}
	ip := splitModel(impl)
	if len(ip) > 1 && ip[1] != "" {
		v.OracleFail = ip[1]
		v.Sig = "variants:" + strings.Join(strings.Fields(ip[1])[:2], "-")
	}
	return v
}

// addNs puts two to four xmlns attributes (and one that sorts before them) on some map nodes.
func addNs(r *Rng, v interface{}) {
	switch x := v.(type) {
	case map[string]interface{}:
		for _, e := range x {
			addNs(r, e)
		}
		if r.P(50) {
			for _, k := range []string{"-xmlns", "-xmlns:a", "-xmlns:b", "-xmlns:zz"}[:2+r.Intn(3)] {
				x[k] = "urn:" + k[1:]
			}
			x["-id"] = "1"
		}
	case []interface{}:
		for _, e := range x {
			addNs(r, e)
		}
	}
}

func c16Gen(r *Rng, n int) []string {
	var ops []string
	for len(ops) < n {
		var m map[string]interface{}
		if r.Bool() {
			m = r.c03Map(1)
		} else {
			m = r.xmlShapedMap()
		}
		if r.P(30) {
			// namespace declarations are ordinary attributes for the encoder
			addNs(r, m)
		}
		g := c01Gen0
		g.SeqShape = true
		g.MaxDepth = 2
		var sb strings.Builder
		r.render(r.xmlDoc(&g), &sb)
		ops = append(ops, fmt.Sprintf("implonly variants %s %s %d %s %s", encJ(m), encStr(sb.String()), r.Intn(1<<30), encStr(r.Pick([]string{"", " ", "\t"})), encStr(r.Pick([]string{"  ", " ", "\t", ""}))))
	}
	return ops
}

func init() {
	register(&Prop{
		ID:        "C16",
		Rule:      "Maps in the C02/C03 domains and MapSeqs decoded from C04-shaped documents; each is rebuilt four times with shuffled insertion order, random capacity and interleaved inserts/deletes (hence different hash-iteration orders) and every encoder (Xml, XmlIndent, Json, JsonIndent, MapSeq.Xml/XmlIndent) must return identical bytes, also on repeated calls; attribute and sibling order is read back from the output; all Writer, Raw, Maps string and file forms are compared with the byte-returning forms; prefix/indent strings of blanks and tabs; non-trivial = every case; distinct = distinct op lines",
		Gen:       c16Gen,
		Exec:      c16Exec,
		Judge:     c16Judge,
		Describe:  c16Describe,
		QuickN:    3000,
		ThoroughN: 100000,
	})
}
