package main

// c06.go - Map.Json / JsonIndent / NewMapJson versus Mxj.Model.Json and versus encoding/json
// itself (reference encoder with SetEscapeHTML, reference decoder).

import (
	"bytes"
	"encoding/json"
	"fmt"
	"strings"

	mxj "github.com/clbanning/mxj/v2"
)

// toFloats turns json.Number leaves (how numbers travel in op lines) into float64.
func toFloats(v interface{}) interface{} {
	switch x := v.(type) {
	case map[string]interface{}:
		o := map[string]interface{}{}
		for k, e := range x {
			o[k] = toFloats(e)
		}
		return o
	case []interface{}:
		o := make([]interface{}, len(x))
		for i, e := range x {
			o[i] = toFloats(e)
		}
		return o
	case json.Number:
		f, _ := x.Float64()
		return f
	}
	return v
}

// encJ renders a value with float64 leaves as their JSON literal.
func encJ(v interface{}) string {
	switch x := v.(type) {
	case map[string]interface{}:
		o := map[string]interface{}{}
		for k, e := range x {
			o[k] = jnum(e)
		}
		return enc(o)
	}
	return enc(jnum(v))
}

func jnum(v interface{}) interface{} {
	switch x := v.(type) {
	case map[string]interface{}:
		o := map[string]interface{}{}
		for k, e := range x {
			o[k] = jnum(e)
		}
		return o
	case []interface{}:
		o := make([]interface{}, len(x))
		for i, e := range x {
			o[i] = jnum(e)
		}
		return o
	case float64:
		b, _ := json.Marshal(x)
		return json.Number(string(b))
	}
	return v
}

func refEncode(v interface{}, html bool, indent bool, prefix, ind string) []byte {
	var buf bytes.Buffer
	e := json.NewEncoder(&buf)
	e.SetEscapeHTML(html)
	if indent {
		e.SetIndent(prefix, ind)
	}
	if err := e.Encode(v); err != nil {
		return nil
	}
	return bytes.TrimSuffix(buf.Bytes(), []byte("\n"))
}

func c06Exec(op string) string {
	c, name := newCur(op)
	switch name {
	case "jenc":
		safe := c.boolean()
		mv := c.mapVal()
		if c.err != nil {
			return "bad-op " + c.err.Error()
		}
		m := toFloats(mv).(map[string]interface{})
		if len(op)%2 == 0 {
			internShared(m) // one sub-map or list referenced from several places is not a cycle
		}
		b, err := mxj.Map(m).Json(safe)
		if err != nil {
			return "err " + oneLine(err.Error())
		}
		notes := []string{}
		kept := string(b)
		if !json.Valid(b) {
			notes = append(notes, "Json() output is not valid JSON: "+clip(string(b), 200))
		} else {
			back, derr := mxj.NewMapJson(b)
			if derr != nil || !deepEq(map[string]interface{}(back), m) {
				notes = append(notes, "NewMapJson(Json(m)) differs from m")
			}
		}
		if safe && bytes.ContainsAny(b, "<>&") {
			notes = append(notes, "safe encoding contains a literal <, > or &")
		}
		if ref := refEncode(m, safe, false, "", ""); !bytes.Equal(ref, b) {
			notes = append(notes, "differs from encoding/json with the same escaping: "+clip(string(ref), 150)+" vs "+clip(string(b), 150))
		}
		bi, ierr := mxj.Map(m).JsonIndent(" ", "\t", safe)
		if ref, _ := json.MarshalIndent(m, " ", "\t"); safe && !bytes.Equal(ref, bi) {
			notes = append(notes, "JsonIndent(safe) differs from json.MarshalIndent")
		}
		if ref := refEncode(m, safe, true, " ", "\t"); !bytes.Equal(ref, bi) {
			notes = append(notes, "JsonIndent differs from encoding/json with the same escaping and indent")
		}
		if ierr != nil || !json.Valid(bi) {
			notes = append(notes, "JsonIndent() output is not valid JSON")
		} else if back, derr := mxj.NewMapJson(bi); derr != nil || !deepEq(map[string]interface{}(back), m) {
			notes = append(notes, "NewMapJson(JsonIndent(m)) differs from m")
		}
		if c2, cerr := mxj.Map(m).Copy(); cerr != nil || !deepEq(map[string]interface{}(c2), m) {
			notes = append(notes, "Copy() differs from the original or fails")
		}
		if string(b) != kept {
			notes = append(notes, "KEPT the bytes Json() returned changed during later encoder calls")
		}
		if sm := shareSome(m); len(notes) == 0 && len(sm) != len(m) {
			// a Map that references one sub-map from several places (not a cycle) is encoded like the
			// tree it denotes, and Copy returns that tree
			sb, serr := mxj.Map(sm).Json(safe)
			if serr != nil || !json.Valid(sb) {
				notes = append(notes, fmt.Sprintf("SHARED Json() of a Map with a sub-map referenced from two places fails or is invalid (%v)", serr))
			} else if back, derr := mxj.NewMapJson(sb); derr != nil || !deepEq(map[string]interface{}(back), sm) {
				notes = append(notes, "SHARED NewMapJson(Json(m)) differs from m for a Map with a shared sub-map")
			} else if c3, cerr := mxj.Map(sm).Copy(); cerr != nil || !deepEq(map[string]interface{}(c3), sm) {
				notes = append(notes, "SHARED Copy() of a Map with a shared sub-map fails or differs")
			}
		}
		if wn := wrapMapToJson(m, safe); wn != "" {
			notes = append(notes, wn)
		}
		// members of Go type mxj.Map, map[string]string or []string are JSON objects / arrays like the
		// plain containers: the same text in both escaping modes, no escaped <, >, & in the default mode
		if tm := retype(m, hashStr(op), "MSL", 0).(map[string]interface{}); len(notes) == 0 && enc(tm) != enc(m) {
			tb, terr := mxj.Map(tm).Json(safe)
			if terr != nil || !bytes.Equal(tb, b) {
				notes = append(notes, "TYPED Json() of the same content held in other Go container types ("+clip(enc(tm), 100)+") differs: "+clip(string(tb), 160))
			} else if tbi, _ := mxj.Map(tm).JsonIndent(" ", "\t", safe); !bytes.Equal(tbi, bi) {
				notes = append(notes, "TYPED JsonIndent() of the same content held in other Go container types differs")
			}
		}
		return "ok " + encStr(string(b)) + " | " + strings.Join(notes, "; ")
	case "jenci":
		// jenci safe prefix indent map : Map.JsonIndent(prefix, indent, safe) byte for byte beside
		// Forms.mapJsonIndent, then NewMapJson (JsonUseNumber) of those bytes beside Json.newMapJson
		safe := c.boolean()
		pfx := c.str()
		ind := c.str()
		mv := c.mapVal()
		if c.err != nil {
			return "bad-op " + c.err.Error()
		}
		m := toFloats(mv).(map[string]interface{})
		if len(op)%2 == 0 {
			internShared(m)
		}
		var bi []byte
		var ierr error
		if safe || len(op)%3 == 0 {
			bi, ierr = mxj.Map(m).JsonIndent(pfx, ind, safe)
		} else {
			bi, ierr = mxj.Map(m).JsonIndent(pfx, ind) // the argument-less form is the default encoding
		}
		if ierr != nil {
			return "err " + oneLine(ierr.Error())
		}
		kept := string(bi)
		notes := []string{}
		layoutWs := strings.Trim(pfx+ind, " \t\r\n") == ""
		if ref := refEncode(m, safe, true, pfx, ind); !bytes.Equal(ref, bi) {
			notes = append(notes, "JsonIndent differs from encoding/json with the same escaping, prefix and indent")
		}
		if pfx == "" && ind == "" {
			if b, _ := mxj.Map(m).Json(safe); !bytes.Equal(b, bi) {
				notes = append(notes, "JsonIndent with empty prefix and indent differs from Json()")
			}
		}
		if layoutWs {
			// the property's own statement: valid JSON that NewMapJson decodes back to the Map
			if !json.Valid(bi) {
				notes = append(notes, "JsonIndent() output is not valid JSON: "+clip(string(bi), 200))
			} else {
				mxj.JsonUseNumber = false
				back, derr := mxj.NewMapJson(bi)
				if derr != nil || !deepEq(map[string]interface{}(back), m) {
					notes = append(notes, "NewMapJson(JsonIndent(m)) differs from m")
				}
				var cb bytes.Buffer
				if cerr := json.Compact(&cb, bi); cerr != nil {
					notes = append(notes, "JsonIndent() output cannot be compacted")
				} else if b, _ := mxj.Map(m).Json(safe); !bytes.Equal(cb.Bytes(), b) {
					notes = append(notes, "JsonIndent() output without its layout is not the Json() output")
				}
			}
			if safe && bytes.ContainsAny(bi, "<>&") {
				notes = append(notes, "safe indented encoding contains a literal <, > or &")
			}
		}
		mxj.JsonUseNumber = true
		back, derr := mxj.NewMapJson(bi)
		dec := "err"
		if derr == nil && back != nil {
			dec = "ok " + enc(map[string]interface{}(back))
		} else if derr == nil {
			dec = "ok n"
		}
		if string(bi) != kept {
			notes = append(notes, "KEPT the bytes JsonIndent() returned changed during later calls")
		}
		return "ok " + encStr(kept) + " " + dec + " | " + strings.Join(notes, "; ")
	case "jquote":
		html := c.boolean()
		s := c.str()
		if c.err != nil {
			return "bad-op " + c.err.Error()
		}
		return "ok " + encStr(string(refEncode(s, html, false, "", "")))
	case "jdecf":
		s := c.str()
		if c.err != nil {
			return "bad-op " + c.err.Error()
		}
		m, err := mxj.NewMapJson([]byte(s)) // JsonUseNumber off (default): numbers are float64
		// reference: the FIRST value encoding/json decodes; an array is returned under "object"
		// (F-JSON-ARRAYTAIL repaired: what follows the array is not looked at - no exception)
		var ref interface{}
		rerr := json.NewDecoder(strings.NewReader(s)).Decode(&ref)
		note := ""
		if _, isArr := ref.([]interface{}); rerr == nil && isArr {
			ref = map[string]interface{}{"object": ref}
		}
		_, isObj := ref.(map[string]interface{})
		switch {
		case len(s) == 0:
		case rerr == nil && isObj:
			if err != nil || !deepEq(map[string]interface{}(m), ref) {
				note = "default number mode: an input whose first value encoding/json decodes as an object (or array) was rejected or decoded differently"
			}
		case rerr == nil && ref == nil:
		default:
			if err == nil {
				note = "default number mode: input whose first value is not an object/array was accepted"
			}
		}
		if err != nil {
			return "err | " + note
		}
		return "ok | " + note
	case "jtail":
		// C06_trailing_ignored: NewMapJson(s+t) for a text s and a tail t.  The model side answers from
		// s ALONE whenever s is not empty and accepted; here the same claim is an oracle on the library
		// and on encoding/json's first value.
		s := c.str()
		t := c.str()
		if c.err != nil {
			return "bad-op " + c.err.Error()
		}
		mxj.JsonUseNumber = true
		m0, err0 := mxj.NewMapJson([]byte(s))
		m, err := mxj.NewMapJson([]byte(s + t))
		note := ""
		if len(s) > 0 && err0 == nil {
			if err != nil || (m0 == nil) != (m == nil) || !deepEq(map[string]interface{}(m0), map[string]interface{}(m)) {
				note = "TAILCHANGED a non-empty accepted text followed by a tail was rejected or decoded differently"
			}
		}
		// encoding/json itself: an object/array/string/literal first value of s is the first value of s+t
		var ref0, ref1 interface{}
		d0 := json.NewDecoder(strings.NewReader(s))
		d0.UseNumber()
		rerr0 := d0.Decode(&ref0)
		if _, isNum := ref0.(json.Number); rerr0 == nil && !isNum {
			d1 := json.NewDecoder(strings.NewReader(s + t))
			d1.UseNumber()
			rerr1 := d1.Decode(&ref1)
			_, isObj := ref0.(map[string]interface{})
			_, isArr := ref0.([]interface{})
			if (isObj || isArr) && (rerr1 != nil || !deepEq(ref0, ref1)) && note == "" {
				note = "TAILREF encoding/json's first value of an object/array text changed under a tail"
			}
		}
		if err != nil {
			return "err | " + note
		}
		if m == nil {
			return "ok n | " + note
		}
		return "ok " + enc(map[string]interface{}(m)) + " | " + note
	case "jdec":
		s := c.str()
		if c.err != nil {
			return "bad-op " + c.err.Error()
		}
		mxj.JsonUseNumber = true
		m, err := mxj.NewMapJson([]byte(s))
		// reference: what encoding/json decodes as the first value
		note := ""
		var ref interface{}
		d := json.NewDecoder(strings.NewReader(s))
		d.UseNumber()
		rerr := d.Decode(&ref)
		_, isObj := ref.(map[string]interface{})
		_, isArr := ref.([]interface{})
		switch {
		case len(s) == 0:
			if err != nil || len(m) != 0 {
				note = "empty input must give an empty Map"
			}
		case rerr == nil && isObj:
			if err != nil || !deepEq(map[string]interface{}(m), ref) {
				note = "an object encoding/json accepts was rejected or decoded differently"
			}
		case rerr == nil && isArr:
			// an array is returned, alone, under "object": the first value and nothing else - what
			// follows the array is not looked at (F-JSON-ARRAYTAIL repaired; no exception)
			if err != nil || !deepEq(map[string]interface{}(m), map[string]interface{}{"object": ref}) {
				note = "ARRAYFIRST an array encoding/json accepts as first value was rejected or not returned as {\"object\": that array}"
			}
		case rerr == nil && ref == nil:
			if err == nil {
				note = "NULLINPUT JSON null is not an object or array but was accepted (nil Map, nil error)"
			}
		default:
			if err == nil {
				note = "input whose first value is not an object/array was accepted"
			}
		}
		if err != nil {
			return "err | " + note
		}
		if m == nil {
			return "ok n | " + note
		}
		return "ok " + enc(map[string]interface{}(m)) + " | " + note
	}
	return "bad-op"
}

func c06Describe(op string) string {
	c, name := newCur(op)
	switch name {
	case "jenc":
		safe := c.boolean()
		return fmt.Sprintf("Json(safe=%v)/JsonIndent/Copy map=%s", safe, jsonOf(c.mapVal()))
	case "jenci":
		safe := c.boolean()
		pfx := c.str()
		ind := c.str()
		return fmt.Sprintf("JsonIndent(%q, %q, safe=%v) then NewMapJson map=%s", pfx, ind, safe, jsonOf(c.mapVal()))
	case "jquote":
		html := c.boolean()
		return fmt.Sprintf("string literal html=%v %q", html, c.str())
	case "jdec":
		return fmt.Sprintf("NewMapJson(%q) with JsonUseNumber", c.str())
	case "jdecf":
		return fmt.Sprintf("NewMapJson(%q) in the default (float64) number mode", c.str())
	case "jtail":
		a := c.str()
		return fmt.Sprintf("NewMapJson(%q ++ %q) with JsonUseNumber beside NewMapJson of the first part", a, c.str())
	}
	return op
}

func c06Judge(op, impl, model string) Verdict {
	_, name := newCur(op)
	v := Verdict{Tags: []string{name}}
	if strings.HasPrefix(model, "skip-") {
		v.Skipped = true
		v.CorrOK = true
		// implementation-only oracles still count
		ip := splitModel(impl)
		if len(ip) > 1 && ip[1] != "" {
			v.OracleFail = ip[1]
			v.Sig = name + ":" + strings.Join(strings.Fields(ip[1])[:3], "-")
		}
		return v
	}
	if strings.HasPrefix(impl, "panic") {
		v.OracleFail = name + " panicked: " + impl
		v.Sig = name + ":panic"
		return v
	}
	ip := splitModel(impl)
	v.CorrOK = ip[0] == model
	if name == "jdecf" {
		v.CorrOK = strings.HasPrefix(ip[0], "ok") == strings.HasPrefix(model, "ok")
	}
	v.Nontrivial = strings.HasPrefix(ip[0], "ok")
	if name == "jdec" && strings.HasPrefix(ip[0], "err") {
		v.Tags = append(v.Tags, "jdec:rejected")
	}
	if len(ip) > 1 && ip[1] != "" {
		v.OracleFail = ip[1]
		v.Sig = name + ":" + strings.Join(strings.Fields(ip[1])[:3], "-")
		if strings.HasPrefix(ip[1], "NULLINPUT") && !strings.Contains(ip[1], "; ") {
			v.Sig = "jdec:null-accepted"
		}
	}
	return v
}

var jsonHostile = []string{"<", ">", "&", "\\", "\"", "\\u003c", "\\u003e", "\\u0026", "\n", "\t", "\x01", "\x1f", " ", " ", "é", "日本", "\U0001F600", "/", "{", "}", "[", "]", ":", ",", "a", "b", " ", "\\\\", "\\\"", "\b", "\f", "\x7f"}

func (r *Rng) jsonStr() string {
	n := r.Intn(6)
	var sb strings.Builder
	for i := 0; i < n; i++ {
		sb.WriteString(r.Pick(jsonHostile))
	}
	return sb.String()
}

func (r *Rng) jsonVal(depth int) interface{} {
	if depth >= 3 || r.P(40) {
		switch r.Intn(7) {
		case 0:
			return nil
		case 1:
			return []float64{0, 1, -1, 1.5, 1e21, 1e-7, 123456789.125, 3}[r.Intn(8)]
		case 2:
			return r.Bool()
		default:
			return r.jsonStr()
		}
	}
	if r.P(40) {
		n := r.Intn(4)
		l := make([]interface{}, 0, n)
		for i := 0; i < n; i++ {
			l = append(l, r.jsonVal(depth+1))
		}
		return l
	}
	return r.jsonMap(depth + 1)
}

func (r *Rng) jsonMap(depth int) map[string]interface{} {
	m := map[string]interface{}{}
	n := r.Intn(4)
	for i := 0; i < n; i++ {
		k := r.Pick(plainKeys)
		if r.P(35) {
			k = r.jsonStr()
		}
		m[k] = r.jsonVal(depth)
	}
	if depth == 0 && r.P(3) && r.Bool() {
		r.enlarge(m, &jsonShape)
	}
	return m
}

// jsonLayout draws a prefix / indent argument of JsonIndent: JSON white space of varied length
// (empty, blanks, tabs, CR, LF, mixed), rarely something else (the output is then no JSON: bytes
// and the decoder's refusal are still compared with the model).
func (r *Rng) jsonLayout(prefix bool) string {
	if r.P(4) {
		return r.Pick([]string{"x", ">", "//", " .", "\"", "{", "\u00a0", "\v", "-\t"})
	}
	if prefix && r.P(45) || !prefix && r.P(15) {
		return ""
	}
	if r.P(50) {
		return r.Pick([]string{" ", "  ", "\t", "    ", "\t\t", " \t", "\n", "\r\n", "\r"})
	}
	n := 1 + r.Intn(6)
	var sb strings.Builder
	for i := 0; i < n; i++ {
		sb.WriteString(r.Pick([]string{" ", " ", "\t", "\n", "\r"}))
	}
	return sb.String()
}

// jsonText renders a value as JSON text with random white space, escapes and number spellings.
func (r *Rng) jsonText(v interface{}) string {
	ws := func() string { return r.Pick([]string{"", "", " ", "\n", "\t ", "\r\n"}) }
	switch x := v.(type) {
	case nil:
		return "null"
	case bool:
		return fmt.Sprint(x)
	case float64:
		return r.Pick([]string{"0", "-0", "1", "12.50", "1e3", "1E+2", "-3.25e-1", "100000000000000000000000", "0.1"})
	case string:
		var sb strings.Builder
		sb.WriteString("\"")
		for _, c := range x {
			switch {
			case c == '"':
				sb.WriteString("\\\"")
			case c == '\\':
				sb.WriteString("\\\\")
			case c < 0x20:
				sb.WriteString(fmt.Sprintf("\\u%04x", c))
			case r.P(8) && c < 0x10000:
				sb.WriteString(fmt.Sprintf("\\u%04X", c))
			case c == '/' && r.P(50):
				sb.WriteString("\\/")
			default:
				sb.WriteRune(c)
			}
		}
		sb.WriteString("\"")
		return sb.String()
	case []interface{}:
		parts := []string{}
		for _, e := range x {
			parts = append(parts, ws()+r.jsonText(e)+ws())
		}
		return "[" + strings.Join(parts, ",") + ws() + "]"
	case map[string]interface{}:
		parts := []string{}
		for _, k := range sortedKeys(x) {
			parts = append(parts, ws()+r.jsonText(k)+ws()+":"+ws()+r.jsonText(x[k]))
		}
		return "{" + strings.Join(parts, ",") + ws() + "}"
	}
	return "null"
}

// jsonTails: what may follow a text - bytes that would extend an exposed number, brackets, quotes, whole values
var jsonTails = []string{"3", "0", "e5", "E+2", ".5", "e", ".", "-", "]", "}", ",1]", ",\"x\":2}", " x", "\"", "\\", "{\"b\":1}", "[2]", "null", "true", " ", "\n", "\x00", "\xff", "\u00e9", "]]}}", ":", ","}

func c06Gen(r *Rng, n int) []string {
	var ops []string
	// jtail ops come from a second stream and are appended after the n ops of the main stream
	r2 := NewRng(r.s ^ 0x7461696c)
	var extra []string
	for len(ops) < n {
		m := r.jsonMap(0)
		ops = append(ops, fmt.Sprintf("jenc %d %s", b2i(r.Bool()), encJ(m)))
		mi := m
		if r.P(50) {
			mi = r.jsonMap(0)
		}
		ops = append(ops, fmt.Sprintf("jenci %d %s %s %s", b2i(r.Bool()), encStr(r.jsonLayout(true)), encStr(r.jsonLayout(false)), encJ(mi)))
		ops = append(ops, fmt.Sprintf("jquote %d %s", b2i(r.Bool()), encStr(r.jsonStr())))
		// texts for the decoder: valid objects, arrays, other first values, then corrupted ones
		var v interface{} = r.jsonMap(0)
		switch r.Intn(8) {
		case 0:
			v = []interface{}{r.jsonVal(1), r.jsonVal(1)}
		case 1:
			v = r.jsonVal(3)
		}
		t := r.jsonText(v)
		switch r.Intn(10) {
		case 0:
			t = r.Pick([]string{" ", "\n", ""}) + t
		case 1:
			t = t + r.Pick([]string{" x", "}", "{\"b\":1}", " ,"})
		case 2:
			if len(t) > 1 {
				i := r.Intn(len(t))
				t = t[:i] + r.Pick([]string{"", "\"", "\\", "{", "}", ",", "\\u12", "\\ud800", "\\ud83d\\ude00", "01", "1.", ".5", "+1", "tru", "\x01"}) + t[i+1:]
			}
		case 3:
			if len(t) > 1 {
				t = t[:r.Intn(len(t))]
			}
		}
		if r.P(6) {
			// white space that is Unicode space but not JSON white space
			t = r.Pick([]string{"\v", "\f", "\u00a0", "\u0085", "\u2028", "\u3000", " \f ", "\xef\xbb\xbf", "\ufeff ", "\xff\xfe"}) + t
		}
		ops = append(ops, "jdec "+encStr(t))
		if r.P(50) {
			ops = append(ops, "jdecf "+encStr(t))
		}
		// C06_trailing_ignored: the same text followed by a tail; or cut in two (the first part is then
		// usually not accepted and the tail completes it)
		switch r2.Intn(4) {
		case 0:
			i := r2.Intn(len(t) + 1)
			extra = append(extra, "jtail "+encStr(t[:i])+" "+encStr(t[i:]))
		case 1:
			extra = append(extra, "jtail "+encStr(t)+" "+encStr(r2.Pick(jsonTails)+r2.Pick(jsonTails)))
		default:
			extra = append(extra, "jtail "+encStr(t)+" "+encStr(r2.Pick(jsonTails)))
		}
	}
	return append(ops, extra...)
}

func init() {
	register(&Prop{
		ID:        "C06",
		Rule:      "Maps of JSON types with keys and string values over a hostile alphabet (< > & backslash quote, the six-character sequences \\u003c \\u003e \\u0026, control characters, U+2028/9, non-BMP); safe and default encoding, JsonIndent, Copy; JsonIndent(prefix, indent[, safe]) byte for byte beside Forms.mapJsonIndent for white-space prefixes/indents of varied length (empty, blanks, tabs, CR, LF, mixed; rarely other text) and its bytes decoded by NewMapJson beside the model decoder; string literals alone; JSON texts with random white space / escape spellings / number spellings for NewMapJson (objects, arrays, other first values, leading white space, trailing bytes, single-character corruptions, truncations) under JsonUseNumber; every such text again followed by a tail or cut in two (op jtail: the model answers from the first part alone when it is accepted - C06_trailing_ignored); non-trivial = encoded / accepted; distinct = distinct op lines",
		Gen:       c06Gen,
		Exec:      c06Exec,
		Judge:     c06Judge,
		Describe:  c06Describe,
		QuickN:    5000,
		ThoroughN: 300000,
		Fixed:     c06Fixed,
	})
}

// c06Fixed: regression inputs (repaired defects, recorded findings, documented special cases).
func c06Fixed() []string {
	ops := []string{}
	// F-JSON-ARRAYTAIL (repaired): whatever follows a top-level array is not looked at, a malformed
	// array is an error
	for _, t := range []string{"[1,2] x", "[1,2]}", "[1],\"x\":2", " \n[1]\n<!--", "[1,2", "[1],\"object\":5", "[1.5e3,{\"a\":[]}]]", "[]x", "[1 2]", "["} {
		ops = append(ops, "jdec "+encStr(t), "jdecf "+encStr(t))
	}
	// C06_trailing_ignored and the witnesses of its hypotheses / of the number side condition
	for _, st := range [][2]string{{"[1,2]", "3"}, {" {\"a\":[1,2]}", "345e1 ]}"}, {"null", "x"}, {" null", "l"}, {"[1,2", "]"}, {" ", "{}"}, {"", "[1]"}, {"12", "3"}, {"1", "e5"}, {"tru", "e"}, {"{\"a\":1}", "0"}, {"{\"a\":\"\\ud83d\"}", "\\ude00"}, {"[\"x\"]", "\""}, {"[true]", "e"}, {"{}", "}"}, {"\t[ ]", "]"}} {
		ops = append(ops, "jtail "+encStr(st[0])+" "+encStr(st[1]))
	}
	for _, t := range []string{" [1]", "\n[{\"a\":1}]", "\t [ ]", "null", " null ", "[1] x", "", "{}", "[]", " {\"a\":1} trailing", "1", "\"s\"", "true"} {
		ops = append(ops, "jdec "+encStr(t), "jdecf "+encStr(t))
	}
	// F-JSON-REWRITE: literal backslash-u003c etc. in keys and values
	for _, m := range []map[string]interface{}{{"a": "\\u003c"}, {"\\u0026": "x\\u003ey"}, {"a": "<&>"}, {"k": "\\\\u003c"}} {
		ops = append(ops, "jenc 0 "+encJ(m), "jenc 1 "+encJ(m))
	}
	// JsonIndent: empty containers at every level, prefix placement, empty prefix+indent = compact form,
	// a prefix that is no white space
	for _, m := range []map[string]interface{}{{}, {"a": map[string]interface{}{}, "b": []interface{}{}}, {"l": []interface{}{[]interface{}{}, map[string]interface{}{}, []interface{}{nil, true}}, "<k>": "<&>"}, {"n": 1.5, "o": map[string]interface{}{"p": map[string]interface{}{"q": "\\u003c"}}}} {
		for _, pi := range [][2]string{{"", ""}, {"", " "}, {" ", ""}, {"\t", "  "}, {"\n", "\r\n"}, {"x", " "}, {"", ">"}} {
			ops = append(ops, fmt.Sprintf("jenci 0 %s %s %s", encStr(pi[0]), encStr(pi[1]), encJ(m)), fmt.Sprintf("jenci 1 %s %s %s", encStr(pi[0]), encStr(pi[1]), encJ(m)))
		}
	}
	return ops
}
