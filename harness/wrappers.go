package main

// wrappers.go - the sub-package functions a property names among its observation points, called
// beside the documented composition of core functions on the Map of the case (through its own JSON /
// XML text).  Used by the harness of that property; C20 compares every wrapper on generated documents.

import (
	"bytes"
	"strings"
	"encoding/json"
	"fmt"

	mxj "github.com/clbanning/mxj/v2"
	"github.com/clbanning/mxj/v2/j2x"
	"github.com/clbanning/mxj/v2/x2j"
	x2jw "github.com/clbanning/mxj/v2/x2j-wrapper"
)

// textsOf: the JSON text of m, the same wrapped in a top-level array, and an XML text (nil when the Map
// cannot be written or read back that way).
func textsOf(m map[string]interface{}) (jt, jarr, xt []byte) {
	if b, err := mxj.Map(m).Json(); err == nil && json.Valid(b) {
		jt = b
		jarr = append(append([]byte("["), b...), []byte(`,{"zlast":[1,"two"]}]`)...)
	}
	if b, err := mxj.Map(m).Xml(); err == nil {
		if _, derr := mxj.NewMapXml(b); derr == nil {
			xt = b
		}
	}
	return
}

func mvalOf(v interface{}) string { return sortedList(enc(v)) }

// wrapValuesForPath: j2x.JsonValuesForKeyPath / x2j.XmlValuesForPath = ValuesForPath on the decoded text.
func wrapValuesForPath(m map[string]interface{}, path string, subs []string) string {
	if hasWildSeg(path) && strings.Contains(path, "[") {
		return "" // an index on or below a wildcard picks by map iteration order: two calls may differ
	}
	jt, jarr, xt := textsOf(m)
	for _, t := range [][]byte{jt, jarr} {
		if t == nil {
			continue
		}
		mj, e0 := mxj.NewMapJson(t)
		if e0 != nil {
			continue
		}
		for _, p := range []string{path, "object." + path, "object"} {
			v1, e1 := j2x.JsonValuesForKeyPath(t, p, subs...)
			v2, e2 := mj.ValuesForPath(p, subs...)
			if !errEq(e1, e2) || mvalOf(v1) != mvalOf(v2) {
				return fmt.Sprintf("WRAPPER j2x.JsonValuesForKeyPath(%s, %q) differs from ValuesForPath on the decoded document", clip(string(t), 80), p)
			}
		}
	}
	if xt != nil {
		mx, _ := mxj.NewMapXml(xt)
		v1, e1 := x2j.XmlValuesForPath(xt, path, subs...)
		v2, e2 := mx.ValuesForPath(path, subs...)
		if !errEq(e1, e2) || mvalOf(v1) != mvalOf(v2) {
			return fmt.Sprintf("WRAPPER x2j.XmlValuesForPath(%s, %q) differs from ValuesForPath on the decoded document", clip(string(xt), 80), path)
		}
	}
	return ""
}

// wrapLeafNodes: j2x.JsonLeafNodes / x2j.XmlLeafNodes (and the path / value forms) = the Map methods
// on the decoded text.
func wrapLeafNodes(m map[string]interface{}) string {
	jt, jarr, xt := textsOf(m)
	for _, t := range [][]byte{jt, jarr} {
		if t == nil {
			continue
		}
		mj, e0 := mxj.NewMapJson(t)
		if e0 != nil {
			continue
		}
		l1, e1 := j2x.JsonLeafNodes(t)
		if e1 != nil || leafDigest(l1) != leafDigest(mj.LeafNodes()) {
			return fmt.Sprintf("WRAPPER j2x.JsonLeafNodes(%s) differs from LeafNodes of the decoded document", clip(string(t), 80))
		}
		lv, _ := j2x.JsonLeafValues(t)
		lp, _ := j2x.JsonLeafPath(t)
		if mvalOf(lv) != mvalOf(mj.LeafValues()) || sortedStrs(lp) != sortedStrs(mj.LeafPaths()) {
			return "WRAPPER j2x.JsonLeafValues / JsonLeafPath differ from the Map methods on the decoded document"
		}
	}
	if xt != nil {
		mx, _ := mxj.NewMapXml(xt)
		l1, e1 := x2j.XmlLeafNodes(xt)
		if e1 != nil || leafDigest(l1) != leafDigest(mx.LeafNodes()) {
			return fmt.Sprintf("WRAPPER x2j.XmlLeafNodes(%s) differs from LeafNodes of the decoded document", clip(string(xt), 80))
		}
	}
	return ""
}

// wrapUpdate: j2x.JsonUpdateValsForPath / x2j.XmlUpdateValsForPath = decode, update, encode.
func wrapUpdate(m map[string]interface{}, newVal interface{}, path string, subs []string) string {
	jt, _, xt := textsOf(m)
	if jt != nil {
		u1, e1 := j2x.JsonUpdateValsForPath(jt, deepCopy(newVal), path, subs...)
		mc, _ := mxj.NewMapJson(jt)
		_, e2 := mc.UpdateValuesForPath(deepCopy(newVal), path, subs...)
		var u2 []byte
		if e2 == nil {
			u2, e2 = mc.Json()
		}
		if !errEq(e1, e2) || (e2 == nil && !bytes.Equal(u1, u2)) {
			return "WRAPPER j2x.JsonUpdateValsForPath differs from decode - UpdateValuesForPath - encode: " + clip(string(u1), 100) + " vs " + clip(string(u2), 100)
		}
	}
	if xt != nil {
		u1, e1 := x2j.XmlUpdateValsForPath(xt, deepCopy(newVal), path, subs...)
		mc, _ := mxj.NewMapXml(xt)
		_, e2 := mc.UpdateValuesForPath(deepCopy(newVal), path, subs...)
		var u2 []byte
		if e2 == nil {
			u2, e2 = mc.Xml()
		}
		if !errEq(e1, e2) || (e2 == nil && !bytes.Equal(u1, u2)) {
			return "WRAPPER x2j.XmlUpdateValsForPath differs from decode - UpdateValuesForPath - encode: " + clip(string(u1), 100) + " vs " + clip(string(u2), 100)
		}
	}
	return ""
}

// wrapNewXml: x2j.XmlNewXml = decode, NewMap, encode (fails when NewMap fails).
func wrapNewXml(m map[string]interface{}, pairs []string) string {
	_, _, xt := textsOf(m)
	if xt == nil || anyWild(pairs) {
		return ""
	}
	mx, _ := mxj.NewMapXml(xt)
	nm, e2 := mx.NewMap(pairs...)
	n1, e1 := x2j.XmlNewXml(xt, pairs...)
	if e2 != nil {
		if e1 == nil {
			return "WRAPPER x2j.XmlNewXml succeeded although Map.NewMap rejects the pairs"
		}
		return ""
	}
	n2, ex := nm.Xml()
	if !errEq(e1, ex) || (ex == nil && !bytes.Equal(n1, n2)) {
		return "WRAPPER x2j.XmlNewXml differs from decode - NewMap - encode: " + clip(string(n1), 100) + " vs " + clip(string(n2), 100)
	}
	return ""
}

// wrapDocToJson: x2j-wrapper.DocToJson(doc, cast) = NewMapXml(doc, cast) then Json.
func wrapDocToJson(doc []byte, cast bool) string {
	m, e2 := mxj.NewMapXml(doc, cast)
	s1, e1 := x2jw.DocToJson(string(doc), cast)
	if e2 != nil {
		if e1 == nil {
			return "WRAPPER x2j-wrapper.DocToJson succeeded on a document NewMapXml rejects"
		}
		return ""
	}
	jb, ej := m.Json()
	if !errEq(e1, ej) || (ej == nil && s1 != string(jb)) {
		return "WRAPPER x2j-wrapper.DocToJson differs from NewMapXml then Json: " + clip(s1, 100) + " vs " + clip(string(jb), 100)
	}
	return ""
}

// wrapJsonToXml: j2x.JsonToXml(text) = NewMapJson(text) then Xml; j2x.MapToJson(m, safe) = m.Json(safe).
func wrapJsonToXml(m map[string]interface{}) string {
	jt, jarr, _ := textsOf(m)
	for _, t := range [][]byte{jt, jarr} {
		if t == nil {
			continue
		}
		mj, e0 := mxj.NewMapJson(t)
		if e0 != nil {
			continue
		}
		a, ea := j2x.JsonToXml(t)
		b, eb := mj.Xml()
		if !errEq(ea, eb) || (eb == nil && !bytes.Equal(a, b)) {
			return "WRAPPER j2x.JsonToXml differs from NewMapJson then Xml: " + clip(string(a), 100) + " vs " + clip(string(b), 100)
		}
	}
	return ""
}

func wrapMapToJson(m map[string]interface{}, safe bool) string {
	a, ea := j2x.MapToJson(m, safe)
	b, eb := mxj.Map(m).Json(safe)
	if !errEq(ea, eb) || !bytes.Equal(a, b) {
		return "WRAPPER j2x.MapToJson differs from Map.Json with the same flag"
	}
	return ""
}
