package main

import (
	"fmt"
	"os"
	"reflect"
	"sort"
	"strconv"
	"strings"

	mxj "github.com/clbanning/mxj/v2"
)

func sortStrings(s []string) { sort.Strings(s) }

// cursor over the argument tokens of an op line
type cur struct {
	toks []string
	pos  int
	err  error
}

func newCur(op string) (*cur, string) {
	toks := strings.Fields(op)
	if len(toks) == 0 {
		return &cur{err: fmt.Errorf("empty op")}, ""
	}
	return &cur{toks: toks, pos: 1}, toks[0]
}

func (c *cur) val() interface{} {
	if c.err != nil {
		return nil
	}
	v, err := decVal(c.toks, &c.pos)
	if err != nil {
		c.err = err
	}
	return v
}

func (c *cur) str() string {
	if c.err != nil {
		return ""
	}
	if c.pos >= len(c.toks) {
		c.err = fmt.Errorf("missing string arg")
		return ""
	}
	s, err := decStr(c.toks[c.pos])
	c.pos++
	if err != nil {
		c.err = err
	}
	return s
}

func (c *cur) nat() int {
	if c.err != nil {
		return 0
	}
	if c.pos >= len(c.toks) {
		c.err = fmt.Errorf("missing int arg")
		return 0
	}
	n, err := strconv.Atoi(c.toks[c.pos])
	c.pos++
	if err != nil {
		c.err = err
	}
	return n
}

func (c *cur) boolean() bool { return c.nat() == 1 }

func (c *cur) strList() []string {
	v := c.val()
	l, ok := v.([]interface{})
	if !ok {
		if c.err == nil {
			c.err = fmt.Errorf("expected list of strings")
		}
		return nil
	}
	out := make([]string, 0, len(l))
	for _, e := range l {
		s, ok := e.(string)
		if !ok {
			c.err = fmt.Errorf("expected string in list")
			return nil
		}
		out = append(out, s)
	}
	return out
}

func (c *cur) mapVal() map[string]interface{} {
	v := c.val()
	m, ok := v.(map[string]interface{})
	if !ok && c.err == nil {
		c.err = fmt.Errorf("expected map")
	}
	return m
}

func b2i(b bool) int {
	if b {
		return 1
	}
	return 0
}

// deepCopy copies maps and slices (scalars are immutable).
func deepCopy(v interface{}) interface{} { return deepCopyN(v, 0, map[uintptr]bool{}) }

func deepCopyN(v interface{}, depth int, copyOnPath map[uintptr]bool) interface{} {
	if depth > 300 {
		return "?cyclic-or-too-deep"
	}
	switch x := v.(type) {
	case map[string]interface{}:
		if x != nil {
			id := reflect.ValueOf(x).Pointer()
			if copyOnPath[id] {
				return "?cycle"
			}
			copyOnPath[id] = true
			defer delete(copyOnPath, id)
		}
		c := make(map[string]interface{}, len(x))
		for k, e := range x {
			c[k] = deepCopyN(e, depth+1, copyOnPath)
		}
		return c
	case []interface{}:
		c := make([]interface{}, len(x))
		for i, e := range x {
			c[i] = deepCopyN(e, depth+1, copyOnPath)
		}
		return c
	case map[interface{}]interface{}:
		c := make(map[interface{}]interface{}, len(x))
		for k, e := range x {
			c[k] = deepCopyN(e, depth+1, copyOnPath)
		}
		return c
	case map[string]string:
		c := make(map[string]string, len(x))
		for k, e := range x {
			c[k] = e
		}
		return c
	case []string:
		return append([]string{}, x...)
	case []byte:
		return append([]byte{}, x...)
	case mxj.Map:
		// a nested value of Go type mxj.Map keeps its type
		if x == nil {
			return x
		}
		return mxj.Map(deepCopyN(map[string]interface{}(x), depth, copyOnPath).(map[string]interface{}))
	}
	return v
}

func deepEq(a, b interface{}) bool { return reflect.DeepEqual(a, b) }

// pfTable renders strconv.ParseFloat answers for every field of the given strings.
func pfTable(sep string, ss []string) string {
	t := map[string]interface{}{}
	for _, s := range ss {
		parts := []string{s}
		if sep != "" {
			parts = strings.Split(s, sep)
		}
		for _, p := range parts {
			if f, err := strconv.ParseFloat(p, 64); err == nil {
				t[p] = f
			}
		}
	}
	return enc(t)
}

// splitModel splits a driver line "a | b" into its parts.
func splitModel(s string) []string {
	parts := strings.Split(s, " | ")
	for i := range parts {
		parts[i] = strings.TrimSpace(parts[i])
	}
	return parts
}

func hasWildSeg(path string) bool {
	for _, s := range strings.Split(path, ".") {
		if s == "*" || strings.HasPrefix(s, "*[") {
			return true
		}
	}
	return false
}

// canonRes canonicalises "ok [ ... ]" as a multiset when unordered.
func canonRes(s string, unordered bool) string {
	if !unordered || !strings.HasPrefix(s, "ok [") {
		return s
	}
	return "ok " + sortedList(s[3:])
}

func osWriteFile(name string, data []byte) error { return os.WriteFile(name, data, 0o644) }

// internShared makes deep-equal non-empty maps / lists inside v share ONE Go value (the case
// lines carry plain trees; sharing is re-established here): a Map may reference the same
// sub-map or list from several places without being cyclic.
func internShared(v interface{}) {
	first := map[string]interface{}{}
	var walk func(x interface{}) interface{}
	walk = func(x interface{}) interface{} {
		switch t := x.(type) {
		case map[string]interface{}:
			for k, e := range t {
				t[k] = walk(e)
			}
			if len(t) == 0 {
				return x
			}
			key := "m" + enc(t)
			if f, ok := first[key]; ok {
				return f
			}
			first[key] = t
		case []interface{}:
			for i, e := range t {
				t[i] = walk(e)
			}
			if len(t) == 0 {
				return x
			}
			key := "l" + enc(t)
			if f, ok := first[key]; ok {
				return f
			}
			first[key] = t
		}
		return x
	}
	walk(v)
}

// withDuplicates copies one map- or list-valued entry of m under a second key (so that
// internShared finds something to share).
func (r *Rng) withDuplicates(m map[string]interface{}) {
	for _, k := range sortedKeys(m) {
		switch m[k].(type) {
		case map[string]interface{}, []interface{}:
			m["dup"] = deepCopy(m[k])
			if sub, ok := m[k].(map[string]interface{}); ok && r.Bool() {
				sub["dup2"] = deepCopy(m[k])
			}
			return
		}
	}
}

// shareSome returns a copy of m in which the non-empty maps below the root also hang, as the SAME
// Go value, under extra keys beside themselves and at the root: a Map built by a program may
// reference one sub-document from several places (never cyclic: only copies of leaves-first
// finished sub-trees are re-attached one level up or at the root).
func shareSome(m map[string]interface{}) map[string]interface{} {
	c := deepCopy(m).(map[string]interface{})
	n := 0
	var walk func(x interface{}, parent map[string]interface{})
	walk = func(x interface{}, parent map[string]interface{}) {
		switch t := x.(type) {
		case map[string]interface{}:
			for _, k := range sortedKeys(t) {
				walk(t[k], t)
			}
			if parent != nil && len(t) > 0 && n < 4 {
				n++
				parent[fmt.Sprintf("zshare%d", n)] = t
				if n%2 == 1 {
					c[fmt.Sprintf("zroot%d", n)] = t
				}
			}
		case []interface{}:
			for _, e := range t {
				walk(e, nil)
			}
		}
	}
	for _, k := range sortedKeys(c) {
		walk(c[k], c)
	}
	return c
}

// retype returns a copy of v in which some nested containers have another Go type with the same
// content: maps become mxj.Map, map[interface{}]interface{} or (all values strings) map[string]string,
// lists of strings become []string.  Which ones is decided by h, so that a case line determines it.
// kinds: which retypings are allowed ('M', 'Y', 'S', 'L').
func retype(v interface{}, h uint64, kinds string, depth int) interface{} {
	pick := func(n uint64) uint64 { h = h*6364136223846793005 + 1442695040888963407; return (h >> 33) % n }
	switch x := v.(type) {
	case map[string]interface{}:
		c := make(map[string]interface{}, len(x))
		allStr := len(x) > 0
		for _, k := range sortedKeys(x) {
			c[k] = retype(x[k], h+uint64(len(k))*31+uint64(depth), kinds, depth+1)
			if _, ok := c[k].(string); !ok {
				allStr = false
			}
		}
		if depth == 0 || pick(3) != 0 {
			return c
		}
		switch k := kinds[pick(uint64(len(kinds)))]; {
		case k == 'M':
			return mxj.Map(c)
		case k == 'Y':
			o := map[interface{}]interface{}{}
			for kk, e := range c {
				o[kk] = e
			}
			return o
		case k == 'S' && allStr:
			o := map[string]string{}
			for kk, e := range c {
				o[kk] = e.(string)
			}
			return o
		}
		return c
	case []interface{}:
		c := make([]interface{}, len(x))
		allStr := len(x) > 0
		for i, e := range x {
			c[i] = retype(e, h+uint64(i)*17+uint64(depth), kinds, depth+1)
			if _, ok := c[i].(string); !ok {
				allStr = false
			}
		}
		if len(x) == 0 && depth > 0 && strings.Contains(kinds, "L") && pick(3) == 0 {
			return []string{} // the empty list, typed
		}
		if allStr && strings.Contains(kinds, "L") && pick(3) == 0 {
			o := make([]string, len(c))
			for i, e := range c {
				o[i] = e.(string)
			}
			return o
		}
		return c
	case string:
		if depth > 0 && strings.Contains(kinds, "B") && pick(4) == 0 {
			return []byte(x) // a text value held as bytes: written as the string it spells
		}
	}
	return v
}

func hashStr(s string) uint64 {
	var h uint64 = 1469598103934665603
	for i := 0; i < len(s); i++ {
		h = (h ^ uint64(s[i])) * 1099511628211
	}
	return h
}

// retypeBelowRoot: like retype, but the value itself, the values of its entries and the members of
// lists at those two levels keep their plain map type (the root rules of the XML encoders look at
// exactly those); lists of strings may become []string anywhere, deeper containers any allowed type.
func retypeBelowRoot(v interface{}, h uint64, kinds string) interface{} {
	var lvl func(x interface{}, d int) interface{}
	lvl = func(x interface{}, d int) interface{} {
		h = h*6364136223846793005 + 1442695040888963407
		switch t := x.(type) {
		case map[string]interface{}:
			c := make(map[string]interface{}, len(t))
			for _, k := range sortedKeys(t) {
				if d < 2 {
					c[k] = lvl(t[k], d+1)
				} else {
					c[k] = retype(t[k], h+uint64(len(k)), kinds, 2)
				}
			}
			return c
		case []interface{}:
			allStr := len(t) > 0
			for _, e := range t {
				if _, ok := e.(string); !ok {
					allStr = false
				}
			}
			if len(t) == 0 && d > 0 && strings.Contains(kinds, "L") && (h>>33)%2 == 0 {
				return []string{}
			}
			if allStr && strings.Contains(kinds, "L") && (h>>33)%2 == 0 {
				o := make([]string, len(t))
				for i, e := range t {
					o[i] = e.(string)
				}
				return o
			}
			c := make([]interface{}, len(t))
			for i, e := range t {
				c[i] = lvl(e, d) // members of a list stand where the list stands
			}
			return c
		}
		return x
	}
	return lvl(v, 0)
}
