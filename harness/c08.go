package main

// c08.go - ValuesForKey / PathsForKey / PathForKeyShortest / sub-key filters versus
// Mxj.Model.Path (hasKey, hasKeyPath, hasSubKeys) and Mxj.Model.KeySpec (specifications).

import (
	"fmt"
	"sort"
	"strings"

	mxj "github.com/clbanning/mxj/v2"
)

func c08Exec(op string) string {
	c, name := newCur(op)
	if name == "vfp" {
		return c07Exec(op) // ValuesForPath with sub-keys is observed by C08 as well
	}
	switch name {
	case "vfk":
		sep := c.str()
		m := c.mapVal()
		if len(op)%2 == 0 {
			internShared(m) // read-only queries: a Map may reference one sub-value from several places
		}
		key := c.str()
		subs := c.strList()
		if c.err != nil {
			return "bad-op " + c.err.Error()
		}
		// (the same arguments were used a moment ago under another separator: what they mean is decided
		// by the separator in force now)
		for _, other := range []string{":", "|"} {
			if other != sep && len(subs) > 0 && strings.Contains(subs[0], "|") && strings.Contains(subs[0], ":") {
				mxj.SetFieldSeparator(other)
				mxj.Map(m).ValuesForKey(key, subs...)
				mxj.Map(m).ValuesForPath(key, subs...)
			}
		}
		mxj.SetFieldSeparator(sep)
		vs, err := mxj.Map(m).ValuesForKey(key, subs...)
		// ValueForKey is the first of those values, and the documented error when there is none
		note := ""
		if v1, e1 := mxj.Map(m).ValueForKey(key, subs...); err == nil {
			switch {
			case len(vs) == 0 && e1 == nil:
				note = "FIRSTKEY ValuesForKey yields nothing but ValueForKey returned a value"
			case len(vs) > 0 && e1 != nil:
				note = "FIRSTKEY ValuesForKey yields values but ValueForKey fails: " + oneLine(e1.Error())
			case len(vs) > 0:
				found := false
				for _, x := range vs {
					if enc(x) == enc(v1) {
						found = true
					}
				}
				if !found {
					note = "FIRSTKEY ValueForKey returned " + clip(enc(v1), 100) + ", which is none of the values of ValuesForKey"
				}
			}
		} else if e1 == nil {
			note = "FIRSTKEY ValuesForKey fails but ValueForKey succeeds"
		}
		if note != "" {
			return showRes(vs, err) + " | " + note
		}
		return showRes(vs, err)
	case "pfk":
		m := c.mapVal()
		if len(op)%2 == 0 {
			internShared(m) // read-only queries: a Map may reference one sub-value from several places
		}
		key := c.str()
		if c.err != nil {
			return "bad-op " + c.err.Error()
		}
		mv := mxj.Map(m)
		paths := mv.PathsForKey(key)
		sorted := append([]string{}, paths...)
		sort.Strings(sorted)
		short := mv.PathForKeyShortest(key)
		// consistency clause: the values found through the paths are the values ValuesForKey returns
		var viaPaths []interface{}
		for _, p := range sorted {
			vs, err := mv.ValuesForPath(p)
			if err != nil {
				return "ok " + encStrList(sorted) + " | " + encStr(short) + " | patherr " + errKindOf(err)
			}
			viaPaths = append(viaPaths, vs...)
		}
		direct, _ := mv.ValuesForKey(key)
		a, b := sortedList(encList(viaPaths)), sortedList(encList(direct))
		cons := "consistent"
		if a != b {
			cons = "inconsistent via-paths=" + strings.ReplaceAll(a, " | ", " ") + " direct=" + b
		}
		return "ok " + encStrList(sorted) + " | " + encStr(short) + " | " + cons
	case "hsk":
		sep := c.str()
		v := c.val()
		subs := c.strList()
		if c.err != nil {
			return "bad-op " + c.err.Error()
		}
		mxj.SetFieldSeparator(sep)
		var sk map[string]interface{}
		if len(subs) > 0 {
			var err error
			sk, err = mxj.VerifGetSubKeyMap(subs...)
			if err != nil {
				return "err " + errKindOf(err)
			}
		}
		if mxj.VerifHasSubKeys(v, sk) {
			return "ok t"
		}
		return "ok f"
	}
	return "bad-op"
}

func c08Describe(op string) string {
	if strings.HasPrefix(op, "vfp ") {
		return c07Describe(op)
	}
	c, name := newCur(op)
	switch name {
	case "vfk":
		sep := c.str()
		m := c.mapVal()
		key := c.str()
		subs := c.strList()
		return fmt.Sprintf("ValuesForKey sep=%q map=%s key=%q subkeys=%q", sep, jsonOf(m), key, subs)
	case "pfk":
		m := c.mapVal()
		key := c.str()
		return fmt.Sprintf("PathsForKey/PathForKeyShortest map=%s key=%q", jsonOf(m), key)
	case "hsk":
		sep := c.str()
		v := c.val()
		subs := c.strList()
		return fmt.Sprintf("hasSubKeys sep=%q value=%s subkeys=%q", sep, jsonOf(v), subs)
	}
	return op
}

func segCount(p string) int { return len(strings.Split(p, ".")) }

func c08Judge(op, impl, model string) Verdict {
	if strings.HasPrefix(op, "vfp ") {
		return c07Judge(op, impl, model)
	}
	_, name := newCur(op)
	v := Verdict{Tags: []string{name}}
	if strings.HasPrefix(model, "skip-") {
		v.Skipped, v.CorrOK = true, true
		return v
	}
	if strings.HasPrefix(impl, "panic") {
		v.OracleFail = name + " panicked: " + impl
		v.Sig = name + ":panic"
		return v
	}
	mp := splitModel(model)
	if ipx := splitModel(impl); name == "vfk" && len(ipx) > 1 && strings.HasPrefix(ipx[len(ipx)-1], "FIRSTKEY") {
		v.OracleFail = ipx[len(ipx)-1]
		v.Sig = "vfk:firstkey"
		impl = strings.Join(ipx[:len(ipx)-1], " | ")
	}
	switch name {
	case "vfk":
		v.CorrOK = canonRes(impl, true) == canonRes(mp[0], true)
		v.Nontrivial = impl != "ok [ ]"
		if strings.HasPrefix(impl, "err") {
			v.Tags = append(v.Tags, "vfk:"+impl)
			return v
		}
		if impl == "ok [ ]" {
			v.Tags = append(v.Tags, "vfk:nomatch")
		} else {
			v.Tags = append(v.Tags, "vfk:match")
		}
		if len(mp) > 1 {
			want := canonRes("ok "+mp[1], true)
			got := canonRes(impl, true)
			if want != got {
				v.OracleFail = "ValuesForKey is not exactly the (filtered) values stored under the key: want " + clip(want, 400) + " got " + clip(got, 400)
				v.Sig = "vfk:spec"
			}
		}
	case "pfk":
		ip := splitModel(impl)
		if len(ip) < 3 || len(mp) < 3 {
			v.CorrOK = false
			return v
		}
		v.CorrOK = ip[0] == canonRes(mp[0], true)
		v.Nontrivial = ip[0] != "ok [ ]"
		paths, _ := splitTop(strings.TrimPrefix(ip[0], "ok "))
		// PathForKeyShortest: one of the paths, of minimal segment count
		short := ip[1]
		if len(paths) == 0 {
			if short != "s" {
				v.OracleFail = "PathForKeyShortest returned a path although PathsForKey is empty"
				v.Sig = "pfk:shortest"
			}
		} else {
			found := false
			min := 1 << 30
			for _, p := range paths {
				s, _ := decStr(p)
				if n := segCount(s); n < min {
					min = n
				}
				if p == short {
					found = true
				}
			}
			ss, _ := decStr(short)
			if !found || segCount(ss) != min {
				v.OracleFail = fmt.Sprintf("PathForKeyShortest %q is not a minimal member of PathsForKey", ss)
				v.Sig = "pfk:shortest"
			}
		}
		if want := canonRes("ok "+mp[1], true); want != ip[0] && v.OracleFail == "" && mp[2] != "unsafe" {
			v.OracleFail = "PathsForKey is not exactly the distinct dot-paths ending in the key: want " + clip(want, 300) + " got " + clip(ip[0], 300)
			v.Sig = "pfk:spec"
		}
		v.Tags = append(v.Tags, "pfk:"+mp[2])
		if mp[2] != "unsafe" && ip[2] != "consistent" && v.OracleFail == "" {
			v.OracleFail = "values found through PathsForKey differ from ValuesForKey: " + clip(ip[2], 500)
			v.Sig = "pfk:consistency"
			if mp[2] == "nested" {
				// a list directly inside a list: the path walker does not descend into it
				v.Sig = "pfk:consistency:list-in-list"
			}
		}
	case "hsk":
		v.CorrOK = impl == mp[0]
		v.Nontrivial = impl == "ok t"
		if strings.HasPrefix(impl, "ok") && len(mp) > 1 && impl != "ok "+mp[1] {
			v.OracleFail = "sub-key filter disagrees with the documented predicate: documented " + mp[1] + " got " + impl
			v.Sig = "hsk:doc"
		}
	}
	return v
}

func c08Gen(r *Rng, n int) []string {
	var ops []string
	for len(ops) < n {
		cfg := jsonShape
		if r.P(10) {
			cfg.ListInList = true
		}
		if r.P(30) {
			cfg.Keys = keyAlpha
		}
		m := r.RootMap(&cfg)
		ms := enc(m)
		sep := ":"
		if r.P(15) {
			sep = r.Pick([]string{"|", "::", "=", "%%"})
		}
		for j := 0; j < 3; j++ {
			key := r.Pick(cfg.Keys)
			if r.P(12) {
				key = "*"
			}
			if r.P(5) {
				key = "zz"
			}
			var subs []string
			if r.P(45) {
				subs = genSubkeys(r, m, sep)
			}
			ops = append(ops, fmt.Sprintf("vfk %s %s %s %s %s", encStr(sep), ms, encStr(key), encStrList(subs), pfTable(sep, subs)))
			if r.P(6) {
				// arguments that parse under two separators (the exec first uses them under the other one)
				twoWay := []string{r.Pick(plainKeys) + "|" + r.Pick([]string{"x", "a", "1"}) + ":" + r.Pick([]string{"b", "x", "string"})}
				for _, s2 := range []string{":", "|"} {
					ops = append(ops, fmt.Sprintf("vfk %s %s %s %s %s", encStr(s2), ms, encStr(key), encStrList(twoWay), pfTable(s2, twoWay)))
				}
			}
			if r.P(40) && key != "*" {
				ops = append(ops, fmt.Sprintf("pfk %s %s", ms, encStr(key)))
			}
			if r.P(25) {
				// ValuesForPath with sub-keys: the conditions filter what the path yields - an index on
				// the last step is taken first, the filter afterwards
				path := r.DerivedPath(m, true, 4)
				s3 := genSubkeys(r, m, sep)
				ops = append(ops, fmt.Sprintf("vfp %s %s %s %s %s %d", encStr(sep), ms, encStr(path), encStrList(s3), pfTable(sep, s3), 0))
			}
			if r.P(40) {
				// a sub-value of the map as subject of the predicate
				sv := pickSubValue(r, m)
				s2 := genSubkeys(r, m, sep)
				ops = append(ops, fmt.Sprintf("hsk %s %s %s %s", encStr(sep), enc(sv), encStrList(s2), pfTable(sep, s2)))
			}
		}
	}
	return ops
}

func pickSubValue(r *Rng, m map[string]interface{}) interface{} {
	var all []interface{}
	var walk func(v interface{})
	walk = func(v interface{}) {
		all = append(all, v)
		switch x := v.(type) {
		case map[string]interface{}:
			for _, k := range sortedKeys(x) {
				walk(x[k])
			}
		case []interface{}:
			for _, e := range x {
				walk(e)
			}
		}
	}
	walk(m)
	return all[r.Intn(len(all))]
}

func init() {
	register(&Prop{
		ID:        "C08",
		Ambient:   ambientQueryOpts,
		Rule:      "Maps as for C07; keys drawn from the Map's alphabet (present at several depths, inside lists, absent, '*'); sub-key conditions derived from entries that occur in the Map (typed string/bool/num, '*' wildcard, '!' negation, malformed specs, alternative field separators); non-trivial = non-empty result / at least one path / predicate true; distinct = distinct op lines",
		Gen:       c08Gen,
		Exec:      c08Exec,
		Judge:     c08Judge,
		Describe:  c08Describe,
		QuickN:    5000*2,
		ThoroughN: 300000,
	})
}
