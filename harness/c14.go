package main

// c14.go - casting: unit-level cast() (hook) and whole-document decoding with and without
// the cast flag, versus Mxj.Model.Xml.cast / Mxj.Model.Decode, plus implementation-only
// oracles (same structure, leaf-wise cast, never NaN/Inf unless requested, Json() succeeds).

import (
	"fmt"
	"math"
	"strconv"
	"strings"

	mxj "github.com/clbanning/mxj/v2"
)

// castShape compares an un-cast and a cast decoding: same keys and nesting; every leaf is the
// identical string or the number/bool that string denotes.
func castShape(plain, casted interface{}, o DecOpt, path string) string {
	switch p := plain.(type) {
	case map[string]interface{}:
		c, ok := casted.(map[string]interface{})
		if !ok || len(c) != len(p) {
			return "structure differs at " + path
		}
		for k, pv := range p {
			cv, ok := c[k]
			if !ok {
				return "key " + k + " missing at " + path
			}
			if r := castShape(pv, cv, o, path+"."+k); r != "" {
				return r
			}
		}
		return ""
	case []interface{}:
		c, ok := casted.([]interface{})
		if !ok || len(c) != len(p) {
			return "list differs at " + path
		}
		for i := range p {
			if r := castShape(p[i], c[i], o, fmt.Sprintf("%s[%d]", path, i)); r != "" {
				return r
			}
		}
		return ""
	case string:
		switch cv := casted.(type) {
		case string:
			if cv != p {
				return "string leaf changed at " + path
			}
		case float64:
			f, err := strconv.ParseFloat(p, 64)
			if err != nil || !(f == cv || (f != f && cv != cv)) || !o.ToFloat {
				return fmt.Sprintf("leaf %q became float %v at %s", p, cv, path)
			}
			if (math.IsNaN(cv) || math.IsInf(cv, 0)) && !o.NanInf {
				return fmt.Sprintf("leaf %q was cast to %v although CastNanInf is off (at %s)", p, cv, path)
			}
		case int64:
			n, err := strconv.ParseInt(p, 10, 64)
			if err != nil || n != cv || !o.ToInt {
				return fmt.Sprintf("leaf %q became int64 %v at %s", p, cv, path)
			}
		case uint64:
			n, err := strconv.ParseUint(p, 10, 64)
			if err != nil || n != cv || !o.ToInt {
				return fmt.Sprintf("leaf %q became uint64 %v at %s", p, cv, path)
			}
		case bool:
			b, err := strconv.ParseBool(p)
			if err != nil || b != cv || !o.ToBool {
				return fmt.Sprintf("leaf %q became bool %v at %s", p, cv, path)
			}
		default:
			return fmt.Sprintf("leaf %q became %T at %s", p, casted, path)
		}
		return ""
	default:
		if !deepEq(plain, casted) {
			return "non-string leaf changed at " + path
		}
		return ""
	}
}

// denotes: the value a leaf text stands for under the enabled cast options, written from the
// documentation of the options (integers first when CastValuesToInt is on, then floats, then
// the t/f spellings of booleans; NaN/Inf never unless CastNanInf is on), with the real strconv.
func denotes(s string, o DecOpt) interface{} {
	if !o.Cast {
		return s
	}
	if o.ToInt {
		if n, err := strconv.ParseInt(s, 10, 64); err == nil {
			return n
		}
		if n, err := strconv.ParseUint(s, 10, 64); err == nil {
			return n
		}
	}
	if o.ToFloat {
		if f, err := strconv.ParseFloat(s, 64); err == nil {
			if math.IsNaN(f) || math.IsInf(f, 0) {
				if o.NanInf {
					return f
				}
				return s
			}
			return f
		}
	}
	if o.ToBool && s != "1" && s != "0" {
		if b, err := strconv.ParseBool(s); err == nil {
			return b
		}
	}
	return s
}

// castExact: every string leaf of the un-cast decoding must have become exactly the value its
// text denotes (castShape alone accepts a leaf left as a string) - unless the function given to
// SetCheckTagToSkipFunc answers true for the key the leaf is stored under, in which case it must
// have stayed the identical string.
func castExact(plain, casted interface{}, o DecOpt, path, key string) string {
	switch p := plain.(type) {
	case map[string]interface{}:
		c, _ := casted.(map[string]interface{})
		// text of an element is cast under the text key when the element already has entries
		// (attributes are loaded first) or simple values are decoded as maps, and under the
		// element's own key when it arrives ahead of everything else and is moved under the text
		// key later: only the first situation is recognisable in the Map
		textUnderTextKey := o.AsMap
		if o.AttrPrefix != "" {
			for k, v := range p {
				if _, isStr := v.(string); isStr && strings.HasPrefix(k, o.AttrPrefix) && k != o.textK() {
					textUnderTextKey = true
				}
			}
		}
		for _, k := range sortedKeys(p) {
			kk := k
			if k == o.textK() && !textUnderTextKey {
				kk = "\x00ambiguous"
			}
			if r := castExact(p[k], c[k], o, path+"."+k, kk); r != "" {
				return r
			}
		}
	case []interface{}:
		c, _ := casted.([]interface{})
		for i := range p {
			if i < len(c) {
				if r := castExact(p[i], c[i], o, fmt.Sprintf("%s[%d]", path, i), key); r != "" {
					return r
				}
			}
		}
	case string:
		if key == "\x00ambiguous" && o.SkipSet && enc(casted) == enc(p) {
			return ""
		}
		skipped := false
		if o.SkipSet {
			for _, sk := range o.Skip {
				if sk == key && key != "" {
					skipped = true
				}
			}
		}
		if skipped {
			if enc(casted) != enc(p) {
				return fmt.Sprintf("SKIPTAG leaf %q under key %q, which the skip function covers, was cast to %T(%v) at %s", p, key, casted, casted, path)
			}
		} else if want := denotes(p, o); enc(want) != enc(casted) {
			return fmt.Sprintf("leaf %q under key %q denotes %T(%v) under the enabled options but was decoded as %T(%v) at %s", p, key, want, want, casted, casted, path)
		}
	}
	return ""
}

func onlyStrings(v interface{}, key string) bool {
	switch x := v.(type) {
	case map[string]interface{}:
		for k, e := range x {
			if !onlyStrings(e, k) {
				return false
			}
		}
		return true
	case []interface{}:
		for _, e := range x {
			if !onlyStrings(e, key) {
				return false
			}
		}
		return true
	case string:
		return true
	case int:
		return key == "_seq"
	}
	return false
}

func c14Exec(op string) string {
	c, name := newCur(op)
	o := c.decOpt()
	c.val() // strconv table
	switch name {
	case "cast":
		s := c.str()
		key := c.str()
		if c.err != nil {
			return "bad-op " + c.err.Error()
		}
		o.apply()
		return "ok " + enc(mxj.VerifCast(s, o.Cast, key))
	case "xdoc":
		c.val()
		c.pos++
		c.val()
		doc := c.str()
		api := c.nat()
		if c.err != nil {
			return "bad-op " + c.err.Error()
		}
		o.apply()
		m, err := decodeWith(api, []byte(doc), o.Cast)
		plain, perr := decodeWith(api, []byte(doc), false)
		if err != nil || perr != nil {
			if (err == nil) != (perr == nil) {
				return "err " + fmt.Sprint(err) + " | cast and un-cast decoding disagree about the error"
			}
			return "err " + xmlErrKind(err) + " | "
		}
		note := ""
		if !onlyStrings(plain, "") {
			note = "un-cast decoding produced a non-string leaf"
		} else if o.Cast {
			note = castShape(plain, m, o, "")
			// (with tag sequence numbers a simple value is wrapped as {text key, _seq} after it was
			// cast under the element's own key: which key the skip function saw is then not
			// visible in the Map, so the key-exact oracle is not applied to that combination)
			if note == "" && !(o.SkipSet && o.SeqNum) {
				note = castExact(plain, m, o, "", "")
			}
			if note == "" && !o.NanInf {
				if _, jerr := mxj.Map(m).Json(); jerr != nil {
					note = "cast-decoded Map cannot be converted to JSON: " + jerr.Error()
				}
			}
		}
		if note == "" && o.Cast && !o.SkipSet {
			// the sequence decoder casts by the same chain: leaf by leaf, what it returns with the
			// cast flag is the cast of what it returns without
			s0, e0 := mxj.NewMapXmlSeq([]byte(doc))
			s1, e1 := mxj.NewMapXmlSeq([]byte(doc), true)
			if e0 == nil && e1 == nil {
				// (comments, directives and processing instructions are kept as text by design)
				p0, p1 := stripSeqMeta(map[string]interface{}(s0)), stripSeqMeta(map[string]interface{}(s1))
				if n := castShape(p0, p1, o, ""); n != "" {
					note = "SEQ " + n
				} else if n := castExact(p0, p1, o, "", ""); n != "" {
					note = "SEQ " + n
				}
			}
		}
		if note == "" && api == 0 && hashStr(op)%3 == 0 {
			// x2j-wrapper.DocToJson(doc, cast) beside NewMapXml(doc, cast) then Json
			note = wrapDocToJson([]byte(doc), o.Cast)
		}
		return "ok " + enc(m) + " | " + note
	}
	return "bad-op"
}

func c14Describe(op string) string {
	c, name := newCur(op)
	o := c.decOpt()
	c.val()
	if name == "cast" {
		s := c.str()
		return fmt.Sprintf("cast(%q, r=%v, key=%q) options=%+v", s, o.Cast, c.str(), o)
	}
	c.val()
	c.pos++
	c.val()
	doc := c.str()
	return fmt.Sprintf("decode with/without cast api=%d options=%+v doc=%q", c.nat(), o, doc)
}

func c14Judge(op, impl, model string) Verdict {
	_, name := newCur(op)
	v := Verdict{Tags: []string{name}}
	if strings.HasPrefix(model, "skip-") {
		v.Skipped, v.CorrOK = true, true
		return v
	}
	if strings.HasPrefix(impl, "panic") {
		v.OracleFail = "panicked: " + impl
		v.Sig = name + ":panic"
		return v
	}
	ip, mp := splitModel(impl), splitModel(model)
	v.CorrOK = ip[0] == mp[0]
	v.Nontrivial = strings.Contains(ip[0], "#") || strings.Contains(ip[0], " t ") || strings.Contains(ip[0], " f ") || strings.HasSuffix(ip[0], " t") || strings.HasSuffix(ip[0], " f")
	if name == "cast" {
		c, _ := newCur(op)
		o := c.decOpt()
		c.val()
		s := c.str()
		if want := "ok " + enc(denotes(s, o)); !o.SkipSet && c.err == nil && ip[0] != want {
			v.OracleFail = fmt.Sprintf("cast(%q) = %s but the text denotes %s under the enabled options", s, ip[0], want)
			v.Sig = "cast:denotes"
		}
		if strings.Contains(ip[0], "NaN") || strings.Contains(ip[0], "Inf") {
			c, _ := newCur(op)
			o := c.decOpt()
			if !o.NanInf {
				v.OracleFail = "cast produced NaN/Inf although CastNanInf is off: " + ip[0]
				v.Sig = "cast:naninf"
			}
		}
		return v
	}
	if len(ip) > 1 && ip[1] != "" {
		v.OracleFail = ip[1]
		v.Sig = "xcast:" + strings.Join(strings.Fields(ip[1])[:2], "-")
		if strings.Contains(ip[1], "CastNanInf is off") || strings.Contains(ip[1], "cannot be converted to JSON") {
			v.Sig = "xcast:naninf"
		}
	}
	return v
}

// specialSpellings: every case variant and signed spelling of nan / inf / infinity.
func specialSpellings() []string {
	var out []string
	for _, w := range []string{"nan", "inf", "infinity"} {
		n := len(w)
		for mask := 0; mask < 1<<n; mask++ {
			b := []byte(w)
			for i := 0; i < n; i++ {
				if mask&(1<<i) != 0 {
					b[i] -= 32
				}
			}
			for _, sign := range []string{"", "+", "-"} {
				out = append(out, sign+string(b))
			}
		}
	}
	// the same words with a letter that Unicode case folding maps onto an ASCII one
	// (U+0130 lower-cases to "i", U+212A KELVIN SIGN to "k", U+017F LONG S to "s")
	out = append(out, "\u0130nf", "-\u0130NF", "+\u0130nf", "\u0130nfinity", "-inf\u0130n\u0130ty", "\u0131nf", "na\u0274")
	return out
}

var castTexts = []string{"0", "1", "-1", "42", "9223372036854775807", "9223372036854775808", "-9223372036854775808", "-9223372036854775809", "18446744073709551615", "18446744073709551616", "3.5", "-0.25", "1e3", "1E-2", "1e400", "-1e400", "0x1F", "0x1p-2", "1_000", ".5", "5.", "+7", "+9223372036854775807", "-9223372036854775807", "10000000000000000000", "00000000000000000042", "000000000000000000042", "00", "1e", "--1", "t", "T", "f", "F", "true", "TRUE", "True", "tRuE", "false", "FALSE", "False", "fAlse", "truee", "yes", "no", "", " ", "hello", "1 2", "é", "NaN", "nan", "Inf", "+Inf", "-Inf", "Infinity", "-infinity", "+INFINITY", "iNf", "nAn", "1/2", "٣", "１", "\u0130nf", "tr\u00fce", "fal\u017fe", "TRU\u0045"}

func c14Gen(r *Rng, n int) []string {
	var ops []string
	spec := specialSpellings()
	for len(ops) < n {
		o := r.decOpt(true)
		o.Cast = r.P(85)
		switch r.Intn(3) {
		case 0: // unit level
			s := r.Pick(castTexts)
			if r.P(40) {
				s = r.Pick(spec)
			}
			key := r.Pick([]string{"a", "k", "-x", "#text", ""})
			if o.SkipSet && r.P(50) && len(o.Skip) > 0 {
				key = o.Skip[0]
			}
			ops = append(ops, fmt.Sprintf("cast %s %s %s %s", o.enc(), strconvTable([]string{s}), encStr(s), encStr(key)))
		default: // document level: leaves in element, attribute and text-key positions
			g := c01Gen0
			texts := append([]string{}, castTexts...)
			for i := 0; i < 12; i++ {
				texts = append(texts, r.Pick(spec))
			}
			g.Texts = texts
			g.MultiTextP = 0
			g.MaxDepth = 2
			root := r.xmlDoc(&g)
			var sb strings.Builder
			r.render(root, &sb)
			doc := sb.String()
			ops = append(ops, xdocOp(doc, o, r.Intn(4), nil))
		}
	}
	return ops
}

// c14Exhaustive: every special spelling x every NaN/Inf-relevant option combination, unit level.
func c14Exhaustive() []string {
	var ops []string
	for _, s := range specialSpellings() {
		for mask := 0; mask < 8; mask++ {
			o := defaultDecOpt()
			o.Cast = true
			o.ToInt, o.ToFloat, o.NanInf = mask&1 != 0, mask&2 != 0, mask&4 != 0
			ops = append(ops, fmt.Sprintf("cast %s %s %s %s", o.enc(), strconvTable([]string{s}), encStr(s), encStr("a")))
		}
	}
	return ops
}

func init() {
	register(&Prop{
		ID:   "C14",
		Rule: "leaf texts: integers incl. 64-bit boundaries, decimal/exponent/hex floats, overflowing numerals, every case variant and signed spelling of nan/inf/infinity (exhaustive at unit level x the 8 int/float/NaN-Inf option combinations), boolean spellings accepted and rejected by ParseBool, ordinary text; all cast-option combinations incl. skip-tag sets; element, attribute and text-key positions; non-trivial = at least one leaf was cast; distinct = distinct op lines",
		Gen: func(r *Rng, n int) []string {
			return c14Gen(r, n)
		},
		Exec:      c14Exec,
		Judge:     c14Judge,
		Describe:  c14Describe,
		QuickN:    3000*2,
		ThoroughN: 200000,
		Fixed:     c14Exhaustive,
	})
}

// stripSeqMeta: a MapSeq without its comment / directive / processing-instruction entries.
func stripSeqMeta(v interface{}) interface{} {
	switch x := v.(type) {
	case map[string]interface{}:
		c := map[string]interface{}{}
		for k, e := range x {
			if len(k) > 1 && (k[1:] == "comment" || k[1:] == "directive" || k[1:] == "procinst") {
				continue
			}
			c[k] = stripSeqMeta(e)
		}
		return c
	case []interface{}:
		c := make([]interface{}, len(x))
		for i, e := range x {
			c[i] = stripSeqMeta(e)
		}
		return c
	}
	return v
}
