package main

// c04.go - MapSeq round trip: NewMapXmlSeq -> Xml / XmlIndent / BeautifyXml reproduces the
// token stream (order, prefix-preserving names, attribute order, text, comments, directives,
// processing instructions), versus Mxj.Model.Seq.

import (
	"regexp"
	"bytes"
	"fmt"
	"strings"

	mxj "github.com/clbanning/mxj/v2"
)

type SeqOpt struct {
	Snake, KeepSpace, EscDec, Cast, ToInt, ToFloat, ToBool, NanInf bool
}

func (o SeqOpt) enc() string {
	return fmt.Sprintf("%d %d %d %d %d %d %d %d", b2i(o.Snake), b2i(o.KeepSpace), b2i(o.EscDec), b2i(o.Cast), b2i(o.ToInt), b2i(o.ToFloat), b2i(o.ToBool), b2i(o.NanInf))
}

func (c *cur) seqOpt() SeqOpt {
	return SeqOpt{c.boolean(), c.boolean(), c.boolean(), c.boolean(), c.boolean(), c.boolean(), c.boolean(), c.boolean()}
}

func (o SeqOpt) apply() {
	mxj.CoerceKeysToSnakeCase(o.Snake)
	mxj.DisableTrimWhiteSpace(o.KeepSpace)
	mxj.XMLEscapeCharsDecoder(o.EscDec)
	mxj.CastValuesToInt(o.ToInt)
	mxj.CastValuesToFloat(o.ToFloat)
	mxj.CastValuesToBool(o.ToBool)
	mxj.CastNanInf(o.NanInf)
	bystanders()
}

// xseq cfg strconv rawtokens fin encEscape goEmpty doc ;dom <0|1>
func c04Exec(op string) string {
	if strings.HasPrefix(op, "xtok ") {
		// a MapSeq.Xml() output through the tokenizer model alone (c02.go: reference =
		// encoding/xml on the same bytes, inside the subset tokModelSupports describes);
		// theorems C04_tok_law_seq / C04_tok_roundtrip_bytes
		return xtokExec(op)
	}
	c, _ := newCur(op)
	o := c.seqOpt()
	c.val()
	c.val()
	c.pos++
	esc := c.boolean()
	goEmpty := c.boolean()
	indented := strings.HasPrefix(op, "xseqi ")
	pfx, ind := "", ""
	if indented {
		pfx, ind = c.str(), c.str()
	}
	doc := c.str()
	if c.err != nil {
		return "bad-op " + c.err.Error()
	}
	inDom := strings.Contains(op, " ;dom 1")
	o.apply()
	mxj.XMLEscapeChars(esc)
	if goEmpty {
		mxj.XmlGoEmptyElemSyntax()
	}
	m, err := mxj.NewMapXmlSeq([]byte(doc), o.Cast)
	if err == mxj.NoRoot {
		return "noroot " + enc(map[string]interface{}(m))
	}
	if err != nil {
		if _, wf := tokenStream([]byte(doc)); wf && inDom {
			// a document the tokenizer reads to its end is decoded, not rejected
			return "err " + xmlErrKind(err) + " | - | the sequence decoder rejects a document the tokenizer accepts: " + oneLine(err.Error())
		}
		return "err " + xmlErrKind(err)
	}
	x, xerr := m.Xml()
	if indented {
		// xseqi: MapSeq.XmlIndent beside Mxj.Model.SeqIndent.mapSeqXmlIndent, byte for byte
		x, xerr = m.XmlIndent(pfx, ind)
		res := "doc " + enc(map[string]interface{}(m)) + " | "
		if xerr != nil {
			return res + "err other | "
		}
		note := ""
		var w bytes.Buffer
		if werr := m.XmlIndentWriter(&w, pfx, ind); werr != nil || w.String() != string(x) {
			note = "MapSeq.XmlIndentWriter writes something else than XmlIndent returns"
		}
		return res + "ok " + encStr(string(x)) + " | " + note
	}
	res := "doc " + enc(map[string]interface{}(m)) + " | "
	if xerr != nil {
		return res + "err other | "
	}
	res += "ok " + encStr(string(x)) + " | "
	notes := []string{}
	if inDom {
		want, _ := tokenStream([]byte(doc))
		// the decoder stops at the root's end tag: compare the root element only
		if got, ok := tokenStream(x); !ok {
			notes = append(notes, "compact output is not well formed: "+clip(string(x), 200))
		} else if got != want {
			notes = append(notes, "compact round trip changes the token stream: want "+clip(want, 300)+" got "+clip(got, 300))
		}
		xi, ierr := m.XmlIndent("", "  ")
		if ierr != nil {
			notes = append(notes, "XmlIndent failed: "+oneLine(ierr.Error()))
		} else if got, ok := tokenStream(xi); !ok || got != want {
			if o.KeepSpace {
				// blanks are significant in this mode; the compact encoder is the round trip
			} else {
				notes = append(notes, "indented round trip changes the token stream: want "+clip(want, 300)+" got "+clip(got, 300))
			}
		}
		if ierr == nil && !o.KeepSpace && !interTagBlank.Match(x) {
			// NewMapFormattedXmlSeq: white space between tags is formatting - the indented document
			// decodes to what the compact one decodes to (when the content itself has no blank run
			// between a '>' and a '<', e.g. inside a comment or a CDATA section)
			mf, ferr := mxj.NewMapFormattedXmlSeq(xi, o.Cast)
			mc, cerr := mxj.NewMapXmlSeq(x, o.Cast)
			if (ferr == nil) != (cerr == nil) || (ferr == nil && enc(map[string]interface{}(mf)) != enc(map[string]interface{}(mc))) {
				notes = append(notes, "FORMATTED NewMapFormattedXmlSeq of the indented document differs from NewMapXmlSeq of the compact one")
			}
		}
		if len(notes) == 0 && hashStr(op)%4 == 0 {
			// the same round trip under another key prefix, after documents were encoded under the
			// default one (the reserved keys follow the prefix in force)
			for _, kp := range []string{"_", "%", "#"} {
				mxj.SetGlobalKeyMapPrefix(kp)
				m2, e2 := mxj.NewMapXmlSeq([]byte(doc), o.Cast)
				if e2 != nil {
					continue
				}
				x2, xe2 := m2.Xml()
				if got, ok := tokenStream(x2); xe2 != nil || !ok || got != want {
					notes = append(notes, fmt.Sprintf("KEYPREFIX under key prefix %q the compact round trip changes the token stream: %s", kp, clip(string(x2), 200)))
					break
				}
			}
			mxj.SetGlobalKeyMapPrefix("#")
		}
		if !o.Cast && !o.Snake && !o.EscDec && !o.KeepSpace && esc {
			b, berr := mxj.BeautifyXml([]byte(doc), "", " ")
			if berr != nil {
				notes = append(notes, "BeautifyXml failed: "+oneLine(berr.Error()))
			} else if got, ok := tokenStream(b); !ok || got != want {
				notes = append(notes, "BeautifyXml changes the token stream")
			}
		}
	}
	return res + strings.Join(notes, "; ")
}

var interTagBlank = regexp.MustCompile(`>[\n\t\r ]+<`)

func c04Describe(op string) string {
	if strings.HasPrefix(op, "xtok ") {
		c, _ := newCur(op)
		return fmt.Sprintf("tokenizer model vs encoding/xml on the MapSeq.Xml() output %q", c.str())
	}
	c, _ := newCur(op)
	o := c.seqOpt()
	c.val()
	c.val()
	c.pos++
	esc := c.boolean()
	ge := c.boolean()
	if strings.HasPrefix(op, "xseqi ") {
		pfx, ind := c.str(), c.str()
		return fmt.Sprintf("MapSeq decode then XmlIndent(%q, %q) options=%+v encoderEscaping=%v goEmpty=%v doc=%q", pfx, ind, o, esc, ge, c.str())
	}
	doc := c.str()
	return fmt.Sprintf("MapSeq round trip options=%+v encoderEscaping=%v goEmpty=%v doc=%q", o, esc, ge, doc)
}

// xtokseqJudge: xtokJudge (c02.go) on what MapSeq.Xml() wrote, with its own counters: xtokseq =
// comparisons asked for, xtokseq:compared / :err / :skip, xtokseq:comment / :procinst = compared
// outputs holding a comment / a processing instruction.
func xtokseqJudge(op, impl, model string) Verdict {
	v := xtokJudge(op, impl, model)
	v.Tags = append(v.Tags, "xtokseq")
	switch {
	case v.Skipped:
		v.Tags = append(v.Tags, "xtokseq:skip")
	case impl == "tok err":
		v.Tags = append(v.Tags, "xtokseq:err")
	default:
		v.Tags = append(v.Tags, "xtokseq:compared")
		c, _ := newCur(op)
		d := c.str()
		if strings.Contains(d, "<!--") {
			v.Tags = append(v.Tags, "xtokseq:comment")
		}
		if strings.Contains(d, "<?") {
			v.Tags = append(v.Tags, "xtokseq:procinst")
		}
	}
	if !v.CorrOK {
		v.Sig = "xtokseq:tokens-differ"
	}
	return v
}

// c04XmlBytes: what MapSeq.Xml() writes for the document under the options of the case
// (computed in-process when the cases are generated, as c19's xmlFileBytes does; the options are
// restored afterwards)
func c04XmlBytes(doc string, o SeqOpt, esc, goEmpty bool) (out string, ok bool) {
	defer resetOptions()
	defer func() {
		if recover() != nil {
			out, ok = "", false
		}
	}()
	mxj.CoerceKeysToSnakeCase(o.Snake)
	mxj.DisableTrimWhiteSpace(o.KeepSpace)
	mxj.XMLEscapeCharsDecoder(o.EscDec)
	mxj.CastValuesToInt(o.ToInt)
	mxj.CastValuesToFloat(o.ToFloat)
	mxj.CastValuesToBool(o.ToBool)
	mxj.CastNanInf(o.NanInf)
	mxj.XMLEscapeChars(esc)
	if goEmpty {
		mxj.XmlGoEmptyElemSyntax()
	}
	m, err := mxj.NewMapXmlSeq([]byte(doc), o.Cast)
	if err != nil {
		return "", false
	}
	x, xerr := m.Xml()
	if xerr != nil {
		return "", false
	}
	return string(x), true
}

// fixed byte strings for the tokenizer model: the rendering of C04ExtTok's sample tree and the
// witnesses of its side conditions (comment with "--" / ending in '-', "?>" inside a PI text, PI
// text with leading blanks, a target that is no name, a raw '<', adjacent text, a prefixed name)
func c04Fixed() []string {
	docs := []string{
		`<r x="1&lt;2" y="&quot;">hi &amp; lo<a>1</a><!--a - note--><?go run? now?><b></b></r>`,
		`<r x="1&lt;2" y="&quot;">hi &amp; lo<a>1</a><!--a - note--><?go run? now?><b/></r>`,
		`<p:r xmlns:p="urn:p" p:k="a&amp;b">t<p:a></p:a><!--c--><b x="1"></b></p:r>`, `<a:b:c></a:b:c>`,
		`<r><!--a--b--></r>`, `<r><!--a---></r>`, `<r><?p a?>b?></r>`, `<r><?p  x?></r>`, `<r><?1p x?></r>`,
		`<r>1<2</r>`, `<r>xy</r>`, `<r><!--c--></r>`, `<p:a></p:a>`, "<r>x\ry</r>", `<r><?p ?></r>`, `<r><!----></r>`,
	}
	var ops []string
	for _, d := range docs {
		ops = append(ops, "xtok "+encStr(d))
	}
	return ops
}

func c04Judge(op, impl, model string) Verdict {
	if strings.HasPrefix(op, "xtok ") {
		return xtokseqJudge(op, impl, model)
	}
	v := Verdict{Tags: []string{"xseq"}}
	if strings.HasPrefix(model, "skip-") {
		v.Skipped, v.CorrOK = true, true
		return v
	}
	if strings.HasPrefix(impl, "panic") {
		v.OracleFail = "sequence codec panicked: " + impl
		v.Sig = "xseq:panic"
		return v
	}
	ip, mp := splitModel(impl), splitModel(model)
	if len(ip) == 3 && strings.HasPrefix(ip[0], "err") {
		v.CorrOK = ip[0] == model
		v.OracleFail = ip[2]
		v.Sig = "xseq:decoder-rejects"
		return v
	}
	if len(ip) < 2 {
		v.CorrOK = impl == model
		v.Tags = append(v.Tags, "xseq:"+strings.Fields(impl+" x")[0])
		return v
	}
	v.CorrOK = len(mp) >= 2 && ip[0] == mp[0] && ip[1] == mp[1]
	v.Nontrivial = true
	if strings.Contains(op, " ;dom 1") {
		v.Tags = append(v.Tags, "xseq:domain")
	}
	if len(ip) > 2 && ip[2] != "" {
		v.OracleFail = ip[2]
		v.Sig = "xseq:" + strings.Join(strings.Fields(ip[2])[:3], "-")
	}
	return v
}

func c04Gen(r *Rng, n int) []string {
	var ops []string
	// what MapSeq.Xml() writes for the document of every case of this batch, as byte strings for
	// the tokenizer model (appended after the n cases, so those are the same cases with or without
	// this comparison)
	var cat []string
	for len(ops) < n {
		g := c01Gen0
		g.SeqShape = r.P(85)
		g.MultiTextP = 0
		g.MixedP = 30
		g.Blank = r.P(50)
		root := r.xmlDoc(&g)
		var sb strings.Builder
		r.render(root, &sb)
		doc := sb.String()
		var o SeqOpt
		o.ToFloat, o.ToBool = true, true
		if r.P(25) {
			o.Snake, o.KeepSpace, o.EscDec = r.P(40), r.P(30), r.P(40)
			o.Cast, o.ToInt, o.NanInf = r.P(50), r.P(40), r.P(30)
		}
		esc := !o.EscDec
		goEmpty := r.P(15)
		toks, fin := tokensOf([]byte(doc), true)
		// the round-trip clause is claimed for un-cast decoding of documents in the C04 shape
		// (CDATA runs are text; a CDATA split inside an element still is one text run)
		dom := g.SeqShape && !o.Cast && !o.Snake && !o.KeepSpace
		if len(ops)%3 == 0 { // (one case in three: keeps the quick tier at its former duration)
			if x, ok := c04XmlBytes(doc, o, esc, goEmpty); ok {
				cat = append(cat, "xtok "+encStr(x))
			}
		}
		if r.P(25) {
			ops = append(ops, fmt.Sprintf("xseqi %s %s %s %s %d %d %s %s %s", o.enc(), strconvTable(leafTexts([]byte(doc))), toks, fin, b2i(esc), b2i(goEmpty),
				encStr(r.Pick([]string{"", "", " ", "\t"})), encStr(r.Pick([]string{"  ", " ", "\t", "", "--"})), encStr(doc)))
			continue
		}
		ops = append(ops, fmt.Sprintf("xseq %s %s %s %s %d %d %s ;dom %d", o.enc(), strconvTable(leafTexts([]byte(doc))), toks, fin, b2i(esc), b2i(goEmpty), encStr(doc), b2i(dom)))
	}
	return append(ops, cat...)
}

func init() {
	register(&Prop{
		ID:        "C04",
		Rule:      "documents with interleaved identically and differently named siblings, prefixed names and xmlns attributes, at most one comment / directive / processing instruction per element, text alone or ahead of the child elements (85%; the rest has arbitrary mixed content for the correspondence only), values with the XML special characters; decoded with NewMapXmlSeq and re-encoded with Xml, XmlIndent and BeautifyXml; the bytes MapSeq.Xml() writes for the document of every case (options of the case; computed when the cases are generated), plus fixed byte strings (the sample of C04ExtTok and the witnesses of its side conditions), also go through the tokenizer model (driver op xtok) and are compared token by token with encoding/xml inside the model's subset (no directive, ASCII names; tags xtokseq, xtokseq:compared/err/skip/comment/procinst); non-trivial = a MapSeq was decoded / the real tokenizer accepted the bytes; distinct = distinct op lines",
		Gen:       c04Gen,
		Exec:      c04Exec,
		Judge:     c04Judge,
		Describe:  c04Describe,
		Fixed:     c04Fixed,
		QuickN:    3000*2,
		ThoroughN: 150000,
	})
}
