package main

// c04.go - MapSeq round trip: NewMapXmlSeq -> Xml / XmlIndent / BeautifyXml reproduces the
// token stream (order, prefix-preserving names, attribute order, text, comments, directives,
// processing instructions), versus Mxj.Model.Seq.

import (
	"regexp"
	"bytes"
	"fmt"
	"strings"

	mxj "github.com/clbanning/mxj/v2"
)

type SeqOpt struct {
	Snake, KeepSpace, EscDec, Cast, ToInt, ToFloat, ToBool, NanInf bool
}

func (o SeqOpt) enc() string {
	return fmt.Sprintf("%d %d %d %d %d %d %d %d", b2i(o.Snake), b2i(o.KeepSpace), b2i(o.EscDec), b2i(o.Cast), b2i(o.ToInt), b2i(o.ToFloat), b2i(o.ToBool), b2i(o.NanInf))
}

func (c *cur) seqOpt() SeqOpt {
	return SeqOpt{c.boolean(), c.boolean(), c.boolean(), c.boolean(), c.boolean(), c.boolean(), c.boolean(), c.boolean()}
}

func (o SeqOpt) apply() {
	mxj.CoerceKeysToSnakeCase(o.Snake)
	mxj.DisableTrimWhiteSpace(o.KeepSpace)
	mxj.XMLEscapeCharsDecoder(o.EscDec)
	mxj.CastValuesToInt(o.ToInt)
	mxj.CastValuesToFloat(o.ToFloat)
	mxj.CastValuesToBool(o.ToBool)
	mxj.CastNanInf(o.NanInf)
	bystanders()
}

// xseq cfg strconv rawtokens fin encEscape goEmpty doc ;dom <0|1>
func c04Exec(op string) string {
	c, _ := newCur(op)
	o := c.seqOpt()
	c.val()
	c.val()
	c.pos++
	esc := c.boolean()
	goEmpty := c.boolean()
	indented := strings.HasPrefix(op, "xseqi ")
	pfx, ind := "", ""
	if indented {
		pfx, ind = c.str(), c.str()
	}
	doc := c.str()
	if c.err != nil {
		return "bad-op " + c.err.Error()
	}
	inDom := strings.Contains(op, " ;dom 1")
	o.apply()
	mxj.XMLEscapeChars(esc)
	if goEmpty {
		mxj.XmlGoEmptyElemSyntax()
	}
	m, err := mxj.NewMapXmlSeq([]byte(doc), o.Cast)
	if err == mxj.NoRoot {
		return "noroot " + enc(map[string]interface{}(m))
	}
	if err != nil {
		if _, wf := tokenStream([]byte(doc)); wf && inDom {
			// a document the tokenizer reads to its end is decoded, not rejected
			return "err " + xmlErrKind(err) + " | - | the sequence decoder rejects a document the tokenizer accepts: " + oneLine(err.Error())
		}
		return "err " + xmlErrKind(err)
	}
	x, xerr := m.Xml()
	if indented {
		// xseqi: MapSeq.XmlIndent beside Mxj.Model.SeqIndent.mapSeqXmlIndent, byte for byte
		x, xerr = m.XmlIndent(pfx, ind)
		res := "doc " + enc(map[string]interface{}(m)) + " | "
		if xerr != nil {
			return res + "err other | "
		}
		note := ""
		var w bytes.Buffer
		if werr := m.XmlIndentWriter(&w, pfx, ind); werr != nil || w.String() != string(x) {
			note = "MapSeq.XmlIndentWriter writes something else than XmlIndent returns"
		}
		return res + "ok " + encStr(string(x)) + " | " + note
	}
	res := "doc " + enc(map[string]interface{}(m)) + " | "
	if xerr != nil {
		return res + "err other | "
	}
	res += "ok " + encStr(string(x)) + " | "
	notes := []string{}
	if inDom {
		want, _ := tokenStream([]byte(doc))
		// the decoder stops at the root's end tag: compare the root element only
		if got, ok := tokenStream(x); !ok {
			notes = append(notes, "compact output is not well formed: "+clip(string(x), 200))
		} else if got != want {
			notes = append(notes, "compact round trip changes the token stream: want "+clip(want, 300)+" got "+clip(got, 300))
		}
		xi, ierr := m.XmlIndent("", "  ")
		if ierr != nil {
			notes = append(notes, "XmlIndent failed: "+oneLine(ierr.Error()))
		} else if got, ok := tokenStream(xi); !ok || got != want {
			if o.KeepSpace {
				// blanks are significant in this mode; the compact encoder is the round trip
			} else {
				notes = append(notes, "indented round trip changes the token stream: want "+clip(want, 300)+" got "+clip(got, 300))
			}
		}
		if ierr == nil && !o.KeepSpace && !interTagBlank.Match(x) {
			// NewMapFormattedXmlSeq: white space between tags is formatting - the indented document
			// decodes to what the compact one decodes to (when the content itself has no blank run
			// between a '>' and a '<', e.g. inside a comment or a CDATA section)
			mf, ferr := mxj.NewMapFormattedXmlSeq(xi, o.Cast)
			mc, cerr := mxj.NewMapXmlSeq(x, o.Cast)
			if (ferr == nil) != (cerr == nil) || (ferr == nil && enc(map[string]interface{}(mf)) != enc(map[string]interface{}(mc))) {
				notes = append(notes, "FORMATTED NewMapFormattedXmlSeq of the indented document differs from NewMapXmlSeq of the compact one")
			}
		}
		if len(notes) == 0 && hashStr(op)%4 == 0 {
			// the same round trip under another key prefix, after documents were encoded under the
			// default one (the reserved keys follow the prefix in force)
			for _, kp := range []string{"_", "%", "#"} {
				mxj.SetGlobalKeyMapPrefix(kp)
				m2, e2 := mxj.NewMapXmlSeq([]byte(doc), o.Cast)
				if e2 != nil {
					continue
				}
				x2, xe2 := m2.Xml()
				if got, ok := tokenStream(x2); xe2 != nil || !ok || got != want {
					notes = append(notes, fmt.Sprintf("KEYPREFIX under key prefix %q the compact round trip changes the token stream: %s", kp, clip(string(x2), 200)))
					break
				}
			}
			mxj.SetGlobalKeyMapPrefix("#")
		}
		if !o.Cast && !o.Snake && !o.EscDec && !o.KeepSpace && esc {
			b, berr := mxj.BeautifyXml([]byte(doc), "", " ")
			if berr != nil {
				notes = append(notes, "BeautifyXml failed: "+oneLine(berr.Error()))
			} else if got, ok := tokenStream(b); !ok || got != want {
				notes = append(notes, "BeautifyXml changes the token stream")
			}
		}
	}
	return res + strings.Join(notes, "; ")
}

var interTagBlank = regexp.MustCompile(`>[\n\t\r ]+<`)

func c04Describe(op string) string {
	c, _ := newCur(op)
	o := c.seqOpt()
	c.val()
	c.val()
	c.pos++
	esc := c.boolean()
	ge := c.boolean()
	if strings.HasPrefix(op, "xseqi ") {
		pfx, ind := c.str(), c.str()
		return fmt.Sprintf("MapSeq decode then XmlIndent(%q, %q) options=%+v encoderEscaping=%v goEmpty=%v doc=%q", pfx, ind, o, esc, ge, c.str())
	}
	doc := c.str()
	return fmt.Sprintf("MapSeq round trip options=%+v encoderEscaping=%v goEmpty=%v doc=%q", o, esc, ge, doc)
}

func c04Judge(op, impl, model string) Verdict {
	v := Verdict{Tags: []string{"xseq"}}
	if strings.HasPrefix(model, "skip-") {
		v.Skipped, v.CorrOK = true, true
		return v
	}
	if strings.HasPrefix(impl, "panic") {
		v.OracleFail = "sequence codec panicked: " + impl
		v.Sig = "xseq:panic"
		return v
	}
	ip, mp := splitModel(impl), splitModel(model)
	if len(ip) == 3 && strings.HasPrefix(ip[0], "err") {
		v.CorrOK = ip[0] == model
		v.OracleFail = ip[2]
		v.Sig = "xseq:decoder-rejects"
		return v
	}
	if len(ip) < 2 {
		v.CorrOK = impl == model
		v.Tags = append(v.Tags, "xseq:"+strings.Fields(impl+" x")[0])
		return v
	}
	v.CorrOK = len(mp) >= 2 && ip[0] == mp[0] && ip[1] == mp[1]
	v.Nontrivial = true
	if strings.Contains(op, " ;dom 1") {
		v.Tags = append(v.Tags, "xseq:domain")
	}
	if len(ip) > 2 && ip[2] != "" {
		v.OracleFail = ip[2]
		v.Sig = "xseq:" + strings.Join(strings.Fields(ip[2])[:3], "-")
	}
	return v
}

func c04Gen(r *Rng, n int) []string {
	var ops []string
	for len(ops) < n {
		g := c01Gen0
		g.SeqShape = r.P(85)
		g.MultiTextP = 0
		g.MixedP = 30
		g.Blank = r.P(50)
		root := r.xmlDoc(&g)
		var sb strings.Builder
		r.render(root, &sb)
		doc := sb.String()
		var o SeqOpt
		o.ToFloat, o.ToBool = true, true
		if r.P(25) {
			o.Snake, o.KeepSpace, o.EscDec = r.P(40), r.P(30), r.P(40)
			o.Cast, o.ToInt, o.NanInf = r.P(50), r.P(40), r.P(30)
		}
		esc := !o.EscDec
		goEmpty := r.P(15)
		toks, fin := tokensOf([]byte(doc), true)
		// the round-trip clause is claimed for un-cast decoding of documents in the C04 shape
		// (CDATA runs are text; a CDATA split inside an element still is one text run)
		dom := g.SeqShape && !o.Cast && !o.Snake && !o.KeepSpace
		if r.P(25) {
			ops = append(ops, fmt.Sprintf("xseqi %s %s %s %s %d %d %s %s %s", o.enc(), strconvTable(leafTexts([]byte(doc))), toks, fin, b2i(esc), b2i(goEmpty),
				encStr(r.Pick([]string{"", "", " ", "\t"})), encStr(r.Pick([]string{"  ", " ", "\t", "", "--"})), encStr(doc)))
			continue
		}
		ops = append(ops, fmt.Sprintf("xseq %s %s %s %s %d %d %s ;dom %d", o.enc(), strconvTable(leafTexts([]byte(doc))), toks, fin, b2i(esc), b2i(goEmpty), encStr(doc), b2i(dom)))
	}
	return ops
}

func init() {
	register(&Prop{
		ID:        "C04",
		Rule:      "documents with interleaved identically and differently named siblings, prefixed names and xmlns attributes, at most one comment / directive / processing instruction per element, text alone or ahead of the child elements (85%; the rest has arbitrary mixed content for the correspondence only), values with the XML special characters; decoded with NewMapXmlSeq and re-encoded with Xml, XmlIndent and BeautifyXml; non-trivial = a MapSeq was decoded; distinct = distinct op lines",
		Gen:       c04Gen,
		Exec:      c04Exec,
		Judge:     c04Judge,
		Describe:  c04Describe,
		QuickN:    3000*2,
		ThoroughN: 150000,
	})
}
