package main

// proto.go - the line protocol shared with the Lean driver (lean/Driver/Proto.lean).
//
//   value ::= n | t | f | #<tag>:<text> | s<hex> | [ value* ] | { (k<hex> value)* }
//
// Canonical printing sorts map entries by the hex of the key (= byte order of the key).

import (
	"encoding/hex"
	"encoding/json"
	"fmt"
	"reflect"
	"sort"
	"strconv"
	"strings"

	mxj "github.com/clbanning/mxj/v2"
)

// asMap views the named map types of mxj as plain maps.
func asMap(v interface{}) (map[string]interface{}, bool) {
	switch m := v.(type) {
	case mxj.Map:
		return map[string]interface{}(m), true
	case mxj.MapSeq:
		return map[string]interface{}(m), true
	}
	return nil, false
}

func hx(s string) string { return hex.EncodeToString([]byte(s)) }

func encStr(s string) string { return "s" + hx(s) }

func decStr(tok string) (string, error) {
	if len(tok) < 1 || tok[0] != 's' {
		return "", fmt.Errorf("bad string token %q", tok)
	}
	b, err := hex.DecodeString(tok[1:])
	return string(b), err
}

// numTok renders a Go number with a type tag; floats use %v exactly as mxj prints them.
func numTok(v interface{}) (string, bool) {
	switch n := v.(type) {
	case float64:
		return fmt.Sprintf("#f:%v", n), true
	case float32:
		return fmt.Sprintf("#f32:%v", n), true
	case int:
		return fmt.Sprintf("#i:%v", n), true
	case int64:
		return fmt.Sprintf("#i64:%v", n), true
	case int32:
		return fmt.Sprintf("#i32:%v", n), true
	case uint64:
		return fmt.Sprintf("#u64:%v", n), true
	case uint:
		return fmt.Sprintf("#u:%v", n), true
	case int8:
		return fmt.Sprintf("#i8:%v", n), true
	case json.Number:
		return "#jn:" + string(n), true
	}
	return "", false
}

// typedTok: #Y map[interface{}]interface{} (string keys), #S map[string]string, #L []string - each
// carrying the hex of the canonical text of the plain value with the same content.
func typedTok(v interface{}) (string, bool) {
	switch x := v.(type) {
	case map[interface{}]interface{}:
		p := map[string]interface{}{}
		for k, e := range x {
			p[fmt.Sprint(k)] = e
		}
		return "#Y:" + hx(enc(p)), true
	case map[string]string:
		p := map[string]interface{}{}
		for k, e := range x {
			p[k] = e
		}
		return "#S:" + hx(enc(p)), true
	case []string:
		p := make([]interface{}, len(x))
		for i, e := range x {
			p[i] = e
		}
		return "#L:" + hx(enc(p)), true
	case []byte:
		return "#B:" + hx(string(x)), true
	}
	return "", false
}

// enc prints a Go value canonically.  Unknown dynamic types are printed as `?<type>` so
// that they can never compare equal to a model value.
func enc(v interface{}) string {
	var sb strings.Builder
	encTo(&sb, v, 0, map[uintptr]bool{})
	return sb.String()
}

// encTo: depth guards against cyclic values (an aliasing defect can make a Map contain itself).
func encTo(sb *strings.Builder, v interface{}, depth int, onPath map[uintptr]bool) {
	if depth > 50000 {
		sb.WriteString("?cyclic-or-too-deep")
		return
	}
	switch x := v.(type) {
	case nil:
		sb.WriteString("n")
	case bool:
		if x {
			sb.WriteString("t")
		} else {
			sb.WriteString("f")
		}
	case string:
		sb.WriteString(encStr(x))
	case []interface{}:
		if x == nil && depth > 0 {
			// a nil list INSIDE a value is not the empty list (it encodes as JSON null, it is not
			// reflect.DeepEqual to []interface{}{}); the models never produce one
			sb.WriteString("?nil-list")
			return
		}
		sb.WriteString("[ ")
		for _, e := range x {
			encTo(sb, e, depth+1, onPath)
			sb.WriteString(" ")
		}
		sb.WriteString("]")
	case map[string]interface{}:
		encMap(sb, x, depth, onPath)
	default:
		if t, ok := numTok(v); ok {
			sb.WriteString(t)
			return
		}
		if mm, isMap := v.(mxj.Map); isMap && depth > 0 {
			// a value of Go type mxj.Map INSIDE a value: the library's walkers switch on
			// map[string]interface{} only, so for them (and for the model) it is an opaque leaf
			var ib strings.Builder
			encMap(&ib, map[string]interface{}(mm), 1, onPath)
			sb.WriteString("#M:" + hx(ib.String()))
			return
		}
		if m, ok := asMap(v); ok {
			encMap(sb, m, depth, onPath)
			return
		}
		// other Go container types a program may put into a Map (a YAML decoder's maps, typed string
		// maps and slices): opaque leaves for the walkers and for the model, printed with their
		// content so that a change inside is seen
		if t, ok := typedTok(v); ok {
			sb.WriteString(t)
			return
		}
		sb.WriteString(fmt.Sprintf("?%T", v))
	}
}

// onPath: maps currently being printed (cycle detection by identity).
func encMap(sb *strings.Builder, x map[string]interface{}, depth int, encOnPath map[uintptr]bool) {
	if x == nil && depth > 0 {
		sb.WriteString("?nil-map")
		return
	}
	id := reflect.ValueOf(x).Pointer()
	if x != nil {
		if encOnPath[id] {
			sb.WriteString("?cycle")
			return
		}
		encOnPath[id] = true
		defer delete(encOnPath, id)
	}
	ks := make([]string, 0, len(x))
	for k := range x {
		ks = append(ks, hx(k))
	}
	sort.Strings(ks)
	sb.WriteString("{ ")
	for _, hk := range ks {
		b, _ := hex.DecodeString(hk)
		sb.WriteString("k" + hk + " ")
		encTo(sb, x[string(b)], depth+1, encOnPath)
		sb.WriteString(" ")
	}
	sb.WriteString("}")
}

func encList(vs []interface{}) string {
	return enc(vs)
}

func encStrList(ss []string) string {
	var sb strings.Builder
	sb.WriteString("[ ")
	for _, s := range ss {
		sb.WriteString(encStr(s) + " ")
	}
	sb.WriteString("]")
	return sb.String()
}

// decVal parses one value from toks starting at *pos.
func decVal(toks []string, pos *int) (interface{}, error) {
	if *pos >= len(toks) {
		return nil, fmt.Errorf("unexpected end of tokens")
	}
	t := toks[*pos]
	*pos++
	switch {
	case t == "n":
		return nil, nil
	case t == "t":
		return true, nil
	case t == "f":
		return false, nil
	case t == "[":
		out := []interface{}{}
		for {
			if *pos >= len(toks) {
				return nil, fmt.Errorf("unterminated list")
			}
			if toks[*pos] == "]" {
				*pos++
				return out, nil
			}
			v, err := decVal(toks, pos)
			if err != nil {
				return nil, err
			}
			out = append(out, v)
		}
	case t == "{":
		out := map[string]interface{}{}
		for {
			if *pos >= len(toks) {
				return nil, fmt.Errorf("unterminated map")
			}
			if toks[*pos] == "}" {
				*pos++
				return out, nil
			}
			kt := toks[*pos]
			*pos++
			if len(kt) < 1 || kt[0] != 'k' {
				return nil, fmt.Errorf("bad key token %q", kt)
			}
			kb, err := hex.DecodeString(kt[1:])
			if err != nil {
				return nil, err
			}
			v, err := decVal(toks, pos)
			if err != nil {
				return nil, err
			}
			out[string(kb)] = v
		}
	case strings.HasPrefix(t, "s"):
		return decStr(t)
	case strings.HasPrefix(t, "#"):
		return decNum(t)
	}
	return nil, fmt.Errorf("bad value token %q", t)
}

func decNum(t string) (interface{}, error) {
	i := strings.Index(t, ":")
	if i < 0 {
		return nil, fmt.Errorf("bad number token %q", t)
	}
	tag, txt := t[1:i], t[i+1:]
	switch tag {
	case "f":
		return strconv.ParseFloat(txt, 64)
	case "i":
		var n int
		_, err := fmt.Sscanf(txt, "%d", &n)
		return n, err
	case "i64":
		var n int64
		_, err := fmt.Sscanf(txt, "%d", &n)
		return n, err
	case "u64":
		var n uint64
		_, err := fmt.Sscanf(txt, "%d", &n)
		return n, err
	case "jn":
		return json.Number(txt), nil
	case "i32":
		n, err := strconv.ParseInt(txt, 10, 32)
		return int32(n), err
	case "f32":
		f, err := strconv.ParseFloat(txt, 32)
		return float32(f), err
	case "u":
		n, err := strconv.ParseUint(txt, 10, 64)
		return uint(n), err
	case "i8":
		n, err := strconv.ParseInt(txt, 10, 8)
		return int8(n), err
	case "B":
		b, err := hex.DecodeString(txt)
		return b, err
	case "Y", "S", "L":
		b, err := hex.DecodeString(txt)
		if err != nil {
			return nil, err
		}
		p := 0
		iv, err := decVal(strings.Fields(string(b)), &p)
		if err != nil {
			return nil, err
		}
		switch tag {
		case "Y":
			o := map[interface{}]interface{}{}
			for k, e := range iv.(map[string]interface{}) {
				o[k] = e
			}
			return o, nil
		case "S":
			o := map[string]string{}
			for k, e := range iv.(map[string]interface{}) {
				o[k], _ = e.(string)
			}
			return o, nil
		default:
			l := iv.([]interface{})
			o := make([]string, len(l))
			for i, e := range l {
				o[i], _ = e.(string)
			}
			return o, nil
		}
	case "M":
		b, err := hex.DecodeString(txt)
		if err != nil {
			return nil, err
		}
		p := 0
		iv, err := decVal(strings.Fields(string(b)), &p)
		if err != nil {
			return nil, err
		}
		im, ok := iv.(map[string]interface{})
		if !ok {
			return nil, fmt.Errorf("bad typed-map token")
		}
		return mxj.Map(im), nil
	}
	return nil, fmt.Errorf("bad number tag %q", tag)
}

// splitTop splits the canonical text of a list `[ a b c ]` into the texts of its members.
func splitTop(list string) ([]string, bool) {
	toks := strings.Fields(list)
	if len(toks) < 2 || toks[0] != "[" || toks[len(toks)-1] != "]" {
		return nil, false
	}
	toks = toks[1 : len(toks)-1]
	var out []string
	depth := 0
	start := 0
	for i, t := range toks {
		switch t {
		case "[", "{":
			depth++
		case "]", "}":
			depth--
		}
		if depth == 0 {
			if len(t) > 0 && t[0] == 'k' && i+1 < len(toks) {
				// key token inside a map is never at depth 0 of a list
			}
			out = append(out, strings.Join(toks[start:i+1], " "))
			start = i + 1
		}
	}
	return out, depth == 0
}

// sortedList returns the canonical text of a list with its members sorted (multiset view).
func sortedList(list string) string {
	ms, ok := splitTop(list)
	if !ok {
		return list
	}
	sort.Strings(ms)
	if len(ms) == 0 {
		return "[ ]"
	}
	return "[ " + strings.Join(ms, " ") + " ]"
}
