package main

// c02.go - XML -> Map -> XML -> Map fixed point (compact and indented encoder) under the
// symmetric option combinations; c03: encoding any JSON-shaped value preserves its data.

import (
	"bytes"
	"encoding/xml"
	"fmt"
	"io"
	"strings"

	mxj "github.com/clbanning/mxj/v2"
)

// wellFormedSingleRoot: the whole byte string tokenises and has exactly one root element.
func wellFormedSingleRoot(b []byte) (bool, string) {
	d := xml.NewDecoder(bytes.NewReader(b))
	depth, roots := 0, 0
	for {
		t, err := d.Token()
		if err == io.EOF {
			break
		}
		if err != nil {
			return false, "not well formed: " + oneLine(err.Error())
		}
		switch t.(type) {
		case xml.StartElement:
			if depth == 0 {
				roots++
			}
			depth++
		case xml.EndElement:
			depth--
		case xml.CharData:
			if depth == 0 && strings.TrimSpace(string(t.(xml.CharData))) != "" {
				return false, "text outside the root element"
			}
		}
	}
	if roots != 1 {
		return false, fmt.Sprintf("%d root elements", roots)
	}
	return true, ""
}

// tokenStream renders a document's tokens, dropping whitespace-only character data.
func tokenStream(b []byte) (string, bool) {
	d := xml.NewDecoder(bytes.NewReader(b))
	var sb strings.Builder
	pendText := ""
	flush := func() {
		// white space around character data is inter-element white space for this comparison
		if t := strings.Trim(pendText, " \t\r\n"); t != "" {
			sb.WriteString("T(" + t + ")")
		}
		pendText = ""
	}
	for {
		t, err := d.RawToken()
		if err == io.EOF {
			flush()
			return sb.String(), true
		}
		if err != nil {
			return "", false
		}
		switch x := t.(type) {
		case xml.StartElement:
			flush()
			sb.WriteString("S(" + x.Name.Space + ":" + x.Name.Local)
			for _, a := range x.Attr {
				sb.WriteString(" " + a.Name.Space + ":" + a.Name.Local + "=" + fmt.Sprintf("%q", a.Value))
			}
			sb.WriteString(")")
		case xml.EndElement:
			flush()
			sb.WriteString("E(" + x.Name.Space + ":" + x.Name.Local + ")")
		case xml.CharData:
			pendText += string(x)
		case xml.Comment:
			flush()
			sb.WriteString("C(" + string(x) + ")")
		case xml.ProcInst:
			flush()
			sb.WriteString("P(" + x.Target + " " + string(x.Inst) + ")")
		case xml.Directive:
			flush()
			sb.WriteString("D(" + string(x) + ")")
		}
	}
}

// xrt deccfg strconv tokens fin esc goEmpty doc indentprefix indent
func c02Exec(op string) string {
	c, _ := newCur(op)
	o := c.decOpt()
	c.val()
	c.val()
	c.pos++
	escEnc := c.boolean()
	goEmpty := c.boolean()
	doc := c.str()
	if c.err != nil {
		return "bad-op " + c.err.Error()
	}
	// the indent strings ride behind the model's arguments as a comment-like tail
	ipre, iind := "", "  "
	if i := strings.Index(op, " ;indent "); i >= 0 {
		f := strings.Fields(op[i+9:])
		if len(f) == 2 {
			ipre, _ = decStr(f[0])
			iind, _ = decStr(f[1])
		}
	}
	o.apply()
	mxj.XMLEscapeChars(escEnc)
	if strings.Contains(op, " ;both ") {
		// both switches requested, encoder first: documented outcome = decoder-side escaping on,
		// encoder-side escaping off (what the model is told)
		mxj.XMLEscapeCharsDecoder(false)
		mxj.XMLEscapeChars(true)
		if strings.Contains(op, " ;both 1") {
			mxj.XMLEscapeCharsDecoder(true)
		} else {
			mxj.XMLEscapeCharsDecoder() // the toggling form
		}
	}
	if goEmpty {
		mxj.XmlGoEmptyElemSyntax()
	}
	bystanders()
	m1, err := mxj.NewMapXml([]byte(doc), o.Cast)
	if err != nil {
		return "dec err " + xmlErrKind(err)
	}
	x, err := m1.Xml()
	if err != nil {
		return "err encode " + oneLine(err.Error())
	}
	notes := []string{}
	if ok, why := wellFormedSingleRoot(x); !ok {
		notes = append(notes, "compact output "+why)
	}
	m2, err := mxj.NewMapXml(x, o.Cast)
	if err != nil {
		notes = append(notes, "re-decoding the compact output failed: "+oneLine(err.Error()))
	} else if enc(m1) != enc(m2) {
		notes = append(notes, "compact round trip is not a fixed point: first "+clip(enc(m1), 300)+" second "+clip(enc(m2), 300))
	}
	xi, err := m1.XmlIndent(ipre, iind)
	if err != nil {
		notes = append(notes, "XmlIndent failed: "+oneLine(err.Error()))
	} else {
		if ok, why := wellFormedSingleRoot(xi); !ok {
			notes = append(notes, "indented output "+why)
		} else {
			m3, err := mxj.NewMapXml(xi, o.Cast)
			if err != nil {
				notes = append(notes, "re-decoding the indented output failed")
			} else if enc(m1) != enc(m3) {
				n := "indented round trip is not a fixed point: first " + clip(enc(m1), 300) + " second " + clip(enc(m3), 300)
				if o.KeepSpace {
					n = "KEEPSPACE " + n
				}
				notes = append(notes, n)
			}
			// indented = compact up to inter-element whitespace
			ts1, ok1 := tokenStream(x)
			ts2, ok2 := tokenStream(xi)
			if ok1 && ok2 && ts1 != ts2 {
				notes = append(notes, "indented and compact token streams differ")
			}
		}
	}
	return "ok " + encStr(string(x)) + " | " + enc(m1) + " | " + strings.Join(notes, "; ")
}

func c02Describe(op string) string {
	c, _ := newCur(op)
	o := c.decOpt()
	c.val()
	c.val()
	c.pos++
	esc := c.boolean()
	ge := c.boolean()
	doc := c.str()
	return fmt.Sprintf("round trip options=%+v encoderEscaping=%v goEmptySyntax=%v doc=%q", o, esc, ge, doc)
}

func c02Judge(op, impl, model string) Verdict {
	v := Verdict{Tags: []string{"xrt"}}
	if strings.HasPrefix(model, "skip-") {
		v.Skipped, v.CorrOK = true, true
		return v
	}
	if strings.HasPrefix(impl, "panic") {
		v.OracleFail = "round trip panicked: " + impl
		v.Sig = "xrt:panic"
		return v
	}
	ip, mp := splitModel(impl), splitModel(model)
	if strings.HasPrefix(impl, "dec err") {
		v.CorrOK = strings.HasPrefix(model, "dec err")
		v.Tags = append(v.Tags, "xrt:undecodable")
		return v
	}
	v.CorrOK = len(mp) >= 2 && len(ip) >= 2 && ip[0] == mp[0] && "ok "+mp[1] == "ok "+ip[1]
	v.Nontrivial = true
	if len(ip) > 2 && ip[2] != "" {
		v.OracleFail = ip[2]
		v.Sig = "xrt:" + strings.Join(strings.Fields(ip[2])[:2], "-")
		if strings.HasPrefix(ip[2], "KEEPSPACE indented round trip") && !strings.Contains(ip[2], "; ") {
			v.Sig = "xrt:keepspace-indent-blank-text"
		}
	}
	return v
}

func c02Gen(r *Rng, n int) []string {
	var ops []string
	for len(ops) < n {
		g := c01Gen0
		g.MultiTextP = 0
		g.Comments = r.P(30)
		root := r.xmlDoc(&g)
		var sb strings.Builder
		r.render(root, &sb)
		doc := sb.String()
		o := r.decOpt(true)
		// symmetric combinations only
		o.SeqNum, o.ToInt = false, false
		if o.AttrPrefix == "" {
			o.AttrPrefix = "-"
		}
		if o.AttrPrefix == o.KeyPrefix {
			o.KeyPrefix = "#"
		}
		if hasNamePrefix(root, o.AttrPrefix) || (o.Lower && hasNamePrefix(root, strings.ToUpper(o.AttrPrefix))) {
			o.AttrPrefix = "-" // element names that begin with the attribute prefix are outside the domain
		}
		o.SkipSet, o.Skip = false, nil
		escEnc := !o.EscDec
		goEmpty := r.P(20)
		toks, fin := tokensOf([]byte(doc), false)
		ipre := r.Pick([]string{"", "", " ", "\t"})
		iind := r.Pick([]string{"  ", " ", "\t", "    ", ""})
		both := 0
		if r.P(12) {
			// decoder-side escaping reached through "both requested": the model sees escDec on,
			// encoder escaping off
			o.EscDec, escEnc = true, false
			both = 1 + r.Intn(2)
			toks, fin = tokensOf([]byte(doc), false)
		}
		line := fmt.Sprintf("xrt %s %s %s %s %d %d %s ;indent %s %s", o.enc(), strconvTable(leafTexts([]byte(doc))), toks, fin, b2i(escEnc), b2i(goEmpty), encStr(doc), encStr(ipre), encStr(iind))
		if both > 0 {
			line += fmt.Sprintf(" ;both %d", both)
		}
		ops = append(ops, line)
	}
	return ops
}

func init() {
	register(&Prop{
		ID:        "C02",
		Rule:      "documents of the C01 generator (one text run per element) decoded under symmetric option combinations (non-empty attribute prefix, key prefixes, lower/snake, as-map, keep-spaces, decoder-side or encoder-side escaping, float/bool casting, Go empty-element syntax), re-encoded compactly and indented (prefix/indent strings of blanks and tabs) and decoded again; non-trivial = the document decoded; distinct = distinct op lines",
		Gen:       c02Gen,
		Exec:      c02Exec,
		Judge:     c02Judge,
		Describe:  c02Describe,
		QuickN:    3000,
		ThoroughN: 150000,
	})
}
