package main

// c02.go - XML -> Map -> XML -> Map fixed point (compact and indented encoder) under the
// symmetric option combinations; c03: encoding any JSON-shaped value preserves its data.

import (
	"bytes"
	"encoding/xml"
	"fmt"
	"io"
	"strings"
	"unicode/utf8"

	mxj "github.com/clbanning/mxj/v2"
)

// wellFormedSingleRoot: the whole byte string tokenises and has exactly one root element.
func wellFormedSingleRoot(b []byte) (bool, string) {
	d := xml.NewDecoder(bytes.NewReader(b))
	depth, roots := 0, 0
	for {
		t, err := d.Token()
		if err == io.EOF {
			break
		}
		if err != nil {
			return false, "not well formed: " + oneLine(err.Error())
		}
		switch t.(type) {
		case xml.StartElement:
			if depth == 0 {
				roots++
			}
			depth++
		case xml.EndElement:
			depth--
		case xml.CharData:
			if depth == 0 && strings.TrimSpace(string(t.(xml.CharData))) != "" {
				return false, "text outside the root element"
			}
		}
	}
	if roots != 1 {
		return false, fmt.Sprintf("%d root elements", roots)
	}
	return true, ""
}

// tokenStream renders a document's tokens, dropping whitespace-only character data.
func tokenStream(b []byte) (string, bool) {
	d := xml.NewDecoder(bytes.NewReader(b))
	var sb strings.Builder
	pendText := ""
	flush := func() {
		// white space around character data is inter-element white space for this comparison
		if t := strings.Trim(pendText, " \t\r\n"); t != "" {
			sb.WriteString("T(" + t + ")")
		}
		pendText = ""
	}
	for {
		t, err := d.RawToken()
		if err == io.EOF {
			flush()
			return sb.String(), true
		}
		if err != nil {
			return "", false
		}
		switch x := t.(type) {
		case xml.StartElement:
			flush()
			sb.WriteString("S(" + x.Name.Space + ":" + x.Name.Local)
			for _, a := range x.Attr {
				sb.WriteString(" " + a.Name.Space + ":" + a.Name.Local + "=" + fmt.Sprintf("%q", a.Value))
			}
			sb.WriteString(")")
		case xml.EndElement:
			flush()
			sb.WriteString("E(" + x.Name.Space + ":" + x.Name.Local + ")")
		case xml.CharData:
			pendText += string(x)
		case xml.Comment:
			flush()
			sb.WriteString("C(" + string(x) + ")")
		case xml.ProcInst:
			flush()
			sb.WriteString("P(" + x.Target + " " + string(x.Inst) + ")")
		case xml.Directive:
			flush()
			sb.WriteString("D(" + string(x) + ")")
		}
	}
}

// xrt deccfg strconv tokens fin esc goEmpty doc indentprefix indent
func c02Exec(op string) string {
	if strings.HasPrefix(op, "xtok ") {
		return xtokExec(op)
	}
	c, _ := newCur(op)
	o := c.decOpt()
	c.val()
	c.val()
	c.pos++
	escEnc := c.boolean()
	goEmpty := c.boolean()
	doc := c.str()
	if c.err != nil {
		return "bad-op " + c.err.Error()
	}
	// the indent strings ride behind the model's arguments as a comment-like tail
	ipre, iind := "", "  "
	if i := strings.Index(op, " ;indent "); i >= 0 {
		f := strings.Fields(op[i+9:])
		if len(f) == 2 {
			ipre, _ = decStr(f[0])
			iind, _ = decStr(f[1])
		}
	}
	o.apply()
	mxj.XMLEscapeChars(escEnc)
	if strings.Contains(op, " ;both ") {
		// both switches requested, encoder first: documented outcome = decoder-side escaping on,
		// encoder-side escaping off (what the model is told)
		mxj.XMLEscapeCharsDecoder(false)
		mxj.XMLEscapeChars(true)
		if strings.Contains(op, " ;both 1") {
			mxj.XMLEscapeCharsDecoder(true)
		} else {
			mxj.XMLEscapeCharsDecoder() // the toggling form
		}
	}
	if goEmpty {
		mxj.XmlGoEmptyElemSyntax()
	}
	bystanders()
	m1, err := mxj.NewMapXml([]byte(doc), o.Cast)
	if err != nil {
		return "dec err " + xmlErrKind(err)
	}
	x, err := m1.Xml()
	if err != nil {
		return "err encode " + oneLine(err.Error())
	}
	notes := []string{}
	if ok, why := wellFormedSingleRoot(x); !ok {
		notes = append(notes, "compact output "+why)
	}
	m2, err := mxj.NewMapXml(x, o.Cast)
	if err != nil {
		notes = append(notes, "re-decoding the compact output failed: "+oneLine(err.Error()))
	} else if enc(m1) != enc(m2) {
		notes = append(notes, "compact round trip is not a fixed point: first "+clip(enc(m1), 300)+" second "+clip(enc(m2), 300))
	}
	xi, err := m1.XmlIndent(ipre, iind)
	if err != nil {
		notes = append(notes, "XmlIndent failed: "+oneLine(err.Error()))
	} else {
		if ok, why := wellFormedSingleRoot(xi); !ok {
			notes = append(notes, "indented output "+why)
		} else {
			m3, err := mxj.NewMapXml(xi, o.Cast)
			if err != nil {
				notes = append(notes, "re-decoding the indented output failed")
			} else if enc(m1) != enc(m3) {
				n := "indented round trip is not a fixed point: first " + clip(enc(m1), 300) + " second " + clip(enc(m3), 300)
				if o.KeepSpace {
					n = "KEEPSPACE " + n
				}
				notes = append(notes, n)
			}
			// indented = compact up to inter-element whitespace
			ts1, ok1 := tokenStream(x)
			ts2, ok2 := tokenStream(xi)
			if ok1 && ok2 && ts1 != ts2 {
				notes = append(notes, "indented and compact token streams differ")
			}
		}
	}
	// 4th field: what the real tokenizer makes of the compact output (compared with the model
	// tokenizer's tokens of the model's bytes: theorem C02_tok_law says they are the tree's tokens)
	return "ok " + encStr(string(x)) + " | " + enc(m1) + " | " + strings.Join(notes, "; ") + " | " + refTokens(x)
}

func c02Describe(op string) string {
	if strings.HasPrefix(op, "xtok ") {
		c, _ := newCur(op)
		return fmt.Sprintf("tokenizer model vs encoding/xml on doc=%q", c.str())
	}
	c, _ := newCur(op)
	o := c.decOpt()
	c.val()
	c.val()
	c.pos++
	esc := c.boolean()
	ge := c.boolean()
	doc := c.str()
	return fmt.Sprintf("round trip options=%+v encoderEscaping=%v goEmptySyntax=%v doc=%q", o, esc, ge, doc)
}

func c02Judge(op, impl, model string) Verdict {
	if strings.HasPrefix(op, "xtok ") {
		return xtokJudge(op, impl, model)
	}
	v := Verdict{Tags: []string{"xrt"}}
	if strings.HasPrefix(model, "skip-") {
		v.Skipped, v.CorrOK = true, true
		return v
	}
	if strings.HasPrefix(impl, "panic") {
		v.OracleFail = "round trip panicked: " + impl
		v.Sig = "xrt:panic"
		return v
	}
	ip, mp := splitModel(impl), splitModel(model)
	if strings.HasPrefix(impl, "dec err") {
		v.CorrOK = strings.HasPrefix(model, "dec err")
		v.Tags = append(v.Tags, "xrt:undecodable")
		return v
	}
	v.CorrOK = len(mp) >= 2 && len(ip) >= 2 && ip[0] == mp[0] && "ok "+mp[1] == "ok "+ip[1]
	v.Nontrivial = true
	// the model tokenizer on the (identical) compact bytes against the real tokenizer
	if v.CorrOK && len(ip) > 3 {
		switch {
		case strings.HasPrefix(ip[3], "tokskip"):
			v.Tags = append(v.Tags, "xrt:tok-skip")
		case len(mp) > 2:
			v.Tags = append(v.Tags, "xrt:tok")
			if ip[3] == "tok err" {
				v.Tags = append(v.Tags, "xrt:tok-err")
			}
			if ip[3] != mp[2] {
				v.CorrOK = false
				v.Tags = append(v.Tags, "xrt:tok-differs")
			}
		default:
			v.CorrOK = false
		}
	}
	if len(ip) > 2 && ip[2] != "" {
		v.OracleFail = ip[2]
		v.Sig = "xrt:" + strings.Join(strings.Fields(ip[2])[:2], "-")
		if strings.HasPrefix(ip[2], "KEEPSPACE indented round trip") && !strings.Contains(ip[2], "; ") {
			v.Sig = "xrt:keepspace-indent-blank-text"
		}
	}
	return v
}

func c02Gen(r *Rng, n int) []string {
	var ops []string
	for len(ops) < n {
		g := c01Gen0
		g.MultiTextP = 0
		g.Comments = r.P(30)
		root := r.xmlDoc(&g)
		var sb strings.Builder
		r.render(root, &sb)
		doc := sb.String()
		o := r.decOpt(true)
		// symmetric combinations only
		o.SeqNum, o.ToInt = false, false
		if o.AttrPrefix == "" {
			o.AttrPrefix = "-"
		}
		if o.AttrPrefix == o.KeyPrefix {
			o.KeyPrefix = "#"
		}
		if hasNamePrefix(root, o.AttrPrefix) || (o.Lower && hasNamePrefix(root, strings.ToUpper(o.AttrPrefix))) {
			o.AttrPrefix = "-" // element names that begin with the attribute prefix are outside the domain
		}
		o.SkipSet, o.Skip = false, nil
		escEnc := !o.EscDec
		goEmpty := r.P(20)
		toks, fin := tokensOf([]byte(doc), false)
		ipre := r.Pick([]string{"", "", " ", "\t"})
		iind := r.Pick([]string{"  ", " ", "\t", "    ", ""})
		both := 0
		if r.P(12) {
			// decoder-side escaping reached through "both requested": the model sees escDec on,
			// encoder escaping off
			o.EscDec, escEnc = true, false
			both = 1 + r.Intn(2)
			toks, fin = tokensOf([]byte(doc), false)
		}
		line := fmt.Sprintf("xrt %s %s %s %s %d %d %s ;indent %s %s", o.enc(), strconvTable(leafTexts([]byte(doc))), toks, fin, b2i(escEnc), b2i(goEmpty), encStr(doc), encStr(ipre), encStr(iind))
		if both > 0 {
			line += fmt.Sprintf(" ;both %d", both)
		}
		ops = append(ops, line)
		// the same document (varied surface syntax: both quote styles, references, CDATA,
		// comments, PIs, prefixes) through the tokenizer model alone; one in five damaged
		if len(ops) < n && r.P(30) {
			d := []byte(doc)
			if r.P(20) && len(d) > 0 {
				const junk = "<>&\"'/= ]-?!;#x\r"
				for k := 1 + r.Intn(2); k > 0; k-- {
					d[r.Intn(len(d))] = junk[r.Intn(len(junk))]
				}
			}
			ops = append(ops, "xtok "+encStr(string(d)))
		}
	}
	return ops
}

// ---- the tokenizer model (lean/Mxj/Model/Tokenizer.lean; C02_tok_law, C02_tok_law_raw) against
// encoding/xml.  Canonical token syntax = the one tokensOf uses to hand real tokens to the model.

// allTokens: every token until EOF (raw: RawToken, else Token - Strict as xml.NewDecoder and the
// library leave it).
func allTokens(doc []byte, raw bool) ([]xml.Token, error) {
	d := xml.NewDecoder(bytes.NewReader(doc))
	var out []xml.Token
	for {
		var t xml.Token
		var err error
		if raw {
			t, err = d.RawToken()
		} else {
			t, err = d.Token()
		}
		if err == io.EOF {
			return out, nil
		}
		if err != nil {
			return out, err
		}
		out = append(out, xml.CopyToken(t))
	}
}

func encTokens(toks []xml.Token) string {
	var sb strings.Builder
	sb.WriteString("[ ")
	for _, t := range toks {
		switch x := t.(type) {
		case xml.StartElement:
			var as []XAttr
			for _, a := range x.Attr {
				as = append(as, XAttr{Space: a.Name.Space, Name: a.Name.Local, Value: a.Value})
			}
			sb.WriteString("[ " + encStr("S") + " " + encStr(x.Name.Space) + " " + encStr(x.Name.Local) + " " + encAttrs(as) + " ] ")
		case xml.EndElement:
			sb.WriteString("[ " + encStr("E") + " " + encStr(x.Name.Space) + " " + encStr(x.Name.Local) + " ] ")
		case xml.CharData:
			sb.WriteString("[ " + encStr("T") + " " + encStr(string(x)) + " ] ")
		case xml.Comment:
			sb.WriteString("[ " + encStr("C") + " " + encStr(string(x)) + " ] ")
		case xml.ProcInst:
			sb.WriteString("[ " + encStr("P") + " " + encStr(x.Target) + " " + encStr(string(x.Inst)) + " ] ")
		case xml.Directive:
			sb.WriteString("[ " + encStr("D") + " " + encStr(string(x)) + " ] ")
		}
	}
	sb.WriteString("]")
	return sb.String()
}

func isASCII(s string) bool {
	for i := 0; i < len(s); i++ {
		if s[i] >= 0x80 {
			return false
		}
	}
	return true
}

// tokModelSupports is the explicit predicate "inside the subset the tokenizer model claims":
// valid UTF-8, no directive (<!DOCTYPE ...>), no xml declaration the decoder rejects for its
// version/encoding, ASCII names.  (raw = the RawToken stream, rerr its error.)
func tokModelSupports(doc []byte, raw []xml.Token, rerr error) (bool, string) {
	if !utf8.Valid(doc) {
		return false, "invalid-utf8"
	}
	for i := 0; i+1 < len(doc); i++ {
		if doc[i] == '<' && doc[i+1] == '!' && !bytes.HasPrefix(doc[i+2:], []byte("--")) && !bytes.HasPrefix(doc[i+2:], []byte("[CDATA[")) {
			return false, "directive"
		}
	}
	if rerr != nil && (strings.Contains(rerr.Error(), "unsupported version") || strings.Contains(rerr.Error(), "xml: encoding")) {
		return false, "xml-declaration"
	}
	for _, t := range raw {
		switch x := t.(type) {
		case xml.Directive:
			return false, "directive"
		case xml.StartElement:
			if !isASCII(x.Name.Space + x.Name.Local) {
				return false, "non-ascii-name"
			}
			for _, a := range x.Attr {
				if !isASCII(a.Name.Space + a.Name.Local) {
					return false, "non-ascii-name"
				}
			}
		case xml.EndElement:
			if !isASCII(x.Name.Space + x.Name.Local) {
				return false, "non-ascii-name"
			}
		case xml.ProcInst:
			if !isASCII(x.Target) {
				return false, "non-ascii-name"
			}
		}
	}
	return true, ""
}

// nsFree: no prefix and no xmlns attribute anywhere - Token() then translates nothing.
func nsFree(raw []xml.Token) bool {
	for _, t := range raw {
		switch x := t.(type) {
		case xml.StartElement:
			if x.Name.Space != "" {
				return false
			}
			for _, a := range x.Attr {
				if a.Name.Space != "" || a.Name.Local == "xmlns" {
					return false
				}
			}
		case xml.EndElement:
			if x.Name.Space != "" {
				return false
			}
		}
	}
	return true
}

// refTokens: what the model tokenizer has to reproduce for these bytes - "tok <tokens>",
// "tok err" or "tokskip <why>".  Reference = Decoder.Token() when the document uses no name-space
// syntax (Token then differs from RawToken only by checking the nesting, which the model does
// not; if that check fails the RawToken stream is the reference), else Decoder.RawToken():
// the model hands over prefixes untranslated, as RawToken does.
func refTokens(doc []byte) string {
	raw, rerr := allTokens(doc, true)
	if ok, why := tokModelSupports(doc, raw, rerr); !ok {
		return "tokskip " + why
	}
	if rerr != nil {
		return "tok err"
	}
	ref := raw
	if nsFree(raw) {
		if tk, terr := allTokens(doc, false); terr == nil {
			ref = tk
		}
	}
	return "tok " + encTokens(ref)
}

// xtok doc
func xtokExec(op string) string {
	c, _ := newCur(op)
	doc := c.str()
	if c.err != nil {
		return "bad-op " + c.err.Error()
	}
	return refTokens([]byte(doc))
}

func xtokJudge(op, impl, model string) Verdict {
	v := Verdict{Tags: []string{"xtok"}}
	if strings.HasPrefix(model, "skip-") || strings.HasPrefix(impl, "tokskip") {
		v.Skipped, v.CorrOK = true, true
		v.Tags = append(v.Tags, "xtok:skip")
		return v
	}
	v.CorrOK = impl == model
	if impl == "tok err" {
		v.Tags = append(v.Tags, "xtok:err")
	} else {
		v.Nontrivial = true
	}
	return v
}

// fixed documents for the tokenizer model: every construct it claims, and strict-mode errors
func c02Fixed() []string {
	docs := []string{
		`<a x=" 1 "><b>t&lt;u</b><b/><c k='v"'>w<d/></c></a>`,
		"<?xml version=\"1.0\" encoding=\"UTF-8\"?>\n<!-- c - d --><p:a xmlns:p=\"urn:p\" p:k = \"v\"\n><![CDATA[x<&]]>]]&gt;\r\ny\rz&#13;\n</p:a >",
		`<a></a><b/>tail`, `<a k="&#x41;&#66;&amp;&apos;&quot;">&#x10FFFF;</a>`,
		`<a>]]></a>`, `<a k="]]>"/>`, `<a k="<"/>`, `<a k=v/>`, `<a k/>`, `<a>&x;</a>`, `<a>&#0;</a>`, `<a>&#xD800;</a>`,
		`<a:b:c/>`, `<:a/>`, `<a:/>`, `<1a/>`, `<a/ >`, `</a/>`, `<a><!-- -- --></a>`, `<!--->`, `<!---->`, `<?p?>`, `<? p?>`,
		`<![CDATA[]]]>`, `<![CDATA[a]]`, `<a b="1"c="2"/>`, "<a\tb\r=\n'1'/>", "<a>\x01</a>", `<a`, `<a k="v`, `x`, ``,
		`<a xmlns="urn:d"><b/></a>`, `<a><b></a></b>`, `<a>`,
	}
	var ops []string
	for _, d := range docs {
		ops = append(ops, "xtok "+encStr(d))
	}
	return ops
}

func init() {
	register(&Prop{
		ID:        "C02",
		Rule:      "documents of the C01 generator (one text run per element) decoded under symmetric option combinations (non-empty attribute prefix, key prefixes, lower/snake, as-map, keep-spaces, decoder-side or encoder-side escaping, float/bool casting, Go empty-element syntax), re-encoded compactly and indented (prefix/indent strings of blanks and tabs) and decoded again; the compact output, and three in ten of the generated documents (one in five of those damaged), also go through the tokenizer model and are compared token by token with encoding/xml inside the model's subset (no directive, ASCII names); non-trivial = the document decoded / the real tokenizer accepted; distinct = distinct op lines",
		Gen:       c02Gen,
		Exec:      c02Exec,
		Judge:     c02Judge,
		Describe:  c02Describe,
		Fixed:     c02Fixed,
		QuickN:    3000,
		ThoroughN: 150000,
	})
}
