package main

// c17.go - read-only operations leave their receiver deeply equal; Copy shares no mutable
// structure; concurrent decode/encode/query gives the results of sequential execution
// (the thorough tier runs the same stress under the race detector).

import (
	"bytes"
	"fmt"
	"sort"
	"strings"
	"sync"

	mxj "github.com/clbanning/mxj/v2"
)

// readOnlyBattery runs every read-only operation on m and returns a digest of the results.
func readOnlyBattery(m map[string]interface{}, path, key string, subs ...string) string {
	mv := mxj.Map(m)
	var parts []string
	add := func(s string) { parts = append(parts, s) }
	if len(subs) > 0 {
		// the sub-key forms of the queries (their filters work on the slices being returned)
		vs, err := mv.ValuesForKey(key, subs...)
		add(sortedList(encList(vs)) + fmt.Sprint(err != nil))
		vs, err = mv.ValuesForPath(path, subs...)
		add(sortedList(encList(vs)) + fmt.Sprint(err != nil))
		ex, _ := mv.Exists(path, subs...)
		add(fmt.Sprint(ex))
	}
	vs, err := mv.ValuesForKey(key)
	add(sortedList(encList(vs)) + fmt.Sprint(err != nil))
	vs, err = mv.ValuesForPath(path)
	add(sortedList(encList(vs)) + fmt.Sprint(err != nil))
	_, err = mv.ValueForPath(path)
	add(fmt.Sprint(err != nil))
	ps := mv.PathsForKey(key)
	sort.Strings(ps)
	add(strings.Join(ps, ","))
	add(fmt.Sprint(len(strings.Split(mv.PathForKeyShortest(key), "."))))
	ex, _ := mv.Exists(path)
	add(fmt.Sprint(ex))
	ln := mv.LeafNodes()
	add(fmt.Sprint(len(ln), len(mv.LeafPaths()), len(mv.LeafValues(true))))
	el, _ := mv.Elements(path)
	at, _ := mv.Attributes(path)
	if !strings.Contains(path, "*") {
		// Elements/Attributes describe the FIRST value of the path; under a wildcard which value
		// is first depends on Go's map iteration order, so the result is not a function of the Map
		add(strings.Join(el, ",") + "|" + strings.Join(at, ","))
	}
	rt, _ := mv.Root()
	add(rt)
	x, err := mv.Xml()
	add(string(x) + fmt.Sprint(err != nil))
	xi, err := mv.XmlIndent("", " ")
	add(string(xi) + fmt.Sprint(err != nil))
	j, err := mv.Json()
	add(string(j) + fmt.Sprint(err != nil))
	ji, err := mv.JsonIndent("", " ", true)
	add(string(ji) + fmt.Sprint(err != nil))
	g, err := mv.Gob()
	add(fmt.Sprint(len(g) > 0, err != nil))
	add(mv.StringIndent(1))
	add(mv.StringIndentNoTypeInfo())
	ax, err := mxj.AnyXml(m, "r", "e")
	add(string(ax) + fmt.Sprint(err != nil))
	return strings.Join(parts, "\x1f")
}

// keptResults: the bytes an encoder returned must not change when an encoder is called again
// (no scratch buffer shared between calls).  a and b are different Maps of similar size.
func keptResults(a, b map[string]interface{}) string {
	type encf struct {
		name string
		f    func(m map[string]interface{}) []byte
	}
	encs := []encf{
		{"Xml", func(m map[string]interface{}) []byte { x, _ := mxj.Map(m).Xml(); return x }},
		{"XmlIndent", func(m map[string]interface{}) []byte { x, _ := mxj.Map(m).XmlIndent("", " "); return x }},
		{"Json", func(m map[string]interface{}) []byte { x, _ := mxj.Map(m).Json(); return x }},
		{"JsonIndent", func(m map[string]interface{}) []byte { x, _ := mxj.Map(m).JsonIndent("", " "); return x }},
		{"Gob", func(m map[string]interface{}) []byte { x, _ := mxj.Map(m).Gob(); return x }},
		{"AnyXml", func(m map[string]interface{}) []byte { x, _ := mxj.AnyXml(m, "r", "e"); return x }},
		{"AnyXmlIndent", func(m map[string]interface{}) []byte { x, _ := mxj.AnyXmlIndent(m, "", " ", "r", "e"); return x }},
		// the Raw Writer forms hand the encoded bytes back as well
		{"JsonWriterRaw", func(m map[string]interface{}) []byte {
			var w bytes.Buffer
			x, _ := mxj.Map(m).JsonWriterRaw(&w)
			return x
		}},
		{"JsonIndentWriterRaw", func(m map[string]interface{}) []byte {
			var w bytes.Buffer
			x, _ := mxj.Map(m).JsonIndentWriterRaw(&w, "", " ")
			return x
		}},
	}
	for _, e := range encs {
		e.f(b) // (a recycled buffer is then large enough for what follows: nothing below re-allocates it)
		x := e.f(a)
		kept := string(x)
		e.f(b)
		e.f(a)
		if string(x) != kept {
			return "the bytes returned by " + e.name + " changed during later encoder calls"
		}
	}
	return ""
}

// scribble changes every map and list of v in place.
func scribble(v interface{}) {
	switch x := v.(type) {
	case map[string]interface{}:
		for _, e := range x {
			scribble(e)
		}
		x["__scribble__"] = true
	case []interface{}:
		for i, e := range x {
			scribble(e)
			switch e.(type) {
			case map[string]interface{}, []interface{}:
			default:
				x[i] = "__scribble__"
			}
		}
	}
}

func c17Exec(op string) string {
	c, _ := newCur(op)
	c.pos += 1 // "readonly"
	m := c.mapVal()
	path := c.str()
	key := c.str()
	doc := c.str()
	var subs []string
	if c.pos < len(c.toks) {
		subs = c.strList()
	}
	if c.err != nil {
		return "bad-op " + c.err.Error()
	}
	notes := []string{}
	if len(op)%3 == 0 {
		internShared(m)
	}
	before := deepCopy(m)
	readOnlyBattery(m, path, key, subs...)
	if !deepEq(before, m) {
		notes = append(notes, "a read-only operation modified its receiver")
	}
	if len(op)%4 == 0 {
		// the same with some containers of other Go types (mxj.Map, a YAML decoder's
		// map[interface{}]interface{}, map[string]string, []string): whatever the operations make of
		// them - an error included - they do not write into the receiver
		tm := retype(m, hashStr(op), "MYSL", 0).(map[string]interface{})
		tb := deepCopy(tm)
		readOnlyBattery(tm, path, key, subs...)
		if !deepEq(tb, tm) {
			notes = append(notes, "a read-only operation modified its receiver (a Map holding containers of other Go types)")
		}
	}
	other := deepCopy(m).(map[string]interface{})
	other["zz"] = "other"
	for k, v := range other {
		if sv, ok := v.(string); ok {
			other[k] = sv + "!"
		}
	}
	if note := keptResults(m, other); note != "" {
		notes = append(notes, note)
	}
	// value lists / path lists / leaf lists returned by one query stay what they were while other
	// queries run (no result buffer shared between calls)
	{
		mv := mxj.Map(m)
		r1, _ := mv.ValuesForPath(path)
		r2, _ := mv.ValuesForKey(key)
		r3 := mv.PathsForKey(key)
		r4 := mv.LeafNodes()
		k1, k2, k3, k4 := enc(r1), enc(r2), strings.Join(r3, ","), fmt.Sprint(r4)
		mv.ValuesForPath("*")
		mv.ValuesForPath(path + ".zz")
		mv.ValuesForKey("a")
		mv.ValuesForKey("zz")
		mv.PathsForKey("a")
		mv.LeafNodes()
		mxj.Map(other).ValuesForPath(path)
		mxj.Map(other).LeafNodes()
		if enc(r1) != k1 || enc(r2) != k2 || strings.Join(r3, ",") != k3 || fmt.Sprint(r4) != k4 {
			notes = append(notes, "KEPTVALUES a result list returned by a query changed while later queries ran")
		}
	}
	// Copy: equal, and sharing nothing mutable
	cp, err := mxj.Map(m).Copy()
	if err == nil {
		scribble(map[string]interface{}(cp))
		if !deepEq(before, m) {
			notes = append(notes, "modifying the Copy modified the original")
		}
	}
	// MapSeq forms
	if ms, err := mxj.NewMapXmlSeq([]byte(doc)); err == nil {
		b2 := deepCopy(map[string]interface{}(ms))
		x1, _ := ms.Xml()
		k1 := string(x1)
		x2, _ := ms.XmlIndent("", " ")
		k2 := string(x2)
		ms.StringIndent()
		if ms2, err2 := mxj.NewMapXmlSeq([]byte("<other_root>" + doc + "</other_root>")); err2 == nil {
			ms2.Xml()
			ms2.XmlIndent("", " ")
		}
		if string(x1) != k1 || string(x2) != k2 {
			notes = append(notes, "the bytes returned by a MapSeq encoder changed during later encoder calls")
		}
		// the same MapSeq after a JSON round trip (sequence numbers are float64 then)
		if j, jerr := mxj.Map(ms).Json(); jerr == nil {
			if mj, derr := mxj.NewMapJson(j); derr == nil {
				b3 := deepCopy(map[string]interface{}(mj))
				mxj.MapSeq(mj).Xml()
				mxj.MapSeq(mj).XmlIndent("", " ")
				if !deepEq(b3, map[string]interface{}(mj)) {
					notes = append(notes, "a MapSeq encoder modified its receiver (a MapSeq that went through JSON)")
				}
			}
		}
		if !deepEq(b2, map[string]interface{}(ms)) {
			notes = append(notes, "a MapSeq encoder modified its receiver")
		}
	}
	return "ok | " + strings.Join(notes, "; ")
}

func c17Describe(op string) string {
	c, _ := newCur(op)
	c.pos++
	m := c.mapVal()
	path := c.str()
	key := c.str()
	c.str()
	var subs []string
	if c.pos < len(c.toks) {
		subs = c.strList()
	}
	return fmt.Sprintf("all read-only operations on map=%s path=%q key=%q subkeys=%q, then Copy + scribble", jsonOf(m), path, key, subs)
}

func c17Judge(op, impl, model string) Verdict {
	v := Verdict{Tags: []string{"readonly"}, CorrOK: true, Nontrivial: true}
	if strings.HasPrefix(impl, "panic") {
		v.OracleFail = "a read-only operation panicked: " + impl
		v.Sig = "readonly:panic"
		return v
	}
	ip := splitModel(impl)
	if len(ip) > 1 && ip[1] != "" {
		v.OracleFail = ip[1]
		v.Sig = "readonly:" + strings.Join(strings.Fields(ip[1])[:3], "-")
	}
	return v
}

func c17Gen(r *Rng, n int) []string {
	var ops []string
	for len(ops) < n {
		cfg := jsonShape
		cfg.Keys = keyAlpha
		cfg.WideP = 1
		cfg.ListInList = r.P(40)
		m := r.RootMap(&cfg)
		path := r.DerivedPath(m, true, 3)
		var subs []string
		if r.P(50) {
			subs = genSubkeys(r, m, ":")
		}
		if r.P(20) {
			// records with an identifying member under (possibly indexed) list-valued keys; the
			// sub-key condition rejects some members and accepts others, in every position
			n := 2 + r.Intn(4)
			recs := func() []interface{} {
				var l []interface{}
				for i := 0; i < n; i++ {
					l = append(l, map[string]interface{}{"id": fmt.Sprint(i % 3), "v": r.Pick(strAlpha)})
				}
				return l
			}
			m = map[string]interface{}{"a": []interface{}{map[string]interface{}{"parts": recs(), "k": "x"}, map[string]interface{}{"parts": recs()}}, "parts": recs()}
			path = r.Pick([]string{"a[0].parts", "a[1].parts", "a.parts", "parts", "a[0].parts[1]", "*.parts", "a[0].*", "a.*"})
			subs = []string{r.Pick([]string{"id:0", "id:1", "id:2", "!id:0", "id:*", "v:x"})}
		}
		g := c01Gen0
		g.SeqShape = true
		g.MaxDepth = 2
		var sb strings.Builder
		r.render(r.xmlDoc(&g), &sb)
		ops = append(ops, fmt.Sprintf("implonly readonly %s %s %s %s %s", enc(m), encStr(path), encStr(r.Pick(keyAlpha)), encStr(sb.String()), encStrList(subs)))
	}
	return ops
}

// c17Stress: goroutines decode / encode / query a shared read-only Map and private Maps; every
// goroutine must see exactly the sequential results.  Built with -race in the thorough tier.
func c17Stress(r *Rng, tier string, res *Result) {
	rounds := 6
	if tier == "thorough" {
		rounds = 40
	}
	for round := 0; round < rounds; round++ {
		cfg := jsonShape
		cfg.Keys = keyAlpha
		shared := r.RootMap(&cfg)
		path := r.DerivedPath(shared, true, 3)
		key := r.Pick(keyAlpha)
		subs := genSubkeys(r, shared, ":")
		g := c01Gen0
		g.MaxDepth = 2
		var sb strings.Builder
		r.render(r.xmlDoc(&g), &sb)
		doc := []byte(sb.String())
		// every other round runs under options that were set ONCE beforehand ("package options
		// left alone" = not changed while the goroutines run)
		if round%2 == 1 {
			o := r.decOpt(false)
			o.KeepSpace = o.KeepSpace || r.Bool()
			o.apply()
		}
		seqWork := func() string {
			bx, _ := mxj.BeautifyXml(doc, "", " ")
			m, err := mxj.NewMapXml(doc)
			s := fmt.Sprint(err != nil)
			if err == nil {
				x, _ := m.Xml()
				j, _ := m.Json()
				s += string(x) + string(j)
			}
			ms, err := mxj.NewMapXmlSeq(doc)
			if err == nil {
				x, _ := ms.Xml()
				s += string(x)
			}
			return s + string(bx) + readOnlyBattery(shared, path, key, subs...)
		}
		want := seqWork()
		const workers = 8
		got := make([]string, workers)
		var wg sync.WaitGroup
		for w := 0; w < workers; w++ {
			wg.Add(1)
			go func(w int) {
				defer wg.Done()
				defer func() {
					if e := recover(); e != nil {
						got[w] = "panic " + fmt.Sprint(e)
					}
				}()
				got[w] = seqWork()
			}(w)
		}
		wg.Wait()
		resetOptions()
		res.ImplOnly += workers
		for w := 0; w < workers; w++ {
			if got[w] != want {
				gp, wp := strings.Split(got[w], "\x1f"), strings.Split(want, "\x1f")
				di := 0
				for di < len(gp) && di < len(wp) && gp[di] == wp[di] {
					di++
				}
				gd, wd := "", ""
				if di < len(gp) {
					gd = gp[di]
				}
				if di < len(wp) {
					wd = wp[di]
				}
				f := Failure{Op: "implonly stress", Desc: fmt.Sprintf("concurrent round %d worker %d on shared map=%s doc=%q path=%q key=%q subkeys=%q; battery part %d differs", round, w, jsonOf(shared), doc, path, key, subs, di), Impl: clip(gd, 600), Model: clip(wd, 600), Reason: "a goroutine saw results different from sequential execution", Sig: "stress:differs"}
				res.OracleFails = append(res.OracleFails, f)
				return
			}
		}
	}
}

func init() {
	register(&Prop{
		ID:        "C17",
		Rule:      "Maps over the full key alphabet and MapSeqs decoded from generated documents; every read-only operation (ValuesFor*/PathsFor*/Leaf*/Exists/Elements/Attributes/Root, XML/JSON/gob encoders, AnyXml, StringIndent, Copy) is run between a deep copy and a deep comparison of the receiver; the Copy is scribbled over and the original compared again; goroutine stress (8 workers x rounds) over a shared Map and private documents compared with sequential results (under -race in the thorough tier); non-trivial = every case; distinct = distinct op lines",
		Gen:       c17Gen,
		Exec:      c17Exec,
		Judge:     c17Judge,
		Describe:  c17Describe,
		QuickN:    3000,
		ThoroughN: 100000,
		Extra:     c17Stress,
	})
}
