module mxjverif

go 1.23

require github.com/clbanning/mxj/v2 v2.7.0

replace github.com/clbanning/mxj/v2 => /repo
