package main

// c10.go - UpdateValuesForPath versus Mxj.Model.Update, plus implementation-only oracles:
// count 0 => untouched; every changed position holds the new value under the new key;
// the query agrees with the count.

import (
	"math"
	"fmt"
	"strconv"
	"strings"

	mxj "github.com/clbanning/mxj/v2"
)

func updErrKind(err error) string {
	s := err.Error()
	switch {
	case strings.HasPrefix(s, "newVal map can only have len == 1"):
		return "newValLen"
	case strings.HasPrefix(s, "unknown newVal spec"):
		return "newValSpec"
	case strings.HasPrefix(s, "can't convert newVal to bool"):
		return "newValBool"
	case strings.HasPrefix(s, "can't convert newVal to float64"):
		return "newValFloat"
	case strings.HasPrefix(s, "unknown type for newVal value"), strings.HasPrefix(s, "invalid newVal type"):
		return "newValType"
	}
	return errKindOf(err)
}

type change struct {
	loc  []string // keys and "[i]" members
	now  interface{}
	kind string // "changed", "added", "removed"
}

// diffVals collects the positions where after differs from before.  A position stored under
// `key` that now holds exactly `value` is one replacement (it is not descended into).
func diffVals(before, after interface{}, loc []string, out *[]change, key string, value interface{}) {
	if n := len(loc); n > 0 && !deepEq(before, after) && deepEq(after, value) {
		last := loc[n-1]
		if last == key || (strings.HasPrefix(last, "[") && n >= 2 && loc[n-2] == key) {
			*out = append(*out, change{append([]string{}, loc...), after, "changed"})
			return
		}
	}
	switch b := before.(type) {
	case map[string]interface{}:
		a, ok := after.(map[string]interface{})
		if !ok {
			*out = append(*out, change{append([]string{}, loc...), after, "changed"})
			return
		}
		for k, bv := range b {
			av, present := a[k]
			if !present {
				*out = append(*out, change{append(append([]string{}, loc...), k), nil, "removed"})
				continue
			}
			diffVals(bv, av, append(loc, k), out, key, value)
		}
		for k, av := range a {
			if _, present := b[k]; !present {
				*out = append(*out, change{append(append([]string{}, loc...), k), av, "added"})
			}
		}
	case []interface{}:
		a, ok := after.([]interface{})
		if !ok || len(a) != len(b) {
			*out = append(*out, change{append([]string{}, loc...), after, "changed"})
			return
		}
		for i := range b {
			diffVals(b[i], a[i], append(loc, fmt.Sprintf("[%d]", i)), out, key, value)
		}
	default:
		if !deepEq(before, after) {
			*out = append(*out, change{append([]string{}, loc...), after, "changed"})
		}
	}
}

func c10Exec(op string) string {
	c, _ := newCur(op)
	sep := c.str()
	m := c.mapVal()
	nv := c.val()
	path := c.str()
	subs := c.strList()
	if c.err != nil {
		return "bad-op " + c.err.Error()
	}
	mxj.SetFieldSeparator(sep)
	before := deepCopy(m)
	var key string
	var value interface{}
	haveKV := false
	if nm, ok := nv.(map[string]interface{}); ok && len(nm) == 1 {
		for k, v := range nm {
			key, value, haveKV = k, v, true
		}
	}
	if sv, ok := nv.(string); ok {
		// the string form "key<sep>value" stands for {key: value} with the value taken verbatim
		if parts := strings.Split(sv, sep); len(parts) == 2 && parts[0] != "" {
			key, value, haveKV = parts[0], parts[1], true
		}
	}
	cnt, err := mxj.Map(m).UpdateValuesForPath(nv, path, subs...)
	if err != nil {
		note := ""
		if !deepEq(before, m) {
			note = "error returned but the Map was modified"
		} else if cnt != 0 {
			note = fmt.Sprintf("ERRCOUNT an error was returned together with the count %d", cnt)
		}
		return "err " + updErrKind(err) + " | " + note
	}
	note := ""
	var ch []change
	diffVals(before, m, nil, &ch, key, value)
	switch {
	case cnt == 0 && len(ch) > 0:
		note = fmt.Sprintf("count 0 but %d positions changed (first %v)", len(ch), ch[0].loc)
	case len(ch) > cnt:
		note = fmt.Sprintf("count %d but %d positions changed", cnt, len(ch))
	}
	if note == "" && haveKV {
		for _, x := range ch {
			if x.kind != "changed" {
				note = fmt.Sprintf("an entry was %s at %v", x.kind, x.loc)
				break
			}
			if !deepEq(x.now, value) {
				note = fmt.Sprintf("position %v changed to something else than the new value", x.loc)
				break
			}
			// the changed position is the entry `key`, or a member of the list stored under `key`
			last := x.loc[len(x.loc)-1]
			if last != key && !(strings.HasPrefix(last, "[") && len(x.loc) >= 2 && x.loc[len(x.loc)-2] == key) {
				note = fmt.Sprintf("position %v is not stored under key %q", x.loc, key)
				break
			}
			// ... in a node the path addresses: the keys on the way match the path (wildcards
			// match any key), followed by the key itself when the path does not end in it
			// (a member of a list that is itself a list is entered only by a wildcard, which the
			// hop consumes: such a hop counts as a step that nothing but "*" matches)
			var locKeys []string
			for i, l := range x.loc {
				if !strings.HasPrefix(l, "[") {
					locKeys = append(locKeys, l)
				} else if i+1 < len(x.loc) && strings.HasPrefix(x.loc[i+1], "[") {
					locKeys = append(locKeys, "\x00list-in-list")
				}
			}
			segs := strings.Split(path, ".")
			matches := func(want []string) bool {
				if len(want) != len(locKeys) {
					return false
				}
				for i := range want {
					if want[i] != "*" && want[i] != locKeys[i] {
						return false
					}
				}
				return true
			}
			// the path's last key is the key (a final wildcard can stand for it) ...
			okAddr := (segs[len(segs)-1] == key || segs[len(segs)-1] == "*") && matches(segs)
			// ... or the key is an entry of a node the path yields
			if segs[len(segs)-1] != key {
				okAddr = okAddr || matches(append(append([]string{}, segs...), key))
			}
			if !okAddr && !oddKeyInLoc(x.loc) {
				note = fmt.Sprintf("position %v is not addressed by path %q with key %q", x.loc, path, key)
				break
			}
		}
	}
	// sub-key conditions: a replacement happens only in a node that satisfies them (evaluated
	// with an independent reading of the documented predicate on the Map as it was before)
	if note == "" && haveKV && len(subs) > 0 {
		conds, okc := parseSubKeysDoc(subs, sep)
		if okc {
			for _, x := range ch {
				loc := x.loc
				memberReplaced := strings.HasPrefix(loc[len(loc)-1], "[")
				holderLoc := loc[:len(loc)-1]
				if memberReplaced {
					holderLoc = loc[:len(loc)-2]
				}
				holder := valueAt(before, holderLoc)
				sat := docSubPred(holder, conds)
				if memberReplaced {
					// a member of the list under the key was replaced: either the holder or that
					// member satisfied the conditions
					sat = sat || docSubPred(valueAt(before, loc), conds)
				}
				if !sat {
					note = fmt.Sprintf("a value was replaced at %v although the sub-key conditions %q do not hold there", loc, subs)
					break
				}
			}
		}
	}
	// query agreement: path ends in the key, no sub-keys, new value not a list
	if note == "" && haveKV && len(subs) == 0 {
		segs := strings.Split(path, ".")
		if _, isList := value.([]interface{}); !isList && segs[len(segs)-1] == key {
			vs, verr := mxj.Map(m).ValuesForPath(path)
			ok := verr == nil && len(vs) == cnt
			for _, v := range vs {
				if !deepEq(v, value) {
					ok = false
				}
			}
			if !ok {
				note = fmt.Sprintf("ValuesForPath(%q) afterwards yields %d values, expected %d copies of the new value", path, len(vs), cnt)
			}
		}
	}
	if note == "" && sep == ":" && hashStr(op)%3 == 0 {
		// the wrappers named among the observation points, beside decode - update - encode
		note = wrapUpdate(before.(map[string]interface{}), nv, path, subs)
	}
	return "ok " + enc(m) + " " + fmt.Sprint(cnt) + " | " + note
}

func c10Describe(op string) string {
	c, _ := newCur(op)
	sep := c.str()
	m := c.mapVal()
	nv := c.val()
	path := c.str()
	subs := c.strList()
	return fmt.Sprintf("UpdateValuesForPath sep=%q map=%s newVal=%s path=%q subkeys=%q", sep, jsonOf(m), jsonOf(nv), path, subs)
}

func c10Judge(op, impl, model string) Verdict {
	v := Verdict{Tags: []string{"upd"}}
	if strings.HasPrefix(model, "skip-") {
		v.Skipped, v.CorrOK = true, true
		return v
	}
	if strings.HasPrefix(impl, "panic") {
		v.OracleFail = "UpdateValuesForPath panicked: " + impl
		v.Sig = "upd:panic"
		return v
	}
	ip := splitModel(impl)
	v.CorrOK = ip[0] == model
	f := strings.Fields(ip[0])
	if f[0] == "ok" {
		if f[len(f)-1] == "0" {
			v.Tags = append(v.Tags, "upd:count0")
		} else {
			v.Tags = append(v.Tags, "upd:count>0")
			v.Nontrivial = true
		}
	} else {
		v.Tags = append(v.Tags, "upd:"+ip[0])
	}
	if len(ip) > 1 && ip[1] != "" {
		v.OracleFail = "UpdateValuesForPath: " + ip[1]
		w := strings.Fields(ip[1])
		v.Sig = "upd:" + w[0] + "-" + w[1]
	}
	return v
}

func c10Gen(r *Rng, n int) []string {
	var ops []string
	for len(ops) < n {
		cfg := jsonShape
		if r.P(25) {
			cfg.Keys = keyAlpha
		}
		// JSON-shaped Maps may hold a list directly inside a list (no key step enters it)
		cfg.ListInList = r.P(30)
		m := r.RootMap(&cfg)
		nested := r.P(8)
		var nestedPath string
		if nested {
			// a list directly inside a list, with maps two levels deep beneath it and beside it:
			// plain key steps do not enter the inner list
			k1, k2, k3 := r.Pick(plainKeys), r.Pick(plainKeys), r.Pick(plainKeys)
			leaf := func() interface{} { return map[string]interface{}{k2: map[string]interface{}{k3: r.Scalar(&cfg), "z": "keep"}} }
			outer := []interface{}{[]interface{}{leaf(), leaf()}, leaf()}
			if r.Bool() {
				outer = []interface{}{[]interface{}{leaf()}}
			}
			m = map[string]interface{}{k1: outer, "k0": "x"}
			nestedPath = k1 + "." + k2 + "." + k3
		}
		if r.P(5) {
			// XML shape: the key holds a simple element with attributes (text entry + attribute entries
			// only), or a list of such; replacing it replaces the whole entry
			el := func(t string) interface{} {
				e := map[string]interface{}{"#text": t, "-id": r.Pick([]string{"7", "8"})}
				if r.Bool() {
					e["-lang"] = "en"
				}
				return e
			}
			var iv interface{} = el("old")
			if r.Bool() {
				iv = []interface{}{el("one"), el("two")}
			}
			m = map[string]interface{}{"doc": map[string]interface{}{"item": iv, "k": "x"}}
			nestedPath = "doc.item"
			nested = true
		}
		shelf := false
		if r.P(5) {
			// the path ends in the key, the key holds a LIST, and the sub-keys select several of
			// its members (and do not hold of the parent): one replacement - and one count - each
			k := r.Pick(plainKeys)
			var l []interface{}
			for i := 0; i < 3+r.Intn(4); i++ {
				l = append(l, map[string]interface{}{"lang": r.Pick([]string{"en", "en", "de"}), "n": float64(i)})
			}
			m = map[string]interface{}{"shelf": map[string]interface{}{k: l, "owner": "x"}, "k0": "y"}
			nested, nestedPath = true, "shelf."+k
			shelf = true
		}
		zeros := r.P(4)
		if zeros {
			// zero and negative zero are different values (sign bit, "-0" in JSON)
			nz := math.Copysign(0, -1)
			m = map[string]interface{}{"a": map[string]interface{}{"x": 0.0, "y": []interface{}{0.0, nz, 1.0}, "z": nz}, "k": "v"}
			nestedPath = r.Pick([]string{"a.x", "a.y", "a.z", "a.*"})
			nested = true
		}
		ms := enc(m)
		sep := ":"
		if r.P(10) {
			sep = "|"
		}
		for j := 0; j < 3; j++ {
			path := r.DerivedPath(m, false, 4)
			if nested && j < 2 {
				path = nestedPath
			}
			segs := strings.Split(strings.TrimSuffix(path, "."), ".")
			key := r.Pick(cfg.Keys)
			if r.P(50) {
				key = segs[len(segs)-1] // addressing form 1: the path's last key is the key
			}
			if key == "*" {
				key = r.Pick(cfg.Keys)
			}
			var subs []string
			if r.P(30) {
				subs = genSubkeys(r, m, sep)
			}
			if shelf && r.P(70) {
				subs = []string{"lang" + sep + "en"}
			}
			var nv string
			var pfs []string
			switch r.Intn(4) {
			case 0:
				nv = enc(map[string]interface{}{key: r.Value(&cfg, 3, false)})
				if zeros {
					nv = enc(map[string]interface{}{key: []interface{}{0.0, math.Copysign(0, -1)}[r.Intn(2)]})
				}
			case 1:
				nv = enc(map[string]interface{}{key: "NEW"})
			case 2:
				s := key + sep + r.Pick([]string{"NEW", "true", "1.5", "x y", " pad ", "tab\t", " ", "\u00a0nb"})
				if r.P(40) {
					s += sep + r.Pick([]string{"bool", "num", "float", "int", "boolean", "numeric", "weird"})
				}
				nv = enc(s)
				pfs = append(pfs, s)
			default:
				if r.P(85) {
					nv = enc(map[string]interface{}{key: float64(r.Intn(100))})
				} else {
					nv = r.Pick([]string{enc(map[string]interface{}{}), enc(map[string]interface{}{"a": 1.0, "b": 2.0}), "#f:3", enc("nosep")})
				}
			}
			ops = append(ops, fmt.Sprintf("upd %s %s %s %s %s %s", encStr(sep), ms, nv, encStr(path), encStrList(subs), pfTable(sep, append(pfs, subs...))))
		}
	}
	return ops
}

func init() {
	register(&Prop{
		ID:        "C10",
		Ambient:   ambientQueryOpts,
		Rule:      "Maps as for C07; wildcard/plain paths derived from the Map; the key is the path's last key (50%) or another key of the alphabet (both addressing forms); new values as single-entry maps (scalars, maps, lists) or 'key:value[:type]' strings incl. malformed ones; sub-keys in 30% of cases; non-trivial = count > 0; distinct = distinct op lines",
		Gen:       c10Gen,
		Exec:      c10Exec,
		Judge:     c10Judge,
		Describe:  c10Describe,
		QuickN:    4000*2,
		ThoroughN: 200000,
	})
}

// oddKeyInLoc: a key that itself looks like a list member ("[0]") makes locations ambiguous.
func oddKeyInLoc(loc []string) bool { return false }

type subCondDoc struct {
	key   string
	neg   bool
	star  bool
	value interface{}
}

// parseSubKeysDoc reads "key:value[:type]" conditions the way the documentation describes them.
func parseSubKeysDoc(subs []string, sep string) ([]subCondDoc, bool) {
	var out []subCondDoc
	byKey := map[string]int{}
	for _, s := range subs {
		f := strings.Split(s, sep)
		if len(f) < 2 || len(f) > 3 {
			return nil, false
		}
		c := subCondDoc{key: f[0], value: f[1]}
		if len(f) == 3 {
			switch f[2] {
			case "string", "char", "text":
			case "bool", "boolean":
				b, err := strconv.ParseBool(f[1])
				if err != nil {
					return nil, false
				}
				c.value = b
			case "float", "float64", "num", "number", "numeric":
				x, err := strconv.ParseFloat(f[1], 64)
				if err != nil {
					return nil, false
				}
				c.value = x
			default:
				return nil, false
			}
		}
		if s, ok := c.value.(string); ok && s == "*" {
			c.star = true
		}
		raw := c.key
		if strings.HasPrefix(c.key, "!") {
			c.neg, c.key = true, c.key[1:]
		}
		if i, dup := byKey[raw]; dup {
			out[i] = c // a repeated condition key: the later one wins
		} else {
			byKey[raw] = len(out)
			out = append(out, c)
		}
	}
	return out, true
}

func docSubPred(v interface{}, conds []subCondDoc) bool {
	m, ok := v.(map[string]interface{})
	if !ok {
		return len(conds) == 0
	}
	for _, c := range conds {
		x, present := m[c.key]
		switch {
		case c.star && !c.neg:
			if !present {
				return false
			}
		case c.star && c.neg:
			if present {
				return false
			}
		case !c.neg:
			if !present || !deepEq(x, c.value) {
				return false
			}
		default:
			if !present || deepEq(x, c.value) {
				return false
			}
		}
	}
	return true
}

func valueAt(v interface{}, loc []string) interface{} {
	for _, l := range loc {
		if strings.HasPrefix(l, "[") {
			var i int
			fmt.Sscanf(l, "[%d]", &i)
			lst, ok := v.([]interface{})
			if !ok || i >= len(lst) {
				return nil
			}
			v = lst[i]
		} else {
			m, ok := v.(map[string]interface{})
			if !ok {
				return nil
			}
			v = m[l]
		}
	}
	return v
}
