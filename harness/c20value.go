package main

// c20value.go - x2j-wrapper's value-extraction functions (MapValue, hasAttributes through it,
// NewAttributeMap, ValuesForKey) against Model/WrapperValue (driver ops wmval / wvfk / wattr) and,
// beside it, against the core composition evaluated directly.

import (
	"fmt"
	"strings"

	mxj "github.com/clbanning/mxj/v2"
	x2jw "github.com/clbanning/mxj/v2/x2j-wrapper"
)

func isValueOp(name string) bool { return name == "wmval" || name == "wvfk" || name == "wattr" }

// wErrKindOf maps the error texts of x2j-wrapper's value functions to the kinds of Wrapper.WErr.
func wErrKindOf(err error) string {
	s := err.Error()
	switch {
	case strings.HasPrefix(s, "no keys beyond: "):
		return "noKeysBeyond"
	case strings.HasPrefix(s, "no key in map: "):
		return "noKeyInMap"
	case s == "no list member with matching attributes":
		return "noListMember"
	case strings.HasPrefix(s, "no attribute with name: "):
		return "noAttrName"
	case strings.HasPrefix(s, "no attribute key:value pair: "):
		return "noAttrPair"
	case s == "no match for attributes":
		return "noAttrMatch"
	case strings.HasPrefix(s, "attribute not \"name:value\" pair: "):
		return "badAttrPair"
	}
	return "other:" + oneLine(s)
}

// nestedGet: the entry a key list names through nested maps only (lists are not looked through).
func nestedGet(m map[string]interface{}, keys []string) (interface{}, bool) {
	var v interface{} = m
	for _, k := range keys {
		mm, ok := v.(map[string]interface{})
		if !ok {
			return nil, false
		}
		if v, ok = mm[k]; !ok {
			return nil, false
		}
	}
	return v, true
}

// attrPick: the documented meaning of the attribute filter, written over the value tree (not the
// wrapper's code): a map node qualifies when it holds every pair; a list yields its first
// qualifying member (lists inside lists searched in order); the result of a qualifying node is its
// "#text" entry when it has one.
func attrPick(v interface{}, attr map[string]interface{}) (interface{}, bool) {
	switch t := v.(type) {
	case []interface{}:
		for _, e := range t {
			if r, ok := attrPick(e, attr); ok {
				return r, true
			}
		}
	case map[string]interface{}:
		for k, want := range attr {
			// (attribute values are scalars: == on the interface values cannot panic)
			if got, ok := t[k]; !ok || got != want {
				return nil, false
			}
		}
		if x, ok := t["#text"]; ok {
			return x, true
		}
		return t, true
	}
	return nil, false
}

func flattenLists(vs []interface{}) []interface{} {
	var out []interface{}
	for _, v := range vs {
		if l, ok := v.([]interface{}); ok {
			out = append(out, l...)
		} else {
			out = append(out, v)
		}
	}
	return out
}

func c20ValueExec(c *cur, name string) string {
	mval := func(v []interface{}) string { return sortedList(encList(v)) }
	switch name {
	case "wattr":
		kv := c.strList()
		if c.err != nil {
			return "bad-op " + c.err.Error()
		}
		a, err := x2jw.NewAttributeMap(kv...)
		// direct oracle: nil without arguments; an error iff some argument does not hold exactly one
		// ':'; otherwise "-"+name -> value, a later pair overwriting an earlier one
		bad := false
		want := map[string]interface{}{}
		for _, p := range kv {
			if strings.Count(p, ":") != 1 {
				bad = true
				break
			}
			i := strings.Index(p, ":")
			want["-"+p[:i]] = p[i+1:]
		}
		note := ""
		switch {
		case len(kv) == 0:
			if a != nil || err != nil {
				note = " | WRAPCORE NewAttributeMap() without arguments does not return (nil, nil)"
			}
		case bad != (err != nil):
			note = fmt.Sprintf(" | WRAPCORE NewAttributeMap(%q): error=%v, a malformed pair present=%v", kv, err, bad)
		case !bad && enc(a) != enc(want):
			note = fmt.Sprintf(" | WRAPCORE NewAttributeMap(%q) returns %s, the pairs are %s", kv, jsonOf(a), jsonOf(want))
		}
		if err != nil {
			return "err " + wErrKindOf(err) + note
		}
		if a == nil {
			return "ok n" + note
		}
		return "ok " + enc(a) + note
	case "wvfk":
		m := c.mapVal()
		key := c.str()
		if c.err != nil {
			return "bad-op " + c.err.Error()
		}
		vs := x2jw.ValuesForKey(m, key)
		note := ""
		if key != "*" {
			core, cerr := mxj.Map(m).ValuesForKey(key)
			if cerr != nil || mval(flattenLists(vs)) != mval(core) {
				note = fmt.Sprintf(" | WRAPCORE x2j-wrapper.ValuesForKey returns %s; with list values taken apart that is not Map.ValuesForKey = %s (err %v)", clip(mval(vs), 300), clip(mval(core), 300), cerr)
			}
		}
		if len(vs) == 0 {
			vs = []interface{}{}
		}
		return "ok " + encList(vs) + note
	default: // wmval
		m := c.mapVal()
		path := c.str()
		av := c.val()
		if c.err != nil {
			return "bad-op " + c.err.Error()
		}
		var attr map[string]interface{}
		if av != nil {
			var ok bool
			if attr, ok = av.(map[string]interface{}); !ok {
				return "bad-op attr is not a map"
			}
		}
		before := enc(attr)
		v, err := x2jw.MapValue(m, path, attr)
		note := ""
		if enc(attr) != before {
			note += " | WRAPCORE MapValue changed its attribute map"
		}
		keys := strings.Split(path, ".")
		// direct oracle: the walk through nested maps, then the attribute filter
		var want interface{}
		wantOK := true
		if keys[0] == "" && len(attr) == 0 {
			want = m
		} else if want, wantOK = nestedGet(m, keys); wantOK && attr != nil {
			want, wantOK = attrPick(want, attr)
		}
		if wantOK != (err == nil) || (wantOK && enc(want) != enc(v)) {
			note += fmt.Sprintf(" | WRAPCORE MapValue returns (%s, %v); walking the nested maps and filtering on the attributes gives (%s, found=%v)", clip(enc(v), 300), err, clip(enc(want), 300), wantOK)
		}
		// the core composition: without attributes and wildcards Map.ValuesForPath returns exactly
		// that value (the members, when it is a list)
		if attr == nil && err == nil && keys[0] != "" && !strings.Contains(path, "[") && !strings.HasSuffix(path, ".") && !hasWildSeg(path) {
			core, cerr := mxj.Map(m).ValuesForPath(path)
			exp := []interface{}{v}
			if l, ok := v.([]interface{}); ok {
				exp = l
			}
			if cerr != nil || encList(core) != encList(exp) {
				note += fmt.Sprintf(" | WRAPCORE MapValue returns %s but Map.ValuesForPath %s (err %v)", clip(enc(v), 300), clip(encList(core), 300), cerr)
			}
		}
		if err != nil {
			return "err " + wErrKindOf(err) + note
		}
		return "ok " + enc(v) + note
	}
}

func c20ValueDescribe(c *cur, name string) string {
	switch name {
	case "wattr":
		return fmt.Sprintf("x2j-wrapper.NewAttributeMap %q", c.strList())
	case "wvfk":
		m := c.mapVal()
		return fmt.Sprintf("x2j-wrapper.ValuesForKey map=%s key=%q", jsonOf(m), c.str())
	}
	m := c.mapVal()
	path := c.str()
	return fmt.Sprintf("x2j-wrapper.MapValue map=%s path=%q attr=%s", jsonOf(m), path, jsonOf(c.val()))
}

func c20ValueJudge(op, impl, model string) Verdict {
	c, name := newCur(op)
	v := Verdict{Tags: []string{name}}
	if strings.HasPrefix(impl, "panic") {
		v.OracleFail = "x2j-wrapper " + name + " panicked: " + impl
		v.Sig = name + ":panic"
		return v
	}
	ip := splitModel(impl)
	if len(ip) > 1 {
		v.OracleFail = strings.Join(ip[1:], "; ")
		v.Sig = name + ":core"
	}
	a, b := ip[0], model
	switch name {
	case "wvfk":
		a, b = canonRes(a, true), canonRes(b, true)
		v.Nontrivial = ip[0] != "ok [ ]"
	case "wmval":
		c.mapVal()
		c.str()
		if am, ok := c.val().(map[string]interface{}); ok && len(am) > 1 {
			// Go ranges over the attribute map in random order: WHICH pair is reported as failing
			// is not determined when there are several
			r := strings.NewReplacer("err noAttrName", "err noAttr*", "err noAttrPair", "err noAttr*")
			a, b = r.Replace(a), r.Replace(b)
		}
		v.Nontrivial = true
	default:
		v.Nontrivial = true
	}
	v.CorrOK = a == b
	if strings.HasPrefix(ip[0], "ok") {
		v.Tags = append(v.Tags, name+":ok")
	} else {
		v.Tags = append(v.Tags, name+":"+strings.TrimPrefix(ip[0], "err "))
	}
	return v
}

func scalarVal(v interface{}) bool {
	switch v.(type) {
	case string, bool, float64:
		return true
	}
	return false
}

// c20ValueOps: op lines for the value functions on one JSON-shaped Map.
func c20ValueOps(r *Rng, wm map[string]interface{}, keyPool []string) []string {
	var ops []string
	ms := enc(wm)
	if r.P(50) {
		ops = append(ops, fmt.Sprintf("wvfk %s %s", ms, encStr(r.Pick(keyPool))))
	}
	for j := 0; j < 2; j++ {
		// a path of plain keys derived from the Map: down through maps; at a list or scalar stop,
		// or (sometimes) go on to meet "no keys beyond"
		var keys []string
		var cur interface{} = wm
		for len(keys) < 4 {
			mm, ok := cur.(map[string]interface{})
			if !ok || len(mm) == 0 {
				break
			}
			ks := sortedKeys(mm)
			k := ks[r.Intn(len(ks))]
			keys = append(keys, k)
			cur = mm[k]
			if r.P(25) {
				break
			}
		}
		switch r.Intn(12) {
		case 0:
			keys = append(keys, r.Pick(keyPool))
			cur = nil
		case 1:
			keys = append([]string{""}, keys...)
		case 2:
			keys, cur = nil, wm
		case 3:
			keys = append(keys, "*")
		}
		path := strings.Join(keys, ".")
		// the attribute map: from the "-" entries of the node reached (or of a member of the list reached)
		attr := "n"
		if r.P(65) {
			node, _ := cur.(map[string]interface{})
			if l, ok := cur.([]interface{}); ok && len(l) > 0 {
				pick := l[r.Intn(len(l))]
				if ll, ok := pick.([]interface{}); ok && len(ll) > 0 {
					pick = ll[r.Intn(len(ll))]
				}
				node, _ = pick.(map[string]interface{})
			}
			am := map[string]interface{}{}
			for _, k := range sortedKeys(node) {
				if strings.HasPrefix(k, "-") && scalarVal(node[k]) && r.P(75) {
					am[k] = node[k]
				}
			}
			if len(am) == 0 && r.P(60) {
				// no "-" entries there: hasAttributes does not look at the prefix, any scalar entry serves
				for _, k := range sortedKeys(node) {
					if scalarVal(node[k]) && r.P(60) {
						am[k] = node[k]
					}
				}
			}
			if !r.P(70) {
				// not matching: a changed value, a value of another type, or a name that is absent
				switch ks := sortedKeys(am); {
				case len(ks) > 0 && r.P(60):
					k := ks[r.Intn(len(ks))]
					if s, ok := am[k].(string); ok && r.Bool() {
						am[k] = s + "x"
					} else {
						am[k] = []interface{}{"other", true, 7.5}[r.Intn(3)]
					}
				default:
					am[r.Pick([]string{"-nope", "-x", "-id", "a"})] = "q"
				}
			}
			attr = enc(am)
		}
		ops = append(ops, fmt.Sprintf("wmval %s %s %s", ms, encStr(path), attr))
	}
	if r.P(30) {
		n := r.Intn(4)
		var kv []string
		for i := 0; i < n; i++ {
			p := r.Pick([]string{"id", "x", "name", "", "a.b"}) + ":" + r.Pick([]string{"1", "v", "", "true", "p q"})
			if r.P(12) {
				p = r.Pick([]string{"novalue", "a:b:c", ":", "::", ""})
			}
			kv = append(kv, p)
		}
		ops = append(ops, "wattr "+encStrList(kv))
	}
	return ops
}
