package main

// c12.go - Map.NewMap versus Mxj.Model.NewMap; oracles: receiver deep-equal before/after,
// exact projection content when no new path equals or extends another.

import (
	"fmt"
	"sort"
	"strings"

	mxj "github.com/clbanning/mxj/v2"
	"github.com/clbanning/mxj/v2/j2x"
)

// deepSortLists sorts every list by canonical text (used only when a wildcard makes the
// order of collected values depend on map iteration order).
func deepSortLists(v interface{}) interface{} {
	switch x := v.(type) {
	case map[string]interface{}:
		o := map[string]interface{}{}
		for k, e := range x {
			o[k] = deepSortLists(e)
		}
		return o
	case []interface{}:
		o := make([]interface{}, len(x))
		for i, e := range x {
			o[i] = deepSortLists(e)
		}
		// (printed as members, so that a member of Go type mxj.Map and a plain map differ)
		key := func(x interface{}) string { return enc([]interface{}{x}) }
		sort.SliceStable(o, func(i, j int) bool { return key(o[i]) < key(o[j]) })
		return o
	}
	return v
}

func hasWildPairs(pairs []string) bool {
	for _, p := range pairs {
		if strings.Contains(p, "*") {
			return true
		}
	}
	return false
}

func pairParts(p string) (string, string, bool) {
	vv := strings.Split(p, ":")
	switch len(vv) {
	case 1:
		return vv[0], vv[0], true
	case 2:
		return vv[0], vv[1], true
	}
	return "", "", false
}

func c12Exec(op string) string {
	c, _ := newCur(op)
	m := c.mapVal()
	pairs := c.strList()
	if c.err != nil {
		return "bad-op " + c.err.Error()
	}
	before := deepCopy(m)
	n, err := mxj.Map(m).NewMap(pairs...)
	note := ""
	if !deepEq(before, m) {
		note = "receiver modified by NewMap"
	} else if err == nil && n == nil {
		note = "NILMAP NewMap returned a nil Map (the empty projection is an empty Map)"
	}
	if note == "" && !strings.Contains(op, "#M:") && hashStr(op)%3 == 0 {
		note = wrapNewXml(m, pairs)
	}
	// the JSON wrappers of NewMap fail exactly when NewMap fails, and return its Map
	if note == "" && !strings.Contains(op, "#M:") { // (JSON text does not carry Go container types)
		if jtxt, jerr := mxj.Map(m).Json(); jerr == nil {
			w1, e1 := j2x.JsonNewJson(jtxt, pairs...)
			_, e2 := j2x.JsonNewXml(jtxt, pairs...)
			switch {
			case (e1 == nil) != (err == nil):
				note = fmt.Sprintf("WRAPPER j2x.JsonNewJson error=%v but Map.NewMap error=%v", e1, err)
			case err != nil && e2 == nil:
				note = "WRAPPER j2x.JsonNewXml succeeded although Map.NewMap rejects the pairs"
			case err == nil:
				if back, berr := mxj.NewMapJson(w1); berr != nil || (!hasWildPairs(pairs) && enc(deepSortLists(toFloats(map[string]interface{}(back)))) != enc(deepSortLists(toFloats(map[string]interface{}(n))))) {
					note = "WRAPPER j2x.JsonNewJson returns a different Map than Map.NewMap"
				}
			}
		}
	}
	// malformed pairs as the documentation of NewMap lists them: more than one ':', a new key
	// (explicit or shorthand) with a wildcard or an index, an empty old or new part
	if err == nil && note == "" {
		for _, p := range pairs {
			if p == "" {
				continue
			}
			ok, nk, fine := pairParts(p)
			if !fine || ok == "" || nk == "" || strings.ContainsAny(nk, "*[") {
				note = fmt.Sprintf("MALFORMED pair %q was accepted without an error", p)
				break
			}
		}
	}
	// exact content when the new paths are prefix-free (no new path equals or extends another)
	if err == nil && note == "" {
		var news [][]string
		valid := true
		for _, p := range pairs {
			if p == "" {
				continue
			}
			_, nk, ok := pairParts(p)
			if !ok {
				valid = false
				break
			}
			news = append(news, strings.Split(strings.TrimSuffix(nk, "."), "."))
		}
		prefixFree := valid
		for i := range news {
			for j := range news {
				if i != j && len(news[i]) <= len(news[j]) && strings.Join(news[j][:len(news[i])], "\x00") == strings.Join(news[i], "\x00") {
					prefixFree = false
				}
			}
		}
		if prefixFree {
			expect := map[string]interface{}{}
			wild := false
			for _, p := range pairs {
				if p == "" {
					continue
				}
				ok, nk, _ := pairParts(p)
				vs, verr := mxj.Map(m).ValuesForPath(ok)
				if verr != nil || len(vs) == 0 {
					continue
				}
				if hasWildSeg(ok) {
					wild = true
				}
				segs := strings.Split(strings.TrimSuffix(nk, "."), ".")
				cur := expect
				for _, s := range segs[:len(segs)-1] {
					nx, _ := cur[s].(map[string]interface{})
					if nx == nil {
						nx = map[string]interface{}{}
						cur[s] = nx
					}
					cur = nx
				}
				if len(vs) == 1 {
					cur[segs[len(segs)-1]] = vs[0]
				} else {
					cur[segs[len(segs)-1]] = vs
				}
			}
			got := interface{}(map[string]interface{}(n))
			var want interface{} = expect
			if wild {
				got, want = deepSortLists(got), deepSortLists(want)
			}
			if enc(got) != enc(want) {
				note = "projection content differs: want " + clip(enc(want), 300) + " got " + clip(enc(got), 300)
			}
		}
	}
	res := "ok " + enc(map[string]interface{}(n))
	if err != nil {
		k := errKindOf(err)
		if strings.HasPrefix(k, "other:") {
			k = "keypair"
		}
		res = "err " + k + " " + enc(map[string]interface{}(n))
	}
	return res + " | " + note
}

func c12Describe(op string) string {
	c, _ := newCur(op)
	m := c.mapVal()
	pairs := c.strList()
	return fmt.Sprintf("NewMap map=%s keypairs=%q", jsonOf(m), pairs)
}

func c12Judge(op, impl, model string) Verdict {
	v := Verdict{Tags: []string{"newmap"}}
	if strings.HasPrefix(model, "skip-") {
		v.Skipped, v.CorrOK = true, true
		return v
	}
	if strings.HasPrefix(impl, "panic") {
		v.OracleFail = "NewMap panicked: " + impl
		v.Sig = "newmap:panic"
		return v
	}
	c, _ := newCur(op)
	c.mapVal()
	pairs := c.strList()
	wild := false
	for _, p := range pairs {
		o, _, _ := pairParts(p)
		if hasWildSeg(o) {
			wild = true
		}
	}
	ip := splitModel(impl)
	if wild && !newPathsPrefixFree(pairs) {
		// a wildcard makes the order of collected values depend on map iteration order, and with
		// overlapping new paths "the first map in the list" then differs from run to run: the
		// implementation itself is not deterministic here, only the oracles are evaluated
		v.Tags = append(v.Tags, "newmap:wildcard+overlap")
		v.Skipped, v.CorrOK = true, true
	} else if wild {
		v.Tags = append(v.Tags, "newmap:wildcard")
		v.CorrOK = canonSorted(ip[0]) == canonSorted(model)
	} else {
		v.CorrOK = ip[0] == model
	}
	v.Nontrivial = strings.HasPrefix(ip[0], "ok { k")
	if strings.HasPrefix(ip[0], "err") {
		v.Tags = append(v.Tags, "newmap:"+strings.Join(strings.Fields(ip[0])[:2], " "))
	}
	if len(ip) > 1 && ip[1] != "" {
		v.OracleFail = "NewMap: " + ip[1]
		v.Sig = "newmap:" + strings.Join(strings.Fields(ip[1])[:2], "-")
	}
	return v
}

// canonSorted re-parses "ok <val>" / "err kind <val>" and sorts every list.
func canonSorted(s string) string {
	toks := strings.Fields(s)
	start := 1
	if len(toks) > 0 && toks[0] == "err" {
		start = 2
	}
	if len(toks) <= start {
		return s
	}
	pos := start
	v, err := decVal(toks, &pos)
	if err != nil {
		return s
	}
	return strings.Join(toks[:start], " ") + " " + enc(deepSortLists(v))
}

func c12Gen(r *Rng, n int) []string {
	newAlpha := []string{"x", "y", "x.c", "x.d", "y.z", "x.c.e", "p", "p.q", "x.", "n.m.o", "x..", "q.r...", "..", ".x",
		// new keys that continue another new key with a byte below '.' (they sort between a key and the keys that extend it)
		"x-y", "x!", "x c", "p-q", "x,c", "x.c-d"}
	var ops []string
	for len(ops) < n {
		cfg := jsonShape
		cfg.MaxDepth = 3
		m := r.RootMap(&cfg)
		wsKey := ""
		if r.P(6) {
			// keys are taken as they are written: white space at their edges belongs to them
			wsKey = r.Pick([]string{" id", "tag ", "\u00a0", " ", "\tk", "a "})
			m[wsKey] = r.Scalar(&cfg)
			m[strings.TrimSpace(wsKey)+"x"[:0]] = "trimmed twin"
		}
		np := 1 + r.Intn(4)
		var pairs []string
		for i := 0; i < np; i++ {
			old := r.DerivedPath(m, r.P(30), 3)
			nk := r.Pick(newAlpha)
			switch {
			case r.P(12):
				pairs = append(pairs, old) // "oldKey" shorthand
			case r.P(6):
				pairs = append(pairs, r.Pick([]string{"", "a:b:c", ":x", "a:", "a:b*", "a:b[0]", ":"}))
			default:
				pairs = append(pairs, old+":"+nk)
			}
			if wsKey != "" && i == 0 {
				pairs[len(pairs)-1] = r.Pick([]string{wsKey + ":" + nk, old + ":" + wsKey, wsKey})
			}
		}
		if r.P(12) {
			// some sub-documents attached as values of Go type mxj.Map (not maps for the walkers; the
			// receiver must stay untouched whatever is projected and wherever it is inserted)
			m = retype(m, r.Next(), "M", 0).(map[string]interface{})
		}
		ops = append(ops, fmt.Sprintf("newmap %s %s", enc(m), encStrList(pairs)))
	}
	return ops
}

func init() {
	register(&Prop{
		ID:        "C12",
		Ambient:   append(append([]func(){}, ambientQueryOpts...), func() { mxj.SetFieldSeparator("|") }, func() { mxj.SetFieldSeparator("=") }, func() { mxj.SetArraySize(40) }),
		Rule:      "Maps as for C07 (depth <= 3); 1-4 key pairs whose old parts are derived plain/wildcard/indexed paths and whose new parts come from a 10-path alphabet (so new paths frequently equal or extend one another); shorthand and malformed pairs; non-trivial = a non-empty Map was built; distinct = distinct op lines",
		Gen:       c12Gen,
		Exec:      c12Exec,
		Judge:     c12Judge,
		Describe:  c12Describe,
		QuickN:    3000*2,
		ThoroughN: 150000,
	})
}

func newPathsPrefixFree(pairs []string) bool {
	var news [][]string
	for _, p := range pairs {
		if p == "" {
			continue
		}
		_, nk, ok := pairParts(p)
		if !ok {
			continue
		}
		news = append(news, strings.Split(strings.TrimSuffix(nk, "."), "."))
	}
	for i := range news {
		for j := range news {
			if i != j && len(news[i]) <= len(news[j]) && strings.Join(news[j][:len(news[i])], "\x00") == strings.Join(news[i], "\x00") {
				return false
			}
		}
	}
	return true
}
