package main

// c01.go - NewMapXml / NewMapXmlReader / NewMapXmlReaderRaw under all decoder options versus
// the streaming-parser model (Mxj.Model.Decode) and the conventions spec (Mxj.Model.Conv).

import (
	"bytes"
	"fmt"
	"io"
	"strings"

	mxj "github.com/clbanning/mxj/v2"
	"github.com/clbanning/mxj/v2/x2j"
)

func xmlErrKind(err error) string {
	if err == io.EOF {
		return "eof"
	}
	s := err.Error()
	if strings.HasPrefix(s, "xml.Decoder.Token() - ") {
		return "syntax"
	}
	if err == mxj.NoRoot {
		return "noroot"
	}
	return "other:" + oneLine(s)
}

// decodeWith runs one of the Map-decoder entry points.
func decodeWith(api int, doc []byte, cast bool) (map[string]interface{}, error) {
	switch api {
	case 1:
		m, err := mxj.NewMapXmlReader(bytes.NewReader(doc), cast)
		return m, err
	case 2:
		m, _, err := mxj.NewMapXmlReaderRaw(bytes.NewReader(doc), cast)
		return m, err
	case 3:
		if !cast {
			return x2j.XmlToMap(doc)
		}
	}
	m, err := mxj.NewMapXml(doc, cast)
	return m, err
}

func c01Exec(op string) string {
	if strings.HasPrefix(op, "xtok ") {
		// the tokenizer model (Model/Tokenizer.lean, C01_bytes_*: Props/C01ExtBytes.lean) against
		// encoding/xml on the bytes of the same document, inside the subset tokModelSupports describes
		return xtokExec(op)
	}
	c, _ := newCur(op)
	o := c.decOpt()
	c.val() // strconv table
	c.val() // tokens
	c.pos++ // fin
	c.val() // tree
	doc := c.str()
	api := c.nat()
	if c.err != nil {
		return "bad-op " + c.err.Error()
	}
	o.apply()
	m, err := decodeWith(api, []byte(doc), o.Cast)
	if err != nil {
		if m != nil {
			return "err " + xmlErrKind(err) + " with-partial-map"
		}
		return "err " + xmlErrKind(err)
	}
	return "ok " + enc(m)
}

func c01Describe(op string) string {
	if strings.HasPrefix(op, "xtok ") {
		c, _ := newCur(op)
		return fmt.Sprintf("tokenizer model vs encoding/xml on the document doc=%q", c.str())
	}
	c, _ := newCur(op)
	o := c.decOpt()
	c.val()
	c.val()
	c.pos++
	c.val()
	doc := c.str()
	api := c.nat()
	return fmt.Sprintf("decode api=%d options=%+v doc=%q", api, o, doc)
}

func c01Judge(op, impl, model string) Verdict {
	if strings.HasPrefix(op, "xtok ") {
		return xtokJudge(op, impl, model)
	}
	v := Verdict{Tags: []string{"xdoc"}}
	if strings.HasPrefix(model, "skip-") {
		v.Skipped, v.CorrOK = true, true
		return v
	}
	if strings.HasPrefix(impl, "panic") {
		v.OracleFail = "decoder panicked: " + impl
		v.Sig = "xdoc:panic"
		return v
	}
	mp := splitModel(model)
	v.CorrOK = impl == mp[0]
	v.Nontrivial = strings.HasPrefix(impl, "ok")
	if !v.Nontrivial {
		v.Tags = append(v.Tags, "xdoc:"+impl)
	}
	if len(mp) >= 3 {
		v.Tags = append(v.Tags, "xdoc:"+mp[2])
		if mp[2] == "dom" && impl != "ok "+mp[1] {
			v.OracleFail = "decoded Map is not the one the documented conventions prescribe: want " + clip(mp[1], 500) + " got " + clip(impl, 500)
			v.Sig = "xdoc:conventions"
		}
	}
	return v
}

var c01Gen0 = XGen{Names: xmlNames, AttrNames: xmlAttrNames, Texts: xmlTexts, MaxDepth: 3, MaxKids: 4, Comments: true, MixedP: 25, MultiTextP: 4, Namespaces: true, Blank: true}

func genXdoc(r *Rng, g *XGen, castOn bool) string {
	root := r.xmlDoc(g)
	if r.P(1) && r.P(30) {
		// "any depth": a chain of more than ten thousand elements
		cur := &XNode{Kind: 'N', Name: "leaf", Kids: []*XNode{{Kind: 'T', Text: "deep"}}}
		for i := 0; i < 10001+r.Intn(300); i++ {
			cur = &XNode{Kind: 'N', Name: "d", Kids: []*XNode{cur}}
		}
		root = &XNode{Kind: 'N', Name: "root", Kids: []*XNode{cur}}
	}
	var sb strings.Builder
	if r.P(10) {
		sb.WriteString(r.Pick([]string{"<?xml version=\"1.0\"?>", "\xef\xbb\xbf", "<!-- lead -->", "\n  ", "<!DOCTYPE x>"}))
	}
	r.render(root, &sb)
	if r.P(10) {
		sb.WriteString(r.Pick([]string{"\n", "<!-- trail -->", "<next/>"}))
	}
	doc := sb.String()
	o := r.decOpt(castOn)
	toks, fin := tokensOf([]byte(doc), false)
	return fmt.Sprintf("xdoc %s %s %s %s %s %s %d", o.enc(), strconvTable(leafTexts([]byte(doc))), toks, fin, encNode(root), encStr(doc), r.Intn(4))
}

// xdocOp builds the op line for a given document, options and (optionally) its tree.
func xdocOp(doc string, o DecOpt, api int, tree *XNode) string {
	toks, fin := tokensOf([]byte(doc), false)
	tr := "n"
	if tree != nil {
		tr = encNode(tree)
	}
	return fmt.Sprintf("xdoc %s %s %s %s %s %s %d", o.enc(), strconvTable(leafTexts([]byte(doc))), toks, fin, tr, encStr(doc), api)
}

// c01Fixed: regression documents for repaired defects (run on every check, all tiers).
func c01Fixed() []string {
	el := func(name string, kids ...*XNode) *XNode { return &XNode{Kind: 'N', Name: name, Kids: kids} }
	tx := func(s string) *XNode { return &XNode{Kind: 'T', Text: s} }
	d := defaultDecOpt()
	asMapKeep := d
	asMapKeep.AsMap, asMapKeep.KeepSpace = true, true
	castOn := d
	castOn.Cast = true
	return []string{
		// F-CDATA-SPLIT: text + CDATA are one run
		xdocOp("<c>-<![CDATA[5]]></c>", d, 0, el("c", tx("-5"))),
		xdocOp("<c>-<![CDATA[5]]></c>", castOn, 1, el("c", tx("-5"))),
		xdocOp("<r><a>x<![CDATA[<y>]]>z</a><b><![CDATA[ ]]>k</b></r>", d, 2, el("r", el("a", tx("x<y>z")), el("b", tx(" k")))),
		// F-ASMAP-LEAD: non-blank text ahead of the root with DecodeSimpleValuesAsMap
		xdocOp("lead<a>v</a>", asMapKeep, 0, nil),
		xdocOp("\n  <a>v</a>", asMapKeep, 1, nil),
	}
}

// xdocBytes: the document of an xdoc op line
func xdocBytes(op string) (string, bool) {
	if !strings.HasPrefix(op, "xdoc ") {
		return "", false
	}
	c, _ := newCur(op)
	c.decOpt()
	c.val()
	c.val()
	c.pos++
	c.val()
	doc := c.str()
	return doc, c.err == nil
}

func c01Gen(r *Rng, n int) []string {
	var ops []string
	for len(ops) < n {
		g := c01Gen0
		ops = append(ops, genXdoc(r, &g, r.P(30)))
	}
	// C01ExtBytes: the byte-level theorems rest on the tokenizer model; compare it with
	// encoding/xml on the generated documents (varied surface syntax: references, CDATA, quote
	// styles, white space in tags, comments, PIs); documents outside the model's subset
	// (tokModelSupports) are counted as xtok:skip.  These ops come on top of the n xdoc ops.
	// (one document in two, and none of the rare LARGE ones: the model tokenizer re-checks progress
	// per step, which is quadratic on very long inputs; c02.go and c19.go compare more documents)
	for i, op := range ops[:len(ops):len(ops)] {
		if doc, ok := xdocBytes(op); ok && i%2 == 0 && len(doc) < 20000 {
			ops = append(ops, "xtok "+encStr(doc))
		}
	}
	return ops
}

func init() {
	register(&Prop{
		ID:        "C01",
		Rule:      "XML trees (depth <= 3, <= 4 children, repeated and interleaved sibling names, namespaced names and xmlns declarations, comments/PIs/directives, inter-element whitespace, mixed content 25%, more than one text run 4% (outside the domain, correspondence only)) rendered with varied surface syntax (entity and numeric references, CDATA, quote styles); all decoder options drawn independently per case; four entry points; non-trivial = a Map was decoded; distinct = distinct op lines",
		Gen:       c01Gen,
		Exec:      c01Exec,
		Judge:     c01Judge,
		Describe:  c01Describe,
		QuickN:    4000,
		ThoroughN: 200000,
		Fixed:     c01Fixed,
	})
}
