//go:build verif && verifcover

package main

// cover_test.go - measurement only (tools/coverage.sh): runs the generated cases of one property inside
// `go test -coverpkg` so that the statements of /repo the correspondence never executes can be listed.

import (
	"os"
	"testing"
)

func TestCover(t *testing.T) {
	initOptions()
	resetOptions()
	p := props[os.Getenv("VERIF_COVER_PROP")]
	if p == nil {
		t.Skip("VERIF_COVER_PROP not set")
	}
	res, err := runProp(p, "quick", 1, os.Getenv("VERIF_COVER_DRIVER"), "/verif", 1)
	if err != nil {
		t.Fatal(err)
	}
	t.Logf("%s: %d cases", p.ID, res.Evaluations)
}
